import PharmpyProofs.C01.AdvanLemmas
/-
  C01 — built-in kinetic libraries (ADVAN/TRANS).  Property theorems only.

  `codeFlows` is computed from `PharmpyModel/Generated/Advan.lean`, which the
  translator T1 regenerates from advan.py on every run; `specFlows` is the
  PREDPP table of `PharmpyModel/C01/Advan.lean`.
-/
namespace Pharmpy.C01
open Pharmpy

/-- The (ADVAN, TRANS) entries on which the code's rate expressions mention
    only basic PK parameters of that TRANS (and amounts). -/
theorem advan_closed_entries :
    closedEntries =
      [("ADVAN1", "TRANS1"), ("ADVAN1", "TRANS2"), ("ADVAN2", "TRANS1"), ("ADVAN2", "TRANS2"),
       ("ADVAN3", "TRANS1"), ("ADVAN3", "TRANS3"), ("ADVAN3", "TRANS4"),
       ("ADVAN4", "TRANS1"), ("ADVAN4", "TRANS3"), ("ADVAN4", "TRANS4"),
       ("ADVAN10", "TRANS1"),
       ("ADVAN11", "TRANS1"), ("ADVAN11", "TRANS4"),
       ("ADVAN12", "TRANS1"), ("ADVAN12", "TRANS4")] := by
  decide +kernel

/-- On every closed entry the flows built by advan.py are the PREDPP flows:
    same compartment numbers, same order, and rate expressions that are
    *identical terms* over the basic parameters. -/
theorem advan_table_syntactic :
    ∀ p ∈ closedEntries, (codeFlows p.1 p.2).isSome = true ∧ codeFlows p.1 p.2 = specFlows p.1 p.2 := by
  decide +kernel

/-- **advan_table_correct_partial.** Hence, for every carrier, every
    interpretation of the arithmetic operations and every assignment of values
    to the PK parameters, each rate constant the model object uses evaluates to
    the rate constant NONMEM defines for that ADVAN/TRANS. -/
theorem advan_table_correct_partial {α : Type} (I : Interp α) (ρ : Env α) :
    ∀ p ∈ closedEntries,
      (codeFlows p.1 p.2).map (List.map (fun f => (f.src, f.dst, f.rate.eval I ρ)))
        = (specFlows p.1 p.2).map (List.map (fun f => (f.src, f.dst, f.rate.eval I ρ))) := by
  intro p hp
  rw [(advan_table_syntactic p hp).2]

/-- **advan_table_open_symbols_witness** (finding F9): for ADVAN3/4 TRANS5 and
    TRANS6, and ADVAN11/12 TRANS6, the code's rate expressions mention
    micro-constants that are not basic parameters of the TRANS and that nothing
    defines; the full statement `∀ entries, codeFlows = specFlows` is false. -/
theorem advan_table_open_symbols_witness :
    openSyms "ADVAN3" "TRANS5" = ["K21", "K"] ∧ openSyms "ADVAN4" "TRANS5" = ["K32", "K"] ∧
    openSyms "ADVAN3" "TRANS6" = ["K"] ∧ openSyms "ADVAN4" "TRANS6" = ["K"] ∧
    openSyms "ADVAN11" "TRANS6" = ["K", "K13"] ∧ openSyms "ADVAN12" "TRANS6" = ["K", "K24"] ∧
    codeFlows "ADVAN3" "TRANS5" ≠ specFlows "ADVAN3" "TRANS5" := by
  decide +kernel

/-- The specification itself is closed: every symbol of a PREDPP rate is a basic
    parameter of the TRANS (or the central amount for ADVAN10). -/
theorem spec_table_closed :
    ∀ p ∈ specEntries,
      (match specFlows p.1 p.2, basicParams p.1 p.2 with
       | some fs, some bp => (flowSyms fs).all (fun y => bp.contains y || amountSyms.contains y)
       | _, _ => false) = true := by
  decide +kernel

/-- **advan_wiring_correct.** Default dose and observation compartments, and the
    numbering used for ALAGn / Fn / comp_map, are NONMEM's. -/
theorem advan_wiring_correct :
    ∀ a ∈ ["ADVAN1", "ADVAN2", "ADVAN3", "ADVAN4", "ADVAN10", "ADVAN11", "ADVAN12"],
      codeObs a = specObs a ∧ codeDose a = specDose a ∧
      (findArm a).map armNumberingOk = some true := by
  decide +kernel

/-! ## The PREDPP table satisfies the defining relations of the parametrisations -/

/-- TRANS5 (two compartments; flows `K`, `K12`, `K21` in this order): the expanded
    rate constants have `ALPHA`, `BETA` as the two disposition rate constants
    (`α+β = K+K12+K21`, `αβ = K·K21`) and `K21 = (AOB·β+α)/(AOB+1)`. -/
theorem spec_trans5_vieta {K : Type} [Field K] (ρ : Env K)
    (h1 : ρ "AOB" + 1 ≠ 0) (h2 : ρ "AOB" * ρ "BETA" + ρ "ALPHA" ≠ 0) :
    let k := (specRate "ADVAN3" "TRANS5" 0).eval (fieldI K) ρ
    let k12 := (specRate "ADVAN3" "TRANS5" 1).eval (fieldI K) ρ
    let k21 := (specRate "ADVAN3" "TRANS5" 2).eval (fieldI K) ρ
    k + k12 + k21 = ρ "ALPHA" + ρ "BETA" ∧ k * k21 = ρ "ALPHA" * ρ "BETA" ∧
    k21 * (ρ "AOB" + 1) = ρ "AOB" * ρ "BETA" + ρ "ALPHA" := by
  have e21 : specRate "ADVAN3" "TRANS5" 2 =
      .f2 "div" (.f2 "add" (.f2 "mul" (.sym "AOB") (.sym "BETA")) (.sym "ALPHA")) (.f2 "add" (.sym "AOB") (.lit 1)) := by
    decide +kernel
  have e0 : specRate "ADVAN3" "TRANS5" 0 =
      .f2 "div" (.f2 "mul" (.sym "ALPHA") (.sym "BETA")) (specRate "ADVAN3" "TRANS5" 2) := by
    decide +kernel
  have e12 : specRate "ADVAN3" "TRANS5" 1 =
      .f2 "sub" (.f2 "sub" (.f2 "add" (.sym "ALPHA") (.sym "BETA")) (specRate "ADVAN3" "TRANS5" 2))
        (specRate "ADVAN3" "TRANS5" 0) := by
    decide +kernel
  intro k k12 k21
  have hk21 : k21 = (ρ "AOB" * ρ "BETA" + ρ "ALPHA") / (ρ "AOB" + 1) := by
    simp only [k21, e21, ev_div, ev_add, ev_mul, ev_sym, ev_lit]; norm_num
  have hk21ne : k21 ≠ 0 := by rw [hk21]; exact div_ne_zero h2 h1
  have hk : k = ρ "ALPHA" * ρ "BETA" / k21 := by
    simp only [k, k21, e0, ev_div, ev_mul, ev_sym]
  have hk12 : k12 = ρ "ALPHA" + ρ "BETA" - k21 - k := by
    simp only [k12, k21, k, e12, ev_sub, ev_add, ev_sym]
  refine ⟨by rw [hk12]; ring, by rw [hk]; field_simp, by rw [hk21]; field_simp⟩

/-- TRANS6 (three compartments; flows `K`, `K12`, `K21`, `K13`, `K31` in this
    order): the expanded `K`, `K12`, `K13` together with the basic `K21`, `K31`
    have `ALPHA`, `BETA`, `GAMMA` as the roots of the characteristic polynomial
    (the three Vieta relations). -/
theorem spec_trans6_vieta {K : Type} [Field K] (ρ : Env K)
    (h1 : ρ "K21" ≠ 0) (h2 : ρ "K31" ≠ 0) (h3 : ρ "K21" - ρ "K31" ≠ 0) :
    let k := (specRate "ADVAN11" "TRANS6" 0).eval (fieldI K) ρ
    let k12 := (specRate "ADVAN11" "TRANS6" 1).eval (fieldI K) ρ
    let k21 := (specRate "ADVAN11" "TRANS6" 2).eval (fieldI K) ρ
    let k13 := (specRate "ADVAN11" "TRANS6" 3).eval (fieldI K) ρ
    let k31 := (specRate "ADVAN11" "TRANS6" 4).eval (fieldI K) ρ
    let a := ρ "ALPHA"
    let b := ρ "BETA"
    let g := ρ "GAMMA"
    k21 = ρ "K21" ∧ k31 = ρ "K31" ∧
    k + k12 + k13 + k21 + k31 = a + b + g ∧
    k * k21 + k * k31 + k21 * k31 + k13 * k21 + k12 * k31 = a * b + a * g + b * g ∧
    k * k21 * k31 = a * b * g := by
  have e2 : specRate "ADVAN11" "TRANS6" 2 = .sym "K21" := by decide +kernel
  have e4 : specRate "ADVAN11" "TRANS6" 4 = .sym "K31" := by decide +kernel
  have e0 : specRate "ADVAN11" "TRANS6" 0 =
      .f2 "div" (.f2 "mul" (.f2 "mul" (.sym "ALPHA") (.sym "BETA")) (.sym "GAMMA")) (.f2 "mul" (.sym "K21") (.sym "K31")) := by
    decide +kernel
  have e3 : specRate "ADVAN11" "TRANS6" 3 =
      .f2 "div" (.f2 "sub" (.f2 "sub" (.f2 "add"
          (.f2 "add" (.f2 "add" (.f2 "mul" (.sym "ALPHA") (.sym "BETA")) (.f2 "mul" (.sym "ALPHA") (.sym "GAMMA"))) (.f2 "mul" (.sym "BETA") (.sym "GAMMA")))
          (.f2 "mul" (.sym "K31") (.sym "K31")))
          (.f2 "mul" (.sym "K31") (.f2 "add" (.f2 "add" (.sym "ALPHA") (.sym "BETA")) (.sym "GAMMA"))))
          (.f2 "mul" (specRate "ADVAN11" "TRANS6" 0) (.sym "K21")))
        (.f2 "sub" (.sym "K21") (.sym "K31")) := by
    decide +kernel
  have e1 : specRate "ADVAN11" "TRANS6" 1 =
      .f2 "sub" (.f2 "sub" (.f2 "sub" (.f2 "sub" (.f2 "add" (.f2 "add" (.sym "ALPHA") (.sym "BETA")) (.sym "GAMMA"))
        (specRate "ADVAN11" "TRANS6" 0)) (specRate "ADVAN11" "TRANS6" 3)) (.sym "K21")) (.sym "K31") := by
    decide +kernel
  intro k k12 k21 k13 k31 a b g
  have hk21 : k21 = ρ "K21" := by simp only [k21, e2, ev_sym]
  have hk31 : k31 = ρ "K31" := by simp only [k31, e4, ev_sym]
  have hk : k = a * b * g / (ρ "K21" * ρ "K31") := by
    simp only [k, a, b, g, e0, ev_div, ev_mul, ev_sym]
  have hk13 : k13 = (a * b + a * g + b * g + ρ "K31" * ρ "K31" - ρ "K31" * (a + b + g) - k * ρ "K21")
      / (ρ "K21" - ρ "K31") := by
    simp only [k13, k, a, b, g, e3, ev_div, ev_sub, ev_add, ev_mul, ev_sym]
  have hk12 : k12 = a + b + g - k - k13 - ρ "K21" - ρ "K31" := by
    simp only [k12, k, k13, a, b, g, e1, ev_sub, ev_add, ev_sym]
  refine ⟨hk21, hk31, ?_, ?_, ?_⟩
  · rw [hk12, hk21, hk31]; ring
  · rw [hk12, hk21, hk31, hk13]; field_simp; ring
  · rw [hk21, hk31, hk]; field_simp

end Pharmpy.C01
