import PharmpyModel.C01.Omega
import Mathlib.Tactic.Ring
import Mathlib.Tactic.Linarith
/-
  Helper lemmas for the `$OMEGA`/`$SIGMA` block forms.
-/
namespace Pharmpy.C01.Omega

/-! ### triangular numbers, integer square root -/

theorem tri_succ (n : Nat) : tri (n + 1) = tri n + (n + 1) := rfl

theorem tri_closed (n : Nat) : 2 * tri n = n * (n + 1) := by
  induction n with
  | zero => rfl
  | succ n ih =>
    calc 2 * tri (n + 1) = 2 * tri n + 2 * (n + 1) := by rw [tri_succ]; ring
      _ = n * (n + 1) + 2 * (n + 1) := by rw [ih]
      _ = (n + 1) * (n + 1 + 1) := by ring

theorem tri_mono {a b : Nat} (h : a ≤ b) : tri a ≤ tri b := by
  induction h with
  | refl => exact Nat.le_refl _
  | step _ ih => exact Nat.le_trans ih (by rw [tri_succ]; omega)

theorem isqrtAux_spec (n r : Nat) (hr : r * r ≤ n) :
    ∀ m, r ≤ m → (∀ k, r < k → k ≤ m → ¬ k * k ≤ n) → isqrtAux n m = r := by
  intro m
  induction m with
  | zero => intro h _; simp [isqrtAux]; omega
  | succ m ih =>
    intro h hmax
    unfold isqrtAux
    by_cases hm : (m + 1) * (m + 1) ≤ n
    · simp only [hm, if_true]
      by_contra hne
      exact hmax (m + 1) (by omega) (Nat.le_refl _) hm
    · simp only [hm, if_false]
      have hrm : r ≤ m := by
        by_contra hc
        have : r = m + 1 := by omega
        exact hm (this ▸ hr)
      exact ih hrm (fun k hk hkm => hmax k hk (by omega))

/-- `triangular_root(T(n)) = n` for every `n`. -/
theorem triangularRoot_tri (n : Nat) : triangularRoot (tri n) = n := by
  unfold triangularRoot isqrt
  rw [tri_closed]
  apply isqrtAux_spec
  · nlinarith
  · nlinarith
  · intro k hk _ hle
    have : (n + 1) * (n + 1) ≤ k * k := Nat.mul_le_mul hk hk
    nlinarith

/-! ### row-by-row reading = flat position `T(i) + j` -/

def off : Nat → Nat → Nat
  | _, 0 => 0
  | s, i + 1 => (s + 1) + off (s + 1) i

theorem tri_off : ∀ i s, tri s + off s i = tri (s + i) := by
  intro i
  induction i with
  | zero => intro s; simp [off]
  | succ i ih =>
    intro s
    have := ih (s + 1)
    rw [tri_succ] at this
    have e : s + (i + 1) = s + 1 + i := by omega
    rw [e, ← this]
    simp only [off]
    omega

theorem off_zero (i : Nat) : off 0 i = tri i := by
  have := tri_off i 0
  simpa [tri] using this

theorem getR_take (x : List Rat) (n j : Nat) (h : j < n) : getR (x.take n) j = getR x j := by
  simp [getR, List.getD_eq_getElem?_getD, h]

theorem getR_drop (x : List Rat) (n j : Nat) : getR (x.drop n) j = getR x (n + j) := by
  simp [getR, List.getD_eq_getElem?_getD, List.getElem?_drop]

theorem rowAt_get : ∀ (i s : Nat) (x : List Rat) (j : Nat), j ≤ s + i →
    getR (rowAt s i x) j = getR x (off s i + j) := by
  intro i
  induction i with
  | zero =>
    intro s x j h
    simp only [rowAt, off, Nat.zero_add]
    exact getR_take x (s + 1) j (by omega)
  | succ i ih =>
    intro s x j h
    simp only [rowAt, off]
    rw [ih (s + 1) (x.drop (s + 1)) j (by omega), getR_drop]
    congr 1
    omega

/-! ### sums -/

theorem sumRange_succ (n : Nat) (f : Nat → Rat) : sumRange (n + 1) f = sumRange n f + f n := by
  simp [sumRange, List.range_succ, List.foldl_append]

theorem sumRange_congr (n : Nat) (f g : Nat → Rat) (h : ∀ k, k < n → f k = g k) :
    sumRange n f = sumRange n g := by
  induction n with
  | zero => rfl
  | succ n ih =>
    rw [sumRange_succ, sumRange_succ, ih (fun k hk => h k (by omega)), h n (by omega)]

theorem sumRange_zero_tail (m : Nat) (f : Nat → Rat) :
    ∀ d, (∀ k, m ≤ k → f k = 0) → sumRange (m + d) f = sumRange m f := by
  intro d
  induction d with
  | zero => intro _; rfl
  | succ d ih =>
    intro h
    rw [← Nat.add_assoc, sumRange_succ, ih h, h (m + d) (by omega), add_zero]

end Pharmpy.C01.Omega
