import PharmpyModel.C01.Theta
import PharmpyProofs.C01.ThetaLemmas

/-
  C01 — "same population parameters (initial value, bounds, fixedness)", `$THETA` in all
  documented forms including `(value)xn` — for every number of records, items, comments
  and every multiplicity.
-/
namespace Pharmpy.C01.Theta

variable {I B F : Type}

/-- `comment_names` returns exactly one entry per THETA the record declares, whatever comments
the record carries (the list `parse_parameters` enumerates). -/
theorem comment_names_length (evs : List Ev) (h : ∀ m ∈ mults evs, 1 ≤ m) :
    (commentNames evs).length = (mults evs).sum :=
  commentNames_length_aux evs h

/-- The model object gets exactly the THETAs NM-TRAN defines for the records — `n` consecutive
parameters with the item's initial value, bounds and fixedness for `(value)xn` — in order,
independently of the comments. -/
theorem theta_parameters_correct (recs : List (Rec I B F))
    (hwf : ∀ r ∈ recs, r.wf) (hpos : ∀ r ∈ recs, ∀ it ∈ r.items, 1 ≤ it.n) :
    readThetas recs = some (specThetas recs) :=
  readThetas_spec recs hwf hpos

/-- Number of theta parameters = sum of the multiplicities. -/
theorem theta_count (recs : List (Rec I B F))
    (hwf : ∀ r ∈ recs, r.wf) (hpos : ∀ r ∈ recs, ∀ it ∈ r.items, 1 ≤ it.n) :
    (readThetas recs).map List.length = some ((recs.flatMap (fun r => r.items.map (·.n))).sum) := by
  rw [readThetas_spec recs hwf hpos]
  simp only [Option.map_some, Option.some.injEq]
  exact specThetas_length recs

/-- A comment after the first of the repeated THETAs names that one; the others keep `None`. -/
theorem comment_names_repeated (n : Nat) (nm : Option String) :
    commentNames [.theta (n + 1), .comment nm] = nm :: List.replicate n none := by
  simp [commentNames, step, St.init, pad]

/-- The multiplicity side-condition is needed: `(value)x0` with a comment yields a name for a
THETA that does not exist. -/
theorem comment_names_x0_witness :
    (commentNames [.theta 0, .comment (some "A")]).length ≠ (mults [.theta 0, .comment (some "A")]).sum := by
  decide

/-- Non-vacuity: the seeded shape `(0,0.5,1)x2 ; fractions` / `(-10,2,10) ; slope` / `(0,7) ; baseline`. -/
example :
    readThetas (I := Nat) (B := Unit) (F := Unit)
      [⟨[⟨0, (), (), 2⟩], [.theta 2, .comment (some "fractions")]⟩,
       ⟨[⟨1, (), (), 1⟩], [.theta 1, .comment (some "slope")]⟩,
       ⟨[⟨2, (), (), 1⟩], [.theta 1, .comment (some "baseline")]⟩]
      = some [(0, (), ()), (0, (), ()), (1, (), ()), (2, (), ())] := by decide

example : commentNames [.comment (some "pre"), .theta 3, .comment (some "a"), .comment none, .theta 1, .theta 1,
    .comment (some "c"), .comment (some "d")] = [some "a", none, none, none, some "c"] := by decide

end Pharmpy.C01.Theta
