import PharmpyProofs.C01.Lemmas
/-
  The block-IF lemmas: pharmpy's per-symbol piecewise statements against
  "pick the first branch whose condition holds and run it".
-/
namespace Pharmpy.C01
open Pharmpy Expr

variable {α : Type}

/-! ### piecewise chains with an explicit default -/

/-- `mkPw` with terminal `d` instead of the undefined value. -/
def mkPwD (d : Expr) : List (Expr × Option Expr) → Expr
  | [] => d
  | (e, none) :: _ => e
  | (e, some c) :: rest => .f3 "ite" c e (mkPwD d rest)

theorem mkPw_eq_mkPwD (ps : List (Expr × Option Expr)) : mkPw ps = mkPwD nanE ps := by
  induction ps with
  | nil => rfl
  | cons p r ih =>
    obtain ⟨e, l⟩ := p
    cases l with
    | none => rfl
    | some c => simp [mkPw, mkPwD, ih]

theorem mkPw_append_default (d : Expr) (ps : List (Expr × Option Expr)) :
    mkPw (ps ++ [(d, none)]) = mkPwD d ps := by
  induction ps with
  | nil => rfl
  | cons p r ih =>
    obtain ⟨e, l⟩ := p
    cases l with
    | none => rfl
    | some c => simp [mkPw, mkPwD, ih]

theorem mkPwD_lastIsTrue (d d' : Expr) :
    ∀ ps : List (Expr × Option Expr), lastIsTrue ps = true → mkPwD d ps = mkPwD d' ps := by
  intro ps
  induction ps with
  | nil => intro h; simp [lastIsTrue] at h
  | cons p r ih =>
    intro h
    obtain ⟨e, l⟩ := p
    cases l with
    | none => rfl
    | some c =>
      cases r with
      | nil => simp [lastIsTrue] at h
      | cons q r' =>
        have : lastIsTrue (q :: r') = true := by
          simpa [lastIsTrue, List.getLast?_cons_cons] using h
        simp [mkPwD, ih this]

def dfl (seen : List Sym) (x : Sym) : Expr := if seen.contains x then .sym x else nanE

theorem blockExpr_eq (seen : List Sym) (bl : Blocks) (x : Sym) :
    blockExpr seen bl x = mkPwD (dfl seen x) (pairsFor x bl) := by
  unfold blockExpr dfl
  by_cases hl : lastIsTrue (pairsFor x bl) = true
  · simp only [hl, Bool.not_true, Bool.false_and]
    rw [mkPw_eq_mkPwD]
    exact mkPwD_lastIsTrue _ _ _ hl
  · have hl' : lastIsTrue (pairsFor x bl) = false := by simpa using hl
    by_cases hs : seen.contains x = true
    · simp only [hl', hs, Bool.not_false, Bool.and_self, if_true]
      exact mkPw_append_default _ _
    · have hs' : seen.contains x = false := by simpa using hs
      simp only [hl', hs', Bool.not_false, Bool.and_false]
      exact mkPw_eq_mkPwD _

/-! ### picking a branch -/

def holds (S : Sem α) (ρ : Env α) : Option Expr → Bool
  | none => true
  | some c => S.truth (c.eval S.I ρ)

/-- First block whose condition holds. -/
def pick (S : Sem α) (ρ : Env α) : Blocks → Option (List (Sym × Expr))
  | [] => none
  | (l, a) :: r => if holds S ρ l then some a else pick S ρ r

/-- Pairs contributed by one block. -/
def blockPairs (x : Sym) (l : Option Expr) (a : List (Sym × Expr)) : List (Expr × Option Expr) :=
  (a.filter (fun p => p.1 == x)).map (fun p => (p.2, l))

theorem eval_blockPairs (S : Sem α) (ρ : Env α) (x : Sym) (l : Option Expr) (d : Expr)
    (P : List (Expr × Option Expr)) :
    ∀ a : List (Sym × Expr),
      eval S.I ρ (mkPwD d (blockPairs x l a ++ P)) =
        match look x a with
        | some e => if holds S ρ l then eval S.I ρ e else eval S.I ρ (mkPwD d P)
        | none => eval S.I ρ (mkPwD d P) := by
  intro a
  induction a with
  | nil => simp [blockPairs, look]
  | cons p r ih =>
    obtain ⟨z, e⟩ := p
    by_cases hz : z = x
    · subst hz
      have hbp : blockPairs z l ((z, e) :: r) = (e, l) :: blockPairs z l r := by
        simp [blockPairs]
      rw [hbp]
      simp only [look, if_true, List.cons_append]
      cases l with
      | none => simp [mkPwD, holds]
      | some c =>
        simp only [mkPwD, eval, S.ite_law, holds]
        by_cases hc : S.truth (eval S.I ρ c) = true
        · simp [hc]
        · have hc' : S.truth (eval S.I ρ c) = false := by simpa using hc
          simp only [hc']
          rw [ih]
          cases look z r <;> simp [holds, hc']
    · have hbp : blockPairs x l ((z, e) :: r) = blockPairs x l r := by
        simp [blockPairs, hz]
      rw [hbp, ih]
      simp [look, hz]

theorem pairsFor_nil_of_absent (x : Sym) :
    ∀ bl : Blocks, (∀ b ∈ bl, look x b.2 = none) → pairsFor x bl = [] := by
  intro bl
  induction bl with
  | nil => intro _; rfl
  | cons b r ih =>
    intro h
    obtain ⟨l, a⟩ := b
    have ha : look x a = none := h (l, a) (List.mem_cons_self ..)
    have : a.filter (fun p => p.1 == x) = [] := by
      rw [look_none_iff] at ha
      apply List.filter_eq_nil_iff.mpr
      intro p hp hpx
      apply ha
      simp only [List.mem_map]
      exact ⟨p, hp, by simpa using hpx⟩
    simp [pairsFor, this, ih (fun b hb => h b (List.mem_cons_of_mem _ hb))]

def symsOf (bl : Blocks) : List (List Sym) := bl.map (fun b => b.2.map (fun p => p.1))

/-- Value of the piecewise generated for `x`, when the branches assigning `x`
    form a prefix of the branch list. -/
theorem eval_pairsFor (S : Sem α) (ρ : Env α) (x : Sym) (d : Expr) :
    ∀ bl : Blocks, prefixClosed (symsOf bl) = true →
      eval S.I ρ (mkPwD d (pairsFor x bl)) =
        match pick S ρ bl with
        | some a => (match look x a with
                     | some e => eval S.I ρ e
                     | none => eval S.I ρ d)
        | none => eval S.I ρ d := by
  intro bl
  induction bl with
  | nil => intro _; simp [pairsFor, mkPwD, pick]
  | cons b r ih =>
    intro hp
    obtain ⟨l, a⟩ := b
    simp only [symsOf, List.map_cons, prefixClosed, Bool.and_eq_true] at hp
    have hp2 : prefixClosed (symsOf r) = true := hp.2
    have hstep : pairsFor x ((l, a) :: r) = blockPairs x l a ++ pairsFor x r := rfl
    rw [hstep, eval_blockPairs]
    cases hl : look x a with
    | some e =>
      simp only [pick]
      by_cases hh : holds S ρ l = true
      · simp [hh, hl]
      · have hh' : holds S ρ l = false := by simpa using hh
        simp only [hh']
        exact ih hp2
    | none =>
      -- x is assigned in no later block either
      have habs : ∀ b ∈ r, look x b.2 = none := by
        intro b hb
        rw [look_none_iff]
        intro hx
        have h1 := hp.1
        simp only [List.all_eq_true, List.mem_map] at h1
        have := h1 (b.2.map (fun p => p.1)) ⟨b, hb, rfl⟩ x hx
        have hxa : x ∈ a.map (fun p => p.1) := by simpa using this
        exact ((look_none_iff x a).mp hl) hxa
      rw [pairsFor_nil_of_absent x r habs]
      simp only [mkPwD, pick]
      by_cases hh : holds S ρ l = true
      · simp [hh, hl]
      · have hh' : holds S ρ l = false := by simpa using hh
        simp only [hh']
        -- whatever is picked later does not assign x
        have : ∀ r' : Blocks, (∀ b ∈ r', look x b.2 = none) →
            (match pick S ρ r' with
              | some a => (match look x a with
                           | some e => eval S.I ρ e
                           | none => eval S.I ρ d)
              | none => eval S.I ρ d) = eval S.I ρ d := by
          intro r'
          induction r' with
          | nil => intro _; simp [pick]
          | cons b' r'' ih' =>
            intro hb'
            obtain ⟨l', a'⟩ := b'
            simp only [pick]
            by_cases h'' : holds S ρ l' = true
            · have := hb' (l', a') (List.mem_cons_self ..)
              simp only at this
              simp [h'', this]
            · have h''' : holds S ρ l' = false := by simpa using h''
              simp only [h''']
              exact ih' (fun b hb => hb' b (List.mem_cons_of_mem _ hb))
        exact (this r habs).symm

/-! ### symbols read by a generated piecewise -/

def blReads (bl : Blocks) : List Sym :=
  bl.flatMap (fun b => (match b.1 with | some c => c.syms | none => []) ++ b.2.flatMap (fun p => p.2.syms))

theorem syms_mkPwD (d : Expr) :
    ∀ (ps : List (Expr × Option Expr)) (y : Sym), y ∈ (mkPwD d ps).syms →
      y ∈ d.syms ∨ ∃ p ∈ ps, y ∈ p.1.syms ∨ (∃ c, p.2 = some c ∧ y ∈ c.syms) := by
  intro ps
  induction ps with
  | nil => intro y hy; exact Or.inl hy
  | cons p r ih =>
    intro y hy
    obtain ⟨e, l⟩ := p
    cases l with
    | none =>
      right; exact ⟨(e, none), List.mem_cons_self .., Or.inl hy⟩
    | some c =>
      simp only [mkPwD, syms, List.mem_append] at hy
      rcases hy with (hy | hy) | hy
      · right; exact ⟨(e, some c), List.mem_cons_self .., Or.inr ⟨c, rfl, hy⟩⟩
      · right; exact ⟨(e, some c), List.mem_cons_self .., Or.inl hy⟩
      · rcases ih y hy with h | ⟨p, hp, h⟩
        · exact Or.inl h
        · right; exact ⟨p, List.mem_cons_of_mem _ hp, h⟩

theorem pairsFor_reads (x : Sym) :
    ∀ (bl : Blocks) (p : Expr × Option Expr), p ∈ pairsFor x bl →
      ∀ y, (y ∈ p.1.syms ∨ (∃ c, p.2 = some c ∧ y ∈ c.syms)) → y ∈ blReads bl := by
  intro bl
  induction bl with
  | nil => intro p hp; simp [pairsFor] at hp
  | cons b r ih =>
    intro p hp y hy
    obtain ⟨l, a⟩ := b
    simp only [pairsFor, List.mem_append, List.mem_map, List.mem_filter] at hp
    simp only [blReads, List.flatMap_cons, List.mem_append]
    rcases hp with ⟨q, ⟨hq, _⟩, rfl⟩ | hp
    · left
      rcases hy with hy | ⟨c, hc, hy⟩
      · right; simp only [List.mem_flatMap]; exact ⟨q, hq, hy⟩
      · left; simp only at hc; subst hc; exact hy
    · right; exact ih p hp y hy

theorem syms_nanE : nanE.syms = [] := rfl

theorem syms_blockExpr (seen : List Sym) (bl : Blocks) (x y : Sym)
    (hy : y ∈ (blockExpr seen bl x).syms) : y = x ∨ y ∈ blReads bl := by
  rw [blockExpr_eq] at hy
  rcases syms_mkPwD _ _ y hy with h | ⟨p, hp, h⟩
  · left
    unfold dfl at h
    split at h
    · simpa [syms] using h
    · simp [syms_nanE] at h
  · right; exact pairsFor_reads x bl p hp y h

end Pharmpy.C01
