import PharmpyModel.C01.Rates
/-
  C01 — rate-constant names of the general linear models.  Property theorems only.
-/
namespace Pharmpy.C01.Rates

theorem takeDrop_digits (p : Char → Bool) : ∀ (d rest : List Char), d.all p = true →
    (∀ c r, rest = c :: r → p c = false) →
    (d ++ rest).takeWhile p = d ∧ (d ++ rest).dropWhile p = rest := by
  intro d
  induction d with
  | nil =>
    intro rest _ h
    cases rest with
    | nil => simp
    | cons c r => simp [h c r rfl]
  | cons a d ih =>
    intro rest hd h
    simp only [List.all_cons, Bool.and_eq_true] at hd
    have := ih rest hd.2 h
    simp [hd.1, this.1, this.2]

theorem all_takeWhile (p : Char → Bool) : ∀ l : List Char, (l.takeWhile p).all p = true := by
  intro l
  induction l with
  | nil => rfl
  | cons a l ih =>
    by_cases h : p a = true
    · simp [List.takeWhile, h, ih]
    · simp [List.takeWhile, h]

/-- **rate_name_exact.** A `$PK` variable is taken as a rate constant exactly when its
    whole name is `K` + digits or `K` + digits + `T` + digits. -/
theorem rate_name_exact (name : String) :
    isRate name = true ↔
      ∃ d1, isDigits d1 = true ∧
        (name.toList = 'K' :: d1 ∨ ∃ d2, isDigits d2 = true ∧ name.toList = 'K' :: (d1 ++ 'T' :: d2)) := by
  unfold isRate
  constructor
  · intro h
    cases hn : name.toList with
    | nil => simp [hn, splitRate] at h
    | cons c rest =>
      simp only [hn, splitRate] at h
      by_cases hc : c = 'K'
      · subst hc
        have hsplit : rest = rest.takeWhile Char.isDigit ++ rest.dropWhile Char.isDigit :=
          (List.takeWhile_append_dropWhile).symm
        by_cases he : (rest.takeWhile Char.isDigit).isEmpty = true
        · simp [he] at h
        · have hd : isDigits (rest.takeWhile Char.isDigit) = true := by
            simp only [isDigits, Bool.and_eq_true, Bool.not_eq_true']
            exact ⟨by simpa using he, all_takeWhile _ _⟩
          refine ⟨rest.takeWhile Char.isDigit, hd, ?_⟩
          cases hr : rest.dropWhile Char.isDigit with
          | nil =>
            left
            conv => lhs; rw [hsplit, hr]
            simp
          | cons c2 r2 =>
            by_cases hT : (c2 == 'T' && isDigits r2) = true
            · simp only [Bool.and_eq_true, beq_iff_eq] at hT
              obtain ⟨hT1, hT2⟩ := hT
              subst hT1
              right
              exact ⟨r2, hT2, by conv => lhs; rw [hsplit, hr]⟩
            · simp [he, hr, hT] at h
      · have : (c != 'K') = true := by simpa using hc
        simp [this] at h
  · rintro ⟨d1, hd1, h | ⟨d2, hd2, h⟩⟩
    · simp only [isDigits, Bool.and_eq_true, Bool.not_eq_true'] at hd1
      have := takeDrop_digits Char.isDigit d1 [] hd1.2 (by intro c r h; cases h)
      simp only [List.append_nil] at this
      simp [h, splitRate, this.1, this.2, hd1.1]
    · simp only [isDigits, Bool.and_eq_true, Bool.not_eq_true'] at hd1
      have := takeDrop_digits Char.isDigit d1 ('T' :: d2) hd1.2
        (by intro c r h; cases h; decide)
      simp [h, splitRate, this.1, this.2, hd1.1, hd2]

/-- Names that merely start with, end with or contain a rate-constant name are
    ordinary variables. -/
theorem rate_name_not_prefix :
    isRate "K10HL" = false ∧ isRate "K20D" = false ∧ isRate "K12TOT" = false ∧ isRate "K1T2X" = false ∧
    isRate "XK12" = false ∧ isRate "K" = false ∧ isRate "KT2" = false ∧ isRate "K1T" = false ∧
    isRate "K12" = true ∧ isRate "K1T2" = true ∧ isRate "K10T11" = true := by
  decide

/-- Two digits: `Kij` is the flow i → j, `Ki0` the flow to the output compartment. -/
theorem rate_two_digits (ncomps : Nat) (a b : Char) :
    decode ncomps [a, b] none = .flow (natOf [a]) (if natOf [b] == 0 then ncomps else natOf [b]) := rfl

/-- `KiTj` is the flow i → j for numbers of any length. -/
theorem rate_T_form (ncomps : Nat) (d1 d2 : List Char) :
    decode ncomps d1 (some d2) = .flow (natOf d1) (if natOf d2 == 0 then ncomps else natOf d2) := rfl

example : findRates 4 ["K12", "K12X", "V1", "K1T3", "K20", "K20D", "K123"] = some [(1, 2, "K12"), (1, 3, "K1T3"), (2, 4, "K20")] := by
  decide

end Pharmpy.C01.Rates
