import PharmpyProofs.C01.Sound
/-
  Concrete interpretation (integers, 0 = false) and the witness programs used
  by the `…_witness` theorems of Properties.lean.
-/
namespace Pharmpy.C01
open Pharmpy Expr

/-- Integer arithmetic with `0` = false; `nan` is some integer. -/
def intI : Interp Int where
  lit n := n
  fn f args :=
    match f, args with
    | "ite", [c, a, b] => if c != 0 then a else b
    | "not", [c] => if c != 0 then 0 else 1
    | "gt", [a, b] => if a > b then 1 else 0
    | "add", [a, b] => a + b
    | "nan", _ => -999
    | _, _ => 0

def intSem : Sem Int where
  I := intI
  truth c := c != 0
  ite_law := by intro c a b; rfl
  not_law := by
    intro c
    by_cases h : c = 0
    · subst h; rfl
    · simp [intI, h]

def noOpaque : Opaque Int := fun _ ρ => ρ

def gt0 (x : Sym) : Expr := .f2 "gt" (.sym x) (.lit 0)

/-- F6: `A=X; B=0; IF (A.GT.0) THEN; A=-1; B=2; ENDIF`. -/
def progReads : List NMStmt :=
  [.asg "A" (.sym "X"), .asg "B" (.lit 0),
   .block [(gt0 "A", [.asg "A" (.lit (-1)), .asg "B" (.lit 2)])] none]

/-- `A=0; B=0; IF (X.GT.0) THEN; A=1; ELSE; B=2; ENDIF`. -/
def progGap : List NMStmt :=
  [.asg "A" (.lit 0), .asg "B" (.lit 0),
   .block [(gt0 "X", [.asg "A" (.lit 1)])] (some [.asg "B" (.lit 2)])]

/-- `C=0; IF (X.GT.0) THEN; C=1; C=C+1; ENDIF`. -/
def progTwice : List NMStmt :=
  [.asg "C" (.lit 0),
   .block [(gt0 "X", [.asg "C" (.lit 1), .asg "C" (.f2 "add" (.sym "C") (.lit 1))])] none]

/-- `C=0; IF (X.GT.0) THEN; IF (W.GT.0) C=1; ENDIF`. -/
def progNested : List NMStmt :=
  [.asg "C" (.lit 0),
   .block [(gt0 "X", [.lif (gt0 "W") "C" (.lit 1)])] none]

def ones : Env Int := fun _ => 1

end Pharmpy.C01
