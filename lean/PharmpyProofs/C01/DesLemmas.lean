import PharmpyModel.C01.Des
import Mathlib.Tactic.FieldSimp
import Mathlib.Tactic.Ring
import Mathlib.Tactic.Linarith
/-
  Helper lemmas for `translate_des_sound`.
-/
namespace Pharmpy.C01.Des

theorem sumR_nil : sumR [] = 0 := rfl
theorem sumR_cons (a : Rat) (l : List Rat) : sumR (a :: l) = a + sumR l := rfl

theorem sumR_append (l₁ l₂ : List Rat) : sumR (l₁ ++ l₂) = sumR l₁ + sumR l₂ := by
  induction l₁ with
  | nil => simp [sumR_nil]
  | cons a l ih => simp only [List.cons_append, sumR_cons, ih]; ring

theorem sumR_map_neg {β : Type} (l : List β) (g : β → Rat) :
    sumR (l.map (fun o => -(g o))) = -sumR (l.map g) := by
  induction l with
  | nil => simp [sumR_nil]
  | cons a l ih => simp only [List.map_cons, sumR_cons, ih]; ring

theorem sumR_filter_split {β : Type} (l : List β) (P : β → Bool) (g : β → Rat) :
    sumR (l.map g) = sumR ((l.filter P).map g) + sumR ((l.filter (fun x => !P x)).map g) := by
  induction l with
  | nil => simp [sumR_nil]
  | cons a l ih =>
    by_cases h : P a = true
    · simp only [List.map_cons, sumR_cons, List.filter_cons, h, if_true, Bool.not_true, ih]
      simp only [Bool.false_eq_true, if_false]; ring
    · have h' : P a = false := by simpa using h
      simp only [List.map_cons, sumR_cons, List.filter_cons, h', Bool.not_false, if_true, ih]
      simp only [Bool.false_eq_true, if_false]; ring

/-- value of an expanded right-hand side -/
def evalE (v : Nat → Rat) (e : Eqn) : Rat := sumR (e.map (termVal v))

theorem evalE_addTerm (v : Nat → Rat) (t : Term) : ∀ e : Eqn, evalE v (addTerm e t) = evalE v e + termVal v t := by
  intro e
  induction e with
  | nil => simp [addTerm, evalE, sumR_cons, sumR_nil]
  | cons u r ih =>
    unfold addTerm
    by_cases hm : (u.mono == t.mono) = true
    · have hmono : u.mono = t.mono := by simpa using hm
      simp only [hm, if_true]
      by_cases hz : (u.coef + t.coef == 0) = true
      · have hz' : u.coef + t.coef = 0 := by simpa using hz
        simp only [hz, if_true, evalE, List.map_cons, sumR_cons, termVal, hmono]
        have : u.coef * v t.mono + t.coef * v t.mono = 0 := by rw [← add_mul, hz', zero_mul]
        linarith
      · simp only [hz, evalE, List.map_cons, sumR_cons, hmono]
        simp only [Bool.false_eq_true, if_false, List.map_cons, sumR_cons, termVal, hmono]
        ring
    · simp only [hm, evalE, List.map_cons, sumR_cons]
      simp only [Bool.false_eq_true, if_false, List.map_cons, sumR_cons]
      have := ih
      unfold evalE at this
      rw [this]; ring

theorem length_modifyAt : ∀ (l : List Eqn) (i : Nat) (f : Eqn → Eqn), (modifyAt l i f).length = l.length := by
  intro l
  induction l with
  | nil => intro i f; rfl
  | cons e r ih =>
    intro i f
    cases i with
    | zero => rfl
    | succ i => simp [modifyAt, ih]

theorem eqnAt_modifyAt : ∀ (l : List Eqn) (i : Nat) (f : Eqn → Eqn) (c : Nat), i < l.length →
    eqnAt (modifyAt l i f) c = if c = i then f (eqnAt l c) else eqnAt l c := by
  intro l
  induction l with
  | nil => intro i f c h; simp at h
  | cons e r ih =>
    intro i f c h
    cases i with
    | zero =>
      cases c with
      | zero => simp [modifyAt, eqnAt]
      | succ c => simp [modifyAt, eqnAt]
    | succ i =>
      cases c with
      | zero => simp [modifyAt, eqnAt]
      | succ c =>
        have := ih i f c (by simpa using h)
        simpa [modifyAt, eqnAt] using this

/-- inflows − outflows of compartment `c` -/
def flowPart (fl : List (Nat × Nat × Contrib)) (v amt : Nat → Rat) (c : Nat) : Rat :=
  sumR ((fl.filter (fun f => f.2.1 == c)).map (fun f => rate v amt f.2.2 * amt f.1))
  - sumR ((fl.filter (fun f => f.1 == c)).map (fun f => rate v amt f.2.2 * amt c))

theorem flowPart_nil (v amt : Nat → Rat) (c : Nat) : flowPart [] v amt c = 0 := by
  simp [flowPart, sumR_nil]

theorem flowPart_snoc (fl : List (Nat × Nat × Contrib)) (f i : Nat) (k : Contrib) (v amt : Nat → Rat) (c : Nat) :
    flowPart (fl ++ [(f, i, k)]) v amt c
      = flowPart fl v amt c + (if i = c then rate v amt k * amt f else 0) - (if f = c then rate v amt k * amt c else 0) := by
  unfold flowPart
  have e1 : ([(f, i, k)].filter (fun x : Nat × Nat × Contrib => x.2.1 == c)) = if i = c then [(f, i, k)] else [] := by
    by_cases h : i = c
    · simp [List.filter, h]
    · have hb : (i == c) = false := by simpa using h
      simp [List.filter, h, hb]
  have e2 : ([(f, i, k)].filter (fun x : Nat × Nat × Contrib => x.1 == c)) = if f = c then [(f, i, k)] else [] := by
    by_cases h : f = c
    · simp [List.filter, h]
    · have hb : (f == c) = false := by simpa using h
      simp [List.filter, h, hb]
  simp only [List.filter_append, List.map_append, sumR_append, e1, e2]
  by_cases h1 : i = c <;> by_cases h2 : f = c <;>
    simp only [h1, h2, if_true, if_false, List.map_cons, List.map_nil, sumR_cons, sumR_nil] <;> ring

theorem mem_visits_lt (p : Prog) (x : Nat × Nat × Term) (h : x ∈ visits p) : x.1 < p.length := by
  simp only [visits, List.mem_flatMap, List.mem_range, List.mem_map] at h
  obtain ⟨i, hi, a, _, t, _, rfl⟩ := h
  exact hi

end Pharmpy.C01.Des
