import PharmpyProofs.C01.Witness
/-
  C01 — Reading a NONMEM model preserves its meaning: abbreviated code.
  Property theorems only.

  `translate` is the executable model of pharmpy's `_parse_tree`
  (PharmpyModel/C01/Model.lean, tied to the code by the correspondence run);
  `nmRun` is the NM-TRAN reference interpreter (PharmpyModel/C01/Spec.lean);
  `run` is the sequential meaning of a pharmpy statement list
  (PharmpyModel/Core/Stmts.lean).  All theorems quantify over every carrier
  `α`, every interpretation of literals and named operations whose `ite`
  selects by truth value, every meaning `O` of the statements `_parse_tree`
  ignores, every program and every environment.
-/
namespace Pharmpy.C01
open Pharmpy Expr

variable {α : Type}

/-! ## The translation is sound on `Safe` programs -/

/-- One top-level statement. -/
theorem translateStmt_sound (S : Sem α) (O : Opaque α) (seen : List Sym) (s : NMStmt) (ρ : Env α)
    (h : stmtSafe seen s = true) : run S.I (translateStmt seen s) ρ = nmExec S O ρ s := by
  cases s with
  | asg x e => rfl
  | lif c x e =>
    have hs : seen.contains x = true := h
    simp only [translateStmt, hs, if_true, run, List.foldl, Stmt.exec, nmExec, eval, S.ite_law]
    by_cases hc : S.truth (eval S.I ρ c) = true
    · simp [hc]
    · have hc' : S.truth (eval S.I ρ c) = false := by simpa using hc
      simp only [hc']
      funext y
      by_cases hy : y = x
      · subst hy; simp [Env.set]
      · simp [Env.set, hy]
  | block brs els =>
    have hb : blockSafe seen brs els = true := h
    have hparts := hb
    simp only [blockSafe, Bool.and_eq_true] at hparts
    obtain ⟨⟨⟨⟨⟨hplain, _⟩, _⟩, _⟩, _⟩, hne⟩ := hparts
    simp only [translateStmt, reorderBlockStatements, nmExec]
    rw [mkBlocks_normal brs els hne, block_sound S seen _ ρ (blOK_of_blockSafe seen brs els hb),
      execBlock_pick S O els ρ brs hplain]
  | opq n => simp [stmtSafe] at h

theorem translateFrom_sound (S : Sem α) (O : Opaque α) :
    ∀ (p : List NMStmt) (seen : List Sym) (ρ : Env α), safeFrom seen p = true →
      run S.I (translateFrom seen p) ρ = nmRun S O p ρ := by
  intro p
  induction p with
  | nil => intro seen ρ _; rfl
  | cons s rest ih =>
    intro seen ρ h
    simp only [safeFrom, Bool.and_eq_true] at h
    simp only [translateFrom, run_append, translateStmt_sound S O seen s ρ h.1]
    rw [ih _ _ h.2]
    rfl

/-- **translate_sound_partial.** For every program satisfying the decidable
    side-condition `Safe`, executing pharmpy's statements in order gives, for
    every symbol, the value NM-TRAN computes. -/
theorem translate_sound_partial (S : Sem α) (O : Opaque α) (p : List NMStmt) (ρ : Env α)
    (h : Safe p = true) : run S.I (translate p) ρ = nmRun S O p ρ :=
  translateFrom_sound S O p [] ρ h

/-! ## … and unsound outside it: concrete witnesses over the integers -/

/-- **translate_unsound_witness** (finding F6): the block re-reads a symbol it
    assigned; pharmpy's `B` is 0, NM-TRAN's is 2. -/
theorem translate_unsound_witness :
    Safe progReads = false ∧ unsafeFrom [] progReads = ["reads"] ∧
    run intI (translate progReads) ones "B" = 0 ∧
    nmRun intSem noOpaque progReads ones "B" = 2 := by
  decide

/-- A symbol assigned only in a later branch: pharmpy's `B` is 2 although the
    first branch was taken; NM-TRAN leaves it 0. -/
theorem translate_unsound_witness_gap :
    Safe progGap = false ∧ unsafeFrom [] progGap = ["gap"] ∧
    run intI (translate progGap) ones "B" = 2 ∧
    nmRun intSem noOpaque progGap ones "B" = 0 := by
  decide

/-- A symbol assigned twice in one branch: pharmpy keeps the first assignment. -/
theorem translate_unsound_witness_twice :
    Safe progTwice = false ∧ unsafeFrom [] progTwice = ["twice", "reads"] ∧
    run intI (translate progTwice) ones "C" = 1 ∧
    nmRun intSem noOpaque progTwice ones "C" = 2 := by
  decide

/-- A logical IF nested in a block IF is dropped. -/
theorem translate_unsound_witness_nested :
    Safe progNested = false ∧ unsafeFrom [] progNested = ["nested"] ∧
    translate progNested = [.assign "C" (.lit 0)] ∧
    run intI (translate progNested) ones "C" = 0 ∧
    nmRun intSem noOpaque progNested ones "C" = 1 := by
  decide

/-! ## Logical IF: "keeps the previous value only if previously assigned" -/

/-- pharmpy's statement for `IF (c) X = e`: `e` when `c` holds; otherwise the
    previous value of `X` when `X` was assigned before, and the undefined
    value when it was not.  No other symbol changes. -/
theorem logical_if_else_rule (S : Sem α) (seen : List Sym) (c e : Expr) (x : Sym) (ρ : Env α) :
    run S.I (translateStmt seen (.lif c x e)) ρ =
      ρ.set x (if S.truth (c.eval S.I ρ) then e.eval S.I ρ
               else if x ∈ seen then ρ x else nanE.eval S.I ρ) := by
  by_cases hs : x ∈ seen
  · simp [translateStmt, hs, run, Stmt.exec, eval, S.ite_law]
  · simp [translateStmt, hs, run, Stmt.exec, eval, S.ite_law]

/-- NM-TRAN's side of the same statement: the previous value is always kept. -/
theorem logical_if_nm (S : Sem α) (O : Opaque α) (c e : Expr) (x : Sym) (ρ : Env α) :
    nmExec S O ρ (.lif c x e) =
      ρ.set x (if S.truth (c.eval S.I ρ) then e.eval S.I ρ else ρ x) := by
  simp only [nmExec]
  by_cases hc : S.truth (eval S.I ρ c) = true
  · simp [hc]
  · have hc' : S.truth (eval S.I ρ c) = false := by simpa using hc
    simp only [hc']
    funext y
    by_cases hy : y = x
    · subst hy; simp [Env.set]
    · simp [Env.set, hy]

/-! ## The "empty IF … ELSE" special case -/

/-- `IF (c) THEN` (nothing) `ELSE` assignments `ENDIF`: pharmpy guards the ELSE
    assignments with `Not(c)`; this agrees with NM-TRAN when the ELSE branch is
    made of plain assignments to distinct, previously assigned symbols that the
    block does not read. -/
theorem empty_if_else_rule (S : Sem α) (O : Opaque α) (seen : List Sym) (c : Expr) (eb : List Item)
    (ρ : Env α) (hplain : eb.all isPlain = true) (honce : nodupB (bodySyms eb) = true)
    (hnoread : ∀ x ∈ bodySyms eb, x ∉ c.syms ∧ x ∉ bodyReads eb)
    (hinit : ∀ x ∈ bodySyms eb, x ∈ seen) :
    run S.I (translateStmt seen (.block [(c, [])] (some eb))) ρ
      = nmExec S O ρ (.block [(c, [])] (some eb)) := by
  let bl' : Blocks := [(some (.f1 "not" c), directAsgs eb)]
  have hsyms : blockSymbols (mkBlocks [(c, [])] (some eb)) = blockSymbols bl' := by
    simp [mkBlocks, directAsgs, blockSymbols, bl']
  have hstmt : ∀ x, blockStmt seen (mkBlocks [(c, [])] (some eb)) x = blockStmt seen bl' x := by
    intro x
    simp [mkBlocks, directAsgs, blockStmt, blockExpr, pairsFor, bl']
  have ok : BlOK seen bl' := by
    refine ⟨?_, ?_, ?_, ?_⟩
    · intro b hb
      simp only [bl', List.mem_singleton] at hb
      subst hb
      exact (nodupB_iff _).mp honce
    · intro x hx hrd
      rw [mem_blockSymbols] at hx
      obtain ⟨b, hb, hxb⟩ := hx
      simp only [bl', List.mem_singleton] at hb
      subst hb
      have hx' : x ∈ bodySyms eb := hxb
      have := hnoread x hx'
      simp only [blReads, bl', List.flatMap_cons, List.flatMap_nil, List.append_nil, syms,
        List.mem_append, List.mem_flatMap] at hrd
      rcases hrd with h | ⟨p, hp, h⟩
      · exact this.1 h
      · exact this.2 (by simp only [bodyReads, List.mem_flatMap]; exact ⟨p, hp, h⟩)
    · simp [symsOf, bl', prefixClosed]
    · intro x hx
      rw [mem_blockSymbols] at hx
      obtain ⟨b, hb, hxb⟩ := hx
      simp only [bl', List.mem_singleton] at hb
      subst hb
      exact Or.inl (hinit x hxb)
  simp only [translateStmt, reorderBlockStatements, hsyms, nmExec]
  rw [List.map_congr_left (fun x _ => hstmt x), block_sound S seen bl' ρ ok]
  simp only [bl', pick, holds, eval, S.not_law, execBlock]
  by_cases hc : S.truth (eval S.I ρ c) = true
  · simp [hc, execBody]
  · have hc' : S.truth (eval S.I ρ c) = false := by simpa using hc
    simp [hc', execBody_plain S O eb ρ hplain]

/-! ## Structure of the output -/

/-- The statements generated for a block IF assign exactly the symbols assigned
    directly in some branch, once each, in first-occurrence order. -/
theorem block_targets (seen : List Sym) (brs : List (Expr × List Item)) (els : Option (List Item)) :
    targets (translateStmt seen (.block brs els)) = blockSymbols (mkBlocks brs els) := by
  simp only [translateStmt, reorderBlockStatements, targets]
  induction blockSymbols (mkBlocks brs els) with
  | nil => rfl
  | cons x xs ih => simp [blockStmt, Stmt.defs, ih]

/-! ## Non-vacuity: `Safe` holds on a non-trivial program with a three-way block IF -/

example : Safe [.asg "TV" (.sym "THETA(1)"),
                .block [(gt0 "X", [.asg "A" (.lit 1), .asg "TV" (.lit 5)]),
                        (gt0 "W", [.asg "A" (.lit 2)])]
                       (some [.asg "A" (.lit 3)]),
                .lif (gt0 "W") "A" (.f2 "add" (.sym "A") (.sym "TV"))] = true := by
  decide

end Pharmpy.C01
