import PharmpyModel.C01.Advan
import Mathlib.Tactic.FieldSimp
import Mathlib.Tactic.Ring
/-
  Helper definitions for the ADVAN/TRANS theorems: arithmetic interpretation
  over a field and its evaluation equations.
-/
namespace Pharmpy.C01
open Pharmpy

/-- Arithmetic over a field. -/
def fieldI (K : Type) [Field K] : Interp K where
  lit n := (n : K)
  fn f args :=
    match f, args with
    | "add", [a, b] => a + b
    | "sub", [a, b] => a - b
    | "mul", [a, b] => a * b
    | "div", [a, b] => a / b
    | _, _ => 0

section
variable {K : Type} [Field K] (ρ : Env K) (a b : Expr)
theorem ev_add : (Expr.f2 "add" a b).eval (fieldI K) ρ = a.eval (fieldI K) ρ + b.eval (fieldI K) ρ := rfl
theorem ev_sub : (Expr.f2 "sub" a b).eval (fieldI K) ρ = a.eval (fieldI K) ρ - b.eval (fieldI K) ρ := rfl
theorem ev_mul : (Expr.f2 "mul" a b).eval (fieldI K) ρ = a.eval (fieldI K) ρ * b.eval (fieldI K) ρ := rfl
theorem ev_div : (Expr.f2 "div" a b).eval (fieldI K) ρ = a.eval (fieldI K) ρ / b.eval (fieldI K) ρ := rfl
theorem ev_sym (x : Sym) : (Expr.sym x).eval (fieldI K) ρ = ρ x := rfl
theorem ev_lit (n : Int) : (Expr.lit n).eval (fieldI K) ρ = (n : K) := rfl
end

/-- Rate expression of the `i`-th PREDPP flow. -/
def specRate (advan trans : String) (i : Nat) : Expr :=
  match ((specFlows advan trans).getD [])[i]? with
  | some f => f.rate
  | none => .lit 0

end Pharmpy.C01
