import PharmpyProofs.C01.DesLemmas
/-
  C01 — "$DES code yields the same differential equations".  Property theorems only.

  `translateDes` models `to_compartmental_system` (tied to the code on every run:
  the flows, output flows and inputs of model objects read from generated `$DES`
  control streams are compared with the driver); `sysEq` reads the system back
  the way `CompartmentalSystem.eqs` does (inflows − outflows − output + input);
  `desVal` is the literal NM-TRAN value of `DADT(c)`.
-/
namespace Pharmpy.C01.Des

/-- The accounting invariant of the triple loop: what has been moved into flows
    plus what is left in `neweqs` is the original right-hand side. -/
def Inv (p : Prog) (v amt : Nat → Rat) (s : St) : Prop :=
  s.rest.length = p.length ∧ ∀ c, flowPart s.flows v amt c + evalE v (eqnAt s.rest c) = desVal p v c

def safeVisit (p : Prog) (x : Nat × Nat × Term) : Bool :=
  match fromOf p x.2.2 with
  | none => true
  | some f => f == x.2.1 && f != x.1 && x.2.1 < p.length

theorem step_preserves (p : Prog) (v amt : Nat → Rat) (hamt : ∀ c, amt c ≠ 0) (s : St) (x : Nat × Nat × Term)
    (hx : x.1 < p.length) (hs : safeVisit p x = true) (hinv : Inv p v amt s) : Inv p v amt (step p s x) := by
  obtain ⟨i, a, t⟩ := x
  obtain ⟨hlen, hval⟩ := hinv
  unfold step
  simp only
  cases hf : fromOf p t with
  | none => exact ⟨hlen, hval⟩
  | some f =>
    simp only [safeVisit, hf, Bool.and_eq_true, beq_iff_eq, bne_iff_ne, ne_eq, decide_eq_true_eq] at hs
    obtain ⟨⟨hfa, hfi⟩, han⟩ := hs
    subst hfa
    have hai : (f == i) = false := by simpa using hfi
    simp only [hai]
    have hi : i < s.rest.length := by rw [hlen]; exact hx
    have hl1 : (modifyAt s.rest i (fun e => addTerm e (negT t))).length = s.rest.length := length_modifyAt _ _ _
    have hf' : f < (modifyAt s.rest i (fun e => addTerm e (negT t))).length := by rw [hl1, hlen]; exact han
    refine ⟨by simp [length_modifyAt, hlen], ?_⟩
    intro c
    simp only [Bool.false_eq_true, if_false]
    rw [flowPart_snoc, eqnAt_modifyAt _ f _ c hf', eqnAt_modifyAt _ i _ c hi]
    have hrate : rate v amt ⟨t.mono, t.coef, f⟩ * amt f = termVal v t := by
      simp only [rate, termVal]
      field_simp [hamt f]
    have hneg : termVal v (negT t) = -termVal v t := by simp [termVal, negT]
    have := hval c
    by_cases hci : c = i
    · subst hci
      have hcf : ¬ c = f := fun h => hfi h.symm
      simp only [hcf, if_false, if_true, hfi, evalE_addTerm, hneg, hrate]
      linarith
    · by_cases hcf : c = f
      · subst hcf
        have hic : ¬ i = c := fun h => hci h.symm
        simp only [if_true, hic, if_false, hci, evalE_addTerm, hrate]
        linarith
      · have hic : ¬ i = c := fun h => hci h.symm
        have hfc : ¬ f = c := fun h => hcf h.symm
        simp only [hci, hcf, hic, hfc, if_false]
        linarith

theorem foldl_preserves (p : Prog) (v amt : Nat → Rat) (hamt : ∀ c, amt c ≠ 0) :
    ∀ (l : List (Nat × Nat × Term)) (s : St), (∀ x ∈ l, x.1 < p.length ∧ safeVisit p x = true) →
      Inv p v amt s → Inv p v amt (l.foldl (step p) s) := by
  intro l
  induction l with
  | nil => intro s _ h; exact h
  | cons x r ih =>
    intro s hl h
    have hx := hl x (List.mem_cons_self ..)
    exact ih _ (fun y hy => hl y (List.mem_cons_of_mem _ hy)) (step_preserves p v amt hamt s x hx.1 hx.2 h)

/-- **translate_des_sound.** For every `$DES` program satisfying the decidable
    side-condition `DesSafe`, every valuation of the monomials and every non-zero
    assignment of the amounts, each equation of the compartmental system built by
    `to_compartmental_system` evaluates to the value of `DADT(c)` in the text. -/
theorem translate_des_sound (p : Prog) (v amt : Nat → Rat) (hamt : ∀ c, amt c ≠ 0)
    (hsafe : DesSafe p = true) (c : Nat) : sysEq (translateDes p) v amt c = desVal p v c := by
  have hinit : Inv p v amt ⟨[], p⟩ := by
    refine ⟨rfl, fun c => ?_⟩
    simp [flowPart_nil, evalE, desVal]
  have hall : ∀ x ∈ visits p, x.1 < p.length ∧ safeVisit p x = true := by
    intro x hx
    refine ⟨mem_visits_lt p x hx, ?_⟩
    have := (List.all_eq_true.mp hsafe) x hx
    exact this
  obtain ⟨_, hval⟩ := foldl_preserves p v amt hamt (visits p) _ hall hinit
  have := hval c
  unfold sysEq translateDes outsOf inputsOf
  simp only
  unfold flowPart at this
  unfold evalE at this
  rw [sumR_filter_split _ isPos (termVal v)] at this
  have hout : ∀ o : Term, (-(termVal v o) / amt c) * amt c = -(termVal v o) := by
    intro o; field_simp [hamt c]
  simp only [hout, sumR_map_neg]
  linarith

/-- **translate_des_unsound_witness** (known class `des-amount-product-flow`): a
    second-order transfer `K·A(1)·A(2)` from compartment 1 to compartment 2 is visited
    once per amount; the system's equation for compartment 2 is not `DADT(2)`. -/
theorem translate_des_unsound_witness :
    let p : Prog := [[⟨0, -1, [0, 1]⟩], [⟨0, 1, [0, 1]⟩]]
    DesSafe p = false ∧ desUnsafe p = ["multi-amount"] ∧
    sysEq (translateDes p) (fun _ => 6) (fun c => if c = 0 then 2 else 3) 1 ≠ desVal p (fun _ => 6) 1 := by
  decide +kernel

/-- non-vacuity: the seeded shape — two parallel terms for the same ordered pair plus an
    elimination — is `DesSafe`, and both terms end up in the flow 0 → 1. -/
example :
    let p : Prog := [[⟨0, -1, [0]⟩, ⟨1, -1, [0]⟩, ⟨2, -1, [0]⟩, ⟨3, 1, [1]⟩], [⟨1, 1, [0]⟩, ⟨2, 1, [0]⟩, ⟨3, -1, [1]⟩]]
    DesSafe p = true ∧ ((translateDes p).flows.filter (fun f => f.1 == 0 && f.2.1 == 1)).length = 2 := by
  decide

end Pharmpy.C01.Des
