import PharmpyProofs.C01.Block
/-
  Soundness of one translated block IF, and the bridge from the syntactic
  side-condition `blockSafe` to the block-level facts used in the proof.
-/
namespace Pharmpy.C01
open Pharmpy Expr

variable {α : Type}

/-! ### dedup -/

theorem mem_dedup (y : Sym) : ∀ l : List Sym, y ∈ dedup l ↔ y ∈ l := by
  intro l
  induction l with
  | nil => simp [dedup]
  | cons x xs ih =>
    simp only [dedup, List.mem_cons, List.mem_filter, ih]
    constructor
    · rintro (h | ⟨h, _⟩)
      · exact Or.inl h
      · exact Or.inr h
    · rintro (h | h)
      · exact Or.inl h
      · by_cases hyx : y = x
        · exact Or.inl hyx
        · exact Or.inr ⟨h, by simpa using hyx⟩

theorem dedup_nodup : ∀ l : List Sym, (dedup l).Nodup := by
  intro l
  induction l with
  | nil => simp [dedup]
  | cons x xs ih =>
    simp only [dedup, List.nodup_cons, List.mem_filter]
    exact ⟨by simp, ih.filter _⟩

theorem mem_blockSymbols (bl : Blocks) (x : Sym) :
    x ∈ blockSymbols bl ↔ ∃ b ∈ bl, x ∈ b.2.map (fun p => p.1) := by
  simp [blockSymbols, mem_dedup, List.mem_flatMap]

theorem blockSymbols_nodup (bl : Blocks) : (blockSymbols bl).Nodup := dedup_nodup _

theorem nodupB_iff : ∀ l : List Sym, nodupB l = true ↔ l.Nodup := by
  intro l
  induction l with
  | nil => simp [nodupB]
  | cons x xs ih => simp [nodupB, ih]

/-! ### pick -/

theorem pick_mem (S : Sem α) (ρ : Env α) :
    ∀ (bl : Blocks) (a : List (Sym × Expr)), pick S ρ bl = some a → ∃ l, (l, a) ∈ bl := by
  intro bl
  induction bl with
  | nil => intro a h; simp [pick] at h
  | cons b r ih =>
    intro a h
    obtain ⟨l, a'⟩ := b
    simp only [pick] at h
    by_cases hh : holds S ρ l = true
    · simp [hh] at h; subst h; exact ⟨l, List.mem_cons_self ..⟩
    · have hh' : holds S ρ l = false := by simpa using hh
      simp [hh'] at h
      obtain ⟨l', hl'⟩ := ih a h
      exact ⟨l', List.mem_cons_of_mem _ hl'⟩

theorem pick_isSome_of_last_none (S : Sem α) (ρ : Env α) :
    ∀ (bl : Blocks) (aL : List (Sym × Expr)), bl.getLast? = some (none, aL) →
      ∃ a, pick S ρ bl = some a := by
  intro bl
  induction bl with
  | nil => intro aL h; simp at h
  | cons b r ih =>
    intro aL h
    obtain ⟨l, a⟩ := b
    simp only [pick]
    by_cases hh : holds S ρ l = true
    · exact ⟨a, by simp [hh]⟩
    · have hh' : holds S ρ l = false := by simpa using hh
      simp only [hh']
      cases r with
      | nil =>
        simp at h
        obtain ⟨h1, _⟩ := h
        subst h1
        simp [holds] at hh'
      | cons q r' =>
        rw [List.getLast?_cons_cons] at h
        exact ih aL h

/-- Under prefix-closure every block assigns what the last block assigns. -/
theorem prefix_last :
    ∀ (L : List (List Sym)) (last : List Sym), prefixClosed L = true → L.getLast? = some last →
      ∀ b ∈ L, ∀ z ∈ last, z ∈ b := by
  intro L
  induction L with
  | nil => intro last _ h; simp at h
  | cons b r ih =>
    intro last hp hl c hc z hz
    simp only [prefixClosed, Bool.and_eq_true, List.all_eq_true] at hp
    cases r with
    | nil =>
      simp at hl; subst hl
      simp at hc; subst hc; exact hz
    | cons q r' =>
      rw [List.getLast?_cons_cons] at hl
      rcases List.mem_cons.mp hc with rfl | hc'
      · have hlast : last ∈ q :: r' := List.mem_of_getLast? hl
        have := hp.1 last hlast z hz
        simpa using this
      · exact ih last hp.2 hl c hc' z hz

/-! ### one block -/

structure BlOK (seen : List Sym) (bl : Blocks) : Prop where
  once : ∀ b ∈ bl, (b.2.map (fun p => p.1)).Nodup
  noread : ∀ x ∈ blockSymbols bl, x ∉ blReads bl
  pref : prefixClosed (symsOf bl) = true
  init : ∀ x ∈ blockSymbols bl,
    x ∈ seen ∨ ∃ a, bl.getLast? = some (none, a) ∧ x ∈ a.map (fun p => p.1)

theorem rhs_in_blReads (bl : Blocks) (b : Option Expr × List (Sym × Expr)) (hb : b ∈ bl)
    (p : Sym × Expr) (hp : p ∈ b.2) (z : Sym) (hz : z ∈ p.2.syms) : z ∈ blReads bl := by
  simp only [blReads, List.mem_flatMap, List.mem_append]
  exact ⟨b, hb, Or.inr ⟨p, hp, hz⟩⟩

/-- The statements generated for a block IF act like "pick the first branch
    whose condition holds and run its assignments". -/
theorem block_sound (S : Sem α) (seen : List Sym) (bl : Blocks) (ρ : Env α) (ok : BlOK seen bl) :
    run S.I ((blockSymbols bl).map (blockStmt seen bl)) ρ
      = match pick S ρ bl with
        | some a => execAsgs S.I a ρ
        | none => ρ := by
  have hmap : (blockSymbols bl).map (blockStmt seen bl)
      = (blockSymbols bl).map (fun x => Stmt.assign x (blockExpr seen bl x)) := rfl
  rw [hmap, run_map_assign S.I (blockExpr seen bl) (blockSymbols bl) ρ (blockSymbols_nodup bl)]
  · -- pointwise
    have hsimul : ∀ a l, (l, a) ∈ bl → execAsgs S.I a ρ
        = fun y => match look y a with
                   | some e => e.eval S.I ρ
                   | none => ρ y := by
      intro a l hla
      apply execAsgs_simul S.I (blockSymbols bl) a ρ (ok.once _ hla)
      · intro p hp
        rw [mem_blockSymbols]
        exact ⟨(l, a), hla, List.mem_map.mpr ⟨p, hp, rfl⟩⟩
      · intro p hp z hz hzA
        exact ok.noread z hzA (rhs_in_blReads bl (l, a) hla p hp z hz)
    funext y
    by_cases hy : y ∈ blockSymbols bl
    · simp only [hy, if_true]
      rw [blockExpr_eq, eval_pairsFor S ρ y _ bl ok.pref]
      cases hpk : pick S ρ bl with
      | some a =>
        obtain ⟨l, hla⟩ := pick_mem S ρ bl a hpk
        simp only [hsimul a l hla]
        cases hlk : look y a with
        | some e => rfl
        | none =>
          simp only
          rcases ok.init y hy with hs | ⟨aL, hlast, hyL⟩
          · simp only [dfl, List.contains_eq_mem, hs, decide_true, if_true, eval]
          · exfalso
            have hmemL : (aL.map (fun p => p.1)) ∈ symsOf bl := by
              have : (none, aL) ∈ bl := List.mem_of_getLast? hlast
              exact List.mem_map.mpr ⟨(none, aL), this, rfl⟩
            have hlast' : (symsOf bl).getLast? = some (aL.map (fun p => p.1)) := by
              simp [symsOf, List.getLast?_map, hlast]
            have := prefix_last (symsOf bl) _ ok.pref hlast' (a.map (fun p => p.1))
              (List.mem_map.mpr ⟨(l, a), hla, rfl⟩) y hyL
            exact ((look_none_iff y a).mp hlk) this
      | none =>
        simp only
        rcases ok.init y hy with hs | ⟨aL, hlast, _⟩
        · simp only [dfl, List.contains_eq_mem, hs, decide_true, if_true, eval]
        · obtain ⟨a, ha⟩ := pick_isSome_of_last_none S ρ bl aL hlast
          rw [ha] at hpk; cases hpk
    · simp only [hy, if_false]
      cases hpk : pick S ρ bl with
      | none => rfl
      | some a =>
        obtain ⟨l, hla⟩ := pick_mem S ρ bl a hpk
        simp only [hsimul a l hla]
        have : look y a = none := by
          rw [look_none_iff]
          intro hmem
          exact hy ((mem_blockSymbols bl y).mpr ⟨(l, a), hla, hmem⟩)
        simp [this]
  · intro x hx y hy hyxs
    rcases syms_blockExpr seen bl x y hy with h | h
    · exact h
    · exact absurd h (ok.noread y hyxs)

/-! ### from the syntactic side-condition to `BlOK` -/

/-- `blocks` when the "empty IF" special case does not apply. -/
def normalBlocks (brs : List (Expr × List Item)) (els : Option (List Item)) : Blocks :=
  brs.map (fun p => (some p.1, directAsgs p.2)) ++
    (match els with
     | none => []
     | some eb => [(none, directAsgs eb)])

theorem mkBlocks_normal (brs : List (Expr × List Item)) (els : Option (List Item))
    (h : condNotEmptyIf brs els = true) : mkBlocks brs els = normalBlocks brs els := by
  unfold mkBlocks normalBlocks
  cases els with
  | none => simp
  | some eb =>
    simp only
    congr 2
    match brs, h with
    | [], _ => rfl
    | [(c, b)], h =>
      simp only [condNotEmptyIf] at h
      simp only [List.map_cons, List.map_nil]
      cases hd : directAsgs b with
      | nil => simp [hd] at h
      | cons q r => rfl
    | (c1, b1) :: (c2, b2) :: r, _ => simp

theorem normalBlocks_snd (brs : List (Expr × List Item)) (els : Option (List Item)) :
    (normalBlocks brs els).map (fun b => b.2) = (bodiesOf brs els).map directAsgs := by
  unfold normalBlocks bodiesOf
  cases els <;> simp [List.map_map, Function.comp_def]

theorem symsOf_normal (brs : List (Expr × List Item)) (els : Option (List Item)) :
    symsOf (normalBlocks brs els) = (bodiesOf brs els).map bodySyms := by
  have := congrArg (List.map (fun a : List (Sym × Expr) => a.map (fun p => p.1)))
    (normalBlocks_snd brs els)
  have h2 : (fun x : List Item => List.map (fun p => p.1) (directAsgs x)) = bodySyms := rfl
  rw [← h2]
  simpa [symsOf, List.map_map, Function.comp_def] using this

theorem mem_normal_snd (brs : List (Expr × List Item)) (els : Option (List Item))
    (b : Option Expr × List (Sym × Expr)) (hb : b ∈ normalBlocks brs els) :
    ∃ body ∈ bodiesOf brs els, b.2 = directAsgs body := by
  have : b.2 ∈ (normalBlocks brs els).map (fun b => b.2) := List.mem_map.mpr ⟨b, hb, rfl⟩
  rw [normalBlocks_snd] at this
  obtain ⟨body, hbody, h⟩ := List.mem_map.mp this
  exact ⟨body, hbody, h.symm⟩

theorem mem_blockSymbols_normal (brs : List (Expr × List Item)) (els : Option (List Item)) (x : Sym) :
    x ∈ blockSymbols (normalBlocks brs els) ↔ x ∈ blockAssigned brs els := by
  rw [mem_blockSymbols]
  simp only [blockAssigned, List.mem_flatMap]
  constructor
  · rintro ⟨b, hb, hx⟩
    obtain ⟨body, hbody, h⟩ := mem_normal_snd brs els b hb
    exact ⟨body, hbody, by simpa [bodySyms, h] using hx⟩
  · rintro ⟨body, hbody, hx⟩
    have : directAsgs body ∈ (normalBlocks brs els).map (fun b => b.2) := by
      rw [normalBlocks_snd]; exact List.mem_map.mpr ⟨body, hbody, rfl⟩
    obtain ⟨b, hb, hb2⟩ := List.mem_map.mp this
    exact ⟨b, hb, by simpa [bodySyms, hb2] using hx⟩

theorem blReads_normal (brs : List (Expr × List Item)) (els : Option (List Item)) (y : Sym)
    (hy : y ∈ blReads (normalBlocks brs els)) : y ∈ blockReads brs els := by
  simp only [blReads, normalBlocks, List.mem_flatMap, List.mem_append, List.mem_map] at hy
  simp only [blockReads, bodiesOf, bodyReads, List.mem_append, List.mem_flatMap, List.mem_map]
  obtain ⟨b, hb, hy⟩ := hy
  rcases hb with ⟨p, hp, rfl⟩ | hb
  · rcases hy with hy | ⟨q, hq, hy⟩
    · exact Or.inl ⟨p, hp, hy⟩
    · exact Or.inr ⟨p.2, Or.inl ⟨p, hp, rfl⟩, q, hq, hy⟩
  · cases els with
    | none => simp at hb
    | some eb =>
      simp at hb; subst hb
      rcases hy with hy | ⟨q, hq, hy⟩
      · simp at hy
      · exact Or.inr ⟨eb, Or.inr (by simp), q, hq, hy⟩

theorem blOK_of_blockSafe (seen : List Sym) (brs : List (Expr × List Item)) (els : Option (List Item))
    (h : blockSafe seen brs els = true) : BlOK seen (normalBlocks brs els) := by
  simp only [blockSafe, Bool.and_eq_true] at h
  obtain ⟨⟨⟨⟨⟨_, honce⟩, hnoread⟩, hpref⟩, hinit⟩, _⟩ := h
  refine ⟨?_, ?_, ?_, ?_⟩
  · intro b hb
    obtain ⟨body, hbody, h2⟩ := mem_normal_snd brs els b hb
    simp only [condOnce, List.all_eq_true] at honce
    have := (nodupB_iff _).mp (honce body hbody)
    simpa [bodySyms, h2] using this
  · intro x hx hrd
    rw [mem_blockSymbols_normal] at hx
    simp only [condNoRead, List.all_eq_true] at hnoread
    have := hnoread x hx
    simp [blReads_normal brs els x hrd] at this
  · rw [symsOf_normal]; exact hpref
  · intro x hx
    rw [mem_blockSymbols_normal] at hx
    simp only [condInit, List.all_eq_true] at hinit
    have := hinit x hx
    simp only [Bool.or_eq_true] at this
    rcases this with hs | he
    · left; simpa using hs
    · right
      cases els with
      | none => simp at he
      | some eb =>
        refine ⟨directAsgs eb, ?_, ?_⟩
        · simp [normalBlocks]
        · simpa [bodySyms] using he

/-- NM-TRAN's block IF, for branches made of plain assignments, in terms of `pick`. -/
theorem execBlock_pick (S : Sem α) (O : Opaque α) (els : Option (List Item)) (ρ : Env α) :
    ∀ brs : List (Expr × List Item), condPlain brs els = true →
      execBlock S O els ρ brs
        = match pick S ρ (normalBlocks brs els) with
          | some a => execAsgs S.I a ρ
          | none => ρ := by
  intro brs
  induction brs with
  | nil =>
    intro h
    cases els with
    | none => simp [execBlock, normalBlocks, pick]
    | some eb =>
      have : eb.all isPlain = true := by
        simpa [condPlain, bodiesOf] using h
      simp [execBlock, normalBlocks, pick, holds, execBody_plain S O eb ρ this]
  | cons p r ih =>
    intro h
    obtain ⟨c, b⟩ := p
    have hb : b.all isPlain = true := by
      simp only [condPlain, bodiesOf, List.map_cons, List.cons_append, List.all_cons,
        Bool.and_eq_true] at h
      exact h.1
    have hr : condPlain r els = true := by
      simp only [condPlain, bodiesOf, List.map_cons, List.cons_append, List.all_cons,
        Bool.and_eq_true] at h
      exact h.2
    have hstep : normalBlocks ((c, b) :: r) els = (some c, directAsgs b) :: normalBlocks r els := rfl
    rw [hstep]
    simp only [execBlock, pick, holds]
    by_cases hc : S.truth (eval S.I ρ c) = true
    · simp [hc, execBody_plain S O b ρ hb]
    · have hc' : S.truth (eval S.I ρ c) = false := by simpa using hc
      simp only [hc']
      exact ih hr

end Pharmpy.C01
