import PharmpyModel.C01.Spec
/-
  Helper lemmas for C01 (abbreviated-code translation).
-/
namespace Pharmpy.C01
open Pharmpy Expr

variable {α : Type}

/-! ### generic: evaluation depends only on the symbols read; `run` over append -/

theorem eval_congr (I : Interp α) (ρ ρ' : Env α) (e : Expr)
    (h : ∀ y ∈ e.syms, ρ y = ρ' y) : eval I ρ e = eval I ρ' e := by
  induction e with
  | lit n => simp [eval]
  | sym s => simp [eval]; exact h s (by simp [syms])
  | f1 f a ih =>
    simp only [eval]; rw [ih (fun y hy => h y (by simpa [syms] using hy))]
  | f2 f a b iha ihb =>
    simp only [eval]
    rw [iha (fun y hy => h y (by simp [syms, hy])), ihb (fun y hy => h y (by simp [syms, hy]))]
  | f3 f a b c iha ihb ihc =>
    simp only [eval]
    rw [iha (fun y hy => h y (by simp [syms, hy])), ihb (fun y hy => h y (by simp [syms, hy])),
        ihc (fun y hy => h y (by simp [syms, hy]))]

theorem eval_set_of_not_mem (I : Interp α) (ρ : Env α) (x : Sym) (v : α) (e : Expr)
    (h : x ∉ e.syms) : eval I (ρ.set x v) e = eval I ρ e := by
  apply eval_congr
  intro y hy
  unfold Env.set
  have : y ≠ x := fun hh => h (hh ▸ hy)
  simp [this]

theorem run_cons (I : Interp α) (s : Stmt) (ss : List Stmt) (ρ : Env α) :
    run I (s :: ss) ρ = run I ss (s.exec I ρ) := rfl

theorem run_append (I : Interp α) (ss ts : List Stmt) (ρ : Env α) :
    run I (ss ++ ts) ρ = run I ts (run I ss ρ) := by
  simp [run, List.foldl_append]

/-! ### simultaneous assignment -/

/-- A list of assignments `x := E x` over distinct targets, none of which reads
    another target, acts as one simultaneous assignment. -/
theorem run_map_assign (I : Interp α) (E : Sym → Expr) :
    ∀ (xs : List Sym) (ρ : Env α), xs.Nodup →
      (∀ x ∈ xs, ∀ y ∈ (E x).syms, y ∈ xs → y = x) →
      run I (xs.map (fun x => Stmt.assign x (E x))) ρ
        = fun y => if y ∈ xs then (E y).eval I ρ else ρ y := by
  intro xs
  induction xs with
  | nil => intro ρ _ _; funext y; simp [run]
  | cons x xs ih =>
    intro ρ hnd hrd
    have hx : x ∉ xs := (List.nodup_cons.mp hnd).1
    have hnd' : xs.Nodup := (List.nodup_cons.mp hnd).2
    rw [List.map_cons, run_cons, ih _ hnd']
    · funext y
      simp only [Stmt.exec]
      by_cases hy : y ∈ xs
      · have hyx : y ≠ x := fun h => hx (h ▸ hy)
        have : x ∉ (E y).syms := by
          intro hmem
          have := hrd y (List.mem_cons_of_mem _ hy) x hmem (List.mem_cons_self ..)
          exact hyx this.symm
        simp [hy, eval_set_of_not_mem I ρ x _ (E y) this]
      · by_cases hyx : y = x
        · subst hyx; simp [hy, Env.set]
        · simp [hy, hyx, Env.set]
    · intro z hz y hy hyxs
      exact hrd z (List.mem_cons_of_mem _ hz) y hy (List.mem_cons_of_mem _ hyxs)

/-! ### branch bodies made of plain assignments -/

/-- Sequential execution of a list of `(symbol, expr)` assignments. -/
def execAsgs (I : Interp α) (a : List (Sym × Expr)) (ρ : Env α) : Env α :=
  a.foldl (fun ρ p => ρ.set p.1 (p.2.eval I ρ)) ρ

/-- First right-hand side assigned to `y`. -/
def look (y : Sym) : List (Sym × Expr) → Option Expr
  | [] => none
  | (x, e) :: r => if x = y then some e else look y r

theorem look_none_iff (y : Sym) (a : List (Sym × Expr)) :
    look y a = none ↔ y ∉ a.map (fun p => p.1) := by
  induction a with
  | nil => simp [look]
  | cons p r ih =>
    obtain ⟨x, e⟩ := p
    by_cases h : x = y
    · simp [look, h]
    · simp [look, h, ih]; exact fun _ hh => h hh.symm

theorem execBody_plain (S : Sem α) (O : Opaque α) :
    ∀ (b : List Item) (ρ : Env α), b.all isPlain = true →
      execBody S O b ρ = execAsgs S.I (directAsgs b) ρ := by
  intro b
  induction b with
  | nil => intro ρ _; rfl
  | cons it r ih =>
    intro ρ h
    simp only [List.all_cons, Bool.and_eq_true] at h
    cases it with
    | asg x e =>
      simp only [execBody, List.foldl_cons, execItem, directAsgs, execAsgs]
      exact ih _ h.2
    | lif c x e => simp [isPlain] at h
    | opq n => simp [isPlain] at h

/-- Sequential = simultaneous when targets are distinct and no right-hand side
    reads a symbol of `A ⊇ targets`. -/
theorem execAsgs_simul (I : Interp α) (A : List Sym) :
    ∀ (a : List (Sym × Expr)) (ρ : Env α),
      (a.map (fun p => p.1)).Nodup →
      (∀ p ∈ a, p.1 ∈ A) →
      (∀ p ∈ a, ∀ z ∈ p.2.syms, z ∉ A) →
      execAsgs I a ρ = fun y => match look y a with
                                 | some e => e.eval I ρ
                                 | none => ρ y := by
  intro a
  induction a with
  | nil => intro ρ _ _ _; funext y; simp [execAsgs, look]
  | cons p r ih =>
    intro ρ hnd hA hrd
    obtain ⟨x, e⟩ := p
    simp only [List.map_cons, List.nodup_cons] at hnd
    have hxA : x ∈ A := hA (x, e) (List.mem_cons_self ..)
    have step : execAsgs I ((x, e) :: r) ρ = execAsgs I r (ρ.set x (e.eval I ρ)) := rfl
    rw [step, ih _ hnd.2 (fun p hp => hA p (List.mem_cons_of_mem _ hp))
      (fun p hp => hrd p (List.mem_cons_of_mem _ hp))]
    funext y
    by_cases hxy : x = y
    · subst hxy
      have : look x r = none := (look_none_iff x r).mpr hnd.1
      simp [look, this, Env.set]
    · simp only [look, hxy, if_false]
      cases hl : look y r with
      | none => simp [Env.set]; intro h; exact absurd h.symm hxy
      | some e' =>
        simp only
        -- e' is a right-hand side of r, so it does not read x ∈ A
        have hmem : ∃ p ∈ r, p.2 = e' := by
          clear ih hnd hA hrd step
          induction r with
          | nil => simp [look] at hl
          | cons q r' ihr =>
            obtain ⟨x', e''⟩ := q
            by_cases hq : x' = y
            · simp [look, hq] at hl; exact ⟨(x', e''), List.mem_cons_self .., hl⟩
            · simp [look, hq] at hl
              obtain ⟨p, hp, hpe⟩ := ihr hl
              exact ⟨p, List.mem_cons_of_mem _ hp, hpe⟩
        obtain ⟨p, hp, hpe⟩ := hmem
        have : x ∉ e'.syms := by
          intro hx
          exact hrd p (List.mem_cons_of_mem _ hp) x (hpe ▸ hx) hxA
        exact eval_set_of_not_mem I ρ x _ e' this

end Pharmpy.C01
