import PharmpyModel.C01.Theta

/-
  C01 — helper lemmas for `PropertiesTheta.lean`: the loop invariant of `comment_names`
  and the list algebra of `parse_thetas` / `parse_parameters`.
-/
namespace Pharmpy.C01.Theta

variable {I B F : Type}

/-- Loop invariant of `comment_names`: names so far + pending count = THETAs declared so far;
`intheta` ↔ a positive count is pending. -/
def Inv (s : St) (tot : Nat) : Prop :=
  s.names.length + s.n.toNat = tot ∧ (s.intheta = true → 1 ≤ s.n) ∧ (s.intheta = false → s.n = 0)

theorem inv_init : Inv St.init 0 := by simp [Inv, St.init]

theorem step_theta_inv (s : St) (tot m : Nat) (h : Inv s tot) (hm : 1 ≤ m) :
    Inv (step s (.theta m)) (tot + m) := by
  obtain ⟨h1, _, _⟩ := h
  refine ⟨?_, ?_, ?_⟩
  · simp only [step]
    split
    · simp [pad]; omega
    · rename_i hn
      simp at hn
      simp [hn] at h1
      simp; omega
  · intro _; simp [step]; omega
  · intro hc; simp [step] at hc

theorem step_comment_inv (s : St) (tot : Nat) (nm : Option String) (h : Inv s tot) :
    Inv (step s (.comment nm)) tot := by
  obtain ⟨h1, h2, h3⟩ := h
  simp only [step]
  split
  · rename_i hin
    have hn := h2 hin
    refine ⟨?_, ?_, ?_⟩
    · simp; omega
    · intro hc; simp at hc; show 1 ≤ s.n - 1; omega
    · intro hc; simp at hc; show s.n - 1 = 0; omega
  · exact ⟨h1, h2, h3⟩

theorem foldl_inv (evs : List Ev) : ∀ (s : St) (tot : Nat), Inv s tot → (∀ m ∈ mults evs, 1 ≤ m) →
    Inv (evs.foldl step s) (tot + (mults evs).sum) := by
  induction evs with
  | nil => intro s tot h _; simpa [mults] using h
  | cons e r ih =>
    intro s tot h hm
    cases e with
    | theta m =>
      have hm1 : 1 ≤ m := hm m (by simp [mults])
      have := ih (step s (.theta m)) (tot + m) (step_theta_inv s tot m h hm1)
        (fun k hk => hm k (by simp [mults, hk]))
      simpa [mults, Nat.add_assoc] using this
    | comment nm =>
      have := ih (step s (.comment nm)) tot (step_comment_inv s tot nm h)
        (fun k hk => hm k (by simpa [mults] using hk))
      simpa [mults] using this

theorem commentNames_length_aux (evs : List Ev) (h : ∀ m ∈ mults evs, 1 ≤ m) :
    (commentNames evs).length = (mults evs).sum := by
  have hinv := foldl_inv evs St.init 0 inv_init h
  obtain ⟨h1, _, _⟩ := hinv
  simp only [commentNames]
  split
  · simp [pad]; omega
  · rename_i hn
    simp at hn
    simp [hn] at h1
    omega

/-! ### `inits` / `bounds` / `fixs` -/

theorem inits_length (items : List (Item I B F)) : (inits items).length = (items.map (·.n)).sum := by
  induction items with
  | nil => rfl
  | cons it r ih => simp [inits] at ih ⊢; try omega

theorem bounds_length (items : List (Item I B F)) : (bounds items).length = (items.map (·.n)).sum := by
  induction items with
  | nil => rfl
  | cons it r ih => simp [bounds] at ih ⊢; try omega

theorem fixs_length (items : List (Item I B F)) : (fixs items).length = (items.map (·.n)).sum := by
  induction items with
  | nil => rfl
  | cons it r ih => simp [fixs] at ih ⊢; try omega

theorem specItems_length (items : List (Item I B F)) : (specItems items).length = (items.map (·.n)).sum := by
  induction items with
  | nil => rfl
  | cons it r ih => simp [specItems] at ih ⊢; try omega

theorem zip_items (items : List (Item I B F)) :
    (inits items).zip ((bounds items).zip (fixs items)) = specItems items := by
  induction items with
  | nil => rfl
  | cons it r ih =>
    have e1 : inits (it :: r) = List.replicate it.n it.init ++ inits r := by simp [inits]
    have e2 : bounds (it :: r) = List.replicate it.n it.bound ++ bounds r := by simp [bounds]
    have e3 : fixs (it :: r) = List.replicate it.n it.fix ++ fixs r := by simp [fixs]
    have e4 : specItems (it :: r) = List.replicate it.n (it.init, it.bound, it.fix) ++ specItems r := by
      simp [specItems]
    rw [e1, e2, e3, e4, List.zip_append (by simp), List.zip_append (by simp), ih]
    simp

/-! ### `parse_thetas` over the records -/

def total (recs : List (Rec I B F)) : Nat := (recs.flatMap (fun r => r.items.map (·.n))).sum

theorem parseInits_length (recs : List (Rec I B F)) : (parseInits recs).length = total recs := by
  induction recs with
  | nil => rfl
  | cons r rs ih => simp [parseInits, total, inits_length] at ih ⊢; omega

theorem parseBounds_length (recs : List (Rec I B F)) : (parseBounds recs).length = total recs := by
  induction recs with
  | nil => rfl
  | cons r rs ih => simp [parseBounds, total, bounds_length] at ih ⊢; omega

theorem parseFixs_length (recs : List (Rec I B F)) : (parseFixs recs).length = total recs := by
  induction recs with
  | nil => rfl
  | cons r rs ih => simp [parseFixs, total, fixs_length] at ih ⊢; omega

theorem specThetas_length (recs : List (Rec I B F)) : (specThetas recs).length = total recs := by
  induction recs with
  | nil => rfl
  | cons r rs ih => simp [specThetas, total, specItems_length] at ih ⊢; omega

theorem parseNames_length (recs : List (Rec I B F))
    (hwf : ∀ r ∈ recs, r.wf) (hpos : ∀ r ∈ recs, ∀ it ∈ r.items, 1 ≤ it.n) :
    (parseNames recs).length = total recs := by
  induction recs with
  | nil => rfl
  | cons r rs ih =>
    have ih' := ih (fun x hx => hwf x (by simp [hx])) (fun x hx => hpos x (by simp [hx]))
    have hw : mults r.evs = r.items.map (·.n) := hwf r (by simp)
    have hl : (commentNames r.evs).length = (r.items.map (·.n)).sum := by
      rw [commentNames_length_aux r.evs (by
        intro m hm
        rw [hw] at hm
        obtain ⟨it, hit, rfl⟩ := List.mem_map.mp hm
        exact hpos r (by simp) it hit), hw]
    simp [parseNames, total] at ih' ⊢
    omega

theorem zip_recs (recs : List (Rec I B F)) :
    (parseInits recs).zip ((parseBounds recs).zip (parseFixs recs)) = specThetas recs := by
  induction recs with
  | nil => rfl
  | cons r rs ih =>
    have e1 : parseInits (r :: rs) = inits r.items ++ parseInits rs := by simp [parseInits]
    have e2 : parseBounds (r :: rs) = bounds r.items ++ parseBounds rs := by simp [parseBounds]
    have e3 : parseFixs (r :: rs) = fixs r.items ++ parseFixs rs := by simp [parseFixs]
    have e4 : specThetas (r :: rs) = specItems r.items ++ specThetas rs := by simp [specThetas]
    rw [e1, e2, e3, e4, List.zip_append (by simp [bounds_length, fixs_length]),
      List.zip_append (by simp [inits_length, bounds_length, fixs_length]), ih, zip_items]

/-! ### the enumeration of `parse_parameters` -/

theorem buildFrom_zip (is : List I) (bs : List B) (fs : List F) (names : List (Option String)) :
    ∀ i, i + names.length = is.length → is.length = bs.length → is.length = fs.length →
      buildFrom is bs fs i names = some ((is.drop i).zip ((bs.drop i).zip (fs.drop i))) := by
  induction names with
  | nil =>
    intro i h hb hf
    have h1 : is.drop i = [] := List.drop_eq_nil_iff.mpr (by simp at h; omega)
    simp [buildFrom, h1]
  | cons nm rest ih =>
    intro i h hb hf
    have hi : i < is.length := by simp at h; omega
    have hib : i < bs.length := by omega
    have hif : i < fs.length := by omega
    have := ih (i + 1) (by simp at h ⊢; omega) hb hf
    simp only [buildFrom, List.getElem?_eq_getElem hi, List.getElem?_eq_getElem hib,
      List.getElem?_eq_getElem hif, this]
    have d1 := List.drop_eq_getElem_cons hi
    have d2 := List.drop_eq_getElem_cons hib
    have d3 := List.drop_eq_getElem_cons hif
    rw [d1, d2, d3]
    rfl

theorem readThetas_spec (recs : List (Rec I B F))
    (hwf : ∀ r ∈ recs, r.wf) (hpos : ∀ r ∈ recs, ∀ it ∈ r.items, 1 ≤ it.n) :
    readThetas recs = some (specThetas recs) := by
  unfold readThetas
  rw [buildFrom_zip _ _ _ _ 0
    (by rw [parseNames_length recs hwf hpos, parseInits_length]; simp)
    (by rw [parseInits_length, parseBounds_length])
    (by rw [parseInits_length, parseFixs_length])]
  simp [zip_recs]

end Pharmpy.C01.Theta
