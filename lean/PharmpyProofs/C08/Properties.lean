import PharmpyProofs.C08.Lemmas
namespace Pharmpy.C08

/-- Every structural MFL key has a row, and every row denotes its request with the right setter/kwargs. -/
theorem feature_table_total :
    (∀ k ∈ structuralKeys, keyCovered k = true) ∧ (∀ e ∈ mflTable, rowOk e = true) := by
  decide

end Pharmpy.C08
