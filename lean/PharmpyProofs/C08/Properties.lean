import PharmpyProofs.C08.Lemmas
set_option linter.unusedSimpArgs false
/-
  C08 — Structural feature setters: detectable, idempotent, reversible, total.
  Property theorems only.  All theorems quantify over every feature vector, i.e. every
  number of transit and peripheral compartments.
-/
namespace Pharmpy.C08

/-! ## the feature machine against the statement -/

/-- Outside the enumerated defect classes the setters do what the statement demands: the requested
    feature is detected, the other categories are unchanged (up to the inherent/documented couplings
    spelled out in `frame`), or the request is refused for the documented reason; never an internal
    error, never a graph outside the family. -/
theorem setFV_allowed_partial (c : Ctx) (r : Req) (s : FV) (hwf : s.WF) (hd : defectOf c r s = none) :
    Allowed r s (setFV c r s) = true := by
  obtain ⟨zo, n, d, k, e, l, b⟩ := s
  cases r with
  | abs a =>
    cases a <;> cases zo <;> cases d <;> cases l <;> cases b <;>
      by_cases h0 : n = 0 <;>
      simp_all [setFV, setAbs, FV.abs, FV.chain, Allowed, achieves, frame, defectOf, FV.WF]
  | elim e' => simp [setFV, Allowed, achieves, frame]
  | periph k' => simp [setFV, Allowed, achieves, frame]
  | periphAdd => simp [setFV, Allowed, achieves, frame]
  | periphRemove => simp [setFV, Allowed, achieves, frame]
  | transits m keep =>
    obtain ⟨mdt⟩ := c
    cases mdt <;> cases keep <;> cases zo <;> cases d <;> cases l <;> cases b <;>
      by_cases h0 : n = 0 <;> by_cases hm0 : m = 0 <;> by_cases hm1 : m = 1 <;> by_cases hnm : n = m <;>
      simp_all [setFV, setTransits, transitsTail, defectTransitsTail, FV.abs, FV.chain, Allowed, achieves, frame, defectOf, FV.WF, mayRefuse] <;>
      omega
  | lag on => simp [setFV, Allowed, achieves, frame]
  | bio on => simp [setFV, Allowed, achieves, frame]


/-- Non-vacuity: a non-trivial request outside every defect class. -/
example : (FV.mk false 0 true 2 .mm true true).WF ∧ defectOf ⟨false⟩ (.transits 3 true) ⟨false, 0, true, 2, .mm, false, true⟩ = none
    ∧ setFV ⟨false⟩ (.transits 3 true) ⟨false, 0, true, 2, .mm, false, true⟩ = .ok ⟨false, 3, true, 2, .mm, false, true⟩ := by decide

/-- The full statement (without the side-condition) is false of the code: every defect class has a
    well-formed witness on which `setFV` — the mirror of the code — is not what the statement allows. -/
theorem setFV_allowed_witness :
    ∀ c : DefectClass, ∃ x r s, s.WF ∧ defectOf x r s = some c ∧ Allowed r s (setFV x r s) = false := by
  intro c
  cases c
  · exact ⟨⟨false⟩, .transits 3 true, ⟨false, 0, true, 0, .fo, true, false⟩, by decide⟩
  · exact ⟨⟨false⟩, .transits 0 true, ⟨false, 3, true, 0, .fo, false, true⟩, by decide⟩
  · exact ⟨⟨true⟩, .transits 2 false, ⟨false, 1, true, 0, .fo, false, false⟩, by decide⟩
  · exact ⟨⟨false⟩, .transits 1 true, ⟨true, 0, false, 0, .fo, false, false⟩, by decide⟩
  · exact ⟨⟨false⟩, .abs .fo, ⟨true, 2, true, 0, .fo, false, false⟩, by decide⟩
  · exact ⟨⟨false⟩, .abs .fo, ⟨true, 0, true, 0, .fo, true, false⟩, by decide⟩
  · exact ⟨⟨false⟩, .abs .zo, ⟨false, 3, true, 0, .fo, false, false⟩, by decide⟩
  · exact ⟨⟨false⟩, .abs .seq, ⟨false, 2, true, 0, .fo, false, false⟩, by decide⟩
  · exact ⟨⟨false⟩, .abs .seq, ⟨true, 0, false, 0, .fo, false, true⟩, by decide⟩
  · exact ⟨⟨false⟩, .abs .inst, ⟨false, 2, false, 0, .fo, false, false⟩, by decide⟩
  · exact ⟨⟨false⟩, .abs .inst, ⟨true, 0, true, 0, .fo, false, false⟩, by decide⟩
  · exact ⟨⟨false⟩, .abs .inst, ⟨false, 0, true, 0, .fo, false, true⟩, by decide⟩

/-- Totality: outside the defect classes a request either succeeds or is refused for the documented
    reason (one transit compartment without a depot behind it); nothing else happens. -/
theorem setFV_total_partial (c : Ctx) (r : Req) (s : FV) (hwf : s.WF) (hd : defectOf c r s = none) :
    (∃ s', setFV c r s = .ok s') ∨ (setFV c r s = .refuse ∧ mayRefuse r s = true) := by
  have h := setFV_allowed_partial c r s hwf hd
  cases ho : setFV c r s with
  | ok s' => exact Or.inl ⟨s', rfl⟩
  | refuse => rw [ho] at h; exact Or.inr ⟨rfl, by simpa [Allowed] using h⟩
  | internal => rw [ho] at h; simp [Allowed] at h
  | off => rw [ho] at h; simp [Allowed] at h
  | internalOrOk s' => rw [ho] at h; simp [Allowed] at h
  | internalOrOff => rw [ho] at h; simp [Allowed] at h

/-- A refusal of the machine is always the documented one (no side-condition). -/
theorem setFV_refuse_documented (c : Ctx) (r : Req) (s : FV) (h : setFV c r s = .refuse) : mayRefuse r s = true := by
  obtain ⟨zo, n, d, k, e, l, b⟩ := s
  cases r with
  | abs a =>
    cases a <;> cases zo <;> cases d <;> by_cases h0 : n = 0 <;>
      simp_all [setFV, setAbs, FV.abs, FV.chain]
  | transits m keep =>
    obtain ⟨mdt⟩ := c
    cases mdt <;> cases keep <;> cases zo <;> cases d <;> cases l <;>
      by_cases h0 : n = 0 <;> by_cases hm0 : m = 0 <;> by_cases hm1 : m = 1 <;> by_cases hnm : n = m <;>
      simp_all [setFV, setTransits, transitsTail, defectTransitsTail, FV.abs, FV.chain, mayRefuse] <;> omega
  | _ => simp [setFV] at h

/-- Elimination and peripheral compartments are orthogonal to everything else — without any
    side-condition: no request of another category ever changes them, and their own requests change
    nothing else. -/
theorem setFV_frame_elim_periph (c : Ctx) (r : Req) (s s' : FV) (h : setFV c r s = .ok s') :
    ((∀ e, r ≠ .elim e) → s'.elim = s.elim) ∧
    ((∀ k, r ≠ .periph k) → r ≠ .periphAdd → r ≠ .periphRemove → s'.periph = s.periph) ∧
    ((∃ e, r = .elim e) ∨ (∃ k, r = .periph k) ∨ r = .periphAdd ∨ r = .periphRemove →
      s'.zo = s.zo ∧ s'.transits = s.transits ∧ s'.depot = s.depot ∧ s'.lag = s.lag ∧ s'.bio = s.bio) := by
  obtain ⟨zo, n, d, k, e, l, b⟩ := s
  cases r with
  | abs a =>
    cases a <;> cases zo <;> cases d <;> by_cases h0 : n = 0 <;>
      simp_all [setFV, setAbs, FV.abs, FV.chain] <;> (subst h; simp)
  | transits m keep =>
    obtain ⟨mdt⟩ := c
    cases mdt <;> cases keep <;> cases zo <;> cases d <;> cases l <;>
      by_cases h0 : n = 0 <;> by_cases hm0 : m = 0 <;> by_cases hm1 : m = 1 <;> by_cases hnm : n = m <;>
      simp_all [setFV, setTransits, transitsTail, defectTransitsTail, FV.abs, FV.chain] <;> (try subst h) <;> simp_all
  | elim e' => simp [setFV] at h; subst h; simp
  | periph k' => simp [setFV] at h; subst h; simp
  | periphAdd => simp [setFV] at h; subst h; simp
  | periphRemove => simp [setFV] at h; subst h; simp
  | lag on => simp [setFV] at h; subst h; simp
  | bio on => simp [setFV] at h; subst h; simp

/-- Well-formedness (a lone transit compartment is never produced as "transits = 1, no depot"). -/
theorem setFV_wf (c : Ctx) (r : Req) (s s' : FV) (hwf : s.WF) (h : setFV c r s = .ok s') : s'.WF := by
  obtain ⟨zo, n, d, k, e, l, b⟩ := s
  cases r with
  | abs a =>
    cases a <;> cases zo <;> cases d <;> by_cases h0 : n = 0 <;>
      simp_all [setFV, setAbs, FV.abs, FV.chain, FV.WF] <;> (subst h; simp_all)
  | transits m keep =>
    obtain ⟨mdt⟩ := c
    cases mdt <;> cases keep <;> cases zo <;> cases d <;> cases l <;>
      by_cases h0 : n = 0 <;> by_cases hm0 : m = 0 <;> by_cases hm1 : m = 1 <;> by_cases hnm : n = m <;>
      simp_all [setFV, setTransits, transitsTail, defectTransitsTail, FV.abs, FV.chain, FV.WF] <;> (try subst h) <;> simp_all <;> omega
  | elim e' => simp [setFV] at h; subst h; simpa [FV.WF] using hwf
  | periph k' => simp [setFV] at h; subst h; simpa [FV.WF] using hwf
  | periphAdd => simp [setFV] at h; subst h; simpa [FV.WF] using hwf
  | periphRemove => simp [setFV] at h; subst h; simpa [FV.WF] using hwf
  | lag on => simp [setFV] at h; subst h; simpa [FV.WF] using hwf
  | bio on => simp [setFV] at h; subst h; simpa [FV.WF] using hwf

set_option maxHeartbeats 1600000 in
/-- Requesting the same feature again changes nothing (every request except the two relative ones
    `add_/remove_peripheral_compartment`, which are not feature requests). -/
theorem setFV_idempotent_partial (c c' : Ctx) (r : Req) (s s' : FV) (hwf : s.WF) (hd : defectOf c r s = none)
    (hr : r ≠ .periphAdd ∧ r ≠ .periphRemove) (h : setFV c r s = .ok s') : setFV c' r s' = .ok s' := by
  obtain ⟨zo, n, d, k, e, l, b⟩ := s
  cases r with
  | abs a =>
    cases a <;> cases zo <;> cases d <;> cases l <;> cases b <;> by_cases h0 : n = 0 <;>
      simp_all [setFV, setAbs, FV.abs, FV.chain, FV.WF, defectOf] <;> (subst h; simp_all [FV.abs, FV.chain])
  | transits m keep =>
    obtain ⟨mdt⟩ := c
    cases mdt <;> cases keep <;> cases zo <;> cases d <;> cases l <;> cases b <;>
      by_cases h0 : n = 0 <;> by_cases hm0 : m = 0 <;> by_cases hm1 : m = 1 <;> by_cases hnm : n = m <;>
      simp_all [setFV, setTransits, transitsTail, defectTransitsTail, FV.abs, FV.chain, FV.WF, defectOf] <;> (try subst h) <;>
      simp_all [setTransits, transitsTail, defectTransitsTail, FV.abs, FV.chain] <;> omega
  | elim e' => simp [setFV] at h; subst h; simp [setFV]
  | periph k' => simp [setFV] at h; subst h; simp [setFV]
  | periphAdd => simp at hr
  | periphRemove => simp at hr
  | lag on => simp [setFV] at h; subst h; simp [setFV]
  | bio on => simp [setFV] at h; subst h; simp [setFV]

/-- The full idempotence statement is false of the code: one transit compartment requested on a
    zero-order model is accepted, and the same request on the result is accepted again with a
    different outcome (on the real code it raises NetworkXUnfeasible). -/
theorem setFV_idempotent_witness :
    ∃ c r s, s.WF ∧ setFV c r s ≠ .refuse ∧ (∀ s', setFV c r s = .ok s' → setFV c r s' ≠ .ok s') ∧ defectOf c r s ≠ none :=
  ⟨⟨false⟩, .transits 1 true, ⟨true, 0, false, 0, .fo, false, false⟩, by decide, by decide, by simp [setFV, setTransits, transitsTail, defectTransitsTail, FV.abs, FV.chain], by decide⟩

set_option maxHeartbeats 1600000 in
/-- Undoing an added feature restores the feature vector: for a request that adds structure, outside
    the defect classes (of the request and of its undo) and when no lag time is involved in an
    absorption change (the documented INST / SEQ-ZO-FO coupling). -/
theorem undo_restores_partial (c c' : Ctx) (r : Req) (s s' : FV) (hwf : s.WF) (hadd : additive r s = true)
    (hd : defectOf c r s = none) (h : setFV c r s = .ok s') (hd' : defectOf c' (undo r s) s' = none)
    (hlag : (∃ a, r = .abs a) → s.lag = false) :
    setFV c' (undo r s) s' = .ok s := by
  obtain ⟨zo, n, d, k, e, l, b⟩ := s
  cases r with
  | abs a =>
    have hl : l = false := hlag ⟨a, rfl⟩
    subst hl
    cases a <;> cases zo <;> cases d <;> cases b <;> by_cases h0 : n = 0 <;>
      simp_all [setFV, setAbs, FV.abs, FV.chain, FV.WF, defectOf, undo, additive] <;>
      (subst h; simp_all [setAbs, FV.abs, FV.chain, defectOf])
  | transits m keep =>
    obtain ⟨mdt⟩ := c
    cases mdt <;> cases keep <;> cases zo <;> cases d <;> cases l <;> cases b <;>
      by_cases h0 : n = 0 <;> by_cases hm0 : m = 0 <;> by_cases hm1 : m = 1 <;> by_cases hnm : n = m <;>
      by_cases hn1 : n = 1 <;>
      simp_all [setFV, setTransits, transitsTail, defectTransitsTail, FV.abs, FV.chain, FV.WF, defectOf, undo, additive] <;> (try subst h) <;>
      simp_all [setTransits, transitsTail, defectTransitsTail, FV.abs, FV.chain, defectOf] <;> omega
  | elim e' => simp [setFV] at h; subst h; simp [setFV, undo]
  | periph k' => simp [setFV] at h; subst h; simp [setFV, undo]
  | periphAdd => simp [setFV] at h; subst h; simp [setFV, undo]
  | periphRemove => simp [additive] at hadd
  | lag on => simp [setFV] at h; subst h; simp_all [setFV, undo, additive]
  | bio on => simp [setFV] at h; subst h; simp_all [setFV, undo, additive]

/-- Non-vacuity of `undo_restores_partial`: three transits in front of a depot, then back. -/
example : let s : FV := ⟨false, 0, true, 1, .mix, false, true⟩
    additive (.transits 3 true) s = true ∧ defectOf ⟨false⟩ (.transits 3 true) s = none ∧
    setFV ⟨false⟩ (.transits 3 true) s = .ok ⟨false, 3, true, 1, .mix, false, true⟩ ∧
    undo (.transits 3 true) s = .transits 0 true ∧
    defectOf ⟨true⟩ (.transits 0 true) ⟨false, 3, true, 1, .mix, false, true⟩ = some .transitsDropBio := by decide

/-- … and the full undo statement is false of the code: with a bioavailability the way back loses it. -/
theorem undo_restores_witness :
    ∃ c r s s', s.WF ∧ additive r s = true ∧ defectOf c r s = none ∧ setFV c r s = .ok s' ∧
      ∀ c', setFV c' (undo r s) s' ≠ .ok s :=
  ⟨⟨false⟩, .transits 3 true, ⟨false, 0, true, 0, .fo, false, true⟩, ⟨false, 3, true, 0, .fo, false, true⟩,
    by decide, by decide, by decide, by decide, by intro c'; cases c' with | mk b => cases b <;> decide⟩

/-! ## the graph classifiers on the canonical family (every n, every k) -/

/-- `central_compartment` of the canonical graph is CENTRAL, whatever the numbers of transit and
    peripheral compartments, depot, dose, lag time, bioavailability. -/
theorem central_canon (s : FV) : (canonGraph s).central = some .central := by
  simp [Graph.central, canon_preds_out]

/-- The four elimination detectors single out exactly the elimination of the feature vector
    (zero-order = Michaelis–Menten rate with POP_KM fixed) — for every n and k. -/
theorem detectElim_canon (s : FV) : detectElim (canon s) = some s.elim := by
  have hc := central_canon s
  have hf := canon_flow_central_out s
  cases he : s.elim <;>
    simp [detectElim, State.hasFOElim, State.hasZOElim, State.hasMMElim, State.hasMixElim, State.elimRate,
      canon, hc, hf, he, rElim]

/-- The detectors recover the feature vector from the canonical graph (instances used as
    non-vacuity checks of the classifiers; the correspondence run compares the same classifiers with the
    real detectors on every real graph). -/
example : detect (canon ⟨false, 3, true, 2, .mix, true, true⟩) = some ⟨false, 3, true, 2, .mix, true, true⟩ := by decide
example : detect (canon ⟨true, 2, false, 0, .zo, false, true⟩) = some ⟨true, 2, false, 0, .zo, false, true⟩ := by decide
example : detect (canon ⟨true, 0, false, 1, .fo, true, false⟩) = some ⟨true, 0, false, 1, .fo, true, false⟩ := by decide
example : detect (canon ⟨false, 0, true, 0, .mm, false, false⟩) = some ⟨false, 0, true, 0, .mm, false, false⟩ := by decide
/-- "One transit directly into central is a depot": the non-well-formed vector is detected as its normal form. -/
example : detect (canon ⟨false, 1, false, 0, .fo, false, false⟩) = some ⟨false, 0, true, 0, .fo, false, false⟩ := by decide

/-! ## the MFL feature table (regenerated from the source on every run) -/

/-- Every structural MFL key has a row, and every row denotes its request with the setter and keyword
    arguments the machine assumes (`n=count`; NODEPOT ⇒ `n=count+1, keep_depot=False`). -/
theorem feature_table_total :
    (∀ k ∈ structuralKeys, keyCovered k = true) ∧ (∀ e ∈ mflTable, rowOk e = true) := by
  decide

/-- The lag-time couplings that `frame` tolerates are the ones modelsearch declares unsupported. -/
theorem lag_couplings_declared :
    (["LAGTIME", "ON"], ["TRANSITS"]) ∈ notSupportedCombo ∧
    (["ABSORPTION", "INST"], ["LAGTIME", "ON"]) ∈ notSupportedCombo ∧
    (["ABSORPTION", "SEQ-ZO-FO"], ["LAGTIME", "ON"]) ∈ notSupportedCombo := by
  decide

end Pharmpy.C08
