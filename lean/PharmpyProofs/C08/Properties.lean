import PharmpyProofs.C08.Lemmas
set_option linter.unusedSimpArgs false
/-
  C08 — Structural feature setters: detectable, idempotent, reversible, total.
  Property theorems only.  All theorems quantify over every feature vector, i.e. every
  number of transit and peripheral compartments.
-/
namespace Pharmpy.C08

/-! ## the feature machine against the statement -/

/-- Outside the enumerated defect classes the setters do what the statement demands: the requested
    feature is detected, the other categories are unchanged (up to the inherent/documented couplings
    spelled out in `frame`), or the request is refused for the documented reason; never an internal
    error, never a graph outside the family. -/
theorem setFV_allowed_partial (c : Ctx) (r : Req) (s : FV) (hwf : s.WF) (hd : defectOf c r s = none) :
    Allowed r s (setFV c r s) = true := by
  obtain ⟨zo, n, d, k, e, l, b⟩ := s
  cases r with
  | abs a =>
    cases a <;> cases zo <;> cases d <;> cases l <;> cases b <;>
      by_cases h0 : n = 0 <;>
      simp_all [setFV, setAbs, FV.abs, FV.chain, Allowed, achieves, frame, defectOf, FV.WF]
  | elim e' => simp [setFV, Allowed, achieves, frame]
  | periph k' => simp [setFV, Allowed, achieves, frame]
  | periphAdd => simp [setFV, Allowed, achieves, frame]
  | periphRemove => simp [setFV, Allowed, achieves, frame]
  | transits m keep =>
    obtain ⟨mdt, mat⟩ := c
    cases mdt <;> cases mat <;> cases keep <;> cases zo <;> cases d <;> cases l <;> cases b <;>
      by_cases h0 : n = 0 <;> by_cases hm0 : m = 0 <;> by_cases hm1 : m = 1 <;> by_cases hnm : n = m <;>
      simp_all [setFV, setTransits, transitsTail, defectTransitsTail, FV.abs, FV.chain, Allowed, achieves, frame, defectOf, FV.WF, mayRefuse] <;>
      omega
  | lag on => simp [setFV, Allowed, achieves, frame]
  | bio on => simp [setFV, Allowed, achieves, frame]


/-- Non-vacuity: a non-trivial request outside every defect class. -/
example : (FV.mk false 0 true 2 .mm true true).WF ∧ defectOf ⟨false, false⟩ (.transits 3 true) ⟨false, 0, true, 2, .mm, false, true⟩ = none
    ∧ setFV ⟨false, false⟩ (.transits 3 true) ⟨false, 0, true, 2, .mm, false, true⟩ = .ok ⟨false, 3, true, 2, .mm, false, true⟩ := by decide

/-- The full statement (without the side-condition) is false of the code: every defect class has a
    well-formed witness on which `setFV` — the mirror of the code — is not what the statement allows. -/
theorem setFV_allowed_witness :
    ∀ c : DefectClass, ∃ x r s, s.WF ∧ defectOf x r s = some c ∧ Allowed r s (setFV x r s) = false := by
  intro c
  cases c
  · exact ⟨⟨false, false⟩, .transits 3 true, ⟨false, 0, true, 0, .fo, true, false⟩, by decide⟩
  · exact ⟨⟨false, false⟩, .transits 0 true, ⟨false, 3, true, 0, .fo, false, true⟩, by decide⟩
  · exact ⟨⟨true, false⟩, .transits 2 false, ⟨false, 1, true, 0, .fo, false, false⟩, by decide⟩
  · exact ⟨⟨false, false⟩, .transits 1 true, ⟨true, 0, false, 0, .fo, false, false⟩, by decide⟩
  · exact ⟨⟨false, false⟩, .abs .fo, ⟨true, 2, true, 0, .fo, false, false⟩, by decide⟩
  · exact ⟨⟨false, false⟩, .abs .fo, ⟨true, 0, true, 0, .fo, true, false⟩, by decide⟩
  · exact ⟨⟨false, false⟩, .abs .zo, ⟨false, 3, true, 0, .fo, false, false⟩, by decide⟩
  · exact ⟨⟨false, false⟩, .abs .seq, ⟨false, 2, true, 0, .fo, false, false⟩, by decide⟩
  · exact ⟨⟨false, false⟩, .abs .seq, ⟨true, 0, false, 0, .fo, false, true⟩, by decide⟩
  · exact ⟨⟨false, false⟩, .abs .inst, ⟨false, 2, false, 0, .fo, false, false⟩, by decide⟩
  · exact ⟨⟨false, false⟩, .abs .inst, ⟨true, 0, true, 0, .fo, false, false⟩, by decide⟩
  · exact ⟨⟨false, false⟩, .abs .inst, ⟨false, 0, true, 0, .fo, false, true⟩, by decide⟩

/-- Totality: outside the defect classes a request either succeeds or is refused for the documented
    reason (one transit compartment without a depot behind it); nothing else happens. -/
theorem setFV_total_partial (c : Ctx) (r : Req) (s : FV) (hwf : s.WF) (hd : defectOf c r s = none) :
    (∃ s', setFV c r s = .ok s') ∨ (setFV c r s = .refuse ∧ mayRefuse r s = true) := by
  have h := setFV_allowed_partial c r s hwf hd
  cases ho : setFV c r s with
  | ok s' => exact Or.inl ⟨s', rfl⟩
  | refuse => rw [ho] at h; exact Or.inr ⟨rfl, by simpa [Allowed] using h⟩
  | internal => rw [ho] at h; simp [Allowed] at h
  | off => rw [ho] at h; simp [Allowed] at h
  | internalOrOk s' => rw [ho] at h; simp [Allowed] at h
  | internalOrOff => rw [ho] at h; simp [Allowed] at h

/-- A refusal of the machine is always the documented one (no side-condition). -/
theorem setFV_refuse_documented (c : Ctx) (r : Req) (s : FV) (h : setFV c r s = .refuse) : mayRefuse r s = true := by
  obtain ⟨zo, n, d, k, e, l, b⟩ := s
  cases r with
  | abs a =>
    cases a <;> cases zo <;> cases d <;> by_cases h0 : n = 0 <;>
      simp_all [setFV, setAbs, FV.abs, FV.chain]
  | transits m keep =>
    obtain ⟨mdt, mat⟩ := c
    cases mdt <;> cases mat <;> cases keep <;> cases zo <;> cases d <;> cases l <;>
      by_cases h0 : n = 0 <;> by_cases hm0 : m = 0 <;> by_cases hm1 : m = 1 <;> by_cases hnm : n = m <;>
      simp_all [setFV, setTransits, transitsTail, defectTransitsTail, FV.abs, FV.chain, mayRefuse] <;> omega
  | _ => simp [setFV] at h

/-- Elimination and peripheral compartments are orthogonal to everything else — without any
    side-condition: no request of another category ever changes them, and their own requests change
    nothing else. -/
theorem setFV_frame_elim_periph (c : Ctx) (r : Req) (s s' : FV) (h : setFV c r s = .ok s') :
    ((∀ e, r ≠ .elim e) → s'.elim = s.elim) ∧
    ((∀ k, r ≠ .periph k) → r ≠ .periphAdd → r ≠ .periphRemove → s'.periph = s.periph) ∧
    ((∃ e, r = .elim e) ∨ (∃ k, r = .periph k) ∨ r = .periphAdd ∨ r = .periphRemove →
      s'.zo = s.zo ∧ s'.transits = s.transits ∧ s'.depot = s.depot ∧ s'.lag = s.lag ∧ s'.bio = s.bio) := by
  obtain ⟨zo, n, d, k, e, l, b⟩ := s
  cases r with
  | abs a =>
    cases a <;> cases zo <;> cases d <;> by_cases h0 : n = 0 <;>
      simp_all [setFV, setAbs, FV.abs, FV.chain] <;> (subst h; simp)
  | transits m keep =>
    obtain ⟨mdt, mat⟩ := c
    cases mdt <;> cases mat <;> cases keep <;> cases zo <;> cases d <;> cases l <;>
      by_cases h0 : n = 0 <;> by_cases hm0 : m = 0 <;> by_cases hm1 : m = 1 <;> by_cases hnm : n = m <;>
      simp_all [setFV, setTransits, transitsTail, defectTransitsTail, FV.abs, FV.chain] <;> (try subst h) <;> simp_all
  | elim e' => simp [setFV] at h; subst h; simp
  | periph k' => simp [setFV] at h; subst h; simp
  | periphAdd => simp [setFV] at h; subst h; simp
  | periphRemove => simp [setFV] at h; subst h; simp
  | lag on => simp [setFV] at h; subst h; simp
  | bio on => simp [setFV] at h; subst h; simp

/-- Well-formedness (a lone transit compartment is never produced as "transits = 1, no depot"). -/
theorem setFV_wf (c : Ctx) (r : Req) (s s' : FV) (hwf : s.WF) (h : setFV c r s = .ok s') : s'.WF := by
  obtain ⟨zo, n, d, k, e, l, b⟩ := s
  cases r with
  | abs a =>
    cases a <;> cases zo <;> cases d <;> by_cases h0 : n = 0 <;>
      simp_all [setFV, setAbs, FV.abs, FV.chain, FV.WF] <;> (subst h; simp_all)
  | transits m keep =>
    obtain ⟨mdt, mat⟩ := c
    cases mdt <;> cases mat <;> cases keep <;> cases zo <;> cases d <;> cases l <;>
      by_cases h0 : n = 0 <;> by_cases hm0 : m = 0 <;> by_cases hm1 : m = 1 <;> by_cases hnm : n = m <;>
      simp_all [setFV, setTransits, transitsTail, defectTransitsTail, FV.abs, FV.chain, FV.WF] <;> (try subst h) <;> simp_all <;> omega
  | elim e' => simp [setFV] at h; subst h; simpa [FV.WF] using hwf
  | periph k' => simp [setFV] at h; subst h; simpa [FV.WF] using hwf
  | periphAdd => simp [setFV] at h; subst h; simpa [FV.WF] using hwf
  | periphRemove => simp [setFV] at h; subst h; simpa [FV.WF] using hwf
  | lag on => simp [setFV] at h; subst h; simpa [FV.WF] using hwf
  | bio on => simp [setFV] at h; subst h; simpa [FV.WF] using hwf

set_option maxHeartbeats 1600000 in
/-- Requesting the same feature again changes nothing (every request except the two relative ones
    `add_/remove_peripheral_compartment`, which are not feature requests). -/
theorem setFV_idempotent_partial (c c' : Ctx) (r : Req) (s s' : FV) (hwf : s.WF) (hd : defectOf c r s = none)
    (hr : r ≠ .periphAdd ∧ r ≠ .periphRemove) (h : setFV c r s = .ok s') : setFV c' r s' = .ok s' := by
  obtain ⟨zo, n, d, k, e, l, b⟩ := s
  cases r with
  | abs a =>
    cases a <;> cases zo <;> cases d <;> cases l <;> cases b <;> by_cases h0 : n = 0 <;>
      simp_all [setFV, setAbs, FV.abs, FV.chain, FV.WF, defectOf] <;> (subst h; simp_all [FV.abs, FV.chain])
  | transits m keep =>
    -- the first call ends in `transitsTail … = ok s'`, so `s'` has m transits, no lag time, and no depot when
    -- keep_depot=False; the second call therefore takes the first branch of the tail
    have key : ∀ (t : FV) (hl : Bool), transitsTail t m hl = .ok s' → t.lag = false →
        (keep = false → t.depot = false) → setFV c' (.transits m keep) s' = .ok s' := by
      intro t hl ht htl htd
      obtain ⟨h1, h2, h3⟩ := transitsTail_ok t m hl s' ht
      have hl' : s'.lag = false := by rw [h3, htl]
      have hcond : (!keep && s'.depot) = false := by
        cases keep with
        | true => simp
        | false => simp [h2, htd rfl]
      have hs' : ({ s' with lag := false } : FV) = s' := by cases s'; simp_all
      simp only [setFV, setTransits, hs', hcond, Bool.false_eq_true, if_false]
      exact transitsTail_self s' m _ h1
    simp only [setFV, setTransits] at h
    split at h
    · split at h
      · cases h
      · split at h
        · cases h
        · split at h
          · cases h
          · split at h
            · exact key _ _ h rfl (fun _ => rfl)
            · exact key _ _ h rfl (fun _ => rfl)
    · rename_i hc
      refine key _ _ h rfl (fun hk => ?_)
      subst hk
      simpa using hc
  | elim e' => simp [setFV] at h; subst h; simp [setFV]
  | periph k' => simp [setFV] at h; subst h; simp [setFV]
  | periphAdd => simp at hr
  | periphRemove => simp at hr
  | lag on => simp [setFV] at h; subst h; simp [setFV]
  | bio on => simp [setFV] at h; subst h; simp [setFV]

/-- The full idempotence statement is false of the code: one transit compartment requested on a
    zero-order model is accepted, and the same request on the result is accepted again with a
    different outcome (on the real code it raises NetworkXUnfeasible). -/
theorem setFV_idempotent_witness :
    ∃ c r s, s.WF ∧ setFV c r s ≠ .refuse ∧ (∀ s', setFV c r s = .ok s' → setFV c r s' ≠ .ok s') ∧ defectOf c r s ≠ none :=
  ⟨⟨false, false⟩, .transits 1 true, ⟨true, 0, false, 0, .fo, false, false⟩, by decide, by decide, by simp [setFV, setTransits, transitsTail, defectTransitsTail, FV.abs, FV.chain], by decide⟩

set_option maxHeartbeats 1600000 in
/-- Undoing an added feature restores the feature vector: for a request that adds structure, outside
    the defect classes (of the request and of its undo) and when no lag time is involved in an
    absorption change (the documented INST / SEQ-ZO-FO coupling). -/
theorem undo_restores_partial (c c' : Ctx) (r : Req) (s s' : FV) (hwf : s.WF) (hadd : additive r s = true)
    (hd : defectOf c r s = none) (h : setFV c r s = .ok s') (hd' : defectOf c' (undo r s) s' = none)
    (hlag : (∃ a, r = .abs a) → s.lag = false) :
    setFV c' (undo r s) s' = .ok s := by
  obtain ⟨zo, n, d, k, e, l, b⟩ := s
  cases r with
  | abs a =>
    have hl : l = false := hlag ⟨a, rfl⟩
    subst hl
    cases a <;> cases zo <;> cases d <;> cases b <;> by_cases h0 : n = 0 <;>
      simp_all [setFV, setAbs, FV.abs, FV.chain, FV.WF, defectOf, undo, additive] <;>
      (subst h; simp_all [setAbs, FV.abs, FV.chain, defectOf])
  | transits m keep =>
    obtain ⟨mdt, mat⟩ := c
    cases mdt <;> cases mat <;> cases keep <;> cases zo <;> cases d <;> cases l <;> cases b <;>
      by_cases h0 : n = 0 <;> by_cases hm0 : m = 0 <;> by_cases hm1 : m = 1 <;> by_cases hnm : n = m <;>
      by_cases hn1 : n = 1 <;>
      simp_all [setFV, setTransits, transitsTail, defectTransitsTail, FV.abs, FV.chain, FV.WF, defectOf, undo, additive] <;> (try subst h) <;>
      simp_all [setTransits, transitsTail, defectTransitsTail, FV.abs, FV.chain, defectOf] <;> omega
  | elim e' => simp [setFV] at h; subst h; simp [setFV, undo]
  | periph k' => simp [setFV] at h; subst h; simp [setFV, undo]
  | periphAdd => simp [setFV] at h; subst h; simp [setFV, undo]
  | periphRemove => simp [additive] at hadd
  | lag on => simp [setFV] at h; subst h; simp_all [setFV, undo, additive]
  | bio on => simp [setFV] at h; subst h; simp_all [setFV, undo, additive]

/-- Non-vacuity of `undo_restores_partial`: three transits in front of a depot, then back. -/
example : let s : FV := ⟨false, 0, true, 1, .mix, false, true⟩
    additive (.transits 3 true) s = true ∧ defectOf ⟨false, false⟩ (.transits 3 true) s = none ∧
    setFV ⟨false, false⟩ (.transits 3 true) s = .ok ⟨false, 3, true, 1, .mix, false, true⟩ ∧
    undo (.transits 3 true) s = .transits 0 true ∧
    defectOf ⟨true, false⟩ (.transits 0 true) ⟨false, 3, true, 1, .mix, false, true⟩ = some .transitsDropBio := by decide

/-- … and the full undo statement is false of the code: with a bioavailability the way back loses it. -/
theorem undo_restores_witness :
    ∃ c r s s', s.WF ∧ additive r s = true ∧ defectOf c r s = none ∧ setFV c r s = .ok s' ∧
      ∀ c', setFV c' (undo r s) s' ≠ .ok s :=
  ⟨⟨false, false⟩, .transits 3 true, ⟨false, 0, true, 0, .fo, false, true⟩, ⟨false, 3, true, 0, .fo, false, true⟩,
    by decide, by decide, by decide, by decide, by intro c'; cases c' with | mk b b' => cases b <;> cases b' <;> decide⟩

/-! ## the graph classifiers on the canonical family (every n, every k) -/

/-- `central_compartment` of the canonical graph is CENTRAL, whatever the numbers of transit and
    peripheral compartments, depot, dose, lag time, bioavailability. -/
theorem central_canon (s : FV) : (canonGraph s).central = some .central := by
  simp [Graph.central, canon_preds_out]

/-- The four elimination detectors single out exactly the elimination of the feature vector
    (zero-order = Michaelis–Menten rate with POP_KM fixed) — for every n and k. -/
theorem detectElim_canon (s : FV) : detectElim (canon s) = some s.elim := by
  have hc := central_canon s
  have hf := canon_flow_central_out s
  cases he : s.elim <;>
    simp [detectElim, State.hasFOElim, State.hasZOElim, State.hasMMElim, State.hasMixElim, State.elimRate,
      canon, hc, hf, he, rElim]

/-- The detectors recover the feature vector from the canonical graph (instances used as
    non-vacuity checks of the classifiers; the correspondence run compares the same classifiers with the
    real detectors on every real graph). -/
example : detect (canon ⟨false, 3, true, 2, .mix, true, true⟩) = some ⟨false, 3, true, 2, .mix, true, true⟩ := by decide
example : detect (canon ⟨true, 2, false, 0, .zo, false, true⟩) = some ⟨true, 2, false, 0, .zo, false, true⟩ := by decide
example : detect (canon ⟨true, 0, false, 1, .fo, true, false⟩) = some ⟨true, 0, false, 1, .fo, true, false⟩ := by decide
example : detect (canon ⟨false, 0, true, 0, .mm, false, false⟩) = some ⟨false, 0, true, 0, .mm, false, false⟩ := by decide
/-- "One transit directly into central is a depot": the non-well-formed vector is detected as its normal form. -/
example : detect (canon ⟨false, 1, false, 0, .fo, false, false⟩) = some ⟨false, 0, true, 0, .fo, false, false⟩ := by decide

/-! ## the parameter ledger: nothing without influence is left behind -/

/-- A removing setter whose `symbols` cover everything the removed sites read leaves no parameter behind
    that was not already without influence — for every model (any sites, any parameters). -/
theorem removeSites_no_new_dead (m : PModel) (gone symbols : List Nat)
    (hcover : ∀ s ∈ m.sites, s.id ∈ gone → ∀ p ∈ s.reads, p ∈ symbols) :
    ∀ p ∈ (m.removeSites gone symbols).dead, p ∈ m.dead := by
  intro p hp
  simp only [PModel.dead, PModel.removeSites, List.mem_filter] at hp ⊢
  obtain ⟨⟨hpm, hkeep⟩, hdead⟩ := hp
  refine ⟨hpm, ?_⟩
  -- `p` is read by no remaining site; if a removed site read it, it is in `symbols`, so it would have gone
  cases hr : PModel.readBy m.sites p with
  | false => rfl
  | true =>
    exfalso
    simp only [PModel.readBy, List.any_eq_true] at hr
    obtain ⟨s, hs, hps⟩ := hr
    have hps : p ∈ s.reads := by simpa using hps
    have hnot : PModel.readBy (m.sites.filter (fun s => s.id ∉ gone)) p = false := by simpa using hdead
    by_cases hg : s.id ∈ gone
    · have : p ∈ symbols := hcover s hs hg p hps
      rcases (of_decide_eq_true hkeep) with h | h
      · exact h this
      · rw [hnot] at h; cases h
    · have : PModel.readBy (m.sites.filter (fun s => s.id ∉ gone)) p = true := by
        simp only [PModel.readBy, List.any_eq_true]
        exact ⟨s, by simp [List.mem_filter, hs, hg], by simpa using hps⟩
      rw [this] at hnot; exact absurd hnot (by simp)

/-- … in particular when the setter takes `symbols` from all the sites it removes. -/
theorem removeByCode_no_new_dead (m : PModel) (gone srcs : List Nat) (h : ∀ i ∈ gone, i ∈ srcs) :
    ∀ p ∈ (m.removeByCode gone srcs).dead, p ∈ m.dead := by
  apply removeSites_no_new_dead
  intro s hs hg p hp
  simp only [PModel.symbolsOf, List.mem_flatMap, List.mem_filter]
  exact ⟨s, ⟨hs, by simpa using h _ hg⟩, hp⟩

/-- `remove_peripheral_compartment` as the source has it (clean-up table regenerated on every run) takes the
    symbols of both flows of the removed compartment … -/
theorem removePeripheral_symbols_cover (toP fromP : Nat) :
    ∀ i ∈ [toP, fromP], i ∈ removePeripheralSrcs toP fromP := by
  intro i hi
  simp only [removePeripheralSrcs, removePeripheralSymbolFlows, removePeripheralRemoved] at *
  simp at hi
  rcases hi with h | h <;> subst h <;> simp [List.filterMap]

/-- … hence leaves no parameter without influence behind, whatever the parameterisation of the model
    (clearance/volume, rate constants, anything). -/
theorem removePeripheral_no_new_dead (m : PModel) (toP fromP : Nat) :
    ∀ p ∈ (removePeripheral m toP fromP).dead, p ∈ m.dead :=
  removeByCode_no_new_dead m _ _ (removePeripheral_symbols_cover toP fromP)

/-- Undo on the ledger: adding sites with fresh ids and fresh parameters and removing them again, with
    `symbols` containing the new parameters and only such old ones as an old site still reads, restores
    sites and parameters exactly. -/
theorem add_remove_restores (m : PModel) (new : List Site) (ps symbols : List Nat)
    (hid : ∀ s ∈ m.sites, s.id ∉ new.map (·.id))
    (hfresh : ∀ p ∈ ps, p ∈ symbols ∧ PModel.readBy m.sites p = false)
    (hold : ∀ p ∈ m.params, p ∈ symbols → PModel.readBy m.sites p = true) :
    (m.addSites new ps).removeSites (new.map (·.id)) symbols = m := by
  have hsites : (m.sites ++ new).filter (fun s => s.id ∉ new.map (·.id)) = m.sites := by
    rw [List.filter_append]
    have h1 : m.sites.filter (fun s => s.id ∉ new.map (·.id)) = m.sites :=
      List.filter_eq_self.mpr (fun s hs => by simpa using hid s hs)
    have h2 : new.filter (fun s => s.id ∉ new.map (·.id)) = [] :=
      List.filter_eq_nil_iff.mpr (fun s hs => by simp; exact ⟨s, hs, rfl⟩)
    rw [h1, h2, List.append_nil]
  obtain ⟨sites, params⟩ := m
  simp only [PModel.addSites, PModel.removeSites, hsites, PModel.mk.injEq, true_and]
  rw [List.filter_append]
  have h1 : params.filter (fun p => decide (p ∉ symbols ∨ PModel.readBy sites p = true)) = params :=
    List.filter_eq_self.mpr (fun p hp => by
      by_cases hs : p ∈ symbols
      · simp [hold p hp hs]
      · simp [hs])
  have h2 : ps.filter (fun p => decide (p ∉ symbols ∨ PModel.readBy sites p = true)) = [] :=
    List.filter_eq_nil_iff.mpr (fun p hp => by
      have := hfresh p hp
      simp [this.1, this.2])
  rw [h1, h2, List.append_nil]

/-- Why the clause needs *both* flows: with rate constants (elimination reads K, central→peripheral reads
    KCP, peripheral→central reads KPC) a clean-up from the flow back only leaves KCP behind without influence;
    with clearance and volume (QP/V, QP/VP) the flow back alone happens to suffice. -/
theorem removeSites_uncovered_leaks :
    let rc : PModel := ⟨[⟨0, [10]⟩, ⟨1, [11]⟩, ⟨2, [12]⟩], [10, 11, 12]⟩
    let cv : PModel := ⟨[⟨0, [20, 21]⟩, ⟨1, [22, 21]⟩, ⟨2, [22, 23]⟩], [20, 21, 22, 23]⟩
    (rc.removeByCode [1, 2] [2]).dead = [11] ∧ (rc.removeByCode [1, 2] [1, 2]).dead = [] ∧
    (cv.removeByCode [1, 2] [2]).dead = [] := by decide

/-! ## the MFL feature table (regenerated from the source on every run) -/

/-- Every structural MFL key has a row, and every row denotes its request with the setter and keyword
    arguments the machine assumes (`n=count`; NODEPOT ⇒ `n=count+1, keep_depot=False`). -/
theorem feature_table_total :
    (∀ k ∈ structuralKeys, keyCovered k = true) ∧ (∀ e ∈ mflTable, rowOk e = true) := by
  decide

/-- A feature table whose entries freeze their arguments is faithful for every statement, however many
    values it expands to: each entry performs the request of its own key. -/
theorem frozenTable_faithful {κ : Type} (keys : List κ) (f : κ → Req) :
    ∀ e ∈ frozenTable keys f, e.2 = f e.1 := by
  intro e he
  simp only [frozenTable, List.mem_map] at he
  obtain ⟨k, _, rfl⟩ := he
  rfl

/-- … in particular `TRANSITS(counts, depots)`: entry (count, DEPOT) is `set_transit_compartments(n=count)`,
    entry (count, NODEPOT) is `set_transit_compartments(n=count+1, keep_depot=False)`, for all count lists, and
    this is the request `reqOfKey` assigns to the key. -/
theorem transits_table_faithful (counts : List Nat) (depots : List Bool) :
    ∀ e ∈ frozenTable (transitKeys counts depots) reqOfTransitKey,
      reqOfKey "TRANSITS" (if e.1.2 then "DEPOT" else "NODEPOT") e.1.1 = some e.2 := by
  intro e he
  rw [frozenTable_faithful _ _ e he]
  obtain ⟨⟨c, d⟩, r⟩ := e
  cases d <;> simp [reqOfKey, reqOfTransitKey]

/-- A table whose entries read the loop variables late is faithful only for its last key: the witness is
    `TRANSITS([0,1,3],*)`, where the entry (1, DEPOT) performs `set_transit_compartments(4, keep_depot=False)`;
    a single-valued statement is unaffected. -/
theorem lateTable_unfaithful_witness :
    (lateTable (transitKeys [0, 1, 3] [true, false]) reqOfTransitKey).lookup (1, true) = some (.transits 4 false) ∧
    reqOfTransitKey (1, true) = .transits 1 true ∧
    lateTable (transitKeys [3] [true]) reqOfTransitKey = frozenTable (transitKeys [3] [true]) reqOfTransitKey := by
  decide

/-- The lag-time couplings that `frame` tolerates are the ones modelsearch declares unsupported. -/
theorem lag_couplings_declared :
    (["LAGTIME", "ON"], ["TRANSITS"]) ∈ notSupportedCombo ∧
    (["ABSORPTION", "INST"], ["LAGTIME", "ON"]) ∈ notSupportedCombo ∧
    (["ABSORPTION", "SEQ-ZO-FO"], ["LAGTIME", "ON"]) ∈ notSupportedCombo := by
  decide

end Pharmpy.C08
