import PharmpyModel.C08.FV
import PharmpyModel.C08.Mfl
import PharmpyModel.C08.Ledger
set_option linter.unusedSimpArgs false
/-
  C08 — adjacency lemmas of the canonical graph, for every number of transit and
  peripheral compartments (inductions over n and k).
-/
namespace Pharmpy.C08

/-! ### the tail of set_transit_compartments -/

theorem transitsTail_ok (s : FV) (n : Nat) (h : Bool) (s' : FV) (hs : transitsTail s n h = .ok s') :
    s'.transits = n ∧ s'.depot = s.depot ∧ s'.lag = s.lag := by
  unfold transitsTail at hs
  split at hs
  · cases hs; simp_all
  · split at hs
    · cases hs
    · split at hs
      · split at hs
        · cases hs
        · split at hs <;> cases hs
      · split at hs
        · cases hs
        · split at hs
          · cases hs; simp_all
          · cases hs; simp

theorem transitsTail_self (s : FV) (n : Nat) (h : Bool) (hn : s.transits = n) : transitsTail s n h = .ok s := by
  simp [transitsTail, hn]

/-! ### transit chain -/

theorem transitEdges_src_other (n : Nat) (dest x : Name) (hx : ∀ i, x ≠ .transit i) :
    (transitEdges n dest).filter (fun e => e.src = x) = [] := by
  induction n generalizing dest with
  | zero => rfl
  | succ n ih =>
    have := hx (n + 1)
    simp [transitEdges, List.filter_append, ih, List.filter_cons, Ne.symm this]

theorem transitEdges_src_transit (n : Nat) (dest : Name) (i : Nat) :
    (transitEdges n dest).filter (fun e => e.src = .transit i) =
      if 1 ≤ i ∧ i < n then [⟨.transit i, .transit (i + 1), rKtr⟩]
      else if i = n ∧ 1 ≤ n then [⟨.transit n, dest, rKtr⟩] else [] := by
  induction n generalizing dest with
  | zero => simp [transitEdges]
  | succ n ih =>
    simp only [transitEdges, List.filter_append, ih, List.filter_cons, List.filter_nil]
    by_cases h1 : n + 1 = i
    · subst h1; simp
    · by_cases h2 : i = n
      · subst h2
        by_cases h3 : 1 ≤ i <;> simp [h1, h3] <;> omega
      · by_cases h3 : 1 ≤ i ∧ i < n
        · have h4 : 1 ≤ i ∧ i < n + 1 := by omega
          have h5 : ¬ i = n + 1 := by omega
          simp [h1, h2, h3, h4, h5]
        · have h4 : ¬ (1 ≤ i ∧ i < n + 1) := by omega
          have h5 : ¬ i = n + 1 := by omega
          simp [h1, h2, h3, h4, h5]

/-- The part of the chain with target `x`, apart from the final edge. -/
def chainInto (n : Nat) : Name → List Edge
  | .transit j => if 2 ≤ j ∧ j ≤ n then [⟨.transit (j - 1), .transit j, rKtr⟩] else []
  | _ => []

theorem transitEdges_dst (n : Nat) (dest x : Name) :
    (transitEdges n dest).filter (fun e => e.dst = x) =
      chainInto n x ++ (if 1 ≤ n ∧ dest = x then [⟨.transit n, dest, rKtr⟩] else []) := by
  induction n generalizing dest with
  | zero => cases x <;> simp [transitEdges, chainInto] <;> omega
  | succ n ih =>
    simp only [transitEdges, List.filter_append, ih, List.filter_cons, List.filter_nil]
    cases x with
    | transit j =>
      simp only [chainInto, Name.transit.injEq]
      by_cases h1 : n + 1 = j
      · subst h1
        by_cases h2 : 1 ≤ n
        · have : 2 ≤ n + 1 ∧ n + 1 ≤ n + 1 := by omega
          have h3 : ¬ (2 ≤ n + 1 ∧ n + 1 ≤ n) := by omega
          by_cases h4 : dest = .transit (n + 1) <;> simp [h2, this, h3, h4]
        · have : ¬ (2 ≤ n + 1 ∧ n + 1 ≤ n + 1) := by omega
          have h3 : ¬ (2 ≤ n + 1 ∧ n + 1 ≤ n) := by omega
          by_cases h4 : dest = .transit (n + 1) <;> simp [h2, this, h3, h4]
      · have h5 : (2 ≤ j ∧ j ≤ n + 1) ↔ (2 ≤ j ∧ j ≤ n) := by omega
        by_cases h4 : dest = .transit j <;> simp [h1, h4, h5]
    | out => by_cases h4 : dest = .out <;> simp [chainInto, h4]
    | central => by_cases h4 : dest = .central <;> simp [chainInto, h4]
    | depot => by_cases h4 : dest = .depot <;> simp [chainInto, h4]
    | periph j => by_cases h4 : dest = .periph j <;> simp [chainInto, h4]
    | other t => by_cases h4 : dest = .other t <;> simp [chainInto, h4]

/-! ### peripherals -/

theorem periphEdges_src_other (k : Nat) (x : Name) (hc : x ≠ .central) (hx : ∀ i, x ≠ .periph i) :
    (periphEdges k).filter (fun e => e.src = x) = [] := by
  induction k with
  | zero => rfl
  | succ k ih =>
    have := hx (k + 1)
    simp [periphEdges, List.filter_append, ih, List.filter_cons, Ne.symm this, Ne.symm hc]

theorem periphEdges_dst_other (k : Nat) (x : Name) (hc : x ≠ .central) (hx : ∀ i, x ≠ .periph i) :
    (periphEdges k).filter (fun e => e.dst = x) = [] := by
  induction k with
  | zero => rfl
  | succ k ih =>
    have := hx (k + 1)
    simp [periphEdges, List.filter_append, ih, List.filter_cons, Ne.symm this, Ne.symm hc]

theorem periphEdges_src_periph (k j : Nat) :
    (periphEdges k).filter (fun e => e.src = .periph j) =
      if 1 ≤ j ∧ j ≤ k then [⟨.periph j, .central, rQpc j⟩] else [] := by
  induction k with
  | zero => simp [periphEdges]; omega
  | succ k ih =>
    simp only [periphEdges, List.filter_append, ih, List.filter_cons, List.filter_nil]
    by_cases h1 : k + 1 = j
    · subst h1
      have h2 : ¬ (1 ≤ k + 1 ∧ k + 1 ≤ k) := by omega
      simp [h2]
    · have h5 : (1 ≤ j ∧ j ≤ k + 1) ↔ (1 ≤ j ∧ j ≤ k) := by omega
      simp [h1, h5]

theorem periphEdges_dst_periph (k j : Nat) :
    (periphEdges k).filter (fun e => e.dst = .periph j) =
      if 1 ≤ j ∧ j ≤ k then [⟨.central, .periph j, rQcp j⟩] else [] := by
  induction k with
  | zero => simp [periphEdges]; omega
  | succ k ih =>
    simp only [periphEdges, List.filter_append, ih, List.filter_cons, List.filter_nil]
    by_cases h1 : k + 1 = j
    · subst h1
      have h2 : ¬ (1 ≤ k + 1 ∧ k + 1 ≤ k) := by omega
      simp [h2]
    · have h5 : (1 ≤ j ∧ j ≤ k + 1) ↔ (1 ≤ j ∧ j ≤ k) := by omega
      simp [h1, h5]

/-- Peripheral names 1..k. -/
def periphNames : Nat → List Name
  | 0 => []
  | k + 1 => periphNames k ++ [.periph (k + 1)]

theorem periphEdges_src_central (k : Nat) :
    ((periphEdges k).filter (fun e => e.src = .central)).map (·.dst) = periphNames k := by
  induction k with
  | zero => rfl
  | succ k ih => simp [periphEdges, List.filter_append, ih, List.filter_cons, periphNames]

theorem periphEdges_dst_central (k : Nat) :
    ((periphEdges k).filter (fun e => e.dst = .central)).map (·.src) = periphNames k := by
  induction k with
  | zero => rfl
  | succ k ih => simp [periphEdges, List.filter_append, ih, List.filter_cons, periphNames]

theorem periphNames_length (k : Nat) : (periphNames k).length = k := by
  induction k with
  | zero => rfl
  | succ k ih => simp [periphNames, ih]


/-! ### the canonical graph -/

theorem dest_ne_transit (d : Bool) (j : Nat) : (if d then Name.depot else Name.central) ≠ .transit j := by
  cases d <;> simp

/-- The output has exactly one inflow, from CENTRAL — for every n and k. -/
theorem canon_preds_out (s : FV) : (canonGraph s).preds .out = [(.central, rElim s.elim)] := by
  obtain ⟨zo, n, d, k, e, l, b⟩ := s
  have hT : (transitEdges n (if d then Name.depot else Name.central)).filter (fun e => e.dst = .out) = [] := by
    rw [transitEdges_dst]
    cases d <;> simp [chainInto]
  have hP : (periphEdges k).filter (fun e => e.dst = .out) = [] :=
    periphEdges_dst_other k .out (by simp) (by simp)
  cases d <;> simp [Graph.preds, canonGraph, List.filter_append, List.filter_cons, hT, hP] <;>
    simpa using hT

/-- The elimination edge is found first — for every n and k. -/
theorem canon_flow_central_out (s : FV) : (canonGraph s).flow .central .out = some (rElim s.elim) := by
  simp [Graph.flow, canonGraph, List.find?]

end Pharmpy.C08
