import PharmpyModel.C08.FV
import PharmpyModel.C08.Mfl
namespace Pharmpy.C08
end Pharmpy.C08
