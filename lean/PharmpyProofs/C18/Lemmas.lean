import PharmpyModel.C18.Search
namespace Pharmpy.C18
end Pharmpy.C18
