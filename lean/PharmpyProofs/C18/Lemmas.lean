import PharmpyModel.C18.Spec
/-
  Helper lemmas for C18: set partitions (`partsRev`), combinations.
-/
namespace Pharmpy.C18

variable {α : Type}

/-! ### `Rel` -/

theorem rel_nil (a b : α) : ¬ Rel ([] : List (List α)) a b := by
  rintro ⟨p, hp, _⟩; cases hp

theorem rel_cons (p : List α) (P : List (List α)) (a b : α) :
    Rel (p :: P) a b ↔ (a ∈ p ∧ b ∈ p) ∨ Rel P a b := by
  constructor
  · rintro ⟨q, hq, ha, hb⟩
    rcases List.mem_cons.mp hq with rfl | hq
    · exact Or.inl ⟨ha, hb⟩
    · exact Or.inr ⟨q, hq, ha, hb⟩
  · rintro (⟨ha, hb⟩ | ⟨q, hq, ha, hb⟩)
    · exact ⟨p, List.mem_cons_self, ha, hb⟩
    · exact ⟨q, List.mem_cons_of_mem _ hq, ha, hb⟩

theorem rel_append (P Q : List (List α)) (a b : α) :
    Rel (P ++ Q) a b ↔ Rel P a b ∨ Rel Q a b := by
  constructor
  · rintro ⟨q, hq, ha, hb⟩
    rcases List.mem_append.mp hq with h | h
    · exact Or.inl ⟨q, h, ha, hb⟩
    · exact Or.inr ⟨q, h, ha, hb⟩
  · rintro (⟨q, hq, ha, hb⟩ | ⟨q, hq, ha, hb⟩)
    · exact ⟨q, List.mem_append_left _ hq, ha, hb⟩
    · exact ⟨q, List.mem_append_right _ hq, ha, hb⟩

theorem rel_symm {P : List (List α)} {a b : α} (h : Rel P a b) : Rel P b a := by
  rcases h with ⟨p, hp, ha, hb⟩; exact ⟨p, hp, hb, ha⟩

theorem rel_mem_flatten_left {P : List (List α)} {a b : α} (h : Rel P a b) : a ∈ P.flatten := by
  rcases h with ⟨p, hp, ha, _⟩; exact List.mem_flatten.mpr ⟨p, hp, ha⟩

theorem rel_of_perm {P Q : List (List α)} (h : P.Perm Q) (a b : α) : Rel P a b ↔ Rel Q a b := by
  constructor
  · rintro ⟨p, hp, ha, hb⟩; exact ⟨p, h.mem_iff.mp hp, ha, hb⟩
  · rintro ⟨p, hp, ha, hb⟩; exact ⟨p, h.mem_iff.mpr hp, ha, hb⟩

/-! ### `insertEach`, `step` -/

theorem insertEach_flatten (x : α) (P Q : List (List α)) (h : Q ∈ insertEach x P) :
    Q.flatten.Perm (x :: P.flatten) := by
  induction P generalizing Q with
  | nil => simp [insertEach] at h
  | cons b bs ih =>
    simp only [insertEach, List.mem_cons, List.mem_map] at h
    rcases h with rfl | ⟨Q', hQ', rfl⟩
    · simp only [List.flatten_cons, List.append_assoc, List.singleton_append]
      exact List.perm_middle
    · have := ih Q' hQ'
      simp only [List.flatten_cons]
      exact (List.Perm.append_left b this).trans List.perm_middle

theorem insertEach_nonempty (x : α) (P Q : List (List α)) (h : Q ∈ insertEach x P)
    (hP : ∀ p, p ∈ P → p ≠ []) : ∀ q, q ∈ Q → q ≠ [] := by
  induction P generalizing Q with
  | nil => simp [insertEach] at h
  | cons b bs ih =>
    simp only [insertEach, List.mem_cons, List.mem_map] at h
    rcases h with rfl | ⟨Q', hQ', rfl⟩
    · intro q hq
      rcases List.mem_cons.mp hq with rfl | hq
      · simp
      · exact hP q (List.mem_cons_of_mem _ hq)
    · intro q hq
      rcases List.mem_cons.mp hq with rfl | hq
      · exact hP q List.mem_cons_self
      · exact ih Q' hQ' (fun p hp => hP p (List.mem_cons_of_mem _ hp)) q hq

theorem insertEach_length (x : α) (P : List (List α)) : (insertEach x P).length = P.length := by
  induction P with
  | nil => rfl
  | cons b bs ih => simp [insertEach, ih]

theorem insertEach_block_length (x : α) (P Q : List (List α)) (h : Q ∈ insertEach x P) :
    Q.length = P.length := by
  induction P generalizing Q with
  | nil => simp [insertEach] at h
  | cons b bs ih =>
    simp only [insertEach, List.mem_cons, List.mem_map] at h
    rcases h with rfl | ⟨Q', hQ', rfl⟩
    · simp
    · simp [ih Q' hQ']

theorem step_isPartition (x : α) (r : List α) (P Q : List (List α)) (hP : IsPartition r P)
    (h : Q ∈ step x P) : IsPartition (x :: r) Q := by
  simp only [step, List.mem_cons] at h
  rcases h with rfl | h
  · constructor
    · intro p hp
      rcases List.mem_append.mp hp with hp | hp
      · exact hP.1 p hp
      · simp at hp; subst hp; simp
    · simp only [List.flatten_append, List.flatten_cons, List.flatten_nil, List.append_nil]
      exact (List.perm_append_comm).trans (List.Perm.cons x hP.2)
  · exact ⟨insertEach_nonempty x P Q h hP.1, (insertEach_flatten x P Q h).trans (List.Perm.cons x hP.2)⟩

theorem partsRev_isPartition (r : List α) : ∀ P, P ∈ partsRev r → IsPartition r P := by
  induction r with
  | nil =>
    intro P hP
    simp [partsRev] at hP
    subst hP
    exact ⟨by simp, by simp⟩
  | cons x r ih =>
    intro Q hQ
    simp only [partsRev, List.mem_flatMap] at hQ
    rcases hQ with ⟨P, hP, hQ⟩
    exact step_isPartition x r P Q (ih P hP) hQ

/-- Relation of a child restricted to the old elements is the relation of the parent. -/
theorem insertEach_rel_old (x : α) (P Q : List (List α)) (h : Q ∈ insertEach x P)
    (a b : α) (ha : a ≠ x) (hb : b ≠ x) : Rel Q a b ↔ Rel P a b := by
  induction P generalizing Q with
  | nil => simp [insertEach] at h
  | cons p ps ih =>
    simp only [insertEach, List.mem_cons, List.mem_map] at h
    rcases h with rfl | ⟨Q', hQ', rfl⟩
    · simp only [rel_cons, List.mem_append, List.mem_singleton]
      constructor
      · rintro (⟨h1, h2⟩ | h)
        · exact Or.inl ⟨h1.resolve_right ha, h2.resolve_right hb⟩
        · exact Or.inr h
      · rintro (⟨h1, h2⟩ | h)
        · exact Or.inl ⟨Or.inl h1, Or.inl h2⟩
        · exact Or.inr h
    · simp only [rel_cons, ih Q' hQ']

theorem step_rel_old (x : α) (P Q : List (List α)) (h : Q ∈ step x P)
    (a b : α) (ha : a ≠ x) (hb : b ≠ x) : Rel Q a b ↔ Rel P a b := by
  simp only [step, List.mem_cons] at h
  rcases h with rfl | h
  · simp only [rel_append, rel_cons, List.mem_singleton]
    constructor
    · rintro (h | ⟨h1, _⟩ | h)
      · exact h
      · exact absurd h1 ha
      · exact absurd h (rel_nil _ _)
    · intro h; exact Or.inl h
  · exact insertEach_rel_old x P Q h a b ha hb

/-- In the child that opens a new block, `x` is related to nothing else. -/
theorem newBlock_rel_x (x : α) (P : List (List α)) (hx : x ∉ P.flatten) (b : α) (hb : b ≠ x) :
    ¬ Rel (P ++ [[x]]) x b := by
  simp only [rel_append, rel_cons, List.mem_singleton]
  rintro (h | ⟨_, h⟩ | h)
  · exact hx (rel_mem_flatten_left h)
  · exact hb h
  · exact rel_nil _ _ h

/-- Elements of the blocks of a child. -/
theorem insertEach_mem_block (x : α) (P Q : List (List α)) (h : Q ∈ insertEach x P)
    (q : List α) (hq : q ∈ Q) (c : α) (hc : c ∈ q) : c = x ∨ c ∈ P.flatten := by
  have hperm := insertEach_flatten x P Q h
  have : c ∈ Q.flatten := List.mem_flatten.mpr ⟨q, hq, hc⟩
  have := hperm.mem_iff.mp this
  simpa using this

/-- In a child obtained by adding `x` to a block, `x` is related to some old element. -/
theorem insertEach_rel_x_exists (x : α) (P Q : List (List α)) (h : Q ∈ insertEach x P)
    (hP : ∀ p, p ∈ P → p ≠ []) (hx : x ∉ P.flatten) :
    ∃ c, c ≠ x ∧ c ∈ P.flatten ∧ Rel Q x c := by
  induction P generalizing Q with
  | nil => simp [insertEach] at h
  | cons p ps ih =>
    simp only [insertEach, List.mem_cons, List.mem_map] at h
    rcases h with rfl | ⟨Q', hQ', rfl⟩
    · have hne := hP p List.mem_cons_self
      obtain ⟨c, hc⟩ := List.exists_mem_of_ne_nil p hne
      refine ⟨c, ?_, ?_, ?_⟩
      · rintro rfl; exact hx (by simp [hc])
      · simp [hc]
      · exact ⟨p ++ [x], List.mem_cons_self, by simp, by simp [hc]⟩
    · have hx' : x ∉ ps.flatten := by
        intro h'; exact hx (by simp [h'])
      obtain ⟨c, hc1, hc2, hc3⟩ := ih Q' hQ' (fun q hq => hP q (List.mem_cons_of_mem _ hq)) hx'
      refine ⟨c, hc1, by simp [hc2], ?_⟩
      rw [rel_cons]; exact Or.inr hc3

/-- Distinct children of one parent (obtained by adding `x` to different blocks) differ
    on a pair `(x, c)`. -/
theorem insertEach_pairwise (x : α) (P : List (List α)) (hP : ∀ p, p ∈ P → p ≠ [])
    (hnd : (x :: P.flatten).Nodup) :
    (insertEach x P).Pairwise
      (fun Q1 Q2 => ∃ c, c ≠ x ∧ c ∈ P.flatten ∧ ¬ (Rel Q1 x c ↔ Rel Q2 x c)) := by
  induction P with
  | nil => simp [insertEach]
  | cons p ps ih =>
    have hx : x ∉ (p :: ps).flatten := (List.nodup_cons.mp hnd).1
    have hxp : x ∉ p := by intro h; exact hx (by simp [h])
    have hxps : x ∉ ps.flatten := by intro h; exact hx (by simp [h])
    have hnd2 : (p ++ ps.flatten).Nodup := by simpa using (List.nodup_cons.mp hnd).2
    have hdisj : ∀ c, c ∈ p → c ∉ ps.flatten := by
      intro c hc hc'
      exact (List.nodup_append.mp hnd2).2.2 c hc c hc' rfl
    simp only [insertEach, List.pairwise_cons, List.mem_map, List.pairwise_map]
    constructor
    · rintro Q ⟨Q', hQ', rfl⟩
      obtain ⟨c, hc⟩ := List.exists_mem_of_ne_nil p (hP p List.mem_cons_self)
      have hcx : c ≠ x := by rintro rfl; exact hxp hc
      refine ⟨c, hcx, by simp [hc], ?_⟩
      intro hiff
      have h1 : Rel ((p ++ [x]) :: ps) x c := ⟨p ++ [x], List.mem_cons_self, by simp, by simp [hc]⟩
      have h2 := hiff.mp h1
      rw [rel_cons] at h2
      rcases h2 with ⟨h2, _⟩ | ⟨q, hq, _, hcq⟩
      · exact hxp h2
      · rcases insertEach_mem_block x ps Q' hQ' q hq c hcq with h | h
        · exact hcx h
        · exact hdisj c hc h
    · have hnd' : (x :: ps.flatten).Nodup := by
        refine List.nodup_cons.mpr ⟨hxps, (List.nodup_append.mp hnd2).2.1⟩
      refine (ih (fun q hq => hP q (List.mem_cons_of_mem _ hq)) hnd').imp ?_
      rintro Q1 Q2 ⟨c, hc1, hc2, hc3⟩
      refine ⟨c, hc1, by simp [hc2], ?_⟩
      simp only [rel_cons]
      intro hiff
      apply hc3
      constructor
      · intro h
        rcases hiff.mp (Or.inr h) with ⟨h', _⟩ | h'
        · exact absurd h' hxp
        · exact h'
      · intro h
        rcases hiff.mpr (Or.inr h) with ⟨h', _⟩ | h'
        · exact absurd h' hxp
        · exact h'

/-- The children of one parent are pairwise different partitions. -/
theorem step_pairwise (x : α) (r : List α) (P : List (List α)) (hP : IsPartition r P)
    (hnd : (x :: r).Nodup) : (step x P).Pairwise (Differ (x :: r)) := by
  have hx : x ∉ P.flatten := by
    intro h; exact (List.nodup_cons.mp hnd).1 (hP.2.mem_iff.mp h)
  have hnd' : (x :: P.flatten).Nodup :=
    List.nodup_cons.mpr ⟨hx, (hP.2.nodup_iff).mpr (List.nodup_cons.mp hnd).2⟩
  simp only [step, List.pairwise_cons]
  constructor
  · intro Q hQ
    obtain ⟨c, hc1, hc2, hc3⟩ := insertEach_rel_x_exists x P Q hQ hP.1 hx
    refine ⟨x, List.mem_cons_self, c, List.mem_cons_of_mem _ (hP.2.mem_iff.mp hc2), ?_⟩
    intro hiff
    exact newBlock_rel_x x P hx c hc1 (hiff.mpr hc3)
  · refine (insertEach_pairwise x P hP.1 hnd').imp ?_
    rintro Q1 Q2 ⟨c, _, hc2, hc3⟩
    exact ⟨x, List.mem_cons_self, c, List.mem_cons_of_mem _ (hP.2.mem_iff.mp hc2), hc3⟩

theorem partsRev_pairwise_differ (r : List α) (hnd : r.Nodup) :
    (partsRev r).Pairwise (Differ r) := by
  induction r with
  | nil => simp [partsRev]
  | cons x r ih =>
    have hx : x ∉ r := (List.nodup_cons.mp hnd).1
    simp only [partsRev, List.pairwise_flatMap]
    constructor
    · intro P hP
      exact step_pairwise x r P (partsRev_isPartition r P hP) hnd
    · refine (ih (List.nodup_cons.mp hnd).2).imp ?_
      rintro P1 P2 ⟨a, ha, b, hb, hne⟩ Q1 hQ1 Q2 hQ2
      have hax : a ≠ x := by rintro rfl; exact hx ha
      have hbx : b ≠ x := by rintro rfl; exact hx hb
      refine ⟨a, List.mem_cons_of_mem _ ha, b, List.mem_cons_of_mem _ hb, ?_⟩
      rw [step_rel_old x P1 Q1 hQ1 a b hax hbx, step_rel_old x P2 Q2 hQ2 a b hax hbx]
      exact hne

/-! ### completeness -/

theorem block_unique (P : List (List α)) (hnd : P.flatten.Nodup) (p q : List α) (hp : p ∈ P) (hq : q ∈ P)
    (y : α) (hyp : y ∈ p) (hyq : y ∈ q) : p = q := by
  induction P with
  | nil => cases hp
  | cons b bs ih =>
    simp only [List.flatten_cons] at hnd
    have hdisj := (List.nodup_append.mp hnd).2.2
    rcases List.mem_cons.mp hp with rfl | hp' <;> rcases List.mem_cons.mp hq with rfl | hq'
    · rfl
    · exact absurd rfl (hdisj y hyp y (List.mem_flatten.mpr ⟨q, hq', hyq⟩))
    · exact absurd rfl (hdisj y hyq y (List.mem_flatten.mpr ⟨p, hp', hyp⟩))
    · exact ih (List.nodup_append.mp hnd).2.1 hp' hq'

/-- For every block `p` of the parent there is a child in which `x` joins exactly `p`. -/
theorem insertEach_choose (x : α) (P : List (List α)) (hx : x ∉ P.flatten) (p : List α) (hp : p ∈ P) :
    ∃ Q, Q ∈ insertEach x P ∧ ∀ c, c ≠ x → (Rel Q x c ↔ c ∈ p) := by
  induction P with
  | nil => cases hp
  | cons b bs ih =>
    have hxb : x ∉ b := by intro h; exact hx (by simp [h])
    have hxbs : x ∉ bs.flatten := by intro h; exact hx (by simp [h])
    rcases List.mem_cons.mp hp with rfl | hp'
    · refine ⟨(p ++ [x]) :: bs, by simp [insertEach], ?_⟩
      intro c hc
      rw [rel_cons]
      constructor
      · rintro (⟨_, h⟩ | h)
        · simpa [hc] using h
        · exact absurd (rel_mem_flatten_left h) hxbs
      · intro h; exact Or.inl ⟨by simp, by simp [h]⟩
    · obtain ⟨Q', hQ', hprop⟩ := ih hxbs hp'
      refine ⟨b :: Q', by simp only [insertEach, List.mem_cons, List.mem_map]; exact Or.inr ⟨Q', hQ', rfl⟩, ?_⟩
      intro c hc
      rw [rel_cons, ← hprop c hc]
      constructor
      · rintro (⟨h, _⟩ | h)
        · exact absurd h hxb
        · exact h
      · intro h; exact Or.inr h

theorem rel_iff_of_parts (x : α) (r : List α) (Q : List (List α)) (R : α → α → Prop) (hR : Equivalence R)
    (hxx : Rel Q x x) (hxb : ∀ b, b ∈ r → (Rel Q x b ↔ R x b))
    (hold : ∀ a, a ∈ r → ∀ b, b ∈ r → (Rel Q a b ↔ R a b)) :
    ∀ a, a ∈ x :: r → ∀ b, b ∈ x :: r → (Rel Q a b ↔ R a b) := by
  intro a ha b hb
  rcases List.mem_cons.mp ha with hax | ha' <;> rcases List.mem_cons.mp hb with hbx | hb'
  · rw [hax, hbx]; exact ⟨fun _ => hR.refl _, fun _ => hxx⟩
  · rw [hax]; exact hxb b hb'
  · rw [hbx]
    constructor
    · intro h; exact hR.symm ((hxb a ha').mp (rel_symm h))
    · intro h; exact rel_symm ((hxb a ha').mpr (hR.symm h))
  · exact hold a ha' b hb'

theorem partsRev_complete (r : List α) (hnd : r.Nodup) (R : α → α → Prop) (hR : Equivalence R) :
    ∃ P, P ∈ partsRev r ∧ ∀ a, a ∈ r → ∀ b, b ∈ r → (Rel P a b ↔ R a b) := by
  induction r with
  | nil => exact ⟨[], by simp [partsRev], by intro a ha; cases ha⟩
  | cons x r ih =>
    have hxr : x ∉ r := (List.nodup_cons.mp hnd).1
    obtain ⟨P, hP, hrel⟩ := ih (List.nodup_cons.mp hnd).2
    have hpart := partsRev_isPartition r P hP
    have hx : x ∉ P.flatten := fun h => hxr (hpart.2.mem_iff.mp h)
    have hPnd : P.flatten.Nodup := hpart.2.nodup_iff.mpr (List.nodup_cons.mp hnd).2
    by_cases hex : ∃ y, y ∈ r ∧ R x y
    · obtain ⟨y, hy, hxy⟩ := hex
      have hyx : y ≠ x := by rintro rfl; exact hxr hy
      obtain ⟨p, hp, hyp⟩ := List.mem_flatten.mp (hpart.2.mem_iff.mpr hy)
      obtain ⟨Q, hQ, hQx⟩ := insertEach_choose x P hx p hp
      have hQstep : Q ∈ step x P := by simp [step, hQ]
      have key : ∀ b, b ∈ r → (Rel Q x b ↔ R x b) := by
        intro b hb
        have hbx : b ≠ x := by rintro rfl; exact hxr hb
        rw [hQx b hbx]
        constructor
        · intro hbp
          have : Rel P y b := ⟨p, hp, hyp, hbp⟩
          exact hR.trans hxy ((hrel y hy b hb).mp this)
        · intro hxb
          have : R y b := hR.trans (hR.symm hxy) hxb
          obtain ⟨q, hq, hyq, hbq⟩ := (hrel y hy b hb).mpr this
          have := block_unique P hPnd p q hp hq y hyp hyq
          subst this; exact hbq
      refine ⟨Q, by simp only [partsRev, List.mem_flatMap]; exact ⟨P, hP, hQstep⟩, ?_⟩
      apply rel_iff_of_parts x r Q R hR
      · obtain ⟨q, hq, h1, _⟩ := (hQx y hyx).mpr hyp
        exact ⟨q, hq, h1, h1⟩
      · exact key
      · intro a ha' b hb'
        have h1 : a ≠ x := by rintro rfl; exact hxr ha'
        have h2 : b ≠ x := by rintro rfl; exact hxr hb'
        rw [step_rel_old x P Q hQstep a b h1 h2]
        exact hrel a ha' b hb'
    · have hno : ∀ b, b ∈ r → ¬ R x b := fun b hb h => hex ⟨b, hb, h⟩
      have hQstep : (P ++ [[x]]) ∈ step x P := by simp [step]
      refine ⟨P ++ [[x]], by simp only [partsRev, List.mem_flatMap]; exact ⟨P, hP, hQstep⟩, ?_⟩
      apply rel_iff_of_parts x r _ R hR
      · exact ⟨[x], by simp, by simp, by simp⟩
      · intro b hb'
        have hbx : b ≠ x := by rintro rfl; exact hxr hb'
        constructor
        · intro h; exact absurd h (newBlock_rel_x x P hx b hbx)
        · intro h; exact absurd h (hno b hb')
      · intro a ha' b hb'
        have h1 : a ≠ x := by rintro rfl; exact hxr ha'
        have h2 : b ≠ x := by rintro rfl; exact hxr hb'
        rw [step_rel_old x P _ hQstep a b h1 h2]
        exact hrel a ha' b hb'

/-! ### counting: Stirling numbers of the second kind and Bell numbers -/

theorem step_count (x : α) (P : List (List α)) (k : Nat) :
    (step x P).countP (fun Q => Q.length == k) =
      (if P.length + 1 = k then 1 else 0) + (if P.length = k then P.length else 0) := by
  have h1 : (insertEach x P).countP (fun Q => Q.length == k) = if P.length = k then P.length else 0 := by
    by_cases hk : P.length = k
    · rw [if_pos hk, List.countP_eq_length.mpr, insertEach_length]
      intro Q hQ
      simp [insertEach_block_length x P Q hQ, hk]
    · rw [if_neg hk, List.countP_eq_zero]
      intro Q hQ
      simp [insertEach_block_length x P Q hQ, hk]
  simp only [step, List.countP_cons, h1, List.length_append, List.length_singleton, beq_iff_eq]
  omega

theorem sum_map_add (L : List (List (List α))) (f g : List (List α) → Nat) :
    (L.map (fun P => f P + g P)).sum = (L.map f).sum + (L.map g).sum := by
  induction L with
  | nil => rfl
  | cons a L ih => simp only [List.map_cons, List.sum_cons, ih]; omega

theorem sum_ite_const (L : List (List (List α))) (k c : Nat) :
    (L.map (fun P => if P.length = k then c else 0)).sum = c * L.countP (fun P => P.length == k) := by
  induction L with
  | nil => simp
  | cons a L ih =>
    simp only [List.map_cons, List.sum_cons, ih, List.countP_cons, beq_iff_eq]
    by_cases h : a.length = k <;> simp [h, Nat.mul_add]
    omega

theorem sum_ite_len (L : List (List (List α))) (k : Nat) :
    (L.map (fun P => if P.length = k then P.length else 0)).sum = k * L.countP (fun P => P.length == k) := by
  have : (fun (P : List (List α)) => if P.length = k then P.length else 0) = (fun P => if P.length = k then k else 0) := by
    funext P; by_cases h : P.length = k <;> simp [h]
  rw [this, sum_ite_const]

theorem partsRev_count (r : List α) : ∀ k, (partsRev r).countP (fun P => P.length == k) = stirling2 r.length k := by
  induction r with
  | nil =>
    intro k
    cases k <;> simp [partsRev, stirling2]
  | cons x r ih =>
    intro k
    simp only [partsRev, List.countP_flatMap, List.length_cons]
    have : (List.countP (fun (Q : List (List α)) => Q.length == k) ∘ step x) =
        (fun P => (if P.length + 1 = k then 1 else 0) + (if P.length = k then P.length else 0)) := by
      funext P; exact step_count x P k
    rw [this, sum_map_add, sum_ite_len]
    cases k with
    | zero =>
      have hz : ∀ (L : List (List (List α))), (L.map (fun _ => 0)).sum = 0 := by
        intro L; induction L with
        | nil => rfl
        | cons a L ih => simp [ih]
      simp [stirling2, hz]
    | succ k =>
      have : (fun (P : List (List α)) => if P.length + 1 = k + 1 then 1 else 0) = (fun P => if P.length = k then 1 else 0) := by
        funext P; by_cases h : P.length = k <;> simp [h]
      rw [this, sum_ite_const, ih k, ih (k + 1)]
      simp [stirling2]; omega

theorem partsRev_block_count_le (r : List α) : ∀ P, P ∈ partsRev r → P.length ≤ r.length := by
  induction r with
  | nil => intro P hP; simp [partsRev] at hP; simp [hP]
  | cons x r ih =>
    intro Q hQ
    simp only [partsRev, List.mem_flatMap] at hQ
    obtain ⟨P, hP, hQ⟩ := hQ
    have := ih P hP
    simp only [step, List.mem_cons] at hQ
    rcases hQ with rfl | hQ
    · simp; omega
    · rw [insertEach_block_length x P Q hQ]; simp; omega

theorem sumTo_indicator (m n : Nat) (h : m ≤ n) : sumTo (fun j => if m = j then 1 else 0) n = 1 := by
  induction n with
  | zero => have : m = 0 := by omega
            simp [sumTo, this]
  | succ n ih =>
    simp only [sumTo]
    by_cases hm : m = n + 1
    · subst hm
      have : sumTo (fun j => if n + 1 = j then 1 else 0) n = 0 := by
        have : ∀ k, k ≤ n → sumTo (fun j => if n + 1 = j then 1 else 0) k = 0 := by
          intro k hk
          induction k with
          | zero => simp [sumTo]
          | succ k ihk => simp only [sumTo]; rw [ihk (by omega)]; simp; omega
        exact this n (Nat.le_refl n)
      simp [this]
    · rw [ih (by omega)]; simp [hm]

theorem sumTo_add (f g : Nat → Nat) (n : Nat) : sumTo (fun j => f j + g j) n = sumTo f n + sumTo g n := by
  induction n with
  | zero => rfl
  | succ n ih => simp only [sumTo, ih]; omega

theorem length_eq_sumTo_count (L : List (List (List α))) (n : Nat) (h : ∀ P, P ∈ L → P.length ≤ n) :
    L.length = sumTo (fun j => L.countP (fun P => P.length == j)) n := by
  induction L with
  | nil =>
    have : ∀ k, sumTo (fun _ => 0) k = 0 := by
      intro k; induction k with
      | zero => rfl
      | succ k ih => simp [sumTo, ih]
    simp [this]
  | cons a L ih =>
    have h1 := ih (fun P hP => h P (List.mem_cons_of_mem _ hP))
    have h2 := sumTo_indicator a.length n (h a List.mem_cons_self)
    simp only [List.length_cons, List.countP_cons, beq_iff_eq]
    rw [sumTo_add, ← h1, h2]

theorem partsRev_length (r : List α) : (partsRev r).length = bell r.length := by
  rw [length_eq_sumTo_count (partsRev r) r.length (partsRev_block_count_le r)]
  unfold bell
  congr 1
  funext j
  exact partsRev_count r j

/-! ### combinations and subsets -/

theorem combs_mem_iff (r : Nat) (l s : List α) : s ∈ combs r l ↔ s.Sublist l ∧ s.length = r := by
  induction l generalizing r s with
  | nil =>
    cases r with
    | zero => simp [combs]
    | succ r => simp [combs]; intro h; simp [h]
  | cons x xs ih =>
    cases r with
    | zero =>
      simp only [combs, List.mem_singleton]
      constructor
      · rintro rfl; simp
      · rintro ⟨_, h⟩; exact List.length_eq_zero_iff.mp h
    | succ r =>
      simp only [combs, List.mem_append, List.mem_map, ih]
      constructor
      · rintro (⟨t, ⟨ht, hlen⟩, rfl⟩ | ⟨hs, hlen⟩)
        · exact ⟨List.cons_sublist_cons.mpr ht, by simp [hlen]⟩
        · exact ⟨List.Sublist.cons _ hs, hlen⟩
      · rintro ⟨hs, hlen⟩
        rcases List.sublist_cons_iff.mp hs with h | ⟨t, rfl, ht⟩
        · exact Or.inr ⟨h, hlen⟩
        · exact Or.inl ⟨t, ⟨ht, by simpa using hlen⟩, rfl⟩

theorem combs_nodup (r : Nat) (l : List α) (hl : l.Nodup) : (combs r l).Nodup := by
  induction l generalizing r with
  | nil => cases r <;> simp [combs]
  | cons x xs ih =>
    cases r with
    | zero => simp [combs]
    | succ r =>
      have hx : x ∉ xs := (List.nodup_cons.mp hl).1
      have hxs := (List.nodup_cons.mp hl).2
      simp only [combs]
      rw [List.nodup_append]
      refine ⟨?_, ih (r + 1) hxs, ?_⟩
      · exact List.Pairwise.map _ (fun a b hab h => hab (List.tail_eq_of_cons_eq h)) (ih r hxs)
      · intro a ha b hb hab
        obtain ⟨t, _, rfl⟩ := List.mem_map.mp ha
        subst hab
        have := ((combs_mem_iff (r + 1) xs (x :: t)).mp hb).1
        exact hx (this.subset List.mem_cons_self)

theorem combs_length_zero_of_lt (r : Nat) (l : List α) (h : l.length < r) : (combs r l).length = 0 := by
  induction l generalizing r with
  | nil => cases r with
    | zero => simp at h
    | succ r => simp [combs]
  | cons x xs ih =>
    cases r with
    | zero => simp at h
    | succ r =>
      simp only [combs, List.length_append, List.length_map]
      simp only [List.length_cons] at h
      rw [ih r (by omega), ih (r + 1) (by omega)]

theorem combs_length_choose (r : Nat) (l : List α) : (combs r l).length = choose l.length r := by
  induction l generalizing r with
  | nil => cases r <;> simp [combs, choose]
  | cons x xs ih =>
    cases r with
    | zero => simp [combs, choose]
    | succ r => simp [combs, choose, ih]

theorem sumTo_shift (f : Nat → Nat) (m : Nat) : sumTo f (m + 1) = f 0 + sumTo (fun r => f (r + 1)) m := by
  induction m with
  | zero => simp [sumTo]
  | succ m ih => rw [sumTo, ih]; simp only [sumTo]; omega

theorem sumTo_congr (f g : Nat → Nat) (m : Nat) (h : ∀ r, r ≤ m → f r = g r) : sumTo f m = sumTo g m := by
  induction m with
  | zero => simp [sumTo, h 0]
  | succ m ih => simp only [sumTo]; rw [ih (fun r hr => h r (by omega)), h (m + 1) (Nat.le_refl _)]

/-- the total number of sub-lists is `2^n` -/
theorem sumTo_combs (l : List α) : ∀ m, l.length ≤ m → sumTo (fun r => (combs r l).length) m = 2 ^ l.length := by
  induction l with
  | nil =>
    intro m _
    induction m with
    | zero => simp [sumTo, combs]
    | succ m ih => simp only [sumTo]; rw [ih (by simp)]; simp [combs]
  | cons x xs ih =>
    intro m hm
    cases m with
    | zero => simp at hm
    | succ m =>
      simp only [List.length_cons] at hm
      rw [sumTo_shift]
      have h1 : sumTo (fun r => (combs (r + 1) (x :: xs)).length) m =
          sumTo (fun r => (combs r xs).length) m + sumTo (fun r => (combs (r + 1) xs).length) m := by
        rw [← sumTo_add]
        apply sumTo_congr
        intro r _
        simp [combs]
      have h2 := sumTo_shift (fun r => (combs r xs).length) m
      have h3 := ih m (by omega)
      have h4 := ih (m + 1) (by omega)
      rw [h1, h3]
      rw [h4] at h2
      simp only [combs, List.length_singleton] at h2 ⊢
      rw [List.length_cons, Nat.pow_succ]
      omega

theorem sum_range_eq_sumTo (f : Nat → Nat) (n : Nat) : ((List.range (n + 1)).map f).sum = sumTo f n := by
  induction n with
  | zero => simp [sumTo]
  | succ n ih => rw [List.range_succ, List.map_append, List.sum_append, ih]; simp [sumTo]

/-! ### `subsets` on natural bounds -/

theorem mem_subsetsL (l s : List α) (a b : Nat) :
    s ∈ subsetsL l a b ↔ s.Sublist l ∧ a ≤ s.length ∧ s.length ≤ b := by
  simp only [subsetsL, List.mem_flatMap, List.mem_range, combs_mem_iff]
  constructor
  · rintro ⟨i, hi, hs, hlen⟩; exact ⟨hs, by omega, by omega⟩
  · rintro ⟨hs, h1, h2⟩; exact ⟨s.length - a, by omega, hs, by omega⟩

theorem subsetsL_nodup (l : List α) (a b : Nat) (hl : l.Nodup) : (subsetsL l a b).Nodup := by
  show List.Pairwise (· ≠ ·) _
  simp only [subsetsL, List.pairwise_flatMap]
  constructor
  · intro i _; exact combs_nodup (a + i) l hl
  · have : (List.range (b + 1 - a)).Pairwise (· ≠ ·) := List.nodup_range
    refine this.imp ?_
    intro i j hij s hs t ht hst
    have h1 := ((combs_mem_iff _ _ _).mp hs).2
    have h2 := ((combs_mem_iff _ _ _).mp ht).2
    subst hst
    omega

/-- `subsets` with a non-negative `min_size` is `subsetsL` up to the resolved maximum. -/
theorem subsets_core (l : List α) (a b : Nat) (mx : Int)
    (h : (if mx < 0 then (l.length : Int) + mx + 1 else mx) = (b : Int)) :
    subsets l (a : Int) mx = .ok (subsetsL l a b) := by
  unfold subsets subsetsL intRange
  simp only [h]
  have h2 : ((b : Int) + 1 - (a : Int)).toNat = b + 1 - a := by omega
  rw [h2]
  have h3 : ((List.range (b + 1 - a)).map (fun (i : Nat) => (a : Int) + Int.ofNat i)).any (· < 0) = false := by
    rw [List.any_eq_false]
    intro x hx
    obtain ⟨i, _, rfl⟩ := List.mem_map.mp hx
    simp; omega
  simp only [h3]
  simp only [Bool.false_eq_true, if_false, List.flatMap_map]
  congr 1

theorem subsets_eq (l : List α) (a b : Nat) : subsets l (a : Int) (b : Int) = .ok (subsetsL l a b) :=
  subsets_core l a b b (by have : ¬ ((b : Int) < 0) := by omega
                           simp [this])

/-- `max_size = -1` means "up to the full length" -/
theorem subsets_neg_one (l : List α) (a : Nat) : subsets l (a : Int) (-1) = .ok (subsetsL l a l.length) :=
  subsets_core l a l.length (-1) (by simp; omega)

theorem nonEmptySubsets_eq (l : List α) : nonEmptySubsets l = .ok (subsetsL l 1 l.length) :=
  subsets_neg_one l 1


/-! ### MFL statement classes -/

theorem mem_dedup {α : Type} [BEq α] [LawfulBEq α] (x : α) (l : List α) : x ∈ dedup l ↔ x ∈ l := by
  induction l with
  | nil => simp [dedup]
  | cons y ys ih =>
    simp only [dedup, List.mem_cons, List.mem_filter, ih]
    constructor
    · rintro (h | ⟨h, _⟩)
      · exact Or.inl h
      · exact Or.inr h
    · rintro (h | h)
      · exact Or.inl h
      · by_cases hxy : x = y
        · exact Or.inl hxy
        · exact Or.inr ⟨h, by simpa using hxy⟩

theorem dedup_nodup {α : Type} [BEq α] [LawfulBEq α] (l : List α) : (dedup l).Nodup := by
  induction l with
  | nil => simp [dedup]
  | cons y ys ih =>
    simp only [dedup, List.nodup_cons, List.mem_filter]
    refine ⟨by simp, ih.sublist List.filter_sublist⟩

/-- `Cls.__add__` on explicit mode tuples is set union. -/
theorem modesAdd_names (k : ModeKind) (a b : List String) :
    ∃ r, modesAdd k (.names a) (.names b) = .ok (.names r) ∧ ∀ x, x ∈ r ↔ x ∈ a ∨ x ∈ b := by
  by_cases hb : b.isEmpty = true
  · have : b = [] := by simpa using hb
    subst this
    refine ⟨if k.addDedup then dedup a else a, ?_, ?_⟩
    · simp [modesAdd, Modes.isWild, Modes.iter, filterNotIn, bind, Except.bind]
    · intro x; by_cases h : k.addDedup <;> simp [h, mem_dedup]
  · refine ⟨if k.addDedup then dedup (a ++ b.filter (fun y => !a.contains y)) else a ++ b.filter (fun y => !a.contains y), ?_, ?_⟩
    · simp [modesAdd, Modes.isWild, Modes.iter, filterNotIn, hb, bind, Except.bind]
    · intro x
      have : x ∈ a ++ b.filter (fun y => !a.contains y) ↔ x ∈ a ∨ x ∈ b := by
        simp only [List.mem_append, List.mem_filter]
        constructor
        · rintro (h | ⟨h, _⟩); exact Or.inl h; exact Or.inr h
        · rintro (h | h)
          · exact Or.inl h
          · by_cases hx : x ∈ a
            · exact Or.inl hx
            · exact Or.inr ⟨h, by simpa using hx⟩
      by_cases h : k.addDedup = true
      · rw [if_pos h, mem_dedup]; exact this
      · rw [if_neg h]; exact this


/-- a wildcard operand makes the sum the wildcard -/
theorem modesAdd_wild (k : ModeKind) (a b : Modes) (h : a.isWild = true ∨ b.isWild = true) :
    modesAdd k a b = .ok .wild := by
  rcases h with h | h <;> simp [modesAdd, h]

/-- `Cls.__sub__` on explicit mode tuples is set difference, with the class default
    re-inserted when the difference is empty. -/
theorem modesSub_names (k : ModeKind) (a b : List String) :
    ∃ r, modesSub k (.names a) (.names b) = .ok (.names r) ∧
      ((∃ x, x ∈ a ∧ x ∉ b) → ∀ x, x ∈ r ↔ x ∈ a ∧ x ∉ b) ∧
      ((¬ ∃ x, x ∈ a ∧ x ∉ b) → r = [k.subDefault]) := by
  have hmem : ∀ x, x ∈ a.filter (fun y => !b.contains y) ↔ x ∈ a ∧ x ∉ b := by
    intro x; simp [List.mem_filter]
  by_cases ha : a.isEmpty = true
  · have : a = [] := by simpa using ha
    subst this
    refine ⟨[k.subDefault], ?_, ?_, fun _ => rfl⟩
    · by_cases h : k.subDedup = true <;>
        simp [modesSub, Modes.isWild, Modes.iter, filterNotIn, bind, Except.bind, pure, Except.pure, h, dedup]
    · rintro ⟨x, hx, _⟩; cases hx
  · let d := a.filter (fun y => !b.contains y)
    let d' := if k.subDedup then dedup d else d
    have hd' : ∀ x, x ∈ d' ↔ x ∈ a ∧ x ∉ b := by
      intro x
      show x ∈ (if k.subDedup then dedup d else d) ↔ _
      by_cases h : k.subDedup = true
      · rw [if_pos h, mem_dedup]; exact hmem x
      · rw [if_neg h]; exact hmem x
    refine ⟨if d'.isEmpty then [k.subDefault] else d', ?_, ?_, ?_⟩
    · simp [modesSub, Modes.isWild, Modes.iter, filterNotIn, ha, bind, Except.bind, pure, Except.pure, d', d]
    · rintro ⟨x, hx⟩
      have : d'.isEmpty = false := by
        cases hd : d' with
        | nil => have := (hd' x).mpr hx; rw [hd] at this; cases this
        | cons _ _ => rfl
      intro y; rw [this]; simpa using hd' y
    · intro hno
      have : d'.isEmpty = true := by
        cases hd : d' with
        | nil => rfl
        | cons y ys =>
          exfalso; apply hno
          exact ⟨y, (hd' y).mp (by rw [hd]; exact List.mem_cons_self)⟩
      rw [this]; rfl

/-- `Cls.__eq__` on explicit mode tuples is set equality. -/
theorem modesEq_names (a b : List String) :
    ∃ r, modesEq (.names a) (.names b) = .ok r ∧ (r = true ↔ ∀ x, x ∈ a ↔ x ∈ b) := by
  refine ⟨setEq a b, rfl, ?_⟩
  simp only [setEq, Bool.and_eq_true, List.all_eq_true, List.contains_iff_mem]
  constructor
  · rintro ⟨h1, h2⟩ x; exact ⟨h1 x, h2 x⟩
  · intro h; exact ⟨fun x hx => (h x).mp hx, fun x hx => (h x).mpr hx⟩


/-! ### stepwise search -/

theorem snoc_ind {α : Type} {P : List α → Prop} (hnil : P []) (hsnoc : ∀ l a, P l → P (l ++ [a])) :
    ∀ l, P l := by
  intro l
  have : ∀ r : List α, P r.reverse := by
    intro r
    induction r with
    | nil => exact hnil
    | cons a r ih => rw [List.reverse_cons]; exact hsnoc _ _ ih
  simpa using this l.reverse

theorem allowedFrom_snoc (funcs prev q : List Key) (f : Key) :
    allowedFrom funcs prev (q ++ [f]) =
      (allowedFrom funcs prev q && funcs.contains f && isAllowed funcs f (prev ++ q)) := by
  induction q generalizing prev with
  | nil => simp [allowedFrom, Bool.and_comm]
  | cons g q ih =>
    simp only [List.cons_append, allowedFrom, ih, List.append_assoc, List.nil_append]
    simp only [Bool.and_assoc]

theorem allowedPath_snoc (funcs q : List Key) (f : Key) :
    allowedPath funcs (q ++ [f]) = true ↔
      allowedPath funcs q = true ∧ f ∈ funcs ∧ isAllowed funcs f q = true := by
  unfold allowedPath
  rw [allowedFrom_snoc]
  simp [Bool.and_eq_true, and_assoc]

theorem mem_extendPath (funcs q p : List Key) :
    p ∈ extendPath funcs q ↔ ∃ f, f ∈ funcs ∧ isAllowed funcs f q = true ∧ p = q ++ [f] := by
  simp only [extendPath, List.mem_map, List.mem_filter]
  constructor
  · rintro ⟨f, ⟨h1, h2⟩, rfl⟩; exact ⟨f, h1, h2, rfl⟩
  · rintro ⟨f, h1, h2, rfl⟩; exact ⟨f, ⟨h1, h2⟩, rfl⟩

theorem mem_layer (funcs : List Key) (k : Nat) (p : List Key) :
    p ∈ layer funcs k ↔ allowedPath funcs p = true ∧ p.length = k := by
  induction k generalizing p with
  | zero =>
    simp only [layer, List.mem_singleton]
    constructor
    · rintro rfl; exact ⟨rfl, rfl⟩
    · rintro ⟨_, h⟩; exact List.length_eq_zero_iff.mp h
  | succ k ih =>
    simp only [layer, nextLayer, List.mem_flatMap, mem_extendPath]
    constructor
    · rintro ⟨q, hq, f, hf, ha, rfl⟩
      obtain ⟨h1, h2⟩ := (ih q).mp hq
      exact ⟨(allowedPath_snoc funcs q f).mpr ⟨h1, hf, ha⟩, by simp [h2]⟩
    · rintro ⟨hp, hlen⟩
      rcases List.eq_nil_or_concat p with rfl | ⟨q, f, rfl⟩
      · simp at hlen
      · rw [List.concat_eq_append] at hp hlen ⊢
        obtain ⟨h1, hf, ha⟩ := (allowedPath_snoc funcs q f).mp hp
        refine ⟨q, (ih q).mpr ⟨h1, by simpa using hlen⟩, f, hf, ha, rfl⟩

/-- `_is_allowed` spelled out -/
theorem isAllowed_iff (funcs : List Key) (f : Key) (q : List Key) :
    isAllowed funcs f q = true ↔
      f ∉ q ∧
        if f.isPeripheral = true then isAllowedPeripheral funcs f q = true
        else
          f ∉ Gen.neverAllowed ∧ (∀ x, x ∈ q → ¬ x.kind = f.kind) ∧
            (q = [] ∨ ∀ a b, (a, b) ∈ Gen.notSupportedCombo → ∀ x, x ∈ q → comboHit (a, b) f x = false) := by
  simp [isAllowed]

theorem isAllowed_not_mem (funcs : List Key) (f : Key) (q : List Key) (h : isAllowed funcs f q = true) : f ∉ q :=
  ((isAllowed_iff funcs f q).mp h).1

theorem allowedPath_nodup_subset (funcs : List Key) : ∀ p, allowedPath funcs p = true → p.Nodup ∧ p ⊆ funcs := by
  apply snoc_ind
  · intro _; exact ⟨List.nodup_nil, by simp⟩
  · intro q f ih h
    obtain ⟨h1, hf, ha⟩ := (allowedPath_snoc funcs q f).mp h
    obtain ⟨hn, hs⟩ := ih h1
    refine ⟨?_, ?_⟩
    · rw [List.nodup_append]
      refine ⟨hn, by simp, ?_⟩
      intro a ha' b hb hab
      simp at hb; subst hb; subst hab
      exact isAllowed_not_mem funcs a q ha ha'
    · intro x hx
      rcases List.mem_append.mp hx with hx | hx
      · exact hs hx
      · simp at hx; subst hx; exact hf

theorem allowedPath_length_le (funcs p : List Key) (h : allowedPath funcs p = true) : p.length ≤ funcs.length := by
  obtain ⟨hn, hs⟩ := allowedPath_nodup_subset funcs p h
  exact hn.length_le_of_subset hs

theorem layer_nil_succ (funcs : List Key) (k : Nat) (h : layer funcs k = []) : layer funcs (k + 1) = [] := by
  simp [layer, nextLayer, h]

theorem layer_nil_add (funcs : List Key) (k j : Nat) (h : layer funcs k = []) : layer funcs (k + j) = [] := by
  induction j with
  | zero => exact h
  | succ j ih => exact layer_nil_succ funcs (k + j) ih

theorem mem_stepwiseAux (funcs : List Key) (fuel k : Nat) (p : List Key) :
    p ∈ stepwiseAux funcs fuel (layer funcs k) ↔ ∃ j, 1 ≤ j ∧ j ≤ fuel ∧ p ∈ layer funcs (k + j) := by
  induction fuel generalizing k with
  | zero =>
    simp only [stepwiseAux, List.not_mem_nil, false_iff]
    rintro ⟨j, h1, h2, _⟩; omega
  | succ fuel ih =>
    simp only [stepwiseAux]
    have hnl : nextLayer funcs (layer funcs k) = layer funcs (k + 1) := rfl
    rw [hnl]
    by_cases he : (layer funcs (k + 1)).isEmpty = true
    · rw [if_pos he]
      have he' : layer funcs (k + 1) = [] := by simpa using he
      simp only [List.not_mem_nil, false_iff]
      rintro ⟨j, h1, _, hp⟩
      have : layer funcs (k + 1 + (j - 1)) = [] := layer_nil_add funcs (k + 1) (j - 1) he'
      have e : k + 1 + (j - 1) = k + j := by omega
      rw [e] at this
      rw [this] at hp; cases hp
    · rw [if_neg he, List.mem_append, ih (k + 1)]
      constructor
      · rintro (h | ⟨j, h1, h2, hp⟩)
        · exact ⟨1, by omega, by omega, h⟩
        · exact ⟨j + 1, by omega, by omega, by rw [← Nat.add_assoc]; rw [Nat.add_right_comm]; exact hp⟩
      · rintro ⟨j, h1, h2, hp⟩
        by_cases hj : j = 1
        · subst hj; exact Or.inl hp
        · refine Or.inr ⟨j - 1, by omega, by omega, ?_⟩
          have e : k + 1 + (j - 1) = k + j := by omega
          rw [e]; exact hp

/-- `exhaustive_stepwise` creates exactly the non-empty paths all of whose steps are allowed. -/
theorem mem_exhaustiveStepwise (funcs p : List Key) :
    p ∈ exhaustiveStepwise funcs ↔ allowedPath funcs p = true ∧ p ≠ [] := by
  unfold exhaustiveStepwise
  have h0 : ([[]] : List (List Key)) = layer funcs 0 := rfl
  rw [h0, mem_stepwiseAux]
  constructor
  · rintro ⟨j, h1, _, hp⟩
    obtain ⟨ha, hl⟩ := (mem_layer funcs _ p).mp hp
    refine ⟨ha, ?_⟩
    rintro rfl; simp at hl; omega
  · rintro ⟨ha, hne⟩
    have hle := allowedPath_length_le funcs p ha
    have hpos : 1 ≤ p.length := by
      cases p with
      | nil => exact absurd rfl hne
      | cons _ _ => simp
    exact ⟨p.length, hpos, by omega, (mem_layer funcs _ p).mpr ⟨ha, by simp⟩⟩

/-- more fuel changes nothing: the `while True` loop has ended after `len(mfl_funcs) + 1` sweeps -/
theorem mem_stepwiseAux_fuel (funcs : List Key) (fuel : Nat) (hf : funcs.length + 1 ≤ fuel) (p : List Key) :
    p ∈ stepwiseAux funcs fuel [[]] ↔ p ∈ exhaustiveStepwise funcs := by
  rw [mem_exhaustiveStepwise]
  have h0 : ([[]] : List (List Key)) = layer funcs 0 := rfl
  rw [h0, mem_stepwiseAux]
  constructor
  · rintro ⟨j, h1, _, hp⟩
    obtain ⟨ha, hl⟩ := (mem_layer funcs _ p).mp hp
    refine ⟨ha, ?_⟩
    rintro rfl; simp at hl; omega
  · rintro ⟨ha, hne⟩
    have hle := allowedPath_length_le funcs p ha
    have hpos : 1 ≤ p.length := by
      cases p with
      | nil => exact absurd rfl hne
      | cons _ _ => simp
    exact ⟨p.length, hpos, by omega, (mem_layer funcs _ p).mpr ⟨ha, by simp⟩⟩

/-! ### the documented path rules hold on every allowed path -/

theorem isPeripheral_iff (f : Key) : f.isPeripheral = true ↔ f.kind = "PERIPHERALS" := by
  simp [Key.isPeripheral]

theorem allowed_one_per_category' (funcs : List Key) :
    ∀ p, allowedPath funcs p = true →
      p.Pairwise (fun g f => f.isPeripheral = false → ¬ g.kind = f.kind) := by
  apply snoc_ind
  · intro _; exact List.Pairwise.nil
  · intro q f ih h
    obtain ⟨h1, _, ha⟩ := (allowedPath_snoc funcs q f).mp h
    rw [List.pairwise_append]
    refine ⟨ih h1, by simp, ?_⟩
    intro g hg f' hf' hnp
    simp at hf'; subst hf'
    have := (isAllowed_iff funcs f' q).mp ha
    simp only [hnp, Bool.false_eq_true, if_false] at this
    exact this.2.2.1 g hg

theorem comboHit_symm (c : List String × List String) (f g : Key) : comboHit c f g = comboHit c g f := by
  simp only [comboHit]
  rw [Bool.or_comm]
  congr 1 <;> rw [Bool.and_comm]

theorem isPrefixOf_kind (l : List String) (f : Key) (hl : l ≠ []) (h : l.isPrefixOf f = true) :
    f.kind = l.headD "" := by
  cases l with
  | nil => exact absurd rfl hl
  | cons a l =>
    cases f with
    | nil => simp [List.isPrefixOf] at h
    | cons b f =>
      simp only [List.isPrefixOf, Bool.and_eq_true, beq_iff_eq] at h
      simp [Key.kind, h.1]

/-- the exclusion table and the literal early exits never mention PERIPHERALS
    (re-checked against the regenerated table on every run) -/
theorem tables_have_no_peripherals :
    (∀ c, c ∈ Gen.notSupportedCombo →
      c.1 ≠ [] ∧ c.1.headD "" ≠ "PERIPHERALS" ∧ c.2 ≠ [] ∧ c.2.headD "" ≠ "PERIPHERALS") ∧
    (∀ k, k ∈ Gen.neverAllowed → Key.isPeripheral k = false) := by
  decide

theorem comboHit_peripheral (c : List String × List String) (hc : c ∈ Gen.notSupportedCombo) (f g : Key)
    (hf : f.isPeripheral = true) : comboHit c f g = false := by
  obtain ⟨h1, h2, h3, h4⟩ := tables_have_no_peripherals.1 c hc
  have hk := (isPeripheral_iff f).mp hf
  have e1 : c.1.isPrefixOf f = false := by
    cases h : c.1.isPrefixOf f with
    | false => rfl
    | true => exact absurd ((isPrefixOf_kind c.1 f h1 h).symm.trans hk) h2
  have e2 : c.2.isPrefixOf f = false := by
    cases h : c.2.isPrefixOf f with
    | false => rfl
    | true => exact absurd ((isPrefixOf_kind c.2 f h3 h).symm.trans hk) h4
  simp [comboHit, e1, e2]

theorem allowed_excluded_pairs' (funcs : List Key) :
    ∀ p, allowedPath funcs p = true →
      p.Pairwise (fun g f => ∀ c, c ∈ Gen.notSupportedCombo → comboHit c f g = false) := by
  apply snoc_ind
  · intro _; exact List.Pairwise.nil
  · intro q f ih h
    obtain ⟨h1, _, ha⟩ := (allowedPath_snoc funcs q f).mp h
    rw [List.pairwise_append]
    refine ⟨ih h1, by simp, ?_⟩
    intro g hg f' hf' c hc
    simp at hf'; subst hf'
    cases hp : Key.isPeripheral f' with
    | true => exact comboHit_peripheral c hc f' g hp
    | false =>
      have := (isAllowed_iff funcs f' q).mp ha
      simp only [hp, Bool.false_eq_true, if_false] at this
      rcases this.2.2.2 with hq | hq
      · subst hq; cases hg
      · exact hq c.1 c.2 hc g hg

theorem allowed_never' (funcs : List Key) :
    ∀ p, allowedPath funcs p = true → ∀ f, f ∈ p → f ∉ Gen.neverAllowed := by
  apply snoc_ind
  · intro _ f hf; cases hf
  · intro q f ih h g hg
    obtain ⟨h1, _, ha⟩ := (allowedPath_snoc funcs q f).mp h
    rcases List.mem_append.mp hg with hg | hg
    · exact ih h1 g hg
    · simp at hg; subst hg
      cases hp : Key.isPeripheral g with
      | true =>
        intro hm
        have := tables_have_no_peripherals.2 g hm
        rw [hp] at this; cases this
      | false =>
        have := (isAllowed_iff funcs g q).mp ha
        simp only [hp, Bool.false_eq_true, if_false] at this
        exact this.2.1

theorem first_peripheral_is_min' (funcs q : List Key) (f : Key) (h : allowedPath funcs (q ++ [f]) = true)
    (hf : f.isPeripheral = true) (hq : ∀ g, g ∈ q → g.isPeripheral = false) :
    f.arg0 = listMin (periCounts funcs) := by
  obtain ⟨_, _, ha⟩ := (allowedPath_snoc funcs q f).mp h
  have := (isAllowed_iff funcs f q).mp ha
  simp only [hf, if_true] at this
  have hnil : q.filter Key.isPeripheral = [] := by
    rw [List.filter_eq_nil_iff]; intro g hg; simp [hq g hg]
  have h2 := this.2
  simp only [isAllowedPeripheral, hnil, List.isEmpty_nil, if_true, beq_iff_eq] at h2
  exact h2

/-! ### every path once -/

theorem extendPath_nodup (funcs q : List Key) (hf : funcs.Nodup) : (extendPath funcs q).Nodup := by
  unfold extendPath
  refine List.Pairwise.map _ ?_ (List.Nodup.sublist List.filter_sublist hf)
  intro a b hab h
  exact hab (by simpa using h)

theorem layer_nodup (funcs : List Key) (hf : funcs.Nodup) : ∀ k, (layer funcs k).Nodup := by
  intro k
  induction k with
  | zero => simp [layer]
  | succ k ih =>
    show List.Pairwise (· ≠ ·) _
    simp only [layer, nextLayer, List.pairwise_flatMap]
    refine ⟨fun q _ => extendPath_nodup funcs q hf, ?_⟩
    refine List.Pairwise.imp ?_ ih
    intro q1 q2 hne x hx y hy hxy
    obtain ⟨f1, _, _, rfl⟩ := (mem_extendPath funcs q1 x).mp hx
    obtain ⟨f2, _, _, rfl⟩ := (mem_extendPath funcs q2 y).mp hy
    exact hne (List.append_inj' hxy rfl).1

theorem stepwiseAux_nodup (funcs : List Key) (hf : funcs.Nodup) (fuel k : Nat) :
    (stepwiseAux funcs fuel (layer funcs k)).Nodup := by
  induction fuel generalizing k with
  | zero => simp [stepwiseAux]
  | succ fuel ih =>
    simp only [stepwiseAux]
    have hnl : nextLayer funcs (layer funcs k) = layer funcs (k + 1) := rfl
    rw [hnl]
    by_cases he : (layer funcs (k + 1)).isEmpty = true
    · rw [if_pos he]; exact List.nodup_nil
    · rw [if_neg he, List.nodup_append]
      refine ⟨layer_nodup funcs hf (k + 1), ih (k + 1), ?_⟩
      intro a ha b hb hab
      subst hab
      obtain ⟨j, h1, _, hp⟩ := (mem_stepwiseAux funcs fuel (k + 1) a).mp hb
      have l1 := ((mem_layer funcs _ a).mp ha).2
      have l2 := ((mem_layer funcs _ a).mp hp).2
      omega

/-! ### itertools.product -/

theorem mem_product {β : Type} (gs : List (List β)) (t : List β) :
    t ∈ product gs ↔ pickOne t gs := by
  induction gs generalizing t with
  | nil =>
    simp only [product, List.mem_singleton]
    cases t <;> simp [pickOne]
  | cons g gs ih =>
    simp only [product, List.mem_flatMap, List.mem_map]
    cases t with
    | nil => simp [pickOne]
    | cons a t =>
      simp only [pickOne, ← ih]
      constructor
      · rintro ⟨a', ha, t', ht', h⟩
        cases h; exact ⟨ha, ht'⟩
      · rintro ⟨ha, ht⟩; exact ⟨a, ha, t, ht, rfl⟩

theorem product_nodup {β : Type} (gs : List (List β)) (h : ∀ g, g ∈ gs → g.Nodup) : (product gs).Nodup := by
  induction gs with
  | nil => simp [product]
  | cons g gs ih =>
    show List.Pairwise (· ≠ ·) _
    simp only [product, List.pairwise_flatMap]
    have hg := h g List.mem_cons_self
    have hgs := ih (fun g' hg' => h g' (List.mem_cons_of_mem _ hg'))
    refine ⟨fun a _ => List.Pairwise.map _ (fun x y hxy e => hxy (List.tail_eq_of_cons_eq e)) hgs, ?_⟩
    refine List.Pairwise.imp ?_ hg
    intro a b hab x hx y hy hxy
    obtain ⟨_, _, rfl⟩ := List.mem_map.mp hx
    obtain ⟨_, _, rfl⟩ := List.mem_map.mp hy
    exact hab (List.head_eq_of_cons_eq hxy)

theorem product_length {β : Type} (gs : List (List β)) :
    (product gs).length = (gs.map List.length).foldr (· * ·) 1 := by
  induction gs with
  | nil => simp [product]
  | cons g gs ih =>
    simp only [product, List.length_flatMap, List.length_map, ih, List.map_cons, List.foldr_cons]
    generalize (List.foldr (· * ·) 1 (gs.map List.length)) = m
    induction g with
    | nil => simp
    | cons a g ihg => simp [ihg, Nat.add_mul]; omega


/-! ## ModelFeatures.__add__ / __sub__ on atoms -/

/-! ### atoms, by category -/

theorem mem_atoms_abs (a : MF) (m : String) : Atom.abs m ∈ a.atoms ↔ m ∈ optExpand Gen.absorptionWildcard a.absorption := by
  simp [MF.atoms, Transits.atoms, Peripherals.atoms]

theorem mem_atoms_elim (a : MF) (m : String) : Atom.elim m ∈ a.atoms ↔ m ∈ optExpand Gen.eliminationWildcard a.elimination := by
  simp [MF.atoms, Transits.atoms, Peripherals.atoms]

theorem mem_atoms_lag (a : MF) (m : String) : Atom.lag m ∈ a.atoms ↔ m ∈ optExpand Gen.lagtimeWildcard a.lagtime := by
  simp [MF.atoms, Transits.atoms, Peripherals.atoms]

theorem mem_atoms_trans (a : MF) (c : Nat) (d : String) :
    Atom.trans c d ∈ a.atoms ↔ ∃ t, t ∈ a.transits ∧ c ∈ t.counts ∧ d ∈ t.depot.expand Gen.transitsDepotWildcard := by
  simp [MF.atoms, Transits.atoms, Peripherals.atoms]

theorem mem_atoms_peri (a : MF) (c : Nat) (m : String) :
    Atom.peri c m ∈ a.atoms ↔ ∃ p, p ∈ a.peripherals ∧ c ∈ p.counts ∧ m ∈ p.modes.expand Gen.peripheralsModesWildcard := by
  simp [MF.atoms, Transits.atoms, Peripherals.atoms]

/-! ### sorted sets of ints -/

theorem mem_insertSorted (n x : Nat) (l : List Nat) : x ∈ insertSorted n l ↔ x = n ∨ x ∈ l := by
  induction l with
  | nil => simp [insertSorted]
  | cons m ms ih =>
    simp only [insertSorted]
    split
    · simp
    · split
      · rename_i h; simp at h; subst h; simp
      · simp [ih]; constructor
        · rintro (h | h | h); exact Or.inr (Or.inl h); exact Or.inl h; exact Or.inr (Or.inr h)
        · rintro (h | h | h); exact Or.inr (Or.inl h); exact Or.inl h; exact Or.inr (Or.inr h)

theorem mem_sortDedup (x : Nat) (l : List Nat) : x ∈ sortDedup l ↔ x ∈ l := by
  induction l with
  | nil => simp [sortDedup]
  | cons a l ih =>
    have : sortDedup (a :: l) = insertSorted a (sortDedup l) := rfl
    rw [this, mem_insertSorted, ih]; simp

/-! ### the insertion-ordered dict of `_add_helper` -/

def dictKeys (d : List (String × List Nat)) : List String := d.map (·.1)

theorem dictGet_extend (a : String) (vs : List Nat) (d : List (String × List Nat)) (b : String) :
    dictGet (dictExtend a vs d) b = if b = a then dictGet d a ++ vs else dictGet d b := by
  induction d with
  | nil =>
    by_cases h : b = a
    · subst h; simp [dictExtend, dictGet]
    · have : ¬ a = b := fun e => h e.symm
      simp [dictExtend, dictGet, h, this]
  | cons kv rest ih =>
    obtain ⟨k, w⟩ := kv
    simp only [dictExtend]
    by_cases hk : k = a
    · subst hk
      by_cases h : b = k
      · subst h; simp [dictGet]
      · have : ¬ k = b := fun e => h e.symm
        simp [dictGet, h, this]
    · have hk' : (k == a) = false := by simpa using hk
      simp only [hk', Bool.false_eq_true, if_false]
      by_cases hb : k = b
      · subst hb
        have : ¬ k = a := hk
        simp [dictGet, this]
      · have hbk : (k == b) = false := by simpa using hb
        have e1 : dictGet ((k, w) :: dictExtend a vs rest) b = dictGet (dictExtend a vs rest) b := by
          simp [dictGet, List.find?, hbk]
        have e2 : dictGet ((k, w) :: rest) b = dictGet rest b := by
          simp [dictGet, List.find?, hbk]
        have e3 : dictGet ((k, w) :: rest) a = dictGet rest a := by
          simp [dictGet, List.find?, hk']
        rw [e1, e2, e3, ih]

theorem dictKeys_extend (a : String) (vs : List Nat) (d : List (String × List Nat)) :
    (dictKeys d).Nodup → (dictKeys (dictExtend a vs d)).Nodup ∧
      ∀ k, k ∈ dictKeys (dictExtend a vs d) ↔ k = a ∨ k ∈ dictKeys d := by
  induction d with
  | nil => intro _; simp [dictExtend, dictKeys]
  | cons kv rest ih =>
    obtain ⟨k, w⟩ := kv
    intro hnd
    have hnd' : (dictKeys rest).Nodup := (List.nodup_cons.mp hnd).2
    have hk : k ∉ dictKeys rest := (List.nodup_cons.mp hnd).1
    simp only [dictExtend]
    by_cases hka : k = a
    · subst hka
      simp only [beq_self_eq_true, if_true]
      refine ⟨hnd, ?_⟩
      intro k'; simp [dictKeys]
    · have hk' : (k == a) = false := by simpa using hka
      simp only [hk', Bool.false_eq_true, if_false]
      obtain ⟨h1, h2⟩ := ih hnd'
      refine ⟨?_, ?_⟩
      · show (k :: dictKeys (dictExtend a vs rest)).Nodup
        refine List.nodup_cons.mpr ⟨?_, h1⟩
        intro hm
        rcases (h2 k).mp hm with h | h
        · exact hka h
        · exact hk h
      · intro k'
        show k' ∈ k :: dictKeys (dictExtend a vs rest) ↔ _
        simp only [List.mem_cons, h2]
        show _ ↔ k' = a ∨ k' ∈ k :: dictKeys rest
        simp only [List.mem_cons]
        constructor
        · rintro (h | h | h); exact Or.inr (Or.inl h); exact Or.inl h; exact Or.inr (Or.inr h)
        · rintro (h | h | h); exact Or.inr (Or.inl h); exact Or.inl h; exact Or.inr (Or.inr h)

/-- in a dict with distinct keys every entry is what `dictGet` returns for its key -/
theorem dictGet_of_mem (d : List (String × List Nat)) (hnd : (dictKeys d).Nodup) (kv : String × List Nat)
    (h : kv ∈ d) : dictGet d kv.1 = kv.2 := by
  induction d with
  | nil => cases h
  | cons e rest ih =>
    obtain ⟨k, w⟩ := e
    rcases List.mem_cons.mp h with rfl | h'
    · simp [dictGet]
    · have hk : k ∉ dictKeys rest := (List.nodup_cons.mp hnd).1
      have hne : ¬ k = kv.1 := by
        rintro rfl; exact hk (List.mem_map.mpr ⟨kv, h', rfl⟩)
      have hb : (k == kv.1) = false := by simpa using hne
      have : dictGet ((k, w) :: rest) kv.1 = dictGet rest kv.1 := by simp [dictGet, List.find?, hb]
      rw [this]; exact ih (List.nodup_cons.mp hnd).2 h'

theorem dictGet_nil_of_not_key (d : List (String × List Nat)) (k : String) (h : k ∉ dictKeys d) : dictGet d k = [] := by
  induction d with
  | nil => rfl
  | cons e rest ih =>
    obtain ⟨k', w⟩ := e
    have hne : ¬ k' = k := by rintro rfl; exact h (by simp [dictKeys])
    have hb : (k' == k) = false := by simpa using hne
    have : dictGet ((k', w) :: rest) k = dictGet rest k := by simp [dictGet, List.find?, hb]
    rw [this]; exact ih (fun hm => h (by simp [dictKeys] at hm ⊢; exact Or.inr hm))


theorem evalDepot_ok (t : Transits) (ds : List String) (h : t.evalDepot = .ok ds) :
    ds = t.depot.expand Gen.transitsDepotWildcard := by
  unfold Transits.evalDepot at h
  cases hd : t.depot with
  | wild => rw [hd] at h; cases h; rfl
  | names l => rw [hd] at h; cases h; rfl
  | bare s => rw [hd] at h; cases h

theorem foldExtend_spec (ds : List String) (cs : List Nat) (D : List (String × List Nat)) (hnd : (dictKeys D).Nodup) :
    (dictKeys (ds.foldl (fun d a => dictExtend a cs d) D)).Nodup ∧
      ∀ b c, c ∈ dictGet (ds.foldl (fun d a => dictExtend a cs d) D) b ↔ c ∈ dictGet D b ∨ (b ∈ ds ∧ c ∈ cs) := by
  induction ds generalizing D with
  | nil => exact ⟨hnd, by simp⟩
  | cons a ds ih =>
    simp only [List.foldl_cons]
    obtain ⟨h1, h2⟩ := ih (dictExtend a cs D) (dictKeys_extend a cs D hnd).1
    refine ⟨h1, ?_⟩
    intro b c
    rw [h2, dictGet_extend]
    by_cases hb : b = a
    · subst hb; simp only [if_true, List.mem_append, List.mem_cons, true_or, true_and]
      constructor
      · rintro ((h | h) | ⟨_, h⟩); exact Or.inl h; exact Or.inr h; exact Or.inr h
      · rintro (h | h); exact Or.inl (Or.inl h); exact Or.inl (Or.inr h)
    · simp only [hb, if_false, List.mem_cons, false_or]

def joinStep (d : List (String × List Nat)) (t : Transits) : Except Err (List (String × List Nat)) := do
  let ds ← t.evalDepot
  pure (ds.foldl (fun d a => dictExtend a t.counts d) d)

theorem joinDict_eq (ts : List Transits) : joinDict ts = ts.foldlM joinStep [] := rfl

theorem joinFold_spec (ts : List Transits) (D0 D : List (String × List Nat)) (hnd : (dictKeys D0).Nodup)
    (h : ts.foldlM joinStep D0 = .ok D) :
    (dictKeys D).Nodup ∧
      ∀ b c, c ∈ dictGet D b ↔ c ∈ dictGet D0 b ∨ ∃ t, t ∈ ts ∧ c ∈ t.counts ∧ b ∈ t.depot.expand Gen.transitsDepotWildcard := by
  induction ts generalizing D0 with
  | nil =>
    simp only [List.foldlM_nil, pure, Except.pure] at h
    cases h
    exact ⟨hnd, by simp⟩
  | cons t ts ih =>
    simp only [List.foldlM_cons, bind, Except.bind] at h
    cases hs : joinStep D0 t with
    | error e => rw [hs] at h; cases h
    | ok D1 =>
      rw [hs] at h
      simp only at h
      unfold joinStep at hs
      cases hd : t.evalDepot with
      | error e => rw [hd] at hs; cases hs
      | ok ds =>
        rw [hd] at hs
        simp only [bind, Except.bind, pure, Except.pure] at hs
        cases hs
        have hds := evalDepot_ok t ds hd
        obtain ⟨f1, f2⟩ := foldExtend_spec ds t.counts D0 hnd
        obtain ⟨g1, g2⟩ := ih _ f1 h
        refine ⟨g1, ?_⟩
        intro b c
        rw [g2, f2, hds]
        constructor
        · rintro ((h | ⟨h1, h2⟩) | ⟨t', ht', h'⟩)
          · exact Or.inl h
          · exact Or.inr ⟨t, List.mem_cons_self, h2, h1⟩
          · exact Or.inr ⟨t', List.mem_cons_of_mem _ ht', h'⟩
        · rintro (h | ⟨t', ht', h1, h2⟩)
          · exact Or.inl (Or.inl h)
          · rcases List.mem_cons.mp ht' with rfl | ht''
            · exact Or.inl (Or.inr ⟨h2, h1⟩)
            · exact Or.inr ⟨t', ht'', h1, h2⟩

theorem joinDict_spec (ts : List Transits) (D : List (String × List Nat)) (h : joinDict ts = .ok D) :
    (dictKeys D).Nodup ∧
      ∀ b c, c ∈ dictGet D b ↔ ∃ t, t ∈ ts ∧ c ∈ t.counts ∧ b ∈ t.depot.expand Gen.transitsDepotWildcard := by
  rw [joinDict_eq] at h
  obtain ⟨h1, h2⟩ := joinFold_spec ts [] D (by simp [dictKeys]) h
  refine ⟨h1, ?_⟩
  intro b c
  rw [h2]
  simp [dictGet]

theorem mem_dictGet_entry (d : List (String × List Nat)) (k : String) (c : Nat) (h : c ∈ dictGet d k) :
    ∃ kv, kv ∈ d ∧ kv.1 = k ∧ kv.2 = dictGet d k := by
  unfold dictGet at h ⊢
  cases hf : d.find? (fun kv => kv.1 == k) with
  | none => rw [hf] at h; cases h
  | some kv =>
    refine ⟨kv, List.mem_of_find?_eq_some hf, ?_, rfl⟩
    have := List.find?_some hf
    simpa using this

/-- atoms of `Transits(v, (k,))` for the entries of a filtered dict -/
theorem filteredDict_atoms (d : List (String × List Nat)) (hnd : (dictKeys d).Nodup) (f : String → Nat → Bool)
    (k : String) (c : Nat) :
    Atom.trans c k ∈ (toTransits ((d.map (fun kv => (kv.1, (sortDedup kv.2).filter (f kv.1)))).filter
        (fun kv => !kv.2.isEmpty))).flatMap Transits.atoms ↔
      c ∈ dictGet d k ∧ f k c = true := by
  simp only [toTransits, List.mem_flatMap, List.mem_map, List.mem_filter, Transits.atoms, Modes.expand]
  constructor
  · rintro ⟨t, ⟨kv', ⟨⟨kv, hkv, rfl⟩, _⟩, rfl⟩, c', hc', hm⟩
    simp only [List.mem_singleton] at hm
    obtain ⟨d', rfl, he⟩ := hm
    cases he
    simp only [List.mem_filter, mem_sortDedup] at hc'
    rw [dictGet_of_mem d hnd kv hkv]
    exact hc'
  · rintro ⟨hc, hf⟩
    obtain ⟨kv, hkv, hk, hv⟩ := mem_dictGet_entry d k c hc
    subst hk
    have hcm : c ∈ (sortDedup kv.2).filter (f kv.1) := by
      simp only [List.mem_filter, mem_sortDedup]; rw [hv]; exact ⟨hc, hf⟩
    refine ⟨⟨(sortDedup kv.2).filter (f kv.1), .names [kv.1]⟩, ⟨(kv.1, (sortDedup kv.2).filter (f kv.1)), ⟨⟨kv, hkv, rfl⟩, ?_⟩, rfl⟩, c, hcm, ?_⟩
    · cases hl : (sortDedup kv.2).filter (f kv.1) with
      | nil => rw [hl] at hcm; cases hcm
      | cons _ _ => rfl
    · simp

theorem toTransits_atoms_only_trans (E : List (String × List Nat)) (x : Atom) (h : x ∈ (toTransits E).flatMap Transits.atoms) :
    ∃ c k, x = Atom.trans c k := by
  simp only [List.mem_flatMap, Transits.atoms, List.mem_map] at h
  obtain ⟨_, _, c, _, k, _, rfl⟩ := h
  exact ⟨c, k, rfl⟩

/-- `_add_sub_transits(add=True)`: the (count, depot) atoms of the result are the union -/
theorem addSubTransits_add (a b : MF) (ts : List Transits) (h : addSubTransits a b true = .ok ts) (c : Nat) (k : String) :
    Atom.trans c k ∈ ts.flatMap Transits.atoms ↔
      (∃ t, t ∈ a.transits ∧ c ∈ t.counts ∧ k ∈ t.depot.expand Gen.transitsDepotWildcard) ∨
      (∃ t, t ∈ b.transits ∧ c ∈ t.counts ∧ k ∈ t.depot.expand Gen.transitsDepotWildcard) := by
  unfold addSubTransits addHelper at h
  cases h1 : joinDict a.transits with
  | error e => simp [h1, bind, Except.bind] at h
  | ok d1 =>
    cases h2 : joinDict b.transits with
    | error e => simp [h1, h2, bind, Except.bind] at h
    | ok d2 =>
      simp only [h1, h2, bind, Except.bind, pure, Except.pure, if_true] at h
      cases h
      obtain ⟨n1, s1⟩ := joinDict_spec _ _ h1
      obtain ⟨n2, s2⟩ := joinDict_spec _ _ h2
      simp only [List.flatMap_append, List.mem_append]
      rw [filteredDict_atoms d1 n1 (fun k c => !(dictGet d2 k).contains c),
          filteredDict_atoms d2 n2 (fun k c => !(dictGet d1 k).contains c),
          filteredDict_atoms d1 n1 (fun k c => (dictGet d2 k).contains c)]
      rw [← s1, ← s2]
      simp only [Bool.not_eq_true', List.contains_iff_mem]
      by_cases m1 : c ∈ dictGet d1 k <;> by_cases m2 : c ∈ dictGet d2 k <;> simp [m1, m2]


/-- `_add_sub_transits(add=False)`: the atoms of the result are the difference -/
theorem addSubTransits_sub (a b : MF) (ts : List Transits) (h : addSubTransits a b false = .ok ts) (c : Nat) (k : String) :
    Atom.trans c k ∈ ts.flatMap Transits.atoms ↔
      (∃ t, t ∈ a.transits ∧ c ∈ t.counts ∧ k ∈ t.depot.expand Gen.transitsDepotWildcard) ∧
      ¬ (∃ t, t ∈ b.transits ∧ c ∈ t.counts ∧ k ∈ t.depot.expand Gen.transitsDepotWildcard) := by
  unfold addSubTransits addHelper at h
  cases h1 : joinDict a.transits with
  | error e => simp [h1, bind, Except.bind] at h
  | ok d1 =>
    cases h2 : joinDict b.transits with
    | error e => simp [h1, h2, bind, Except.bind] at h
    | ok d2 =>
      simp only [h1, h2, bind, Except.bind, pure, Except.pure, Bool.false_eq_true, if_false] at h
      cases h
      obtain ⟨n1, s1⟩ := joinDict_spec _ _ h1
      obtain ⟨n2, s2⟩ := joinDict_spec _ _ h2
      rw [filteredDict_atoms d1 n1 (fun k c => !(dictGet d2 k).contains c)]
      rw [← s1, ← s2]
      simp only [Bool.not_eq_true']
      by_cases m2 : c ∈ dictGet d2 k <;> simp [m2]

/-! ### peripherals -/

def periInner (counts : List Nat) (acc : List Nat × List Nat) (m : String) : Except Err (List Nat × List Nat) :=
  if m == "MET" then pure (sortDedup (acc.1 ++ counts), acc.2)
  else if m == "DRUG" then pure (acc.1, sortDedup (acc.2 ++ counts))
  else .error .keyError

def periOuter (acc : List Nat × List Nat) (p : Peripherals) : Except Err (List Nat × List Nat) := do
  let ms ← p.modes.iter
  ms.foldlM (periInner p.counts) acc

theorem extractPeripherals_eq (ps : List Peripherals) : extractPeripherals ps = ps.foldlM periOuter ([], []) := rfl

theorem periInner_spec (counts : List Nat) (ms : List String) (acc acc' : List Nat × List Nat)
    (h : ms.foldlM (periInner counts) acc = .ok acc') :
    (∀ m, m ∈ ms → m = "MET" ∨ m = "DRUG") ∧
    (∀ c, c ∈ acc'.1 ↔ c ∈ acc.1 ∨ ("MET" ∈ ms ∧ c ∈ counts)) ∧
    (∀ c, c ∈ acc'.2 ↔ c ∈ acc.2 ∨ ("DRUG" ∈ ms ∧ c ∈ counts)) := by
  induction ms generalizing acc with
  | nil =>
    simp only [List.foldlM_nil, pure, Except.pure] at h
    cases h
    simp
  | cons m ms ih =>
    simp only [List.foldlM_cons, bind, Except.bind] at h
    by_cases hm : m = "MET"
    · subst hm
      simp only [periInner, beq_self_eq_true, if_true, pure, Except.pure] at h
      obtain ⟨i1, i2, i3⟩ := ih _ h
      refine ⟨?_, ?_, ?_⟩
      · intro m hm; rcases List.mem_cons.mp hm with rfl | hm; exact Or.inl rfl; exact i1 m hm
      · intro c; rw [i2]; simp only [mem_sortDedup, List.mem_append, List.mem_cons, true_or, true_and]
        constructor
        · rintro ((h | h) | ⟨_, h⟩); exact Or.inl h; exact Or.inr h; exact Or.inr h
        · rintro (h | h); exact Or.inl (Or.inl h); exact Or.inl (Or.inr h)
      · intro c; rw [i3]
        have : ("DRUG" : String) ≠ "MET" := by decide
        simp [this]
    · by_cases hd : m = "DRUG"
      · subst hd
        have hne : (("DRUG" : String) == "MET") = false := by decide
        simp only [periInner, hne, Bool.false_eq_true, if_false, beq_self_eq_true, if_true, pure, Except.pure] at h
        obtain ⟨i1, i2, i3⟩ := ih _ h
        refine ⟨?_, ?_, ?_⟩
        · intro m hm; rcases List.mem_cons.mp hm with rfl | hm; exact Or.inr rfl; exact i1 m hm
        · intro c; rw [i2]
          have : ("MET" : String) ≠ "DRUG" := by decide
          simp [this]
        · intro c; rw [i3]; simp only [mem_sortDedup, List.mem_append, List.mem_cons, true_or, true_and]
          constructor
          · rintro ((h | h) | ⟨_, h⟩); exact Or.inl h; exact Or.inr h; exact Or.inr h
          · rintro (h | h); exact Or.inl (Or.inl h); exact Or.inl (Or.inr h)
      · have h1 : (m == "MET") = false := by simpa using hm
        have h2 : (m == "DRUG") = false := by simpa using hd
        simp [periInner, h1, h2] at h

theorem periOuter_spec (ps : List Peripherals) (acc acc' : List Nat × List Nat)
    (h : ps.foldlM periOuter acc = .ok acc') :
    (∀ p, p ∈ ps → ∃ l, p.modes = .names l ∧ ∀ m, m ∈ l → m = "MET" ∨ m = "DRUG") ∧
    (∀ c, c ∈ acc'.1 ↔ c ∈ acc.1 ∨ ∃ p, p ∈ ps ∧ c ∈ p.counts ∧ "MET" ∈ p.modes.expand Gen.peripheralsModesWildcard) ∧
    (∀ c, c ∈ acc'.2 ↔ c ∈ acc.2 ∨ ∃ p, p ∈ ps ∧ c ∈ p.counts ∧ "DRUG" ∈ p.modes.expand Gen.peripheralsModesWildcard) := by
  induction ps generalizing acc with
  | nil =>
    simp only [List.foldlM_nil, pure, Except.pure] at h
    cases h
    simp
  | cons p ps ih =>
    simp only [List.foldlM_cons, bind, Except.bind] at h
    cases hs : periOuter acc p with
    | error e => rw [hs] at h; cases h
    | ok acc1 =>
      rw [hs] at h
      simp only at h
      unfold periOuter at hs
      cases hm : p.modes with
      | wild => simp [hm, Modes.iter, bind, Except.bind] at hs
      | bare s => simp [hm, Modes.iter, bind, Except.bind] at hs
      | names l =>
        simp only [hm, Modes.iter, bind, Except.bind] at hs
        obtain ⟨j1, j2, j3⟩ := periInner_spec p.counts l acc acc1 hs
        obtain ⟨i1, i2, i3⟩ := ih _ h
        refine ⟨?_, ?_, ?_⟩
        · intro q hq
          rcases List.mem_cons.mp hq with rfl | hq
          · exact ⟨l, hm, j1⟩
          · exact i1 q hq
        · intro c; rw [i2, j2]
          constructor
          · rintro ((h | ⟨h1, h2⟩) | ⟨q, hq, h'⟩)
            · exact Or.inl h
            · exact Or.inr ⟨p, List.mem_cons_self, h2, by rw [hm]; exact h1⟩
            · exact Or.inr ⟨q, List.mem_cons_of_mem _ hq, h'⟩
          · rintro (h | ⟨q, hq, h1, h2⟩)
            · exact Or.inl (Or.inl h)
            · rcases List.mem_cons.mp hq with rfl | hq'
              · rw [hm] at h2; exact Or.inl (Or.inr ⟨h2, h1⟩)
              · exact Or.inr ⟨q, hq', h1, h2⟩
        · intro c; rw [i3, j3]
          constructor
          · rintro ((h | ⟨h1, h2⟩) | ⟨q, hq, h'⟩)
            · exact Or.inl h
            · exact Or.inr ⟨p, List.mem_cons_self, h2, by rw [hm]; exact h1⟩
            · exact Or.inr ⟨q, List.mem_cons_of_mem _ hq, h'⟩
          · rintro (h | ⟨q, hq, h1, h2⟩)
            · exact Or.inl (Or.inl h)
            · rcases List.mem_cons.mp hq with rfl | hq'
              · rw [hm] at h2; exact Or.inl (Or.inr ⟨h2, h1⟩)
              · exact Or.inr ⟨q, hq', h1, h2⟩

theorem extractPeripherals_spec (ps : List Peripherals) (r : List Nat × List Nat) (h : extractPeripherals ps = .ok r) :
    (∀ p, p ∈ ps → ∃ l, p.modes = .names l ∧ ∀ m, m ∈ l → m = "MET" ∨ m = "DRUG") ∧
    (∀ c, c ∈ r.1 ↔ ∃ p, p ∈ ps ∧ c ∈ p.counts ∧ "MET" ∈ p.modes.expand Gen.peripheralsModesWildcard) ∧
    (∀ c, c ∈ r.2 ↔ ∃ p, p ∈ ps ∧ c ∈ p.counts ∧ "DRUG" ∈ p.modes.expand Gen.peripheralsModesWildcard) := by
  rw [extractPeripherals_eq] at h
  obtain ⟨h1, h2, h3⟩ := periOuter_spec ps _ _ h
  exact ⟨h1, by simpa using h2, by simpa using h3⟩

theorem single_peri_atoms (cs : List Nat) (md : String) (c : Nat) (m : String) :
    Atom.peri c m ∈ Peripherals.atoms ⟨cs, .names [md]⟩ ↔ (m = md ∧ c ∈ cs) := by
  simp only [Peripherals.atoms, Modes.expand, List.mem_flatMap, List.mem_map, List.mem_singleton]
  constructor
  · rintro ⟨a, ha, _, rfl, he⟩
    cases he; exact ⟨rfl, ha⟩
  · rintro ⟨rfl, hc⟩
    exact ⟨c, hc, m, rfl, rfl⟩

/-- atoms of the (at most two) statements `_add_sub_peripherals` builds -/
theorem builtPeripherals_atoms (met drug : List Nat) (c : Nat) (m : String) :
    Atom.peri c m ∈ ((if met.isEmpty then [] else [(⟨met, .names ["MET"]⟩ : Peripherals)]) ++
        (if drug.isEmpty then [] else [(⟨drug, .names ["DRUG"]⟩ : Peripherals)])).flatMap Peripherals.atoms ↔
      (m = "MET" ∧ c ∈ met) ∨ (m = "DRUG" ∧ c ∈ drug) := by
  simp only [List.flatMap_append, List.mem_append]
  have e : ∀ (cs : List Nat) (md : String),
      Atom.peri c m ∈ (if cs.isEmpty then [] else [(⟨cs, .names [md]⟩ : Peripherals)]).flatMap Peripherals.atoms ↔ (m = md ∧ c ∈ cs) := by
    intro cs md
    cases cs with
    | nil => simp
    | cons x xs =>
      have : ((x :: xs).isEmpty) = false := rfl
      simp only [this, Bool.false_eq_true, if_false, List.flatMap_cons, List.flatMap_nil, List.append_nil]
      exact single_peri_atoms (x :: xs) md c m
  rw [e met "MET", e drug "DRUG"]

theorem peri_exists_iff (ps : List Peripherals)
    (hv : ∀ p, p ∈ ps → ∃ l, p.modes = .names l ∧ ∀ m, m ∈ l → m = "MET" ∨ m = "DRUG") (c : Nat) (m : String) :
    (∃ p, p ∈ ps ∧ c ∈ p.counts ∧ m ∈ p.modes.expand Gen.peripheralsModesWildcard) ↔
      (m = "MET" ∧ ∃ p, p ∈ ps ∧ c ∈ p.counts ∧ "MET" ∈ p.modes.expand Gen.peripheralsModesWildcard) ∨
      (m = "DRUG" ∧ ∃ p, p ∈ ps ∧ c ∈ p.counts ∧ "DRUG" ∈ p.modes.expand Gen.peripheralsModesWildcard) := by
  constructor
  · rintro ⟨p, hp, hc, hm⟩
    obtain ⟨l, hl, hall⟩ := hv p hp
    have hml : m ∈ l := by rw [hl] at hm; exact hm
    rcases hall m hml with rfl | rfl
    · exact Or.inl ⟨rfl, p, hp, hc, hm⟩
    · exact Or.inr ⟨rfl, p, hp, hc, hm⟩
  · rintro (⟨hm, h⟩ | ⟨hm, h⟩)
    · rw [hm]; exact h
    · rw [hm]; exact h

/-- `_add_sub_peripherals(add=True)`: atoms of the result are the union -/
theorem addSubPeripherals_add (a b : MF) (ps : List Peripherals) (h : addSubPeripherals a b true = .ok ps) (c : Nat) (m : String) :
    Atom.peri c m ∈ ps.flatMap Peripherals.atoms ↔
      (∃ p, p ∈ a.peripherals ∧ c ∈ p.counts ∧ m ∈ p.modes.expand Gen.peripheralsModesWildcard) ∨
      (∃ p, p ∈ b.peripherals ∧ c ∈ p.counts ∧ m ∈ p.modes.expand Gen.peripheralsModesWildcard) := by
  unfold addSubPeripherals at h
  cases h1 : extractPeripherals a.peripherals with
  | error e => simp [h1, bind, Except.bind] at h
  | ok r1 =>
    cases h2 : extractPeripherals b.peripherals with
    | error e => simp [h1, h2, bind, Except.bind] at h
    | ok r2 =>
      obtain ⟨lm, ld⟩ := r1
      obtain ⟨rm, rd⟩ := r2
      simp only [h1, h2, bind, Except.bind, pure, Except.pure, if_true] at h
      cases h
      obtain ⟨v1, m1, d1⟩ := extractPeripherals_spec _ _ h1
      obtain ⟨v2, m2, d2⟩ := extractPeripherals_spec _ _ h2
      rw [builtPeripherals_atoms, peri_exists_iff _ v1, peri_exists_iff _ v2]
      simp only [mem_sortDedup, List.mem_append]
      simp only at m1 d1 m2 d2
      rw [← m1, ← d1, ← m2, ← d2]
      constructor
      · rintro (⟨h, h' | h'⟩ | ⟨h, h' | h'⟩)
        · exact Or.inl (Or.inl ⟨h, h'⟩)
        · exact Or.inr (Or.inl ⟨h, h'⟩)
        · exact Or.inl (Or.inr ⟨h, h'⟩)
        · exact Or.inr (Or.inr ⟨h, h'⟩)
      · rintro ((⟨h, h'⟩ | ⟨h, h'⟩) | (⟨h, h'⟩ | ⟨h, h'⟩))
        · exact Or.inl ⟨h, Or.inl h'⟩
        · exact Or.inr ⟨h, Or.inl h'⟩
        · exact Or.inl ⟨h, Or.inr h'⟩
        · exact Or.inr ⟨h, Or.inr h'⟩

theorem truthy_false (k : ModeKind) (m : Option Modes) (h : truthy k m = .ok false) : optExpand k.wildcard m = [] := by
  cases m with
  | none => rfl
  | some m' =>
    cases m' with
    | wild => simpa [truthy, Modes.len, Modes.eval, bind, Except.bind, pure, Except.pure, optExpand, Modes.expand] using h
    | names l => simpa [truthy, Modes.len, Modes.eval, bind, Except.bind, pure, Except.pure, optExpand, Modes.expand] using h
    | bare s => simp [truthy, Modes.len, Modes.eval, bind, Except.bind] at h

theorem truthy_true (k : ModeKind) (m : Option Modes) (h : truthy k m = .ok true) :
    ∃ m', m = some m' ∧ (m' = .wild ∨ ∃ l, m' = .names l) := by
  cases m with
  | none => simp [truthy] at h
  | some m' =>
    cases m' with
    | wild => exact ⟨_, rfl, Or.inl rfl⟩
    | names l => exact ⟨_, rfl, Or.inr ⟨l, rfl⟩⟩
    | bare s => simp [truthy, Modes.len, Modes.eval, bind, Except.bind] at h

theorem valid_expand_subset (wc : List String) (m : Modes) (hv : m.valid wc = true) (hm : m = .wild ∨ ∃ l, m = .names l) :
    ∀ x, x ∈ m.expand wc → x ∈ wc := by
  intro x hx
  rcases hm with rfl | ⟨l, rfl⟩
  · exact hx
  · simp only [Modes.valid, List.all_eq_true, List.contains_iff_mem] at hv
    exact hv x hx

theorem optAdd_expand (k : ModeKind) (l r res : Option Modes) (h : optAdd k l r = .ok res)
    (hl : optValid k.wildcard l = true) (hr : optValid k.wildcard r = true) :
    ∀ x, x ∈ optExpand k.wildcard res ↔ x ∈ optExpand k.wildcard l ∨ x ∈ optExpand k.wildcard r := by
  intro x
  unfold optAdd at h
  simp only [bind, Except.bind] at h
  cases h1 : truthy k l with
  | error e => simp [h1] at h
  | ok b1 =>
    cases h2 : truthy k r with
    | error e => cases b1 <;> simp [h1, h2] at h
    | ok b2 =>
      cases b1 <;> cases b2
      · simp [h1, h2, pure, Except.pure] at h; subst h
        simp [truthy_false k l h1, truthy_false k r h2]
      · simp [h1, h2, pure, Except.pure] at h; subst h
        simp [truthy_false k l h1]
      · simp [h1, h2, pure, Except.pure] at h; subst h
        simp [truthy_false k r h2]
      · obtain ⟨a, rfl, ha⟩ := truthy_true k l h1
        obtain ⟨b, rfl, hb⟩ := truthy_true k r h2
        simp only [h1, h2, if_true] at h
        cases hadd : modesAdd k a b with
        | error e => simp [hadd] at h
        | ok m =>
          simp [hadd, pure, Except.pure] at h; subst h
          have va := valid_expand_subset k.wildcard a hl ha
          have vb := valid_expand_subset k.wildcard b hr hb
          simp only [optExpand]
          by_cases hw : a.isWild = true ∨ b.isWild = true
          · rw [modesAdd_wild k a b hw] at hadd
            cases hadd
            constructor
            · intro hx
              rcases hw with hw | hw
              · cases a <;> simp [Modes.isWild] at hw; exact Or.inl hx
              · cases b <;> simp [Modes.isWild] at hw; exact Or.inr hx
            · rintro (hx | hx)
              · exact va x hx
              · exact vb x hx
          · have na : ∃ al, a = .names al := by
              rcases ha with rfl | h'
              · exact absurd (Or.inl rfl) hw
              · exact h'
            have nb : ∃ bl, b = .names bl := by
              rcases hb with rfl | h'
              · exact absurd (Or.inr rfl) hw
              · exact h'
            obtain ⟨al, rfl⟩ := na
            obtain ⟨bl, rfl⟩ := nb
            obtain ⟨rr, h1', h2'⟩ := modesAdd_names k al bl
            rw [h1'] at hadd; cases hadd
            exact h2' x

theorem optAdd_isSome (k : ModeKind) (l r res : Option Modes) (h : optAdd k l r = .ok res) (hl : l.isSome = true) :
    res.isSome = true := by
  unfold optAdd at h
  simp only [bind, Except.bind] at h
  cases h1 : truthy k l with
  | error e => simp [h1] at h
  | ok b1 =>
    cases h2 : truthy k r with
    | error e => cases b1 <;> simp [h1, h2] at h
    | ok b2 =>
      cases b1 <;> cases b2
      · simp [h1, h2, pure, Except.pure] at h; subst h; exact hl
      · simp [h1, h2, pure, Except.pure] at h; subst h
        obtain ⟨b, rfl, _⟩ := truthy_true k r h2; rfl
      · simp [h1, h2, pure, Except.pure] at h; subst h; exact hl
      · obtain ⟨a, rfl, _⟩ := truthy_true k l h1
        obtain ⟨b, rfl, _⟩ := truthy_true k r h2
        simp only [h1, h2, if_true] at h
        cases hadd : modesAdd k a b with
        | error e => simp [hadd] at h
        | ok m => simp [hadd, pure, Except.pure] at h; subst h; rfl

/-! ### `ModelFeatures.create` -/

theorem create_cases (A E : Option Modes) (T : List Transits) (P : List Peripherals) (L : Option Modes) (c : MF)
    (h : MF.create A E T P L = .ok c) :
    c = ⟨A, E, T, P, L⟩ ∨
    c = ⟨some (A.getD (.names Gen.defaultAbsorption)), some (E.getD (.names Gen.defaultElimination)),
          (if T.isEmpty then [⟨Gen.defaultTransitsCounts, .names Gen.defaultTransitsDepot⟩] else T),
          (if P.isEmpty then [⟨Gen.defaultPeripheralsCounts, .names Gen.defaultPeripheralsModes⟩] else P),
          some (L.getD (.names Gen.defaultLagtime))⟩ := by
  unfold MF.create at h
  simp only [bind, Except.bind] at h
  split at h
  · cases h
  · rename_i pk _
    cases pk
    · simp only [pure, Except.pure, Bool.false_eq_true, ↓reduceIte, Except.ok.injEq] at h; exact Or.inl h.symm
    · simp only [pure, Except.pure, ↓reduceIte, Except.ok.injEq] at h; exact Or.inr h.symm

theorem create_sup (A E : Option Modes) (T : List Transits) (P : List Peripherals) (L : Option Modes) (c : MF)
    (h : MF.create A E T P L = .ok c) : ∀ x, x ∈ (MF.mk A E T P L).atoms → x ∈ c.atoms := by
  intro x hx
  rcases create_cases A E T P L c h with rfl | rfl
  · exact hx
  · cases x with
    | abs m =>
      rw [mem_atoms_abs] at hx ⊢
      cases A <;> simp_all [optExpand]
    | elim m =>
      rw [mem_atoms_elim] at hx ⊢
      cases E <;> simp_all [optExpand]
    | lag m =>
      rw [mem_atoms_lag] at hx ⊢
      cases L <;> simp_all [optExpand]
    | trans c d =>
      rw [mem_atoms_trans] at hx ⊢
      cases T with
      | nil => simp at hx
      | cons t ts => simpa using hx
    | peri c d =>
      rw [mem_atoms_peri] at hx ⊢
      cases P with
      | nil => simp at hx
      | cons t ts => simpa using hx

theorem create_sub (A E : Option Modes) (T : List Transits) (P : List Peripherals) (L : Option Modes) (c : MF)
    (h : MF.create A E T P L = .ok c) : ∀ x, x ∈ c.atoms → x ∈ (MF.mk A E T P L).atoms ∨ x ∈ defaultAtoms := by
  intro x hx
  rcases create_cases A E T P L c h with rfl | rfl
  · exact Or.inl hx
  · cases x with
    | abs m =>
      rw [mem_atoms_abs] at hx
      cases A with
      | some a => left; rw [mem_atoms_abs]; simpa [optExpand] using hx
      | none => right; simp [optExpand, Modes.expand] at hx; simp [defaultAtoms, hx]
    | elim m =>
      rw [mem_atoms_elim] at hx
      cases E with
      | some a => left; rw [mem_atoms_elim]; simpa [optExpand] using hx
      | none => right; simp [optExpand, Modes.expand] at hx; simp [defaultAtoms, hx]
    | lag m =>
      rw [mem_atoms_lag] at hx
      cases L with
      | some a => left; rw [mem_atoms_lag]; simpa [optExpand] using hx
      | none => right; simp [optExpand, Modes.expand] at hx; simp [defaultAtoms, hx]
    | trans c d =>
      rw [mem_atoms_trans] at hx
      cases T with
      | nil =>
        right
        simp [Modes.expand] at hx
        simp [defaultAtoms, hx]
      | cons t ts => left; rw [mem_atoms_trans]; simpa using hx
    | peri c d =>
      rw [mem_atoms_peri] at hx
      cases P with
      | nil =>
        right
        simp [Modes.expand] at hx
        simp [defaultAtoms, hx]
      | cons t ts => left; rw [mem_atoms_peri]; simpa using hx

theorem create_full (A E : Option Modes) (T : List Transits) (P : List Peripherals) (L : Option Modes) (c : MF)
    (h : MF.create A E T P L = .ok c) (hA : A.isSome = true) (hE : E.isSome = true) (hL : L.isSome = true)
    (hT : T ≠ []) (hP : P ≠ []) : c = ⟨A, E, T, P, L⟩ := by
  rcases create_cases A E T P L c h with rfl | rfl
  · rfl
  · cases A <;> cases E <;> cases L <;> cases T <;> cases P <;> simp_all

/-! ### `ModelFeatures.__add__` -/

/-- the components handed to `create` by `__add__` expand to the union -/
theorem add_components (a b : MF) (A E L : Option Modes) (T : List Transits) (P : List Peripherals)
    (hT : addSubTransits a b true = .ok T) (hP : addSubPeripherals a b true = .ok P)
    (hA : optAdd absorptionKind a.absorption b.absorption = .ok A)
    (hE : optAdd eliminationKind a.elimination b.elimination = .ok E)
    (hL : optAdd lagtimeKind a.lagtime b.lagtime = .ok L)
    (hva : a.valid = true) (hvb : b.valid = true) :
    ∀ x, x ∈ (MF.mk A E T P L).atoms ↔ x ∈ a.atoms ∨ x ∈ b.atoms := by
  simp only [MF.valid, Bool.and_eq_true] at hva hvb
  intro x
  cases x with
  | abs m =>
    simp only [mem_atoms_abs]
    exact optAdd_expand absorptionKind _ _ _ hA hva.1.1 hvb.1.1 m
  | elim m =>
    simp only [mem_atoms_elim]
    exact optAdd_expand eliminationKind _ _ _ hE hva.1.2 hvb.1.2 m
  | lag m =>
    simp only [mem_atoms_lag]
    exact optAdd_expand lagtimeKind _ _ _ hL hva.2 hvb.2 m
  | trans c d =>
    simp only [mem_atoms_trans]
    have := addSubTransits_add a b T hT c d
    simp only [List.mem_flatMap, Transits.atoms, List.mem_map] at this
    rw [← this]
    constructor
    · rintro ⟨t, ht, hc, hd⟩; exact ⟨t, ht, c, hc, d, hd, rfl⟩
    · rintro ⟨t, ht, c', hc, d', hd, he⟩; cases he; exact ⟨t, ht, hc, hd⟩
  | peri c d =>
    simp only [mem_atoms_peri]
    have := addSubPeripherals_add a b P hP c d
    simp only [List.mem_flatMap, Peripherals.atoms, List.mem_map] at this
    rw [← this]
    constructor
    · rintro ⟨t, ht, hc, hd⟩; exact ⟨t, ht, c, hc, d, hd, rfl⟩
    · rintro ⟨t, ht, c', hc, d', hd, he⟩; cases he; exact ⟨t, ht, hc, hd⟩

theorem add_unfold (a b c : MF) (h : MF.add a b = .ok c) :
    ∃ A E L T P, addSubTransits a b true = .ok T ∧ addSubPeripherals a b true = .ok P ∧
      optAdd absorptionKind a.absorption b.absorption = .ok A ∧
      optAdd eliminationKind a.elimination b.elimination = .ok E ∧
      optAdd lagtimeKind a.lagtime b.lagtime = .ok L ∧ MF.create A E T P L = .ok c := by
  unfold MF.add at h
  simp only [bind, Except.bind] at h
  cases hT : addSubTransits a b true with
  | error e => simp [hT] at h
  | ok T =>
    cases hP : addSubPeripherals a b true with
    | error e => simp [hT, hP] at h
    | ok P =>
      cases hA : optAdd absorptionKind a.absorption b.absorption with
      | error e => simp [hT, hP, hA] at h
      | ok A =>
        cases hE : optAdd eliminationKind a.elimination b.elimination with
        | error e => simp [hT, hP, hA, hE] at h
        | ok E =>
          cases hL : optAdd lagtimeKind a.lagtime b.lagtime with
          | error e => simp [hT, hP, hA, hE, hL] at h
          | ok L =>
            simp only [hT, hP, hA, hE, hL] at h
            exact ⟨A, E, L, T, P, rfl, rfl, rfl, rfl, rfl, h⟩


/-! ### `ModelFeatures.__sub__` -/

theorem modesEq_ok_names (a b : Modes) (r : Bool) (h : modesEq a b = .ok r) : ∃ al bl, a = .names al ∧ b = .names bl := by
  cases a <;> cases b <;> simp [modesEq, Modes.iter, bind, Except.bind] at h
  exact ⟨_, _, rfl, rfl⟩

theorem optSub_expand (k : ModeKind) (l r res : Option Modes) (h : optSub k l r = .ok res) :
    (∀ x, x ∈ optExpand k.wildcard l → x ∉ optExpand k.wildcard r → x ∈ optExpand k.wildcard res) ∧
    (∀ x, x ∈ optExpand k.wildcard res →
      (x ∈ optExpand k.wildcard l ∧ x ∉ optExpand k.wildcard r) ∨ x = k.subDefault) := by
  unfold optSub at h
  simp only [bind, Except.bind] at h
  cases h1 : truthy k l with
  | error e => simp [h1] at h
  | ok b1 =>
    cases b1
    · simp [h1, pure, Except.pure] at h; subst h
      simp [truthy_false k l h1]
    · cases h2 : truthy k r with
      | error e => simp [h1, h2] at h
      | ok b2 =>
        cases b2
        · simp [h1, h2, pure, Except.pure] at h; subst h
          simp only [truthy_false k r h2]
          exact ⟨fun x hx _ => hx, fun x hx => Or.inl ⟨hx, by simp⟩⟩
        · obtain ⟨a, rfl, _⟩ := truthy_true k l h1
          obtain ⟨b, rfl, _⟩ := truthy_true k r h2
          simp only [h1, h2, if_true] at h
          cases he : modesEq a b with
          | error e => simp [he] at h
          | ok eq =>
            obtain ⟨al, bl, rfl, rfl⟩ := modesEq_ok_names a b eq he
            obtain ⟨eq', he', hiff⟩ := modesEq_names al bl
            have heq : eq = eq' := by rw [he'] at he; cases he; rfl
            subst heq
            obtain ⟨rr, hs, hd1, hd2⟩ := modesSub_names k al bl
            cases eq
            · simp only [he', Bool.false_eq_true, if_false, hs, pure, Except.pure] at h
              cases h
              simp only [optExpand, Modes.expand]
              by_cases hex : ∃ x, x ∈ al ∧ x ∉ bl
              · have := hd1 hex
                exact ⟨fun x h1 h2 => (this x).mpr ⟨h1, h2⟩, fun x hx => Or.inl ((this x).mp hx)⟩
              · have := hd2 hex
                subst this
                refine ⟨fun x h1 h2 => absurd ⟨x, h1, h2⟩ hex, fun x hx => Or.inr (by simpa using hx)⟩
            · simp only [he', if_true, pure, Except.pure] at h
              cases h
              have hsame := hiff.mp rfl
              simp only [optExpand, Modes.expand]
              exact ⟨fun x h1 h2 => absurd ((hsame x).mp h1) h2, fun x hx => by cases hx⟩

/-- `_add_sub_peripherals(add=False)`: atoms of the result are the difference -/
theorem addSubPeripherals_sub (a b : MF) (ps : List Peripherals) (h : addSubPeripherals a b false = .ok ps) (c : Nat) (m : String) :
    Atom.peri c m ∈ ps.flatMap Peripherals.atoms ↔
      (∃ p, p ∈ a.peripherals ∧ c ∈ p.counts ∧ m ∈ p.modes.expand Gen.peripheralsModesWildcard) ∧
      ¬ (∃ p, p ∈ b.peripherals ∧ c ∈ p.counts ∧ m ∈ p.modes.expand Gen.peripheralsModesWildcard) := by
  unfold addSubPeripherals at h
  cases h1 : extractPeripherals a.peripherals with
  | error e => simp [h1, bind, Except.bind] at h
  | ok r1 =>
    cases h2 : extractPeripherals b.peripherals with
    | error e => simp [h1, h2, bind, Except.bind] at h
    | ok r2 =>
      obtain ⟨lm, ld⟩ := r1
      obtain ⟨rm, rd⟩ := r2
      simp only [h1, h2, bind, Except.bind, pure, Except.pure, Bool.false_eq_true, if_false] at h
      cases h
      obtain ⟨v1, m1, d1⟩ := extractPeripherals_spec _ _ h1
      obtain ⟨v2, m2, d2⟩ := extractPeripherals_spec _ _ h2
      rw [builtPeripherals_atoms, peri_exists_iff _ v1, peri_exists_iff _ v2]
      simp only [List.mem_filter, Bool.not_eq_true']
      simp only at m1 d1 m2 d2
      rw [← m1, ← d1, ← m2, ← d2]
      have hne : ("MET" : String) ≠ "DRUG" := by decide
      by_cases e1 : m = "MET"
      · subst e1; simp [hne]
      · by_cases e2 : m = "DRUG"
        · subst e2; simp [hne.symm]
        · simp [e1, e2]

theorem sub_unfold (a b c : MF) (h : MF.sub a b = .ok c) :
    ∃ A E L T P, addSubTransits a b false = .ok T ∧ addSubPeripherals a b false = .ok P ∧
      optSub absorptionKind a.absorption b.absorption = .ok A ∧
      optSub eliminationKind a.elimination b.elimination = .ok E ∧
      optSub lagtimeKind a.lagtime b.lagtime = .ok L ∧ MF.create A E T P L = .ok c := by
  unfold MF.sub at h
  simp only [bind, Except.bind] at h
  cases hT : addSubTransits a b false with
  | error e => simp [hT] at h
  | ok T =>
    cases hP : addSubPeripherals a b false with
    | error e => simp [hT, hP] at h
    | ok P =>
      cases hA : optSub absorptionKind a.absorption b.absorption with
      | error e => simp [hT, hP, hA] at h
      | ok A =>
        cases hE : optSub eliminationKind a.elimination b.elimination with
        | error e => simp [hT, hP, hA, hE] at h
        | ok E =>
          cases hL : optSub lagtimeKind a.lagtime b.lagtime with
          | error e => simp [hT, hP, hA, hE, hL] at h
          | ok L =>
            simp only [hT, hP, hA, hE, hL] at h
            exact ⟨A, E, L, T, P, rfl, rfl, rfl, rfl, rfl, h⟩

theorem subDefaults_are_defaults :
    Atom.abs absorptionKind.subDefault ∈ defaultAtoms ∧ Atom.elim eliminationKind.subDefault ∈ defaultAtoms ∧
      Atom.lag lagtimeKind.subDefault ∈ defaultAtoms := by decide +kernel

/-- the components handed to `create` by `__sub__` -/
theorem sub_components (a b : MF) (A E L : Option Modes) (T : List Transits) (P : List Peripherals)
    (hT : addSubTransits a b false = .ok T) (hP : addSubPeripherals a b false = .ok P)
    (hA : optSub absorptionKind a.absorption b.absorption = .ok A)
    (hE : optSub eliminationKind a.elimination b.elimination = .ok E)
    (hL : optSub lagtimeKind a.lagtime b.lagtime = .ok L) :
    (∀ x, x ∈ a.atoms → x ∉ b.atoms → x ∈ (MF.mk A E T P L).atoms) ∧
    (∀ x, x ∈ (MF.mk A E T P L).atoms → (x ∈ a.atoms ∧ x ∉ b.atoms) ∨ x ∈ defaultAtoms) := by
  obtain ⟨a1, a2⟩ := optSub_expand absorptionKind _ _ _ hA
  obtain ⟨e1, e2⟩ := optSub_expand eliminationKind _ _ _ hE
  obtain ⟨l1, l2⟩ := optSub_expand lagtimeKind _ _ _ hL
  obtain ⟨da, de, dl⟩ := subDefaults_are_defaults
  have tr : ∀ c d, Atom.trans c d ∈ (MF.mk A E T P L).atoms ↔ Atom.trans c d ∈ a.atoms ∧ Atom.trans c d ∉ b.atoms := by
    intro c d
    have := addSubTransits_sub a b T hT c d
    simp only [mem_atoms_trans]
    rw [← this]
    simp only [List.mem_flatMap, Transits.atoms, List.mem_map]
    constructor
    · rintro ⟨t, ht, hc, hd⟩; exact ⟨t, ht, c, hc, d, hd, rfl⟩
    · rintro ⟨t, ht, c', hc, d', hd, he⟩; cases he; exact ⟨t, ht, hc, hd⟩
  have pe : ∀ c d, Atom.peri c d ∈ (MF.mk A E T P L).atoms ↔ Atom.peri c d ∈ a.atoms ∧ Atom.peri c d ∉ b.atoms := by
    intro c d
    have := addSubPeripherals_sub a b P hP c d
    simp only [mem_atoms_peri]
    rw [← this]
    simp only [List.mem_flatMap, Peripherals.atoms, List.mem_map]
    constructor
    · rintro ⟨t, ht, hc, hd⟩; exact ⟨t, ht, c, hc, d, hd, rfl⟩
    · rintro ⟨t, ht, c', hc, d', hd, he⟩; cases he; exact ⟨t, ht, hc, hd⟩
  constructor
  · intro x hx hnx
    cases x with
    | abs m => rw [mem_atoms_abs] at hx hnx ⊢; exact a1 m hx hnx
    | elim m => rw [mem_atoms_elim] at hx hnx ⊢; exact e1 m hx hnx
    | lag m => rw [mem_atoms_lag] at hx hnx ⊢; exact l1 m hx hnx
    | trans c d => exact (tr c d).mpr ⟨hx, hnx⟩
    | peri c d => exact (pe c d).mpr ⟨hx, hnx⟩
  · intro x hx
    cases x with
    | abs m =>
      rw [mem_atoms_abs] at hx
      rcases a2 m hx with h | h
      · left; rw [mem_atoms_abs, mem_atoms_abs]; exact h
      · right; rw [h]; exact da
    | elim m =>
      rw [mem_atoms_elim] at hx
      rcases e2 m hx with h | h
      · left; rw [mem_atoms_elim, mem_atoms_elim]; exact h
      · right; rw [h]; exact de
    | lag m =>
      rw [mem_atoms_lag] at hx
      rcases l2 m hx with h | h
      · left; rw [mem_atoms_lag, mem_atoms_lag]; exact h
      · right; rw [h]; exact dl
    | trans c d => exact Or.inl ((tr c d).mp hx)
    | peri c d => exact Or.inl ((pe c d).mp hx)


/-! ### `contain_subset`, `least_number_of_transformations` -/

theorem setEq_iff {α : Type} [BEq α] [LawfulBEq α] (a b : List α) : setEq a b = true ↔ ∀ x, x ∈ a ↔ x ∈ b := by
  simp only [setEq, Bool.and_eq_true, List.all_eq_true, List.contains_iff_mem]
  constructor
  · rintro ⟨h1, h2⟩ x; exact ⟨h1 x, h2 x⟩
  · intro h; exact ⟨fun x hx => (h x).mp hx, fun x hx => (h x).mpr hx⟩

theorem evalModes_ok (k : ModeKind) (m : Option Modes) (l : List String) (h : evalModes k m = .ok l) :
    l = optExpand k.wildcard m := by
  cases m with
  | none => simp [evalModes] at h
  | some m' =>
    cases m' with
    | wild => simp [evalModes, Modes.eval] at h; simp [optExpand, Modes.expand, h]
    | names l' => simp [evalModes, Modes.eval] at h; simp [optExpand, Modes.expand, h]
    | bare s => simp [evalModes, Modes.eval] at h

theorem subsetModes_spec (k : ModeKind) (l r : Option Modes) (v : Bool) (h : subsetModes k l r = .ok v) :
    v = true ↔ ∀ x, x ∈ optExpand k.wildcard r → x ∈ optExpand k.wildcard l := by
  unfold subsetModes at h
  simp only [bind, Except.bind] at h
  cases hr : evalModes k r with
  | error e => simp [hr] at h
  | ok rl =>
    have er := evalModes_ok k r rl hr
    simp only [hr] at h
    by_cases hemp : rl.isEmpty = true
    · simp only [hemp, if_true, pure, Except.pure, Except.ok.injEq] at h
      subst h
      have : rl = [] := by simpa using hemp
      rw [← er, this]; simp
    · simp only [hemp, Bool.false_eq_true, if_false] at h
      cases hl : evalModes k l with
      | error e => simp [hl] at h
      | ok ll =>
        have el := evalModes_ok k l ll hl
        simp only [hl, pure, Except.pure, Except.ok.injEq] at h
        subst h
        rw [← er, ← el]
        simp [List.all_eq_true]


/-- what the three ingredients of `contain_subset` mean on atoms -/
theorem containParts_spec (a b : MF) (s d m : Bool) (h : a.containParts b = .ok (s, d, m)) :
    (s = true ↔ (∀ x, Atom.abs x ∈ b.atoms → Atom.abs x ∈ a.atoms) ∧ (∀ x, Atom.elim x ∈ b.atoms → Atom.elim x ∈ a.atoms) ∧
        subsetTransits a b = .ok true ∧ (∀ x, Atom.lag x ∈ b.atoms → Atom.lag x ∈ a.atoms)) ∧
    (d = true ↔ ∀ c, Atom.peri c "DRUG" ∈ b.atoms → Atom.peri c "DRUG" ∈ a.atoms) ∧
    (m = true ↔ ∀ c, Atom.peri c "MET" ∈ b.atoms → Atom.peri c "MET" ∈ a.atoms) := by
  unfold MF.containParts at h
  simp only [bind, Except.bind] at h
  cases ht : subsetTransits a b with
  | error e => simp [ht] at h
  | ok tr =>
    cases h1 : extractPeripherals a.peripherals with
    | error e => simp [ht, h1] at h
    | ok r1 =>
      cases h2 : extractPeripherals b.peripherals with
      | error e => simp [ht, h1, h2] at h
      | ok r2 =>
        obtain ⟨lm, ld⟩ := r1
        obtain ⟨rm, rd⟩ := r2
        obtain ⟨_, m1, d1⟩ := extractPeripherals_spec _ _ h1
        obtain ⟨_, m2, d2⟩ := extractPeripherals_spec _ _ h2
        simp only [ht, h1, h2] at h
        simp only [mem_atoms_abs, mem_atoms_elim, mem_atoms_lag, mem_atoms_peri]
        simp only at m1 d1 m2 d2
        have hd : (rd.all (ld.contains ·) = true ↔ ∀ c, (∃ p, p ∈ b.peripherals ∧ c ∈ p.counts ∧ "DRUG" ∈ p.modes.expand Gen.peripheralsModesWildcard) →
            (∃ p, p ∈ a.peripherals ∧ c ∈ p.counts ∧ "DRUG" ∈ p.modes.expand Gen.peripheralsModesWildcard)) := by
          simp only [List.all_eq_true, List.contains_iff_mem, ← d1, ← d2]
        have hm : (rm.all (lm.contains ·) = true ↔ ∀ c, (∃ p, p ∈ b.peripherals ∧ c ∈ p.counts ∧ "MET" ∈ p.modes.expand Gen.peripheralsModesWildcard) →
            (∃ p, p ∈ a.peripherals ∧ c ∈ p.counts ∧ "MET" ∈ p.modes.expand Gen.peripheralsModesWildcard)) := by
          simp only [List.all_eq_true, List.contains_iff_mem, ← m1, ← m2]
        cases ha : subsetModes absorptionKind a.absorption b.absorption with
        | error e => simp [ha] at h
        | ok va =>
          have sa := subsetModes_spec _ _ _ _ ha
          simp only [ha] at h
          cases va
          · simp only [Bool.not_false, if_true, pure, Except.pure, Except.ok.injEq, Prod.mk.injEq] at h
            obtain ⟨rfl, rfl, rfl⟩ := h
            refine ⟨⟨(fun hf => by cases hf), (fun hf => absurd (sa.mpr hf.1) (by simp))⟩, hd, hm⟩
          · have sa' := sa.mp rfl
            simp only [Bool.not_true, Bool.false_eq_true, if_false] at h
            cases he : subsetModes eliminationKind a.elimination b.elimination with
            | error e => simp [he] at h
            | ok ve =>
              have se := subsetModes_spec _ _ _ _ he
              simp only [he] at h
              cases ve
              · simp only [Bool.not_false, if_true, pure, Except.pure, Except.ok.injEq, Prod.mk.injEq] at h
                obtain ⟨rfl, rfl, rfl⟩ := h
                refine ⟨⟨(fun hf => by cases hf), (fun hf => absurd (se.mpr hf.2.1) (by simp))⟩, hd, hm⟩
              · have se' := se.mp rfl
                simp only [Bool.not_true, Bool.false_eq_true, if_false] at h
                cases tr
                · simp only [Bool.not_false, if_true, pure, Except.pure, Except.ok.injEq, Prod.mk.injEq] at h
                  obtain ⟨rfl, rfl, rfl⟩ := h
                  refine ⟨⟨(fun hf => by cases hf), (fun hf => by have := hf.2.2.1; cases this)⟩, hd, hm⟩
                · simp only [Bool.not_true, Bool.false_eq_true, if_false] at h
                  cases hl : subsetModes lagtimeKind a.lagtime b.lagtime with
                  | error e => simp [hl] at h
                  | ok vl =>
                    have sl := subsetModes_spec _ _ _ _ hl
                    simp only [hl, pure, Except.pure, Except.ok.injEq, Prod.mk.injEq] at h
                    obtain ⟨rfl, rfl, rfl⟩ := h
                    refine ⟨⟨(fun hf => ⟨sa', se', rfl, sl.mp hf⟩), (fun hf => sl.mpr hf.2.2.2)⟩, hd, hm⟩

theorem containSubset_parts (a b : MF) (ms v : Bool) (h : a.containSubset b ms = .ok v) :
    ∃ s d m, a.containParts b = .ok (s, d, m) ∧ v = (s && d && (ms || m)) := by
  unfold MF.containSubset at h
  simp only [bind, Except.bind] at h
  cases hp : a.containParts b with
  | error e => simp [hp] at h
  | ok r =>
    obtain ⟨s, d, m⟩ := r
    refine ⟨s, d, m, rfl, ?_⟩
    simp only [hp] at h
    cases s <;> cases ms <;> cases d <;> cases m <;> simp_all [pure, Except.pure]

/-! ### least_number_of_transformations: kinds of the returned keys -/

theorem modeKeys_shape (k : ModeKind) (m : Option Modes) (ks : List Key) (h : modeKeys k m = .ok ks) :
    ∀ key, key ∈ ks → key.length = 2 := by
  cases m with
  | none => simp [modeKeys] at h; subst h; intro _ hk; cases hk
  | some m' =>
    cases m' with
    | bare s => simp [modeKeys] at h
    | wild =>
      simp only [modeKeys, Modes.eval] at h
      split at h
      · cases h; intro key hk; obtain ⟨x, _, rfl⟩ := List.mem_map.mp hk; rfl
      · cases h
    | names l =>
      simp only [modeKeys, Modes.eval] at h
      split at h
      · cases h; intro key hk; obtain ⟨x, _, rfl⟩ := List.mem_map.mp hk; rfl
      · cases h

theorem lntHelper_shape (k : ModeKind) (l r : Option Modes) (ks : List Key) (h : lntHelper k l r = .ok ks) :
    ∀ key, key ∈ ks → key.length = 2 := by
  cases l <;> cases r <;> simp only [lntHelper] at h
  · cases h; intro _ hk; cases hk
  · cases h
  · cases h
  · simp only [bind, Except.bind] at h
    split at h
    · cases h
    · split at h
      · cases h
      · split at h
        · simp only [pure, Except.pure, Except.ok.injEq] at h; subst h; intro _ hk; cases hk
        · split at h
          · cases h
          · rename_i mk hmk
            split at h
            · cases h
            · rename_i key rest hd
              simp only [pure, Except.pure, Except.ok.injEq] at h
              subst h
              intro key' hk
              simp only [List.mem_singleton] at hk
              subst hk
              have : key' ∈ dedup mk := by rw [hd]; exact List.mem_cons_self
              exact modeKeys_shape k _ mk hmk key' ((mem_dedup _ _).mp this)

theorem lntTransits_shape (a b : MF) (ks : List Key) (h : lntTransits a b = .ok ks) :
    ∀ key, key ∈ ks → key.kind = "TRANSITS" := by
  unfold lntTransits at h
  simp only [bind, Except.bind] at h
  split at h
  · cases h
  · split at h
    · split at h
      · cases h
      · split at h
        · simp only [pure, Except.pure, Except.ok.injEq] at h; subst h
          intro key hk; simp at hk; subst hk; rfl
        · split at h
          · simp only [pure, Except.pure, Except.ok.injEq] at h; subst h
            intro key hk; simp at hk; subst hk; rfl
          · simp only [pure, Except.pure, Except.ok.injEq] at h; subst h; intro _ hk; cases hk
    · simp only [pure, Except.pure, Except.ok.injEq] at h; subst h; intro _ hk; cases hk

theorem lntPeripherals_drug_shape (a b : MF) (ks : List Key) (h : lntPeripherals a b false = .ok ks) :
    ∀ key, key ∈ ks → key.length = 2 := by
  unfold lntPeripherals at h
  simp only [bind, Except.bind] at h
  split at h
  · cases h
  · split at h
    · cases h
    · split at h
      · cases h
      · simp only [Bool.false_eq_true, if_false, pure, Except.pure, Except.ok.injEq] at h
        subst h
        intro key hk
        split at hk
        · split at hk
          · cases hk
          · simp at hk; subst hk; rfl
        · cases hk



/-! ### `Cls.__sub__` with wildcard operands (after fix f9eda08) -/

theorem modesSub_wild_rhs (k : ModeKind) (a : Modes) : modesSub k a .wild = .ok (.names [k.subDefault]) := by
  simp [modesSub, Modes.isWild]

theorem modesSub_wild_lhs (k : ModeKind) (b : List String) :
    ∃ r, modesSub k .wild (.names b) = .ok (.names r) ∧
      ((∃ x, x ∈ k.wildcard ∧ x ∉ b) → ∀ x, x ∈ r ↔ x ∈ k.wildcard ∧ x ∉ b) ∧
      ((¬ ∃ x, x ∈ k.wildcard ∧ x ∉ b) → r = [k.subDefault]) := by
  have hmem : ∀ x, x ∈ k.wildcard.filter (fun y => !b.contains y) ↔ x ∈ k.wildcard ∧ x ∉ b := by
    intro x; simp [List.mem_filter]
  by_cases hw : k.wildcard.isEmpty = true
  · have : k.wildcard = [] := by simpa using hw
    refine ⟨[k.subDefault], ?_, ?_, fun _ => rfl⟩
    · simp [modesSub, Modes.isWild, filterNotIn, this, bind, Except.bind]
    · rintro ⟨x, hx, _⟩; rw [this] at hx; cases hx
  · let d := k.wildcard.filter (fun y => !b.contains y)
    refine ⟨if d.isEmpty then [k.subDefault] else d, ?_, ?_, ?_⟩
    · simp [modesSub, Modes.isWild, filterNotIn, hw, bind, Except.bind, d]
    · rintro ⟨x, hx⟩
      have : d.isEmpty = false := by
        cases hd : d with
        | nil => have := (hmem x).mpr hx; rw [show k.wildcard.filter (fun y => !b.contains y) = d from rfl, hd] at this; cases this
        | cons _ _ => rfl
      intro y; rw [this]; simp only [Bool.false_eq_true, if_false]; exact hmem y
    · intro hno
      have : d.isEmpty = true := by
        cases hd : d with
        | nil => rfl
        | cons y ys =>
          exfalso; apply hno
          exact ⟨y, (hmem y).mp (by rw [show k.wildcard.filter (fun y => !b.contains y) = d from rfl, hd]; exact List.mem_cons_self)⟩
      rw [this]; rfl

/-! ### `_group_incompatible_features` -/

def gnames (G : List (String × List Key)) : List String := G.map (·.1)

/-- invariant of the `defaultdict` after the keys `pre` have been inserted -/
def GroupInv (G : List (String × List Key)) (pre : List Key) : Prop :=
  (gnames G).Nodup ∧ (∀ e, e ∈ G → e.2 = pre.filter (fun k => k.kind == e.1) ∧ e.2 ≠ []) ∧
    (∀ k, k ∈ pre → k.kind ∈ gnames G)

theorem filter_snoc (pre : List Key) (k : Key) (s : String) :
    (pre ++ [k]).filter (fun j => j.kind == s) =
      pre.filter (fun j => j.kind == s) ++ (if k.kind == s then [k] else []) := by
  simp [List.filter_append, List.filter_cons]

theorem insertGroup_inv (k : Key) (pre : List Key) :
    ∀ G, GroupInv G pre → GroupInv (insertGroup k G) (pre ++ [k]) := by
  intro G
  induction G generalizing pre with
  | nil =>
    rintro ⟨_, _, h3⟩
    have hpre : pre = [] := by
      cases pre with
      | nil => rfl
      | cons a _ => have := h3 a List.mem_cons_self; simp [gnames] at this
    subst hpre
    refine ⟨by simp [insertGroup, gnames], ?_, ?_⟩
    · intro e he
      simp [insertGroup] at he; subst he
      simp
    · intro j hj; simp at hj; subst hj; simp [insertGroup, gnames]
  | cons e rest ih =>
    obtain ⟨s, g⟩ := e
    rintro ⟨h1, h2, h3⟩
    have hs : s ∉ gnames rest := (List.nodup_cons.mp h1).1
    simp only [insertGroup]
    by_cases hk : s = k.kind
    · subst hk
      simp only [beq_self_eq_true, if_true]
      refine ⟨h1, ?_, ?_⟩
      · intro e he
        rcases List.mem_cons.mp he with rfl | he'
        · obtain ⟨e1, _⟩ := h2 (k.kind, g) List.mem_cons_self
          simp only at e1 ⊢
          rw [filter_snoc, ← e1]; simp
        · obtain ⟨e1, e2⟩ := h2 e (List.mem_cons_of_mem _ he')
          have hne : ¬ k.kind = e.1 := by
            intro h; exact hs (by rw [h]; exact List.mem_map.mpr ⟨e, he', rfl⟩)
          have hb : (k.kind == e.1) = false := by simpa using hne
          rw [filter_snoc, hb]; simp [e2]; exact e1
      · intro j hj
        rcases List.mem_append.mp hj with hj | hj
        · exact h3 j hj
        · simp at hj; subst hj; simp [gnames]
    · have hb : (s == k.kind) = false := by simpa using hk
      simp only [hb, Bool.false_eq_true, if_false]
      -- the rest of the dict is the dict of the keys whose kind is not `s`
      have hrest : GroupInv rest (pre.filter (fun j => !(j.kind == s))) := by
        refine ⟨(List.nodup_cons.mp h1).2, ?_, ?_⟩
        · intro e he
          obtain ⟨e1, e2⟩ := h2 e (List.mem_cons_of_mem _ he)
          have hne : ¬ e.1 = s := by
            intro h; exact hs (by rw [← h]; exact List.mem_map.mpr ⟨e, he, rfl⟩)
          refine ⟨?_, e2⟩
          rw [e1, List.filter_filter]
          apply List.filter_congr
          intro j _
          by_cases hj : j.kind = e.1
          · have : ¬ j.kind = s := by rw [hj]; exact hne
            simp [hj, hne]
          · simp [hj]
        · intro j hj
          obtain ⟨hj1, hj2⟩ := List.mem_filter.mp hj
          have := h3 j hj1
          simp only [gnames, List.map_cons, List.mem_cons] at this
          rcases this with h | h
          · simp [h] at hj2
          · exact h
      have hk' : (k.kind == s) = false := by simpa using (fun h : k.kind = s => hk h.symm)
      have := ih (pre.filter (fun j => !(j.kind == s))) hrest
      obtain ⟨i1, i2, i3⟩ := this
      have hnames : ∀ x, x ∈ gnames (insertGroup k rest) → x = k.kind ∨ x ∈ gnames rest := by
        intro x hx
        obtain ⟨e, he, rfl⟩ := List.mem_map.mp hx
        obtain ⟨e1, e2⟩ := i2 e he
        obtain ⟨y, hy⟩ := List.exists_mem_of_ne_nil _ e2
        rw [e1] at hy
        obtain ⟨hy1, hy2⟩ := List.mem_filter.mp hy
        have hyk : y.kind = e.1 := by simpa using hy2
        rcases List.mem_append.mp hy1 with h | h
        · right
          have := hrest.2.2 y h
          rw [hyk] at this; exact this
        · simp at h; subst h; left; exact hyk.symm
      refine ⟨?_, ?_, ?_⟩
      · show (s :: gnames (insertGroup k rest)).Nodup
        refine List.nodup_cons.mpr ⟨?_, i1⟩
        intro hm
        rcases hnames s hm with h | h
        · exact hk h
        · exact hs h
      · intro e he
        rcases List.mem_cons.mp he with rfl | he'
        · obtain ⟨e1, e2⟩ := h2 (s, g) List.mem_cons_self
          simp only at e1 e2 ⊢
          rw [filter_snoc, hk']; simp [← e1, e2]
        · obtain ⟨e1, e2⟩ := i2 e he'
          refine ⟨?_, e2⟩
          have hne : ¬ e.1 = s := by
            intro h
            have : e.1 ∈ gnames (insertGroup k rest) := List.mem_map.mpr ⟨e, he', rfl⟩
            rcases hnames e.1 this with h' | h'
            · exact hk (h.symm.trans h')
            · exact hs (h ▸ h')
          rw [e1, filter_snoc, filter_snoc, List.filter_filter]
          congr 1
          apply List.filter_congr
          intro j _
          by_cases hj : j.kind = e.1
          · have : ¬ j.kind = s := by rw [hj]; exact hne
            simp [hj, hne]
          · simp [hj]
      · intro j hj
        show j.kind ∈ s :: gnames (insertGroup k rest)
        by_cases hjs : j.kind = s
        · simp [hjs]
        · refine List.mem_cons_of_mem _ (i3 j ?_)
          rcases List.mem_append.mp hj with h | h
          · exact List.mem_append_left _ (List.mem_filter.mpr ⟨h, by simpa using hjs⟩)
          · exact List.mem_append_right _ h

theorem foldl_insertGroup_inv (ks pre : List Key) (G : List (String × List Key)) (h : GroupInv G pre) :
    GroupInv (ks.foldl (fun acc k => insertGroup k acc) G) (pre ++ ks) := by
  induction ks generalizing pre G with
  | nil => simpa using h
  | cons k ks ih =>
    simp only [List.foldl_cons]
    have := ih (pre ++ [k]) (insertGroup k G) (insertGroup_inv k pre G h)
    simpa using this

theorem groupByKind_inv (keys : List Key) : GroupInv (groupByKind keys) keys := by
  have := foldl_insertGroup_inv keys [] [] ⟨(by simp [gnames]), (fun e he => by cases he), (fun k hk => by cases hk)⟩
  simpa [groupByKind] using this

theorem pick_groups (G : List (String × List Key)) (hnd : (gnames G).Nodup)
    (hk : ∀ e, e ∈ G → ∀ k, k ∈ e.2 → k.kind = e.1) :
    ∀ t, pickOne t (G.map (fun g => none :: g.2.map some)) →
      (∀ k, k ∈ t.filterMap id → ∃ e, e ∈ G ∧ k ∈ e.2) ∧
      (t.filterMap id).Pairwise (fun a b => a.kind ≠ b.kind) := by
  induction G with
  | nil => intro t ht; cases t <;> simp_all [pickOne]
  | cons e rest ih =>
    intro t ht
    cases t with
    | nil => simp [pickOne] at ht
    | cons a t' =>
      simp only [List.map_cons, pickOne] at ht
      obtain ⟨ha, ht'⟩ := ht
      have hs : e.1 ∉ gnames rest := (List.nodup_cons.mp hnd).1
      obtain ⟨i1, i2⟩ := ih (List.nodup_cons.mp hnd).2 (fun e' he' => hk e' (List.mem_cons_of_mem _ he')) t' ht'
      cases a with
      | none =>
        simp only [List.filterMap_cons, id]
        exact ⟨fun k hk' => by obtain ⟨e', he', h⟩ := i1 k hk'; exact ⟨e', List.mem_cons_of_mem _ he', h⟩, i2⟩
      | some k0 =>
        have hk0 : k0 ∈ e.2 := by simpa using ha
        simp only [List.filterMap_cons, id]
        refine ⟨?_, ?_⟩
        · intro k hk'
          rcases List.mem_cons.mp hk' with rfl | hk''
          · exact ⟨e, List.mem_cons_self, hk0⟩
          · obtain ⟨e', he', h⟩ := i1 k hk''; exact ⟨e', List.mem_cons_of_mem _ he', h⟩
        · rw [List.pairwise_cons]
          refine ⟨?_, i2⟩
          intro b hb heq
          obtain ⟨e', he', hbe⟩ := i1 b hb
          have h1 := hk e List.mem_cons_self k0 hk0
          have h2 := hk e' (List.mem_cons_of_mem _ he') b hbe
          apply hs
          rw [← h1, heq, h2]
          exact List.mem_map.mpr ⟨e', he', rfl⟩


end Pharmpy.C18
