import PharmpyProofs.C18.LetLemmas
/-
  C18 — LET definitions and @references (clause "forall MFL strings generated from the grammar (… LET references)":
  the space a description with references parses to is the space of the explicit, reference-free description).
  Property theorems only; all universally quantified over the statement list (any length), every spelling of
  every variable name (any `String`) and every model environment.
-/
namespace Pharmpy.C18

/-- **A reference denotes its definition, whatever the spelling of the name.**  If the description defines the
    variable `name` (the last `LET(name, v)` of exactly that spelling), then `@name` in a COVARIATE statement is
    interpreted as the upper-cased values `v` — for every string `name`, every statement list, every model. -/

theorem let_reference_denotes_its_definition (env : Env) (ts : List LStmt) (name : String) (v wild : List String)
    (h : lookupDef ts name = some v) :
    symVals env (interpret ts) wild (interpSym (.ref name)) = v.map upper := by
  simp [interpSym, symVals, lookupDef_interpret, h]

/-- **The expanded feature combinations of a description with LET references are exactly those of the explicit
    description** (references replaced by the defining values, LETs dropped): same keys, same order. -/

theorem let_expansion_eq_explicit (env : Env) (ts : List LStmt) :
    covKeys env (interpret ts) = covKeys env (interpret (explicit ts)) := by
  unfold covKeys
  rw [covsOf_explicit, covsOf_interpret, List.flatMap_map, List.flatMap_map]
  congr 1
  funext c
  simp only [covKeysOf, interpCov]
  rw [← symVals_explicit, ← symVals_explicit]
  rfl

/-- **The search space object holds the explicit statements**: `_let_subs` turns the parsed COVARIATE statements
    into exactly the COVARIATE statements of the explicit description. -/

theorem let_subs_eq_explicit (ts : List LStmt) :
    letSubs (interpret ts) = covsOf (interpret (explicit ts)) := by
  rw [covsOf_explicit, letSubs, covsOf_interpret, List.map_map]
  apply List.map_congr_left
  intro c _
  have hs : ∀ s, letSubsSym (interpret ts) (interpSym s) = interpSym (explicitSym ts s) := by
    intro s
    cases s with
    | vals l => simp [interpSym, explicitSym, letSubsSym]
    | wild => simp [interpSym, explicitSym, letSubsSym]
    | ref name =>
      cases h : lookupDef ts name <;> simp [interpSym, explicitSym, letSubsSym, lookupDef_interpret, h]
  simp [interpCov, hs]

/-- After `_let_subs` no reference to a defined variable is left in the search space. -/

theorem let_subs_leaves_no_defined_reference (ts : List LStmt) (c : Cov) (hc : c ∈ letSubs (interpret ts))
    (name : String) (h : c.parameter = .ref name ∨ c.covariate = .ref name) : defined ts name = false := by
  simp only [letSubs, covsOf_interpret, List.mem_map] at hc
  obtain ⟨c0, ⟨c1, _, rfl⟩, rfl⟩ := hc
  have key : ∀ s, letSubsSym (interpret ts) (interpSym s) = .ref name → defined ts name = false := by
    intro s hs
    cases s with
    | vals l => simp [interpSym, letSubsSym] at hs
    | wild => simp [interpSym, letSubsSym] at hs
    | ref n =>
      cases hl : lookupDef ts n with
      | some v => simp [interpSym, letSubsSym, lookupDef_interpret, hl] at hs
      | none =>
        simp [interpSym, letSubsSym, lookupDef_interpret, hl] at hs
        subst hs
        simp [defined, hl]
  rcases h with h | h
  · exact key _ (by simpa [interpCov] using h)
  · exact key _ (by simpa [interpCov] using h)

/-- **The expansion of one COVARIATE statement is the cartesian product** parameters x covariates x effects,
    with the ADD key always and the REMOVE key exactly for an optional effect. -/

theorem cov_keys_are_the_product (env : Env) (ss : List LStmt) (c : Cov) (k : Key) :
    k ∈ covKeysOf env ss c ↔
      ∃ p ∈ symVals env ss env.params c.parameter, ∃ cv ∈ symVals env ss env.covs c.covariate,
        ∃ f ∈ (match c.fp with | none => allContinuous | some l => l.map lower),
          k = ["COVARIATE", p, cv, f, c.op, "ADD"] ∨ (c.optional = true ∧ k = ["COVARIATE", p, cv, f, c.op, "REMOVE"]) := by
  simp only [covKeysOf, List.mem_flatMap, List.mem_append, List.mem_singleton]
  constructor
  · rintro ⟨p, hp, cv, hcv, f, hf, h⟩
    refine ⟨p, hp, cv, hcv, f, hf, ?_⟩
    rcases h with h | h
    · by_cases ho : c.optional = true
      · simp [ho] at h; exact Or.inr ⟨ho, h⟩
      · simp [ho] at h
    · exact Or.inl h
  · rintro ⟨p, hp, cv, hcv, f, hf, h⟩
    refine ⟨p, hp, cv, hcv, f, hf, ?_⟩
    rcases h with h | ⟨ho, h⟩
    · exact Or.inr h
    · exact Or.inl (by simp [ho, h])

/-- non-vacuity: a lower-case variable name, resolved on both sides of a COVARIATE statement -/

example :
    covKeys Env.empty (interpret [.letDef "cont" ["wt", "AGE"], .letDef "P" ["cl"],
      .cov ⟨.ref "P", .ref "cont", some ["Exp"], "*", false⟩])
      = [["COVARIATE", "CL", "WT", "exp", "*", "ADD"], ["COVARIATE", "CL", "AGE", "exp", "*", "ADD"]] := by
  decide +kernel

end Pharmpy.C18
