import PharmpyProofs.C18.Lemmas
namespace Pharmpy.C18
theorem placeholder_bell : (rawPartitions [0,1,2,3]).length = 15 := by decide
end Pharmpy.C18
