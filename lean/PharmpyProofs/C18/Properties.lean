import PharmpyProofs.C18.Lemmas
/-
  C18 — Search spaces are parsed, combined and enumerated exactly.  Property theorems only.

  Part 1: `partitions` (internals/set/partitions.py) enumerates every set partition of a
  duplicate-free list exactly once, for every length; their number is the Bell number.
  A set partition is identified with the equivalence relation "in a common block" (`Rel`).
-/
namespace Pharmpy.C18

/-! ## partitions.py: the generator `_partitions` -/

/-- Everything `_partitions` yields is a set partition of the input: non-empty blocks
    whose concatenation is a permutation of the input. -/
theorem raw_partitions_are_partitions {α : Type} (l : List α) :
    ∀ P, P ∈ rawPartitions l → IsPartition l P := by
  intro P hP
  have h := partsRev_isPartition l.reverse P hP
  exact ⟨h.1, h.2.trans (List.reverse_perm l)⟩

/-- Completeness: every equivalence relation on the elements (= every set partition)
    is the block relation of one of the yielded partitions. -/
theorem raw_partitions_complete {α : Type} (l : List α) (hl : l.Nodup)
    (R : α → α → Prop) (hR : Equivalence R) :
    ∃ P, P ∈ rawPartitions l ∧ ∀ a, a ∈ l → ∀ b, b ∈ l → (Rel P a b ↔ R a b) := by
  obtain ⟨P, hP, h⟩ := partsRev_complete l.reverse ((List.reverse_perm l).nodup_iff.mpr hl) R hR
  exact ⟨P, hP, fun a ha b hb => h a (List.mem_reverse.mpr ha) b (List.mem_reverse.mpr hb)⟩

/-- No duplicates: two different positions of the output never describe the same set
    partition (they differ on some pair of elements). -/
theorem raw_partitions_distinct {α : Type} (l : List α) (hl : l.Nodup) :
    (rawPartitions l).Pairwise (Differ l) := by
  refine (partsRev_pairwise_differ l.reverse ((List.reverse_perm l).nodup_iff.mpr hl)).imp ?_
  rintro P Q ⟨a, ha, b, hb, h⟩
  exact ⟨a, List.mem_reverse.mp ha, b, List.mem_reverse.mp hb, h⟩

/-- The number of yielded partitions with exactly `k` blocks is the Stirling number of the
    second kind, for every list (duplicate-free or not). -/
theorem raw_partitions_count_stirling {α : Type} (l : List α) (k : Nat) :
    (rawPartitions l).countP (fun P => P.length == k) = stirling2 l.length k := by
  unfold rawPartitions
  rw [partsRev_count, List.length_reverse]

/-- `|partitions| = Bell(n)` for every `n`. -/
theorem raw_partitions_count_bell {α : Type} (l : List α) :
    (rawPartitions l).length = bell l.length := by
  unfold rawPartitions
  rw [partsRev_length, List.length_reverse]

example : (List.range 8).map bell = [1, 1, 2, 5, 15, 52, 203, 877] := by decide

/-! ## partitions.py: the public `partitions` (canonical form and documented order) -/

theorem partitions_perm (l : List Nat) :
    (partitions l).Perm ((rawPartitions l).map shortlexSorted) :=
  List.mergeSort_perm _ _

theorem shortlexSorted_perm (P : List (List Nat)) : (shortlexSorted P).Perm P :=
  List.mergeSort_perm _ _

/-- Every element of `partitions l` is a set partition of `l`. -/
theorem partitions_are_partitions (l : List Nat) :
    ∀ P, P ∈ partitions l → IsPartition l P := by
  intro P hP
  have hP' := (partitions_perm l).mem_iff.mp hP
  obtain ⟨Q, hQ, rfl⟩ := List.mem_map.mp hP'
  have h := raw_partitions_are_partitions l Q hQ
  have hp := shortlexSorted_perm Q
  exact ⟨fun p hp' => h.1 p (hp.mem_iff.mp hp'), hp.flatten.trans h.2⟩

/-- `partitions` enumerates every set partition of a duplicate-free list … -/
theorem partitions_complete (l : List Nat) (hl : l.Nodup) (R : Nat → Nat → Prop) (hR : Equivalence R) :
    ∃ P, P ∈ partitions l ∧ ∀ a, a ∈ l → ∀ b, b ∈ l → (Rel P a b ↔ R a b) := by
  obtain ⟨Q, hQ, h⟩ := raw_partitions_complete l hl R hR
  refine ⟨shortlexSorted Q, (partitions_perm l).mem_iff.mpr (List.mem_map.mpr ⟨Q, hQ, rfl⟩), ?_⟩
  intro a ha b hb
  rw [rel_of_perm (shortlexSorted_perm Q)]
  exact h a ha b hb

/-- … exactly once. -/
theorem partitions_distinct (l : List Nat) (hl : l.Nodup) :
    (partitions l).Pairwise (Differ l) := by
  have h1 : ((rawPartitions l).map shortlexSorted).Pairwise (Differ l) := by
    rw [List.pairwise_map]
    refine (raw_partitions_distinct l hl).imp ?_
    rintro P Q ⟨a, ha, b, hb, h⟩
    refine ⟨a, ha, b, hb, ?_⟩
    rw [rel_of_perm (shortlexSorted_perm P), rel_of_perm (shortlexSorted_perm Q)]
    exact h
  refine (partitions_perm l).symm.pairwise h1 ?_
  rintro P Q ⟨a, ha, b, hb, h⟩
  exact ⟨a, ha, b, hb, fun h' => h h'.symm⟩

/-- In particular the output list has no repeated entry. -/
theorem partitions_nodup (l : List Nat) (hl : l.Nodup) : (partitions l).Nodup := by
  refine (partitions_distinct l hl).imp ?_
  rintro P Q ⟨a, _, b, _, h⟩ rfl
  exact h Iff.rfl

/-- `|partitions(l)| = Bell(len(l))`. -/
theorem partitions_count_bell (l : List Nat) : (partitions l).length = bell l.length := by
  rw [(partitions_perm l).length_eq, List.length_map, raw_partitions_count_bell]

/-! ## subsets.py -/

/-- `itertools.combinations(l, r)` as used by `subsets`: exactly the sub-lists (in position
    order) of length `r` … -/
theorem combinations_spec {α : Type} (r : Nat) (l s : List α) :
    s ∈ combs r l ↔ s.Sublist l ∧ s.length = r := combs_mem_iff r l s

/-- … each once … -/
theorem combinations_nodup {α : Type} (r : Nat) (l : List α) (hl : l.Nodup) : (combs r l).Nodup :=
  combs_nodup r l hl

/-- … `C(n, r)` of them. -/
theorem combinations_count {α : Type} (r : Nat) (l : List α) :
    (combs r l).length = choose l.length r := combs_length_choose r l

/-- `subsets(l, a, b)` for `0 ≤ a`, `0 ≤ b`: it does not raise, and yields exactly the
    sub-lists of `l` whose length is in `[a, b]`, each once. -/
theorem subsets_spec {α : Type} (l : List α) (a b : Nat) :
    ∃ L, subsets l (a : Int) (b : Int) = .ok L ∧
      (∀ s, s ∈ L ↔ s.Sublist l ∧ a ≤ s.length ∧ s.length ≤ b) ∧ (l.Nodup → L.Nodup) :=
  ⟨subsetsL l a b, subsets_eq l a b, fun s => mem_subsetsL l s a b, subsetsL_nodup l a b⟩

/-- A negative `max_size` is relative to the length: `-1 - k` means `len(l) - k`. -/
theorem subsets_relative_max {α : Type} (l : List α) (a k : Nat) (hk : k ≤ l.length) :
    subsets l (a : Int) (-1 - (k : Int)) = .ok (subsetsL l a (l.length - k)) :=
  subsets_core l a (l.length - k) (-1 - (k : Int)) (by
    have : (-1 - (k : Int)) < 0 := by omega
    simp only [this, if_true]; omega)

/-- A requested negative size reaches `itertools.combinations` and raises `ValueError`. -/
theorem subsets_negative_min_raises {α : Type} (l : List α) (a : Nat) (b : Nat) :
    subsets l (-(a : Int) - 1) (b : Int) = .error .valueError := by
  unfold subsets intRange
  have h1 : ¬ ((b : Int) < 0) := by omega
  simp only [h1, if_false]
  have : ((b : Int) + 1 - (-(a : Int) - 1)).toNat = (b + a + 1) + 1 := by omega
  rw [this, List.range_succ_eq_map]
  simp
  omega

/-- `non_empty_subsets(l)`: never raises; exactly the non-empty sub-lists of `l`, each once;
    `2^n - 1` of them. -/
theorem non_empty_subsets_spec {α : Type} (l : List α) :
    ∃ L, nonEmptySubsets l = .ok L ∧
      (∀ s, s ∈ L ↔ s.Sublist l ∧ s ≠ []) ∧ (l.Nodup → L.Nodup) ∧ L.length = 2 ^ l.length - 1 := by
  refine ⟨subsetsL l 1 l.length, nonEmptySubsets_eq l, ?_, subsetsL_nodup l 1 l.length, ?_⟩
  · intro s
    rw [mem_subsetsL]
    constructor
    · rintro ⟨hs, h1, _⟩
      exact ⟨hs, by intro h; simp [h] at h1⟩
    · rintro ⟨hs, hne⟩
      refine ⟨hs, ?_, hs.length_le⟩
      cases s with
      | nil => exact absurd rfl hne
      | cons _ _ => simp
  · unfold subsetsL
    rw [List.length_flatMap]
    have hpow := sumTo_combs l l.length (Nat.le_refl _)
    cases hn : l.length with
    | zero => simp
    | succ m =>
      rw [hn] at hpow
      have hs := sumTo_shift (fun r => (combs r l).length) m
      rw [hpow] at hs
      simp only [combs, List.length_singleton] at hs
      have e : m + 1 + 1 - 1 = m + 1 := by omega
      rw [e, sum_range_eq_sumTo]
      have : sumTo (fun i => (combs (1 + i) l).length) m = sumTo (fun r => (combs (r + 1) l).length) m := by
        apply sumTo_congr; intro r _; rw [Nat.add_comm]
      rw [this]
      have hc : (combs 0 l).length = 1 := by cases l <;> simp [combs]
      omega

/-- `non_empty_proper_subsets(l)`: the non-empty sub-lists other than `l` itself. -/
theorem non_empty_proper_subsets_spec {α : Type} (l : List α) (hl : l ≠ []) :
    ∃ L, nonEmptyProperSubsets l = .ok L ∧
      (∀ s, s ∈ L ↔ s.Sublist l ∧ s ≠ [] ∧ s ≠ l) ∧ (l.Nodup → L.Nodup) := by
  have hlen : 1 ≤ l.length := by cases l with
    | nil => exact absurd rfl hl
    | cons _ _ => simp
  refine ⟨subsetsL l 1 (l.length - 1), ?_, ?_, subsetsL_nodup l 1 (l.length - 1)⟩
  · have := subsets_relative_max l 1 1 hlen
    simpa [nonEmptyProperSubsets] using this
  · intro s
    rw [mem_subsetsL]
    constructor
    · rintro ⟨hs, h1, h2⟩
      refine ⟨hs, by intro h; simp [h] at h1, ?_⟩
      rintro rfl; omega
    · rintro ⟨hs, hne, hnl⟩
      refine ⟨hs, ?_, ?_⟩
      · cases s with
        | nil => exact absurd rfl hne
        | cons _ _ => simp
      · have := hs.length_le
        by_cases h : s.length = l.length
        · exact absurd (hs.eq_of_length h) hnl
        · omega

end Pharmpy.C18
