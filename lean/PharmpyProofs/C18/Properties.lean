import PharmpyProofs.C18.Lemmas
/-
  C18 — Search spaces are parsed, combined and enumerated exactly.  Property theorems only.

  Part 1: `partitions` (internals/set/partitions.py) enumerates every set partition of a
  duplicate-free list exactly once, for every length; their number is the Bell number.
  A set partition is identified with the equivalence relation "in a common block" (`Rel`).
-/
namespace Pharmpy.C18

/-! ## partitions.py: the generator `_partitions` -/

/-- Everything `_partitions` yields is a set partition of the input: non-empty blocks
    whose concatenation is a permutation of the input. -/
theorem raw_partitions_are_partitions {α : Type} (l : List α) :
    ∀ P, P ∈ rawPartitions l → IsPartition l P := by
  intro P hP
  have h := partsRev_isPartition l.reverse P hP
  exact ⟨h.1, h.2.trans (List.reverse_perm l)⟩

/-- Completeness: every equivalence relation on the elements (= every set partition)
    is the block relation of one of the yielded partitions. -/
theorem raw_partitions_complete {α : Type} (l : List α) (hl : l.Nodup)
    (R : α → α → Prop) (hR : Equivalence R) :
    ∃ P, P ∈ rawPartitions l ∧ ∀ a, a ∈ l → ∀ b, b ∈ l → (Rel P a b ↔ R a b) := by
  obtain ⟨P, hP, h⟩ := partsRev_complete l.reverse ((List.reverse_perm l).nodup_iff.mpr hl) R hR
  exact ⟨P, hP, fun a ha b hb => h a (List.mem_reverse.mpr ha) b (List.mem_reverse.mpr hb)⟩

/-- No duplicates: two different positions of the output never describe the same set
    partition (they differ on some pair of elements). -/
theorem raw_partitions_distinct {α : Type} (l : List α) (hl : l.Nodup) :
    (rawPartitions l).Pairwise (Differ l) := by
  refine (partsRev_pairwise_differ l.reverse ((List.reverse_perm l).nodup_iff.mpr hl)).imp ?_
  rintro P Q ⟨a, ha, b, hb, h⟩
  exact ⟨a, List.mem_reverse.mp ha, b, List.mem_reverse.mp hb, h⟩

/-- The number of yielded partitions with exactly `k` blocks is the Stirling number of the
    second kind, for every list (duplicate-free or not). -/
theorem raw_partitions_count_stirling {α : Type} (l : List α) (k : Nat) :
    (rawPartitions l).countP (fun P => P.length == k) = stirling2 l.length k := by
  unfold rawPartitions
  rw [partsRev_count, List.length_reverse]

/-- `|partitions| = Bell(n)` for every `n`. -/
theorem raw_partitions_count_bell {α : Type} (l : List α) :
    (rawPartitions l).length = bell l.length := by
  unfold rawPartitions
  rw [partsRev_length, List.length_reverse]

example : (List.range 8).map bell = [1, 1, 2, 5, 15, 52, 203, 877] := by decide

/-! ## partitions.py: the public `partitions` (canonical form and documented order) -/

theorem partitions_perm (l : List Nat) :
    (partitions l).Perm ((rawPartitions l).map shortlexSorted) :=
  List.mergeSort_perm _ _

theorem shortlexSorted_perm (P : List (List Nat)) : (shortlexSorted P).Perm P :=
  List.mergeSort_perm _ _

/-- Every element of `partitions l` is a set partition of `l`. -/
theorem partitions_are_partitions (l : List Nat) :
    ∀ P, P ∈ partitions l → IsPartition l P := by
  intro P hP
  have hP' := (partitions_perm l).mem_iff.mp hP
  obtain ⟨Q, hQ, rfl⟩ := List.mem_map.mp hP'
  have h := raw_partitions_are_partitions l Q hQ
  have hp := shortlexSorted_perm Q
  exact ⟨fun p hp' => h.1 p (hp.mem_iff.mp hp'), hp.flatten.trans h.2⟩

/-- `partitions` enumerates every set partition of a duplicate-free list … -/
theorem partitions_complete (l : List Nat) (hl : l.Nodup) (R : Nat → Nat → Prop) (hR : Equivalence R) :
    ∃ P, P ∈ partitions l ∧ ∀ a, a ∈ l → ∀ b, b ∈ l → (Rel P a b ↔ R a b) := by
  obtain ⟨Q, hQ, h⟩ := raw_partitions_complete l hl R hR
  refine ⟨shortlexSorted Q, (partitions_perm l).mem_iff.mpr (List.mem_map.mpr ⟨Q, hQ, rfl⟩), ?_⟩
  intro a ha b hb
  rw [rel_of_perm (shortlexSorted_perm Q)]
  exact h a ha b hb

/-- … exactly once. -/
theorem partitions_distinct (l : List Nat) (hl : l.Nodup) :
    (partitions l).Pairwise (Differ l) := by
  have h1 : ((rawPartitions l).map shortlexSorted).Pairwise (Differ l) := by
    rw [List.pairwise_map]
    refine (raw_partitions_distinct l hl).imp ?_
    rintro P Q ⟨a, ha, b, hb, h⟩
    refine ⟨a, ha, b, hb, ?_⟩
    rw [rel_of_perm (shortlexSorted_perm P), rel_of_perm (shortlexSorted_perm Q)]
    exact h
  refine (partitions_perm l).symm.pairwise h1 ?_
  rintro P Q ⟨a, ha, b, hb, h⟩
  exact ⟨a, ha, b, hb, fun h' => h h'.symm⟩

/-- In particular the output list has no repeated entry. -/
theorem partitions_nodup (l : List Nat) (hl : l.Nodup) : (partitions l).Nodup := by
  refine (partitions_distinct l hl).imp ?_
  rintro P Q ⟨a, _, b, _, h⟩ rfl
  exact h Iff.rfl

/-- `|partitions(l)| = Bell(len(l))`. -/
theorem partitions_count_bell (l : List Nat) : (partitions l).length = bell l.length := by
  rw [(partitions_perm l).length_eq, List.length_map, raw_partitions_count_bell]

/-! ## subsets.py -/

/-- `itertools.combinations(l, r)` as used by `subsets`: exactly the sub-lists (in position
    order) of length `r` … -/
theorem combinations_spec {α : Type} (r : Nat) (l s : List α) :
    s ∈ combs r l ↔ s.Sublist l ∧ s.length = r := combs_mem_iff r l s

/-- … each once … -/
theorem combinations_nodup {α : Type} (r : Nat) (l : List α) (hl : l.Nodup) : (combs r l).Nodup :=
  combs_nodup r l hl

/-- … `C(n, r)` of them. -/
theorem combinations_count {α : Type} (r : Nat) (l : List α) :
    (combs r l).length = choose l.length r := combs_length_choose r l

/-- `subsets(l, a, b)` for `0 ≤ a`, `0 ≤ b`: it does not raise, and yields exactly the
    sub-lists of `l` whose length is in `[a, b]`, each once. -/
theorem subsets_spec {α : Type} (l : List α) (a b : Nat) :
    ∃ L, subsets l (a : Int) (b : Int) = .ok L ∧
      (∀ s, s ∈ L ↔ s.Sublist l ∧ a ≤ s.length ∧ s.length ≤ b) ∧ (l.Nodup → L.Nodup) :=
  ⟨subsetsL l a b, subsets_eq l a b, fun s => mem_subsetsL l s a b, subsetsL_nodup l a b⟩

/-- A negative `max_size` is relative to the length: `-1 - k` means `len(l) - k`. -/
theorem subsets_relative_max {α : Type} (l : List α) (a k : Nat) (hk : k ≤ l.length) :
    subsets l (a : Int) (-1 - (k : Int)) = .ok (subsetsL l a (l.length - k)) :=
  subsets_core l a (l.length - k) (-1 - (k : Int)) (by
    have : (-1 - (k : Int)) < 0 := by omega
    simp only [this, if_true]; omega)

/-- A requested negative size reaches `itertools.combinations` and raises `ValueError`. -/
theorem subsets_negative_min_raises {α : Type} (l : List α) (a : Nat) (b : Nat) :
    subsets l (-(a : Int) - 1) (b : Int) = .error .valueError := by
  unfold subsets intRange
  have h1 : ¬ ((b : Int) < 0) := by omega
  simp only [h1, if_false]
  have : ((b : Int) + 1 - (-(a : Int) - 1)).toNat = (b + a + 1) + 1 := by omega
  rw [this, List.range_succ_eq_map]
  simp
  omega

/-- `non_empty_subsets(l)`: never raises; exactly the non-empty sub-lists of `l`, each once;
    `2^n - 1` of them. -/
theorem non_empty_subsets_spec {α : Type} (l : List α) :
    ∃ L, nonEmptySubsets l = .ok L ∧
      (∀ s, s ∈ L ↔ s.Sublist l ∧ s ≠ []) ∧ (l.Nodup → L.Nodup) ∧ L.length = 2 ^ l.length - 1 := by
  refine ⟨subsetsL l 1 l.length, nonEmptySubsets_eq l, ?_, subsetsL_nodup l 1 l.length, ?_⟩
  · intro s
    rw [mem_subsetsL]
    constructor
    · rintro ⟨hs, h1, _⟩
      exact ⟨hs, by intro h; simp [h] at h1⟩
    · rintro ⟨hs, hne⟩
      refine ⟨hs, ?_, hs.length_le⟩
      cases s with
      | nil => exact absurd rfl hne
      | cons _ _ => simp
  · unfold subsetsL
    rw [List.length_flatMap]
    have hpow := sumTo_combs l l.length (Nat.le_refl _)
    cases hn : l.length with
    | zero => simp
    | succ m =>
      rw [hn] at hpow
      have hs := sumTo_shift (fun r => (combs r l).length) m
      rw [hpow] at hs
      simp only [combs, List.length_singleton] at hs
      have e : m + 1 + 1 - 1 = m + 1 := by omega
      rw [e, sum_range_eq_sumTo]
      have : sumTo (fun i => (combs (1 + i) l).length) m = sumTo (fun r => (combs (r + 1) l).length) m := by
        apply sumTo_congr; intro r _; rw [Nat.add_comm]
      rw [this]
      have hc : (combs 0 l).length = 1 := by cases l <;> simp [combs]
      omega

/-- `non_empty_proper_subsets(l)`: the non-empty sub-lists other than `l` itself. -/
theorem non_empty_proper_subsets_spec {α : Type} (l : List α) (hl : l ≠ []) :
    ∃ L, nonEmptyProperSubsets l = .ok L ∧
      (∀ s, s ∈ L ↔ s.Sublist l ∧ s ≠ [] ∧ s ≠ l) ∧ (l.Nodup → L.Nodup) := by
  have hlen : 1 ≤ l.length := by cases l with
    | nil => exact absurd rfl hl
    | cons _ _ => simp
  refine ⟨subsetsL l 1 (l.length - 1), ?_, ?_, subsetsL_nodup l 1 (l.length - 1)⟩
  · have := subsets_relative_max l 1 1 hlen
    simpa [nonEmptyProperSubsets] using this
  · intro s
    rw [mem_subsetsL]
    constructor
    · rintro ⟨hs, h1, h2⟩
      refine ⟨hs, by intro h; simp [h] at h1, ?_⟩
      rintro rfl; omega
    · rintro ⟨hs, hne, hnl⟩
      refine ⟨hs, ?_, ?_⟩
      · cases s with
        | nil => exact absurd rfl hne
        | cons _ _ => simp
      · have := hs.length_le
        by_cases h : s.length = l.length
        · exact absurd (hs.eq_of_length h) hnl
        · omega

/-! ## iivsearch: brute-force block structures -/

/-- `td_exhaustive_block_structure` drops nothing but the current block structure: every set
    partition of the etas whose block relation differs from the current one is a candidate … -/
theorem block_structures_all_but_current (etas : List Nat) (hl : etas.Nodup) (current : List (List Nat))
    (hc : IsPartition etas current) (R : Nat → Nat → Prop) (hR : Equivalence R)
    (hdiff : ∃ a, a ∈ etas ∧ ∃ b, b ∈ etas ∧ ¬ (R a b ↔ Rel current a b)) :
    ∃ P, P ∈ blockStructureCandidates etas current ∧ ∀ a, a ∈ etas → ∀ b, b ∈ etas → (Rel P a b ↔ R a b) := by
  obtain ⟨P, hP, hrel⟩ := partitions_complete etas hl R hR
  refine ⟨P, ?_, hrel⟩
  simp only [blockStructureCandidates, List.mem_filter, hP, true_and, Bool.not_eq_true', isRvBlockStructure]
  cases hall : current.all (P.contains ·) with
  | false => rfl
  | true =>
    exfalso
    rw [List.all_eq_true] at hall
    have hsub : ∀ c, c ∈ current → c ∈ P := fun c hc' => List.contains_iff_mem.mp (hall c hc')
    have hPpart := partitions_are_partitions etas P hP
    have hPnd : P.flatten.Nodup := hPpart.2.nodup_iff.mpr hl
    obtain ⟨a, ha, b, hb, hne⟩ := hdiff
    apply hne
    rw [← hrel a ha b hb]
    constructor
    · rintro ⟨q, hq, haq, hbq⟩
      -- the block of `current` containing `a` is a block of `P`, hence it is `q`
      obtain ⟨c, hc', hac⟩ := List.mem_flatten.mp (hc.2.mem_iff.mpr ha)
      have := block_unique P hPnd c q (hsub c hc') hq a hac haq
      subst this
      exact ⟨c, hc', hac, hbq⟩
    · rintro ⟨c, hc', hac, hbc⟩
      exact ⟨c, hsub c hc', hac, hbc⟩

/-- … the candidates are distinct set partitions, and the current structure is not among them. -/
theorem block_structures_distinct_without_current (etas : List Nat) (hl : etas.Nodup) (current : List (List Nat)) :
    (blockStructureCandidates etas current).Pairwise (Differ etas) ∧
      (∀ P, P ∈ blockStructureCandidates etas current → IsPartition etas P) ∧
      current ∉ blockStructureCandidates etas current := by
  refine ⟨(partitions_distinct etas hl).sublist List.filter_sublist, ?_, ?_⟩
  · intro P hP
    exact partitions_are_partitions etas P (List.mem_filter.mp hP).1
  · intro h
    have := (List.mem_filter.mp h).2
    simp [isRvBlockStructure] at this

/-! ## helpers._group_incompatible_features / all_combinations: the groups are the categories -/

/-- Whatever the key order of the function table (merged, updated, filtered tables): the group
    names are distinct, the group of a category is exactly the keys of that category (in table
    order, non-empty), and every key's category has a group. -/
theorem feature_groups_are_the_categories (keys : List Key) :
    ((groupByKind keys).map (·.1)).Nodup ∧
      (∀ e, e ∈ groupByKind keys → e.2 = keys.filter (fun k => k.kind == e.1) ∧ e.2 ≠ []) ∧
      (∀ k, k ∈ keys → k.kind ∈ (groupByKind keys).map (·.1)) :=
  groupByKind_inv keys

/-- The grouping does not depend on the key order: permuting the table permutes nothing but the
    order inside and between the groups. -/
theorem feature_groups_order_invariant (k1 k2 : List Key) (h : k1.Perm k2) :
    ∀ e1, e1 ∈ groupByKind k1 → ∃ e2, e2 ∈ groupByKind k2 ∧ e2.1 = e1.1 ∧ e1.2.Perm e2.2 := by
  intro e1 he1
  obtain ⟨_, a2, _⟩ := groupByKind_inv k1
  obtain ⟨_, b2, b3⟩ := groupByKind_inv k2
  obtain ⟨f1, n1⟩ := a2 e1 he1
  obtain ⟨y, hy⟩ := List.exists_mem_of_ne_nil _ n1
  rw [f1] at hy
  obtain ⟨hy1, hy2⟩ := List.mem_filter.mp hy
  have hyk : y.kind = e1.1 := by simpa using hy2
  have := b3 y (h.mem_iff.mp hy1)
  obtain ⟨e2, he2, hn⟩ := List.mem_map.mp this
  refine ⟨e2, he2, by rw [hn, hyk], ?_⟩
  rw [f1, (b2 e2 he2).1]
  have : e2.1 = e1.1 := by rw [hn, hyk]
  rw [this]
  exact h.filter _

/-- Every combination `all_combinations` / `exhaustive` yields is non-empty, uses keys of the table
    only and has at most one feature per category — for every key order of the table. -/
theorem all_combinations_one_per_category (keys : List Key) :
    ∀ c, c ∈ allCombinations keys →
      c ≠ [] ∧ (∀ k, k ∈ c → k ∈ keys) ∧ c.Pairwise (fun a b => a.kind ≠ b.kind) := by
  intro c hc
  simp only [allCombinations, List.mem_filter, List.mem_map] at hc
  obtain ⟨⟨t, ht, rfl⟩, hne⟩ := hc
  obtain ⟨g1, g2, _⟩ := groupByKind_inv keys
  have hkind : ∀ e, e ∈ groupByKind keys → ∀ k, k ∈ e.2 → k.kind = e.1 := by
    intro e he k hk
    rw [(g2 e he).1] at hk
    simpa using (List.mem_filter.mp hk).2
  obtain ⟨p1, p2⟩ := pick_groups (groupByKind keys) g1 hkind t ((mem_product _ t).mp ht)
  refine ⟨by intro h; simp [h] at hne, ?_, p2⟩
  intro k hk
  obtain ⟨e, he, hke⟩ := p1 k hk
  rw [(g2 e he).1] at hke
  exact (List.mem_filter.mp hke).1

/-! ## helpers.all_combinations / itertools.product -/

/-- `itertools.product(*gs)`: exactly the tuples taking one element of every list … -/
theorem product_spec {β : Type} (gs : List (List β)) (t : List β) : t ∈ product gs ↔ pickOne t gs :=
  mem_product gs t

/-- … each once, `∏ len(g)` of them. -/
theorem product_nodup_count {β : Type} (gs : List (List β)) :
    ((∀ g, g ∈ gs → g.Nodup) → (product gs).Nodup) ∧
      (product gs).length = (gs.map List.length).foldr (· * ·) 1 :=
  ⟨product_nodup gs, product_length gs⟩

/-! ## MFL statement classes (Absorption, Elimination, LagTime): `+`, `-`, `==` vs sets -/

/-- `a + b` on explicit mode tuples is the set union (for each of the three classes). -/
theorem stmt_add_is_union (k : ModeKind) (a b : List String) :
    ∃ r, modesAdd k (.names a) (.names b) = .ok (.names r) ∧ ∀ x, x ∈ r ↔ x ∈ a ∨ x ∈ b :=
  modesAdd_names k a b

/-- A wildcard operand gives the wildcard, whose expansion contains every valid mode. -/
theorem stmt_add_wildcard (k : ModeKind) (a b : Modes) (h : a.isWild = true ∨ b.isWild = true) :
    modesAdd k a b = .ok .wild := modesAdd_wild k a b h

/-- `a - b` on explicit mode tuples is the set difference; when that is empty the class default
    is re-inserted ("difference modulo defaults"). -/
theorem stmt_sub_is_difference_modulo_default (k : ModeKind) (a b : List String) :
    ∃ r, modesSub k (.names a) (.names b) = .ok (.names r) ∧
      ((∃ x, x ∈ a ∧ x ∉ b) → ∀ x, x ∈ r ↔ x ∈ a ∧ x ∉ b) ∧
      ((¬ ∃ x, x ∈ a ∧ x ∉ b) → r = [k.subDefault]) :=
  modesSub_names k a b

/-- `a == b` on explicit mode tuples is set equality. -/
theorem stmt_eq_is_set_equality (a b : List String) :
    ∃ r, modesEq (.names a) (.names b) = .ok r ∧ (r = true ↔ ∀ x, x ∈ a ↔ x ∈ b) :=
  modesEq_names a b

/-- `a - b` agrees with the set difference of the EXPANDED modes, modulo the class default, for all
    operands including wildcards (full statement, true since fix f9eda08; before, `x - *` stored a
    bare `Name`, for Elimination `INST`).  `a` is a wildcard or a tuple of grammatical mode names,
    `b` a wildcard or any tuple. -/
theorem stmt_sub_is_difference_full (k : ModeKind) (a b : Modes)
    (ha : a = .wild ∨ ∃ l, a = .names l) (hb : b = .wild ∨ ∃ l, b = .names l) (hva : a.valid k.wildcard = true) :
    ∃ r, modesSub k a b = .ok (.names r) ∧
      ((∃ x, x ∈ a.expand k.wildcard ∧ x ∉ b.expand k.wildcard) →
        ∀ x, x ∈ r ↔ x ∈ a.expand k.wildcard ∧ x ∉ b.expand k.wildcard) ∧
      ((¬ ∃ x, x ∈ a.expand k.wildcard ∧ x ∉ b.expand k.wildcard) → r = [k.subDefault]) := by
  rcases hb with rfl | ⟨bl, rfl⟩
  · refine ⟨[k.subDefault], modesSub_wild_rhs k a, ?_, fun _ => rfl⟩
    rintro ⟨x, hx, hnx⟩
    exact absurd (valid_expand_subset k.wildcard a hva ha x hx) hnx
  · rcases ha with rfl | ⟨al, rfl⟩
    · exact modesSub_wild_lhs k bl
    · exact modesSub_names k al bl

/-- in particular `x - *` is the class default as a 1-tuple, on which `len` works -/
theorem stmt_sub_wildcard_rhs (k : ModeKind) (a : Modes) :
    modesSub k a .wild = .ok (.names [k.subDefault]) ∧ Modes.len k (.names [k.subDefault]) = .ok 1 :=
  ⟨modesSub_wild_rhs k a, rfl⟩

/-- What remains false of the code with a wildcard operand: `==` raises (`set(self.modes)`). -/
theorem stmt_wildcard_witness :
    modesEq .wild (.names ["FO"]) = .error .typeError ∧
    modesSub eliminationKind (.names ["MM"]) .wild = .ok (.names ["FO"]) ∧
    ("FO" ∈ Gen.eliminationWildcard) := by
  decide +kernel

/-! ## ModelFeatures: deviations of the code from set semantics (concrete witnesses)

`atoms` is the explicit expansion of a search space.  Each statement below is checked by
evaluating the model, which the correspondence run ties to the code on the same inputs. -/

/-- `contain_subset` (after fix 87505a7), for EVERY tool value and every pair of search spaces on
    which it does not raise: it returns a `bool` (the model's result type), and the answer is `True`
    exactly when every atom of `b` outside TRANSITS (and, for modelsearch/None, outside the metabolite
    peripherals) is an atom of `a` and the transits test `_subset_transits` succeeds.  So it agrees
    with set inclusion on the structural part for every tool; the only remaining deviation is the
    transits test (next theorem). -/
theorem contain_subset_iff (a b : MF) (modelsearch v : Bool) (h : a.containSubset b modelsearch = .ok v) :
    v = true ↔
      (∀ x, x ∈ b.atoms → x.isTrans = false → (modelsearch = true → x.isMetPeri = false) → x ∈ a.atoms) ∧
        subsetTransits a b = .ok true := by
  obtain ⟨s, d, m, hp, rfl⟩ := containSubset_parts a b modelsearch v h
  obtain ⟨hs, hd, hm⟩ := containParts_spec a b s d m hp
  have hvalid : ∀ c md, Atom.peri c md ∈ b.atoms → md = "MET" ∨ md = "DRUG" := by
    intro c md hx
    unfold MF.containParts at hp
    simp only [bind, Except.bind] at hp
    split at hp
    · cases hp
    · split at hp
      · cases hp
      · split at hp
        · cases hp
        · rename_i r2 h2
          obtain ⟨v2, _, _⟩ := extractPeripherals_spec _ _ h2
          rw [mem_atoms_peri] at hx
          obtain ⟨p, hpm, _, hmd⟩ := hx
          obtain ⟨l, hl, hall⟩ := v2 p hpm
          rw [hl] at hmd
          exact hall md hmd
  have hne : ("DRUG" : String) ≠ "MET" := by decide
  constructor
  · intro hv
    simp only [Bool.and_eq_true, Bool.or_eq_true] at hv
    obtain ⟨⟨hs', hd'⟩, hm'⟩ := hv
    obtain ⟨sa, se, st, sl⟩ := hs.mp hs'
    refine ⟨?_, st⟩
    intro x hx hnt hmet
    cases x with
    | abs y => exact sa y hx
    | elim y => exact se y hx
    | lag y => exact sl y hx
    | trans c d => simp [Atom.isTrans] at hnt
    | peri c md =>
      rcases hvalid c md hx with rfl | rfl
      · rcases hm' with hms | hm''
        · have := hmet hms; simp [Atom.isMetPeri] at this
        · exact hm.mp hm'' c hx
      · exact hd.mp hd' c hx
  · rintro ⟨hall, st⟩
    have hs' : s = true := hs.mpr ⟨fun y hy => hall _ hy rfl (fun _ => rfl), fun y hy => hall _ hy rfl (fun _ => rfl), st,
      fun y hy => hall _ hy rfl (fun _ => rfl)⟩
    have hd' : d = true := hd.mpr (fun c hc => hall _ hc rfl (fun _ => by simp [Atom.isMetPeri, hne]))
    have hm' : modelsearch = true ∨ m = true := by
      cases modelsearch with
      | true => exact Or.inl rfl
      | false => exact Or.inr (hm.mpr (fun c hc => hall _ hc rfl (fun h' => by cases h')))
    simp only [hs', hd', Bool.and_true, Bool.true_and, Bool.or_eq_true]
    exact hm'

/-- the former F14 witness under the fixed code: a true subset is reported for every tool; a missing
    metabolite peripheral matters exactly for the tools other than modelsearch -/
theorem contain_subset_fixed_example :
    let a := mfOf [.absorption (.names ["FO", "ZO"])]
    let b := mfOf [.absorption (.names ["FO"])]
    let bm := mfOf [.absorption (.names ["FO"]), .peripherals ⟨[1], .names ["MET"]⟩]
    MF.containSubset a b true = .ok true ∧ MF.containSubset a b false = .ok true ∧
      MF.containSubset a bm true = .ok true ∧ MF.containSubset a bm false = .ok false := by
  decide +kernel

/-- The remaining deviation: transit counts and depots are compared separately. -/
theorem contain_subset_transits_witness :
    let a := mfOf [.transits ⟨[1], .names ["DEPOT"]⟩, .transits ⟨[2], .names ["NODEPOT"]⟩]
    let b := mfOf [.transits ⟨[2], .names ["DEPOT"]⟩]
    Atom.trans 2 "DEPOT" ∈ b.atoms ∧ Atom.trans 2 "DEPOT" ∉ a.atoms ∧
      MF.containSubset a b true = .ok true ∧ MF.containSubset a b false = .ok true := by
  decide +kernel

/-- `Transits.__eq__` (after fix bfc9c9b) on explicit depots: a `bool`, true exactly when the count
    sets and the depot sets are equal. -/
theorem transits_eq_spec (c1 c2 : List Nat) (d1 d2 : List String) :
    ∃ r, Transits.eq ⟨c1, .names d1⟩ ⟨c2, .names d2⟩ = .ok r ∧
      (r = true ↔ (∀ x, x ∈ c1 ↔ x ∈ c2) ∧ (∀ x, x ∈ d1 ↔ x ∈ d2)) := by
  refine ⟨setEq c1 c2 && setEq d1 d2, rfl, ?_⟩
  rw [Bool.and_eq_true, setEq_iff, setEq_iff]

/-- `==` is not equality of the expanded spaces: it depends on how PERIPHERALS is split into
    statements. -/
theorem eq_peripherals_split_witness :
    let a := mfOf [.peripherals ⟨[0, 1], .names ["DRUG"]⟩]
    let b := mfOf [.peripherals ⟨[0], .names ["DRUG"]⟩, .peripherals ⟨[1], .names ["DRUG"]⟩]
    sameAtoms a.atoms b.atoms = true ∧ MF.eq a b = .ok false := by
  decide +kernel

/-- `==`, `-` raise on a wildcard; `+` raises on `PERIPHERALS(n,*)` (still present). -/
theorem wildcard_raises_witness :
    let a := mfOf [.absorption .wild]
    let b := mfOf [.absorption (.names ["FO"])]
    let p := mfOf [.peripherals ⟨[1], .wild⟩]
    MF.eq a b = .error .typeError ∧ (MF.sub a b).toOption = none ∧ (MF.add p b).toOption = none := by
  decide +kernel

/-- `least_number_of_transformations(tool='modelsearch')` (after fix e311de7) never returns a
    metabolite-peripheral key `('PERIPHERALS', n, 'METABOLITE')`, for all search spaces. -/
theorem lnt_modelsearch_pk_only (a b : MF) (ks : List Key) (h : MF.lnt a b true = .ok ks) :
    ∀ key, key ∈ ks → ¬ (key.kind = "PERIPHERALS" ∧ key.length = 3) := by
  unfold MF.lnt at h
  simp only [bind, Except.bind] at h
  cases h1 : lntHelper absorptionKind a.absorption b.absorption with
  | error e => simp [h1] at h
  | ok k1 =>
    cases h2 : lntHelper eliminationKind a.elimination b.elimination with
    | error e => simp [h1, h2] at h
    | ok k2 =>
      cases h3 : lntTransits a b with
      | error e => simp [h1, h2, h3] at h
      | ok k3 =>
        cases h4 : lntPeripherals a b false with
        | error e => simp [h1, h2, h3, h4] at h
        | ok k4 =>
          cases h5 : lntHelper lagtimeKind a.lagtime b.lagtime with
          | error e => simp [h1, h2, h3, h4, h5] at h
          | ok k5 =>
            simp only [h1, h2, h3, h4, h5, if_true, pure, Except.pure, Except.ok.injEq] at h
            subst h
            intro key hk ⟨hkind, hlen⟩
            simp only [List.mem_append] at hk
            rcases hk with (((hk | hk) | hk) | hk) | hk
            · have := lntHelper_shape _ _ _ _ h1 key hk; omega
            · have := lntHelper_shape _ _ _ _ h2 key hk; omega
            · have := lntTransits_shape a b _ h3 key hk; rw [this] at hkind; exact absurd hkind (by decide)
            · have := lntPeripherals_drug_shape a b _ h4 key hk; omega
            · have := lntHelper_shape _ _ _ _ h5 key hk; omega

/-- the former witness under the fixed code: modelsearch gets the pk transformation only, `tool=None`
    additionally the metabolite peripheral -/
theorem lnt_fixed_example :
    let a := mfOf [.absorption (.names ["FO"])]
    let b := mfOf [.absorption (.names ["ZO"]), .peripherals ⟨[1], .names ["MET"]⟩]
    MF.lnt a b true = .ok [["ABSORPTION", "ZO"]] ∧
      MF.lnt a b false = .ok [["ABSORPTION", "ZO"], ["PERIPHERALS", "1", "METABOLITE"]] := by
  decide +kernel

/-- where `+`, `-` do agree with set operations: a sample with every category, ranges and both
    depots (non-vacuity of the correspondence monitors `add-not-union` / `sub-not-difference`) -/
example :
    let a := mfOf [.absorption (.names ["FO", "ZO"]), .transits ⟨[0, 1, 3], .wild⟩, .peripherals ⟨[0, 1], .names ["DRUG"]⟩]
    let b := mfOf [.absorption (.names ["ZO", "INST"]), .transits ⟨[1], .names ["NODEPOT"]⟩, .transits ⟨[4], .names ["DEPOT"]⟩]
    (match MF.add a b with
      | .ok c => sameAtoms c.atoms (a.atoms ++ b.atoms)
      | .error _ => false) = true ∧
    (match MF.sub a b with
      | .ok c => sameAtoms c.atoms ((a.atoms.filter (fun x => !b.atoms.contains x)) ++ [Atom.elim "FO", Atom.lag "OFF"])
      | .error _ => false) = true := by
  decide +kernel

/-! ## ModelFeatures.__add__ is the union of the expanded spaces -/

/-- For every pair of search spaces (any number of statements, wildcards in TRANSITS,
    repeated statements, …) on which `+` does not raise: the result contains every atom of
    both operands, and nothing but those and the documented defaults that `create` inserts
    for a missing category. -/
theorem add_atoms_sandwich (a b c : MF) (h : MF.add a b = .ok c) (hva : a.valid = true) (hvb : b.valid = true) :
    (∀ x, x ∈ a.atoms ∨ x ∈ b.atoms → x ∈ c.atoms) ∧
      (∀ x, x ∈ c.atoms → x ∈ a.atoms ∨ x ∈ b.atoms ∨ x ∈ defaultAtoms) := by
  obtain ⟨A, E, L, T, P, hT, hP, hA, hE, hL, hc⟩ := add_unfold a b c h
  have hm := add_components a b A E L T P hT hP hA hE hL hva hvb
  constructor
  · intro x hx
    exact create_sup A E T P L c hc x ((hm x).mpr hx)
  · intro x hx
    rcases create_sub A E T P L c hc x hx with h' | h'
    · rcases (hm x).mp h' with h'' | h''
      · exact Or.inl h''
      · exact Or.inr (Or.inl h'')
    · exact Or.inr (Or.inr h')

/-- `add_is_union` under the decidable side condition that one operand has every PK category
    (which `create` establishes for every non-degenerate description): `atoms (a + b)` is exactly
    `atoms a ∪ atoms b`. -/
theorem add_is_union_partial (a b c : MF) (h : MF.add a b = .ok c) (hva : a.valid = true) (hvb : b.valid = true)
    (hfull : a.full = true) : ∀ x, x ∈ c.atoms ↔ x ∈ a.atoms ∨ x ∈ b.atoms := by
  obtain ⟨A, E, L, T, P, hT, hP, hA, hE, hL, hc⟩ := add_unfold a b c h
  have hm := add_components a b A E L T P hT hP hA hE hL hva hvb
  simp only [MF.full, Bool.and_eq_true, Bool.not_eq_true', List.isEmpty_eq_false_iff] at hfull
  obtain ⟨⟨⟨⟨fa, fe⟩, fl⟩, ft⟩, fp⟩ := hfull
  have hTne : T ≠ [] := by
    rintro rfl
    obtain ⟨x, hx⟩ := List.exists_mem_of_ne_nil _ ft
    have hxa : x ∈ a.atoms := by simp [MF.atoms, hx]
    have hxm := (hm x).mpr (Or.inl hxa)
    simp only [List.mem_flatMap, Transits.atoms, List.mem_map] at hx
    obtain ⟨_, _, c', _, d', _, rfl⟩ := hx
    rw [mem_atoms_trans] at hxm
    obtain ⟨_, ht, _⟩ := hxm
    cases ht
  have hPne : P ≠ [] := by
    rintro rfl
    obtain ⟨x, hx⟩ := List.exists_mem_of_ne_nil _ fp
    have hxa : x ∈ a.atoms := by simp [MF.atoms, hx]
    have hxm := (hm x).mpr (Or.inl hxa)
    simp only [List.mem_flatMap, Peripherals.atoms, List.mem_map] at hx
    obtain ⟨_, _, c', _, d', _, rfl⟩ := hx
    rw [mem_atoms_peri] at hxm
    obtain ⟨_, ht, _⟩ := hxm
    cases ht
  have := create_full A E T P L c hc (optAdd_isSome _ _ _ _ hA fa) (optAdd_isSome _ _ _ _ hE fe)
    (optAdd_isSome _ _ _ _ hL fl) hTne hPne
  subst this
  exact hm

/-- Without the side condition the full statement is false: `create` adds defaults. -/
theorem add_is_union_witness :
    let a : MF := ⟨some (.names ["FO"]), none, [], [], none⟩
    ∃ c, MF.add a a = .ok c ∧ Atom.elim "FO" ∈ c.atoms ∧ Atom.elim "FO" ∉ a.atoms := by
  refine ⟨⟨some (.names ["FO"]), some (.names ["FO"]), [⟨[0], .names ["DEPOT"]⟩], [⟨[0], .names ["DRUG"]⟩], some (.names ["OFF"])⟩, ?_⟩
  decide +kernel

/-- non-vacuity of `add_is_union_partial`: a parsed description with ranges, both depots through
    the wildcard and two peripheral kinds satisfies the side conditions and `+` does not raise -/
example :
    let a := mfOf [.absorption (.names ["FO", "ZO"]), .transits ⟨[0, 1, 3], .wild⟩,
                   .peripherals ⟨[0, 1], .names ["DRUG", "MET"]⟩]
    let b := mfOf [.elimination .wild, .transits ⟨[1], .names ["NODEPOT"]⟩, .transits ⟨[4], .names ["DEPOT"]⟩]
    a.valid = true ∧ b.valid = true ∧ a.full = true ∧ (MF.add a b).toOption.isSome = true := by
  decide +kernel

/-- `_add_sub_transits(add=False)` (used by `-`): the (count, depot) atoms of the result are the
    set difference, for all transit statements (wildcards, overlapping statements, …). -/
theorem sub_transits_is_difference (a b : MF) (ts : List Transits) (h : addSubTransits a b false = .ok ts)
    (c : Nat) (k : String) :
    Atom.trans c k ∈ ts.flatMap Transits.atoms ↔ Atom.trans c k ∈ a.atoms ∧ Atom.trans c k ∉ b.atoms := by
  rw [addSubTransits_sub a b ts h c k, mem_atoms_trans, mem_atoms_trans]

/-! ## ModelFeatures.__sub__ is the difference of the expanded spaces, modulo defaults -/

/-- For every pair of search spaces on which `-` does not raise: every atom of `a` that is not an
    atom of `b` is in `a - b`, and `a - b` contains nothing else but re-inserted defaults
    (the class default of an emptied ABSORPTION/ELIMINATION/LAGTIME, or `create`'s defaults). -/
theorem sub_is_difference_modulo_defaults (a b c : MF) (h : MF.sub a b = .ok c) :
    (∀ x, x ∈ a.atoms → x ∉ b.atoms → x ∈ c.atoms) ∧
      (∀ x, x ∈ c.atoms → (x ∈ a.atoms ∧ x ∉ b.atoms) ∨ x ∈ defaultAtoms) := by
  obtain ⟨A, E, L, T, P, hT, hP, hA, hE, hL, hc⟩ := sub_unfold a b c h
  obtain ⟨s1, s2⟩ := sub_components a b A E L T P hT hP hA hE hL
  constructor
  · intro x hx hnx
    exact create_sup A E T P L c hc x (s1 x hx hnx)
  · intro x hx
    rcases create_sub A E T P L c hc x hx with h' | h'
    · exact s2 x h'
    · exact Or.inr h'

/-- The defaults really are re-inserted (so plain set difference is false of the code), and the
    result depends on whether a category is emptied by `==` (dropped, then defaulted only if another
    category survives) or by `-` (class default): `a - a` is the empty space, while removing a strict
    superset leaves the full default space. -/
theorem sub_defaults_witness :
    let a := mfOf [.absorption (.names ["FO"])]
    let b := mfOf [.absorption (.names ["FO", "ZO"])]
    (MF.sub a a).toOption.map MF.atoms = some [] ∧
      (MF.sub a b).toOption.map (fun c => sameAtoms c.atoms defaultAtoms) = some true := by
  decide +kernel

/-! ## modelsearch: `exhaustive_stepwise` -/

/-- `exhaustive_stepwise` creates exactly the non-empty root paths every step of which is accepted
    by `_is_allowed` given the features applied before it … -/
theorem stepwise_paths_exact (funcs p : List Key) :
    p ∈ exhaustiveStepwise funcs ↔ allowedPath funcs p = true ∧ p ≠ [] :=
  mem_exhaustiveStepwise funcs p

/-- … each path once (the key list of a dict has no duplicates). -/
theorem stepwise_each_path_once (funcs : List Key) (hf : funcs.Nodup) : (exhaustiveStepwise funcs).Nodup :=
  stepwiseAux_nodup funcs hf (funcs.length + 1) 0

/-- Termination of the `while True` loop: a path never repeats a key, so after
    `len(mfl_funcs) + 1` sweeps nothing is created any more; more sweeps change nothing. -/
theorem stepwise_fuel_irrelevant (funcs : List Key) (fuel : Nat) (hf : funcs.length + 1 ≤ fuel) (p : List Key) :
    p ∈ stepwiseAux funcs fuel [[]] ↔ p ∈ exhaustiveStepwise funcs :=
  mem_stepwiseAux_fuel funcs fuel hf p

/-- a path never repeats a feature and uses only features of the table -/
theorem stepwise_path_nodup (funcs p : List Key) (h : p ∈ exhaustiveStepwise funcs) : p.Nodup ∧ p ⊆ funcs :=
  allowedPath_nodup_subset funcs p ((stepwise_paths_exact funcs p).mp h).1

/-- One feature per category on a path: two features of one kind on a path are both
    PERIPHERALS. -/
theorem stepwise_one_feature_per_category (funcs p : List Key) (h : p ∈ exhaustiveStepwise funcs) :
    p.Pairwise (fun g f => g.kind = f.kind → g.isPeripheral = true ∧ f.isPeripheral = true) := by
  refine (allowed_one_per_category' funcs p ((stepwise_paths_exact funcs p).mp h).1).imp ?_
  intro g f hgf hk
  cases hp : Key.isPeripheral f with
  | false => exact absurd hk (hgf hp)
  | true =>
    refine ⟨?_, rfl⟩
    rw [isPeripheral_iff] at hp ⊢
    rw [hk, hp]

/-- The documented incompatible combinations (and the in-code ones) never co-occur on a path. -/
theorem stepwise_excluded_pairs_never_cooccur (funcs p : List Key) (h : p ∈ exhaustiveStepwise funcs) :
    p.Pairwise (fun g f => ∀ c, c ∈ Gen.notSupportedCombo → comboHit c f g = false ∧ comboHit c g f = false) := by
  refine (allowed_excluded_pairs' funcs p ((stepwise_paths_exact funcs p).mp h).1).imp ?_
  intro g f hgf c hc
  exact ⟨hgf c hc, by rw [comboHit_symm]; exact hgf c hc⟩

/-- `TRANSITS(0, NODEPOT)` is never applied. -/
theorem stepwise_never_allowed_absent (funcs p : List Key) (h : p ∈ exhaustiveStepwise funcs) :
    ∀ f, f ∈ p → f ∉ Gen.neverAllowed :=
  allowed_never' funcs p ((stepwise_paths_exact funcs p).mp h).1

/-- The first peripheral feature on a path is the smallest count of the table. -/
theorem stepwise_first_peripheral_is_min (funcs q : List Key) (f : Key)
    (h : (q ++ [f]) ∈ exhaustiveStepwise funcs) (hf : f.isPeripheral = true)
    (hq : ∀ g, g ∈ q → g.isPeripheral = false) : f.arg0 = listMin (periCounts funcs) :=
  first_peripheral_is_min' funcs q f ((stepwise_paths_exact funcs _).mp h).1 hf hq

/-- "Peripheral compartments are added in increasing order, one at a time" is false of the code
    as soon as the table has three counts: `_is_allowed_peripheral` only looks at the table entry
    before `n`, not at what was applied. -/
theorem stepwise_peripherals_increasing_witness :
    let funcs : List Key := [["PERIPHERALS", "1"], ["PERIPHERALS", "2"], ["PERIPHERALS", "3"]]
    [["PERIPHERALS", "1"], ["PERIPHERALS", "3"]] ∈ exhaustiveStepwise funcs ∧
    [["PERIPHERALS", "1"], ["PERIPHERALS", "3"], ["PERIPHERALS", "2"]] ∈ exhaustiveStepwise funcs := by
  decide +kernel

/-- and a documented path is missing when the counts are not listed in ascending order -/
theorem stepwise_peripherals_listing_order_witness :
    let funcs : List Key := [["PERIPHERALS", "4"], ["PERIPHERALS", "0"]]
    [["PERIPHERALS", "0"], ["PERIPHERALS", "4"]] ∉ exhaustiveStepwise funcs ∧
    exhaustiveStepwise funcs = [[["PERIPHERALS", "0"]]] := by
  decide +kernel

/-- non-vacuity: the documented example of docs/modelsearch.rst has 15 candidates -/
example : (exhaustiveStepwise [["ABSORPTION", "ZO"], ["ELIMINATION", "MM"], ["PERIPHERALS", "1"]]).length = 15 := by
  decide +kernel

end Pharmpy.C18
