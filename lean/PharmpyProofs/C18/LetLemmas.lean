import PharmpyModel.C18.Let
/- C18 — helper lemmas for LetProperties.lean (interpreters commute with the definition lookup / statement filters). -/
namespace Pharmpy.C18

theorem covsOf_interpret (ts : List LStmt) : covsOf (interpret ts) = (covsOf ts).map interpCov := by
  induction ts with
  | nil => rfl
  | cons t ts ih =>
    cases t with
    | letDef n v => simpa [interpret, interpStmt, covsOf] using ih
    | cov c => simpa [interpret, interpStmt, covsOf] using ih

theorem lookupDef_interpret (ts : List LStmt) (x : String) :
    lookupDef (interpret ts) x = (lookupDef ts x).map (·.map upper) := by
  induction ts with
  | nil => rfl
  | cons t ts ih =>
    cases t with
    | letDef n v =>
      have ih' : lookupDef (List.map interpStmt ts) x = (lookupDef ts x).map (·.map upper) := ih
      simp only [interpret, List.map_cons, interpStmt, lookupDef, ih']
      cases lookupDef ts x with
      | some w => simp
      | none => by_cases h : n = x <;> simp [h]
    | cov c => simpa [interpret, interpStmt, lookupDef] using ih

theorem covsOf_map_cov (l : List Cov) (f : Cov → Cov) :
    covsOf (l.map fun c => LStmt.cov (f c)) = l.map f := by
  induction l with
  | nil => rfl
  | cons c l ih => simp [covsOf, ih]

theorem lookupDef_map_cov (l : List Cov) (f : Cov → Cov) (x : String) :
    lookupDef (l.map fun c => LStmt.cov (f c)) x = none := by
  induction l with
  | nil => rfl
  | cons c l ih => simp [lookupDef, ih]

theorem covsOf_explicit (ts : List LStmt) :
    covsOf (interpret (explicit ts)) = (covsOf ts).map fun c =>
      interpCov { c with parameter := explicitSym ts c.parameter, covariate := explicitSym ts c.covariate } := by
  rw [covsOf_interpret, explicit, covsOf_map_cov, List.map_map]
  rfl

theorem lookupDef_explicit (ts : List LStmt) (x : String) : lookupDef (interpret (explicit ts)) x = none := by
  rw [lookupDef_interpret, explicit, lookupDef_map_cov]
  rfl

theorem lookupDef_explicit' (ts : List LStmt) (x : String) : lookupDef (explicit ts) x = none := by
  rw [explicit, lookupDef_map_cov]

theorem symVals_explicit (env : Env) (ts : List LStmt) (wild : List String) (s : CSym) :
    symVals env (interpret ts) wild (interpSym s)
      = symVals env (interpret (explicit ts)) wild (interpSym (explicitSym ts s)) := by
  cases s with
  | vals l => simp [interpSym, explicitSym, symVals]
  | wild => simp [interpSym, explicitSym, symVals]
  | ref name =>
    cases h : lookupDef ts name with
    | some v => simp [interpSym, explicitSym, symVals, lookupDef_interpret, h]
    | none => simp [interpSym, explicitSym, symVals, lookupDef_interpret, lookupDef_explicit', h]

end Pharmpy.C18
