import PharmpyModel.C14.Admid
/-
  C14 — get_admid: the forward-fill loop is local to an individual and equals the
  per-individual walk on every decomposition of the dataset into runs of one individual.
-/
namespace Pharmpy.C14

theorem admStep_id (s : Int × Nat) (r : ARow) : (admStep s r).1.1 = r.id := by
  unfold admStep
  by_cases h : s.1 = r.id
  · cases h1 : isDoseEv r.evid <;> simp [h, h1]
  · simp [h]

/-- state of the loop after the records `a` -/
def admState (s : Int × Nat) (a : List ARow) : Int × Nat := a.foldl (fun s r => (admStep s r).1) s

theorem admLoop_append (s : Int × Nat) (a b : List ARow) :
    admLoop s (a ++ b) = admLoop s a ++ admLoop (admState s a) b := by
  induction a generalizing s with
  | nil => rfl
  | cons r a ih => simp [admLoop, admState, ih]

theorem admState_id (s : Int × Nat) (a : List ARow) (r : ARow) :
    (admState s (a ++ [r])).1 = r.id := by
  simp [admState, List.foldl_append, admStep_id]

/-- at the first record of another individual the loop restarts from that record -/
theorem admLoop_boundary (s : Int × Nat) (r : ARow) (rs : List ARow) (h : s.1 ≠ r.id) :
    admLoop s (r :: rs) = admLoop (r.id, r.own) (r :: rs) := by
  simp only [admLoop]
  have h1 : admStep s r = ((r.id, r.own), r.own) := by simp [admStep, h]
  have h2 : admStep (r.id, r.own) r = ((r.id, r.own), r.own) := by
    cases he : isDoseEv r.evid <;> simp [admStep, he]
  rw [h1, h2]

theorem admFill_local (a b : List ARow)
    (hb : a.getLast?.map (·.id) ≠ b.head?.map (·.id)) (ha : a ≠ []) (hb0 : b ≠ []) :
    admFill (a ++ b) = admFill a ++ admFill b := by
  obtain ⟨a', l, rfl⟩ : ∃ a' l, a = a' ++ [l] := by
    rcases List.eq_nil_or_concat a with h | ⟨a', l, h⟩
    · exact absurd h ha
    · exact ⟨a', l, by simpa using h⟩
  cases b with
  | nil => exact absurd rfl hb0
  | cons r rs =>
    have hne : l.id ≠ r.id := by
      intro e; apply hb; simp [e]
    cases hA : a' ++ [l] with
    | nil => simp at hA
    | cons r0 t =>
      have hfill : admFill (r0 :: t ++ r :: rs) = admLoop (r0.id, r0.own) (r0 :: t ++ r :: rs) := rfl
      rw [hfill, admLoop_append]
      have hst : (admState (r0.id, r0.own) (r0 :: t)).1 = l.id := by
        rw [← hA]; exact admState_id _ _ _
      rw [admLoop_boundary _ r rs (by rw [hst]; exact hne)]
      rfl

theorem admLoop_const (i : Int) (cur : Nat) (rs : List ARow) (h : ∀ x ∈ rs, x.id = i) :
    admLoop (i, cur) rs = indWalk cur rs := by
  induction rs generalizing cur with
  | nil => rfl
  | cons r rs ih =>
    have hr : r.id = i := h r (by simp)
    have hrs : ∀ x ∈ rs, x.id = i := fun x hx => h x (by simp [hx])
    cases he : isDoseEv r.evid
    · simp [admLoop, indWalk, admStep, hr, he, ih _ hrs]
    · simp [admLoop, indWalk, admStep, hr, he, ih _ hrs]

theorem admFill_const (b : List ARow) (h : ConstId b) : admFill b = indAdmid b := by
  cases b with
  | nil => rfl
  | cons r0 rs =>
    simp only [admFill, indAdmid]
    apply admLoop_const
    intro x hx
    rcases List.mem_cons.mp hx with rfl | hx
    · rfl
    · exact h x hx

theorem ConstId.ne_nil {b : List ARow} (h : ConstId b) : b ≠ [] := by
  cases b with
  | nil => exact h.elim
  | cons _ _ => simp

theorem admFill_blocks (bs : List (List ARow)) (h : GoodBlocks bs) :
    admFill bs.flatten = bs.flatMap indAdmid := by
  induction bs with
  | nil => rfl
  | cons b rest ih =>
    cases rest with
    | nil => simpa using admFill_const b h
    | cons c rest' =>
      obtain ⟨hb, hbc, hrest⟩ := h
      have hc : c ≠ [] := by
        cases rest' with
        | nil => exact ConstId.ne_nil hrest
        | cons _ _ => exact ConstId.ne_nil hrest.1
      have hflat : (c :: rest').flatten ≠ [] := by
        simp only [List.flatten_cons]
        intro e
        exact hc (List.append_eq_nil_iff.mp e).1
      have hhead : ((c :: rest').flatten).head?.map (·.id) = c.head?.map (·.id) := by
        cases c with
        | nil => exact absurd rfl hc
        | cons x xs => simp
      simp only [List.flatten_cons, List.flatMap_cons] at ih ⊢
      have hbc' : b.getLast?.map (·.id) ≠ (c ++ rest'.flatten).head?.map (·.id) := by
        have : (c ++ rest'.flatten) = (c :: rest').flatten := by simp
        rw [this, hhead]; exact hbc
      rw [admFill_local b (c ++ rest'.flatten) hbc' (ConstId.ne_nil hb)
        (by simpa using hflat), admFill_const b hb, ih hrest]

theorem admLoop_length (s : Int × Nat) (rs : List ARow) : (admLoop s rs).length = rs.length := by
  induction rs generalizing s with
  | nil => rfl
  | cons r rs ih => simp [admLoop, ih]

theorem getAdmid_length (c : ACfg) (ds : List ERec) : (getAdmid c ds).length = ds.length := by
  unfold getAdmid
  split
  · simp
  · unfold admFill admRows
    cases ds with
    | nil => rfl
    | cons r rs => simp [admLoop_length]

/-! ### get_admid / get_cmt on event records -/

theorem getAdmid_local (c : ACfg) (a b : List ERec)
    (hb : a.getLast?.map (·.id) ≠ b.head?.map (·.id)) (ha : a ≠ []) (hb0 : b ≠ []) :
    getAdmid c (a ++ b) = getAdmid c a ++ getAdmid c b := by
  unfold getAdmid
  split
  · simp
  · unfold admRows
    rw [List.map_append]
    apply admFill_local
    · simpa [List.getLast?_map, List.head?_map, Function.comp_def] using hb
    · simpa using ha
    · simpa using hb0

theorem getCmt_local (c : ACfg) (a b : List ERec) : getCmt c (a ++ b) = getCmt c a ++ getCmt c b := by
  simp [getCmt]

theorem getCmt_length (c : ACfg) (ds : List ERec) : (getCmt c ds).length = ds.length := by
  simp [getCmt]

end Pharmpy.C14
