import PharmpyModel.C14.Baseline
/-
  C14 — baselines are the first record of each individual; ids; time-varying detection.
-/
namespace Pharmpy.C14

section firsts
variable {α κ : Type} [BEq κ] [LawfulBEq κ] (key : α → κ)

theorem firstsAux_sublist (seen : List κ) (l : List α) : (firstsAux key seen l).Sublist l := by
  induction l generalizing seen with
  | nil => exact List.Sublist.slnil
  | cons r rs ih =>
    simp only [firstsAux]
    split
    · exact (ih seen).cons r
    · exact (ih _).cons₂ r

/-- membership in `seen` is all that matters, and only for the keys that occur -/
theorem firstsAux_congr (s1 s2 : List κ) (l : List α)
    (h : ∀ x ∈ l, (key x ∈ s1 ↔ key x ∈ s2)) : firstsAux key s1 l = firstsAux key s2 l := by
  induction l generalizing s1 s2 with
  | nil => rfl
  | cons r rs ih =>
    have hr := h r (by simp)
    have hrs : ∀ x ∈ rs, (key x ∈ s1 ↔ key x ∈ s2) := fun x hx => h x (by simp [hx])
    simp only [firstsAux, List.contains_iff_mem]
    by_cases h1 : key r ∈ s1
    · have h2 : key r ∈ s2 := hr.mp h1
      simp only [h1, h2, if_true]
      exact ih s1 s2 hrs
    · have h2 : ¬ key r ∈ s2 := fun e => h1 (hr.mpr e)
      simp only [h1, h2, if_false]
      congr 1
      apply ih
      intro x hx
      simp only [List.mem_cons]
      rw [hrs x hx]

theorem firstsAux_append (seen : List κ) (a b : List α) :
    firstsAux key seen (a ++ b) = firstsAux key seen a ++ firstsAux key (a.map key ++ seen) b := by
  induction a generalizing seen with
  | nil => rfl
  | cons r a ih =>
    simp only [List.cons_append, firstsAux, List.contains_iff_mem]
    by_cases h1 : key r ∈ seen
    · simp only [h1, if_true]
      rw [ih seen]
      congr 1
      apply firstsAux_congr
      intro x _
      simp only [List.map_cons, List.cons_append, List.mem_cons, List.mem_append]
      constructor
      · intro h; exact Or.inr h
      · rintro (h | h)
        · exact Or.inr (h ▸ h1)
        · exact h
    · simp only [h1, if_false, List.cons_append]
      rw [ih (key r :: seen)]
      congr 2
      apply firstsAux_congr
      intro x _
      simp only [List.map_cons, List.cons_append, List.mem_cons, List.mem_append]
      constructor
      · rintro (h | h | h)
        · exact Or.inr (Or.inl h)
        · exact Or.inl h
        · exact Or.inr (Or.inr h)
      · rintro (h | h | h)
        · exact Or.inr (Or.inl h)
        · exact Or.inl h
        · exact Or.inr (Or.inr h)

/-- locality: two lists with disjoint keys -/
theorem firstsAux_local (a b : List α) (h : ∀ x ∈ a, ∀ y ∈ b, key x ≠ key y) :
    firstsAux key [] (a ++ b) = firstsAux key [] a ++ firstsAux key [] b := by
  rw [firstsAux_append]
  congr 1
  apply firstsAux_congr
  intro y hy
  simp only [List.append_nil, List.mem_map, List.not_mem_nil, iff_false, not_exists, not_and]
  intro x hx e
  exact h x hx y hy e

/-- an element of the result is the first element of the list with its key -/
theorem firstsAux_first (seen : List κ) (l : List α) (x : α) (hx : x ∈ firstsAux key seen l) :
    key x ∉ seen ∧ (l.filter (fun y => key y == key x)).head? = some x := by
  induction l generalizing seen with
  | nil => simp [firstsAux] at hx
  | cons r rs ih =>
    simp only [firstsAux, List.contains_iff_mem] at hx
    by_cases h1 : key r ∈ seen
    · simp only [h1, if_true] at hx
      obtain ⟨hs, hh⟩ := ih seen hx
      refine ⟨hs, ?_⟩
      have : (key r == key x) = false := by
        simp only [beq_eq_false_iff_ne, ne_eq]
        intro e; exact hs (e ▸ h1)
      simp [List.filter_cons, this, hh]
    · simp only [h1, if_false, List.mem_cons] at hx
      rcases hx with rfl | hx
      · exact ⟨h1, by simp [List.filter_cons]⟩
      · obtain ⟨hs, hh⟩ := ih _ hx
        simp only [List.mem_cons, not_or] at hs
        refine ⟨hs.2, ?_⟩
        have : (key r == key x) = false := by
          simp only [beq_eq_false_iff_ne, ne_eq]
          intro e; exact hs.1 e.symm
        simp [List.filter_cons, this, hh]

/-- the keys of the result are pairwise different and not in `seen` -/
theorem firstsAux_nodup (seen : List κ) (l : List α) :
    ((firstsAux key seen l).map key).Nodup ∧ ∀ k ∈ (firstsAux key seen l).map key, k ∉ seen := by
  induction l generalizing seen with
  | nil => simp [firstsAux]
  | cons r rs ih =>
    simp only [firstsAux, List.contains_iff_mem]
    by_cases h1 : key r ∈ seen
    · simp only [h1, if_true]; exact ih seen
    · simp only [h1, if_false, List.map_cons, List.nodup_cons, List.mem_cons]
      obtain ⟨hn, hd⟩ := ih (key r :: seen)
      refine ⟨⟨?_, hn⟩, ?_⟩
      · intro hm; exact (hd _ hm) (by simp)
      · rintro k (rfl | hk)
        · exact h1
        · intro hks; exact (hd k hk) (by simp [hks])

/-- every key of the list that is not in `seen` occurs in the result -/
theorem firstsAux_complete (seen : List κ) (l : List α) (x : α) (hx : x ∈ l) (hs : key x ∉ seen) :
    key x ∈ (firstsAux key seen l).map key := by
  induction l generalizing seen with
  | nil => simp at hx
  | cons r rs ih =>
    simp only [firstsAux, List.contains_iff_mem]
    by_cases h1 : key r ∈ seen
    · simp only [h1, if_true]
      rcases List.mem_cons.mp hx with rfl | hx'
      · exact absurd h1 hs
      · exact ih seen hx' hs
    · simp only [h1, if_false, List.map_cons, List.mem_cons]
      rcases List.mem_cons.mp hx with rfl | hx'
      · exact Or.inl rfl
      · by_cases e : key x = key r
        · exact Or.inl e
        · right
          apply ih _ hx'
          simp only [List.mem_cons, not_or]
          exact ⟨e, hs⟩

end firsts

/-! ### distinct values -/

theorem mem_dedupR {l : List Rat} {a : Rat} : a ∈ dedupR l ↔ a ∈ l := by
  constructor
  · intro h; exact (firstsAux_sublist id [] l).subset h
  · intro h
    have := firstsAux_complete id [] l a h (by simp)
    simpa [dedupR] using this

theorem nodup_dedupR (l : List Rat) : (dedupR l).Nodup := by
  have := (firstsAux_nodup id [] l).1
  simpa [dedupR] using this

theorem nodup_length_gt_one {l : List Rat} (h : l.Nodup) :
    l.length > 1 ↔ ∃ a ∈ l, ∃ b ∈ l, a ≠ b := by
  constructor
  · intro hl
    match l, h, hl with
    | a :: b :: _, h, _ =>
      have : a ≠ b := by
        intro e; subst e
        simp at h
      exact ⟨a, by simp, b, by simp, this⟩
  · rintro ⟨a, ha, b, hb, hne⟩
    match l, ha, hb with
    | [], ha, _ => simp at ha
    | [x], ha, hb =>
      simp at ha hb; exact absurd (ha.trans hb.symm) hne
    | _ :: _ :: _, _, _ => simp

theorem nunique_gt_one (vals : List (Option Rat)) :
    nunique vals > 1 ↔ ∃ a b, some a ∈ vals ∧ some b ∈ vals ∧ a ≠ b := by
  unfold nunique
  rw [nodup_length_gt_one (nodup_dedupR _)]
  simp only [mem_dedupR, List.mem_filterMap, id_eq, exists_eq_right]
  constructor
  · rintro ⟨a, ha, b, hb, hne⟩; exact ⟨a, b, ha, hb, hne⟩
  · rintro ⟨a, b, ha, hb, hne⟩; exact ⟨a, ha, b, hb, hne⟩

/-! ### counts per key -/

theorem sum_count_per_key {α : Type} (key : α → Int) (ks : List Int) (xs : List α) (hnd : ks.Nodup)
    (hall : ∀ x ∈ xs, key x ∈ ks) :
    (ks.map (fun i => (xs.filter (fun r => key r == i)).length)).sum = xs.length := by
  induction ks generalizing xs with
  | nil =>
    cases xs with
    | nil => rfl
    | cons x xs => exact absurd (hall x (by simp)) (by simp)
  | cons k ks ih =>
    obtain ⟨hk, hnd'⟩ := List.nodup_cons.mp hnd
    simp only [List.map_cons, List.sum_cons]
    have hrest := ih (xs.filter (fun r => !(key r == k))) hnd' (by
      intro x hx
      obtain ⟨hx1, hx2⟩ := List.mem_filter.mp hx
      have := hall x hx1
      simp at hx2
      rcases List.mem_cons.mp this with h | h
      · exact absurd h hx2
      · exact h)
    have hsame : ∀ i ∈ ks, ((xs.filter (fun r => !(key r == k))).filter (fun r => key r == i)).length
        = (xs.filter (fun r => key r == i)).length := by
      intro i hi
      rw [List.filter_filter]
      congr 1
      apply List.filter_congr
      intro x _
      by_cases hxi : key x = i
      · have : key x ≠ k := by intro e; rw [e] at hxi; exact hk (hxi ▸ hi)
        simp [hxi]
        intro e; exact this (hxi.trans e)
      · simp [hxi]
    have : (ks.map (fun i => (xs.filter (fun r => key r == i)).length))
        = ks.map (fun i => ((xs.filter (fun r => !(key r == k))).filter (fun r => key r == i)).length) :=
      List.map_congr_left (fun i hi => (hsame i hi).symm)
    rw [this, hrest]
    have hsplit : ∀ (l : List α), (l.filter (fun r => key r == k)).length
        + (l.filter (fun r => !(key r == k))).length = l.length := by
      intro l
      induction l with
      | nil => rfl
      | cons x l ihl =>
        by_cases hx : key x = k <;> simp [List.filter_cons, hx] <;> omega
    have := hsplit xs
    omega

theorem nObsPerCount_total (obs : List (Int × Option Rat)) :
    ((nObsPerCount obs).map (·.2)).sum = obs.length := by
  unfold nObsPerCount
  simp only [List.map_map]
  apply sum_count_per_key (fun p : Int × Option Rat => p.1)
  · apply (List.Perm.nodup_iff (List.mergeSort_perm _ _)).mpr
    have := (firstsAux_nodup (id : Int → Int) [] (obs.map (·.1))).1
    simpa using this
  · intro x hx
    rw [List.mem_mergeSort]
    have := firstsAux_complete (id : Int → Int) [] (obs.map (·.1)) x.1 (List.mem_map.mpr ⟨x, hx, rfl⟩) (by simp)
    simpa using this

end Pharmpy.C14
