import PharmpyProofs.C14.DoseidLemmas
import PharmpyProofs.C14.ExpandLemmas
import PharmpyProofs.C14.TadLemmas
import PharmpyProofs.C14.AdmidLemmas
import PharmpyProofs.C14.BaselineLemmas
/-
  C14 — Dataset derivations agree with record-by-record event semantics.
  Property theorems only.  All theorems quantify over every record list (any
  number of individuals and records) and every column configuration.
-/
namespace Pharmpy.C14

/-! ## get_doseid -/

/-- On every dataset without reset events whose individuals are in chronological order and have at
    most one dose record per time stamp, `get_doseid` (as repaired by 183fc9b) is the
    per-individual walk — in particular for a record tied with the first dose of ANY individual. -/
theorem doseid_eq_walk_partial (cfg : Cfg) (ds : List Rec) (h : Regular cfg ds) :
    getDoseid cfg ds = walkDoseid cfg ds := doseid_eq_walk h

/-- For EVERY dataset (reset events, ties, any order of times): at each dose record
    `get_doseid` is the walk (the number of doses of the individual so far). -/
theorem doseid_eq_walk_at_doses (cfg : Cfg) (ds : List Rec) :
    ∀ p ∈ ds.zip ((getDoseid cfg ds).zip (walkDoseid cfg ds)), p.1.amt > 0 → p.2.1 = p.2.2 :=
  doseid_walk_at_doses cfg ds

/-- On every dataset in which no record other than a dose follows a dose record of its individual
    at the same time stamp — reset events, SS, non-chronological times, negative amounts all
    allowed — `get_doseid` is the walk. -/
theorem doseid_eq_walk_noties (cfg : Cfg) (ds : List Rec) (h : NoTie ds) :
    getDoseid cfg ds = walkDoseid cfg ds := doseid_eq_walk_of_notie h

/-- non-vacuity of `NoTie`: resets with restarting time, two individuals -/
example :
    let ds := [mkRec 0 1 0 10 1, mkRec 1 1 2 0, mkRec 2 1 3 0 3, mkRec 3 1 0 5 4, mkRec 4 1 1 0, mkRec 5 2 1 0,
               mkRec 6 2 3 7 1, mkRec 7 2 4 0]
    NoTie ds ∧ getDoseid cfgEvid ds = [1, 1, 1, 2, 2, 0, 1, 1] := by
  decide +kernel

/-- F11 (repaired by 183fc9b): two individuals with identical records get identical dose ids, the
    record tied with the first dose stays in dose period 1; the dataset is `Regular`. -/
theorem doseid_first_row_fixed :
    let ds := [mkRec 0 1 0 10, mkRec 1 1 0 0, mkRec 2 1 1 0, mkRec 3 2 0 10, mkRec 4 2 0 0, mkRec 5 2 1 0]
    Regular cfgDose ds ∧ getDoseid cfgDose ds = [1, 1, 1, 1, 1, 1] ∧ walkDoseid cfgDose ds = [1, 1, 1, 1, 1, 1] := by
  decide +kernel

/-- a tie that spans two reset groups is decremented once per group -/
theorem doseid_reset_tie_witness :
    let ds := [mkRec 0 1 0 10 1, mkRec 1 1 5 0, mkRec 2 1 5 10 1, mkRec 3 1 5 0, mkRec 4 1 5 0 3, mkRec 5 1 5 0]
    getDoseid cfgEvid ds = [1, 1, 2, 1, 1, 1] ∧ walkDoseid cfgEvid ds = [1, 1, 2, 1, 2, 2] := by
  decide +kernel

/-- a record between two dose records of one time stamp is compared with the later dose -/
theorem doseid_between_doses_witness :
    let ds := [mkRec 0 1 0 10, mkRec 1 1 5 10, mkRec 2 1 5 0, mkRec 3 1 5 10, mkRec 4 1 6 0]
    getDoseid cfgDose ds = [1, 2, 2, 3, 3] ∧ walkDoseid cfgDose ds = [1, 2, 1, 3, 3] := by
  decide +kernel

/-- non-vacuity: a regular dataset with ties on which the tie rule fires for two individuals -/
example :
    let ds := [mkRec 0 1 0 10, mkRec 1 1 0 0, mkRec 2 1 12 10, mkRec 3 1 12 0, mkRec 4 3 1 5, mkRec 5 3 2 0,
               mkRec 6 3 2 5, mkRec 7 3 2 0]
    Regular cfgDose ds ∧ getDoseid cfgDose ds = [1, 1, 2, 1, 1, 1, 2, 1] := by
  decide +kernel

/-! ## add_time_after_dose -/

/-- time after dose is never negative when the (expanded) records of every individual are in
    chronological order -/
theorem tad_nonneg (cfg : Cfg) (ds : List Rec) (hc : Chrono (expand cfg ds)) :
    ∀ p ∈ addTad cfg ds, 0 ≤ p.2 := tad_nonneg_aux cfg ds hc

/-- time after dose is zero at every dose record, for every dataset -/
theorem tad_zero_at_dose (cfg : Cfg) (ds : List Rec) :
    ∀ p ∈ addTad cfg ds, isDose p.1 = true → p.2 = 0 := tad_zero_at_dose_aux cfg ds

/-- frame: the returned records are exactly the (non-expanded) records, each with all its
    values — as a multiset; the order is NOT kept (records are regrouped by ascending id and
    stable-sorted by dose id, and the non-vacuity example below `doseid_eq_walk_partial` has the
    dose id sequence 2, 1 within one individual) -/
theorem tad_frame_records (cfg : Cfg) (ds : List Rec) :
    ((addTad cfg ds).map (·.1)).Perm ((expand cfg ds).filter (fun r => !r.expanded)) :=
  tad_frame_perm cfg ds

/-! ## expand_additional_doses -/

/-- every original record is kept exactly once with all its fields unchanged -/
theorem expand_preserves_records (cfg : Cfg) (ds : List Rec) (h : cfg.hasAddl = true)
    (hne : ∀ r ∈ ds, r.expanded = false) :
    ((expand cfg ds).filter (fun r => !r.expanded)).Perm ds := expand_preserves_records_aux cfg ds h hne

/-- the total administered amount: Σ AMT after = Σ AMT·(ADDL+1) before -/
theorem expand_total_amount (cfg : Cfg) (ds : List Rec) (h : cfg.hasAddl = true) :
    ratSum ((expand cfg ds).map (·.amt)) = ratSum (ds.map (fun r => r.amt * ((r.addl : Rat) + 1))) :=
  expand_total_amount_aux cfg ds h

theorem expand_record_count (cfg : Cfg) (ds : List Rec) (h : cfg.hasAddl = true) :
    (expand cfg ds).length = ((ds.map (fun r => r.addl + 1)).sum) := expand_length cfg ds h

/-- without ADDL/II columns the dataset is returned unchanged -/
theorem expand_without_addl (cfg : Cfg) (ds : List Rec) (h : cfg.hasAddl = false) :
    expand cfg ds = ds := expand_noaddl cfg ds h

/-! ## derived columns: frame; MDV / EVID / observations / counts -/

/-- derived series are aligned with the records (one value per record, record order) -/
theorem derived_column_frame (cfg : Cfg) (ds : List Rec) :
    (getDoseid cfg ds).length = ds.length ∧ (getMdv cfg ds).length = ds.length ∧
      (getEvid cfg ds).length = ds.length := by
  refine ⟨zipMap_length _ _, by simp [getMdv], ?_⟩
  unfold getEvid; split <;> simp [getMdv]

/-- MDV is 0/1; EVID is the event column when there is one and MDV otherwise -/
theorem mdv_evid_rules (cfg : Cfg) (ds : List Rec) :
    (∀ v ∈ getMdv cfg ds, v = 0 ∨ v = 1) ∧
      (cfg.hasEvid = true → getEvid cfg ds = ds.map (·.evid)) ∧
      (cfg.hasEvid = false → getEvid cfg ds = getMdv cfg ds) := by
  refine ⟨?_, ?_, ?_⟩
  · intro v hv
    simp only [getMdv, List.mem_map] at hv
    obtain ⟨r, _, rfl⟩ := hv
    simp only [mdvOf, nz]
    repeat' split
    all_goals simp
  · intro h; simp [getEvid, h]
  · intro h; simp [getEvid, h]

/-- the observation records are exactly the records with MDV = 0, in record order -/
theorem observations_eq_mdv_zero (cfg : Cfg) (ds : List Rec) :
    getObservations cfg ds = ds.filter (fun r => mdvOf cfg r == 0) := by
  unfold getObservations
  apply List.filter_congr
  intro r _
  simp only [isObs, mdvOf, nz]
  repeat' split
  all_goals simp_all

/-- the per-individual observation counts add up to the number of observations -/
theorem nobs_per_individual_total (cfg : Cfg) (ds : List Rec) :
    ((nObsPerInd cfg ds).map (·.2)).sum = nObs cfg ds := by
  unfold nObsPerInd nObs
  simp only [List.map_map]
  have key : ∀ (ks : List Int) (xs : List Rec), ks.Nodup → (∀ x ∈ xs, x.id ∈ ks) →
      (ks.map (fun i => (xs.filter (fun r => r.id == i)).length)).sum = xs.length := by
    intro ks
    induction ks with
    | nil =>
      intro xs _ hall
      cases xs with
      | nil => rfl
      | cons x xs => exact absurd (hall x (by simp)) (by simp)
    | cons k ks ih =>
      intro xs hnd hall
      obtain ⟨hk, hnd'⟩ := List.nodup_cons.mp hnd
      simp only [List.map_cons, List.sum_cons]
      have hrest := ih (xs.filter (fun r => !(r.id == k))) hnd' (by
        intro x hx
        obtain ⟨hx1, hx2⟩ := List.mem_filter.mp hx
        have := hall x hx1
        simp at hx2
        rcases List.mem_cons.mp this with h | h
        · exact absurd h hx2
        · exact h)
      have hsame : ∀ i ∈ ks, ((xs.filter (fun r => !(r.id == k))).filter (fun r => r.id == i)).length
          = (xs.filter (fun r => r.id == i)).length := by
        intro i hi
        rw [List.filter_filter]
        congr 1
        apply List.filter_congr
        intro x _
        by_cases hxi : x.id = i
        · have : x.id ≠ k := by intro e; rw [e] at hxi; exact hk (hxi ▸ hi)
          simp [hxi, this]
          intro e; exact this (hxi.trans e)
        · simp [hxi]
      have : (ks.map (fun i => (xs.filter (fun r => r.id == i)).length))
          = ks.map (fun i => ((xs.filter (fun r => !(r.id == k))).filter (fun r => r.id == i)).length) :=
        List.map_congr_left (fun i hi => (hsame i hi).symm)
      rw [this, hrest]
      have hsplit : ∀ (l : List Rec), (l.filter (fun r => r.id == k)).length
          + (l.filter (fun r => !(r.id == k))).length = l.length := by
        intro l
        induction l with
        | nil => rfl
        | cons x l ihl =>
          by_cases hx : x.id = k <;> simp [List.filter_cons, hx] <;> omega
      have := hsplit xs
      omega
  apply key
  · exact (List.Perm.nodup_iff (List.mergeSort_perm _ _)).mpr (nodup_dedup _)
  · intro x hx
    rw [List.mem_mergeSort, mem_dedup]
    exact List.mem_map.mpr ⟨x, hx, rfl⟩

/-! ## get_admid / get_cmt: administration and compartment identifiers -/

/-- locality: at a boundary between two individuals the administration ids of the whole dataset are
    those of the two parts computed on their own — no state crosses the boundary -/
theorem admid_local (c : ACfg) (a b : List ERec)
    (hb : a.getLast?.map (·.id) ≠ b.head?.map (·.id)) (ha : a ≠ []) (hb0 : b ≠ []) :
    getAdmid c (a ++ b) = getAdmid c a ++ getAdmid c b := getAdmid_local c a b hb ha hb0

/-- for every decomposition of the records into runs of one individual each (neighbouring runs of
    different individuals) `get_admid` is the concatenation of the per-individual walks -/
theorem admid_eq_walk (c : ACfg) (ds : List ERec) (bs : List (List ARow)) (h : GoodBlocks bs)
    (hds : admRows c ds = bs.flatten) (hadm : c.hasAdm = false) :
    getAdmid c ds = bs.flatMap indAdmid := by
  unfold getAdmid
  simp only [hadm, Bool.false_eq_true, if_false]
  rw [hds]
  exact admFill_blocks bs h

/-- the ADMID series has one entry per record -/
theorem admid_frame (c : ACfg) (ds : List ERec) : (getAdmid c ds).length = ds.length :=
  getAdmid_length c ds

/-- `get_cmt` is total (05d598c) and a per-record map: one value per record, and the value of a
    record does not depend on any other record -/
theorem cmt_local (c : ACfg) (a b : List ERec) : getCmt c (a ++ b) = getCmt c a ++ getCmt c b :=
  getCmt_local c a b

theorem cmt_frame (c : ACfg) (ds : List ERec) : (getCmt c ds).length = ds.length := getCmt_length c ds

/-- per-record rules of `get_cmt` without compartment column: from EVID, doses (EVID 1, 4) go to the
    dose compartment and everything else to 0; from an admid column, observations are in the central
    compartment — for every model, also one that doses only into DEPOT -/
theorem cmt_rules (c : ACfg) (r : ERec) (h : c.hasCmt = false) :
    (c.hasAdm = false → isDoseEv r.evid = true → cmtOf c r = c.doseCmt) ∧
    (c.hasAdm = false → r.evid ≤ 3 → isDoseEv r.evid = false → cmtOf c r = 0) ∧
    (c.hasAdm = true → r.evid = 0 → cmtOf c r = c.central) := by
  refine ⟨?_, ?_, ?_⟩
  · intro ha hd
    simp only [isDoseEv, Bool.or_eq_true, beq_iff_eq] at hd
    rcases hd with e | e <;> simp [cmtOf, h, ha, evidCmt, replaceVal, e, List.lookup]
  · intro ha h3 hd
    simp only [isDoseEv, Bool.or_eq_false_iff, beq_eq_false_iff_ne, ne_eq] at hd
    have : r.evid = 0 ∨ r.evid = 2 ∨ r.evid = 3 := by omega
    rcases this with e | e | e <;> simp [cmtOf, h, ha, evidCmt, replaceVal, e, List.lookup]
  · intro ha e
    simp [cmtOf, h, ha, e]

/-- 208e5ef: an EVID 4 (reset and dose) record carries its own route and makes it the last used one
    (before the repair this dataset gave `[0, 0, 0]`) -/
theorem admid_evid4_fixed :
    getAdmid ⟨false, false, 1, 1, true, none, [(1, 1)]⟩ [⟨1, 0, 0, 0⟩, ⟨1, 4, 0, 0⟩, ⟨1, 0, 0, 0⟩] = [0, 1, 1] := by
  decide +kernel

/-- non-vacuity of `admid_eq_walk`: two individuals, the second starts with a pre-dose sample -/
example :
    let c : ACfg := ⟨false, false, 1, 1, true, none, [(1, 1)]⟩
    let ds : List ERec := [⟨1, 1, 0, 0⟩, ⟨1, 0, 0, 0⟩, ⟨2, 0, 0, 0⟩, ⟨2, 1, 0, 0⟩, ⟨2, 0, 0, 0⟩]
    GoodBlocks [(admRows c ds).take 2, (admRows c ds).drop 2] ∧ getAdmid c ds = [1, 1, 0, 1, 1] := by
  refine ⟨?_, by decide +kernel⟩
  simp [GoodBlocks, ConstId, admRows]

/-! ## baselines, ids, time-varying covariates (datasets with missing values) -/

/-- a baseline is the FIRST RECORD of its individual — the record itself, whatever is missing in it -/
theorem baselines_first_record (ds : List CRec) (r : CRec) (h : r ∈ baselines ds) :
    (recordsOf r.id ds).head? = some r :=
  (firstsAux_first (fun x : CRec => x.id) [] ds r h).2

/-- every baseline is a record of the dataset, unchanged, and the baselines are in record order -/
theorem baselines_records_kept (ds : List CRec) : (baselines ds).Sublist ds :=
  firstsAux_sublist (fun x : CRec => x.id) [] ds

/-- exactly one baseline / id per individual -/
theorem ids_one_per_individual (ds : List CRec) :
    (getIds ds).Nodup ∧ ∀ r ∈ ds, r.id ∈ getIds ds :=
  ⟨(firstsAux_nodup (fun x : CRec => x.id) [] ds).1,
    fun r hr => firstsAux_complete (fun x : CRec => x.id) [] ds r hr (by simp)⟩

/-- every individual has its first record as baseline -/
theorem baseline_of_every_individual (ds : List CRec) (r : CRec) (hr : r ∈ ds) :
    ∃ b ∈ baselines ds, b.id = r.id ∧ (recordsOf r.id ds).head? = some b := by
  have := (ids_one_per_individual ds).2 r hr
  simp only [getIds, List.mem_map] at this
  obtain ⟨b, hb, hid⟩ := this
  exact ⟨b, hb, hid, hid ▸ baselines_first_record ds b hb⟩

/-- locality: the baselines of two groups of individuals side by side are those of each group alone -/
theorem baselines_local (a b : List CRec) (h : ∀ x ∈ a, ∀ y ∈ b, x.id ≠ y.id) :
    baselines (a ++ b) = baselines a ++ baselines b :=
  firstsAux_local (fun x : CRec => x.id) a b h

/-- a column is reported time varying iff two records of one individual carry two different
    non-missing values (missing values are no values) -/
theorem time_varying_iff (j : Nat) (ds : List CRec) :
    timeVarying j ds = true ↔
      ∃ x ∈ ds, ∃ y ∈ ds, x.id = y.id ∧ ∃ a b, cell j x = some a ∧ cell j y = some b ∧ a ≠ b := by
  unfold timeVarying
  rw [List.any_eq_true]
  constructor
  · rintro ⟨i, _, hi⟩
    have hi' := (nunique_gt_one _).mp (of_decide_eq_true hi)
    obtain ⟨a, b, ha, hb, hne⟩ := hi'
    simp only [List.mem_map, recordsOf, List.mem_filter, beq_iff_eq] at ha hb
    obtain ⟨x, ⟨hx, hxi⟩, hxa⟩ := ha
    obtain ⟨y, ⟨hy, hyi⟩, hyb⟩ := hb
    exact ⟨x, hx, y, hy, hxi.trans hyi.symm, a, b, hxa, hyb, hne⟩
  · rintro ⟨x, hx, y, hy, hid, a, b, hxa, hyb, hne⟩
    refine ⟨x.id, (ids_one_per_individual ds).2 x hx, decide_eq_true ?_⟩
    apply (nunique_gt_one _).mpr
    refine ⟨a, b, ?_, ?_, hne⟩
    · simp only [List.mem_map, recordsOf, List.mem_filter, beq_iff_eq]
      exact ⟨x, ⟨hx, rfl⟩, hxa⟩
    · simp only [List.mem_map, recordsOf, List.mem_filter, beq_iff_eq]
      exact ⟨y, ⟨hy, hid.symm⟩, hyb⟩

/-- 7f08375: the per-individual observation counts count RECORDS (a missing DV included) and add up to
    the number of observation records -/
theorem nobs_count_total (obs : List (Int × Option Rat)) :
    ((nObsPerCount obs).map (·.2)).sum = obs.length := nObsPerCount_total obs

/-- 5109c1d: without covariate columns nothing is time varying (and the call is total) -/
theorem time_varying_no_covariates (ds : List CRec) : listTimeVarying [] ds = [] := rfl

/-- missing values in a first record stay missing: the baseline is not completed from later records -/
theorem baselines_missing_witness :
    baselines [⟨0, 3, [none, some 30]⟩, ⟨1, 3, [some 70, some 30]⟩, ⟨2, 1, [some 60, none]⟩, ⟨3, 3, [some 71, none]⟩]
      = [⟨0, 3, [none, some 30]⟩, ⟨2, 1, [some 60, none]⟩] := by
  decide +kernel

end Pharmpy.C14
