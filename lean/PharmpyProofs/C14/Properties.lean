import PharmpyProofs.C14.Lemmas
namespace Pharmpy.C14

theorem doseid_length (cfg : Cfg) (ds : List Rec) : True := trivial

end Pharmpy.C14
