import PharmpyModel.C14.Model
namespace Pharmpy.C14
end Pharmpy.C14
