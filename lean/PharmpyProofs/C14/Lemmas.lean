import PharmpyModel.C14.Model
/-
  C14 — generic helper lemmas about the row-wise map with context (`zipMap`),
  `dedup`, and sums.
-/
namespace Pharmpy.C14

/-! ### zipMap -/

theorem zipMapAux_length {α β : Type} (f : List α → α → List α → β) (pre l : List α) :
    (zipMapAux f pre l).length = l.length := by
  induction l generalizing pre with
  | nil => rfl
  | cons r post ih => simp [zipMapAux, ih]

theorem zipMap_length {α β : Type} (f : List α → α → List α → β) (l : List α) :
    (zipMap f l).length = l.length := zipMapAux_length f [] l

theorem zipMapAux_append {α β : Type} (f : List α → α → List α → β) (pre a b : List α) :
    zipMapAux f pre (a ++ b) =
      zipMapAux (fun p r q => f p r (q ++ b)) pre a ++ zipMapAux f (pre ++ a) b := by
  induction a generalizing pre with
  | nil => simp [zipMapAux]
  | cons r a ih => simp [zipMapAux, ih, List.append_assoc]

/-- every entry of `zipMapAux f pre l` is `f` at a split of `l` -/
theorem mem_zipMapAux {α β : Type} {f : List α → α → List α → β} {pre l : List α} {y : β} :
    y ∈ zipMapAux f pre l ↔ ∃ a r b, l = a ++ r :: b ∧ y = f (pre ++ a) r b := by
  induction l generalizing pre with
  | nil => simp [zipMapAux]
  | cons x l ih =>
    simp only [zipMapAux, List.mem_cons, ih]
    constructor
    · rintro (h | ⟨a, r, b, hl, hy⟩)
      · exact ⟨[], x, l, by simp, by simpa using h⟩
      · exact ⟨x :: a, r, b, by simp [hl], by simpa [List.append_assoc] using hy⟩
    · rintro ⟨a, r, b, hl, hy⟩
      cases a with
      | nil =>
        simp at hl
        obtain ⟨rfl, rfl⟩ := hl
        left; simpa using hy
      | cons a0 a =>
        simp at hl
        obtain ⟨rfl, rfl⟩ := hl
        right; exact ⟨a, r, b, rfl, by simpa [List.append_assoc] using hy⟩

theorem mem_zipMap {α β : Type} {f : List α → α → List α → β} {l : List α} {y : β} :
    y ∈ zipMap f l ↔ ∃ a r b, l = a ++ r :: b ∧ y = f a r b := by
  simpa [zipMap] using (mem_zipMapAux (f := f) (pre := []) (l := l) (y := y))

/-- congruence: two context functions that agree on every split of the whole list -/
theorem zipMapAux_congr {α β : Type} {f g : List α → α → List α → β} {pre l : List α}
    (h : ∀ a r b, l = a ++ r :: b → f (pre ++ a) r b = g (pre ++ a) r b) :
    zipMapAux f pre l = zipMapAux g pre l := by
  induction l generalizing pre with
  | nil => rfl
  | cons x l ih =>
    simp only [zipMapAux]
    congr 1
    · simpa using h [] x l rfl
    · apply ih
      intro a r b hl
      simpa [List.append_assoc] using h (x :: a) r b (by simp [hl])

theorem zipMap_congr {α β : Type} {f g : List α → α → List α → β} {l : List α}
    (h : ∀ a r b, l = a ++ r :: b → f a r b = g a r b) : zipMap f l = zipMap g l :=
  zipMapAux_congr (pre := []) (by simpa using h)

theorem zipMapAux_eq_map {α β : Type} (g : α → β) (pre l : List α) :
    zipMapAux (fun _ r _ => g r) pre l = l.map g := by
  induction l generalizing pre with
  | nil => rfl
  | cons x l ih => simp [zipMapAux, ih]

/-- the first components of `zipMap (fun pre r post => (r, h pre r post))` are the list itself -/
theorem zipMapAux_map_fst {α β : Type} (h : List α → α → List α → β) (pre l : List α) :
    (zipMapAux (fun p r q => (r, h p r q)) pre l).map Prod.fst = l := by
  induction l generalizing pre with
  | nil => rfl
  | cons x l ih => simp [zipMapAux, ih]

/-! ### dedup -/

theorem mem_dedup {α : Type} [DecidableEq α] {a : α} {l : List α} : a ∈ dedup l ↔ a ∈ l := by
  induction l with
  | nil => simp [dedup]
  | cons x l ih =>
    simp only [dedup]
    split
    · rename_i hx
      simp only [ih, List.mem_cons]
      constructor
      · exact Or.inr
      · rintro (rfl | h)
        · exact hx
        · exact h
    · simp [ih]

theorem nodup_dedup {α : Type} [DecidableEq α] (l : List α) : (dedup l).Nodup := by
  induction l with
  | nil => simp [dedup]
  | cons x l ih =>
    simp only [dedup]
    split
    · exact ih
    · rename_i hx
      exact List.nodup_cons.mpr ⟨by simpa [mem_dedup] using hx, ih⟩

/-! ### sums -/

theorem ratSum_append (a b : List Rat) : ratSum (a ++ b) = ratSum a + ratSum b := by
  induction a with
  | nil => simp only [ratSum, List.nil_append, List.foldr_nil]; grind
  | cons x a ih =>
    simp only [ratSum, List.cons_append, List.foldr_cons] at ih ⊢
    rw [ih]; grind

theorem ratSum_perm {a b : List Rat} (h : a.Perm b) : ratSum a = ratSum b := by
  induction h with
  | nil => rfl
  | cons x _ ih => simp only [ratSum, List.foldr_cons] at ih ⊢; rw [ih]
  | swap x y l => simp only [ratSum, List.foldr_cons]; grind
  | trans _ _ ih1 ih2 => exact ih1.trans ih2

theorem intSum_append (a b : List Int) : intSum (a ++ b) = intSum a + intSum b := by
  induction a with
  | nil => simp [intSum]
  | cons x a ih =>
    simp only [intSum, List.cons_append, List.foldr_cons] at ih ⊢
    omega

end Pharmpy.C14

namespace Pharmpy.C14
/-- record literal for witnesses: label, id, time, amount, EVID (other columns zero) -/
def mkRec (lab : Nat) (id : Int) (time amt : Rat) (evid : Nat := 0) : Rec :=
  { lab := lab, id := id, time := time, amt := amt, evid := evid, ss := 0, addl := 0, ii := 0,
    mdv := 0, expanded := false }
def cfgDose : Cfg := ⟨true, false, false, false, false⟩
def cfgEvid : Cfg := ⟨true, true, false, false, false⟩
end Pharmpy.C14
