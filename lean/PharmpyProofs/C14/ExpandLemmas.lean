import PharmpyProofs.C14.Lemmas
/-
  C14 — lemmas about `expand_additional_doses` (`explodeRow`, `exploded`,
  `expandRg`, `expand`): the result is a permutation of the exploded rows, the
  total amount is preserved, and every original record appears exactly once.
-/
namespace Pharmpy.C14

/-! ### generic list helpers -/

theorem perm_flatMap_congr {α β : Type} {f g : α → List β} (l : List α)
    (h : ∀ a ∈ l, (f a).Perm (g a)) : (l.flatMap f).Perm (l.flatMap g) := by
  induction l with
  | nil => simp
  | cons x l ih =>
    simp only [List.flatMap_cons]
    exact List.Perm.append (h x (by simp)) (ih (fun a ha => h a (by simp [ha])))

theorem flatMap_congr' {α β : Type} {f g : α → List β} {l : List α}
    (h : ∀ a ∈ l, f a = g a) : l.flatMap f = l.flatMap g := by
  induction l with
  | nil => rfl
  | cons x l ih =>
    simp only [List.flatMap_cons]
    rw [h x (by simp), ih (fun a ha => h a (by simp [ha]))]

/-- grouping a list by the keys of a duplicate-free key list covering all its keys
    gives a permutation of the list -/
theorem flatMap_filter_key_perm {α κ : Type} [BEq κ] [LawfulBEq κ] (key : α → κ) (ks : List κ)
    (hnd : ks.Nodup) (xs : List α) (h : ∀ x ∈ xs, key x ∈ ks) :
    (ks.flatMap (fun k => xs.filter (fun p => key p == k))).Perm xs := by
  induction ks generalizing xs with
  | nil =>
    cases xs with
    | nil => simp
    | cons x xs => exact absurd (h x (by simp)) (by simp)
  | cons k ks ih =>
    obtain ⟨hk, hnd'⟩ := List.nodup_cons.mp hnd
    simp only [List.flatMap_cons]
    have hrest : ks.flatMap (fun k' => xs.filter (fun p => key p == k')) =
        ks.flatMap (fun k' => (xs.filter (fun p => !(key p == k))).filter (fun p => key p == k')) := by
      apply flatMap_congr'
      intro k' hk'
      rw [List.filter_filter]
      apply List.filter_congr
      intro x _
      by_cases hx : key x = k'
      · subst hx
        have : key x ≠ k := by
          intro hxk; exact hk (hxk ▸ hk')
        simp [this]
      · simp [hx]
    rw [hrest]
    have ih' := ih hnd' (xs.filter (fun p => !(key p == k))) (by
      intro x hx
      simp only [List.mem_filter] at hx
      have := h x hx.1
      simp only [List.mem_cons] at this
      rcases this with h1 | h1
      · simp [h1] at hx
      · exact h1)
    exact (List.Perm.append_left _ ih').trans (List.filter_append_perm _ xs)

/-! ### one row -/

theorem ratSum_map_const (c : Rat) (n : Nat) :
    ratSum ((List.range n).map (fun _ => c)) = c * (n : Rat) := by
  induction n with
  | zero => simp [ratSum]
  | succ n ih =>
    rw [List.range_succ, List.map_append, ratSum_append, ih]
    simp only [List.map_cons, List.map_nil, ratSum, List.foldr_cons, List.foldr_nil,
      Rat.natCast_add]
    grind

theorem explodeRow_amt (r : Rec) :
    ratSum ((explodeRow r).map (·.amt)) = r.amt * ((r.addl : Rat) + 1) := by
  unfold explodeRow
  split
  · rename_i h
    have h0 : r.addl = 0 := by simpa using h
    simp only [List.map_cons, List.map_nil, ratSum, List.foldr_cons, List.foldr_nil, h0]
    grind
  · rw [List.map_map]
    have := ratSum_map_const r.amt (r.addl + 1)
    simp only [Rat.natCast_add] at this
    simpa [Function.comp_def] using this

theorem explodeRow_filter (r : Rec) (hr : r.expanded = false) :
    (explodeRow r).filter (fun x => !x.expanded) = [r] := by
  unfold explodeRow
  split
  · simp [hr]
  · rw [List.range_succ_eq_map]
    simp only [List.map_cons, List.map_map]
    have h0 : ({ r with time := r.ii * ((0 : Nat) : Rat) + r.time, expanded := (0 : Nat) != 0 } : Rec) = r := by
      cases r
      simp only [Rec.mk.injEq, true_and] at hr ⊢
      refine ⟨?_, ?_⟩
      · simp [Rat.mul_zero, Rat.zero_add]
      · simp_all
    rw [h0, List.filter_cons]
    simp only [hr, Bool.not_false, if_true]
    congr 1
    rw [List.filter_eq_nil_iff]
    intro a ha
    simp only [List.mem_map, Function.comp] at ha
    obtain ⟨x, _, rfl⟩ := ha
    simp

theorem explodeRow_length (r : Rec) : (explodeRow r).length = r.addl + 1 := by
  unfold explodeRow
  split
  · rename_i h
    have h0 : r.addl = 0 := by simpa using h
    simp [h0]
  · simp

/-! ### the exploded dataset -/

theorem explodedAux_map_fst (cfg : Cfg) (pre ds : List Rec) :
    ((zipMapAux (fun pre r _ => (r, rgOf cfg pre r)) pre ds).flatMap
      (fun p => (explodeRow p.1).map (fun x => (x, p.2)))).map (·.1) = ds.flatMap explodeRow := by
  induction ds generalizing pre with
  | nil => simp [zipMapAux]
  | cons r ds ih =>
    simp only [zipMapAux, List.flatMap_cons, List.map_append, ih]
    simp [Function.comp_def]

theorem exploded_map_fst (cfg : Cfg) (ds : List Rec) :
    (exploded cfg ds).map (·.1) = ds.flatMap explodeRow :=
  explodedAux_map_fst cfg [] ds

/-! ### expandRg is a permutation of the exploded rows -/

theorem expandRg_perm (cfg : Cfg) (ds : List Rec) : (expandRg cfg ds).Perm (exploded cfg ds) := by
  unfold expandRg
  simp only
  split
  · unfold expandGroups
    simp only [List.flatMap_map]
    refine (perm_flatMap_congr _ (fun k _ => List.mergeSort_perm _ _)).trans ?_
    refine (List.Perm.flatMap_right _ (List.mergeSort_perm _ _)).trans ?_
    exact flatMap_filter_key_perm (fun p : Rec × Nat => (p.1.id, p.2)) _ (nodup_dedup _) _
      (fun x hx => mem_dedup.mpr (List.mem_map.mpr ⟨x, hx, rfl⟩))
  · exact List.Perm.refl _

theorem expand_map_fst_perm (cfg : Cfg) (ds : List Rec) (h : cfg.hasAddl = true) :
    (expand cfg ds).Perm (ds.flatMap explodeRow) := by
  unfold expand
  rw [if_pos h, ← exploded_map_fst cfg ds]
  exact (expandRg_perm cfg ds).map _

/-! ### main properties -/

theorem ratSum_flatMap_explodeRow (ds : List Rec) :
    ratSum ((ds.flatMap explodeRow).map (·.amt)) =
      ratSum (ds.map (fun r => r.amt * ((r.addl : Rat) + 1))) := by
  induction ds with
  | nil => rfl
  | cons r ds ih =>
    simp only [List.flatMap_cons, List.map_append, ratSum_append, ih, explodeRow_amt, List.map_cons]
    simp only [ratSum, List.foldr_cons]

theorem expand_total_amount_aux (cfg : Cfg) (ds : List Rec) (h : cfg.hasAddl = true) :
    ratSum ((expand cfg ds).map (·.amt)) = ratSum (ds.map (fun r => r.amt * ((r.addl : Rat) + 1))) := by
  rw [ratSum_perm ((expand_map_fst_perm cfg ds h).map _)]
  exact ratSum_flatMap_explodeRow ds

theorem expand_preserves_records_aux (cfg : Cfg) (ds : List Rec) (h : cfg.hasAddl = true)
    (hne : ∀ r ∈ ds, r.expanded = false) :
    ((expand cfg ds).filter (fun r => !r.expanded)).Perm ds := by
  refine ((expand_map_fst_perm cfg ds h).filter _).trans ?_
  rw [List.filter_flatMap]
  have : ds.flatMap (fun a => (explodeRow a).filter (fun r => !r.expanded)) = ds.flatMap (fun a => [a]) :=
    flatMap_congr' (fun a ha => explodeRow_filter a (hne a ha))
  rw [this]
  simp

theorem expand_noaddl (cfg : Cfg) (ds : List Rec) (h : cfg.hasAddl = false) : expand cfg ds = ds := by
  simp [expand, h]

theorem expand_length (cfg : Cfg) (ds : List Rec) (h : cfg.hasAddl = true) :
    (expand cfg ds).length = ((ds.map (fun r => r.addl + 1)).sum) := by
  rw [(expand_map_fst_perm cfg ds h).length_eq]
  induction ds with
  | nil => rfl
  | cons r ds ih => simp [List.flatMap_cons, explodeRow_length, ih]

end Pharmpy.C14
