import PharmpyProofs.C14.Lemmas
/-
  C14 — get_doseid agrees with the per-individual walk on regular datasets.
-/
namespace Pharmpy.C14

/-! ### the walk as a row-wise map -/

/-- state of individual `i` after the records `pre` -/
def stateOf (cfg : Cfg) (pre : List Rec) (i : Int) : St :=
  (pre.filter (fun x => x.id == i)).foldl (stepSt cfg) St.init

theorem stateOf_snoc (cfg : Cfg) (pre : List Rec) (r : Rec) :
    (fun i => if i == r.id then stepSt cfg (stateOf cfg pre i) r else stateOf cfg pre i)
      = stateOf cfg (pre ++ [r]) := by
  funext i
  unfold stateOf
  by_cases h : i = r.id
  · subst h; simp [List.filter_append, List.foldl_append]
  · have h' : ¬ r.id = i := fun e => h e.symm
    simp [List.filter_append, h, h']

theorem walkAux_eq (cfg : Cfg) (pre post : List Rec) :
    walkAux cfg (stateOf cfg pre) post
      = zipMapAux (fun p r _ => outSt cfg (stateOf cfg p r.id) r) pre post := by
  induction post generalizing pre with
  | nil => rfl
  | cons r rest ih =>
    simp only [walkAux, zipMapAux]
    rw [stateOf_snoc, ih]

theorem walkDoseid_eq (cfg : Cfg) (ds : List Rec) :
    walkDoseid cfg ds = zipMap (fun p r _ => outSt cfg (stateOf cfg p r.id) r) ds := by
  unfold walkDoseid zipMap
  rw [← walkAux_eq]
  rfl


/-! ### the state of an individual without reset events -/

def info (cfg : Cfg) (g : Nat) (d : Rec) : Rat × Bool × Nat := (d.time, ssPos cfg d, g)

theorem foldl_stepSt (cfg : Cfg) (P : List Rec) (hP : ∀ x ∈ P, resetFlag cfg x = false) (s : St) :
    P.foldl (stepSt cfg) s =
      ⟨s.cur + ((P.filter isDose).length : Int), s.rg,
        match (P.filter isDose).getLast? with
        | some d => some (info cfg s.rg d)
        | none => s.last⟩ := by
  induction P generalizing s with
  | nil => simp
  | cons x P ih =>
    have hx : resetFlag cfg x = false := hP x (by simp)
    have hP' : ∀ y ∈ P, resetFlag cfg y = false := fun y hy => hP y (by simp [hy])
    simp only [List.foldl_cons]
    rw [ih hP']
    by_cases hd : x.amt > 0
    · have : isDose x = true := by simp [isDose, hd]
      simp only [stepSt, hd, if_true, rgNext, hx, List.filter_cons, this, List.length_cons,
        List.getLast?_cons]
      cases h : (List.filter isDose P).getLast? <;> simp [info] <;> omega
    · have : isDose x = false := by simp [isDose, hd]
      simp [stepSt, hd, rgNext, hx, List.filter_cons, this]

theorem stateOf_plain (cfg : Cfg) (pre : List Rec) (i : Int)
    (hP : ∀ x ∈ pre, resetFlag cfg x = false) :
    stateOf cfg pre i =
      ⟨(((pre.filter (fun x => x.id == i)).filter isDose).length : Int), 0,
        match ((pre.filter (fun x => x.id == i)).filter isDose).getLast? with
        | some d => some (info cfg 0 d)
        | none => none⟩ := by
  unfold stateOf
  rw [foldl_stepSt cfg _ (fun x hx => hP x (List.mem_filter.mp hx).1)]
  simp [St.init]

theorem intSum_flag (P : List Rec) : intSum (P.map flag) = ((P.filter isDose).length : Int) := by
  induction P with
  | nil => rfl
  | cons x P ih =>
    simp only [intSum, List.map_cons, List.foldr_cons] at ih ⊢
    rw [ih]
    by_cases hd : x.amt > 0
    · simp [flag, isDose, hd]; omega
    · simp [flag, isDose, hd]

/-! ### reset groups without reset events -/

theorem withRg_snd (cfg : Cfg) (i : Int) (xs : List Rec) (h : ∀ x ∈ xs, resetFlag cfg x = false) (g : Nat) :
    ∀ p ∈ withRg cfg i g xs, p.2 = g := by
  induction xs generalizing g with
  | nil => simp [withRg]
  | cons x xs ih =>
    have hx : resetFlag cfg x = false := h x (by simp)
    intro p hp
    simp only [withRg, hx, Bool.and_false, Bool.false_eq_true, if_false, List.mem_cons] at hp
    rcases hp with rfl | hp
    · rfl
    · exact ih (fun y hy => h y (by simp [hy])) g p hp

theorem withRg_fst (cfg : Cfg) (i : Int) (xs : List Rec) (g : Nat) :
    (withRg cfg i g xs).map Prod.fst = xs := by
  induction xs generalizing g with
  | nil => simp [withRg]
  | cons x xs ih => simp [withRg, ih]

theorem groupRgs_length (cfg : Cfg) (r : Rec) (all : List Rec) :
    (groupRgs cfg r all).length = (all.filter (sameIT r)).length := by
  unfold groupRgs
  rw [List.length_map]
  have := withRg_fst cfg r.id all 0
  conv => rhs; rw [← this]
  rw [List.filter_map, List.length_map]
  rfl

theorem groupRgs_zero (cfg : Cfg) (r : Rec) (all : List Rec) (h : ∀ x ∈ all, resetFlag cfg x = false) :
    ∀ v ∈ groupRgs cfg r all, v = 0 := by
  intro v hv
  unfold groupRgs at hv
  rw [List.mem_map] at hv
  obtain ⟨p, hp, rfl⟩ := hv
  exact withRg_snd cfg r.id all h 0 p (List.mem_filter.mp hp).1

theorem foldr_max_zero (gs : List Nat) (h0 : ∀ v ∈ gs, v = 0) : gs.foldr max 0 = 0 := by
  induction gs with
  | nil => rfl
  | cons x gs ih =>
    have hx : x = 0 := h0 x (by simp)
    simp [List.foldr_cons, ih (fun v hv => h0 v (by simp [hv])), hx]

theorem multOf_zeros (gs : List Nat) (h0 : ∀ v ∈ gs, v = 0) (hl : 2 ≤ gs.length) : multOf gs = 1 := by
  have hrep : gs = List.replicate gs.length 0 := List.eq_replicate_iff.mpr ⟨rfl, h0⟩
  unfold multOf
  rw [foldr_max_zero gs h0]
  have hc : gs.count 0 = gs.length := by
    conv => lhs; rw [hrep]
    simp
  have : (List.range (0 + 1)).filter (fun v => decide (gs.count v > 1)) = [0] := by
    simp [List.range_succ, hc]; omega
  rw [this]; rfl

/-! ### one record -/

theorem rat_pos_of_ne {q : Rat} (h0 : 0 ≤ q) (hne : q ≠ 0) : q > 0 := by grind

theorem groupDoses_eq (r : Rec) (a : List Rec) (hamt : ∀ x ∈ a, 0 ≤ x.amt) :
    groupDoses r a =
      ((a.filter (fun x => x.id == r.id)).filter isDose).filter (fun x => x.time == r.time) := by
  unfold groupDoses
  simp only [List.filter_filter]
  apply List.filter_congr
  intro x hx
  have h0 := hamt x hx
  by_cases hz : x.amt = 0
  · have : ¬ x.amt > 0 := by rw [hz]; exact Rat.lt_irrefl
    simp [sameIT, isDose, hz, this]
  · have : x.amt > 0 := rat_pos_of_ne h0 hz
    simp [sameIT, isDose, hz, this, Bool.and_comm]

/-- the decidable side condition for one record -/
structure RowOk (cfg : Cfg) (a : List Rec) (r : Rec) (b : List Rec) : Prop where
  amt : ∀ x ∈ a ++ r :: b, 0 ≤ x.amt
  noreset : ∀ x ∈ a ++ r :: b, resetFlag cfg x = false
  chrono : Chrono (a ++ r :: b)
  distinct : DistinctDoseTimes (a ++ r :: b)

theorem doseidAt_dose (cfg : Cfg) (a : List Rec) (r : Rec) (b : List Rec)
    (h : RowOk cfg a r b) (hd : r.amt > 0) :
    doseidAt cfg a r b = outSt cfg (stateOf cfg a r.id) r := by
  have hne : (r.amt == 0) = false := by
    have : r.amt ≠ 0 := by grind
    simpa using this
  rw [stateOf_plain cfg a r.id (fun x hx => h.noreset x (by simp [hx]))]
  simp only [doseidAt, elig, hne, Bool.false_and, Bool.false_eq_true, if_false, outSt, hd, if_true, cumOf]
  have : (List.filter (sameId r) a) = a.filter (fun x => x.id == r.id) := rfl
  rw [this, intSum_flag]
  simp [flag, hd]

/-- doses of the individual of `r` before `r` -/
def dosesBefore (a : List Rec) (r : Rec) : List Rec :=
  (a.filter (fun x => x.id == r.id)).filter isDose

theorem mem_dosesBefore {a : List Rec} {r x : Rec} :
    x ∈ dosesBefore a r ↔ x ∈ a ∧ x.id = r.id ∧ isDose x = true := by
  simp only [dosesBefore, List.mem_filter, beq_iff_eq]
  constructor
  · rintro ⟨⟨h1, h2⟩, h3⟩; exact ⟨h1, h2, h3⟩
  · rintro ⟨h1, h2, h3⟩; exact ⟨⟨h1, h2⟩, h3⟩

theorem dosesBefore_sublist (a : List Rec) (r : Rec) : (dosesBefore a r).Sublist a :=
  List.Sublist.trans List.filter_sublist List.filter_sublist

/-- under the side condition the earlier doses of an individual have strictly increasing times -/
theorem dosesBefore_last {cfg : Cfg} {a : List Rec} {r : Rec} {b : List Rec} (h : RowOk cfg a r b)
    {ys : List Rec} {d : Rec} (hD : dosesBefore a r = ys ++ [d]) :
    d ∈ a ∧ d.id = r.id ∧ isDose d = true ∧ d.time ≤ r.time ∧
      ∀ y ∈ ys, y ∈ a ∧ y.id = r.id ∧ y.time < d.time := by
  have hd : d ∈ dosesBefore a r := by rw [hD]; simp
  obtain ⟨hda, hdi, hdd⟩ := mem_dosesBefore.mp hd
  have hch := List.pairwise_append.mp h.chrono
  have hdi' := List.pairwise_append.mp h.distinct
  have hdr : d.time ≤ r.time := hch.2.2 d hda r (by simp) hdi.symm
  refine ⟨hda, hdi, hdd, hdr, ?_⟩
  intro y hy
  have hyD : y ∈ dosesBefore a r := by rw [hD]; simp [hy]
  obtain ⟨hya, hyi, hyd⟩ := mem_dosesBefore.mp hyD
  have p1 : List.Pairwise _ (ys ++ [d]) := hD ▸ List.Pairwise.sublist (dosesBefore_sublist a r) hch.1
  have p2 : List.Pairwise _ (ys ++ [d]) := hD ▸ List.Pairwise.sublist (dosesBefore_sublist a r) hdi'.1
  have q1 := (List.pairwise_append.mp p1).2.2 y hy d (by simp) (by rw [hdi, hyi])
  have q2 := (List.pairwise_append.mp p2).2.2 y hy d (by simp) (by rw [hdi, hyi]) hyd hdd
  refine ⟨hya, hyi, ?_⟩
  grind

theorem doseidAt_nondose (cfg : Cfg) (a : List Rec) (r : Rec) (b : List Rec)
    (h : RowOk cfg a r b) (hd : ¬ r.amt > 0) :
    doseidAt cfg a r b = outSt cfg (stateOf cfg a r.id) r := by
  have hr0 : r.amt = 0 := by have := h.amt r (by simp); grind
  have hbeq : (r.amt == 0) = true := by simp [hr0]
  have hflag : flag r = 0 := by simp [flag, hd]
  have hrf : resetFlag cfg r = false := h.noreset r (by simp)
  have hcum : cumOf a r = ((dosesBefore a r).length : Int) := by
    unfold cumOf
    have : List.filter (sameId r) a = a.filter (fun x => x.id == r.id) := rfl
    rw [this, intSum_flag, hflag]; simp [dosesBefore]
  have hG : groupDoses r a = (dosesBefore a r).filter (fun x => x.time == r.time) :=
    groupDoses_eq r a (fun x hx => h.amt x (by simp [hx]))
  rw [stateOf_plain cfg a r.id (fun x hx => h.noreset x (by simp [hx]))]
  change doseidAt cfg a r b = outSt cfg ⟨((dosesBefore a r).length : Int), 0,
    match (dosesBefore a r).getLast? with | some d => some (info cfg 0 d) | none => none⟩ r
  cases hl : (dosesBefore a r).getLast? with
  | none =>
    have hnil : dosesBefore a r = [] := List.getLast?_eq_none_iff.mp hl
    simp [doseidAt, elig, hG, hnil, outSt, hd, hcum]
  | some d =>
    obtain ⟨ys, hD⟩ := List.getLast?_eq_some_iff.mp hl
    obtain ⟨hda, hdi, hdd, hdr, hys⟩ := dosesBefore_last h hD
    have hfilt : (dosesBefore a r).filter (fun x => x.time == r.time)
        = if d.time == r.time then [d] else [] := by
      rw [hD, List.filter_append]
      have : ys.filter (fun x => x.time == r.time) = [] := by
        rw [List.filter_eq_nil_iff]
        intro y hy
        have := (hys y hy).2.2
        simp only [beq_iff_eq]
        grind
      rw [this]; simp [List.filter_cons]
    by_cases ht : d.time = r.time
    · have hte : (d.time == r.time) = true := by simpa using ht
      -- no dose of the group after `r`
      have hpost : groupDoses r b = [] := by
        unfold groupDoses
        rw [List.filter_filter, List.filter_eq_nil_iff]
        intro y hy hc
        simp only [sameIT, Bool.and_eq_true, beq_iff_eq, bne_iff_ne, ne_eq] at hc
        obtain ⟨hne, hyi, hyt⟩ := hc
        have hy0 := h.amt y (by simp [hy])
        have hyd : isDose y = true := by simp [isDose]; exact rat_pos_of_ne hy0 hne
        have := (List.pairwise_append.mp h.distinct).2.2 d hda y (by simp [hy]) (by rw [hyi, hdi]) hdd hyd
        grind
      -- the group has at least two records, all in reset group 0
      have hmult : multOf (groupRgs cfg r (a ++ r :: b)) = 1 := by
        apply multOf_zeros _ (groupRgs_zero cfg r _ h.noreset)
        rw [groupRgs_length, List.filter_append]
        have h1 : 1 ≤ (a.filter (sameIT r)).length := by
          apply List.length_pos_of_mem (a := d)
          simp [List.mem_filter, hda, sameIT, hdi, ht]
        have h2 : 1 ≤ ((r :: b).filter (sameIT r)).length := by
          apply List.length_pos_of_mem (a := r)
          simp [List.mem_filter, sameIT]
        simp only [List.length_append]; omega
      have hlen : (dosesBefore a r).length = ys.length + 1 := by rw [hD]; simp
      cases hss : ssPos cfg d with
      | true =>
        simp [doseidAt, elig, hG, hfilt, hte, hpost, outSt, hd, hcum, info, hbeq, hlen, hss]
      | false =>
        cases ys with
        | nil =>
          simp [doseidAt, elig, hG, hfilt, hte, hpost, outSt, hd, hcum, info, hbeq, hlen, hss, hmult,
            decTo1, rgNext, hrf]
        | cons y ys' =>
          have hgt : ¬ ((ys'.length : Int) + 1 + 1 ≤ 1) := by omega
          have hgt' : ((ys'.length : Int) + 1 + 1 > 1) := by omega
          simp [doseidAt, elig, hG, hfilt, hte, hpost, outSt, hd, hcum, info, hbeq, hlen, hss, hmult,
            decTo1, rgNext, hrf, hgt, hgt']
          omega
    · have hte : (d.time == r.time) = false := by simpa using ht
      simp [doseidAt, elig, hG, hfilt, hte, outSt, hd, hcum, info]

/-! ### the whole data set -/

theorem regular_rowOk {cfg : Cfg} {ds : List Rec} (h : Regular cfg ds) {a : List Rec} {r : Rec}
    {b : List Rec} (hs : ds = a ++ r :: b) : RowOk cfg a r b := by
  obtain ⟨hp, hc, hdd⟩ := h
  subst hs
  simp only [plain, List.all_eq_true, Bool.and_eq_true, decide_eq_true_eq, Bool.not_eq_true'] at hp
  exact ⟨fun x hx => (hp x hx).1, fun x hx => (hp x hx).2, hc, hdd⟩

theorem doseid_eq_walk {cfg : Cfg} {ds : List Rec} (h : Regular cfg ds) :
    getDoseid cfg ds = walkDoseid cfg ds := by
  rw [walkDoseid_eq]
  unfold getDoseid
  apply zipMap_congr
  intro a r b hs
  have hrow := regular_rowOk h hs
  by_cases hd : r.amt > 0
  · exact doseidAt_dose cfg a r b hrow hd
  · exact doseidAt_nondose cfg a r b hrow hd

/-! ### dose records: no side condition -/

theorem foldl_stepSt_cur (cfg : Cfg) (P : List Rec) (s : St) :
    (P.foldl (stepSt cfg) s).cur = s.cur + ((P.filter isDose).length : Int) := by
  induction P generalizing s with
  | nil => simp
  | cons x P ih =>
    simp only [List.foldl_cons]
    rw [ih]
    by_cases hd : x.amt > 0
    · have : isDose x = true := by simp [isDose, hd]
      simp [stepSt, hd, List.filter_cons, this]; omega
    · have : isDose x = false := by simp [isDose, hd]
      simp [stepSt, hd, List.filter_cons, this]

/-- at a dose record `get_doseid` is the walk, for every dataset -/
theorem doseidAt_dose_any (cfg : Cfg) (a : List Rec) (r : Rec) (b : List Rec) (hd : r.amt > 0) :
    doseidAt cfg a r b = outSt cfg (stateOf cfg a r.id) r := by
  have hne : (r.amt == 0) = false := by
    have : r.amt ≠ 0 := by grind
    simpa using this
  simp only [doseidAt, elig, hne, Bool.false_and, Bool.false_eq_true, if_false, outSt, hd, if_true,
    cumOf, stateOf]
  rw [foldl_stepSt_cur]
  have : (List.filter (sameId r) a) = a.filter (fun x => x.id == r.id) := rfl
  rw [this, intSum_flag]
  simp [flag, hd, St.init]

theorem zipMapAux_zip {α β γ : Type} (f : List α → α → List α → β) (g : List α → α → List α → γ)
    (pre l : List α) :
    (zipMapAux f pre l).zip (zipMapAux g pre l) = zipMapAux (fun p r q => (f p r q, g p r q)) pre l := by
  induction l generalizing pre with
  | nil => rfl
  | cons x l ih => simp [zipMapAux, ih]

theorem zip_zipMapAux' {α β : Type} (f : List α → α → List α → β) (pre l : List α) :
    l.zip (zipMapAux f pre l) = zipMapAux (fun p r q => (r, f p r q)) pre l := by
  induction l generalizing pre with
  | nil => rfl
  | cons x l ih => simp [zipMapAux, ih]

theorem doseid_walk_at_doses (cfg : Cfg) (ds : List Rec) :
    ∀ p ∈ ds.zip ((getDoseid cfg ds).zip (walkDoseid cfg ds)), p.1.amt > 0 → p.2.1 = p.2.2 := by
  intro p hp hd
  rw [walkDoseid_eq] at hp
  unfold getDoseid zipMap at hp
  rw [zipMapAux_zip, zip_zipMapAux'] at hp
  obtain ⟨a, r, b, _, rfl⟩ := mem_zipMapAux.mp hp
  simpa using doseidAt_dose_any cfg a r b hd

/-! ### datasets without ties: no other side condition (resets, any order of times) -/

theorem foldl_stepSt_last (cfg : Cfg) (P : List Rec) (s : St) (t : Rat) (ssd : Bool) (g : Nat)
    (h : (P.foldl (stepSt cfg) s).last = some (t, ssd, g)) :
    s.last = some (t, ssd, g) ∨ ∃ d ∈ P, d.amt > 0 ∧ d.time = t := by
  induction P generalizing s with
  | nil => left; simpa using h
  | cons x P ih =>
    simp only [List.foldl_cons] at h
    rcases ih _ h with h1 | ⟨d, hd, hd2⟩
    · by_cases hx : x.amt > 0
      · right
        simp only [stepSt, hx, if_true, Option.some.injEq, Prod.mk.injEq] at h1
        exact ⟨x, by simp, hx, h1.1⟩
      · left
        simpa [stepSt, hx] using h1
    · right; exact ⟨d, by simp [hd], hd2⟩

theorem doseidAt_notie (cfg : Cfg) (a : List Rec) (r : Rec) (b : List Rec)
    (h : NoTie (a ++ r :: b)) (hd : ¬ r.amt > 0) :
    doseidAt cfg a r b = outSt cfg (stateOf cfg a r.id) r := by
  have hpw := (List.pairwise_append.mp h).2.2
  have hG : groupDoses r a = [] := by
    unfold groupDoses
    rw [List.filter_filter, List.filter_eq_nil_iff]
    intro x hx hc
    simp only [sameIT, Bool.and_eq_true, beq_iff_eq, bne_iff_ne, ne_eq] at hc
    exact hd (hpw x hx r (by simp) hc.2.1.symm hc.2.2.symm hc.1)
  have hel : elig cfg a r b = false := by simp [elig, hG]
  have hflag : flag r = 0 := by simp [flag, hd]
  have hcur : (stateOf cfg a r.id).cur = ((List.filter isDose (a.filter (fun x => x.id == r.id))).length : Int) := by
    unfold stateOf; rw [foldl_stepSt_cur]; simp [St.init]
  have hcum : cumOf a r = (stateOf cfg a r.id).cur := by
    unfold cumOf
    have : List.filter (sameId r) a = a.filter (fun x => x.id == r.id) := rfl
    rw [this, intSum_flag, hflag, hcur]; simp
  simp only [doseidAt, hel, Bool.false_eq_true, if_false, outSt, hd, hcum]
  cases hl : (stateOf cfg a r.id).last with
  | none => simp
  | some v =>
    obtain ⟨t, ssd, g⟩ := v
    have hne : (t == r.time) = false := by
      rcases foldl_stepSt_last cfg _ St.init t ssd g (by unfold stateOf at hl; exact hl) with h0 | ⟨d, hdm, hdp, hdt⟩
      · simp [St.init] at h0
      · obtain ⟨hda, hdi⟩ := List.mem_filter.mp hdm
        simp only [beq_iff_eq] at hdi
        have : ¬ t = r.time := by
          intro e
          have hdne : d.amt ≠ 0 := by grind
          exact hd (hpw d hda r (by simp) hdi.symm (by rw [hdt, e]) hdne)
        simpa using this
    simp [hne]

theorem doseid_eq_walk_of_notie {cfg : Cfg} {ds : List Rec} (h : NoTie ds) :
    getDoseid cfg ds = walkDoseid cfg ds := by
  rw [walkDoseid_eq]
  unfold getDoseid
  apply zipMap_congr
  intro a r b hs
  by_cases hd : r.amt > 0
  · exact doseidAt_dose_any cfg a r b hd
  · exact doseidAt_notie cfg a r b (hs ▸ h) hd

end Pharmpy.C14
