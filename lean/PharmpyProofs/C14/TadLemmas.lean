import PharmpyProofs.C14.Lemmas
/-
  C14 — properties of `addTad` (model of `add_time_after_dose`).
-/
namespace Pharmpy.C14

/-! ### more about `zipMap` -/

/-- zipping a list with its row-wise map is again a row-wise map -/
theorem zip_zipMapAux {α β : Type} (f : List α → α → List α → β) (pre l : List α) :
    l.zip (zipMapAux f pre l) = zipMapAux (fun p r q => (r, f p r q)) pre l := by
  induction l generalizing pre with
  | nil => rfl
  | cons x l ih => simp [zipMapAux, ih]

theorem zip_zipMap {α β : Type} (f : List α → α → List α → β) (l : List α) :
    l.zip (zipMap f l) = zipMap (fun p r q => (r, f p r q)) l := zip_zipMapAux f [] l

/-- a split of the result of a row-wise map comes from a split of the argument -/
theorem zipMapAux_split {α β : Type} {g : List α → α → List α → β} {pre l : List α}
    {A B : List β} {y : β} (h : zipMapAux g pre l = A ++ y :: B) :
    ∃ a r b, l = a ++ r :: b ∧ y = g (pre ++ a) r b ∧
      A = zipMapAux (fun p r' q => g p r' (q ++ r :: b)) pre a := by
  induction A generalizing pre l with
  | nil =>
    cases l with
    | nil => simp [zipMapAux] at h
    | cons x l =>
      simp only [zipMapAux, List.nil_append, List.cons.injEq] at h
      exact ⟨[], x, l, rfl, by simpa using h.1.symm, rfl⟩
  | cons a0 A ih =>
    cases l with
    | nil => simp [zipMapAux] at h
    | cons x l =>
      simp only [zipMapAux, List.cons_append, List.cons.injEq] at h
      obtain ⟨a, r, b, hl, hy, hA⟩ := ih h.2
      refine ⟨x :: a, r, b, by simp [hl], by simpa [List.append_assoc] using hy, ?_⟩
      simp only [zipMapAux, List.cons.injEq]
      exact ⟨by rw [← h.1, hl], hA⟩

theorem zipMap_split {α β : Type} {g : List α → α → List α → β} {l : List α}
    {A B : List β} {y : β} (h : zipMap g l = A ++ y :: B) :
    ∃ a r b, l = a ++ r :: b ∧ y = g a r b ∧
      A = zipMap (fun p r' q => g p r' (q ++ r :: b)) a := by
  simpa [zipMap] using zipMapAux_split (pre := []) h

/-! ### the rows of `tadRows` -/

/-- a row of `tadRows` sits at a split of the expanded dataset; the rows before it are the
    records before it with their dose ids -/
theorem mem_tadRows {cfg : Cfg} {ds : List Rec} {x : (Rec × Int) × Rat}
    (hx : x ∈ tadRows cfg ds) :
    ∃ a r b, expand cfg ds = a ++ r :: b ∧
      x = ((r, doseidAt cfg a r b),
        tadAt (zipMap (fun p r' q => (r', doseidAt cfg p r' (q ++ r :: b))) a)
          (r, doseidAt cfg a r b)) := by
  simp only [tadRows, getDoseid, zip_zipMap] at hx
  obtain ⟨A, p, B, hsplit, rfl⟩ := mem_zipMap.mp hx
  obtain ⟨a, r, b, hl, rfl, rfl⟩ := zipMap_split hsplit
  exact ⟨a, r, b, hl, rfl⟩

theorem mem_addTad {cfg : Cfg} {ds : List Rec} {p : Rec × Rat} (hp : p ∈ addTad cfg ds) :
    ∃ x ∈ tadRows cfg ds, p = (x.1.1, x.2) := by
  simp only [addTad, List.mem_map, List.mem_filter, List.mem_flatMap, List.mem_mergeSort] at hp
  obtain ⟨x, ⟨⟨i, _, hx, _⟩, _⟩, rfl⟩ := hp
  exact ⟨x, hx, rfl⟩

/-! ### TAD is non-negative -/

theorem tadAt_of_find_none {pre : List (Rec × Int)} {p : Rec × Int}
    (h : pre.find? (fun q => q.1.id == p.1.id && q.2 == p.2) = none) : tadAt pre p = 0 := by
  simp [tadAt, h]

theorem tad_nonneg_aux (cfg : Cfg) (ds : List Rec) (hc : Chrono (expand cfg ds)) :
    ∀ p ∈ addTad cfg ds, 0 ≤ p.2 := by
  intro p hp
  obtain ⟨x, hx, rfl⟩ := mem_addTad hp
  obtain ⟨a, r, b, hl, rfl⟩ := mem_tadRows hx
  simp only [tadAt]
  split
  · rename_i q hq
    have hmem := List.mem_of_find?_eq_some hq
    have hprop := List.find?_some hq
    obtain ⟨a1, y, a2, ha, rfl⟩ := mem_zipMap.mp hmem
    simp only [Bool.and_eq_true, beq_iff_eq] at hprop
    rw [hl, ha] at hc
    simp only [Chrono, List.append_assoc, List.cons_append, List.pairwise_append,
      List.pairwise_cons, List.mem_append, List.mem_cons] at hc
    have := hc.2.1.1 r (Or.inr (Or.inl rfl)) hprop.1.symm
    grind
  · exact Rat.le_refl

/-! ### regrouping by key is a permutation -/

theorem flatMap_congr_tad {α β : Type} {f g : α → List β} {l : List α}
    (h : ∀ x ∈ l, f x = g x) : l.flatMap f = l.flatMap g := by
  induction l with
  | nil => rfl
  | cons x l ih =>
    simp only [List.flatMap_cons]
    rw [h x (by simp), ih (fun y hy => h y (by simp [hy]))]

/-- concatenating the (rearranged) groups of a duplicate-free key list that covers every row
    gives a permutation of the rows -/
theorem flatMap_filter_perm {α κ : Type} [DecidableEq κ] (key : α → κ) (g : List α → List α)
    (hg : ∀ l, (g l).Perm l) (ids : List κ) (hnd : ids.Nodup) (rows : List α)
    (hall : ∀ x ∈ rows, key x ∈ ids) :
    (ids.flatMap (fun i => g (rows.filter (fun x => key x == i)))).Perm rows := by
  induction ids generalizing rows with
  | nil =>
    cases rows with
    | nil => simp
    | cons x rows => simpa using hall x (by simp)
  | cons i ids ih =>
    obtain ⟨hi, hnd'⟩ := List.nodup_cons.mp hnd
    simp only [List.flatMap_cons]
    have hrest : ids.flatMap (fun j => g (rows.filter (fun x => key x == j))) =
        ids.flatMap (fun j => g ((rows.filter (fun x => !(key x == i))).filter
          (fun x => key x == j))) := by
      apply flatMap_congr_tad
      intro j hj
      congr 1
      rw [List.filter_filter]
      apply List.filter_congr
      intro x _
      by_cases hxj : key x = j
      · subst hxj
        have : key x ≠ i := fun h => hi (h ▸ hj)
        simp [this]
      · simp [hxj]
    rw [hrest]
    have ih' := ih hnd' (rows.filter (fun x => !(key x == i))) (by
      intro x hx
      simp only [List.mem_filter, Bool.not_eq_true', beq_eq_false_iff_ne] at hx
      have := hall x hx.1
      simp only [List.mem_cons] at this
      rcases this with h | h
      · exact absurd h hx.2
      · exact h)
    exact ((hg _).append ih').trans (List.filter_append_perm _ rows)

/-! ### the frame of `addTad` -/

theorem tadRows_map_fst (cfg : Cfg) (ds : List Rec) :
    (tadRows cfg ds).map (fun q => q.1.1) = expand cfg ds := by
  have h1 : (tadRows cfg ds).map (fun q => q.1.1) =
      ((tadRows cfg ds).map Prod.fst).map Prod.fst := by simp
  rw [h1]
  simp only [tadRows, getDoseid, zip_zipMap]
  simp only [zipMap, zipMapAux_map_fst]

theorem tad_frame_perm (cfg : Cfg) (ds : List Rec) :
    ((addTad cfg ds).map (·.1)).Perm ((expand cfg ds).filter (fun r => !r.expanded)) := by
  have hsorted := flatMap_filter_perm (fun q : (Rec × Int) × Rat => q.1.1.id)
    (fun l => l.mergeSort (fun a b => decide (a.1.2 ≤ b.1.2)))
    (fun l => List.mergeSort_perm l _)
    ((dedup ((tadRows cfg ds).map (·.1.1.id))).mergeSort (fun a b => decide (a ≤ b)))
    ((List.mergeSort_perm _ _).nodup_iff.mpr (nodup_dedup _))
    (tadRows cfg ds)
    (by
      intro x hx
      simp only [List.mem_mergeSort, mem_dedup, List.mem_map]
      exact ⟨x, hx, rfl⟩)
  have hmap := (hsorted.map (fun q : (Rec × Int) × Rat => q.1.1)).filter
    (fun r : Rec => !r.expanded)
  rw [tadRows_map_fst, List.filter_map] at hmap
  simpa [addTad, Function.comp_def] using hmap

/-! ### a dose record opens a new dose period, hence its TAD is 0 -/

theorem flag_nonneg (r : Rec) : 0 ≤ flag r := by
  unfold flag; split <;> omega

theorem intSum_flag_nonneg (l : List Rec) : 0 ≤ intSum (l.map flag) := by
  induction l with
  | nil => simp [intSum]
  | cons x l ih =>
    have := flag_nonneg x
    simp only [intSum, List.map_cons, List.foldr_cons] at ih ⊢
    omega

theorem doseidAt_le_cumOf (cfg : Cfg) (pre : List Rec) (r : Rec) (post : List Rec) :
    doseidAt cfg pre r post ≤ cumOf pre r := by
  unfold doseidAt decTo1
  split
  · split <;> omega
  · omega

theorem sameId_congr {x r : Rec} (h : x.id = r.id) : sameId x = sameId r := by
  funext y; simp [sameId, h]

/-- the dose id of a dose record is larger than the dose id of every earlier record of the
    same individual -/
theorem doseidAt_lt_of_dose (cfg : Cfg) (a1 a2 : List Rec) (x r : Rec) (post1 b : List Rec)
    (hid : x.id = r.id) (hr : r.amt > 0) :
    doseidAt cfg a1 x post1 < doseidAt cfg (a1 ++ x :: a2) r b := by
  have hne : (r.amt == 0) = false := by
    simp only [beq_eq_false_iff_ne, ne_eq]
    intro h; rw [h] at hr; exact absurd hr (by decide)
  have helig : elig cfg (a1 ++ x :: a2) r b = false := by simp [elig, hne]
  have hflag : flag r = 1 := by simp [flag, hr]
  have hsx : sameId r x = true := by simp [sameId, hid]
  have h2 := intSum_flag_nonneg (a2.filter (sameId r))
  have hlt : cumOf a1 x < doseidAt cfg (a1 ++ x :: a2) r b := by
    simp only [doseidAt, helig, cumOf, hflag, List.filter_append, List.filter_cons, hsx,
      List.map_append, intSum_append, sameId_congr hid]
    simp only [if_true, List.map_cons, intSum, List.foldr_cons] at h2 ⊢
    simp
    omega
  exact Int.lt_of_le_of_lt (doseidAt_le_cumOf cfg a1 x post1) hlt

/-- `hamt` (non-negative amounts) of the planned statement is not needed. -/
theorem tad_zero_at_dose_aux (cfg : Cfg) (ds : List Rec) :
    ∀ p ∈ addTad cfg ds, isDose p.1 = true → p.2 = 0 := by
  intro p hp hd
  obtain ⟨x, hx, rfl⟩ := mem_addTad hp
  obtain ⟨a, r, b, hl, rfl⟩ := mem_tadRows hx
  have hr : r.amt > 0 := by simpa [isDose] using hd
  apply tadAt_of_find_none
  rw [List.find?_eq_none]
  intro q hq
  obtain ⟨a1, y, a2, ha, rfl⟩ := mem_zipMap.mp hq
  simp only [Bool.and_eq_true, beq_iff_eq, not_and]
  intro hid
  rw [ha]
  exact Int.ne_of_lt (doseidAt_lt_of_dose cfg a1 a2 y r _ b hid hr)

end Pharmpy.C14
