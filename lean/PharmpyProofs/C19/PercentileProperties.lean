import PharmpyModel.C19.Stats
/-
  C19 — bootstrap percentiles (`create_distribution`) and the treatment of failed
  replicates (missing = NaN estimates) in `calculate_results`.  Property theorems only.

  Clause: "bootstrap means, bias, standard errors and percentiles … equal their defining
  formulas evaluated directly on the same estimates".  Everything is universally
  quantified over columns of any length with any pattern of missing values.
-/
namespace Pharmpy.C19
open Stats

/-! ## the order statistics -/

theorem insertAsc_perm (x : Rat) (l : List Rat) : (insertAsc x l).Perm (x :: l) := by
  induction l with
  | nil => exact List.Perm.refl _
  | cons y ys ih =>
    unfold insertAsc
    split
    · exact List.Perm.refl _
    · exact (List.Perm.cons y ih).trans (List.Perm.swap x y ys)

/-- The sorted replicates are a re-ordering of the replicates. -/
theorem sortAsc_perm (l : List Rat) : (sortAsc l).Perm l := by
  induction l with
  | nil => exact List.Perm.refl _
  | cons x xs ih =>
    show (insertAsc x (sortAsc xs)).Perm (x :: xs)
    exact (insertAsc_perm x _).trans (List.Perm.cons x ih)

theorem insertAsc_sorted (x : Rat) (l : List Rat) (h : l.Pairwise (· ≤ ·)) : (insertAsc x l).Pairwise (· ≤ ·) := by
  induction l with
  | nil => simp [insertAsc]
  | cons y ys ih =>
    unfold insertAsc
    rw [List.pairwise_cons] at h
    split
    · rename_i hxy
      refine List.pairwise_cons.2 ⟨?_, List.pairwise_cons.2 h⟩
      intro z hz
      rcases List.mem_cons.1 hz with rfl | hz
      · exact hxy
      · exact Rat.le_trans hxy (h.1 z hz)
    · rename_i hxy
      have hyx : y ≤ x := by rcases @Rat.le_total x y with h' | h'; exact absurd h' hxy; exact h'
      refine List.pairwise_cons.2 ⟨?_, ih h.2⟩
      intro z hz
      rcases List.mem_cons.1 ((insertAsc_perm x ys).mem_iff.1 hz) with rfl | hz
      · exact hyx
      · exact h.1 z hz

/-- … in ascending order. -/
theorem sortAsc_sorted (l : List Rat) : (sortAsc l).Pairwise (· ≤ ·) := by
  induction l with
  | nil => simp [sortAsc]
  | cons x xs ih => exact insertAsc_sorted x _ ih

/-- The order statistics depend on the multiset of replicates only. -/
theorem sortAsc_eq_of_perm {l₁ l₂ : List Rat} (h : l₁.Perm l₂) : sortAsc l₁ = sortAsc l₂ :=
  List.Perm.eq_of_pairwise (fun _ _ _ _ h1 h2 => Rat.le_antisymm h1 h2) (sortAsc_sorted l₁) (sortAsc_sorted l₂)
    ((sortAsc_perm l₁).trans (h.trans (sortAsc_perm l₂).symm))

/-- **Permutation invariance of the percentiles**: every quantile (hence min, median, max and
    the eight percentile columns) is independent of the order of the replicates. -/
theorem quantile_perm (q : Rat) {l₁ l₂ : List Rat} (h : l₁.Perm l₂) : quantile q l₁ = quantile q l₂ := by
  unfold quantile; rw [sortAsc_eq_of_perm h]

/-- **Defining formula of a percentile** (linear interpolation, pandas/numpy default): with `s` the
    ascending re-ordering of the replicates, `h = q (n − 1)`, `lo = ⌊h⌋`:
    `quantile q = s[lo] + (h − lo) (s[lo + 1] − s[lo])`, where `0 ≤ h − lo < 1`, and the value lies
    between the two neighbouring order statistics. -/
theorem quantile_interpolates_order_statistics (q : Rat) (xs : List Rat) (hq0 : 0 ≤ q) (hn : xs ≠ []) :
    ∃ s : List Rat, s.Perm xs ∧ s.Pairwise (· ≤ ·) ∧
      let h := q * ((xs.length : Rat) - 1)
      let lo := h.floor.toNat
      let a := s.getD lo 0
      let b := s.getD (min (lo + 1) (xs.length - 1)) 0
      quantile q xs = a + (h - (lo : Rat)) * (b - a) ∧ 0 ≤ h - (lo : Rat) ∧ h - (lo : Rat) < 1 := by
  refine ⟨sortAsc xs, sortAsc_perm xs, sortAsc_sorted xs, ?_⟩
  have hlen : (sortAsc xs).length = xs.length := (sortAsc_perm xs).length_eq
  have hpos : 0 < xs.length := List.length_pos_iff.2 hn
  have hn1 : (0 : Rat) ≤ (xs.length : Rat) - 1 := by
    have : ((1 : Nat) : Rat) ≤ (xs.length : Rat) := by exact_mod_cast hpos
    have h1 : ((1 : Nat) : Rat) = 1 := rfl
    rw [h1] at this
    exact (Rat.le_iff_sub_nonneg _ _).1 this
  have hh : (0 : Rat) ≤ q * ((xs.length : Rat) - 1) := Rat.mul_nonneg hq0 hn1
  have hfl : (0 : Int) ≤ (q * ((xs.length : Rat) - 1)).floor := Rat.le_floor_iff.2 (by simpa using hh)
  have hcast : (((q * ((xs.length : Rat) - 1)).floor.toNat : Nat) : Rat) = (((q * ((xs.length : Rat) - 1)).floor : Int) : Rat) := by
    have : (((q * ((xs.length : Rat) - 1)).floor.toNat : Nat) : Int) = (q * ((xs.length : Rat) - 1)).floor := Int.toNat_of_nonneg hfl
    rw [← this]; rfl
  refine ⟨?_, ?_, ?_⟩
  · unfold quantile; simp only [hlen]
  · rw [hcast]; exact (Rat.le_iff_sub_nonneg _ _).1 (Rat.floor_le _)
  · rw [hcast]
    have := Rat.lt_floor_add_one (q * ((xs.length : Rat) - 1))
    rw [Rat.intCast_add] at this
    have h1 : ((1 : Int) : Rat) = 1 := rfl
    rw [h1] at this
    grind

/-- The column `min` of the distribution table (quantile 0) is the smallest replicate. -/
theorem quantile_zero_is_min (xs : List Rat) (hn : xs ≠ []) :
    quantile 0 xs ∈ xs ∧ ∀ x ∈ xs, quantile 0 xs ≤ x := by
  have hq : quantile 0 xs = (sortAsc xs).getD 0 0 := by
    unfold quantile
    simp only [Rat.zero_mul]
    have : (0 : Rat).floor.toNat = 0 := by decide
    rw [this]
    have h0 : ((0 : Nat) : Rat) = 0 := rfl
    rw [h0, Rat.sub_self, Rat.zero_mul, Rat.add_zero]
  have hne : sortAsc xs ≠ [] := fun h => hn (by simpa [h] using (sortAsc_perm xs).symm)
  rw [hq]
  cases hs : sortAsc xs with
  | nil => exact absurd hs hne
  | cons a s =>
    have hsort := sortAsc_sorted xs
    rw [hs, List.pairwise_cons] at hsort
    have hmem : ∀ x, x ∈ xs ↔ x ∈ a :: s := fun x => by rw [← hs]; exact (sortAsc_perm xs).mem_iff.symm
    refine ⟨(hmem a).2 (by simp), ?_⟩
    intro x hx
    rcases List.mem_cons.1 ((hmem x).1 hx) with rfl | hx'
    · exact Rat.le_refl
    · exact hsort.1 x hx'

/-- The column `max` of the distribution table (quantile 1) is the largest replicate. -/
theorem quantile_one_is_max (xs : List Rat) (hn : xs ≠ []) :
    quantile 1 xs ∈ xs ∧ ∀ x ∈ xs, x ≤ quantile 1 xs := by
  have hlen : (sortAsc xs).length = xs.length := (sortAsc_perm xs).length_eq
  have hpos : 0 < xs.length := List.length_pos_iff.2 hn
  have hcast : (xs.length : Rat) - 1 = (((xs.length - 1 : Nat) : Int) : Rat) := by
    have h1 : ((xs.length - 1 : Nat) : Int) = (xs.length : Int) - 1 := by omega
    rw [h1, Rat.intCast_sub]; rfl
  have hq : quantile 1 xs = (sortAsc xs).getD (xs.length - 1) 0 := by
    unfold quantile
    simp only [hlen, Rat.one_mul]
    rw [hcast, Rat.floor_intCast, Int.toNat_natCast]
    have h0 : (((xs.length - 1 : Nat) : Int) : Rat) - ((xs.length - 1 : Nat) : Rat) = 0 := by
      have : (((xs.length - 1 : Nat) : Int) : Rat) = ((xs.length - 1 : Nat) : Rat) := rfl
      rw [this, Rat.sub_self]
    rw [h0, Rat.zero_mul, Rat.add_zero]
  have hlt : xs.length - 1 < (sortAsc xs).length := by omega
  have hget : (sortAsc xs).getD (xs.length - 1) 0 = (sortAsc xs)[xs.length - 1] := by
    simp [List.getD, hlt]
  rw [hq, hget]
  refine ⟨(sortAsc_perm xs).mem_iff.1 (List.getElem_mem hlt), ?_⟩
  intro x hx
  obtain ⟨i, hi, rfl⟩ := List.getElem_of_mem ((sortAsc_perm xs).mem_iff.2 hx)
  by_cases hi' : i = xs.length - 1
  · subst hi'; exact Rat.le_refl
  · exact (List.pairwise_iff_getElem.1 (sortAsc_sorted xs)) i (xs.length - 1) hi hlt (by omega)
/-! ## failed replicates (missing estimates) -/

theorem valid_insert_none (a b : List (Option Rat)) : valid (a ++ none :: b) = valid (a ++ b) := by
  simp [valid, List.filterMap_append]

theorem valid_map_some (l : List Rat) : valid (l.map some) = l := by
  induction l with
  | nil => rfl
  | cons x xs ih => simp [valid]

/-- **A failed replicate does not take part in any statistic**: inserting a missing value at any
    position of a column leaves mean, median, bias, stderr², RSE² and the whole distribution row
    (min, percentiles, median, max) unchanged. -/
theorem failed_replicate_ignored (a b : List (Option Rat)) (orig : Rat) :
    colStatsM (a ++ none :: b) orig = colStatsM (a ++ b) orig := by
  unfold colStatsM distM skipna
  simp only [valid_insert_none]

/-- **Percentiles on the same estimates as the other statistics**: for every column with at least
    two valid estimates, every reported statistic — the percentiles included — is the statistic of
    the complete-data routine (`colStats`) evaluated on the list of valid estimates; none is missing. -/
theorem statistics_on_valid_estimates (xs : List (Option Rat)) (orig : Rat) (h : 2 ≤ (valid xs).length) :
    (colStatsM xs orig).mean = some (colStats (valid xs) orig).mean ∧
    (colStatsM xs orig).median = some (colStats (valid xs) orig).median ∧
    (colStatsM xs orig).bias = some (colStats (valid xs) orig).bias ∧
    (colStatsM xs orig).var = some (colStats (valid xs) orig).var ∧
    (colStatsM xs orig).rse2 = some (colStats (valid xs) orig).rse2 ∧
    (colStatsM xs orig).dist = (colStats (valid xs) orig).dist.map some := by
  have h1 : ¬ (valid xs).length < 1 := by omega
  have h2 : ¬ (valid xs).length < 2 := by omega
  unfold colStatsM colStats distM skipna
  simp [h1, h2]

/-- The distribution row is defined exactly when the mean is: with one valid estimate all eleven
    columns are that estimate's quantiles, with none they are all missing. -/
theorem distribution_defined_iff (xs : List (Option Rat)) :
    (valid xs ≠ [] → distM xs = distQs.map (fun q => some (quantile q (valid xs)))) ∧
    (valid xs = [] → distM xs = distQs.map (fun _ => none)) := by
  constructor
  · intro h
    have : ¬ (valid xs).length < 1 := by
      have := List.length_pos_iff.2 h; omega
    unfold distM skipna; simp [this]
  · intro h
    unfold distM skipna; simp [h]

/-- Complete data: the routine with missing values agrees with the complete-data routine. -/
theorem complete_data_agrees (l : List Rat) (orig : Rat) (h : 2 ≤ l.length) :
    (colStatsM (l.map some) orig).dist = (colStats l orig).dist.map some ∧
    (colStatsM (l.map some) orig).mean = some (colStats l orig).mean ∧
    (colStatsM (l.map some) orig).var = some (colStats l orig).var := by
  have hv := valid_map_some l
  have := statistics_on_valid_estimates (l.map some) orig (by rw [hv]; exact h)
  rw [hv] at this
  exact ⟨this.2.2.2.2.2, this.1, this.2.2.2.1⟩

/-- Percentiles of a column with failed replicates do not depend on where the failures occur nor
    on the order of the valid replicates. -/
theorem distribution_perm_invariant (xs ys : List (Option Rat)) (h : (valid xs).Perm (valid ys)) :
    distM xs = distM ys := by
  unfold distM skipna
  rw [h.length_eq]
  apply List.map_congr_left
  intro q _
  rw [quantile_perm q h]

/-! ## non-vacuity -/

/-- seven replicates, the third failed: the 5 % percentile is that of the six valid ones. -/
example : (colStatsM [some 1, some (5/4), none, some (7/4), some 2, some (9/4), some (5/2)] (3/2)).dist.getD 4 none
    = some (quantile (5/100) [1, 5/4, 7/4, 2, 9/4, 5/2]) := by decide +kernel

example : quantile (5/100) [1, 5/4, 7/4, 2, 9/4, 5/2] = 17/16 := by decide +kernel

example : 2 ≤ (valid [some 1, some (5/4), none, some (7/4)]).length := by decide

end Pharmpy.C19
