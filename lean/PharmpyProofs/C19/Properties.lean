import PharmpyProofs.C19.Lemmas
import PharmpyModel.C19.Spec
import PharmpyModel.C19.Stats
/-
  C19 — Ranking, selection criteria and result statistics follow their
  definitions.  Property theorems only.

  Everything is universally quantified: every list of candidates (any
  length), every criterion value incl. NaN, every parent map, cut-off,
  penalty vector and every chi-square table `isf`.
-/
namespace Pharmpy.C19

/-! ## rank_models -/

/-- The filtering loop keeps an entry exactly when it is eligible in the sense
    of the property statement, and then records criterion + penalty. -/
theorem keep_iff_eligible (cfg : Cfg) (all : List Cand) (i : Nat) (c : Cand) (w : Rat) :
    keep cfg all (refValue all) i c = some w ↔
      Eligible cfg all i c ∧ ∃ v, c.rv = .num v ∧ w = v + c.pen := by
  unfold keep Eligible
  cases hrv : c.rv with
  | nan => simp
  | num v =>
    simp only [Val.num.injEq, exists_eq_left']
    by_cases hi : i = 0
    · simp [hi]; grind
    · simp only [hi, if_false, false_or]
      cases hl : cfg.lrt with
      | true =>
        simp only [if_true, true_and]
        split <;> simp_all <;> grind
      | false =>
        simp only [Bool.false_eq_true, if_false, false_and, false_or, true_and]
        cases hc : cfg.cutoff with
        | none => simp; grind
        | two a b => simp; grind
        | one co =>
          cases hr : refValue all with
          | nan => simp [Val.sub, Val.le]; grind
          | num r =>
            simp only [Val.sub, Val.le, decide_eq_true_eq, Cutoff.one.injEq, Val.num.injEq]
            split
            · rename_i hle
              simp only [reduceCtorEq, false_iff, not_and]
              intro hlt
              grind
            · rename_i hnle
              simp only [Option.some.injEq]
              constructor
              · rintro rfl; exact ⟨by grind, rfl⟩
              · rintro ⟨_, rfl⟩; rfl

/-- **rank_spec (1/4) — the ranked set.**  A model has a rank in the result of
    `rank_models` iff it is eligible: the ranked set is `{base if its strictness
    holds} ∪ {eligible candidates}` and nothing else. -/
theorem ranked_iff_eligible (cfg : Cfg) (all : List Cand) (i : Nat) :
    (∃ r ∈ rankModels cfg all, r.idx = i ∧ r.rank.isSome = true) ↔
      ∃ c, all[i]? = some c ∧ Eligible cfg all i c := by
  unfold rankModels
  constructor
  · rintro ⟨r, hr, rfl, hrank⟩
    rcases List.mem_append.mp hr with hr | hr
    · rw [rankedRows_eq, List.mem_map] at hr
      obtain ⟨p, hp, rfl⟩ := hr
      have hp' := (sortDesc_perm _ _).mem_iff.mp hp
      obtain ⟨c, hc, hk⟩ := (mem_keptOf cfg all p.1 p.2).mp hp'
      exact ⟨c, hc, ((keep_iff_eligible cfg all p.1 c p.2).mp hk).1⟩
    · unfold unrankedRows at hr
      simp only [List.mem_map] at hr
      obtain ⟨j, _, rfl⟩ := hr
      simp at hrank
  · rintro ⟨c, hc, he⟩
    obtain ⟨v, hv, _⟩ := id he
    have hk : keep cfg all (refValue all) i c = some (v + c.pen) :=
      (keep_iff_eligible cfg all i c _).mpr ⟨he, v, hv, rfl⟩
    have hmem : (i, v + c.pen) ∈ keptOf cfg all := (mem_keptOf cfg all i _).mpr ⟨c, hc, hk⟩
    have hmem' := (sortDesc_perm (fun p : Nat × Rat => keyOf (refValue all) p.2) _).mem_iff.mpr hmem
    have hrow := List.mem_map_of_mem (f := fun p : Nat × Rat =>
        ({ idx := p.1, delta := (refValue all).sub (.num p.2), rv := .num p.2,
           rank := some (compRank (keptOf cfg all) p.2) } : Row)) hmem'
    rw [← rankedRows_eq] at hrow
    exact ⟨_, List.mem_append_left _ hrow, rfl, rfl⟩

/-- Every model of `models_all` has exactly one row. -/
theorem rows_cover (cfg : Cfg) (all : List Cand) :
    ((rankModels cfg all).map (·.idx)).Perm (List.range all.length) := by
  have hk := keptOf_idx_nodup cfg all
  have hsub : ∀ i ∈ (keptOf cfg all).map (·.1), i < all.length := by
    intro i hi
    rw [List.mem_map] at hi
    obtain ⟨p, hp, rfl⟩ := hi
    obtain ⟨c, hc, _⟩ := (mem_keptOf cfg all p.1 p.2).mp hp
    obtain ⟨h, _⟩ := List.getElem?_eq_some_iff.mp hc
    exact h
  have h1 : ((rankedRows cfg all).map (·.idx)).Perm ((keptOf cfg all).map (·.1)) := by
    rw [rankedRows_eq, List.map_map]
    exact (sortDesc_perm (fun p : Nat × Rat => keyOf (refValue all) p.2) (keptOf cfg all)).map _
  have h2 : (unrankedRows cfg all).map (·.idx)
      = (List.range all.length).filter (fun i => !((keptOf cfg all).map (·.1)).contains i) := by
    unfold unrankedRows
    simp [List.map_map, Function.comp_def]
  unfold rankModels
  rw [List.map_append, h2]
  refine (List.Perm.append h1 (List.Perm.refl _)).trans ?_
  rw [List.perm_ext_iff_of_nodup]
  · intro a
    simp only [List.mem_append, List.mem_filter, List.mem_range, Bool.not_eq_true', List.contains_eq_mem,
      decide_eq_false_iff_not]
    constructor
    · rintro (h | h)
      · exact hsub a h
      · exact h.1
    · intro h
      by_cases hm : a ∈ (keptOf cfg all).map (·.1)
      · exact Or.inl hm
      · exact Or.inr ⟨h, hm⟩
  · rw [List.nodup_append]
    refine ⟨hk, List.Pairwise.filter _ List.nodup_range, ?_⟩
    intro a ha b hb hab
    subst hab
    have h2' := (List.mem_filter.mp hb).2
    simp only [Bool.not_eq_true', List.contains_eq_mem, decide_eq_false_iff_not] at h2'
    exact h2' ha
  · exact List.nodup_range

/-- Counting the rows that are strictly better than `x` is counting the kept models. -/
theorem count_better (cfg : Cfg) (all : List Cand) (x : Rat) :
    (rankModels cfg all).countP (Row.better x) = (keptOf cfg all).countP (fun q => decide (q.2 < x)) := by
  unfold rankModels
  rw [List.countP_append, rankedRows_eq, List.countP_map]
  have h0 : (unrankedRows cfg all).countP (Row.better x) = 0 := by
    rw [List.countP_eq_zero]
    intro r hr
    unfold unrankedRows at hr
    simp only [List.mem_map] at hr
    obtain ⟨j, _, rfl⟩ := hr
    simp [Row.better]
  rw [h0, Nat.add_zero, ← (sortDesc_perm (fun p : Nat × Rat => keyOf (refValue all) p.2) (keptOf cfg all)).countP_eq]
  apply List.countP_congr
  intro p _
  simp [Row.better]

/-- **rank_spec (2/4) — values and ranks.**  A ranked row reports criterion +
    penalty, `reference − value` as delta, and its rank is the *competition rank*
    on the criterion: one plus the number of ranked models with a strictly
    smaller (better) value. -/
theorem ranked_row_spec (cfg : Cfg) (all : List Cand) (r : Row) (k : Nat)
    (hr : r ∈ rankModels cfg all) (hk : r.rank = some k) :
    ∃ c v, all[r.idx]? = some c ∧ c.rv = .num v ∧ Eligible cfg all r.idx c ∧
      r.rv = .num (v + c.pen) ∧ r.delta = (refValue all).sub (.num (v + c.pen)) ∧
      k = 1 + (rankModels cfg all).countP (Row.better (v + c.pen)) := by
  simp only [count_better]
  unfold rankModels at hr
  rcases List.mem_append.mp hr with hr | hr
  · rw [rankedRows_eq, List.mem_map] at hr
    obtain ⟨p, hp, rfl⟩ := hr
    have hp' := (sortDesc_perm _ _).mem_iff.mp hp
    obtain ⟨c, hc, hkeep⟩ := (mem_keptOf cfg all p.1 p.2).mp hp'
    obtain ⟨he, v, hv, hw⟩ := (keep_iff_eligible cfg all p.1 c p.2).mp hkeep
    simp only [Option.some.injEq] at hk
    refine ⟨c, v, hc, hv, he, ?_, ?_, ?_⟩
    · simp [hw]
    · simp [hw]
    · rw [← hk, ← hw]; rfl
  · unfold unrankedRows at hr
    simp only [List.mem_map] at hr
    obtain ⟨j, _, rfl⟩ := hr
    simp at hk

/-- **Ties share a rank.** -/
theorem ties_share_rank (cfg : Cfg) (all : List Cand) (r s : Row) (k m : Nat) (v : Rat)
    (hr : r ∈ rankModels cfg all) (hs : s ∈ rankModels cfg all)
    (hk : r.rank = some k) (hm : s.rank = some m) (hrv : r.rv = .num v) (hsv : s.rv = .num v) : k = m := by
  obtain ⟨c, x, _, _, _, h4, _, h6⟩ := ranked_row_spec cfg all r k hr hk
  obtain ⟨c', x', _, _, _, h4', _, h6'⟩ := ranked_row_spec cfg all s m hs hm
  rw [hrv] at h4; rw [hsv] at h4'
  simp only [Val.num.injEq] at h4 h4'
  rw [← h4] at h6; rw [← h4'] at h6'
  omega

/-- **Ranking orders by the criterion.** A strictly smaller (better) value has a strictly smaller rank. -/
theorem better_value_smaller_rank (cfg : Cfg) (all : List Cand) (r s : Row) (k m : Nat) (v w : Rat)
    (hr : r ∈ rankModels cfg all) (hs : s ∈ rankModels cfg all)
    (hk : r.rank = some k) (hm : s.rank = some m) (hrv : r.rv = .num v) (hsv : s.rv = .num w)
    (hvw : v < w) : k < m := by
  obtain ⟨c, x, _, _, _, h4, _, h6⟩ := ranked_row_spec cfg all r k hr hk
  obtain ⟨c', x', _, _, _, h4', _, h6'⟩ := ranked_row_spec cfg all s m hs hm
  rw [hrv] at h4; rw [hsv] at h4'
  simp only [Val.num.injEq] at h4 h4'
  rw [← h4] at h6; rw [← h4'] at h6'
  have : (rankModels cfg all).countP (Row.better v) < (rankModels cfg all).countP (Row.better w) := by
    apply countP_lt_of_witness _ _ _ _ r hr
    · simp [Row.better, hrv, hvw]
    · simp [Row.better, hrv, Rat.lt_irrefl]
    · intro y _ hy
      unfold Row.better at hy ⊢
      cases hyv : y.rv with
      | nan => simp [hyv] at hy
      | num z => simp [hyv] at hy ⊢; grind
  omega

/-- **rank_spec (3/4) — failed never above.**  In the returned frame no row
    without a rank (failed strictness, cut-off or test) precedes a ranked row. -/
theorem failed_never_above (cfg : Cfg) (all : List Cand) :
    (rankModels cfg all).Pairwise (fun a b => a.rank = none → b.rank = none) := by
  unfold rankModels
  rw [List.pairwise_append]
  refine ⟨?_, ?_, ?_⟩
  · rw [rankedRows_eq, List.pairwise_map]
    exact List.Pairwise.imp (fun _ h => by simp at h) (List.pairwise_of_forall (fun _ _ => trivial) : List.Pairwise (fun _ _ => True) _)
  · unfold unrankedRows
    rw [List.pairwise_map]
    exact List.Pairwise.imp (fun _ _ => rfl) (List.pairwise_of_forall (fun _ _ => trivial) : List.Pairwise (fun _ _ => True) _)
  · intro a _ b hb _
    unfold unrankedRows at hb
    simp only [List.mem_map] at hb
    obtain ⟨j, _, rfl⟩ := hb
    rfl

/-- **rank_spec (4/4) — row order.**  Rows are in non-decreasing order of the
    criterion (best first). -/
theorem rows_sorted_by_criterion (cfg : Cfg) (all : List Cand) :
    (rankModels cfg all).Pairwise (fun a b => ∀ v w, a.rv = .num v → b.rv = .num w → v ≤ w) := by
  unfold rankModels
  rw [List.pairwise_append]
  refine ⟨?_, ?_, ?_⟩
  · rw [rankedRows_eq, List.pairwise_map]
    refine List.Pairwise.imp ?_ (sortDesc_sorted (fun p : Nat × Rat => keyOf (refValue all) p.2) (keptOf cfg all))
    intro a b hab v w hv hw
    simp only [Val.num.injEq] at hv hw
    subst hv; subst hw
    exact (keyOf_le _ _ _).mp hab
  · unfold unrankedRows
    rw [List.pairwise_map]
    exact List.Pairwise.imp (fun _ v w hv => by simp at hv) (List.pairwise_of_forall (fun _ _ => trivial) : List.Pairwise (fun _ _ => True) _)
  · intro a _ b hb v w _ hw
    unfold unrankedRows at hb
    simp only [List.mem_map] at hb
    obtain ⟨j, _, rfl⟩ := hb
    simp at hw

/-- Ranks never decrease along the rows. -/
theorem ranks_nondecreasing (cfg : Cfg) (all : List Cand) :
    (rankModels cfg all).Pairwise (fun a b => ∀ k m, a.rank = some k → b.rank = some m → k ≤ m) := by
  have hsorted := rows_sorted_by_criterion cfg all
  rw [List.pairwise_iff_getElem] at hsorted ⊢
  intro i j hi hj hij k m hk hm
  obtain ⟨c, v, _, _, _, hv, _, hkk⟩ := ranked_row_spec cfg all _ k (List.getElem_mem hi) hk
  obtain ⟨c', w, _, _, _, hw, _, hmm⟩ := ranked_row_spec cfg all _ m (List.getElem_mem hj) hm
  have hle := hsorted i j hi hj hij _ _ hv hw
  have : (rankModels cfg all).countP (Row.better (v + c.pen)) ≤ (rankModels cfg all).countP (Row.better (w + c'.pen)) := by
    apply List.countP_mono_left
    intro y _ hy
    unfold Row.better at hy ⊢
    cases hyv : y.rv with
    | nan => simp [hyv] at hy
    | num z => simp [hyv] at hy ⊢; grind
  omega

/-! ## the model reported as best -/

/-- **best_is_top.**  If no model is eligible nothing is reported as best.
    Otherwise the model picked by `summary_tool['rank'].idxmin()` is the first
    row of the frame; it has rank 1, is eligible, and no ranked model has a
    smaller criterion value. -/
theorem best_is_top (cfg : Cfg) (all : List Cand) :
    ((∀ r ∈ rankModels cfg all, r.rank = none) → bestModel (rankModels cfg all) = none) ∧
    (∀ r, r ∈ rankModels cfg all → r.rank.isSome = true →
      ∃ top rest v, rankModels cfg all = top :: rest ∧ bestModel (rankModels cfg all) = some top.idx ∧
        top.rank = some 1 ∧ top.rv = .num v ∧
        (∃ c, all[top.idx]? = some c ∧ Eligible cfg all top.idx c) ∧
        ∀ s ∈ rankModels cfg all, ∀ w, s.rv = .num w → v ≤ w) := by
  constructor
  · intro h
    unfold bestModel
    rw [idxminAux_none _ h]; rfl
  · intro r hr hsome
    have hfa := failed_never_above cfg all
    have hsorted := rows_sorted_by_criterion cfg all
    cases hrows : rankModels cfg all with
    | nil => rw [hrows] at hr; cases hr
    | cons top rest =>
      rw [hrows] at hfa hsorted hr
      rw [List.pairwise_cons] at hfa hsorted
      -- the first row is ranked, otherwise every row is unranked
      have htop : top.rank.isSome = true := by
        cases ht : top.rank with
        | some k => rfl
        | none =>
          exfalso
          rcases List.mem_cons.mp hr with rfl | hr'
          · rw [ht] at hsome; cases hsome
          · have := hfa.1 r hr' ht
            rw [this] at hsome; cases hsome
      obtain ⟨k, hk⟩ := Option.isSome_iff_exists.mp htop
      have hmem : top ∈ rankModels cfg all := by rw [hrows]; exact List.mem_cons_self ..
      obtain ⟨c, v, hc, hcv, he, hv, _, hkk⟩ := ranked_row_spec cfg all top k hmem hk
      -- nothing is strictly better than the first row
      have hmin : ∀ s ∈ top :: rest, ∀ w, s.rv = .num w → v + c.pen ≤ w := by
        intro s hs w hw
        rcases List.mem_cons.mp hs with rfl | hs'
        · rw [hv] at hw; cases hw; exact Rat.le_refl
        · exact hsorted.1 s hs' _ _ hv hw
      have hzero : (rankModels cfg all).countP (Row.better (v + c.pen)) = 0 := by
        rw [List.countP_eq_zero, hrows]
        intro s hs
        unfold Row.better
        cases hsv : s.rv with
        | nan => simp
        | num w => have := hmin s hs w hsv; simp; grind
      have hk1 : k = 1 := by omega
      subst hk1
      refine ⟨top, rest, v + c.pen, rfl, ?_, hk, hv, ⟨c, hc, he⟩, hmin⟩
      unfold bestModel idxminAux
      rw [hk]
      simp only []
      rw [idxminAux_one]
      · rfl
      · intro s hs m hm
        have hs' : s ∈ rankModels cfg all := by rw [hrows]; exact List.mem_cons_of_mem _ hs
        obtain ⟨_, _, _, _, _, _, _, h⟩ := ranked_row_spec cfg all s m hs' hm
        omega

/-- **final_model_spec** (create_results).  If no model is eligible the base model
    (index 0) is reported.  Otherwise the reported model is eligible, its row has
    rank 1, and no eligible model has a strictly smaller criterion value (hence
    none a strictly smaller rank); in particular the base model is reported only
    when nothing is eligible or when it is itself eligible and top-ranked. -/
theorem final_model_spec (cfg : Cfg) (all : List Cand) :
    ((∀ r ∈ rankModels cfg all, r.rank = none) → finalModel (rankModels cfg all) = 0) ∧
    ((∃ r ∈ rankModels cfg all, r.rank.isSome = true) →
      ∃ c v top, all[finalModel (rankModels cfg all)]? = some c ∧
        Eligible cfg all (finalModel (rankModels cfg all)) c ∧
        top ∈ rankModels cfg all ∧ top.idx = finalModel (rankModels cfg all) ∧ top.rank = some 1 ∧ top.rv = .num v ∧
        (∀ j c' w, all[j]? = some c' → Eligible cfg all j c' → c'.rv = .num w → v ≤ w + c'.pen) ∧
        (finalModel (rankModels cfg all) = 0 → Eligible cfg all 0 c)) := by
  obtain ⟨h1, h2⟩ := best_is_top cfg all
  constructor
  · intro h
    unfold finalModel
    rw [h1 h]; rfl
  · rintro ⟨r, hr, hsome⟩
    obtain ⟨top, rest, v, hrows, hbest, hrank, hrv, ⟨c, hc, he⟩, hmin⟩ := h2 r hr hsome
    have hfin : finalModel (rankModels cfg all) = top.idx := by
      unfold finalModel; rw [hbest]; rfl
    have htop : top ∈ rankModels cfg all := by rw [hrows]; exact List.mem_cons_self ..
    refine ⟨c, v, top, ?_, ?_, htop, hfin.symm, hrank, hrv, ?_, ?_⟩
    · rw [hfin]; exact hc
    · rw [hfin]; exact he
    · intro j c' w hj hej hw
      obtain ⟨r', hr', hidx, hsome'⟩ := (ranked_iff_eligible cfg all j).mpr ⟨c', hj, hej⟩
      obtain ⟨k, hk⟩ := Option.isSome_iff_exists.mp hsome'
      obtain ⟨c'', w', hc'', hw', _, hrv', _, _⟩ := ranked_row_spec cfg all r' k hr' hk
      rw [hidx, hj] at hc''
      cases hc''
      rw [hw] at hw'
      cases hw'
      exact hmin r' hr' _ hrv'
    · intro h0
      rw [hfin] at h0
      rw [h0] at hc he
      exact he

/-! ## base model failed: the NaN-reference branch -/

/-- **nan_reference_branch.**  When the base model has no criterion value
    (NaN OFV or strictness not fulfilled) it is not ranked, every delta is NaN,
    and in the non-LRT modes the cut-off is not applied: exactly the models
    whose strictness holds are ranked (by the criterion itself, see
    `ranked_row_spec`). -/
theorem nan_reference_branch (cfg : Cfg) (all : List Cand) (href : refValue all = .nan) :
    (∀ r ∈ rankModels cfg all, r.delta = .nan) ∧
    (∀ r ∈ rankModels cfg all, r.idx = 0 → r.rank = none) ∧
    (cfg.lrt = false → ∀ i c, all[i]? = some c → (Eligible cfg all i c ↔ c.rv ≠ .nan)) := by
  have hbase : ∀ c, all[0]? = some c → c.rv = .nan := by
    intro c hc
    unfold refValue at href
    cases all with
    | nil => cases hc
    | cons b bs =>
      simp at hc; subst hc
      simp only [List.head?_cons] at href
      cases hb : b.rv with
      | nan => rfl
      | num v => rw [hb] at href; simp [Val.add] at href
  refine ⟨?_, ?_, ?_⟩
  · intro r hr
    cases hk : r.rank with
    | some k =>
      obtain ⟨c, v, _, _, _, _, hd, _⟩ := ranked_row_spec cfg all r k hr hk
      rw [hd, href]; rfl
    | none =>
      unfold rankModels at hr
      rcases List.mem_append.mp hr with hr | hr
      · rw [rankedRows_eq, List.mem_map] at hr
        obtain ⟨p, _, rfl⟩ := hr
        simp at hk
      · unfold unrankedRows at hr
        simp only [List.mem_map] at hr
        obtain ⟨j, _, rfl⟩ := hr
        rfl
  · intro r hr h0
    cases hk : r.rank with
    | none => rfl
    | some k =>
      exfalso
      obtain ⟨c, v, hc, hv, _⟩ := ranked_row_spec cfg all r k hr hk
      rw [h0] at hc
      rw [hbase c hc] at hv
      cases hv
  · intro hl i c hc
    unfold Eligible
    constructor
    · rintro ⟨v, hv, _⟩; rw [hv]; simp
    · intro hne
      cases hv : c.rv with
      | nan => exact absurd hv hne
      | num v =>
        refine ⟨v, rfl, ?_⟩
        by_cases hi : i = 0
        · subst hi; rw [hbase c hc] at hv; cases hv
        · refine Or.inr (Or.inr ⟨hl, ?_⟩)
          intro co r _ hr
          rw [href] at hr; cases hr

/-! ## likelihood ratio test -/

/-- **lrt_cutoff_sign.**  The critical value is the upper chi-square quantile at
    `|df|` degrees of freedom, with the sign of `df`; zero for `df = 0`. -/
theorem lrt_cutoff_sign (isf : Rat → Nat → Rat) (alpha : Rat) (df : Int) :
    (df = 0 → lrtCutoff isf df alpha = 0) ∧
    (0 < df → lrtCutoff isf df alpha = isf alpha df.natAbs) ∧
    (df < 0 → lrtCutoff isf df alpha = -(isf alpha df.natAbs)) := by
  unfold lrtCutoff
  refine ⟨fun h => by simp [h], fun h => ?_, fun h => ?_⟩
  · have h0 : df ≠ 0 := by omega
    have : df.toNat = df.natAbs := by omega
    simp [h0, h, this]
  · have h0 : df ≠ 0 := by omega
    have h1 : ¬ df > 0 := by omega
    have : (-df).toNat = df.natAbs := by omega
    simp [h0, h1, this]

/-- The significance level used by `rank_models` is chosen by the sign of the
    degrees of freedom: forward level (0.05 / first of the pair) when parameters
    are added or the count is unchanged, backward level (0.01 / second) when
    parameters are removed; a single number is used for both. -/
theorem choose_alpha_sign (df : Int) (c0 c1 co : Rat) :
    chooseAlpha .none df = (if 0 ≤ df then 5 / 100 else 1 / 100) ∧
    chooseAlpha (.two c0 c1) df = (if 0 ≤ df then c0 else c1) ∧
    chooseAlpha (.one co) df = co := by
  simp [chooseAlpha]

/-- A NaN objective value on either side never passes the test. -/
theorem lrt_test_nan (isf : Rat → Nat → Rat) (pn cn : Nat) (o : Val) (alpha : Rat) :
    lrtTest isf pn cn .nan o alpha = false ∧ lrtTest isf pn cn o .nan alpha = false := by
  cases o <;> simp [lrtTest, Val.sub, Val.ge, Val.le]

/-- The test in terms of the drop in OFV: with added parameters the drop must
    reach the critical value; with removed parameters the *increase* must not
    exceed it; with equal counts the child must not be worse. -/
theorem lrt_test_iff (isf : Rat → Nat → Rat) (pn cn : Nat) (po co alpha : Rat) :
    (pn < cn → (lrtTest isf pn cn (.num po) (.num co) alpha = true ↔ isf alpha (cn - pn) ≤ po - co)) ∧
    (cn < pn → (lrtTest isf pn cn (.num po) (.num co) alpha = true ↔ co - po ≤ isf alpha (pn - cn))) ∧
    (cn = pn → (lrtTest isf pn cn (.num po) (.num co) alpha = true ↔ co ≤ po)) := by
  unfold lrtTest lrtDf
  simp only [Val.sub, Val.ge, Val.le, decide_eq_true_eq]
  refine ⟨fun h => ?_, fun h => ?_, fun h => ?_⟩
  · have hdf : (0 : Int) < (cn : Int) - (pn : Int) := by omega
    rw [(lrt_cutoff_sign isf alpha _).2.1 hdf]
    have : ((cn : Int) - (pn : Int)).natAbs = cn - pn := by omega
    rw [this]
  · have hdf : (cn : Int) - (pn : Int) < 0 := by omega
    rw [(lrt_cutoff_sign isf alpha _).2.2 hdf]
    have : ((cn : Int) - (pn : Int)).natAbs = pn - cn := by omega
    rw [this]
    grind
  · have hdf : (cn : Int) - (pn : Int) = 0 := by omega
    rw [(lrt_cutoff_sign isf alpha _).1 hdf]
    grind

/-- `np.nanargmin` as modelled picks the first index holding the smallest
    non-NaN value, and fails exactly when there is none. -/
theorem nanargmin_spec (xs : List Val) :
    (nanargmin xs = none ↔ ∀ x ∈ xs, x = .nan) ∧ (∀ i, nanargmin xs = some i ↔ IsNanArgmin xs i) := by
  obtain ⟨h1, h2⟩ := nanargminV_spec xs
  have huniq : ∀ i k, IsNanArgmin xs i → IsNanArgmin xs k → i = k := by
    intro i k ⟨v, hv1, hv2, hv3⟩ ⟨w, hw1, hw2, hw3⟩
    rcases Nat.lt_trichotomy i k with h | h | h
    · have := hw3 i v h hv1; have := hv2 k w hw1; grind
    · exact h
    · have := hv3 k w h hw1; have := hw2 i v hv1; grind
  refine ⟨⟨?_, ?_⟩, ?_⟩
  · intro h
    unfold nanargmin at h
    cases hr : nanargminV xs with
    | none => exact h1 hr
    | some p => simp [hr] at h
  · intro hall
    unfold nanargmin
    cases hr : nanargminV xs with
    | none => rfl
    | some p =>
      obtain ⟨i, v⟩ := p
      have := (h2 i v hr).1
      have := hall _ (List.mem_of_getElem? this)
      cases this
  · intro i
    unfold nanargmin
    constructor
    · intro h
      cases hr : nanargminV xs with
      | none => simp [hr] at h
      | some p =>
        obtain ⟨k, v⟩ := p
        simp [hr] at h; subst h
        exact ⟨v, h2 k v hr⟩
    · intro hi
      cases hr : nanargminV xs with
      | none =>
        obtain ⟨v, hv, _⟩ := hi
        have := h1 hr _ (List.mem_of_getElem? hv)
        cases this
      | some p =>
        obtain ⟨k, v⟩ := p
        simp only [Option.map_some, Option.some.injEq]
        exact huniq k i ⟨v, h2 k v hr⟩ hi

/-- **best_of_many_spec.**  With no usable OFV the parent is returned.  Otherwise
    the candidate with the lowest OFV (the first one among equals) is tested
    against the parent and returned iff it passes; the parent otherwise. -/
theorem best_of_many_spec (isf : Rat → Nat → Rat) (pn : Nat) (po : Val) (models : List (Nat × Val)) (alpha : Rat) :
    ((∀ m ∈ models, m.2 = .nan) → bestOfMany isf pn po models alpha = none) ∧
    (∀ i, IsNanArgmin (models.map (·.2)) i →
      ∃ n o, models[i]? = some (n, o) ∧
        bestOfMany isf pn po models alpha = if lrtTest isf pn n po o alpha = true then some i else none) := by
  obtain ⟨h1, h2⟩ := nanargmin_spec (models.map (·.2))
  constructor
  · intro hall
    unfold bestOfMany
    have : nanargmin (models.map (·.2)) = none := h1.mpr (by
      intro x hx
      rw [List.mem_map] at hx
      obtain ⟨m, hm, rfl⟩ := hx
      exact hall m hm)
    rw [this]
  · intro i hi
    have harg := (h2 i).mpr hi
    obtain ⟨v, hv, _⟩ := hi
    rw [List.getElem?_map] at hv
    cases hm : models[i]? with
    | none => simp [hm] at hv
    | some m =>
      obtain ⟨n, o⟩ := m
      refine ⟨n, o, rfl, ?_⟩
      unfold bestOfMany bestOfTwo
      rw [harg]
      simp only [hm]

/-! ## information criteria -/

/-- **aic_bic_formulas.**  AIC and the four BIC variants as documented, given the
    counts; a NaN likelihood stays NaN. -/
theorem aic_bic_formulas (c : Counts) (o : Rat) :
    aic c (.num o) = .num (o + 2 * (c.nonfixed : Rat)) ∧
    bic c (.num o) .mixed = .num (o + ((c.thetaR : Rat) * c.logSubs + (c.thetaF : Rat) * c.logObs)) ∧
    bic c (.num o) .fixed = .num (o + (c.nonfixed : Rat) * c.logObs) ∧
    bic c (.num o) .random = .num (o + (c.nonfixed : Rat) * c.logSubs) ∧
    bic c (.num o) .iiv = .num (o + (c.iivOmegas : Rat) * c.logSubs) ∧
    aic c .nan = .nan ∧ (∀ t, bic c .nan t = .nan) := by
  simp [aic, bic, bicPenalty, Val.add]

/-- **get_rankval.**  NaN when the OFV is NaN or the strictness expression is
    false; otherwise the criterion selected by the rank type (`lrt` ranks on the
    OFV; `bic` without an explicit type is the documented default `mixed`). -/
theorem get_rankval_spec (r : Res) (c : Counts) (s : Option SExpr) :
    (r.ofv = .nan → ∀ rt, getRankval r c s rt = .ok .nan) ∧
    (isStrictnessFulfilled r s = .ok false → ∀ rt, getRankval r c s rt = .ok .nan) ∧
    (isStrictnessFulfilled r s = .ok true →
      getRankval r c s .ofv = .ok r.ofv ∧ getRankval r c s .lrt = .ok r.ofv ∧
      getRankval r c s .aic = .ok (aic c r.ofv) ∧
      (∀ t, getRankval r c s (.bic (some t)) = .ok (bic c r.ofv t)) ∧
      getRankval r c s (.bic none) = .ok (bic c r.ofv .mixed)) := by
  refine ⟨?_, ?_, ?_⟩
  · intro h rt
    simp [getRankval, isStrictnessFulfilled, h, Val.isNan]
  · intro h1 rt
    simp [getRankval, h1]
  · intro h1
    simp [getRankval, h1]

/-! ## strictness -/

/-- **strictness_eval.**  Python's evaluation of the expression (short-circuit
    `and`/`or` returning an operand) is the plain boolean denotation of the
    documented grammar — for every expression, including those that use `rse`
    together with `rse_theta/omega/sigma`. -/
theorem strictness_eval (r : Res) (e : SExpr) : evalS r e = denote r e := by
  induction e with
  | b a => rfl
  | cmp a op c => rfl
  | rcmp c op a => rfl
  | and x y ihx ihy => simp only [evalS, denote, ihx, ihy]; cases denote r x <;> simp
  | or x y ihx ihy => simp only [evalS, denote, ihx, ihy]; cases denote r x <;> simp
  | not x ih => simp only [evalS, denote, ih]

/-- **is_strictness_fulfilled, full statement.**  A NaN OFV always fails; the
    empty string always passes; an expression that needs RSEs the result does not
    have is refused (ValueError for `rse`, AttributeError for the per-class
    names); in every other case the answer is the denotation of the expression. -/
theorem is_strictness_fulfilled_spec (r : Res) (s : Option SExpr) :
    (r.ofv = .nan → isStrictnessFulfilled r s = .ok false) ∧
    (r.ofv.isNan = false → isStrictnessFulfilled r none = .ok true) ∧
    (∀ e, r.ofv.isNan = false → r.rse.isNone = true → e.mentionsN .rse = true →
      isStrictnessFulfilled r (some e) = .error .valueError) ∧
    (∀ e, r.ofv.isNan = false → r.rse.isNone = true → e.mentionsN .rse = false → e.mentionsRseClass = true →
      isStrictnessFulfilled r (some e) = .error .attributeError) ∧
    (∀ e, r.ofv.isNan = false → (r.rse.isNone = false ∨ (e.mentionsN .rse = false ∧ e.mentionsRseClass = false)) →
      isStrictnessFulfilled r (some e) = .ok (denote r e)) := by
  refine ⟨?_, ?_, ?_, ?_, ?_⟩
  · intro h; simp [isStrictnessFulfilled, h, Val.isNan]
  · intro h; simp [isStrictnessFulfilled, h]
  · intro e h1 h2 h3; simp [isStrictnessFulfilled, h1, h2, h3]
  · intro e h1 h2 h3 h4; simp [isStrictnessFulfilled, h1, h2, h3, h4]
  · intro e h1 h2
    rcases h2 with h2 | ⟨h2, h3⟩
    · simp [isStrictnessFulfilled, h1, h2, strictness_eval]
    · simp [isStrictnessFulfilled, h1, h2, h3, strictness_eval]

/-- The former counter-example (`rse` used together with `rse_theta`, D2): it now
    evaluates to its documented meaning. -/
theorem strictness_rse_mix_holds :
    isStrictnessFulfilled witnessRes (some (.and (.cmp .rse .lt (4/10)) (.cmp .rseTheta .lt (3/10)))) = .ok true := by
  rw [(is_strictness_fulfilled_spec witnessRes none).2.2.2.2 _ rfl (Or.inl rfl)]
  congr 1
  decide +kernel

/-- **final_zero_gradient_theta/omega/sigma are as documented**: true iff some
    gradient of *that* class is zero or NaN (D1 repaired). -/
theorem fzg_documented (r : Res) :
    battr r .fzgTheta = fzgDoc r .theta ∧ battr r .fzgOmega = fzgDoc r .omega ∧
    battr r .fzgSigma = fzgDoc r .sigma := by
  have h : ∀ gs : List Val, (gs.any isZero || gs.any Val.isNan) = gs.any (fun g => isZero g || g.isNan) := by
    intro gs
    induction gs with
    | nil => rfl
    | cons g gs ih =>
      simp only [List.any_cons]
      rw [← ih]
      cases isZero g <;> cases g.isNan <;> simp
      all_goals (cases gs.any isZero <;> simp)
  exact ⟨h _, h _, h _⟩

/-- The former witness of D1: a NaN omega gradient makes `final_zero_gradient_omega`
    true, a NaN theta gradient alone does not. -/
theorem fzg_omega_nan_holds :
    battr witnessRes .fzgOmega = true ∧
    battr { witnessRes with grd := [(.theta, .nan), (.omega, .num 1), (.sigma, .num 1)] } .fzgOmega = false := by
  constructor <;> decide +kernel

/-! ## _categorize_parameters -/

/-- **categorize_counts.**  The two classes are disjoint, duplicate free, and
    characterised independently of the visiting order: random = the estimated
    omegas plus every parameter occurring in an expression together with an eta;
    fixed = every parameter occurring in an eta-free expression that is not random. -/
theorem categorize_spec (omegas : List String) (vs : List Vis) (hn : omegas.Nodup) (x : String) :
    (x ∈ (categorize omegas vs).2 ↔ x ∈ omegas ∨ ∃ v ∈ vs, v.hasEta = true ∧ x ∈ v.pars) ∧
    (x ∈ (categorize omegas vs).1 ↔
      (∃ v ∈ vs, v.hasEta = false ∧ x ∈ v.pars) ∧ x ∉ (categorize omegas vs).2) ∧
    (categorize omegas vs).1.Nodup ∧ (categorize omegas vs).2.Nodup := by
  obtain ⟨h2, h1⟩ := categorize_fold vs ([], omegas) x
  obtain ⟨n1, n2⟩ := categorize_nodup_fold vs ([], omegas) (by simp) hn
  unfold categorize
  refine ⟨h2, ?_, n1, n2⟩
  rw [h1, h2]
  simp only [List.not_mem_nil, false_or]
  grind

/-! ## resampling statistics -/

theorem stats_sum_perm {l₁ l₂ : List Rat} (h : l₁.Perm l₂) : Stats.sum l₁ = Stats.sum l₂ := sum_perm h

/-- **Permutation invariance.**  Mean, variance (stderr², shrinkage) of a column do
    not depend on the order of the replicates. -/
theorem stats_mean_var_perm {l₁ l₂ : List Rat} (h : l₁.Perm l₂) :
    Stats.mean l₁ = Stats.mean l₂ ∧ Stats.var l₁ = Stats.var l₂ := by
  have hm : Stats.mean l₁ = Stats.mean l₂ := by
    unfold Stats.mean; rw [stats_sum_perm h, h.length_eq]
  refine ⟨hm, ?_⟩
  have hsq : ∀ l : List Rat, List.zipWith (· * ·) l l = l.map (fun d => d * d) := by
    intro l; induction l with
    | nil => rfl
    | cons a l ih => simp
  unfold Stats.var Stats.cov Stats.cross
  rw [hsq, hsq, h.length_eq]
  congr 1
  apply stats_sum_perm
  apply List.Perm.map
  unfold Stats.dev
  rw [hm]
  exact h.map _

/-- The jackknife covariance matrix `(N − 1)/N Σ δ δᵀ` is symmetric. -/
theorem jackknife_cov_symmetric (xs ys : List Rat) (hlen : xs.length = ys.length) :
    Stats.jack xs ys = Stats.jack ys xs := by
  have hz : ∀ a b : List Rat, List.zipWith (· * ·) a b = List.zipWith (· * ·) b a := by
    intro a b
    induction a generalizing b with
    | nil => cases b <;> rfl
    | cons x a ih => cases b with
      | nil => rfl
      | cons y b => simp only [List.zipWith_cons_cons]; rw [ih b, Rat.mul_comm]
  unfold Stats.jack Stats.cross
  rw [hz, hlen]

/-- Defining formulas (as reported by the tools): bias = mean − original estimate,
    RSE² = stderr² / mean², eta shrinkage = 1 − var(eta)/omega, individual
    shrinkage = var_i(eta)/omega, jackknife entry = cross product × (N−1)/N. -/
theorem statistics_defs (xs ys : List Rat) (orig omega diag : Rat) :
    (Stats.colStats xs orig).bias = Stats.mean xs - orig ∧
    (Stats.colStats xs orig).rse2 = Stats.var xs / (Stats.mean xs * Stats.mean xs) ∧
    Stats.etaShrinkage xs omega = 1 - Stats.var xs / omega ∧
    Stats.indShrinkage diag omega = diag / omega ∧
    Stats.jack xs ys = Stats.cross xs ys * ((xs.length : Rat) - 1) / (xs.length : Rat) :=
  ⟨rfl, rfl, rfl, rfl, rfl⟩

/-! ## delta-method standard errors -/

/-- **delta_method_def.**  The squared delta-method standard error computed by
    `se_delta_method` (symbols re-ordered to the covariance columns, sub-matrix cut
    out by label, gradient in that order, `g C gᵀ`) equals the defining formula
    `Σₐ Σ_b ∂f/∂a · Cov(a, b) · ∂f/∂b` summed over the expression's symbols — whatever
    the order of the labels in the covariance matrix. -/
theorem delta_method_def (syms : List String) (g : String → Rat) (c : Stats.LCov)
    (hs : syms.Nodup) (hc : c.cols.Nodup) (hsub : ∀ s ∈ syms, s ∈ c.cols) :
    Stats.deltaVar syms g c = Stats.quadForm syms g c.entry := by
  unfold Stats.deltaVar
  exact quadForm_perm (deltaNames_perm syms c.cols hs hc hsub) g _

/-- The iteration order of `expr.free_symbols` (a set) does not matter. -/
theorem delta_method_symbol_order_irrelevant (syms syms' : List String) (g : String → Rat) (c : Stats.LCov)
    (hp : syms.Perm syms') (hs : syms.Nodup) (hc : c.cols.Nodup) (hsub : ∀ s ∈ syms, s ∈ c.cols) :
    Stats.deltaVar syms g c = Stats.deltaVar syms' g c := by
  rw [delta_method_def syms g c hs hc hsub,
      delta_method_def syms' g c (hp.nodup hs) hc (fun s h => hsub s (hp.mem_iff.mpr h))]
  exact quadForm_perm hp g _

/-- Reading a cell by its labels does not depend on the order of the rows
    (index labels distinct) … -/
theorem lcov_entry_perm_rows (cols cols' : List String) (rows rows' : List (String × List (String × Rat)))
    (hp : rows.Perm rows') (hn : (rows.map (·.1)).Nodup) (a b : String) :
    ({ cols := cols, rows := rows } : Stats.LCov).entry a b = ({ cols := cols', rows := rows' } : Stats.LCov).entry a b := by
  simp only [Stats.LCov.entry, lookupS_perm hp hn a]

/-- … nor on the order of the cells within a row (column labels distinct). -/
theorem lcov_entry_perm_cells (cols : List String) (rows : List (String × List (String × Rat)))
    (f : List (String × Rat) → List (String × Rat)) (hf : ∀ r, (f r).Perm r)
    (hn : ∀ kr ∈ rows, (kr.2.map (·.1)).Nodup) (a b : String) :
    ({ cols := cols, rows := rows.map (fun kr => (kr.1, f kr.2)) } : Stats.LCov).entry a b
      = ({ cols := cols, rows := rows } : Stats.LCov).entry a b := by
  simp only [Stats.LCov.entry]
  induction rows with
  | nil => rfl
  | cons kr rs ih =>
    obtain ⟨k, r⟩ := kr
    simp only [List.map_cons, Stats.lookupS]
    by_cases hk : k = a
    · simp only [hk, if_true]
      have hnr := hn (k, r) (List.mem_cons_self ..)
      have hp := hf r
      rw [lookupS_perm hp ((hp.map _).nodup_iff.mpr hnr) b]
    · simp only [hk, if_false]
      exact ih (fun kr h => hn kr (List.mem_cons_of_mem _ h))

/-- **delta_method_label_perm_invariant.**  Any simultaneous re-ordering of the
    labelled covariance matrix — columns permuted, rows permuted — leaves the
    result unchanged, as long as it is the same labelled matrix. -/
theorem delta_method_label_perm_invariant (syms : List String) (g : String → Rat) (c c' : Stats.LCov)
    (hs : syms.Nodup) (hc : c.cols.Nodup) (hsub : ∀ s ∈ syms, s ∈ c.cols)
    (hcols : c.cols.Perm c'.cols) (hentry : ∀ a b, c'.entry a b = c.entry a b) :
    Stats.deltaVar syms g c' = Stats.deltaVar syms g c := by
  rw [delta_method_def syms g c hs hc hsub,
      delta_method_def syms g c' hs (hcols.nodup hc) (fun s h => hcols.mem_iff.mp (hsub s h))]
  have : c'.entry = c.entry := by funext a b; exact hentry a b
  rw [this]

/-! ## label-order invariance of Cook scores and shrinkage (after f1a9548, 05239f5, 1c13772) -/

/-- **cook_scores_label_perm_invariant.**  The Cook scores depend on the labelled
    base estimate and covariance matrix only through their labels: re-ordering the
    base estimate (labels distinct) and replacing the covariance matrix by any
    re-ordering of the same labelled matrix changes nothing. -/
theorem cook_scores_label_perm_invariant (colLabels : List String) (cols : List (List Rat))
    (base base' : List (String × Rat)) (c c' : Stats.LCov)
    (hb : base.Perm base') (hn : (base.map (·.1)).Nodup) (hentry : ∀ a b, c'.entry a b = c.entry a b) :
    Stats.cook2Labelled colLabels cols base' c' = Stats.cook2Labelled colLabels cols base c := by
  unfold Stats.cook2Labelled
  have h1 : (fun l => (Stats.lookupS base' l).getD 0) = (fun l => (Stats.lookupS base l).getD 0) := by
    funext l; rw [lookupS_perm hb hn l]
  have h2 : c'.entry = c.entry := by funext a b; exact hentry a b
  rw [h1, h2]

/-- The Cook scores are those of the positional definition applied to the
    base estimate and covariance re-indexed by the columns of the estimates. -/
theorem cook_scores_def (colLabels : List String) (cols : List (List Rat)) (base : List (String × Rat)) (c : Stats.LCov) :
    Stats.cook2Labelled colLabels cols base c =
      Stats.cook2 (colLabels.map (fun l => (Stats.lookupS base l).getD 0)) cols
        (colLabels.map (fun a => colLabels.map (fun b => c.entry a b))) := rfl

/-- **eta_shrinkage_by_label.**  Every column of `individual_estimates` gets
    `1 − var(column) / omega` with the omega of the eta *named like the column*,
    whatever the order of the columns; permuting the columns permutes the result. -/
theorem eta_shrinkage_by_label (etaNames : List String) (omegas : List Rat) (ie ie' : List (String × List Rat)) :
    (∀ nm col, (nm, col) ∈ ie →
      (nm, 1 - Stats.var col / ((Stats.lookupS (etaNames.zip omegas) nm).getD 0)) ∈ Stats.etaShrinkageL etaNames omegas ie) ∧
    (ie.Perm ie' → (Stats.etaShrinkageL etaNames omegas ie).Perm (Stats.etaShrinkageL etaNames omegas ie')) ∧
    (ie.Perm ie' → (ie.map (·.1)).Nodup → ∀ nm,
      Stats.lookupS (Stats.etaShrinkageL etaNames omegas ie) nm = Stats.lookupS (Stats.etaShrinkageL etaNames omegas ie') nm) := by
  refine ⟨?_, ?_, ?_⟩
  · intro nm col h
    unfold Stats.etaShrinkageL
    exact List.mem_map.mpr ⟨(nm, col), h, rfl⟩
  · intro h; exact h.map _
  · intro h hn nm
    apply lookupS_perm (h.map _)
    rw [List.map_map]
    exact hn

/-- **individual_shrinkage_by_label.**  For one individual, each diagonal entry of
    its (labelled) matrix is divided by the omega of the eta with that label,
    whatever the order of the labels. -/
theorem individual_shrinkage_by_label (etaNames : List String) (omegas : List Rat) (diag diag' : List (String × Rat)) :
    (∀ nm d, (nm, d) ∈ diag →
      (nm, d / ((Stats.lookupS (etaNames.zip omegas) nm).getD 0)) ∈ Stats.indShrinkageL etaNames omegas diag) ∧
    (diag.Perm diag' → (diag.map (·.1)).Nodup → ∀ nm,
      Stats.lookupS (Stats.indShrinkageL etaNames omegas diag) nm = Stats.lookupS (Stats.indShrinkageL etaNames omegas diag') nm) := by
  refine ⟨?_, ?_⟩
  · intro nm d h
    unfold Stats.indShrinkageL
    exact List.mem_map.mpr ⟨(nm, d), h, rfl⟩
  · intro h hn nm
    apply lookupS_perm (h.map _)
    rw [List.map_map]
    exact hn

/-- The pre-repair positional pairing (before 05239f5) was *not* label based:
    with the columns swapped the labelled and the positional results differ. -/
theorem eta_shrinkage_positional_witness :
    Stats.etaShrinkagePositional [1, 2] [("ETA_VC", [0, 2]), ("ETA_CL", [0, 4])]
      ≠ Stats.etaShrinkageL ["ETA_CL", "ETA_VC"] [1, 2] [("ETA_VC", [0, 2]), ("ETA_CL", [0, 4])] := by
  decide +kernel

/-- Likewise for the Cook scores (before f1a9548): a base estimate labelled in
    another order than the estimate columns gave other scores. -/
theorem cook_scores_positional_witness :
    Stats.cook2Positional ["b", "a"] [[1, 2, 4], [0, 1, 5]] [("a", 1), ("b", 3)] [[2, 0], [0, 1]]
      ≠ Stats.cook2Labelled ["b", "a"] [[1, 2, 4], [0, 1, 5]] [("a", 1), ("b", 3)]
          { cols := ["b", "a"], rows := [("b", [("b", 2), ("a", 0)]), ("a", [("b", 0), ("a", 1)])] } := by
  decide +kernel

/-! ## non-vacuity -/

/-- The candidate set of tests/tools/test_run.py (base, m1 failing strictness, m2 = m3 tied, m4 worse):
    ranks 1, 1, 3, 4 and an unranked last row. -/
example :
    (rankModels { lrt := false, cutoff := .none, isf := fun _ _ => 0 }
      [⟨.num 0, .num 0, 1, 0, 0⟩, ⟨.nan, .num (-5), 2, 0, 0⟩, ⟨.num (-4), .num (-4), 2, 0, 0⟩,
       ⟨.num (-4), .num (-4), 3, 0, 0⟩, ⟨.num 1, .num 1, 1, 0, 0⟩]).map (fun r => (r.idx, r.rank))
      = [(2, some 1), (3, some 1), (0, some 3), (4, some 4), (1, none)] := by decide +kernel

/-- `Eligible` is satisfiable by a candidate through each of its three clauses. -/
example : Eligible { lrt := false, cutoff := .one 1, isf := fun _ _ => 0 }
    [⟨.num 0, .num 0, 1, 0, 0⟩, ⟨.num (-4), .num (-4), 2, 0, 0⟩] 1 ⟨.num (-4), .num (-4), 2, 0, 0⟩ := by
  refine ⟨-4, rfl, Or.inr (Or.inr ⟨rfl, ?_⟩)⟩
  intro co r hco hr
  simp only [Cutoff.one.injEq] at hco
  subst hco
  simp [refValue, Val.add] at hr
  subst hr
  decide +kernel

example : Eligible { lrt := true, cutoff := .none, isf := fun _ _ => 3841 / 1000 }
    [⟨.num 0, .num 0, 1, 0, 0⟩, ⟨.num (-4), .num (-4), 2, 0, 0⟩] 1 ⟨.num (-4), .num (-4), 2, 0, 0⟩ := by
  refine ⟨-4, rfl, Or.inr (Or.inl ⟨rfl, ?_⟩)⟩
  decide +kernel

/-- `IsNanArgmin` is satisfiable on a list with NaN entries and a tie. -/
example : IsNanArgmin [.nan, .num 2, .num 1, .nan, .num 1] 2 := by
  have : nanargmin [.nan, .num 2, .num 1, .nan, .num 1] = some 2 := by decide +kernel
  exact ((nanargmin_spec _).2 2).mp this

/-- The default strictness of the tools on a fine result is fulfilled (last clause of `is_strictness_fulfilled_spec`). -/
example : isStrictnessFulfilled witnessRes
      (some (.or (.b .minimizationSuccessful) (.and (.b .roundingErrors) (.cmp .sigdigs .ge (1/10))))) = .ok true := by
  rw [(is_strictness_fulfilled_spec witnessRes none).2.2.2.2 _ rfl (Or.inl rfl)]
  congr 1

/-- delta method on `POP_VC * (1 + 2.5 COVAPGR)`-like data: labels in model order (not lexical);
    the hypotheses of `delta_method_def` hold and the value is the label-based quadratic form. -/
example :
    Stats.deltaVar ["COVAPGR", "POP_VC"] (fun s => if s = "POP_VC" then 3 else 1/2)
      { cols := ["POP_CL", "POP_VC", "COVAPGR"],
        rows := [("POP_CL", [("POP_CL", 1), ("POP_VC", 0), ("COVAPGR", 0)]),
                 ("POP_VC", [("POP_CL", 0), ("POP_VC", 4), ("COVAPGR", 1)]),
                 ("COVAPGR", [("POP_CL", 0), ("POP_VC", 1), ("COVAPGR", 2)])] } = 79 / 2 := by
  decide +kernel

end Pharmpy.C19
