import PharmpyModel.C19.Model
namespace Pharmpy.C19

/-- placeholder replaced below -/
theorem lrt_cutoff_zero (isf : Rat → Nat → Rat) (alpha : Rat) : lrtCutoff isf 0 alpha = 0 := by
  simp [lrtCutoff]

end Pharmpy.C19
