import PharmpyProofs.C19.Lemmas
import PharmpyModel.C19.Spec
/-
  C19 — Ranking, selection criteria and result statistics follow their
  definitions.  Property theorems only.

  Everything is universally quantified: every list of candidates (any
  length), every criterion value incl. NaN, every parent map, cut-off,
  penalty vector and every chi-square table `isf`.
-/
namespace Pharmpy.C19

/-! ## rank_models -/

/-- The filtering loop keeps an entry exactly when it is eligible in the sense
    of the property statement, and then records criterion + penalty. -/
theorem keep_iff_eligible (cfg : Cfg) (all : List Cand) (i : Nat) (c : Cand) (w : Rat) :
    keep cfg all (refValue all) i c = some w ↔
      Eligible cfg all i c ∧ ∃ v, c.rv = .num v ∧ w = v + c.pen := by
  unfold keep Eligible
  cases hrv : c.rv with
  | nan => simp
  | num v =>
    simp only [Val.num.injEq, exists_eq_left']
    by_cases hi : i = 0
    · simp [hi]; grind
    · simp only [hi, if_false, false_or]
      cases hl : cfg.lrt with
      | true =>
        simp only [if_true, true_and]
        split <;> simp_all <;> grind
      | false =>
        simp only [Bool.false_eq_true, if_false, false_and, false_or, true_and]
        cases hc : cfg.cutoff with
        | none => simp; grind
        | two a b => simp; grind
        | one co =>
          cases hr : refValue all with
          | nan => simp [Val.sub, Val.le]; grind
          | num r =>
            simp only [Val.sub, Val.le, decide_eq_true_eq, Cutoff.one.injEq, Val.num.injEq]
            split
            · rename_i hle
              simp only [reduceCtorEq, false_iff, not_and]
              intro hlt
              grind
            · rename_i hnle
              simp only [Option.some.injEq]
              constructor
              · rintro rfl; exact ⟨by grind, rfl⟩
              · rintro ⟨_, rfl⟩; rfl

/-- **rank_spec (1/4) — the ranked set.**  A model has a rank in the result of
    `rank_models` iff it is eligible: the ranked set is `{base if its strictness
    holds} ∪ {eligible candidates}` and nothing else. -/
theorem ranked_iff_eligible (cfg : Cfg) (all : List Cand) (i : Nat) :
    (∃ r ∈ rankModels cfg all, r.idx = i ∧ r.rank.isSome = true) ↔
      ∃ c, all[i]? = some c ∧ Eligible cfg all i c := by
  unfold rankModels
  constructor
  · rintro ⟨r, hr, rfl, hrank⟩
    rcases List.mem_append.mp hr with hr | hr
    · rw [rankedRows_eq, List.mem_map] at hr
      obtain ⟨p, hp, rfl⟩ := hr
      have hp' := (sortDesc_perm _ _).mem_iff.mp hp
      obtain ⟨c, hc, hk⟩ := (mem_keptOf cfg all p.1 p.2).mp hp'
      exact ⟨c, hc, ((keep_iff_eligible cfg all p.1 c p.2).mp hk).1⟩
    · unfold unrankedRows at hr
      simp only [List.mem_map] at hr
      obtain ⟨j, _, rfl⟩ := hr
      simp at hrank
  · rintro ⟨c, hc, he⟩
    obtain ⟨v, hv, _⟩ := id he
    have hk : keep cfg all (refValue all) i c = some (v + c.pen) :=
      (keep_iff_eligible cfg all i c _).mpr ⟨he, v, hv, rfl⟩
    have hmem : (i, v + c.pen) ∈ keptOf cfg all := (mem_keptOf cfg all i _).mpr ⟨c, hc, hk⟩
    have hmem' := (sortDesc_perm (fun p : Nat × Rat => keyOf (refValue all) p.2) _).mem_iff.mpr hmem
    have hrow := List.mem_map_of_mem (f := fun p : Nat × Rat =>
        ({ idx := p.1, delta := (refValue all).sub (.num p.2), rv := .num p.2,
           rank := some (compRank (keptOf cfg all) p.2) } : Row)) hmem'
    rw [← rankedRows_eq] at hrow
    exact ⟨_, List.mem_append_left _ hrow, rfl, rfl⟩

/-- Every model of `models_all` has exactly one row. -/
theorem rows_cover (cfg : Cfg) (all : List Cand) :
    ((rankModels cfg all).map (·.idx)).Perm (List.range all.length) := by
  have hk := keptOf_idx_nodup cfg all
  have hsub : ∀ i ∈ (keptOf cfg all).map (·.1), i < all.length := by
    intro i hi
    rw [List.mem_map] at hi
    obtain ⟨p, hp, rfl⟩ := hi
    obtain ⟨c, hc, _⟩ := (mem_keptOf cfg all p.1 p.2).mp hp
    obtain ⟨h, _⟩ := List.getElem?_eq_some_iff.mp hc
    exact h
  have h1 : ((rankedRows cfg all).map (·.idx)).Perm ((keptOf cfg all).map (·.1)) := by
    rw [rankedRows_eq, List.map_map]
    exact (sortDesc_perm (fun p : Nat × Rat => keyOf (refValue all) p.2) (keptOf cfg all)).map _
  have h2 : (unrankedRows cfg all).map (·.idx)
      = (List.range all.length).filter (fun i => !((keptOf cfg all).map (·.1)).contains i) := by
    unfold unrankedRows
    simp [List.map_map, Function.comp_def]
  unfold rankModels
  rw [List.map_append, h2]
  refine (List.Perm.append h1 (List.Perm.refl _)).trans ?_
  rw [List.perm_ext_iff_of_nodup]
  · intro a
    simp only [List.mem_append, List.mem_filter, List.mem_range, Bool.not_eq_true', List.contains_eq_mem,
      decide_eq_false_iff_not]
    constructor
    · rintro (h | h)
      · exact hsub a h
      · exact h.1
    · intro h
      by_cases hm : a ∈ (keptOf cfg all).map (·.1)
      · exact Or.inl hm
      · exact Or.inr ⟨h, hm⟩
  · rw [List.nodup_append]
    refine ⟨hk, List.Pairwise.filter _ List.nodup_range, ?_⟩
    intro a ha b hb hab
    subst hab
    have h2' := (List.mem_filter.mp hb).2
    simp only [Bool.not_eq_true', List.contains_eq_mem, decide_eq_false_iff_not] at h2'
    exact h2' ha
  · exact List.nodup_range

/-- Counting the rows that are strictly better than `x` is counting the kept models. -/
theorem count_better (cfg : Cfg) (all : List Cand) (x : Rat) :
    (rankModels cfg all).countP (Row.better x) = (keptOf cfg all).countP (fun q => decide (q.2 < x)) := by
  unfold rankModels
  rw [List.countP_append, rankedRows_eq, List.countP_map]
  have h0 : (unrankedRows cfg all).countP (Row.better x) = 0 := by
    rw [List.countP_eq_zero]
    intro r hr
    unfold unrankedRows at hr
    simp only [List.mem_map] at hr
    obtain ⟨j, _, rfl⟩ := hr
    simp [Row.better]
  rw [h0, Nat.add_zero, ← (sortDesc_perm (fun p : Nat × Rat => keyOf (refValue all) p.2) (keptOf cfg all)).countP_eq]
  apply List.countP_congr
  intro p _
  simp [Row.better]

/-- **rank_spec (2/4) — values and ranks.**  A ranked row reports criterion +
    penalty, `reference − value` as delta, and its rank is the *competition rank*
    on the criterion: one plus the number of ranked models with a strictly
    smaller (better) value. -/
theorem ranked_row_spec (cfg : Cfg) (all : List Cand) (r : Row) (k : Nat)
    (hr : r ∈ rankModels cfg all) (hk : r.rank = some k) :
    ∃ c v, all[r.idx]? = some c ∧ c.rv = .num v ∧ Eligible cfg all r.idx c ∧
      r.rv = .num (v + c.pen) ∧ r.delta = (refValue all).sub (.num (v + c.pen)) ∧
      k = 1 + (rankModels cfg all).countP (Row.better (v + c.pen)) := by
  simp only [count_better]
  unfold rankModels at hr
  rcases List.mem_append.mp hr with hr | hr
  · rw [rankedRows_eq, List.mem_map] at hr
    obtain ⟨p, hp, rfl⟩ := hr
    have hp' := (sortDesc_perm _ _).mem_iff.mp hp
    obtain ⟨c, hc, hkeep⟩ := (mem_keptOf cfg all p.1 p.2).mp hp'
    obtain ⟨he, v, hv, hw⟩ := (keep_iff_eligible cfg all p.1 c p.2).mp hkeep
    simp only [Option.some.injEq] at hk
    refine ⟨c, v, hc, hv, he, ?_, ?_, ?_⟩
    · simp [hw]
    · simp [hw]
    · rw [← hk, ← hw]; rfl
  · unfold unrankedRows at hr
    simp only [List.mem_map] at hr
    obtain ⟨j, _, rfl⟩ := hr
    simp at hk

/-- **Ties share a rank.** -/
theorem ties_share_rank (cfg : Cfg) (all : List Cand) (r s : Row) (k m : Nat) (v : Rat)
    (hr : r ∈ rankModels cfg all) (hs : s ∈ rankModels cfg all)
    (hk : r.rank = some k) (hm : s.rank = some m) (hrv : r.rv = .num v) (hsv : s.rv = .num v) : k = m := by
  obtain ⟨c, x, _, _, _, h4, _, h6⟩ := ranked_row_spec cfg all r k hr hk
  obtain ⟨c', x', _, _, _, h4', _, h6'⟩ := ranked_row_spec cfg all s m hs hm
  rw [hrv] at h4; rw [hsv] at h4'
  simp only [Val.num.injEq] at h4 h4'
  rw [← h4] at h6; rw [← h4'] at h6'
  omega

/-- **Ranking orders by the criterion.** A strictly smaller (better) value has a strictly smaller rank. -/
theorem better_value_smaller_rank (cfg : Cfg) (all : List Cand) (r s : Row) (k m : Nat) (v w : Rat)
    (hr : r ∈ rankModels cfg all) (hs : s ∈ rankModels cfg all)
    (hk : r.rank = some k) (hm : s.rank = some m) (hrv : r.rv = .num v) (hsv : s.rv = .num w)
    (hvw : v < w) : k < m := by
  obtain ⟨c, x, _, _, _, h4, _, h6⟩ := ranked_row_spec cfg all r k hr hk
  obtain ⟨c', x', _, _, _, h4', _, h6'⟩ := ranked_row_spec cfg all s m hs hm
  rw [hrv] at h4; rw [hsv] at h4'
  simp only [Val.num.injEq] at h4 h4'
  rw [← h4] at h6; rw [← h4'] at h6'
  have : (rankModels cfg all).countP (Row.better v) < (rankModels cfg all).countP (Row.better w) := by
    apply countP_lt_of_witness _ _ _ _ r hr
    · simp [Row.better, hrv, hvw]
    · simp [Row.better, hrv, Rat.lt_irrefl]
    · intro y _ hy
      unfold Row.better at hy ⊢
      cases hyv : y.rv with
      | nan => simp [hyv] at hy
      | num z => simp [hyv] at hy ⊢; grind
  omega

/-- **rank_spec (3/4) — failed never above.**  In the returned frame no row
    without a rank (failed strictness, cut-off or test) precedes a ranked row. -/
theorem failed_never_above (cfg : Cfg) (all : List Cand) :
    (rankModels cfg all).Pairwise (fun a b => a.rank = none → b.rank = none) := by
  unfold rankModels
  rw [List.pairwise_append]
  refine ⟨?_, ?_, ?_⟩
  · rw [rankedRows_eq, List.pairwise_map]
    exact List.Pairwise.imp (fun _ h => by simp at h) (List.pairwise_of_forall (fun _ _ => trivial) : List.Pairwise (fun _ _ => True) _)
  · unfold unrankedRows
    rw [List.pairwise_map]
    exact List.Pairwise.imp (fun _ _ => rfl) (List.pairwise_of_forall (fun _ _ => trivial) : List.Pairwise (fun _ _ => True) _)
  · intro a _ b hb _
    unfold unrankedRows at hb
    simp only [List.mem_map] at hb
    obtain ⟨j, _, rfl⟩ := hb
    rfl

/-- **rank_spec (4/4) — row order.**  Rows are in non-decreasing order of the
    criterion (best first). -/
theorem rows_sorted_by_criterion (cfg : Cfg) (all : List Cand) :
    (rankModels cfg all).Pairwise (fun a b => ∀ v w, a.rv = .num v → b.rv = .num w → v ≤ w) := by
  unfold rankModels
  rw [List.pairwise_append]
  refine ⟨?_, ?_, ?_⟩
  · rw [rankedRows_eq, List.pairwise_map]
    refine List.Pairwise.imp ?_ (sortDesc_sorted (fun p : Nat × Rat => keyOf (refValue all) p.2) (keptOf cfg all))
    intro a b hab v w hv hw
    simp only [Val.num.injEq] at hv hw
    subst hv; subst hw
    exact (keyOf_le _ _ _).mp hab
  · unfold unrankedRows
    rw [List.pairwise_map]
    exact List.Pairwise.imp (fun _ v w hv => by simp at hv) (List.pairwise_of_forall (fun _ _ => trivial) : List.Pairwise (fun _ _ => True) _)
  · intro a _ b hb v w _ hw
    unfold unrankedRows at hb
    simp only [List.mem_map] at hb
    obtain ⟨j, _, rfl⟩ := hb
    simp at hw

end Pharmpy.C19
