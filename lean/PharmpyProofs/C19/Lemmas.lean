import PharmpyModel.C19.Model
import PharmpyModel.C19.Spec
import PharmpyModel.C19.Stats
/-
  Helper lemmas for C19: the stable descending insertion sort is a sorted
  permutation; the ranking loop computes competition ranks on a sorted list;
  membership characterisations of `keptOf` and `rankedRows`.
-/
namespace Pharmpy.C19

/-! ### sortDesc -/

theorem insertDesc_perm {α : Type} (key : α → Rat) (x : α) (l : List α) :
    (insertDesc key x l).Perm (x :: l) := by
  induction l with
  | nil => simp [insertDesc]
  | cons y ys ih =>
    simp only [insertDesc]
    split
    · exact List.Perm.refl _
    · exact (List.Perm.cons y ih).trans (List.Perm.swap x y ys)

theorem sortDesc_perm {α : Type} (key : α → Rat) (l : List α) : (sortDesc key l).Perm l := by
  induction l with
  | nil => simp [sortDesc]
  | cons x xs ih =>
    have : sortDesc key (x :: xs) = insertDesc key x (sortDesc key xs) := rfl
    rw [this]
    exact (insertDesc_perm key x _).trans (List.Perm.cons x ih)

theorem insertDesc_sorted {α : Type} (key : α → Rat) (x : α) (l : List α)
    (h : l.Pairwise (fun a b => key b ≤ key a)) :
    (insertDesc key x l).Pairwise (fun a b => key b ≤ key a) := by
  induction l with
  | nil => simp [insertDesc]
  | cons y ys ih =>
    simp only [insertDesc]
    rw [List.pairwise_cons] at h
    split
    · rename_i hle
      rw [List.pairwise_cons]
      refine ⟨?_, List.pairwise_cons.mpr h⟩
      intro a ha
      rcases List.mem_cons.mp ha with rfl | ha
      · exact hle
      · have := h.1 a ha
        grind
    · rename_i hnle
      rw [List.pairwise_cons]
      refine ⟨?_, ih h.2⟩
      intro a ha
      have hm := (insertDesc_perm key x ys).mem_iff.mp ha
      rcases List.mem_cons.mp hm with rfl | ha
      · grind
      · exact h.1 a ha

theorem sortDesc_sorted {α : Type} (key : α → Rat) (l : List α) :
    (sortDesc key l).Pairwise (fun a b => key b ≤ key a) := by
  induction l with
  | nil => simp [sortDesc]
  | cons x xs ih =>
    have : sortDesc key (x :: xs) = insertDesc key x (sortDesc key xs) := rfl
    rw [this]
    exact insertDesc_sorted key x _ ih

/-! ### the ranking loop -/

/-- number of entries strictly greater than `x` -/
def above (keys : List Rat) (x : Rat) : Nat := keys.countP (fun y => decide (x < y))

theorem above_eq_zero_of_sorted_head (x : Rat) (xs : List Rat)
    (h : ∀ a ∈ xs, a ≤ x) : above (x :: xs) x = 0 := by
  unfold above
  rw [List.countP_eq_zero]
  intro a ha
  rcases List.mem_cons.mp ha with rfl | ha
  · simp [Rat.lt_irrefl]
  · have := h a ha
    simp; grind

/-- The loop invariant: started inside a tie group of key `p` (already `count + 1`
    members seen, `rank` assigned to the group), the rest of a descending list gets
    `rank` for the members of the group and `rank + count + 1 + (number of strictly
    greater entries of the rest)` for the others. -/
theorem ranksAux_spec (l : List Rat) :
    ∀ (rank count : Nat) (p : Rat),
      l.Pairwise (fun a b => b ≤ a) → (∀ a ∈ l, a ≤ p) →
      ranksAux rank count (some p) l =
        l.map (fun x => if x = p then rank else rank + count + 1 + above l x) := by
  induction l with
  | nil => intro rank count p _ _; simp [ranksAux]
  | cons x xs ih =>
    intro rank count p hs hp
    rw [List.pairwise_cons] at hs
    have hxp : x ≤ p := hp x (List.mem_cons_self ..)
    by_cases hx : x = p
    · subst hx
      have hstep : ranksAux rank count (some x) (x :: xs) = rank :: ranksAux rank (count + 1) (some x) xs := by
        simp [ranksAux]
      rw [hstep, ih rank (count + 1) x hs.2 hs.1]
      simp only [List.map_cons, if_true]
      congr 1
      apply List.map_congr_left
      intro z hz
      by_cases hzx : z = x
      · simp [hzx]
      · have hzle := hs.1 z hz
        have hlt : z < x := by grind
        simp only [hzx, if_false]
        unfold above
        rw [List.countP_cons]
        simp [hlt]
        omega
    · have hstep : ranksAux rank count (some p) (x :: xs)
          = (rank + (count + 1)) :: ranksAux (rank + (count + 1)) 0 (some x) xs := by
        simp [ranksAux, hx]
      rw [hstep, ih (rank + (count + 1)) 0 x hs.2 hs.1]
      simp only [List.map_cons, hx, if_false]
      congr 1
      · rw [above_eq_zero_of_sorted_head x xs hs.1]; omega
      · apply List.map_congr_left
        intro z hz
        have hzle := hs.1 z hz
        have hzp : z ≠ p := by grind
        simp only [hzp, if_false]
        by_cases hzx : z = x
        · subst hzx
          simp only [if_true]
          rw [above_eq_zero_of_sorted_head z xs hs.1]; omega
        · have hlt : z < x := by grind
          simp only [hzx, if_false]
          unfold above
          rw [List.countP_cons]
          simp [hlt]
          omega

/-- On a descending list the loop assigns competition ranks:
    `1 +` the number of strictly greater keys. -/
theorem ranks_spec (l : List Rat) (hs : l.Pairwise (fun a b => b ≤ a)) :
    ranks l = l.map (fun x => 1 + above l x) := by
  cases l with
  | nil => simp [ranks, ranksAux]
  | cons x xs =>
    rw [List.pairwise_cons] at hs
    have hstep : ranks (x :: xs) = 1 :: ranksAux 1 0 (some x) xs := by
      simp [ranks, ranksAux]
    rw [hstep, ranksAux_spec xs 1 0 x hs.2 hs.1]
    simp only [List.map_cons]
    congr 1
    · rw [above_eq_zero_of_sorted_head x xs hs.1]
    · apply List.map_congr_left
      intro z hz
      have hzle := hs.1 z hz
      by_cases hzx : z = x
      · subst hzx
        simp only [if_true]
        rw [above_eq_zero_of_sorted_head z xs hs.1]
      · have hlt : z < x := by grind
        simp only [hzx, if_false]
        unfold above
        rw [List.countP_cons]
        simp [hlt]
        omega

theorem zip_map_self {α β : Type} (l : List α) (f : α → β) :
    l.zip (l.map f) = l.map (fun x => (x, f x)) := by
  induction l with
  | nil => rfl
  | cons a l ih => simp [ih]

/-! ### counting -/

theorem countP_lt_of_witness {α : Type} (p q : α → Bool) (l : List α)
    (hpq : ∀ x ∈ l, p x = true → q x = true) (x : α) (hx : x ∈ l) (hq : q x = true) (hp : p x = false) :
    l.countP p < l.countP q := by
  induction l with
  | nil => cases hx
  | cons a l ih =>
    rw [List.countP_cons, List.countP_cons]
    have hmono : l.countP p ≤ l.countP q :=
      List.countP_mono_left (fun y hy => hpq y (List.mem_cons_of_mem _ hy))
    rcases List.mem_cons.mp hx with rfl | hx'
    · simp [hq, hp]; omega
    · have := ih (fun y hy => hpq y (List.mem_cons_of_mem _ hy)) hx'
      have ha := hpq a (List.mem_cons_self ..)
      by_cases hpa : p a = true
      · simp [hpa, ha hpa]; omega
      · simp [hpa]; split <;> omega

/-! ### keptOf -/

theorem mem_keptOf (cfg : Cfg) (all : List Cand) (i : Nat) (v : Rat) :
    (i, v) ∈ keptOf cfg all ↔ ∃ c, all[i]? = some c ∧ keep cfg all (refValue all) i c = some v := by
  unfold keptOf
  rw [List.mem_filterMap]
  constructor
  · rintro ⟨⟨c, j⟩, hmem, hf⟩
    rw [List.mem_zipIdx_iff_getElem?] at hmem
    simp only at hmem hf
    cases hk : keep cfg all (refValue all) j c with
    | none => simp [hk] at hf
    | some w =>
      simp [hk] at hf
      obtain ⟨rfl, rfl⟩ := hf
      exact ⟨c, hmem, hk⟩
  · rintro ⟨c, hc, hk⟩
    refine ⟨(c, i), ?_, ?_⟩
    · rw [List.mem_zipIdx_iff_getElem?]; exact hc
    · simp [hk]

/-- The kept indices are pairwise distinct (each model is visited once). -/
theorem keptOf_idx_nodup_aux (f : Nat → Cand → Option Rat) (l : List Cand) (s : Nat) :
    (((l.zipIdx s).filterMap (fun ci => (f ci.2 ci.1).map (fun v => (ci.2, v)))).map (·.1)).Pairwise (· ≠ ·)
    ∧ ∀ p ∈ ((l.zipIdx s).filterMap (fun ci => (f ci.2 ci.1).map (fun v => (ci.2, v)))), s ≤ p.1 := by
  induction l generalizing s with
  | nil => simp
  | cons c cs ih =>
    rw [List.zipIdx_cons]
    obtain ⟨ih1, ih2⟩ := ih (s + 1)
    cases hf : f s c with
    | none =>
      simp only [List.filterMap_cons, hf, Option.map_none]
      exact ⟨ih1, fun p hp => Nat.le_of_succ_le (ih2 p hp)⟩
    | some w =>
      simp only [List.filterMap_cons, hf, Option.map_some, List.map_cons]
      refine ⟨?_, ?_⟩
      · rw [List.pairwise_cons]
        refine ⟨?_, ih1⟩
        intro a ha
        rw [List.mem_map] at ha
        obtain ⟨p, hp, rfl⟩ := ha
        have := ih2 p hp
        omega
      · intro p hp
        rcases List.mem_cons.mp hp with rfl | hp
        · exact Nat.le_refl _
        · exact Nat.le_of_succ_le (ih2 p hp)

theorem keptOf_idx_nodup (cfg : Cfg) (all : List Cand) : ((keptOf cfg all).map (·.1)).Nodup :=
  (keptOf_idx_nodup_aux (fun i c => keep cfg all (refValue all) i c) all 0).1

theorem keptOf_fun (cfg : Cfg) (all : List Cand) (i : Nat) (v w : Rat)
    (hv : (i, v) ∈ keptOf cfg all) (hw : (i, w) ∈ keptOf cfg all) : v = w := by
  rw [mem_keptOf] at hv hw
  obtain ⟨c, hc, hk⟩ := hv
  obtain ⟨c', hc', hk'⟩ := hw
  rw [hc] at hc'
  cases hc'
  rw [hk] at hk'
  cases hk'
  rfl

/-! ### the sort key reverses the criterion -/

theorem keyOf_lt (ref : Val) (v w : Rat) : keyOf ref v < keyOf ref w ↔ w < v := by
  cases ref <;> simp [keyOf] <;> grind

theorem keyOf_le (ref : Val) (v w : Rat) : keyOf ref v ≤ keyOf ref w ↔ w ≤ v := by
  cases ref <;> simp [keyOf] <;> grind

/-! ### rankedRows -/

/-- competition rank of criterion value `v` among the kept models -/
def compRank (kept : List (Nat × Rat)) (v : Rat) : Nat := 1 + kept.countP (fun q => decide (q.2 < v))

theorem above_keys (ref : Val) (l : List (Nat × Rat)) (v : Rat) :
    above (l.map (fun p => keyOf ref p.2)) (keyOf ref v) = l.countP (fun q => decide (q.2 < v)) := by
  unfold above
  rw [List.countP_map]
  apply List.countP_congr
  intro q _
  simp [keyOf_lt]

/-- The ranked rows are the sorted kept models, each with its competition rank. -/
theorem rankedRows_eq (cfg : Cfg) (all : List Cand) :
    rankedRows cfg all =
      (sortDesc (fun p => keyOf (refValue all) p.2) (keptOf cfg all)).map (fun p =>
        { idx := p.1, delta := (refValue all).sub (.num p.2), rv := .num p.2,
          rank := some (compRank (keptOf cfg all) p.2) }) := by
  unfold rankedRows
  simp only
  have hs := sortDesc_sorted (fun p : Nat × Rat => keyOf (refValue all) p.2) (keptOf cfg all)
  have hp := sortDesc_perm (fun p : Nat × Rat => keyOf (refValue all) p.2) (keptOf cfg all)
  rw [ranks_spec _ (List.pairwise_map.mpr hs)]
  rw [List.map_map, zip_map_self, List.map_map]
  apply List.map_congr_left
  intro p _
  simp only [Function.comp]
  rw [above_keys]
  unfold compRank
  rw [hp.countP_eq]

/-! ### nanargmin -/

theorem nanargminV_spec (xs : List Val) :
    (nanargminV xs = none → ∀ x ∈ xs, x = .nan) ∧
    (∀ i v, nanargminV xs = some (i, v) →
      xs[i]? = some (.num v) ∧ (∀ (j : Nat) (w : Rat), xs[j]? = some (.num w) → v ≤ w) ∧
      (∀ (j : Nat) (w : Rat), j < i → xs[j]? = some (.num w) → v < w)) := by
  induction xs with
  | nil => simp [nanargminV]
  | cons x xs ih =>
    obtain ⟨ih1, ih2⟩ := ih
    cases x with
    | nan =>
      simp only [nanargminV]
      constructor
      · intro h x hx
        cases hr : nanargminV xs with
        | some p => simp [hr] at h
        | none =>
          rcases List.mem_cons.mp hx with rfl | hx
          · rfl
          · exact ih1 hr x hx
      · intro i v h
        cases hr : nanargminV xs with
        | none => simp [hr] at h
        | some p =>
          obtain ⟨k, b⟩ := p
          simp [hr] at h
          obtain ⟨rfl, rfl⟩ := h
          obtain ⟨h1, h2, h3⟩ := ih2 k b hr
          refine ⟨by simpa using h1, ?_, ?_⟩
          · intro j w hj
            cases j with
            | zero => simp at hj
            | succ j => exact h2 j w (by simpa using hj)
          · intro j w hlt hj
            cases j with
            | zero => simp at hj
            | succ j => exact h3 j w (by omega) (by simpa using hj)
    | num a =>
      simp only [nanargminV]
      constructor
      · intro h
        cases hr : nanargminV xs with
        | none => simp [hr] at h
        | some p => obtain ⟨k, b⟩ := p; simp [hr] at h; split at h <;> cases h
      · intro i v h
        cases hr : nanargminV xs with
        | none =>
          simp [hr] at h
          obtain ⟨rfl, rfl⟩ := h
          refine ⟨by simp, ?_, ?_⟩
          · intro j w hj
            cases j with
            | zero => simp at hj; subst hj; exact Rat.le_refl
            | succ j =>
              have := ih1 hr (.num w) (List.mem_of_getElem? (by simpa using hj))
              cases this
          · intro j w hlt; omega
        | some p =>
          obtain ⟨k, b⟩ := p
          obtain ⟨h1, h2, h3⟩ := ih2 k b hr
          simp [hr] at h
          by_cases hba : b < a
          · simp [hba] at h
            obtain ⟨rfl, rfl⟩ := h
            refine ⟨by simpa using h1, ?_, ?_⟩
            · intro j w hj
              cases j with
              | zero => simp at hj; subst hj; grind
              | succ j => exact h2 j w (by simpa using hj)
            · intro j w hlt hj
              cases j with
              | zero => simp at hj; subst hj; exact hba
              | succ j => exact h3 j w (by omega) (by simpa using hj)
          · simp [hba] at h
            obtain ⟨rfl, rfl⟩ := h
            refine ⟨by simp, ?_, ?_⟩
            · intro j w hj
              cases j with
              | zero => simp at hj; subst hj; exact Rat.le_refl
              | succ j => have := h2 j w (by simpa using hj); grind
            · intro j w hlt; omega

/-! ### unionS / categorize -/

theorem mem_unionS (a b : List String) (x : String) : x ∈ unionS a b ↔ x ∈ a ∨ x ∈ b := by
  unfold unionS
  induction b generalizing a with
  | nil => simp
  | cons y ys ih =>
    simp only [List.foldl_cons]
    rw [ih]
    unfold addNew
    by_cases hy : a.contains y = true
    · simp only [hy, if_true]
      have : y ∈ a := by simpa using hy
      constructor
      · rintro (h | h)
        · exact Or.inl h
        · exact Or.inr (List.mem_cons_of_mem _ h)
      · rintro (h | h)
        · exact Or.inl h
        · rcases List.mem_cons.mp h with rfl | h
          · exact Or.inl this
          · exact Or.inr h
    · simp only [hy]
      simp only [Bool.false_eq_true, if_false, List.mem_append, List.mem_cons]
      grind

theorem nodup_unionS (a b : List String) (h : a.Nodup) : (unionS a b).Nodup := by
  unfold unionS
  induction b generalizing a with
  | nil => simpa
  | cons y ys ih =>
    simp only [List.foldl_cons]
    apply ih
    unfold addNew
    by_cases hy : a.contains y = true
    · simp only [hy, if_true]; exact h
    · simp only [hy, Bool.false_eq_true, if_false]
      have hn : y ∉ a := by simpa using hy
      rw [List.nodup_append]
      refine ⟨h, by simp, ?_⟩
      intro p hp q hq hpq
      simp at hq
      subst hq; subst hpq
      exact hn hp

/-- Invariant of the two loops of `_categorize_parameters`, from any start state. -/
theorem categorize_fold (vs : List Vis) :
    ∀ (st : List String × List String) (x : String),
      (x ∈ (vs.foldl catStep st).2 ↔ x ∈ st.2 ∨ ∃ v ∈ vs, v.hasEta = true ∧ x ∈ v.pars) ∧
      (x ∈ (vs.foldl catStep st).1 ↔
        (x ∈ st.1 ∨ ∃ v ∈ vs, v.hasEta = false ∧ x ∈ v.pars ∧ x ∉ st.2) ∧
          ¬ (∃ v ∈ vs, v.hasEta = true ∧ x ∈ v.pars)) := by
  induction vs with
  | nil => intro st x; simp
  | cons v vs ih =>
    intro st x
    simp only [List.foldl_cons]
    obtain ⟨ih2, ih1⟩ := ih (catStep st v) x
    rw [ih2, ih1]
    unfold catStep
    cases hv : v.hasEta with
    | true =>
      simp only [if_true, mem_unionS, List.mem_filter, Bool.not_eq_true', List.contains_eq_mem,
        decide_eq_false_iff_not, List.mem_cons, exists_eq_or_imp, hv]
      grind
    | false =>
      simp only [Bool.false_eq_true, if_false, mem_unionS, List.mem_filter, Bool.not_eq_true', List.contains_eq_mem,
        decide_eq_false_iff_not, List.mem_cons, exists_eq_or_imp, hv]
      grind

theorem categorize_nodup_fold (vs : List Vis) :
    ∀ (st : List String × List String), st.1.Nodup → st.2.Nodup →
      (vs.foldl catStep st).1.Nodup ∧ (vs.foldl catStep st).2.Nodup := by
  induction vs with
  | nil => intro st h1 h2; exact ⟨h1, h2⟩
  | cons v vs ih =>
    intro st h1 h2
    simp only [List.foldl_cons]
    apply ih
    · unfold catStep
      split
      · exact List.Pairwise.filter _ h1
      · exact nodup_unionS _ _ h1
    · unfold catStep
      split
      · exact nodup_unionS _ _ h2
      · exact h2

/-! ### labelled statistics -/

theorem sum_perm {l₁ l₂ : List Rat} (h : l₁.Perm l₂) : Stats.sum l₁ = Stats.sum l₂ := by
  induction h with
  | nil => rfl
  | cons x _ ih => simp only [Stats.sum, List.foldr_cons] at *; rw [ih]
  | swap x y l => simp only [Stats.sum, List.foldr_cons]; grind
  | trans _ _ ih1 ih2 => rw [ih1, ih2]

theorem filter_beq_of_nodup (syms : List String) (x : String) (h : syms.Nodup) :
    syms.filter (fun y => y == x) = if x ∈ syms then [x] else [] := by
  induction syms with
  | nil => simp
  | cons s ss ih =>
    rw [List.nodup_cons] at h
    simp only [List.filter_cons]
    by_cases hs : s = x
    · subst hs
      have : ss.filter (fun y => y == s) = [] := by
        rw [ih h.2]; simp [h.1]
      simp [this]
    · have hb : (s == x) = false := by simpa using hs
      have hx : x ≠ s := fun e => hs e.symm
      simp only [hb, Bool.false_eq_true, if_false, ih h.2, List.mem_cons, hx, false_or]

theorem deltaNames_eq_filter (syms cols : List String) (h : syms.Nodup) :
    Stats.deltaNames syms cols = cols.filter (fun x => syms.contains x) := by
  unfold Stats.deltaNames
  induction cols with
  | nil => rfl
  | cons c cs ih =>
    simp only [List.flatMap_cons, List.filter_cons, ih, filter_beq_of_nodup syms c h]
    by_cases hc : c ∈ syms
    · simp [hc]
    · simp [hc]

theorem deltaNames_perm (syms cols : List String) (hs : syms.Nodup) (hc : cols.Nodup)
    (hsub : ∀ s ∈ syms, s ∈ cols) : (Stats.deltaNames syms cols).Perm syms := by
  rw [deltaNames_eq_filter syms cols hs, List.perm_ext_iff_of_nodup (List.Pairwise.filter _ hc) hs]
  intro a
  simp only [List.mem_filter, List.contains_eq_mem, decide_eq_true_eq]
  exact ⟨fun h => h.2, fun h => ⟨hsub a h, h⟩⟩

theorem quadForm_perm {l l' : List String} (h : l.Perm l') (g : String → Rat) (C : String → String → Rat) :
    Stats.quadForm l g C = Stats.quadForm l' g C := by
  unfold Stats.quadForm
  have inner : ∀ a, Stats.sum (l.map (fun b => g a * C a b * g b)) = Stats.sum (l'.map (fun b => g a * C a b * g b)) :=
    fun a => sum_perm (h.map _)
  rw [List.map_congr_left (fun a _ => inner a)]
  exact sum_perm (h.map _)

theorem lookupS_perm {α : Type} {l l' : List (String × α)} (h : l.Perm l') (hn : (l.map (·.1)).Nodup) (a : String) :
    Stats.lookupS l a = Stats.lookupS l' a := by
  induction h with
  | nil => rfl
  | cons x _ ih =>
    simp only [List.map_cons, List.nodup_cons] at hn
    obtain ⟨k, v⟩ := x
    simp only [Stats.lookupS]
    rw [ih hn.2]
  | swap x y l =>
    obtain ⟨k, v⟩ := x
    obtain ⟨k', v'⟩ := y
    simp only [List.map_cons, List.nodup_cons, List.mem_cons, not_or] at hn
    simp only [Stats.lookupS]
    by_cases h1 : k' = a <;> by_cases h2 : k = a <;> simp [h1, h2]
    exact absurd (h1.trans h2.symm) hn.1.1
  | trans h1 _ ih1 ih2 =>
    rw [ih1 hn]
    apply ih2
    exact (h1.map _).nodup hn

/-! ### idxmin -/

theorem idxminAux_one (rs : List Row) (j : Nat) (h : ∀ r ∈ rs, ∀ k, r.rank = some k → 1 ≤ k) :
    idxminAux rs (some (j, 1)) = some (j, 1) := by
  induction rs with
  | nil => rfl
  | cons r rs ih =>
    unfold idxminAux
    cases hr : r.rank with
    | none => simp only []; exact ih (fun r' hr' => h r' (List.mem_cons_of_mem _ hr'))
    | some k =>
      have := h r (List.mem_cons_self ..) k hr
      have hnot : ¬ k < 1 := by omega
      simp only [hnot, if_false]
      exact ih (fun r' hr' => h r' (List.mem_cons_of_mem _ hr'))

theorem idxminAux_none (rs : List Row) (h : ∀ r ∈ rs, r.rank = none) : idxminAux rs none = none := by
  induction rs with
  | nil => rfl
  | cons r rs ih =>
    unfold idxminAux
    rw [h r (List.mem_cons_self ..)]
    exact ih (fun r' hr' => h r' (List.mem_cons_of_mem _ hr'))

end Pharmpy.C19
