import PharmpyProofs.C11.Lemmas
/-
  C11 — property theorems about the executable model `PharmpyModel/C11/Model.lean`.
  All statements are universally quantified over the entry type `α` (any type with a zero and
  decidable equality), over every collection (any number and size of blocks) and every index
  list.  `WF r` (decidable for concrete collections) = unique names + every distribution
  well-shaped (`Square`: a joint distribution of n variables has an n×n matrix, a normal
  distribution has one name); it is the class invariant `RandomVariables.create` and the
  distribution constructors maintain.
-/
set_option linter.unusedSectionVars false
namespace Pharmpy.C11
variable {α : Type} [Zero α] [DecidableEq α]

/-- Well-formed collection. -/
structure WF (r : RVs α) : Prop where
  nodup : (names r).Nodup
  square : ∀ d ∈ r, Square d

/-! ## Names -/

/-- `unjoin` preserves the multiset of names. -/
theorem unjoin_names (r : RVs α) (inds : List String) : (names (unjoin r inds)).Perm (names r) :=
  unjoin_names_perm' r inds

/-- … and the exact order: inside a touched block the unjoined names come first (in block order),
    then the rest of the block; untouched distributions keep their place. -/
theorem unjoin_names_exact (r : RVs α) (inds : List String) :
    names (unjoin r inds) = r.flatMap fun d =>
      if touched inds d then d.names.filter (inds.contains ·) ++ d.names.filter (fun n => !inds.contains n)
      else d.names := by
  induction r with
  | nil => rfl
  | cons d r ih => rw [unjoin_cons, names_append, unjoinDist_names, ih, List.flatMap_cons]

/-- Order is unchanged when, in every touched block, the unjoined variables already precede the
    others (decidable side-condition). -/
theorem unjoin_order_partial (r : RVs α) (inds : List String)
    (h : ∀ d ∈ r, touched inds d = true →
      d.names.filter (inds.contains ·) ++ d.names.filter (fun n => !inds.contains n) = d.names) :
    names (unjoin r inds) = names r := by
  induction r with
  | nil => rfl
  | cons d r ih =>
    rw [unjoin_cons, names_append, names_cons, unjoinDist_names,
      ih (fun e he => h e (List.mem_cons_of_mem _ he))]
    congr 1
    by_cases ht : touched inds d = true
    · rw [if_pos ht, h d List.mem_cons_self ht]
    · rw [if_neg ht]

/-- The full statement "the order changes only as far as needed" is false of the code: taking the
    last variable out of a block moves it in front of the block. -/
theorem unjoin_order_witness :
    let r : RVs Entry := [⟨["a", "b", "c"], "IIV", true, [.num 0, .num 0, .num 0],
      [[.sym "A", .sym "AB", .sym "AC"], [.sym "AB", .sym "B", .sym "BC"], [.sym "AC", .sym "BC", .sym "C"]]⟩]
    names (unjoin r ["c"]) = ["c", "a", "b"] ∧ names r = ["a", "b", "c"] := by
  decide

/-- `rvs[ind]` restricts the names to `ind`, keeping their order. -/
theorem getitem_names (r : RVs α) (h : WF r) (ind : List String) :
    names (getitem r ind) = (names r).filter (ind.contains ·) :=
  getitem_names' r (singles_of_square h.square) ind

/-- A successful `join` preserves the multiset of names. -/
theorem join_names (r : RVs α) (h : WF r) (inds : List String) (f : Fill α) (res : JoinResult α)
    (hj : join r inds f = .ok res) : (names res.rvs).Perm (names r) :=
  join_names_perm' (singles_of_square h.square) hj

/-- Joining no variables returns the collection unchanged (and no new parameters), in every mode. -/
theorem join_empty (r : RVs α) (f : Fill α) : join r [] f = .ok ⟨r, []⟩ :=
  join_nil r f

/-- A successful `join` of at least one variable puts exactly the joined names (in their original
    order) into one block of the result. -/
theorem join_block (r : RVs α) (h : WF r) (inds : List String) (f : Fill α) (res : JoinResult α)
    (hj : join r inds f = .ok res) (hne : inds ≠ []) :
    ∃ jd ∈ res.rvs, jd.joint = true ∧ jd.names = (names r).filter (inds.contains ·) := by
  obtain ⟨hall, j0, rest, hg, hres⟩ := join_ok hj hne
  obtain ⟨a, hai⟩ : ∃ a, a ∈ inds := by
    cases inds with
    | nil => exact absurd rfl hne
    | cons a t => exact ⟨a, List.mem_cons_self⟩
  have ha : a ∈ names r := hall a hai
  have hmem := jd_mem_of_ind (r := r) inds
    ⟨names (getitem r inds), j0.level, true, (getitem r inds).flatMap (·.mean),
      (joinMatrix (getitem r inds) f).1⟩ ha hai
  rw [← hres] at hmem
  exact ⟨_, hmem, rfl, getitem_names' r (singles_of_square h.square) inds⟩

/-- Every block is a contiguous run of the name list. -/
theorem blocks_contiguous (r : RVs α) : ∀ d ∈ r, d.names <:+: names r := by
  intro d hd
  induction r with
  | nil => cases hd
  | cons d0 r ih =>
    rw [names_cons]
    cases hd with
    | head => exact ⟨[], names r, by simp⟩
    | tail _ h =>
      obtain ⟨s, t, hst⟩ := ih h
      exact ⟨d0.names ++ s, t, by rw [← hst]; simp⟩

/-! ## Unique names -/

/-- `RandomVariables.create` accepts exactly the collections with unique names. -/
theorem create_ok_iff (dists : RVs α) : create dists = .ok dists ↔ (names dists).Nodup :=
  create_ok_iff' dists

/-- unjoin / index / join / subs keep names unique. -/
theorem names_unique_preserved (r : RVs α) (h : WF r) (inds : List String) :
    (names (unjoin r inds)).Nodup ∧ (names (getitem r inds)).Nodup ∧
    (∀ f res, join r inds f = .ok res → (names res.rvs).Nodup) ∧
    (∀ fe fn res, subs fe fn r = .ok res → (names res).Nodup) := by
  refine ⟨unjoin_nodup h.nodup inds, ?_, ?_, ?_⟩
  · rw [getitem_names r h]; exact List.Nodup.sublist List.filter_sublist h.nodup
  · intro f res hj
    exact (join_names r h inds f res hj).nodup_iff.mpr h.nodup
  · intro fe fn res hs
    obtain ⟨h1, h2⟩ := create_ok_eq _ _ hs
    rw [h1]; exact h2

/-- `+` concatenates the names … -/
theorem add_names (levels : List String) (r : RVs α) (d : Dist α) (res : RVs α)
    (h : addDist levels r d = .ok res) : names res = names r ++ d.names ∧ levels.contains d.level = true := by
  unfold addDist at h
  by_cases hl : levels.contains d.level = true
  · rw [if_pos hl] at h
    injection h with h
    rw [← h]; exact ⟨by simp, hl⟩
  · rw [if_neg hl] at h; cases h

/-- … and, unlike `create`, does not check uniqueness: the class invariant can be broken by `+`. -/
theorem add_duplicate_witness :
    let d : Dist Entry := normal "a" "IIV" (.num 0) (.sym "A")
    ∃ res, addDist ["IIV", "IOV", "RUV"] [d] d = .ok res ∧ ¬ (names res).Nodup := by
  refine ⟨_, rfl, ?_⟩
  decide

/-! ## Variances and covariances -/

/-- `unjoin` preserves every variance. -/
theorem unjoin_variances (r : RVs α) (h : WF r) (inds : List String) (a : String) (ha : a ∈ names r) :
    getCov (unjoin r inds) a a = getCov r a a :=
  unjoin_variances' h.nodup inds ha

/-- `unjoin` preserves every covariance between variables that stay (whatever rows/columns of
    their block are deleted before, between or after them). -/
theorem unjoin_covariances_kept (r : RVs α) (h : WF r) (inds : List String) (a b : String)
    (ha : a ∈ names r) (hb : b ∈ names r) (hai : a ∉ inds) (hbi : b ∉ inds) :
    getCov (unjoin r inds) a b = getCov r a b :=
  unjoin_cov_kept' h.nodup inds ha hb hai hbi

/-- An unjoined variable has covariance 0 with every other variable. -/
theorem unjoin_covariances_removed (r : RVs α) (h : WF r) (inds : List String) (a b : String)
    (ha : a ∈ names r) (hb : b ∈ names r) (hai : a ∈ inds) (hab : a ≠ b) :
    getCov (unjoin r inds) a b = .ok 0 ∧ getCov (unjoin r inds) b a = .ok 0 :=
  unjoin_cov_removed' h.nodup (singles_of_square h.square) inds ha hb hai hab

/-- `rvs[ind]` keeps every variance and covariance of the selected variables. -/
theorem getitem_covariances (r : RVs α) (h : WF r) (ind : List String) (a b : String)
    (ha : a ∈ names r) (hb : b ∈ names r) (hai : a ∈ ind) (hbi : b ∈ ind) :
    getCov (getitem r ind) a b = getCov r a b :=
  getitem_cov' h.nodup (singles_of_square h.square) ind ha hb hai hbi

/-- `join(inds, fill)`: for joined variables every variance is kept, and a covariance `v` (0 when
    the variables were in different blocks) becomes `if fill ≠ 0 ∧ v = 0 then fill else v` — the exact
    value of every entry of the joined block. -/
theorem join_keeps_existing_cov (r : RVs α) (h : WF r) (inds : List String) (fill : α)
    (res : JoinResult α) (hj : join r inds (.value fill) = .ok res) (a b : String)
    (ha : a ∈ names r) (hb : b ∈ names r) (hai : a ∈ inds) (hbi : b ∈ inds) :
    ∃ v, getCov r a b = .ok v ∧
      getCov res.rvs a b = .ok (if a ≠ b ∧ fill ≠ 0 ∧ v = 0 then fill else v) :=
  join_cov_inside_value' h.nodup h.square hj ha hb hai hbi

/-- `join(inds, fill)` preserves every variance — also a zero variance, whatever `fill` is. -/
theorem join_variances (r : RVs α) (h : WF r) (inds : List String) (fill : α)
    (res : JoinResult α) (hj : join r inds (.value fill) = .ok res) (a : String) (ha : a ∈ names r) :
    getCov res.rvs a a = getCov r a a := by
  by_cases hai : a ∈ inds
  · obtain ⟨v, h1, h2⟩ := join_cov_inside_value' h.nodup h.square hj ha ha hai hai
    rw [h1, h2]; simp
  · exact join_cov_outside' h.nodup (singles_of_square h.square) hj ha ha hai hai

/-- `join(inds, name_template=…)`: an existing non-zero (co)variance between joined variables is
    kept (blocks symmetric); zero entries below the diagonal get a new symbol in both triangles. -/
theorem join_keeps_existing_cov_template (r : RVs α) (h : WF r) (hsym : SymBlocks r) (inds : List String)
    (nm : Nat → Nat → Option α) (res : JoinResult α) (hj : join r inds (.template nm) = .ok res)
    (a b : String) (ha : a ∈ names r) (hb : b ∈ names r) (hai : a ∈ inds) (hbi : b ∈ inds)
    (v : α) (hv : getCov r a b = .ok v) (hv0 : v ≠ 0) : getCov res.rvs a b = .ok v :=
  join_cov_inside_template' h.nodup h.square hsym hj ha hb hai hbi hv hv0

/-- The matrix written by the `name_template` loop is symmetric and keeps every non-zero entry,
    for every size. -/
theorem name_template_symmetric (nm : Nat → Nat → Option α) (n : Nat) (M : Mat α) (hs : SymM M) :
    SymM (nameMat nm n M).1 ∧ ∀ r c, M r c ≠ 0 → (nameMat nm n M).1 r c = M r c :=
  nameMat_inv nm n M hs

/-- `join` (any mode) does not change (co)variances of variables that are not joined. -/
theorem join_covariances_outside (r : RVs α) (h : WF r) (inds : List String) (f : Fill α)
    (res : JoinResult α) (hj : join r inds f = .ok res) (a b : String)
    (ha : a ∈ names r) (hb : b ∈ names r) (hai : a ∉ inds) (hbi : b ∉ inds) :
    getCov res.rvs a b = getCov r a b :=
  join_cov_outside' h.nodup (singles_of_square h.square) hj ha hb hai hbi

/-- After `join` (any mode) a joined and a not-joined variable have covariance 0. -/
theorem join_covariances_cross (r : RVs α) (h : WF r) (inds : List String) (f : Fill α)
    (res : JoinResult α) (hj : join r inds f = .ok res) (a b : String)
    (ha : a ∈ names r) (hb : b ∈ names r) (hai : a ∈ inds) (hbi : b ∉ inds) :
    getCov res.rvs a b = .ok 0 ∧ getCov res.rvs b a = .ok 0 :=
  join_cov_cross' h.nodup (singles_of_square h.square) hj ha hb hai hbi

/-- The former witness of the defect, now about the repaired behaviour: a zero variance survives
    `join(fill)` while the new covariance is `fill`. -/
theorem join_fill_keeps_zero_variance_example :
    ((join [normal "a" "IIV" (.num 0) (.sym "A"), normal "b" "IIV" (.num 0) (.num 0)] ["a", "b"]
        (.value (Entry.sym "F"))).toOption.bind (fun res => (getCov res.rvs "b" "b").toOption))
      = some (Entry.num 0) ∧
    ((join [normal "a" "IIV" (.num 0) (.sym "A"), normal "b" "IIV" (.num 0) (.num 0)] ["a", "b"]
        (.value (Entry.sym "F"))).toOption.bind (fun res => (getCov res.rvs "a" "b").toOption))
      = some (Entry.sym "F") := by
  decide

/-- The position of the joined block is that of the first unjoined variable in `unjoin`'s output —
    so `join` inherits `unjoin`'s reordering: the full statement "moved to the position of the first
    of them" is false of the code. -/
theorem join_order_witness :
    (join ([⟨["a", "b", "c"], "IIV", true, [.num 0, .num 0, .num 0],
        [[.sym "A", .sym "AB", .sym "AC"], [.sym "AB", .sym "B", .sym "BC"], [.sym "AC", .sym "BC", .sym "C"]]⟩,
        normal "d" "IIV" (.num 0) (.sym "D")] : RVs Entry) ["c", "d"] (.value (.num 0))).toOption.map
      (fun res => names res.rvs) = some ["c", "d", "a", "b"] := by
  decide

/-- `subs` renames the variables by `_subs_name` (and refuses a renaming that merges names). -/
theorem subs_names (fe : α → α) (fn : String → String) (r res : RVs α) (h : subs fe fn r = .ok res) :
    names res = (names r).map fn ∧ (names res).Nodup := by
  obtain ⟨h1, h2⟩ := subs_ok h
  exact ⟨by rw [h1, names_map_subs], h2⟩

/-- `subs`: the (co)variance of two variables of one block is the substituted old one. -/
theorem subs_covariances (fe : α → α) (fn : String → String) (r res : RVs α) (h : subs fe fn r = .ok res)
    (hinj : ∀ x ∈ names r, ∀ y ∈ names r, fn x = fn y → x = y) (d : Dist α) (hd : d ∈ r)
    (hsq : Square d) (hrows : d.var.length = d.names.length) (hrect : ∀ row ∈ d.var, row.length = d.names.length)
    (a b : String) (ha : a ∈ d.names) (hb : b ∈ d.names) :
    ∃ v, d.getCov a b = .ok v ∧ getCov res (fn a) (fn b) = .ok (fe v) :=
  subs_cov_same' h hinj hd hsq hrows hrect ha hb

/-- `JointNormalDistribution.__getitem__(collection)`: the distribution itself, or the selected
    names in block order with … -/
theorem dist_getitem_names (d : Dist α) (index : List String) (res : Dist α)
    (h : distGetitem d index = .ok res) :
    res = d ∨ res.names = d.names.filter (index.eraseDups.contains ·) := by
  rcases distGetitem_ok h with h | h
  · exact Or.inl h
  · right; rw [h, pickDist_names]

/-- … every variance and covariance of the selected variables unchanged. -/
theorem dist_getitem_covariances (d : Dist α) (hj : d.joint = true) (hn : d.names.Nodup)
    (index : List String) (res : Dist α) (h : distGetitem d index = .ok res) (a b : String)
    (ha : a ∈ d.names) (hb : b ∈ d.names) (hai : a ∈ index) (hbi : b ∈ index) :
    res.getCov a b = d.getCov a b := by
  rcases distGetitem_ok h with h | h
  · rw [h]
  · rw [h]
    exact pickDist_cov d hj hn _ ha hb (by simpa [List.mem_eraseDups] using hai)
      (by simpa [List.mem_eraseDups] using hbi)

/-! ## Selection is restriction to a name SET: the order in which the caller lists names is irrelevant -/

/-- `rvs[ind]`, `rvs.unjoin(inds)` and `rvs.join(inds, …)` depend on the listed names only as a set:
    any order, any repetition. -/
theorem selection_order_invariant (r : RVs α) (inds inds' : List String) (hm : ∀ x, x ∈ inds ↔ x ∈ inds')
    (f : Fill α) :
    getitem r inds = getitem r inds' ∧ unjoin r inds = unjoin r inds' ∧ join r inds f = join r inds' f :=
  ⟨getitem_congr (contains_congr hm) r, unjoin_congr (contains_congr hm) r, join_congr hm r f⟩

/-- `JointNormalDistribution.__getitem__(collection)` gives the same distribution (or the same
    refusal) for every order in which the names are listed … -/
theorem dist_getitem_order_invariant (d : Dist α) (index index' : List String) (hp : index'.Perm index) :
    distGetitem d index' = distGetitem d index :=
  distGetitem_congr d hp

/-- … namely the restriction of the labelled covariance to the listed set: names in block order and,
    for any two listed names, the (co)variance they have in the block — whatever the listing order. -/
theorem dist_getitem_is_restriction (d : Dist α) (hj : d.joint = true) (hn : d.names.Nodup)
    (index index' : List String) (hp : index'.Perm index) (res : Dist α) (h : distGetitem d index' = .ok res)
    (a b : String) (ha : a ∈ d.names) (hb : b ∈ d.names) (hai : a ∈ index) (hbi : b ∈ index) :
    (res = d ∨ res.names = d.names.filter (index.eraseDups.contains ·)) ∧ res.getCov a b = d.getCov a b := by
  rw [distGetitem_congr d hp] at h
  exact ⟨dist_getitem_names d index res h, dist_getitem_covariances d hj hn index res h a b ha hb hai hbi⟩

/-! ## The overall covariance matrix -/

/-- `_calc_covariance_matrix` is the block-diagonal composition of the distributions, for any
    number and size of blocks: the result is `n × n` (`n` = number of variables) and entry `(r, c)`
    is the entry of the block containing both positions, else 0. -/
theorem cov_matrix_block_diagonal (r : RVs α) (hq : ∀ d ∈ r, Square d) :
    (covarianceMatrix r).length = (names r).length ∧
    (∀ row ∈ covarianceMatrix r, row.length = (names r).length) ∧
    ∀ i j, i < (names r).length → j < (names r).length →
      ent (covarianceMatrix r) i j = blockDiagF (r.map blockOf) i j 0 := by
  have hs := tabulate_shape (nrvs r) (calcMat r)
  simp only [covarianceMatrix, calcCov]
  rw [nrvs_eq_length] at hs ⊢
  refine ⟨hs.1, hs.2, ?_⟩
  intro i j hi hj
  rw [ent_tabulate _ _ _ _ hi hj, calcMat_apply r hq]

/-- … and, read at the positions of two names, it is `get_covariance`. -/
theorem cov_matrix_get_covariance (r : RVs α) (hq : ∀ d ∈ r, Square d) (a b : String)
    (ha : a ∈ names r) (hb : b ∈ names r) :
    getCov r a b = .ok (ent (covarianceMatrix r) ((names r).idxOf a) ((names r).idxOf b)) := by
  rw [(cov_matrix_block_diagonal r hq).2.2 _ _ (List.idxOf_lt_length_of_mem ha) (List.idxOf_lt_length_of_mem hb)]
  exact blockDiag_getCov r hq ha hb

/-! ## nearest_positive_semidefinite / validate / nearest_valid_parameters (abstract numerics) -/

/-- A PSD input is returned unchanged (the same object). -/
theorem nearest_identity_on_valid {β : Type} (ops : NearOps β) (fuel : Nat) (A : β)
    (h : ops.isPsd A = true) : nearest ops fuel A = some (A, .same) := by
  simp [nearest, h]

/-- Partial correctness: whatever is returned satisfies `is_positive_semidefinite`. -/
theorem nearest_result_valid {β : Type} (ops : NearOps β) (fuel : Nat) (A R : β) (p : NearPath)
    (h : nearest ops fuel A = some (R, p)) : ops.isPsd R = true := by
  unfold nearest at h
  by_cases h1 : ops.isPsd A = true
  · simp [h1] at h; rw [← h.1]; exact h1
  · simp only [h1] at h
    by_cases h2 : ops.isPsd (ops.higham A) = true
    · simp [h2] at h; rw [← h.1]; exact h2
    · simp [h2] at h
      exact nearLoop_valid ops A fuel _ _ R p h

/-- The input is replaced only when it is not PSD. -/
theorem nearest_changed_only_if_invalid {β : Type} (ops : NearOps β) (fuel : Nat) (A R : β) (p : NearPath)
    (h : nearest ops fuel A = some (R, p)) (hp : p ≠ .same) : ops.isPsd A = false := by
  cases h1 : ops.isPsd A with
  | false => rfl
  | true =>
    rw [nearest_identity_on_valid ops fuel A h1] at h
    injection h with h
    exact absurd (congrArg Prod.snd h).symm hp

/-- `validate_parameters` is true iff every joint block is PSD. -/
theorem validate_iff {β : Type} (subst : List (List α) → β) (isPsd : β → Bool) (r : RVs α) :
    validate subst isPsd r = true ↔ ∀ d ∈ r, d.joint = true → isPsd (subst d.var) = true :=
  validate_all subst isPsd r

/-- The `near` argument of `nearestAssignments` built from `nearest`: `none` when the very same
    matrix comes back. -/
def nearOf {β V : Type} (ops : NearOps β) (fuel : Nat) (view : β → Nat → Nat → V) (A : β) :
    Option (Nat → Nat → V) :=
  match nearest ops fuel A with
  | some (_, .same) => none
  | some (B, _) => some (view B)
  | none => none

/-- Valid values are never altered: if `validate_parameters` holds, `nearest_valid_parameters`
    performs no assignment at all (it returns a copy of its argument). -/
theorem nearest_valid_untouched {β V : Type} (ops : NearOps β) (fuel : Nat) (view : β → Nat → Nat → V)
    (subst : List (List α) → β) (r : RVs α) (h : validate subst ops.isPsd r = true) :
    nearestAssignments subst (nearOf ops fuel view) r = [] := by
  rw [validate_iff] at h
  unfold nearestAssignments
  rw [List.flatMap_eq_nil_iff]
  intro d hd
  unfold nearestStep
  cases hj : d.joint with
  | false => simp
  | true =>
    simp only [if_true]
    have : nearOf ops fuel view (subst d.var) = none := by
      unfold nearOf
      rw [nearest_identity_on_valid ops fuel _ (h d hd hj)]
    rw [this]

/-- Only distributions whose matrix is not PSD contribute assignments (frame). -/
theorem nearest_valid_frame {β V : Type} (ops : NearOps β) (fuel : Nat) (view : β → Nat → Nat → V)
    (subst : List (List α) → β) (d : Dist α)
    (h : d.joint = false ∨ ops.isPsd (subst d.var) = true) :
    nearestStep subst (nearOf ops fuel view) d = [] := by
  unfold nearestStep
  cases hj : d.joint with
  | false => simp
  | true =>
    simp only [if_true]
    rcases h with h | h
    · rw [hj] at h; cases h
    · have : nearOf ops fuel view (subst d.var) = none := by
        unfold nearOf
        rw [nearest_identity_on_valid ops fuel _ h]
      rw [this]

/-! ### Invalid values are replaced by the nearest valid matrix: the write-back loop

  `for row in range(len(A)): for col in range(row + 1): nearest[symb_sigma[row, col].name] = B[row, col]`
  — every lower-triangle parameter of an invalid block ends up holding the entry of the repaired
  matrix `B` **at its own position**, for every block size. -/

/-- `(row, col)` is visited by the write-back loop iff `col ≤ row < n`. -/
theorem mem_lowerTri (n row col : Nat) : (row, col) ∈ lowerTri n ↔ col ≤ row ∧ row < n := by
  unfold lowerTri
  simp only [List.mem_flatMap, List.mem_map, List.mem_range, Prod.mk.injEq]
  constructor
  · rintro ⟨r, hr, c, hc, rfl, rfl⟩; omega
  · rintro ⟨h1, h2⟩; exact ⟨row, h2, col, by omega, rfl, rfl⟩

/-- If every assignment under the key `a` writes `x` and there is at least one, `x` is what is left. -/
theorem lastAssigned_of_consistent {V : Type} (asg : List (α × V)) (a : α) (x : V)
    (hc : ∀ p ∈ asg, p.1 = a → p.2 = x) (hex : ∃ p ∈ asg, p.1 = a) :
    lastAssigned asg a = some x := by
  unfold lastAssigned
  suffices h : ∀ acc : Option V, (acc = some x ∨ ∃ p ∈ asg, p.1 = a) →
      asg.foldl (fun acc p => if p.1 = a then some p.2 else acc) acc = some x from h none (Or.inr hex)
  clear hex
  induction asg with
  | nil =>
    intro acc h
    rcases h with h | ⟨p, hp, _⟩
    · simpa using h
    · cases hp
  | cons p t ih =>
    intro acc h
    rw [List.foldl_cons]
    apply ih (fun q hq => hc q (List.mem_cons_of_mem _ hq))
    by_cases hpa : p.1 = a
    · left; rw [if_pos hpa, hc p List.mem_cons_self hpa]
    · rw [if_neg hpa]
      rcases h with h | ⟨q, hq, hqa⟩
      · exact Or.inl h
      · rcases List.mem_cons.mp hq with rfl | hq
        · exact absurd hqa hpa
        · exact Or.inr ⟨q, hq, hqa⟩

/-- A key that no assignment writes keeps no new value (frame of the write-back). -/
theorem lastAssigned_none {V : Type} (asg : List (α × V)) (a : α) (h : ∀ p ∈ asg, p.1 ≠ a) :
    lastAssigned asg a = none := by
  unfold lastAssigned
  induction asg with
  | nil => rfl
  | cons p t ih =>
    rw [List.foldl_cons, if_neg (h p List.mem_cons_self)]
    exact ih (fun q hq => h q (List.mem_cons_of_mem _ hq))

/-- The assignments of one invalid block are exactly `(parameter at (row, col), B[row, col])` for the
    lower-triangle positions. -/
theorem mem_nearestStep {β V : Type} (subst : List (List α) → β) (near : β → Option (Nat → Nat → V))
    (d : Dist α) (hj : d.joint = true) (B : Nat → Nat → V) (hB : near (subst d.var) = some B) (p : α × V) :
    p ∈ nearestStep subst near d ↔
      ∃ row col, col ≤ row ∧ row < matRows d.var ∧ p = (ent d.var row col, B row col) := by
  unfold nearestStep
  rw [if_pos hj, hB]
  simp only [List.mem_map]
  constructor
  · rintro ⟨⟨row, col⟩, hm, rfl⟩
    exact ⟨row, col, ((mem_lowerTri _ _ _).mp hm).1, ((mem_lowerTri _ _ _).mp hm).2, rfl⟩
  · rintro ⟨row, col, h1, h2, rfl⟩
    exact ⟨(row, col), (mem_lowerTri _ _ _).mpr ⟨h1, h2⟩, rfl⟩

/-- **Invalid values are replaced by the nearest valid matrix** (collection level, any number and size
    of blocks): if the block of `d` is repaired to `B` and every assignment of the whole call that
    writes a parameter of `d`'s lower triangle writes the entry of `B` at that position (`hcons`:
    holds when the parameters of the block are distinct and belong to no other repaired block, see
    `nearest_valid_writes_nearest_of_distinct`), then after `nearest_valid_parameters` the parameter at
    `(row, col)` holds `B[row, col]`. -/
theorem nearest_valid_writes_nearest {β V : Type} (subst : List (List α) → β)
    (near : β → Option (Nat → Nat → V)) (r : RVs α) (d : Dist α) (hd : d ∈ r) (hj : d.joint = true)
    (B : Nat → Nat → V) (hB : near (subst d.var) = some B)
    (hcons : ∀ p ∈ nearestAssignments subst near r, ∀ row col, col ≤ row → row < matRows d.var →
      p.1 = ent d.var row col → p.2 = B row col)
    (row col : Nat) (hc : col ≤ row) (hr : row < matRows d.var) :
    lastAssigned (nearestAssignments subst near r) (ent d.var row col) = some (B row col) := by
  apply lastAssigned_of_consistent
  · intro p hp hpe; exact hcons p hp row col hc hr hpe
  · refine ⟨(ent d.var row col, B row col), ?_, rfl⟩
    unfold nearestAssignments
    rw [List.mem_flatMap]
    exact ⟨d, hd, (mem_nearestStep subst near d hj B hB _).mpr ⟨row, col, hc, hr, rfl⟩⟩

/-- The lower-triangle parameters of the block are pairwise distinct. -/
def TriDistinct (d : Dist α) : Prop :=
  ∀ r c r' c', c ≤ r → r < matRows d.var → c' ≤ r' → r' < matRows d.var →
    ent d.var r c = ent d.var r' c' → r = r' ∧ c = c'

/-- … in particular for a block with distinct lower-triangle parameters that no other distribution's
    repair writes (`d` itself may occur several times, as IOV blocks do). -/
theorem nearest_valid_writes_nearest_of_distinct {β V : Type} (subst : List (List α) → β)
    (near : β → Option (Nat → Nat → V)) (r : RVs α) (d : Dist α) (hd : d ∈ r) (hj : d.joint = true)
    (B : Nat → Nat → V) (hB : near (subst d.var) = some B) (hinj : TriDistinct d)
    (hother : ∀ d' ∈ r, d' ≠ d → ∀ p ∈ nearestStep subst near d', ∀ row col, col ≤ row →
      row < matRows d.var → p.1 ≠ ent d.var row col)
    (row col : Nat) (hc : col ≤ row) (hr : row < matRows d.var) :
    lastAssigned (nearestAssignments subst near r) (ent d.var row col) = some (B row col) := by
  apply nearest_valid_writes_nearest subst near r d hd hj B hB _ row col hc hr
  intro p hp row' col' hc' hr' hpe
  unfold nearestAssignments at hp
  rw [List.mem_flatMap] at hp
  obtain ⟨d', hd', hp⟩ := hp
  by_cases hdd : d' = d
  · subst hdd
    obtain ⟨r2, c2, h1, h2, rfl⟩ := (mem_nearestStep subst near d' hj B hB p).mp hp
    obtain ⟨e1, e2⟩ := hinj r2 c2 row' col' h1 h2 hc' hr' hpe
    subst e1; subst e2; rfl
  · exact absurd hpe (hother d' hd' hdd p hp row' col' hc' hr')

/-- Read back as a full matrix: for a symmetric symbolic block and a symmetric repaired matrix, **every**
    position `(i, j)` of the block — upper triangle included — holds `B[i, j]` after the call: the block
    of the result is the nearest matrix itself (no variance is exchanged with a covariance). -/
theorem nearest_valid_block_is_nearest {β V : Type} (subst : List (List α) → β)
    (near : β → Option (Nat → Nat → V)) (r : RVs α) (d : Dist α) (hd : d ∈ r) (hj : d.joint = true)
    (B : Nat → Nat → V) (hB : near (subst d.var) = some B) (hinj : TriDistinct d)
    (hother : ∀ d' ∈ r, d' ≠ d → ∀ p ∈ nearestStep subst near d', ∀ row col, col ≤ row →
      row < matRows d.var → p.1 ≠ ent d.var row col)
    (hsym : ∀ i j, ent d.var i j = ent d.var j i) (hBsym : ∀ i j, B i j = B j i)
    (i j : Nat) (hi : i < matRows d.var) (hjn : j < matRows d.var) :
    lastAssigned (nearestAssignments subst near r) (ent d.var i j) = some (B i j) := by
  rcases Nat.le_total j i with h | h
  · exact nearest_valid_writes_nearest_of_distinct subst near r d hd hj B hB hinj hother i j h hi
  · rw [hsym i j, hBsym i j]
    exact nearest_valid_writes_nearest_of_distinct subst near r d hd hj B hB hinj hother j i h hjn

/-- A parameter that no repaired block contains is not written at all. -/
theorem nearest_valid_writes_frame {β V : Type} (subst : List (List α) → β)
    (near : β → Option (Nat → Nat → V)) (r : RVs α) (a : α)
    (h : ∀ d ∈ r, ∀ p ∈ nearestStep subst near d, p.1 ≠ a) :
    lastAssigned (nearestAssignments subst near r) a = none := by
  apply lastAssigned_none
  intro p hp
  unfold nearestAssignments at hp
  rw [List.mem_flatMap] at hp
  obtain ⟨d, hd, hp⟩ := hp
  exact h d hd p hp

/-- The dictionary `nearest_valid_parameters` returns: the value of parameter `s` is the one written
    last under the symbol `s`, the given one if nothing was written. -/
theorem applyAssignments_foldl {V : Type} (asg : List (Entry × V)) :
    ∀ (values res : List (String × V)), applyAssignments values asg = .ok res → ∀ s : String,
    res.lookup s = asg.foldl (fun acc p => if p.1 = Entry.sym s then some p.2 else acc) (values.lookup s) := by
  induction asg with
  | nil =>
    intro values res h s
    simp [applyAssignments] at h
    subst h; rfl
  | cons p rest ih =>
    intro values res h s
    obtain ⟨e, v⟩ := p
    cases e with
    | num q => simp [applyAssignments, Entry.name?] at h
    | sym t =>
      simp only [applyAssignments, Entry.name?] at h
      rw [ih _ _ h s, List.foldl_cons, lookup_filter_append]
      by_cases hts : t = s
      · subst hts; simp
      · have : Entry.sym t ≠ Entry.sym s := fun e => hts (by injection e)
        simp [hts, this]

/-- **The returned dictionary** (`Entry` instance, parameter names as keys): the value of parameter `s`
    after `nearest_valid_parameters` is the one written last under the symbol `s` — by
    `nearest_valid_block_is_nearest` the entry of the nearest matrix at the position of `s` — and the
    given value if no repaired block contains `s`. -/
theorem nearest_valid_result_lookup {V : Type} (asg : List (Entry × V)) (values res : List (String × V))
    (h : applyAssignments values asg = .ok res) (s : String) :
    res.lookup s = (lastAssigned asg (Entry.sym s)).or (values.lookup s) := by
  rw [applyAssignments_foldl asg values res h s, foldl_assign_init]

/-- The enumeration matters from dimension 3 on: pairing the lower-triangle parameters (row-major) with
    the UPPER triangle of `B` in row-major order (= the lower triangle in column-major order) agrees
    with the loop for 1×1 and 2×2 blocks and exchanges var(2) with cov(3,1) in a 3×3 block. -/
def upperTri (n : Nat) : List (Nat × Nat) :=
  (List.range n).flatMap fun r => ((List.range n).filter (r ≤ ·)).map fun c => (r, c)

theorem write_back_order_witness :
    ((lowerTri 2).zip (upperTri 2)).all (fun p => p.1 = p.2 ∨ p.1 = (p.2.2, p.2.1)) = true ∧
    ((lowerTri 3).zip (upperTri 3)).all (fun p => p.1 = p.2 ∨ p.1 = (p.2.2, p.2.1)) = false := by
  decide

/-! ## parameters_sdcorr: var/cov → sd/corr, also with parameters shared between distributions

  `agree A` (decidable, evaluated by the driver on every generated case) = no parameter is assigned
  two different values, i.e. a shared parameter has the same role wherever it occurs. -/

/-- Every converted value is computed from the **original** dictionary: the symbol at position
    `(i, j)` of any joint block ends up as `corr(i, j)` / `sd(i)` of the original values, whatever
    other distributions share its parameters and wherever the block stands in the collection. -/
theorem sdcorr_reads_original (sqrt : Rat → Rat) (vals : Dict) (rvs : RVs Entry) (F : Dict)
    (h : sdcorr sqrt vals rvs = .ok F) (hag : agree (rvs.flatMap (sdcorrAsg sqrt vals)) = true)
    (d : Dist Entry) (hd : d ∈ rvs) (hj : d.joint = true) (i j : Nat) (hi : i < matRows d.var)
    (hjc : j < matCols d.var) (s : String) (hs : symAt d i j = some s) :
    F s = some (fwdVal sqrt vals d i j) :=
  sdcorr_value_joint h hag hd hj (mem_positions.mpr ⟨hi, hjc⟩) hs

/-- The converted value of every parameter does not depend on the order of the distributions. -/
theorem sdcorr_order_independent (sqrt : Rat → Rat) (vals : Dict) (rvs rvs' : RVs Entry) (F F' : Dict)
    (hperm : rvs'.Perm rvs) (h : sdcorr sqrt vals rvs = .ok F) (h' : sdcorr sqrt vals rvs' = .ok F')
    (hag : agree (rvs.flatMap (sdcorrAsg sqrt vals)) = true) (s : String) : F' s = F s :=
  sdcorr_order_independent' hperm h h' hag s

/-- Parameters that no distribution uses keep their value. -/
theorem sdcorr_frame (sqrt : Rat → Rat) (vals : Dict) (rvs : RVs Entry) (F : Dict)
    (h : sdcorr sqrt vals rvs = .ok F) (s : String)
    (hno : ∀ p ∈ rvs.flatMap (sdcorrAsg sqrt vals), p.1 ≠ s) : F s = vals s := by
  rw [(sdcorr_ok h).1]
  exact applyF_not_assigned _ s hno vals

/-- `sdcorr⁻¹ ∘ sdcorr = id` on every parameter — also when variance/covariance parameters are
    shared between distributions (same symbol in several normal distributions, the same symbolic
    block repeated per occasion), for any `sqrt` with `sqrt a · sqrt a = a ≠ 0` on the variances. -/
theorem sdcorr_inverse (sqrt : Rat → Rat) (vals : Dict) (rvs : RVs Entry) (F : Dict)
    (h : sdcorr sqrt vals rvs = .ok F) (hag : agree (rvs.flatMap (sdcorrAsg sqrt vals)) = true)
    (hok : SdOk sqrt vals rvs) (s : String) : sdcorrInv F rvs s = vals s :=
  sdcorr_inverse' h hag hok s

/-- Reading from the dictionary being written (instead of the original values) converts a shared
    variance twice: two normal distributions with the same variance 16 give sd 2 instead of 4. -/
theorem sdcorr_accumulating_witness :
    let sqrt : Rat → Rat := fun q => if q = 16 then 4 else if q = 4 then 2 else q
    let vals : Dict := fun s => if s = "OM" then some 16 else none
    let rvs : RVs Entry := [normal "e1" "IOV" (.num 0) (.sym "OM"), normal "e2" "IOV" (.num 0) (.sym "OM")]
    (sdcorr sqrt vals rvs).toOption.bind (fun F => F "OM") = some 4 ∧ sdcorrAcc sqrt vals rvs "OM" = some 2 := by
  decide

/-! ## Model.create / Model.replace: every model has valid initial estimates -/

/-- Valid estimates are returned as they are (the same object). -/
theorem canonicalize_valid_untouched {P R : Type} (valid : P → R → Bool) (repair : P → R → P) (p : P) (r : R)
    (h : valid p r = true) : canonicalizeEstimates valid repair p r = p := by
  simp [canonicalizeEstimates, h]

/-- Invalid estimates are replaced by the repaired ones (`nearest_valid_parameters`). -/
theorem canonicalize_invalid_repaired {P R : Type} (valid : P → R → Bool) (repair : P → R → P) (p : P) (r : R)
    (h : valid p r = false) : canonicalizeEstimates valid repair p r = repair p r := by
  simp [canonicalizeEstimates, h]

/-- If the repair produces valid estimates (numerics, abstract), so does canonicalisation. -/
theorem canonicalize_result_valid {P R : Type} (valid : P → R → Bool) (repair : P → R → P)
    (hrep : ∀ p r, valid (repair p r) r = true) (p : P) (r : R) :
    valid (canonicalizeEstimates valid repair p r) r = true := by
  unfold canonicalizeEstimates
  by_cases h : valid p r = true
  · rw [if_pos h]; exact h
  · rw [if_neg h]; exact hrep p r

/-- `replace` with valid resulting estimates does not touch them, whichever arguments are passed. -/
theorem replace_valid_untouched {P R : Type} (valid : P → R → Bool) (repair : P → R → P) (m : MState P R)
    (newP : Option P) (newR : Option R) (h : valid (newP.getD m.params) (newR.getD m.rvs) = true) :
    (modelReplace valid repair m newP newR).params = newP.getD m.params ∧
    (modelReplace valid repair m newP newR).rvs = newR.getD m.rvs :=
  ⟨canonicalize_valid_untouched valid repair _ _ h, rfl⟩

/-- `replace` repairs invalid resulting estimates — also when only `random_variables` is passed. -/
theorem replace_invalid_repaired {P R : Type} (valid : P → R → Bool) (repair : P → R → P) (m : MState P R)
    (newP : Option P) (newR : Option R) (h : valid (newP.getD m.params) (newR.getD m.rvs) = false) :
    (modelReplace valid repair m newP newR).params = repair (newP.getD m.params) (newR.getD m.rvs) :=
  canonicalize_invalid_repaired valid repair _ _ h

/-- Every model has valid initial estimates: after `create` and any history of `replace` calls
    (parameters, random variables, both or neither passed), the estimates are valid for the
    random variables of the model. -/
theorem model_estimates_always_valid {P R : Type} (valid : P → R → Bool) (repair : P → R → P)
    (hrep : ∀ p r, valid (repair p r) r = true) (p : P) (r : R) (ops : List (Option P × Option R)) :
    let m := modelHistory valid repair (modelCreate valid repair p r) ops
    valid m.params m.rvs = true := by
  have inv : ∀ (ops : List (Option P × Option R)) (m : MState P R), valid m.params m.rvs = true →
      valid (modelHistory valid repair m ops).params (modelHistory valid repair m ops).rvs = true := by
    intro ops
    induction ops with
    | nil => intro m h; exact h
    | cons op ops ih =>
      intro m _
      simp only [modelHistory, List.foldl_cons]
      exact ih _ (canonicalize_result_valid valid repair hrep _ _)
  exact inv ops _ (canonicalize_result_valid valid repair hrep p r)

/-- The decision matters: if `replace` canonicalised only when `parameters` is passed, replacing
    the random variables alone would leave a model with invalid estimates. -/
theorem replace_only_if_params_witness :
    let valid : Bool → Bool → Bool := fun p r => p == r
    let repair : Bool → Bool → Bool := fun _ r => r
    (∀ p r, valid (repair p r) r = true) ∧
    (let m := modelReplaceOnlyIfParams valid repair (modelCreate valid repair true true) none (some false)
     valid m.params m.rvs = false) ∧
    (let m := modelReplace valid repair (modelCreate valid repair true true) none (some false)
     valid m.params m.rvs = true) := by
  decide

/-! ## internals.math -/

/-- `triangular_root(T_n) = n` for every n (exact integer square root). -/
theorem triangular_root_of_triangular (n : Nat) : triangularRoot (n * (n + 1) / 2) = n := by
  unfold triangularRoot
  rw [two_mul_tri, sqrt_mul_succ]

/-- `corr2cov(cov2corr(C), sd) = C` for every matrix with at most `|sd|` rows and columns and every
    non-zero vector `sd` (the abstract square roots of the diagonal). -/
theorem corr2cov_cov2corr (v : List Rat) (hv : ∀ x ∈ v, x ≠ 0) (C : List (List Rat))
    (hrows : C.length ≤ v.length) (hcols : ∀ row ∈ C, row.length ≤ v.length) :
    corr2cov (cov2corrWith v C) v = C :=
  corr2cov_cov2corr' v hv C hrows hcols

/-- Entry `(r, c)` of `flattened_to_symmetric(x)`. -/
theorem flattened_entry (x : List Rat) (r c : Nat) (hr : r < triangularRoot x.length) (hc : c < triangularRoot x.length) :
    ((flattenedToSymmetric x).getD r []).getD c 0 =
      if c ≤ r then x.getD (triPos r c) 0 else x.getD (triPos c r) 0 := by
  simp [flattenedToSymmetric, List.getD_eq_getElem?_getD, hr, hc]

/-- `flattened_to_symmetric` is symmetric and its lower triangle is `x` in row-major order. -/
theorem flattened_symmetric (x : List Rat) (r c : Nat) (hr : r < triangularRoot x.length) (hc : c < triangularRoot x.length) :
    ((flattenedToSymmetric x).getD r []).getD c 0 = ((flattenedToSymmetric x).getD c []).getD r 0 := by
  rw [flattened_entry x r c hr hc, flattened_entry x c r hc hr]
  by_cases h1 : c ≤ r <;> by_cases h2 : r ≤ c
  · have : r = c := by omega
    subst this; rfl
  · simp [h1, h2]
  · simp [h1, h2]
  · omega

/-! ## Non-vacuity: the hypotheses are satisfiable on non-trivial inputs -/

def exampleRvs : RVs Entry :=
  [⟨["a", "b", "c"], "IIV", true, [.num 0, .num 0, .num 0],
      [[.sym "A", .sym "AB", .num 0], [.sym "AB", .sym "B", .sym "BC"], [.num 0, .sym "BC", .sym "C"]]⟩,
   normal "d" "IIV" (.num 0) (.sym "D"),
   ⟨["e", "f"], "RUV", true, [.num 0, .num 0], [[.num 2, .num 1], [.num 1, .num 3]]⟩]

example : (names exampleRvs).Nodup := by decide
example : ∀ d ∈ exampleRvs, Square d := by decide
example : names (unjoin exampleRvs ["b"]) = ["b", "a", "c", "d", "e", "f"] := by decide
example : names (getitem exampleRvs ["f", "a", "c"]) = ["a", "c", "f"] := by decide
example : (join exampleRvs ["c", "d"] (.value (.sym "F"))).toOption.map (fun r => names r.rvs)
    = some ["c", "d", "a", "b", "e", "f"] := by decide
example : (getCov exampleRvs "a" "c").toOption = some (.num 0) ∧
    (getCov exampleRvs "b" "c").toOption = some (.sym "BC") := by decide
example : (join exampleRvs ["a", "c", "d"] (.value (.sym "F"))).toOption.map
    (fun r => ((getCov r.rvs "a" "c").toOption, (getCov r.rvs "c" "d").toOption, (getCov r.rvs "a" "b").toOption))
    = some (some (.sym "F"), some (.sym "F"), some (.num 0)) := by decide
example : validate (fun m => m) (fun _ => true) exampleRvs = true := by decide
example : SymBlocks exampleRvs := by
  intro d hd i j
  simp [exampleRvs] at hd
  rcases hd with rfl | rfl | rfl
  · match i, j with
    | 0, 0 | 0, 1 | 0, 2 | 1, 0 | 1, 1 | 1, 2 | 2, 0 | 2, 1 | 2, 2 => rfl
    | i + 3, j => simp [ent]; match j with | 0 | 1 | 2 => simp | j + 3 => simp
    | 0, j + 3 | 1, j + 3 | 2, j + 3 => simp [ent]
  · exact ent_single_sym _ i j
  · match i, j with
    | 0, 0 | 0, 1 | 1, 0 | 1, 1 => rfl
    | i + 2, j => simp [ent]; match j with | 0 | 1 => simp | j + 2 => simp
    | 0, j + 2 | 1, j + 2 => simp [ent]
example : (join exampleRvs ["a", "c"] (.template fun i j => some (.sym s!"N{i}{j}"))).toOption.map
    (fun r => ((getCov r.rvs "a" "c").toOption, (getCov r.rvs "c" "a").toOption, (getCov r.rvs "a" "a").toOption))
    = some (some (.sym "N01"), some (.sym "N01"), some (.sym "A")) := by decide

/-- A 3×3 block with six distinct parameters, repaired to the symmetric `B[i,j] = 10·max(i,j) + min(i,j)`:
    the block read back after the write-back is `B` itself (hypotheses of `nearest_valid_block_is_nearest`
    are satisfiable; the conclusion is checked by evaluation). -/
def exampleBlock3 : Dist Entry :=
  ⟨["a", "b", "c"], "IIV", true, [.num 0, .num 0, .num 0],
    [[.sym "A", .sym "AB", .sym "AC"], [.sym "AB", .sym "B", .sym "BC"], [.sym "AC", .sym "BC", .sym "C"]]⟩

example : blockAfter (nearestAssignments (fun m => m) (fun _ => some fun i j => 10 * max i j + min i j)
      [normal "d" "IIV" (.num 0) (.sym "D"), exampleBlock3]) exampleBlock3
    = [[some 0, some 10, some 20], [some 10, some 11, some 21], [some 20, some 21, some 22]] := by decide

end Pharmpy.C11
