import PharmpyProofs.C11.Lemmas
namespace Pharmpy.C11

/-- A PSD input is returned unchanged (the same object). -/
theorem nearest_identity_on_valid {β : Type} (ops : NearOps β) (fuel : Nat) (A : β)
    (h : ops.isPsd A = true) : nearest ops fuel A = some (A, .same) := by
  simp [nearest, h]

end Pharmpy.C11
