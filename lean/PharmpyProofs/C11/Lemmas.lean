import PharmpyModel.C11.Model
namespace Pharmpy.C11
end Pharmpy.C11
