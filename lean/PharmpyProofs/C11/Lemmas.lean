import PharmpyModel.C11.Model
/-
  Helper lemmas for C11 (core Lean only, no Mathlib).
-/
set_option linter.unusedSectionVars false
namespace Pharmpy.C11
variable {α : Type} [Zero α] [DecidableEq α]


theorem zipIdx_filter_map_fst (p : String → Bool) (ns : List String) (k : Nat) :
    ((ns.zipIdx k).filter (fun x => p x.1)).map (·.1) = ns.filter p := by
  induction ns generalizing k with
  | nil => simp
  | cons a l ih =>
    simp only [List.zipIdx_cons, List.filter_cons]
    split <;> simp [ih]

theorem selIdx_map_fst (p : String → Bool) (ns : List String) :
    (selIdx p ns).map (·.1) = ns.filter p := zipIdx_filter_map_fst p ns 0

@[simp] theorem names_nil : names ([] : RVs α) = [] := rfl
@[simp] theorem names_cons (d : Dist α) (r : RVs α) : names (d :: r) = d.names ++ names r := by
  simp [names]
@[simp] theorem names_append (r s : RVs α) : names (r ++ s) = names r ++ names s := by
  simp [names]

theorem names_map_normal (l : List (String × Nat)) (f : String × Nat → Dist α)
    (hf : ∀ x, (f x).names = [x.1]) : names (l.map f) = l.map (·.1) := by
  induction l with
  | nil => rfl
  | cons a l ih => simp [hf, ih]

/-- The condition under which `unjoin` touches a distribution. -/
def touched (inds : List String) (d : Dist α) : Bool := d.joint && d.names.any (inds.contains ·)

theorem unjoinDist_names (inds : List String) (d : Dist α) :
    names (unjoinDist inds d) =
      if touched inds d then d.names.filter (inds.contains ·) ++ d.names.filter (fun n => !inds.contains n)
      else d.names := by
  unfold unjoinDist touched
  split
  · rw [names_append, names_map_normal _ _ (by intro x; rfl), selIdx_map_fst]
    congr 1
    rw [← selIdx_map_fst (fun n => !inds.contains n)]
    generalize selIdx (fun n => !inds.contains n) d.names = kept
    match kept with
    | [] => rfl
    | [x] => simp [names, normal]
    | x :: y :: l => simp [names]
  · simp [names]

theorem unjoinDist_names_perm (inds : List String) (d : Dist α) :
    (names (unjoinDist inds d)).Perm d.names := by
  rw [unjoinDist_names]
  split
  · exact List.filter_append_perm _ _
  · exact List.Perm.refl _

theorem unjoin_names_perm' (rvs : RVs α) (inds : List String) :
    (names (unjoin rvs inds)).Perm (names rvs) := by
  induction rvs with
  | nil => exact List.Perm.refl _
  | cons d r ih =>
    have : unjoin (d :: r) inds = unjoinDist inds d ++ unjoin r inds := by simp [unjoin]
    rw [this, names_append, names_cons]
    exact (unjoinDist_names_perm inds d).append ih


theorem lookupIdx_cons (d : Dist α) (r : RVs α) (a : String) :
    lookupIdx (d :: r) a = if d.names.contains a then some 0 else (lookupIdx r a).map (· + 1) := by
  simp [lookupIdx, List.findIdx?_cons]

theorem lookupIdx_isSome (r : RVs α) (a : String) : (lookupIdx r a).isSome = (names r).contains a := by
  induction r with
  | nil => simp [lookupIdx, names]
  | cons d r ih =>
    rw [lookupIdx_cons]
    by_cases h : d.names.contains a
    · simp_all [names]
    · simp_all [names]

theorem lookupIdx_none (r : RVs α) (a : String) (h : a ∉ names r) : lookupIdx r a = none := by
  have := lookupIdx_isSome r a
  cases hl : lookupIdx r a with
  | none => rfl
  | some i => simp_all

theorem lookupIdx_some (r : RVs α) (a : String) (h : a ∈ names r) : ∃ i, lookupIdx r a = some i := by
  have := lookupIdx_isSome r a
  cases hl : lookupIdx r a with
  | none => simp_all
  | some i => exact ⟨i, rfl⟩

/-- Recursive characterisation of `get_covariance`. -/
theorem getCov_cons (d : Dist α) (r : RVs α) (a b : String) :
    getCov (d :: r) a b =
      if a ∈ d.names then
        (if b ∈ d.names then d.getCov a b else if b ∈ names r then .ok 0 else .error .keyError)
      else if b ∈ d.names then (if a ∈ names r then .ok 0 else .error .keyError)
      else getCov r a b := by
  unfold getCov
  rw [lookupIdx_cons, lookupIdx_cons]
  by_cases ha : a ∈ d.names <;> by_cases hb : b ∈ d.names
  · simp [ha, hb]
  · simp only [List.contains_iff_mem, ha, hb, if_true, if_false]
    by_cases hb' : b ∈ names r
    · obtain ⟨j, hj⟩ := lookupIdx_some r b hb'
      simp [hj, hb']
    · simp [lookupIdx_none r b hb', hb']
  · simp only [List.contains_iff_mem, ha, hb, if_true, if_false]
    by_cases ha' : a ∈ names r
    · obtain ⟨j, hj⟩ := lookupIdx_some r a ha'
      simp [hj, ha']
    · simp [lookupIdx_none r a ha', ha']
  · simp only [List.contains_iff_mem, ha, hb, if_false]
    cases hla : lookupIdx r a <;> cases hlb : lookupIdx r b <;> simp

theorem mem_names {r : RVs α} {a : String} : a ∈ names r ↔ ∃ d ∈ r, a ∈ d.names := by
  simp [names, List.mem_flatMap]

/-- With unique names, the covariance of two variables of one distribution is read from it. -/
theorem getCov_of_mem (r : RVs α) (hn : (names r).Nodup) (d : Dist α) (hd : d ∈ r) (a b : String)
    (ha : a ∈ d.names) (hb : b ∈ d.names) : getCov r a b = d.getCov a b := by
  induction r with
  | nil => cases hd
  | cons d0 r ih =>
    rw [getCov_cons]
    simp only [names, List.flatMap_cons] at hn
    rw [List.nodup_append] at hn
    obtain ⟨_, hr, hdisj⟩ := hn
    cases hd with
    | head => simp [ha, hb]
    | tail _ hd =>
      have ha' : a ∈ names r := mem_names.mpr ⟨d, hd, ha⟩
      have hb' : b ∈ names r := mem_names.mpr ⟨d, hd, hb⟩
      have : a ∉ d0.names := fun h => hdisj a h a ha' rfl
      have : b ∉ d0.names := fun h => hdisj b h b hb' rfl
      simp [*]
      exact ih hr hd

/-- With unique names, variables of different distributions have covariance 0. -/
theorem getCov_of_ne (r : RVs α) (hn : (names r).Nodup) (d e : Dist α) (hd : d ∈ r) (he : e ∈ r)
    (a b : String) (ha : a ∈ d.names) (hb : b ∈ e.names) (hne : b ∉ d.names) : getCov r a b = .ok 0 := by
  induction r with
  | nil => cases hd
  | cons d0 r ih =>
    rw [getCov_cons]
    simp only [names, List.flatMap_cons] at hn
    rw [List.nodup_append] at hn
    obtain ⟨_, hr, hdisj⟩ := hn
    cases hd with
    | head =>
      cases he with
      | head => exact absurd hb hne
      | tail _ he => simp [ha, hne, mem_names.mpr ⟨e, he, hb⟩]
    | tail _ hd =>
      have ha' : a ∈ names r := mem_names.mpr ⟨d, hd, ha⟩
      have ha0 : a ∉ d0.names := fun h => hdisj a h a ha' rfl
      cases he with
      | head => simp [ha0, hb, ha']
      | tail _ he =>
        have hb' : b ∈ names r := mem_names.mpr ⟨e, he, hb⟩
        have hb0 : b ∉ d0.names := fun h => hdisj b h b hb' rfl
        simp [ha0, hb0]
        exact ih hr hd he


theorem idxOf?_of_getElem? {ns : List String} (hn : ns.Nodup) {a : String} {m : Nat}
    (h : ns[m]? = some a) : ns.idxOf? a = some m := by
  rw [List.idxOf?_eq_some_iff]
  have hm : m < ns.length := by
    rcases Nat.lt_or_ge m ns.length with h' | h'
    · exact h'
    · simp [List.getElem?_eq_none h'] at h
  refine ⟨hm, ?_, ?_⟩
  · simpa [List.getElem?_eq_getElem hm] using h
  · intro j hj hja
    have h1 : ns[m] = a := by simpa [List.getElem?_eq_getElem hm] using h
    have h2 : ns[j]? = ns[m]? := by
      rw [List.getElem?_eq_getElem (Nat.lt_trans hj hm), List.getElem?_eq_getElem hm, hja, h1]
    have := (List.getElem?_inj (Nat.lt_trans hj hm) hn).mp h2
    omega

theorem ent_subMat (M : List (List α)) (idx : List Nat) (i j : Nat) (mi mj : Nat)
    (hi : idx[i]? = some mi) (hj : idx[j]? = some mj) :
    ent (subMat M idx) i j = ent M mi mj := by
  simp [ent, subMat, List.getD_eq_getElem?_getD, hi, hj]



/-- Index bookkeeping of a selection: position `i'` of `a` among the selected names and the
    original position stored next to it. -/
theorem selIdx_pos {ns : List String} (hn : ns.Nodup) (p : String → Bool) {a : String}
    (ha : a ∈ ns) (hp : p a = true) :
    ∃ i' m, ((selIdx p ns).map (·.1)).idxOf? a = some i' ∧ ((selIdx p ns).map (·.2))[i']? = some m ∧
      ns.idxOf? a = some m ∧ (a, m) ∈ selIdx p ns := by
  have hfst := selIdx_map_fst p ns
  have hmem : a ∈ (selIdx p ns).map (·.1) := by rw [hfst]; simp [ha, hp]
  have hnd : ((selIdx p ns).map (·.1)).Nodup := by rw [hfst]; exact List.Nodup.sublist List.filter_sublist hn
  obtain ⟨i', hi'⟩ : ∃ i', ((selIdx p ns).map (·.1)).idxOf? a = some i' := by
    cases h : ((selIdx p ns).map (·.1)).idxOf? a with
    | none => rw [List.idxOf?_eq_none_iff] at h; exact absurd hmem h
    | some i' => exact ⟨i', rfl⟩
  obtain ⟨hlt, hget, _⟩ := List.idxOf?_eq_some_iff.mp hi'
  rw [List.length_map] at hlt
  have hget' : ((selIdx p ns)[i']).1 = a := by simpa using hget
  refine ⟨i', ((selIdx p ns)[i']).2, hi', by simp [hlt], ?_, ?_⟩
  · apply idxOf?_of_getElem? hn
    have hx : (selIdx p ns)[i'] ∈ ns.zipIdx := (List.mem_filter.mp (List.getElem_mem hlt)).1
    rw [List.mem_zipIdx_iff_getElem?] at hx
    rw [hx, hget']
  · have := List.getElem_mem hlt
    rw [← hget']
    exact this


theorem getCov_joint (d : Dist α) (hj : d.joint = true) (a b : String) (i j : Nat)
    (hi : d.names.idxOf? a = some i) (hjj : d.names.idxOf? b = some j) :
    d.getCov a b = .ok (ent d.var i j) := by
  simp [Dist.getCov, hj, hi, hjj]

/-- Index bookkeeping of `unjoin` inside one block: two variables that stay keep their covariance
    (rows/columns of removed variables before, between or after them are deleted correctly). -/
theorem unjoinDist_kept_cov (inds : List String) (d : Dist α) (ht : touched inds d = true)
    (hn : d.names.Nodup) (a b : String) (ha : a ∈ d.names) (hb : b ∈ d.names)
    (hai : a ∉ inds) (hbi : b ∉ inds) :
    ∃ k ∈ unjoinDist inds d, a ∈ k.names ∧ b ∈ k.names ∧ k.getCov a b = d.getCov a b := by
  have hj : d.joint = true := by simp [touched] at ht; exact ht.1
  obtain ⟨i', ma, hia, hma, hda, _⟩ := selIdx_pos hn (fun n => !inds.contains n) ha (by simpa using hai)
  obtain ⟨j', mb, hjb, hmb, hdb, _⟩ := selIdx_pos hn (fun n => !inds.contains n) hb (by simpa using hbi)
  rw [getCov_joint d hj a b ma mb hda hdb]
  have hta : touched inds d = (d.joint && d.names.any (inds.contains ·)) := rfl
  unfold unjoinDist
  rw [← hta, ht]
  simp only [if_true]
  generalize selIdx (fun n => !inds.contains n) d.names = kept at *
  match kept with
  | [] => simp at hia
  | [x] =>
    refine ⟨normal x.1 d.level (d.mean.getD x.2 0) (ent d.var x.2 x.2), by simp, ?_⟩
    simp only [List.map_cons, List.map_nil, List.idxOf?_singleton] at hia hjb hma hmb
    have hxa : x.1 = a := by
      by_cases h : x.1 = a
      · exact h
      · simp [h] at hia
    have hxb : x.1 = b := by
      by_cases h : x.1 = b
      · exact h
      · simp [h] at hjb
    have hi0 : i' = 0 := by simp [hxa] at hia; omega
    have hj0 : j' = 0 := by simp [hxb] at hjb; omega
    subst hi0 hj0
    simp at hma hmb
    subst hma hmb
    subst hxa
    simp [normal, Dist.getCov, ent, ← hxb]
  | x :: y :: l =>
    refine ⟨_, List.mem_append_right _ (List.mem_singleton.mpr rfl), ?_, ?_, ?_⟩
    · have := List.isSome_idxOf?.mp (by rw [hia]; rfl)
      exact this
    · have := List.isSome_idxOf?.mp (by rw [hjb]; rfl)
      exact this
    · rw [getCov_joint _ rfl a b i' j' hia hjb, ent_subMat _ _ _ _ _ _ hma hmb]

/-- A variable taken out of a block becomes a normal distribution with its own variance. -/
theorem unjoinDist_removed (inds : List String) (d : Dist α) (ht : touched inds d = true)
    (hn : d.names.Nodup) (a : String) (ha : a ∈ d.names) (hai : a ∈ inds) :
    ∃ k ∈ unjoinDist inds d, k.names = [a] ∧ k.joint = false ∧ k.level = d.level ∧
      k.getCov a a = d.getCov a a := by
  have hj : d.joint = true := by simp [touched] at ht; exact ht.1
  obtain ⟨i', m, _, _, hda, hmem⟩ := selIdx_pos hn (fun n => inds.contains n) ha (by simpa using hai)
  rw [getCov_joint d hj a a m m hda hda]
  have hta : touched inds d = (d.joint && d.names.any (inds.contains ·)) := rfl
  unfold unjoinDist
  rw [← hta, ht]
  simp only [if_true]
  refine ⟨normal a d.level (d.mean.getD m 0) (ent d.var m m), ?_, rfl, rfl, rfl, ?_⟩
  · apply List.mem_append_left
    exact List.mem_map.mpr ⟨(a, m), hmem, rfl⟩
  · simp [normal, Dist.getCov, ent]


theorem nodup_of_mem {r : RVs α} (hn : (names r).Nodup) {d : Dist α} (hd : d ∈ r) : d.names.Nodup := by
  induction r with
  | nil => cases hd
  | cons d0 r ih =>
    rw [names_cons, List.nodup_append] at hn
    cases hd with
    | head => exact hn.1
    | tail _ h => exact ih hn.2.1 h

theorem unjoin_cons (d : Dist α) (r : RVs α) (inds : List String) :
    unjoin (d :: r) inds = unjoinDist inds d ++ unjoin r inds := by simp [unjoin]

theorem mem_unjoin {r : RVs α} {inds : List String} {k : Dist α} :
    k ∈ unjoin r inds ↔ ∃ d ∈ r, k ∈ unjoinDist inds d := by
  simp [unjoin, List.mem_flatMap]

theorem piece_names_subset {inds : List String} {d k : Dist α} (hk : k ∈ unjoinDist inds d)
    {x : String} (hx : x ∈ k.names) : x ∈ d.names :=
  (unjoinDist_names_perm inds d).mem_iff.mp (mem_names.mpr ⟨k, hk, hx⟩)

theorem exists_piece (inds : List String) {d : Dist α} {a : String} (ha : a ∈ d.names) :
    ∃ k ∈ unjoinDist inds d, a ∈ k.names :=
  mem_names.mp ((unjoinDist_names_perm inds d).mem_iff.mpr ha)

theorem unjoin_nodup {r : RVs α} (hn : (names r).Nodup) (inds : List String) :
    (names (unjoin r inds)).Nodup :=
  (unjoin_names_perm' r inds).nodup_iff.mpr hn

/-- Transfer: a piece of `d` that reproduces `d`'s covariance of `a, b` makes the whole collection
    reproduce it. -/
theorem unjoin_getCov_same {r : RVs α} (hn : (names r).Nodup) (inds : List String) {d k : Dist α}
    (hd : d ∈ r) (hk : k ∈ unjoinDist inds d) {a b : String} (ha : a ∈ k.names) (hb : b ∈ k.names)
    (h : k.getCov a b = d.getCov a b) : getCov (unjoin r inds) a b = getCov r a b := by
  rw [getCov_of_mem r hn d hd a b (piece_names_subset hk ha) (piece_names_subset hk hb),
    getCov_of_mem _ (unjoin_nodup hn inds) k (mem_unjoin.mpr ⟨d, hd, hk⟩) a b ha hb, h]

/-- Variables of different blocks keep covariance 0. -/
theorem unjoin_getCov_diff {r : RVs α} (hn : (names r).Nodup) (inds : List String) {d e : Dist α}
    (hd : d ∈ r) (he : e ∈ r) {a b : String} (ha : a ∈ d.names) (hb : b ∈ e.names) (hne : b ∉ d.names) :
    getCov (unjoin r inds) a b = .ok 0 := by
  obtain ⟨k, hk, hak⟩ := exists_piece inds ha
  obtain ⟨k', hk', hbk'⟩ := exists_piece inds hb
  exact getCov_of_ne _ (unjoin_nodup hn inds) k k' (mem_unjoin.mpr ⟨d, hd, hk⟩) (mem_unjoin.mpr ⟨e, he, hk'⟩)
    a b hak hbk' (fun h => hne (piece_names_subset hk h))

theorem unjoinDist_untouched {inds : List String} {d : Dist α} (h : touched inds d = false) :
    unjoinDist inds d = [d] := by
  have hta : touched inds d = (d.joint && d.names.any (inds.contains ·)) := rfl
  unfold unjoinDist
  rw [← hta, h]
  simp

/-- `unjoin` preserves every variance. -/
theorem unjoin_variances' {r : RVs α} (hn : (names r).Nodup) (inds : List String) {a : String}
    (ha : a ∈ names r) : getCov (unjoin r inds) a a = getCov r a a := by
  obtain ⟨d, hd, had⟩ := mem_names.mp ha
  have hdn := nodup_of_mem hn hd
  cases ht : touched inds d with
  | false =>
    exact unjoin_getCov_same hn inds hd (by rw [unjoinDist_untouched ht]; simp) had had rfl
  | true =>
    by_cases hai : a ∈ inds
    · obtain ⟨k, hk, hkn, _, _, hc⟩ := unjoinDist_removed inds d ht hdn a had hai
      exact unjoin_getCov_same hn inds hd hk (by simp [hkn]) (by simp [hkn]) hc
    · obtain ⟨k, hk, hak, _, hc⟩ := unjoinDist_kept_cov inds d ht hdn a a had had hai hai
      exact unjoin_getCov_same hn inds hd hk hak hak hc

/-- `unjoin` preserves every covariance between variables that are not unjoined. -/
theorem unjoin_cov_kept' {r : RVs α} (hn : (names r).Nodup) (inds : List String) {a b : String}
    (ha : a ∈ names r) (hb : b ∈ names r) (hai : a ∉ inds) (hbi : b ∉ inds) :
    getCov (unjoin r inds) a b = getCov r a b := by
  obtain ⟨d, hd, had⟩ := mem_names.mp ha
  obtain ⟨e, he, hbe⟩ := mem_names.mp hb
  have hdn := nodup_of_mem hn hd
  by_cases hbd : b ∈ d.names
  · cases ht : touched inds d with
    | false =>
      exact unjoin_getCov_same hn inds hd (by rw [unjoinDist_untouched ht]; simp) had hbd rfl
    | true =>
      obtain ⟨k, hk, hak, hbk, hc⟩ := unjoinDist_kept_cov inds d ht hdn a b had hbd hai hbi
      exact unjoin_getCov_same hn inds hd hk hak hbk hc
  · rw [unjoin_getCov_diff hn inds hd he had hbe hbd, getCov_of_ne r hn d e hd he a b had hbe hbd]


/-- Mirror image of `getCov_of_ne`. -/
theorem getCov_of_ne' (r : RVs α) (hn : (names r).Nodup) (d e : Dist α) (hd : d ∈ r) (he : e ∈ r)
    (a b : String) (ha : a ∈ d.names) (hb : b ∈ e.names) (hne : a ∉ e.names) : getCov r a b = .ok 0 := by
  induction r with
  | nil => cases hd
  | cons d0 r ih =>
    rw [getCov_cons]
    simp only [names, List.flatMap_cons] at hn
    rw [List.nodup_append] at hn
    obtain ⟨_, hr, hdisj⟩ := hn
    cases he with
    | head =>
      cases hd with
      | head => exact absurd ha hne
      | tail _ hd => simp [hb, hne, mem_names.mpr ⟨d, hd, ha⟩]
    | tail _ he =>
      have hb' : b ∈ names r := mem_names.mpr ⟨e, he, hb⟩
      have hb0 : b ∉ d0.names := fun h => hdisj b h b hb' rfl
      cases hd with
      | head => simp [ha, hb0, hb']
      | tail _ hd =>
        have ha' : a ∈ names r := mem_names.mpr ⟨d, hd, ha⟩
        have ha0 : a ∉ d0.names := fun h => hdisj a h a ha' rfl
        simp [ha0, hb0]
        exact ih hr hd he

/-- Normal distributions have exactly one name. -/
def Singles (r : RVs α) : Prop := ∀ d ∈ r, d.joint = false → ∃ n, d.names = [n]

theorem unjoin_cov_removed' {r : RVs α} (hn : (names r).Nodup) (hs : Singles r) (inds : List String)
    {a b : String} (ha : a ∈ names r) (hb : b ∈ names r) (hai : a ∈ inds) (hab : a ≠ b) :
    getCov (unjoin r inds) a b = .ok 0 ∧ getCov (unjoin r inds) b a = .ok 0 := by
  obtain ⟨d, hd, had⟩ := mem_names.mp ha
  obtain ⟨e, he, hbe⟩ := mem_names.mp hb
  have hdn := nodup_of_mem hn hd
  have hj : touched inds d = true ∨ b ∉ d.names := by
    by_cases hbd : b ∈ d.names
    · left
      cases hjj : d.joint with
      | false =>
        obtain ⟨n, hnn⟩ := hs d hd hjj
        simp [hnn] at had hbd
        exact absurd (had.trans hbd.symm) hab
      | true => simp [touched, hjj]; exact ⟨a, had, hai⟩
    · right; exact hbd
  obtain ⟨k', hk', hbk'⟩ := exists_piece inds hbe
  have hk'm := mem_unjoin.mpr ⟨e, he, hk'⟩
  have hnu := unjoin_nodup hn inds
  by_cases hbd : b ∈ d.names
  · have ht : touched inds d = true := by
      cases hj with
      | inl h => exact h
      | inr h => exact absurd hbd h
    obtain ⟨k, hk, hkn, _, _, _⟩ := unjoinDist_removed inds d ht hdn a had hai
    have hkm := mem_unjoin.mpr ⟨d, hd, hk⟩
    have hbk : b ∉ k.names := by simp [hkn]; exact fun h => hab h.symm
    exact ⟨getCov_of_ne _ hnu k k' hkm hk'm a b (by simp [hkn]) hbk' hbk,
      getCov_of_ne' _ hnu k' k hk'm hkm b a hbk' (by simp [hkn]) hbk⟩
  · obtain ⟨k, hk, hak⟩ := exists_piece inds had
    have hkm := mem_unjoin.mpr ⟨d, hd, hk⟩
    have hbk : b ∉ k.names := fun h => hbd (piece_names_subset hk h)
    exact ⟨getCov_of_ne _ hnu k k' hkm hk'm a b hak hbk' hbk,
      getCov_of_ne' _ hnu k' k hk'm hkm b a hbk' hak hbk⟩


theorem writeRow_apply (M : Mat α) (off : Nat) (V : List (List α)) (i cols r c : Nat) :
    writeRow M off V i cols r c =
      if r = off + i ∧ off ≤ c ∧ c < off + cols then ent V i (c - off) else M r c := by
  unfold writeRow
  induction cols with
  | zero =>
    simp
    intro _ h1 h2
    omega
  | succ n ih =>
    rw [List.range_succ, List.foldl_append]
    simp only [List.foldl_cons, List.foldl_nil, setM]
    rw [ih]
    by_cases h1 : r = off + i ∧ c = off + n
    · obtain ⟨h1, h2⟩ := h1
      subst h1 h2
      simp
    · rw [if_neg h1]
      by_cases h2 : r = off + i ∧ off ≤ c ∧ c < off + n
      · rw [if_pos h2, if_pos ⟨h2.1, h2.2.1, by omega⟩]
      · rw [if_neg h2, if_neg]
        intro h3
        apply h2
        refine ⟨h3.1, h3.2.1, ?_⟩
        have : c ≠ off + n := fun h => h1 ⟨h3.1, h⟩
        omega

theorem writeBlock_apply (M : Mat α) (off : Nat) (V : List (List α)) (rows cols r c : Nat) :
    writeBlock M off V rows cols r c =
      if off ≤ r ∧ r < off + rows ∧ off ≤ c ∧ c < off + cols then ent V (r - off) (c - off) else M r c := by
  unfold writeBlock
  induction rows with
  | zero =>
    simp
    intro _ h
    omega
  | succ n ih =>
    rw [List.range_succ, List.foldl_append]
    simp only [List.foldl_cons, List.foldl_nil]
    rw [writeRow_apply, ih]
    by_cases h1 : r = off + n ∧ off ≤ c ∧ c < off + cols
    · rw [if_pos h1, if_pos ⟨by omega, by omega, h1.2⟩]
      have : r - off = n := by omega
      rw [this]
    · rw [if_neg h1]
      by_cases h2 : off ≤ r ∧ r < off + n ∧ off ≤ c ∧ c < off + cols
      · rw [if_pos h2, if_pos ⟨h2.1, by omega, h2.2.2⟩]
      · rw [if_neg h2, if_neg]
        intro h3
        apply h2
        refine ⟨h3.1, ?_, h3.2.2⟩
        have : r ≠ off + n := fun h => h1 ⟨h, h3.2.2⟩
        omega

/-- Entry `(r, c)` of the block-diagonal composition of square blocks `(size, matrix)`;
    `z` is the value outside the blocks. -/
def blockDiagF : List (Nat × List (List α)) → Nat → Nat → α → α
  | [], _, _, z => z
  | (k, V) :: bs, r, c, z =>
    if r < k ∧ c < k then ent V r c
    else if r < k ∨ c < k then z
    else blockDiagF bs (r - k) (c - k) z

/-- The block of a distribution: its size and covariance matrix. -/
def blockOf (d : Dist α) : Nat × List (List α) := (d.names.length, d.var)

/-- Shape invariant of a distribution: a joint distribution of `n` variables has an `n × n`
    matrix (as many rows as names, first row as long), a normal distribution has one name. -/
def Square (d : Dist α) : Prop :=
  if d.joint then matRows d.var = d.names.length ∧ matCols d.var = d.names.length else d.names.length = 1

instance (d : Dist α) : Decidable (Square d) := by unfold Square; infer_instance

theorem calcGo_apply (ds : List (Dist α)) (hs : ∀ d ∈ ds, Square d) (off : Nat) (M : Mat α) (r c : Nat) :
    calcGo ds off M r c =
      if off ≤ r ∧ off ≤ c then blockDiagF (ds.map blockOf) (r - off) (c - off) (M r c) else M r c := by
  induction ds generalizing off M with
  | nil => simp [calcGo, blockDiagF]
  | cons d ds ih =>
    have hd : Square d := hs d (List.mem_cons_self)
    have ih' := fun off M => ih (fun e he => hs e (List.mem_cons_of_mem _ he)) off M
    unfold calcGo
    simp only [List.map_cons, blockDiagF, blockOf]
    unfold Square at hd
    by_cases hj : d.joint = true
    · simp only [hj, if_true] at hd ⊢
      rw [ih', writeBlock_apply, hd.1, hd.2]
      generalize d.names.length = k
      by_cases h1 : off ≤ r ∧ off ≤ c
      · by_cases h2 : r - off < k ∧ c - off < k
        · have h3 : ¬ (off + k ≤ r ∧ off + k ≤ c) := by omega
          rw [if_neg h3, if_pos h1, if_pos h2, if_pos (by omega)]
        · rw [if_pos h1, if_neg h2]
          by_cases h4 : r - off < k ∨ c - off < k
          · rw [if_pos h4, if_neg (by omega), if_neg (by omega)]
          · rw [if_neg h4, if_pos (by omega), if_neg (by omega)]
            have e1 : r - (off + k) = r - off - k := by omega
            have e2 : c - (off + k) = c - off - k := by omega
            rw [e1, e2]
      · rw [if_neg h1, if_neg (by omega), if_neg (by omega)]
    · simp only [hj] at hd ⊢
      simp only [Bool.false_eq_true, if_false]
      rw [ih', hd]
      simp only [setM]
      by_cases h1 : off ≤ r ∧ off ≤ c
      · by_cases h2 : r - off < 1 ∧ c - off < 1
        · have h3 : ¬ (off + 1 ≤ r ∧ off + 1 ≤ c) := by omega
          have h5 : r = off ∧ c = off := by omega
          rw [if_neg h3, if_pos h1, if_pos h2, if_pos h5]
          have e1 : r - off = 0 := by omega
          have e2 : c - off = 0 := by omega
          rw [e1, e2]
        · rw [if_pos h1, if_neg h2]
          by_cases h4 : r - off < 1 ∨ c - off < 1
          · rw [if_pos h4, if_neg (by omega), if_neg (by omega)]
          · rw [if_neg h4, if_pos (by omega), if_neg (by omega)]
            have e1 : r - (off + 1) = r - off - 1 := by omega
            have e2 : c - (off + 1) = c - off - 1 := by omega
            rw [e1, e2]
      · rw [if_neg h1, if_neg (by omega), if_neg (by omega)]


theorem ent_tabulate (n : Nat) (M : Mat α) (r c : Nat) (hr : r < n) (hc : c < n) :
    ent (tabulate n M) r c = M r c := by
  simp [ent, tabulate, List.getD_eq_getElem?_getD, hr, hc]

theorem tabulate_shape (n : Nat) (M : Mat α) :
    (tabulate n M).length = n ∧ ∀ row ∈ tabulate n M, row.length = n := by
  refine ⟨by simp [tabulate], ?_⟩
  · intro row h
    simp [tabulate] at h
    obtain ⟨_, _, rfl⟩ := h
    simp

theorem nrvs_eq_length (r : RVs α) : nrvs r = (names r).length := by
  induction r with
  | nil => rfl
  | cons d r ih => simp [nrvs, names] at ih ⊢; try omega

theorem calcMat_apply (rvs : RVs α) (hs : ∀ d ∈ rvs, Square d) (r c : Nat) :
    calcMat rvs r c = blockDiagF (rvs.map blockOf) r c 0 := by
  unfold calcMat
  rw [calcGo_apply rvs hs]
  simp

theorem idxOf_append_names (ns ms : List String) (a : String) :
    (ns ++ ms).idxOf a = if a ∈ ns then ns.idxOf a else ns.length + ms.idxOf a := by
  rw [List.idxOf_append]
  split <;> omega

theorem idxOf?_eq_idxOf {ns : List String} {a : String} (h : a ∈ ns) : ns.idxOf? a = some (ns.idxOf a) := by
  induction ns with
  | nil => cases h
  | cons x l ih =>
    by_cases hx : x = a
    · subst hx; simp [List.idxOf?_cons]
    · have : a ∈ l := by
        cases h with
        | head => exact absurd rfl hx
        | tail _ h => exact h
      simp [List.idxOf?_cons, List.idxOf_cons, hx, ih this, cond_eq_ite]

/-- Inside a well-shaped distribution, the matrix entry at the positions of two of its names is
    their covariance. -/
theorem dist_getCov_idx (d : Dist α) (hs : Square d) {a b : String} (ha : a ∈ d.names) (hb : b ∈ d.names) :
    d.getCov a b = .ok (ent d.var (d.names.idxOf a) (d.names.idxOf b)) := by
  unfold Square at hs
  by_cases hj : d.joint = true
  · exact getCov_joint d hj a b _ _ (idxOf?_eq_idxOf ha) (idxOf?_eq_idxOf hb)
  · simp only [hj] at hs
    simp only [Bool.false_eq_true, if_false] at hs
    match hnm : d.names, hs with
    | [n], _ =>
      rw [hnm] at ha hb
      simp at ha hb
      subst ha hb
      simp [Dist.getCov, hj, hnm]

/-- The overall covariance matrix, read at the positions of two names, is `get_covariance`. -/
theorem blockDiag_getCov (rvs : RVs α) (hs : ∀ d ∈ rvs, Square d) {a b : String}
    (ha : a ∈ names rvs) (hb : b ∈ names rvs) :
    getCov rvs a b = .ok (blockDiagF (rvs.map blockOf) ((names rvs).idxOf a) ((names rvs).idxOf b) 0) := by
  induction rvs with
  | nil => simp at ha
  | cons d r ih =>
    have hd : Square d := hs d List.mem_cons_self
    have ih' := ih (fun e he => hs e (List.mem_cons_of_mem _ he))
    rw [getCov_cons, names_cons, idxOf_append_names, idxOf_append_names]
    simp only [List.map_cons, blockDiagF, blockOf]
    rw [names_cons] at ha hb
    by_cases had : a ∈ d.names <;> by_cases hbd : b ∈ d.names
    · simp only [had, hbd, if_true]
      rw [if_pos ⟨List.idxOf_lt_length_of_mem had, List.idxOf_lt_length_of_mem hbd⟩]
      exact dist_getCov_idx d hd had hbd
    · have hbr : b ∈ names r := by
        cases List.mem_append.mp hb with
        | inl h => exact absurd h hbd
        | inr h => exact h
      simp only [had, hbd, hbr, if_true, if_false]
      have := List.idxOf_lt_length_of_mem had
      rw [if_neg (by omega), if_pos (Or.inl this)]
    · have har : a ∈ names r := by
        cases List.mem_append.mp ha with
        | inl h => exact absurd h had
        | inr h => exact h
      simp only [had, hbd, har, if_true, if_false]
      have := List.idxOf_lt_length_of_mem hbd
      rw [if_neg (by omega), if_pos (Or.inr this)]
    · have har : a ∈ names r := by
        cases List.mem_append.mp ha with
        | inl h => exact absurd h had
        | inr h => exact h
      have hbr : b ∈ names r := by
        cases List.mem_append.mp hb with
        | inl h => exact absurd h hbd
        | inr h => exact h
      simp only [had, hbd, if_false]
      rw [if_neg (by omega), if_neg (by omega), ih' har hbr]
      have e1 : d.names.length + List.idxOf a (names r) - d.names.length = List.idxOf a (names r) := by omega
      have e2 : d.names.length + List.idxOf b (names r) - d.names.length = List.idxOf b (names r) := by omega
      rw [e1, e2]


theorem selIdx_mem {p : String → Bool} {ns : List String} {x : String × Nat} (h : x ∈ selIdx p ns) :
    x.1 ∈ ns ∧ p x.1 = true := by
  have : x.1 ∈ (selIdx p ns).map (·.1) := List.mem_map.mpr ⟨x, h, rfl⟩
  rw [selIdx_map_fst] at this
  exact List.mem_filter.mp this

/-- One distribution's part of `rvs[ind]`. `rem` is the list of names to remove; on the names of
    `d` it is the complement of `ind`. -/
theorem getitem_dist_names (ind rem : List String) (d : Dist α)
    (hrem : ∀ x ∈ d.names, rem.contains x = !ind.contains x)
    (hs : d.joint = false → ∃ n, d.names = [n]) :
    names ((unjoinDist rem d).filter (firstNameIn ind)) = d.names.filter (ind.contains ·) := by
  have hkeep : d.names.filter (fun n => !rem.contains n) = d.names.filter (ind.contains ·) := by
    apply List.filter_congr
    intro x hx
    rw [hrem x hx]; simp
  cases ht : touched rem d with
  | false =>
    rw [unjoinDist_untouched ht]
    cases hj : d.joint with
    | false =>
      obtain ⟨n, hn⟩ := hs hj
      by_cases hni : n ∈ ind
      · simp [firstNameIn, hn, hni, names]
      · simp [firstNameIn, hn, hni, names]
    | true =>
      have hall : ∀ x ∈ d.names, ind.contains x = true := by
        intro x hx
        have h1 : rem.contains x = false := by
          simp [touched, hj] at ht
          simpa using ht x hx
        rw [hrem x hx] at h1
        simpa using h1
      have hf : d.names.filter (ind.contains ·) = d.names := List.filter_eq_self.mpr hall
      rw [hf]
      match hn : d.names with
      | [] => simp [firstNameIn, hn, names]
      | n :: l =>
        have : n ∈ ind := by simpa using hall n (by rw [hn]; exact List.mem_cons_self)
        simp [firstNameIn, hn, this, names]
  | true =>
    have hta : touched rem d = (d.joint && d.names.any (rem.contains ·)) := rfl
    unfold unjoinDist
    rw [← hta, ht]
    simp only [if_true, List.filter_append]
    have h1 : (List.map (fun x => normal x.1 d.level (d.mean.getD x.2 0) (ent d.var x.2 x.2))
        (selIdx (fun x => rem.contains x) d.names)).filter (firstNameIn ind) = [] := by
      rw [List.filter_eq_nil_iff]
      intro k hk
      obtain ⟨x, hx, rfl⟩ := List.mem_map.mp hk
      obtain ⟨hx1, hx2⟩ := selIdx_mem hx
      have := hrem x.1 hx1
      rw [hx2] at this
      simp [firstNameIn, normal]
      simpa using this.symm
    rw [h1, List.nil_append, ← hkeep, ← selIdx_map_fst]
    have hmem : ∀ x ∈ selIdx (fun n => !rem.contains n) d.names, ind.contains x.1 = true := by
      intro x hx
      obtain ⟨hx1, hx2⟩ := selIdx_mem hx
      have := hrem x.1 hx1
      simp at hx2
      simpa [hx2] using this.symm
    generalize selIdx (fun n => !rem.contains n) d.names = kept at *
    match kept with
    | [] => simp [names]
    | [x] =>
      have : x.1 ∈ ind := by simpa using hmem x List.mem_cons_self
      simp [firstNameIn, normal, this, names]
    | x :: y :: l =>
      have : x.1 ∈ ind := by simpa using hmem x List.mem_cons_self
      simp [firstNameIn, this, names]

theorem getitem_names' (r : RVs α) (hs : Singles r) (ind : List String) :
    names (getitem r ind) = (names r).filter (ind.contains ·) := by
  unfold getitem
  have key : ∀ (rem : List String) (r' : RVs α), (∀ x ∈ names r', rem.contains x = !ind.contains x) →
      Singles r' → names ((unjoin r' rem).filter (firstNameIn ind)) = (names r').filter (ind.contains ·) := by
    intro rem r'
    induction r' with
    | nil => intro _ _; rfl
    | cons d r' ih =>
      intro hrem hs'
      rw [unjoin_cons, List.filter_append, names_append, names_cons, List.filter_append]
      rw [getitem_dist_names ind rem d (fun x hx => hrem x (by rw [names_cons]; exact List.mem_append_left _ hx))
        (hs' d List.mem_cons_self)]
      rw [ih (fun x hx => hrem x (by rw [names_cons]; exact List.mem_append_right _ hx))
        (fun e he => hs' e (List.mem_cons_of_mem _ he))]
  apply key _ r _ hs
  intro x hx
  by_cases h : x ∈ ind
  · simp [h]
  · simp [h, hx]


theorem names_filter_sublist (p : Dist α → Bool) (L : RVs α) : (names (L.filter p)).Sublist (names L) := by
  induction L with
  | nil => exact List.Sublist.refl _
  | cons d L ih =>
    rw [List.filter_cons]
    split
    · rw [names_cons, names_cons]; exact List.Sublist.append (List.Sublist.refl _) ih
    · rw [names_cons]; exact List.Sublist.trans ih (List.sublist_append_right _ _)

/-- Covariances read from a sub-collection that still has the distributions of both variables. -/
theorem getCov_sub {L L' : RVs α} (hn : (names L).Nodup) (hn' : (names L').Nodup)
    (hsub : ∀ k ∈ L', k ∈ L) {a b : String} (ha : a ∈ names L') (hb : b ∈ names L') :
    getCov L' a b = getCov L a b := by
  obtain ⟨k, hk, hak⟩ := mem_names.mp ha
  obtain ⟨k', hk', hbk'⟩ := mem_names.mp hb
  by_cases hbk : b ∈ k.names
  · rw [getCov_of_mem L' hn' k hk a b hak hbk, getCov_of_mem L hn k (hsub k hk) a b hak hbk]
  · rw [getCov_of_ne L' hn' k k' hk hk' a b hak hbk' hbk,
      getCov_of_ne L hn k k' (hsub k hk) (hsub k' hk') a b hak hbk' hbk]

/-- `rvs[ind]` keeps every variance and covariance of the selected variables. -/
theorem getitem_cov' {r : RVs α} (hn : (names r).Nodup) (hs : Singles r) (ind : List String) {a b : String}
    (ha : a ∈ names r) (hb : b ∈ names r) (hai : a ∈ ind) (hbi : b ∈ ind) :
    getCov (getitem r ind) a b = getCov r a b := by
  have hnames := getitem_names' r hs ind
  have hn' : (names (getitem r ind)).Nodup := by rw [hnames]; exact List.Nodup.sublist List.filter_sublist hn
  have ha' : a ∈ names (getitem r ind) := by rw [hnames]; simp [ha, hai]
  have hb' : b ∈ names (getitem r ind) := by rw [hnames]; simp [hb, hbi]
  let rem := (names r).filter (fun n => !ind.contains n)
  have hsub : ∀ k ∈ getitem r ind, k ∈ unjoin r rem := fun k hk => (List.mem_filter.mp hk).1
  rw [getCov_sub (unjoin_nodup hn rem) hn' hsub ha' hb']
  apply unjoin_cov_kept' hn rem ha hb
  · simp [rem, hai]
  · simp [rem, hbi]


/-- `k` has one of the names `inds`. -/
def hasInd (inds : List String) (k : Dist α) : Bool := k.names.any (inds.contains ·)

/-- After `unjoin(inds)` (normal distributions having one name) every distribution is either free
    of `inds` or is a single unjoined variable. -/
theorem unjoin_uniform {r : RVs α} (hs : Singles r) (inds : List String) :
    ∀ k ∈ unjoin r inds, (∀ x ∈ k.names, x ∉ inds) ∨ (∃ a, a ∈ inds ∧ k.names = [a]) := by
  intro k hk
  obtain ⟨d, hd, hkd⟩ := mem_unjoin.mp hk
  cases ht : touched inds d with
  | false =>
    rw [unjoinDist_untouched ht] at hkd
    simp at hkd
    subst hkd
    cases hj : k.joint with
    | false =>
      obtain ⟨n, hn⟩ := hs k hd hj
      by_cases hni : n ∈ inds
      · right; exact ⟨n, hni, hn⟩
      · left; intro x hx; rw [hn] at hx; simp at hx; subst hx; exact hni
    | true =>
      left
      intro x hx hxi
      simp [touched, hj] at ht
      exact ht x hx hxi
  | true =>
    have hta : touched inds d = (d.joint && d.names.any (inds.contains ·)) := rfl
    unfold unjoinDist at hkd
    rw [← hta, ht] at hkd
    simp only [if_true] at hkd
    rcases List.mem_append.mp hkd with h | h
    · right
      obtain ⟨x, hx, rfl⟩ := List.mem_map.mp h
      obtain ⟨_, hx2⟩ := selIdx_mem hx
      exact ⟨x.1, by simpa using hx2, rfl⟩
    · left
      have hmem : ∀ x ∈ selIdx (fun n => !inds.contains n) d.names, x.1 ∉ inds := by
        intro x hx
        obtain ⟨_, hx2⟩ := selIdx_mem hx
        simpa using hx2
      generalize selIdx (fun n => !inds.contains n) d.names = kept at *
      match kept with
      | [] => simp at h
      | [x] =>
        simp at h; subst h
        intro y hy
        simp [normal] at hy; subst hy
        exact hmem x List.mem_cons_self
      | x :: y :: l =>
        simp at h; subst h
        intro z hz
        have hz' : z ∈ (x :: y :: l).map (·.1) := by simpa using hz
        obtain ⟨w, hw, rfl⟩ := List.mem_map.mp hz'
        exact hmem w hw

theorem hasInd_of_uniform {inds : List String} {k : Dist α}
    (h : (∀ x ∈ k.names, x ∉ inds) ∨ (∃ a, a ∈ inds ∧ k.names = [a])) :
    (hasInd inds k = false ↔ ∀ x ∈ k.names, x ∉ inds) ∧ (hasInd inds k = true ↔ ∃ a, a ∈ inds ∧ k.names = [a]) := by
  rcases h with h | ⟨a, ha, hk⟩
  · have : hasInd inds k = false := by
      simp [hasInd]
      exact h
    refine ⟨⟨fun _ => h, fun _ => this⟩, ⟨fun h' => (by rw [this] at h'; cases h'), ?_⟩⟩
    rintro ⟨a, ha, hk⟩
    exact absurd ha (h a (by simp [hk]))
  · have : hasInd inds k = true := by simp [hasInd, hk, ha]
    refine ⟨⟨fun h' => (by rw [this] at h'; cases h'), ?_⟩, ⟨fun _ => ⟨a, ha, hk⟩, fun _ => this⟩⟩
    intro h'
    exact absurd ha (h' a (by simp [hk]))

/-- Names of the result of the placement loop. -/
theorem placeJoined_names (inds : List String) (jd : Dist α) (U : RVs α) (first : Bool) :
    (names (placeJoined inds jd U first)).Perm
      ((if first && U.any (hasInd inds) then jd.names else []) ++ names (U.filter (fun k => !hasInd inds k))) := by
  induction U generalizing first with
  | nil => simp [placeJoined, names]
  | cons d U ih =>
    unfold placeJoined
    have hh : d.names.any (inds.contains ·) = hasInd inds d := rfl
    rw [hh]
    cases hd : hasInd inds d with
    | true =>
      cases first with
      | true =>
        simp only [if_true, List.any_cons, hd, Bool.true_or, Bool.and_self, List.filter_cons, Bool.not_true]
        rw [names_cons]
        have := ih false
        simp only [Bool.false_and, if_false] at this
        simp only [Bool.false_eq_true, if_false, List.nil_append] at this ⊢
        exact List.Perm.append_left _ this
      | false =>
        simp only [List.filter_cons, hd, Bool.not_true, Bool.false_and]
        have := ih false
        simp only [Bool.false_and] at this
        simpa using this
    | false =>
      simp only [Bool.false_eq_true, if_false, List.any_cons, hd, Bool.false_or, List.filter_cons, Bool.not_false, if_true]
      rw [names_cons, names_cons]
      have := ih first
      refine (List.Perm.append_left d.names this).trans ?_
      rw [← List.append_assoc, ← List.append_assoc]
      exact List.Perm.append_right _ List.perm_append_comm


/-- Joining no variables returns the collection unchanged. -/
theorem join_nil (r : RVs α) (f : Fill α) : join r [] f = .ok ⟨r, []⟩ := by
  simp [join]

/-- What a successful `join` of at least one variable returns. -/
theorem join_ok {r : RVs α} {inds : List String} {f : Fill α} {res : JoinResult α}
    (h : join r inds f = .ok res) (hne : inds ≠ []) :
    (∀ a ∈ inds, a ∈ names r) ∧
    ∃ j0 rest, getitem r inds = j0 :: rest ∧
      res.rvs = placeJoined inds
        ⟨names (getitem r inds), j0.level, true, (getitem r inds).flatMap (·.mean),
          (joinMatrix (getitem r inds) f).1⟩
        (unjoin r inds) true := by
  unfold join at h
  by_cases hk : (inds.any fun a => !(names r).contains a) = true
  · rw [if_pos hk] at h; cases h
  · rw [if_neg hk] at h
    have hlen : ¬ inds.length = 0 := fun e => hne (List.length_eq_zero_iff.mp e)
    rw [if_neg hlen] at h
    simp only at h
    by_cases hm : (!(joinMatrix (getitem r inds) f).2.2) = true
    · rw [if_pos hm] at h; cases h
    · rw [if_neg hm] at h
      refine ⟨?_, ?_⟩
      · intro a ha
        simp at hk
        exact hk a ha
      · cases hg : getitem r inds with
        | nil => simp [hg] at h
        | cons j0 rest =>
          simp only [hg] at h
          refine ⟨j0, rest, rfl, ?_⟩
          injection h with h
          rw [← h]
          simp [calcCov]


theorem names_filter_out (inds : List String) (L : RVs α)
    (hu : ∀ k ∈ L, (∀ x ∈ k.names, x ∉ inds) ∨ (∃ a, a ∈ inds ∧ k.names = [a])) :
    names (L.filter (fun k => !hasInd inds k)) = (names L).filter (fun n => !inds.contains n) := by
  induction L with
  | nil => rfl
  | cons d L ih =>
    have ih' := ih (fun k hk => hu k (List.mem_cons_of_mem _ hk))
    have hd := hasInd_of_uniform (hu d List.mem_cons_self)
    rw [List.filter_cons, names_cons, List.filter_append]
    cases h : hasInd inds d with
    | false =>
      have hall := hd.1.mp h
      simp only [Bool.not_false, if_true, names_cons, ih']
      congr 1
      symm
      apply List.filter_eq_self.mpr
      intro x hx
      simpa using hall x hx
    | true =>
      obtain ⟨a, ha, hn⟩ := hd.2.mp h
      simp [ih', hn, ha]

theorem any_hasInd_false_filter (inds : List String) (L : RVs α) (h : L.any (hasInd inds) = false) :
    (names L).filter (inds.contains ·) = [] := by
  rw [List.filter_eq_nil_iff]
  intro x hx
  obtain ⟨k, hk, hxk⟩ := mem_names.mp hx
  simp [hasInd] at h
  have := h k hk x hxk
  simpa using this

/-- The names after `join`: the joined names (in their original order) and the others. -/
theorem join_names_perm' {r : RVs α} (hs : Singles r) {inds : List String} {f : Fill α} {res : JoinResult α}
    (h : join r inds f = .ok res) : (names res.rvs).Perm (names r) := by
  by_cases hne : inds = []
  · subst hne
    rw [join_nil] at h
    injection h with h
    rw [← h]
  obtain ⟨_, j0, rest, _, hres⟩ := join_ok h hne
  rw [hres]
  refine (placeJoined_names inds _ _ true).trans ?_
  rw [names_filter_out inds _ (unjoin_uniform hs inds)]
  have hperm := unjoin_names_perm' r inds
  have h1 : (if (true && (unjoin r inds).any (hasInd inds)) = true then names (getitem r inds) else [])
      = (names r).filter (inds.contains ·) := by
    rw [getitem_names' r hs]
    cases hany : (unjoin r inds).any (hasInd inds) with
    | true => simp
    | false =>
      have := any_hasInd_false_filter inds _ hany
      have h2 := (hperm.filter (inds.contains ·))
      rw [this] at h2
      simp only [Bool.and_false, Bool.false_eq_true, if_false]
      exact (List.Perm.nil_eq h2)
  simp only at h1 ⊢
  rw [h1]
  refine (List.Perm.append_left _ (hperm.filter _)).trans ?_
  exact List.filter_append_perm _ _


theorem unjoinDist_square (inds : List String) (d : Dist α) (hd : Square d) :
    ∀ k ∈ unjoinDist inds d, Square k := by
  intro k hk
  cases ht : touched inds d with
  | false =>
    rw [unjoinDist_untouched ht] at hk
    simp at hk; subst hk; exact hd
  | true =>
    have hta : touched inds d = (d.joint && d.names.any (inds.contains ·)) := rfl
    unfold unjoinDist at hk
    rw [← hta, ht] at hk
    simp only [if_true] at hk
    rcases List.mem_append.mp hk with h | h
    · obtain ⟨x, _, rfl⟩ := List.mem_map.mp h
      simp [Square, normal]
    · generalize selIdx (fun n => !inds.contains n) d.names = kept at *
      match kept with
      | [] => simp at h
      | [x] => simp at h; subst h; simp [Square, normal]
      | x :: y :: l =>
        simp at h; subst h
        simp [Square, matRows, matCols, subMat]

theorem getitem_square {r : RVs α} (hq : ∀ d ∈ r, Square d) (ind : List String) :
    ∀ k ∈ getitem r ind, Square k := by
  intro k hk
  have := (List.mem_filter.mp hk).1
  obtain ⟨d, hd, hkd⟩ := mem_unjoin.mp this
  exact unjoinDist_square _ d (hq d hd) k hkd

theorem singles_of_square {r : RVs α} (hq : ∀ d ∈ r, Square d) : Singles r := by
  intro d hd hj
  have := hq d hd
  simp [Square, hj] at this
  match hn : d.names, this with
  | [n], _ => exact ⟨n, rfl⟩

theorem placeJoined_mem_out (inds : List String) (jd : Dist α) (U : RVs α) (first : Bool) {k : Dist α}
    (hk : k ∈ U) (ho : hasInd inds k = false) : k ∈ placeJoined inds jd U first := by
  induction U generalizing first with
  | nil => cases hk
  | cons d U ih =>
    unfold placeJoined
    have hh : d.names.any (inds.contains ·) = hasInd inds d := rfl
    rw [hh]
    cases hk with
    | head => simp [ho]
    | tail _ hk =>
      cases hd : hasInd inds d with
      | true =>
        cases first with
        | true => simp; right; exact ih false hk
        | false => simp; exact ih false hk
      | false => simp; right; exact ih first hk

theorem placeJoined_mem_jd (inds : List String) (jd : Dist α) (U : RVs α)
    (h : U.any (hasInd inds) = true) : jd ∈ placeJoined inds jd U true := by
  induction U with
  | nil => simp at h
  | cons d U ih =>
    unfold placeJoined
    have hh : d.names.any (inds.contains ·) = hasInd inds d := rfl
    rw [hh]
    cases hd : hasInd inds d with
    | true => simp
    | false =>
      simp [hd] at h
      simp
      right
      apply ih
      simpa using h

/-- Covariances agree in two collections that share the distributions of both variables. -/
theorem getCov_shared {L L' : RVs α} (hn : (names L).Nodup) (hn' : (names L').Nodup) {k k' : Dist α}
    (hk : k ∈ L) (hk2 : k ∈ L') (hk' : k' ∈ L) (hk2' : k' ∈ L') {a b : String}
    (ha : a ∈ k.names) (hb : b ∈ k'.names) : getCov L' a b = getCov L a b := by
  by_cases hbk : b ∈ k.names
  · rw [getCov_of_mem L' hn' k hk2 a b ha hbk, getCov_of_mem L hn k hk a b ha hbk]
  · rw [getCov_of_ne L' hn' k k' hk2 hk2' a b ha hb hbk, getCov_of_ne L hn k k' hk hk' a b ha hb hbk]

theorem piece_out {r : RVs α} (hs : Singles r) (inds : List String) {a : String} (ha : a ∈ names r)
    (hai : a ∉ inds) : ∃ k ∈ unjoin r inds, a ∈ k.names ∧ hasInd inds k = false := by
  have : a ∈ names (unjoin r inds) := (unjoin_names_perm' r inds).mem_iff.mpr ha
  obtain ⟨k, hk, hak⟩ := mem_names.mp this
  refine ⟨k, hk, hak, ?_⟩
  have hu := unjoin_uniform hs inds k hk
  rcases hu with h | ⟨a', ha', hn⟩
  · exact (hasInd_of_uniform (Or.inl h)).1.mpr h
  · rw [hn] at hak; simp at hak; subst hak; exact absurd ha' hai

/-- `join` does not change covariances (or variances) of variables that are not joined. -/
theorem join_cov_outside' {r : RVs α} (hn : (names r).Nodup) (hs : Singles r) {inds : List String}
    {f : Fill α} {res : JoinResult α} (h : join r inds f = .ok res) {a b : String}
    (ha : a ∈ names r) (hb : b ∈ names r) (hai : a ∉ inds) (hbi : b ∉ inds) :
    getCov res.rvs a b = getCov r a b := by
  have hnR : (names res.rvs).Nodup := (join_names_perm' hs h).nodup_iff.mpr hn
  by_cases hne : inds = []
  · subst hne
    rw [join_nil] at h
    injection h with h
    rw [← h]
  obtain ⟨_, j0, rest, _, hres⟩ := join_ok h hne
  obtain ⟨k, hk, hak, hko⟩ := piece_out hs inds ha hai
  obtain ⟨k', hk', hbk', hko'⟩ := piece_out hs inds hb hbi
  rw [← unjoin_cov_kept' hn inds ha hb hai hbi]
  rw [hres] at hnR ⊢
  exact getCov_shared (unjoin_nodup hn inds) hnR hk (placeJoined_mem_out _ _ _ _ hk hko) hk'
    (placeJoined_mem_out _ _ _ _ hk' hko') hak hbk'


theorem ent_fillMat_tabulate (fill : α) (n : Nat) (F : Mat α) (i j : Nat) (hi : i < n) (hj : j < n) :
    ent (fillMat fill (tabulate n F)) i j = if i ≠ j ∧ F i j = 0 then fill else F i j := by
  simp [ent, fillMat, tabulate, List.getD_eq_getElem?_getD, hi, hj]

theorem idxOf_inj_of_mem {ns : List String} {a b : String} (ha : a ∈ ns) (hb : b ∈ ns)
    (h : ns.idxOf a = ns.idxOf b) : a = b := by
  have h1 := idxOf?_eq_idxOf ha
  have h2 := idxOf?_eq_idxOf hb
  rw [h] at h1
  obtain ⟨_, ea, _⟩ := List.idxOf?_eq_some_iff.mp h1
  obtain ⟨_, eb, _⟩ := List.idxOf?_eq_some_iff.mp h2
  exact ea.symm.trans eb

/-- The joined block is in the result when some variable is joined. -/
theorem jd_mem_of_ind {r : RVs α} (inds : List String) (jd : Dist α) {a : String} (ha : a ∈ names r)
    (hai : a ∈ inds) : jd ∈ placeJoined inds jd (unjoin r inds) true := by
  apply placeJoined_mem_jd
  have : a ∈ names (unjoin r inds) := (unjoin_names_perm' r inds).mem_iff.mpr ha
  obtain ⟨k, hk, hak⟩ := mem_names.mp this
  rw [List.any_eq_true]
  refine ⟨k, hk, ?_⟩
  simp [hasInd]
  exact ⟨a, hak, hai⟩

/-- Value of `get_covariance` inside the joined block, `fill` mode: every variance and every
    existing non-zero covariance is kept; a zero covariance becomes `fill` when `fill ≠ 0`. -/
theorem join_cov_inside_value' {r : RVs α} (hn : (names r).Nodup) (hq : ∀ d ∈ r, Square d)
    {inds : List String} {fill : α} {res : JoinResult α} (h : join r inds (.value fill) = .ok res)
    {a b : String} (ha : a ∈ names r) (hb : b ∈ names r) (hai : a ∈ inds) (hbi : b ∈ inds) :
    ∃ v, getCov r a b = .ok v ∧
      getCov res.rvs a b = .ok (if a ≠ b ∧ fill ≠ 0 ∧ v = 0 then fill else v) := by
  have hs := singles_of_square hq
  have hnR : (names res.rvs).Nodup := (join_names_perm' hs h).nodup_iff.mpr hn
  obtain ⟨_, j0, rest, _, hres⟩ := join_ok h (fun e => by rw [e] at hai; cases hai)
  have hnames := getitem_names' r hs inds
  have haJ : a ∈ names (getitem r inds) := by rw [hnames]; simp [ha, hai]
  have hbJ : b ∈ names (getitem r inds) := by rw [hnames]; simp [hb, hbi]
  have hqJ := getitem_square hq inds
  have hcov := blockDiag_getCov (getitem r inds) hqJ haJ hbJ
  rw [getitem_cov' hn hs inds ha hb hai hbi] at hcov
  refine ⟨_, hcov, ?_⟩
  rw [hres] at hnR ⊢
  have hjd := jd_mem_of_ind (r := r) inds
    ⟨names (getitem r inds), j0.level, true, (getitem r inds).flatMap (·.mean),
      (joinMatrix (getitem r inds) (.value fill)).1⟩ ha hai
  rw [getCov_of_mem _ hnR _ hjd a b haJ hbJ]
  rw [getCov_joint _ rfl a b _ _ (idxOf?_eq_idxOf haJ) (idxOf?_eq_idxOf hbJ)]
  have hi := List.idxOf_lt_length_of_mem haJ
  have hj := List.idxOf_lt_length_of_mem hbJ
  rw [← nrvs_eq_length] at hi hj
  congr 1
  simp only [joinMatrix, calcCov]
  by_cases hf : fill = 0
  · simp only [hf, ne_eq, not_true_eq_false, if_false, false_and, and_false]
    rw [ent_tabulate _ _ _ _ hi hj, calcMat_apply _ hqJ]
  · simp only [ne_eq, hf, not_false_eq_true, if_true, true_and]
    rw [ent_fillMat_tabulate _ _ _ _ _ hi hj, calcMat_apply _ hqJ]
    have hiff : (List.idxOf a (names (getitem r inds)) ≠ List.idxOf b (names (getitem r inds))) ↔ ¬ a = b :=
      ⟨fun h e => h (by rw [e]), fun h e => h (idxOf_inj_of_mem haJ hbJ e)⟩
    by_cases hab : a = b
    · have : ¬ (List.idxOf a (names (getitem r inds)) ≠ List.idxOf b (names (getitem r inds))) := fun h => hiff.mp h hab
      simp [hab]
    · have := hiff.mpr hab
      simp [hab, this]

/-- A joined variable and a variable that is not joined have covariance 0 afterwards. -/
theorem join_cov_cross' {r : RVs α} (hn : (names r).Nodup) (hs : Singles r) {inds : List String}
    {f : Fill α} {res : JoinResult α} (h : join r inds f = .ok res) {a b : String}
    (ha : a ∈ names r) (hb : b ∈ names r) (hai : a ∈ inds) (hbi : b ∉ inds) :
    getCov res.rvs a b = .ok 0 ∧ getCov res.rvs b a = .ok 0 := by
  have hnR : (names res.rvs).Nodup := (join_names_perm' hs h).nodup_iff.mpr hn
  obtain ⟨_, j0, rest, _, hres⟩ := join_ok h (fun e => by rw [e] at hai; cases hai)
  have hnames := getitem_names' r hs inds
  have haJ : a ∈ names (getitem r inds) := by rw [hnames]; simp [ha, hai]
  have hbJ : b ∉ names (getitem r inds) := by rw [hnames]; simp [hbi]
  obtain ⟨k', hk', hbk', hko'⟩ := piece_out hs inds hb hbi
  rw [hres] at hnR ⊢
  have hjd := jd_mem_of_ind (r := r) inds
    ⟨names (getitem r inds), j0.level, true, (getitem r inds).flatMap (·.mean),
      (joinMatrix (getitem r inds) f).1⟩ ha hai
  have hk2 := placeJoined_mem_out inds
    ⟨names (getitem r inds), j0.level, true, (getitem r inds).flatMap (·.mean),
      (joinMatrix (getitem r inds) f).1⟩ _ true hk' hko'
  exact ⟨getCov_of_ne _ hnR _ k' hjd hk2 a b haJ hbk' hbJ,
    getCov_of_ne' _ hnR k' _ hk2 hjd b a hbk' haJ hbJ⟩


theorem firstDup_none_iff (seen ns : List String) :
    firstDup seen ns = none ↔ ns.Nodup ∧ ∀ x ∈ ns, x ∉ seen := by
  induction ns generalizing seen with
  | nil => simp [firstDup]
  | cons x l ih =>
    unfold firstDup
    by_cases hx : x ∈ seen
    · simp [hx]
    · simp only [List.contains_iff_mem, hx, if_false]
      rw [ih, List.nodup_cons]
      constructor
      · rintro ⟨h1, h2⟩
        refine ⟨⟨fun hxl => ?_, h1⟩, ?_⟩
        · exact h2 x hxl List.mem_cons_self
        · intro y hy
          cases hy with
          | head => exact hx
          | tail _ hy => exact fun hys => h2 y hy (List.mem_cons_of_mem _ hys)
      · rintro ⟨⟨h1, h2⟩, h3⟩
        refine ⟨h2, ?_⟩
        intro y hy hys
        cases hys with
        | head => exact h1 hy
        | tail _ hys => exact h3 y (List.mem_cons_of_mem _ hy) hys

/-- `RandomVariables.create` accepts exactly the collections with unique names. -/
theorem create_ok_iff' (dists : RVs α) : create dists = .ok dists ↔ (names dists).Nodup := by
  unfold create
  cases h : firstDup [] (names dists) with
  | none =>
    have := (firstDup_none_iff [] (names dists)).mp h
    simp [this.1]
  | some x =>
    have : ¬ (names dists).Nodup := by
      intro hn
      have := (firstDup_none_iff [] (names dists)).mpr ⟨hn, by simp⟩
      rw [h] at this; cases this
    simp [this]

theorem create_ok_eq (dists r : RVs α) (h : create dists = .ok r) : r = dists ∧ (names dists).Nodup := by
  unfold create at h
  cases hf : firstDup [] (names dists) with
  | none =>
    rw [hf] at h
    injection h with h
    exact ⟨h.symm, ((firstDup_none_iff [] _).mp hf).1⟩
  | some x => rw [hf] at h; cases h


theorem two_mul_tri (n : Nat) : 2 * (n * (n + 1) / 2) = n * (n + 1) := by
  have h : n * (n + 1) % 2 = 0 := by
    rcases Nat.mod_two_eq_zero_or_one n with h | h <;> simp [Nat.mul_mod, Nat.add_mod, h]
  omega

theorem sqrt_mul_succ (n : Nat) : Nat.sqrt (n * (n + 1)) = n := by
  have h1 := Nat.sqrt_le (n * (n + 1))
  have h2 := Nat.lt_succ_sqrt (n * (n + 1))
  generalize Nat.sqrt (n * (n + 1)) = s at *
  rcases Nat.lt_trichotomy s n with h | h | h
  · exfalso
    have : (s + 1) * (s + 1) ≤ n * n := Nat.mul_le_mul h h
    have : n * n ≤ n * (n + 1) := Nat.mul_le_mul_left n (Nat.le_succ n)
    simp only [Nat.succ_eq_add_one] at h2
    omega
  · exact h
  · exfalso
    have : (n + 1) * (n + 1) ≤ s * s := Nat.mul_le_mul h h
    have : n * (n + 1) < (n + 1) * (n + 1) := by
      exact Nat.mul_lt_mul_of_lt_of_le (Nat.lt_succ_self n) (Nat.le_refl (n + 1)) (Nat.succ_pos n)
    omega

theorem rowScale (si : Rat) (hsi : si ≠ 0) (row v : List Rat) (hlen : row.length ≤ v.length)
    (hv : ∀ x ∈ v, x ≠ 0) :
    (((row.zip v).map fun (x, vj) => if x = 0 then 0 else x / (si * vj)).zip v).map
        (fun (y, sj) => si * y * sj) = row := by
  induction row generalizing v with
  | nil => simp
  | cons x row ih =>
    match v, hlen, hv with
    | [], hlen, _ => simp at hlen
    | vj :: v, hlen, hv =>
      have hvj : vj ≠ 0 := hv vj List.mem_cons_self
      simp only [List.zip_cons_cons, List.map_cons]
      rw [ih v (by simpa using hlen) (fun y hy => hv y (List.mem_cons_of_mem _ hy))]
      congr 1
      by_cases hx : x = 0
      · simp [hx]
      · simp only [hx, if_false]
        grind


theorem corr2cov_cov2corr' (v : List Rat) (hv : ∀ x ∈ v, x ≠ 0) (C : List (List Rat))
    (hrows : C.length ≤ v.length) (hcols : ∀ row ∈ C, row.length ≤ v.length) :
    corr2cov (cov2corrWith v C) v = C := by
  unfold corr2cov cov2corrWith
  -- generalise the row scaling vector (it is consumed) while the column vector `v` stays
  suffices h : ∀ (w : List Rat), (∀ x ∈ w, x ≠ 0) → C.length ≤ w.length →
      (((C.zip w).map fun (row, vi) => (row.zip v).map fun (x, vj) => if x = 0 then 0 else x / (vi * vj)).zip w).map
        (fun (row, si) => (row.zip v).map fun (x, sj) => si * x * sj) = C from h v hv hrows
  clear hrows
  intro w
  induction C generalizing w with
  | nil => simp
  | cons row C ih =>
    intro hw hlen
    match w, hlen, hw with
    | [], hlen, _ => simp at hlen
    | si :: w, hlen, hw =>
      simp only [List.zip_cons_cons, List.map_cons]
      rw [ih (fun r hr => hcols r (List.mem_cons_of_mem _ hr)) w
        (fun y hy => hw y (List.mem_cons_of_mem _ hy)) (by simpa using hlen)]
      congr 1
      exact rowScale si (hw si List.mem_cons_self) row v (hcols row List.mem_cons_self) hv

variable {α : Type} [Zero α] [DecidableEq α]

theorem nearLoop_valid {β : Type} (ops : NearOps β) (A : β) (fuel : Nat) (A3 : β) (k : Nat) (R : β) (p : NearPath)
    (h : nearLoop ops A fuel A3 k = some (R, p)) : ops.isPsd R = true := by
  induction fuel generalizing A3 k with
  | zero => simp [nearLoop] at h
  | succ f ih =>
    unfold nearLoop at h
    by_cases hp : ops.isPsd A3 = true
    · simp [hp] at h
      rw [← h.1]; exact hp
    · simp [hp] at h
      exact ih _ _ h

theorem nearLoop_path {β : Type} (ops : NearOps β) (A : β) (fuel : Nat) (A3 : β) (k : Nat) (R : β) (p : NearPath)
    (h : nearLoop ops A fuel A3 k = some (R, p)) : ∃ k', p = .bumped k' := by
  induction fuel generalizing A3 k with
  | zero => simp [nearLoop] at h
  | succ f ih =>
    unfold nearLoop at h
    by_cases hp : ops.isPsd A3 = true
    · simp [hp] at h
      exact ⟨k, h.2.symm⟩
    · simp [hp] at h
      exact ih _ _ h

theorem validate_all {β : Type} (subst : List (List α) → β) (isPsd : β → Bool) (rvs : RVs α) :
    validate subst isPsd rvs = true ↔ ∀ d ∈ rvs, d.joint = true → isPsd (subst d.var) = true := by
  simp [validate, List.all_eq_true]
  constructor
  · intro h d hd hj
    rcases h d hd with h' | h'
    · rw [hj] at h'; cases h'
    · exact h'
  · intro h d hd
    cases hj : d.joint with
    | false => left; rfl
    | true => right; exact h d hd hj


theorem pickDist_names (d : Dist α) (p : String → Bool) : (pickDist d p).names = d.names.filter p := by
  unfold pickDist
  rw [← selIdx_map_fst p d.names]
  split
  · rename_i x hx; simp [normal, hx]
  · rfl

theorem pickDist_cov (d : Dist α) (hj : d.joint = true) (hn : d.names.Nodup) (p : String → Bool) {a b : String}
    (ha : a ∈ d.names) (hb : b ∈ d.names) (hpa : p a = true) (hpb : p b = true) :
    (pickDist d p).getCov a b = d.getCov a b := by
  obtain ⟨i', ma, hia, hma, hda, _⟩ := selIdx_pos hn p ha hpa
  obtain ⟨j', mb, hjb, hmb, hdb, _⟩ := selIdx_pos hn p hb hpb
  rw [getCov_joint d hj a b ma mb hda hdb]
  unfold pickDist
  generalize selIdx p d.names = sel at *
  match sel with
  | [] => simp at hia
  | [x] =>
    simp only [List.map_cons, List.map_nil, List.idxOf?_singleton] at hia hjb hma hmb
    have hxa : x.1 = a := by
      by_cases h : x.1 = a
      · exact h
      · simp [h] at hia
    have hxb : x.1 = b := by
      by_cases h : x.1 = b
      · exact h
      · simp [h] at hjb
    have hi0 : i' = 0 := by simp [hxa] at hia; omega
    have hj0 : j' = 0 := by simp [hxb] at hjb; omega
    subst hi0 hj0
    simp at hma hmb
    subst hma hmb
    subst hxa
    simp [normal, Dist.getCov, ent, ← hxb]
  | x :: y :: l =>
    simp only
    rw [getCov_joint _ rfl a b i' j' hia hjb, ent_subMat _ _ _ _ _ _ hma hmb]

theorem distGetitem_ok {d : Dist α} {index : List String} {res : Dist α} (h : distGetitem d index = .ok res) :
    res = d ∨ res = pickDist d (index.eraseDups.contains ·) := by
  unfold distGetitem at h
  split at h
  · cases h
  · split at h
    · cases h
    · split at h
      · injection h with h; exact Or.inl h.symm
      · injection h with h; exact Or.inr h.symm


theorem names_map_subs (fe : α → α) (fn : String → String) (r : RVs α) :
    names (r.map (subsDist fe fn)) = (names r).map fn := by
  induction r with
  | nil => rfl
  | cons d r ih => simp [names_cons, ih, subsDist]

theorem idxOf?_map_inj (fn : String → String) (ns : List String) (a : String)
    (hinj : ∀ x ∈ ns, fn x = fn a → x = a) : (ns.map fn).idxOf? (fn a) = ns.idxOf? a := by
  induction ns with
  | nil => rfl
  | cons x l ih =>
    simp only [List.map_cons, List.idxOf?_cons]
    have ih' := ih (fun y hy => hinj y (List.mem_cons_of_mem _ hy))
    by_cases hx : x = a
    · subst hx; simp
    · have : ¬ fn x = fn a := fun h => hx (hinj x List.mem_cons_self h)
      simp [hx, this, ih']

theorem ent_map (fe : α → α) (M : List (List α)) (i j : Nat) (hi : i < M.length)
    (hj : j < (M.getD i []).length) : ent (M.map (·.map fe)) i j = fe (ent M i j) := by
  simp only [ent, List.getD_eq_getElem?_getD] at hj ⊢
  simp [hi] at hj ⊢
  simp [hj]


theorem subs_ok {fe : α → α} {fn : String → String} {r res : RVs α} (h : subs fe fn r = .ok res) :
    res = r.map (subsDist fe fn) ∧ (names res).Nodup := by
  unfold subs at h
  obtain ⟨h1, h2⟩ := create_ok_eq _ _ h
  exact ⟨h1, by rw [h1]; exact h2⟩

/-- `subs`: the covariance of two variables of one (rectangular) block is the substituted old one,
    under the new names, when the renaming does not merge names. -/
theorem subs_cov_same' {fe : α → α} {fn : String → String} {r res : RVs α} (h : subs fe fn r = .ok res)
    (hinj : ∀ x ∈ names r, ∀ y ∈ names r, fn x = fn y → x = y) {d : Dist α} (hd : d ∈ r)
    (hsq : Square d) (hrows : d.var.length = d.names.length) (hrect : ∀ row ∈ d.var, row.length = d.names.length)
    {a b : String} (ha : a ∈ d.names) (hb : b ∈ d.names) :
    ∃ v, d.getCov a b = .ok v ∧ getCov res (fn a) (fn b) = .ok (fe v) := by
  obtain ⟨hres, hnd⟩ := subs_ok h
  have hdm : subsDist fe fn d ∈ res := by rw [hres]; exact List.mem_map.mpr ⟨d, hd, rfl⟩
  have han : fn a ∈ (subsDist fe fn d).names := List.mem_map.mpr ⟨a, ha, rfl⟩
  have hbn : fn b ∈ (subsDist fe fn d).names := List.mem_map.mpr ⟨b, hb, rfl⟩
  rw [getCov_of_mem res hnd _ hdm _ _ han hbn, dist_getCov_idx d hsq ha hb]
  refine ⟨_, rfl, ?_⟩
  have hsub : ∀ x ∈ d.names, x ∈ names r := fun x hx => mem_names.mpr ⟨d, hd, hx⟩
  have hia := idxOf?_map_inj fn d.names a (fun x hx hxa => hinj x (hsub x hx) a (hsub a ha) hxa)
  have hib := idxOf?_map_inj fn d.names b (fun x hx hxb => hinj x (hsub x hx) b (hsub b hb) hxb)
  rw [idxOf?_eq_idxOf ha] at hia
  rw [idxOf?_eq_idxOf hb] at hib
  have hi := List.idxOf_lt_length_of_mem ha
  have hj := List.idxOf_lt_length_of_mem hb
  have hrow : (d.var.getD (d.names.idxOf a) []).length = d.names.length := by
    apply hrect
    rw [List.getD_eq_getElem?_getD, List.getElem?_eq_getElem (by omega)]
    simp
  by_cases hjn : d.joint = true
  · rw [getCov_joint _ (by simpa [subsDist] using hjn) _ _ _ _ hia hib]
    congr 1
    simp only [subsDist]
    exact ent_map fe d.var _ _ (by omega) (by omega)
  · have hsq' := hsq
    simp only [Square, hjn] at hsq'
    simp only [Bool.false_eq_true, if_false] at hsq'
    match hnm : d.names, hsq' with
    | [n], _ =>
      rw [hnm] at ha hb hrow hrows
      have ha' : a = n := by simpa using ha
      have hb' : b = n := by simpa using hb
      rw [ha'] at hrow
      rw [ha', hb']
      simp only [Dist.getCov, subsDist, hjn, hnm]
      simp only [Bool.false_eq_true, if_false, List.map_cons, List.map_nil, and_self, if_true]
      congr 1
      have e0 : List.idxOf n [n] = 0 := by simp
      rw [e0] at hrow ⊢
      have h1 : 0 < d.var.length := by rw [hrows]; simp
      have h2 : 0 < (d.var.getD 0 []).length := by rw [hrow]; simp
      exact ent_map fe d.var 0 0 h1 h2


def SymM (M : Mat α) : Prop := ∀ r c, M r c = M c r

/-- One step of the `name_template` loop. -/
def nameStep (nm : Nat → Nat → Option α) (acc : Mat α × List (Nat × Nat)) (rc : Nat × Nat) :
    Mat α × List (Nat × Nat) :=
  if acc.1 rc.1 rc.2 = 0 ∧ rc.1 > rc.2 then
    let s := (nm rc.2 rc.1).getD 0
    (setM (setM acc.1 rc.1 rc.2 s) rc.2 rc.1 s, acc.2 ++ [rc])
  else acc

theorem nameMat_eq (nm : Nat → Nat → Option α) (n : Nat) (M : Mat α) :
    nameMat nm n M = (pairs n).foldl (nameStep nm) (M, []) := rfl

theorem nameStep_inv (nm : Nat → Nat → Option α) (M : Mat α) (acc : Mat α × List (Nat × Nat)) (rc : Nat × Nat)
    (h1 : SymM acc.1) (h2 : ∀ r c, M r c ≠ 0 → acc.1 r c = M r c) :
    SymM (nameStep nm acc rc).1 ∧ ∀ r c, M r c ≠ 0 → (nameStep nm acc rc).1 r c = M r c := by
  unfold nameStep
  by_cases hc : acc.1 rc.1 rc.2 = 0 ∧ rc.1 > rc.2
  · rw [if_pos hc]
    simp only
    constructor
    · intro r c
      simp only [setM]
      by_cases e1 : r = rc.2 ∧ c = rc.1
      · have e1' : c = rc.1 ∧ r = rc.2 := ⟨e1.2, e1.1⟩
        by_cases e2 : c = rc.2 ∧ r = rc.1
        · simp [e1, e2]
        · simp [e1, e2, e1']
      · by_cases e2 : r = rc.1 ∧ c = rc.2
        · have e2' : c = rc.2 ∧ r = rc.1 := ⟨e2.2, e2.1⟩
          simp [e1, e2, e2']
        · have e3 : ¬ (c = rc.2 ∧ r = rc.1) := fun h => e2 ⟨h.2, h.1⟩
          have e4 : ¬ (c = rc.1 ∧ r = rc.2) := fun h => e1 ⟨h.2, h.1⟩
          simp [e1, e2, e3, e4, h1 r c]
    · intro r c hne
      simp only [setM]
      have hacc := h2 r c hne
      by_cases e1 : r = rc.2 ∧ c = rc.1
      · exfalso
        have : acc.1 rc.2 rc.1 = 0 := by rw [h1 rc.2 rc.1]; exact hc.1
        rw [e1.1, e1.2] at hacc hne
        exact hne (hacc ▸ this)
      · by_cases e2 : r = rc.1 ∧ c = rc.2
        · exfalso
          rw [e2.1, e2.2] at hacc hne
          exact hne (hacc ▸ hc.1)
        · simp [e1, e2, hacc]
  · rw [if_neg hc]; exact ⟨h1, h2⟩

theorem nameMat_inv (nm : Nat → Nat → Option α) (n : Nat) (M : Mat α) (hs : SymM M) :
    SymM (nameMat nm n M).1 ∧ ∀ r c, M r c ≠ 0 → (nameMat nm n M).1 r c = M r c := by
  rw [nameMat_eq]
  suffices h : ∀ (L : List (Nat × Nat)) (acc : Mat α × List (Nat × Nat)), SymM acc.1 →
      (∀ r c, M r c ≠ 0 → acc.1 r c = M r c) →
      SymM (L.foldl (nameStep nm) acc).1 ∧ ∀ r c, M r c ≠ 0 → (L.foldl (nameStep nm) acc).1 r c = M r c from
    h (pairs n) (M, []) hs (fun _ _ _ => rfl)
  intro L
  induction L with
  | nil => intro acc h1 h2; exact ⟨h1, h2⟩
  | cons rc L ih =>
    intro acc h1 h2
    simp only [List.foldl_cons]
    obtain ⟨h1', h2'⟩ := nameStep_inv nm M acc rc h1 h2
    exact ih _ h1' h2'


/-- Every block is a symmetric matrix. -/
def SymBlocks (r : RVs α) : Prop := ∀ d ∈ r, ∀ i j, ent d.var i j = ent d.var j i

theorem ent_subMat_gen (M : List (List α)) (idx : List Nat) (i j : Nat) :
    ent (subMat M idx) i j = match idx[i]?, idx[j]? with
      | some a, some b => ent M a b
      | _, _ => 0 := by
  simp only [ent, subMat, List.getD_eq_getElem?_getD, List.getElem?_map]
  cases hi : idx[i]? <;> cases hj : idx[j]? <;> simp [hj]

theorem subMat_sym (M : List (List α)) (idx : List Nat) (h : ∀ i j, ent M i j = ent M j i) (i j : Nat) :
    ent (subMat M idx) i j = ent (subMat M idx) j i := by
  rw [ent_subMat_gen, ent_subMat_gen]
  cases hi : idx[i]? <;> cases hj : idx[j]? <;> simp [h]

theorem ent_single_sym (v : α) (i j : Nat) : ent [[v]] i j = ent [[v]] j i := by
  match i, j with
  | 0, 0 => rfl
  | 0, j + 1 => simp [ent]
  | i + 1, 0 => simp [ent]
  | i + 1, j + 1 => simp [ent]

theorem unjoinDist_sym (inds : List String) (d : Dist α) (hd : ∀ i j, ent d.var i j = ent d.var j i) :
    ∀ k ∈ unjoinDist inds d, ∀ i j, ent k.var i j = ent k.var j i := by
  intro k hk
  cases ht : touched inds d with
  | false =>
    rw [unjoinDist_untouched ht] at hk
    simp at hk; subst hk; exact hd
  | true =>
    have hta : touched inds d = (d.joint && d.names.any (inds.contains ·)) := rfl
    unfold unjoinDist at hk
    rw [← hta, ht] at hk
    simp only [if_true] at hk
    rcases List.mem_append.mp hk with h | h
    · obtain ⟨x, _, rfl⟩ := List.mem_map.mp h
      exact ent_single_sym _
    · generalize selIdx (fun n => !inds.contains n) d.names = kept at *
      match kept with
      | [] => simp at h
      | [x] => simp at h; subst h; exact ent_single_sym _
      | x :: y :: l =>
        simp at h; subst h
        exact subMat_sym _ _ hd

theorem getitem_sym {r : RVs α} (hq : SymBlocks r) (ind : List String) : SymBlocks (getitem r ind) := by
  intro k hk
  have := (List.mem_filter.mp hk).1
  obtain ⟨d, hd, hkd⟩ := mem_unjoin.mp this
  exact unjoinDist_sym _ d (hq d hd) k hkd

theorem blockDiagF_sym (bs : List (Nat × List (List α))) (h : ∀ b ∈ bs, ∀ i j, ent b.2 i j = ent b.2 j i)
    (r c : Nat) (z : α) : blockDiagF bs r c z = blockDiagF bs c r z := by
  induction bs generalizing r c with
  | nil => rfl
  | cons b bs ih =>
    obtain ⟨k, V⟩ := b
    simp only [blockDiagF]
    have hV := h (k, V) List.mem_cons_self
    have ih' := ih (fun b hb => h b (List.mem_cons_of_mem _ hb))
    by_cases h1 : r < k ∧ c < k
    · rw [if_pos h1, if_pos ⟨h1.2, h1.1⟩]; exact hV r c
    · rw [if_neg h1, if_neg (show ¬(c < k ∧ r < k) from fun h' => h1 ⟨h'.2, h'.1⟩)]
      by_cases h2 : r < k ∨ c < k
      · rw [if_pos h2, if_pos (show c < k ∨ r < k from h2.symm)]
      · rw [if_neg h2, if_neg (show ¬(c < k ∨ r < k) from fun h' => h2 h'.symm)]
        exact ih' _ _

theorem calcMat_sym (r : RVs α) (hq : ∀ d ∈ r, Square d) (hs : SymBlocks r) : SymM (calcMat r) := by
  intro i j
  rw [calcMat_apply r hq, calcMat_apply r hq]
  apply blockDiagF_sym
  intro b hb
  obtain ⟨d, hd, rfl⟩ := List.mem_map.mp hb
  exact hs d hd

/-- `join(inds, name_template=…)`: an existing non-zero covariance (or variance) between joined
    variables is kept (blocks symmetric). -/
theorem join_cov_inside_template' {r : RVs α} (hn : (names r).Nodup) (hq : ∀ d ∈ r, Square d)
    (hsym : SymBlocks r) {inds : List String} {nm : Nat → Nat → Option α} {res : JoinResult α}
    (h : join r inds (.template nm) = .ok res)
    {a b : String} (ha : a ∈ names r) (hb : b ∈ names r) (hai : a ∈ inds) (hbi : b ∈ inds)
    {v : α} (hv : getCov r a b = .ok v) (hv0 : v ≠ 0) : getCov res.rvs a b = .ok v := by
  have hs := singles_of_square hq
  have hnR : (names res.rvs).Nodup := (join_names_perm' hs h).nodup_iff.mpr hn
  obtain ⟨_, j0, rest, _, hres⟩ := join_ok h (fun e => by rw [e] at hai; cases hai)
  have hnames := getitem_names' r hs inds
  have haJ : a ∈ names (getitem r inds) := by rw [hnames]; simp [ha, hai]
  have hbJ : b ∈ names (getitem r inds) := by rw [hnames]; simp [hb, hbi]
  have hqJ := getitem_square hq inds
  have hcov := blockDiag_getCov (getitem r inds) hqJ haJ hbJ
  rw [getitem_cov' hn hs inds ha hb hai hbi, hv] at hcov
  injection hcov with hcov
  rw [hres] at hnR ⊢
  have hjd := jd_mem_of_ind (r := r) inds
    ⟨names (getitem r inds), j0.level, true, (getitem r inds).flatMap (·.mean),
      (joinMatrix (getitem r inds) (.template nm)).1⟩ ha hai
  rw [getCov_of_mem _ hnR _ hjd a b haJ hbJ]
  rw [getCov_joint _ rfl a b _ _ (idxOf?_eq_idxOf haJ) (idxOf?_eq_idxOf hbJ)]
  have hi := List.idxOf_lt_length_of_mem haJ
  have hj := List.idxOf_lt_length_of_mem hbJ
  rw [← nrvs_eq_length] at hi hj
  congr 1
  simp only [joinMatrix]
  rw [ent_tabulate _ _ _ _ hi hj]
  have hinv := (nameMat_inv nm (nrvs (getitem r inds)) (calcMat (getitem r inds))
    (calcMat_sym _ hqJ (getitem_sym hsym inds))).2
  have hM : calcMat (getitem r inds) (List.idxOf a (names (getitem r inds))) (List.idxOf b (names (getitem r inds))) = v := by
    rw [calcMat_apply _ hqJ]; exact hcov.symm
  rw [hinv _ _ (by rw [hM]; exact hv0), hM]


theorem applyF_cons (f : Dict) (p : String × Rat) (A : List (String × Rat)) :
    applyF f (p :: A) = applyF (fupd f p.1 p.2) A := rfl

theorem applyF_of_agree (A : List (String × Rat)) (s : String) (v : Rat)
    (hag : ∀ p ∈ A, p.1 = s → p.2 = v) :
    ∀ f : Dict, (f s = some v ∨ ∃ p ∈ A, p.1 = s) → applyF f A s = some v := by
  induction A with
  | nil =>
    intro f h
    rcases h with h | ⟨p, hp, _⟩
    · exact h
    · cases hp
  | cons p A ih =>
    intro f h
    rw [applyF_cons]
    apply ih (fun q hq => hag q (List.mem_cons_of_mem _ hq))
    by_cases hp : p.1 = s
    · left
      simp [fupd, hp, hag p List.mem_cons_self hp]
    · have hsp : ¬ s = p.1 := fun e => hp e.symm
      rcases h with h | ⟨q, hq, hqs⟩
      · left; simp [fupd, hsp, h]
      · cases hq with
        | head => exact absurd hqs hp
        | tail _ hq => right; exact ⟨q, hq, hqs⟩

theorem applyF_not_assigned (A : List (String × Rat)) (s : String) (h : ∀ p ∈ A, p.1 ≠ s) :
    ∀ f : Dict, applyF f A s = f s := by
  induction A with
  | nil => intro f; rfl
  | cons p A ih =>
    intro f
    rw [applyF_cons, ih (fun q hq => h q (List.mem_cons_of_mem _ hq))]
    have : ¬ s = p.1 := fun e => h p List.mem_cons_self e.symm
    simp [fupd, this]

theorem agree_spec {A : List (String × Rat)} (h : agree A = true) :
    ∀ p ∈ A, ∀ q ∈ A, p.1 = q.1 → p.2 = q.2 := by
  intro p hp q hq hpq
  simp only [agree, List.all_eq_true] at h
  have := h p hp q hq
  simp [hpq] at this
  exact this

theorem mem_positions {d : Dist Entry} {i j : Nat} :
    (i, j) ∈ positions d ↔ i < matRows d.var ∧ j < matCols d.var := by
  simp [positions, List.mem_flatMap]

theorem sdcorr_ok {sqrt : Rat → Rat} {vals : Dict} {rvs : RVs Entry} {F : Dict}
    (h : sdcorr sqrt vals rvs = .ok F) :
    F = applyF vals (rvs.flatMap (sdcorrAsg sqrt vals)) ∧ ∀ d ∈ rvs, sdcorrErr vals d = none := by
  unfold sdcorr at h
  cases hf : rvs.findSome? (sdcorrErr vals) with
  | some e => rw [hf] at h; cases h
  | none =>
    rw [hf] at h
    injection h with h
    refine ⟨h.symm, ?_⟩
    intro d hd
    exact List.findSome?_eq_none_iff.mp hf d hd

theorem asg_mem_joint {sqrt : Rat → Rat} {vals : Dict} {d : Dist Entry} (hj : d.joint = true) {i j : Nat}
    (hp : (i, j) ∈ positions d) {s : String} (hs : symAt d i j = some s) :
    (s, fwdVal sqrt vals d i j) ∈ sdcorrAsg sqrt vals d := by
  simp only [sdcorrAsg, hj, if_true]
  exact List.mem_filterMap.mpr ⟨(i, j), hp, by simp [hs]⟩

/-- With every parameter assigned one value only, the result holds `fwdVal` (computed from the
    original values) for the symbol at every position of every joint block. -/
theorem sdcorr_value_joint {sqrt : Rat → Rat} {vals : Dict} {rvs : RVs Entry} {F : Dict}
    (h : sdcorr sqrt vals rvs = .ok F) (hag : agree (rvs.flatMap (sdcorrAsg sqrt vals)) = true)
    {d : Dist Entry} (hd : d ∈ rvs) (hj : d.joint = true) {i j : Nat} (hp : (i, j) ∈ positions d)
    {s : String} (hs : symAt d i j = some s) : F s = some (fwdVal sqrt vals d i j) := by
  obtain ⟨hF, _⟩ := sdcorr_ok h
  have hm : (s, fwdVal sqrt vals d i j) ∈ rvs.flatMap (sdcorrAsg sqrt vals) :=
    List.mem_flatMap.mpr ⟨d, hd, asg_mem_joint hj hp hs⟩
  rw [hF]
  apply applyF_of_agree
  · intro q hq hqs
    exact (agree_spec hag q hq _ hm hqs)
  · right; exact ⟨_, hm, rfl⟩


/-- The converted value of every parameter depends only on the original values, not on the order
    of the distributions (given that no parameter is assigned two different values). -/
theorem sdcorr_order_independent' {sqrt : Rat → Rat} {vals : Dict} {rvs rvs' : RVs Entry} {F F' : Dict}
    (hperm : rvs'.Perm rvs) (h : sdcorr sqrt vals rvs = .ok F) (h' : sdcorr sqrt vals rvs' = .ok F')
    (hag : agree (rvs.flatMap (sdcorrAsg sqrt vals)) = true) (s : String) : F' s = F s := by
  obtain ⟨hF, _⟩ := sdcorr_ok h
  obtain ⟨hF', _⟩ := sdcorr_ok h'
  have hmem : ∀ p, p ∈ rvs'.flatMap (sdcorrAsg sqrt vals) ↔ p ∈ rvs.flatMap (sdcorrAsg sqrt vals) := by
    intro p
    simp only [List.mem_flatMap]
    constructor
    · rintro ⟨d, hd, hp⟩; exact ⟨d, hperm.mem_iff.mp hd, hp⟩
    · rintro ⟨d, hd, hp⟩; exact ⟨d, hperm.mem_iff.mpr hd, hp⟩
  rw [hF, hF']
  by_cases hex : ∃ p ∈ rvs.flatMap (sdcorrAsg sqrt vals), p.1 = s
  · obtain ⟨p, hp, hps⟩ := hex
    rw [applyF_of_agree _ s p.2 (fun q hq hqs => agree_spec hag q hq p hp (hqs.trans hps.symm)) vals
        (Or.inr ⟨p, hp, hps⟩),
      applyF_of_agree _ s p.2 (fun q hq hqs => agree_spec hag q ((hmem q).mp hq) p hp (hqs.trans hps.symm)) vals
        (Or.inr ⟨p, (hmem p).mpr hp, hps⟩)]
  · have hno : ∀ p ∈ rvs.flatMap (sdcorrAsg sqrt vals), p.1 ≠ s := fun p hp e => hex ⟨p, hp, e⟩
    rw [applyF_not_assigned _ s hno, applyF_not_assigned _ s (fun p hp => hno p ((hmem p).mp hp))]

theorem symAt_ent {d : Dist Entry} {i j : Nat} {s : String} (h : symAt d i j = some s) : ent d.var i j = .sym s := by
  unfold symAt at h
  cases he : ent d.var i j with
  | sym t => rw [he] at h; injection h with h; rw [h]
  | num q => rw [he] at h; cases h

theorem valAt_sym {D : Dict} {d : Dist Entry} {i j : Nat} {s : String} (h : symAt d i j = some s) :
    valAt D d i j = (D s).getD 0 := by
  simp [valAt, symAt_ent h]

/-- Shape and square-root hypotheses of the inverse theorem. -/
structure SdOk (sqrt : Rat → Rat) (vals : Dict) (rvs : RVs Entry) : Prop where
  square : ∀ d ∈ rvs, d.joint = true → matRows d.var = matCols d.var
  sq_joint : ∀ d ∈ rvs, d.joint = true → ∀ i, i < matRows d.var →
    sqrt (valAt vals d i i) * sqrt (valAt vals d i i) = valAt vals d i i ∧ sqrt (valAt vals d i i) ≠ 0
  sq_normal : ∀ d ∈ rvs, d.joint = false → ∀ s a, ent d.var 0 0 = .sym s → vals s = some a → sqrt a * sqrt a = a

theorem err_none_joint {vals : Dict} {d : Dist Entry} (hj : d.joint = true) (h : sdcorrErr vals d = none)
    {i j : Nat} (hp : (i, j) ∈ positions d) : hasVal vals d i j = true ∧ ∃ s, symAt d i j = some s := by
  simp only [sdcorrErr, hj, if_true] at h
  by_cases h1 : ((positions d).any fun p => !hasVal vals d p.1 p.2) = true
  · rw [if_pos h1] at h; cases h
  · rw [if_neg h1] at h
    by_cases h2 : ((positions d).any fun p => (symAt d p.1 p.2).isNone) = true
    · rw [if_pos h2] at h; cases h
    · simp only [List.any_eq_true, not_exists, not_and] at h1 h2
      have a1 := h1 (i, j) hp
      have a2 := h2 (i, j) hp
      refine ⟨by simpa using a1, ?_⟩
      cases hs : symAt d i j with
      | none => simp [hs] at a2
      | some s => exact ⟨s, rfl⟩

/-- A parameter that is assigned has a value in the original dictionary. -/
theorem asg_name_has_val {sqrt : Rat → Rat} {vals : Dict} {d : Dist Entry} (herr : sdcorrErr vals d = none)
    {p : String × Rat} (hp : p ∈ sdcorrAsg sqrt vals d) : (vals p.1).isSome = true := by
  by_cases hj : d.joint = true
  · simp only [sdcorrAsg, hj, if_true] at hp
    obtain ⟨⟨i, j⟩, hpos, hmap⟩ := List.mem_filterMap.mp hp
    obtain ⟨hv, s, hs⟩ := err_none_joint hj herr hpos
    simp only [hs, Option.map_some] at hmap
    injection hmap with hmap
    rw [← hmap]
    simpa [hasVal, symAt_ent hs] using hv
  · have hj' : d.joint = false := by simpa using hj
    simp only [sdcorrAsg, hj'] at hp
    simp only [Bool.false_eq_true, if_false] at hp
    cases he : ent d.var 0 0 with
    | num q => simp [he] at hp
    | sym s =>
      simp only [he] at hp
      by_cases hv : (vals s).isSome = true
      · simp only [hv, if_true, List.mem_singleton] at hp
        rw [hp]; exact hv
      · simp [hv] at hp

/-- Every assignment of the inverse conversion restores the original value. -/
theorem inv_asg_restores {sqrt : Rat → Rat} {vals : Dict} {rvs : RVs Entry} {F : Dict}
    (h : sdcorr sqrt vals rvs = .ok F) (hag : agree (rvs.flatMap (sdcorrAsg sqrt vals)) = true)
    (hok : SdOk sqrt vals rvs) {d : Dist Entry} (hd : d ∈ rvs) :
    ∀ p ∈ sdcorrInvAsg F d, vals p.1 = some p.2 := by
  obtain ⟨hF, herr⟩ := sdcorr_ok h
  intro p hp
  by_cases hj : d.joint = true
  · simp only [sdcorrInvAsg, hj, if_true] at hp
    obtain ⟨⟨i, j⟩, hpos, hmap⟩ := List.mem_filterMap.mp hp
    obtain ⟨hv, s, hs⟩ := err_none_joint hj (herr d hd) hpos
    simp only [hs, Option.map_some] at hmap
    injection hmap with hmap
    rw [← hmap]
    obtain ⟨hi, hjj⟩ := mem_positions.mp hpos
    have hsq := hok.square d hd hj
    have hpi : (i, i) ∈ positions d := mem_positions.mpr ⟨hi, by omega⟩
    have hpj : (j, j) ∈ positions d := mem_positions.mpr ⟨by omega, hjj⟩
    obtain ⟨_, si, hsi⟩ := err_none_joint hj (herr d hd) hpi
    obtain ⟨_, sj, hsj⟩ := err_none_joint hj (herr d hd) hpj
    have vij := sdcorr_value_joint h hag hd hj hpos hs
    have vii := sdcorr_value_joint h hag hd hj hpi hsi
    have vjj := sdcorr_value_joint h hag hd hj hpj hsj
    -- the original value of s
    have hvs : vals s = some (valAt vals d i j) := by
      have he := symAt_ent hs
      simp only [hasVal, he] at hv
      simp only [valAt, he]
      cases hvv : vals s with
      | none => simp [hvv] at hv
      | some a => rfl
    simp only
    rw [hvs]
    congr 1
    obtain ⟨qi, ni⟩ := hok.sq_joint d hd hj i hi
    obtain ⟨qj, nj⟩ := hok.sq_joint d hd hj j (by omega)
    unfold invVal
    rw [valAt_sym (D := F) hs, valAt_sym (D := F) hsi, valAt_sym (D := F) hsj, vij, vii, vjj]
    simp only [Option.getD_some]
    by_cases hij : i = j
    · subst hij
      simp only [fwdVal, ne_eq, not_true_eq_false, if_false]
      exact qi.symm
    · simp only [fwdVal, ne_eq, hij, not_false_eq_true, if_true, not_true_eq_false, if_false]
      by_cases hz : valAt vals d i j = 0
      · simp [hz]
      · simp only [hz, if_false]
        generalize sqrt (valAt vals d i i) = a at *
        generalize sqrt (valAt vals d j j) = b at *
        generalize valAt vals d i j = x at *
        grind
  · have hj' : d.joint = false := by simpa using hj
    simp only [sdcorrInvAsg, hj'] at hp
    simp only [Bool.false_eq_true, if_false] at hp
    cases he : ent d.var 0 0 with
    | num q => simp [he] at hp
    | sym s =>
      simp only [he] at hp
      by_cases hFs : (F s).isSome = true
      · simp only [hFs, if_true, List.mem_singleton] at hp
        rw [hp]
        -- F s comes from vals s: the forward step assigned sqrt (vals s) when vals s is some
        cases hvs : vals s with
        | none =>
          -- then nothing assigns s … F s would be none unless another distribution assigns it
          exfalso
          have hno : ∀ q ∈ rvs.flatMap (sdcorrAsg sqrt vals), q.1 ≠ s := by
            intro q hq hqs
            obtain ⟨e, he', hqe⟩ := List.mem_flatMap.mp hq
            have := asg_name_has_val (herr e he') hqe
            rw [hqs, hvs] at this
            cases this
          rw [hF, applyF_not_assigned _ s hno, hvs] at hFs
          cases hFs
        | some a =>
          have hm : (s, sqrt a) ∈ rvs.flatMap (sdcorrAsg sqrt vals) := by
            refine List.mem_flatMap.mpr ⟨d, hd, ?_⟩
            simp [sdcorrAsg, hj', he, hvs]
          have hFs' : F s = some (sqrt a) := by
            rw [hF]
            exact applyF_of_agree _ s _ (fun q hq hqs => agree_spec hag q hq _ hm hqs) vals (Or.inr ⟨_, hm, rfl⟩)
          simp only [hFs', Option.getD_some]
          congr 1
          exact (hok.sq_normal d hd hj' s a he hvs).symm
      · simp [hFs] at hp

theorem inv_names_of_fwd {sqrt : Rat → Rat} {vals : Dict} {rvs : RVs Entry} {F : Dict}
    (h : sdcorr sqrt vals rvs = .ok F) (hag : agree (rvs.flatMap (sdcorrAsg sqrt vals)) = true)
    {s : String} (hfw : ∃ p ∈ rvs.flatMap (sdcorrAsg sqrt vals), p.1 = s) :
    ∃ q ∈ rvs.flatMap (sdcorrInvAsg F), q.1 = s := by
  obtain ⟨hF, herr⟩ := sdcorr_ok h
  obtain ⟨p, hp, hps⟩ := hfw
  obtain ⟨d, hd, hpd⟩ := List.mem_flatMap.mp hp
  by_cases hj : d.joint = true
  · simp only [sdcorrAsg, hj, if_true] at hpd
    obtain ⟨⟨i, j⟩, hpos, hmap⟩ := List.mem_filterMap.mp hpd
    cases hs : symAt d i j with
    | none => simp [hs] at hmap
    | some t =>
      simp only [hs, Option.map_some] at hmap
      injection hmap with hmap
      refine ⟨(t, invVal F d i j), List.mem_flatMap.mpr ⟨d, hd, ?_⟩, ?_⟩
      · simp only [sdcorrInvAsg, hj, if_true]
        exact List.mem_filterMap.mpr ⟨(i, j), hpos, by simp [hs]⟩
      · rw [← hps, ← hmap]
  · have hj' : d.joint = false := by simpa using hj
    simp only [sdcorrAsg, hj'] at hpd
    simp only [Bool.false_eq_true, if_false] at hpd
    cases he : ent d.var 0 0 with
    | num q => simp [he] at hpd
    | sym t =>
      simp only [he] at hpd
      by_cases hv : (vals t).isSome = true
      · simp only [hv, if_true, List.mem_singleton] at hpd
        have hFt : F t = some p.2 := by
          rw [hF]
          refine applyF_of_agree _ t _ (fun q hq hqs => agree_spec hag q hq p hp (by rw [hqs, hpd])) vals
            (Or.inr ⟨p, hp, by rw [hpd]⟩)
        refine ⟨(t, (F t).getD 0 * (F t).getD 0), List.mem_flatMap.mpr ⟨d, hd, ?_⟩, ?_⟩
        · simp [sdcorrInvAsg, hj', he, hFt]
        · rw [← hps, hpd]
      · simp [hv] at hpd

/-- `sdcorr⁻¹ ∘ sdcorr = id`, also when parameters are shared between distributions. -/
theorem sdcorr_inverse' {sqrt : Rat → Rat} {vals : Dict} {rvs : RVs Entry} {F : Dict}
    (h : sdcorr sqrt vals rvs = .ok F) (hag : agree (rvs.flatMap (sdcorrAsg sqrt vals)) = true)
    (hok : SdOk sqrt vals rvs) (s : String) : sdcorrInv F rvs s = vals s := by
  obtain ⟨hF, _⟩ := sdcorr_ok h
  have hrest : ∀ p ∈ rvs.flatMap (sdcorrInvAsg F), vals p.1 = some p.2 := by
    intro p hp
    obtain ⟨d, hd, hpd⟩ := List.mem_flatMap.mp hp
    exact inv_asg_restores h hag hok hd p hpd
  unfold sdcorrInv
  by_cases hex : ∃ p ∈ rvs.flatMap (sdcorrInvAsg F), p.1 = s
  · obtain ⟨p, hp, hps⟩ := hex
    have hv := hrest p hp
    rw [hps] at hv
    rw [hv]
    apply applyF_of_agree
    · intro q hq hqs
      have := hrest q hq
      rw [hqs, hv] at this
      injection this with this
      exact this.symm
    · right; exact ⟨p, hp, hps⟩
  · have hno : ∀ p ∈ rvs.flatMap (sdcorrInvAsg F), p.1 ≠ s := fun p hp e => hex ⟨p, hp, e⟩
    rw [applyF_not_assigned _ s hno, hF]
    apply applyF_not_assigned
    intro p hp e
    exact hex (inv_names_of_fwd h hag ⟨p, hp, e⟩)

section selection
variable {α : Type} [Zero α] [DecidableEq α]


theorem nodup_eraseDups (l : List String) : l.eraseDups.Nodup := by
  suffices h : ∀ n (l : List String), l.length ≤ n → l.eraseDups.Nodup from h l.length l (Nat.le_refl _)
  intro n
  induction n with
  | zero =>
    intro l hl
    have : l = [] := List.length_eq_zero_iff.mp (Nat.le_zero.mp hl)
    subst this; simp
  | succ n ih =>
    intro l hl
    cases l with
    | nil => simp
    | cons a as =>
      rw [List.eraseDups_cons, List.nodup_cons]
      refine ⟨?_, ih _ ?_⟩
      · rw [List.mem_eraseDups]
        simp
      · have := List.length_filter_le (fun b => !b == a) as
        simp at hl
        omega

/-- Two lists with the same members have duplicate-free forms of the same length (`len(set(index))`). -/
theorem eraseDups_length_of_same_mem {l l' : List String} (h : ∀ x, x ∈ l ↔ x ∈ l') :
    l.eraseDups.length = l'.eraseDups.length := by
  apply Nat.le_antisymm
  · apply List.Nodup.length_le_of_subset (nodup_eraseDups l)
    intro x hx
    exact List.mem_eraseDups.mpr ((h x).mp (List.mem_eraseDups.mp hx))
  · apply List.Nodup.length_le_of_subset (nodup_eraseDups l')
    intro x hx
    exact List.mem_eraseDups.mpr ((h x).mpr (List.mem_eraseDups.mp hx))

theorem contains_congr {l l' : List String} (h : ∀ x, x ∈ l ↔ x ∈ l') (x : String) : l.contains x = l'.contains x := by
  by_cases hx : x ∈ l
  · simp [hx, (h x).mp hx]
  · have : x ∉ l' := fun h' => hx ((h x).mpr h')
    simp [hx, this]

theorem unjoinDist_congr {inds inds' : List String} (h : ∀ x, inds.contains x = inds'.contains x) (d : Dist α) :
    unjoinDist inds d = unjoinDist inds' d := by
  unfold unjoinDist
  simp only [h]

theorem unjoin_congr {inds inds' : List String} (h : ∀ x, inds.contains x = inds'.contains x) (r : RVs α) :
    unjoin r inds = unjoin r inds' := by
  unfold unjoin
  congr 1
  funext d
  exact unjoinDist_congr h d

theorem getitem_congr {ind ind' : List String} (h : ∀ x, ind.contains x = ind'.contains x) (r : RVs α) :
    getitem r ind = getitem r ind' := by
  unfold getitem
  have h1 : (names r).filter (fun n => !ind.contains n) = (names r).filter (fun n => !ind'.contains n) := by
    simp only [h]
  have h2 : firstNameIn (α := α) ind = firstNameIn ind' := by
    funext d
    unfold firstNameIn
    cases d.names with
    | nil => rfl
    | cons n _ => exact h n
  simp only [h1, h2]

theorem distGetitem_congr (d : Dist α) {index index' : List String} (hp : index'.Perm index) :
    distGetitem d index' = distGetitem d index := by
  have hm : ∀ x, x ∈ index'.eraseDups ↔ x ∈ index.eraseDups := by
    intro x; rw [List.mem_eraseDups, List.mem_eraseDups]; exact hp.mem_iff
  have hc := contains_congr hm
  have hl : index'.eraseDups.length = index.eraseDups.length :=
    eraseDups_length_of_same_mem (fun x => hp.mem_iff)
  have hany : index'.eraseDups.any (fun a => !d.names.contains a) = index.eraseDups.any (fun a => !d.names.contains a) := by
    rw [Bool.eq_iff_iff]
    simp only [List.any_eq_true]
    constructor
    · rintro ⟨x, hx, hb⟩; exact ⟨x, (hm x).mp hx, hb⟩
    · rintro ⟨x, hx, hb⟩; exact ⟨x, (hm x).mpr hx, hb⟩
  unfold distGetitem
  rw [hp.length_eq, hany, hl]
  have : pickDist d (fun x => index'.eraseDups.contains x) = pickDist d (fun x => index.eraseDups.contains x) := by
    simp only [hc]
  rw [this]

theorem placeJoined_congr {inds inds' : List String} (h : ∀ x, inds.contains x = inds'.contains x) (jd : Dist α)
    (U : RVs α) (first : Bool) : placeJoined inds jd U first = placeJoined inds' jd U first := by
  induction U generalizing first with
  | nil => rfl
  | cons d U ih =>
    unfold placeJoined
    simp only [h, ih]

theorem join_congr {inds inds' : List String} (hm : ∀ x, x ∈ inds ↔ x ∈ inds') (r : RVs α) (f : Fill α) :
    join r inds f = join r inds' f := by
  have hc := contains_congr hm
  have hany : inds.any (fun a => !(names r).contains a) = inds'.any (fun a => !(names r).contains a) := by
    rw [Bool.eq_iff_iff]
    simp only [List.any_eq_true]
    constructor
    · rintro ⟨x, hx, hb⟩; exact ⟨x, (hm x).mp hx, hb⟩
    · rintro ⟨x, hx, hb⟩; exact ⟨x, (hm x).mpr hx, hb⟩
  have hlen : (inds.length = 0) ↔ (inds'.length = 0) := by
    rw [List.length_eq_zero_iff, List.length_eq_zero_iff]
    constructor
    · intro e; subst e
      cases inds' with
      | nil => rfl
      | cons a t => exact absurd ((hm a).mpr List.mem_cons_self) (by simp)
    · intro e; subst e
      cases inds with
      | nil => rfl
      | cons a t => exact absurd ((hm a).mp List.mem_cons_self) (by simp)
  unfold join
  rw [hany, getitem_congr hc, unjoin_congr hc]
  by_cases h0 : inds.length = 0
  · simp only [h0, hlen.mp h0, if_true]
  · have h0' : ¬ inds'.length = 0 := fun e => h0 (hlen.mpr e)
    simp only [h0, h0', if_false]
    cases getitem r inds' with
    | nil => rfl
    | cons j0 rest => simp only [placeJoined_congr hc]
end selection

/-! ### write-back of `nearest_valid_parameters`: dictionary lemmas -/
section writeback
variable {α : Type} [Zero α] [DecidableEq α]

theorem foldl_assign_init {V : Type} (a : α) (l : List (α × V)) : ∀ acc : Option V,
    l.foldl (fun acc p => if p.1 = a then some p.2 else acc) acc = (lastAssigned l a).or acc := by
  unfold lastAssigned
  induction l with
  | nil => intro acc; simp
  | cons p t ih =>
    intro acc
    rw [List.foldl_cons, List.foldl_cons, ih, ih (if p.1 = a then some p.2 else none)]
    by_cases h : p.1 = a
    · simp only [if_pos h]
      cases (List.foldl (fun acc p => if p.1 = a then some p.2 else acc) none t) <;> simp
    · simp only [if_neg h]
      cases (List.foldl (fun acc p => if p.1 = a then some p.2 else acc) none t) <;> simp

theorem lookup_filter_append {V : Type} (vals : List (String × V)) (t s : String) (v : V) :
    ((vals.filter (·.1 ≠ t)) ++ [(t, v)]).lookup s = if t = s then some v else vals.lookup s := by
  induction vals with
  | nil =>
    by_cases h : t = s
    · subst h; simp
    · have : (s == t) = false := by simpa using fun e => h e.symm
      simp [List.lookup, this, h]
  | cons p rest ih =>
    obtain ⟨k, x⟩ := p
    by_cases hk : k = t
    · subst hk
      have : List.filter (fun q : String × V => decide (q.1 ≠ k)) ((k, x) :: rest) = List.filter (fun q => decide (q.1 ≠ k)) rest := by
        simp
      rw [this, ih]
      by_cases h : k = s
      · simp [h]
      · have : (s == k) = false := by simpa using fun e => h e.symm
        simp [h, List.lookup, this]
    · have : List.filter (fun q : String × V => decide (q.1 ≠ t)) ((k, x) :: rest) = (k, x) :: List.filter (fun q => decide (q.1 ≠ t)) rest := by
        simp [hk]
      rw [this, List.cons_append, List.lookup, List.lookup]
      by_cases hs : s = k
      · subst hs
        have : t ≠ s := fun e => hk e.symm
        simp [this]
      · have : (s == k) = false := by simpa using hs
        simp only [this]
        exact ih

end writeback
end Pharmpy.C11
