import PharmpyModel.C04.Theta
import PharmpyModel.C04.Omega
namespace Pharmpy.C04

theorem placeholder_true : multiple [] = 1 := rfl

end Pharmpy.C04
