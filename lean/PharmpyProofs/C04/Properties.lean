import PharmpyProofs.C04.Lemmas
import PharmpyProofs.C04.OmegaLemmas
/-
  C04 — property theorems.

  THETA.  `ThetaRecord.update` followed by the reader (`inits`/`bounds`/`fixs`,
  parsing.py's autofix, `Parameter.create`) gives back exactly the parameters
  handed in — for every record with any number of items, any amount of blanks,
  comments, commas and FIX tokens after the parentheses, any spelling of the
  numbers — provided that
    * every item has one of the layouts of `Shp` (`RecShape`: in particular no
      FIX *inside* the parentheses),
    * every `(v)xn` item receives n identical parameters (`noRepeatSplit`),
    * the parameters are ones NM-TRAN can express (`ParamOK`).
  Outside these side-conditions the statement is false of the code; the
  `_witness` theorems are the counterexamples (finding F12 and the ones found
  while building; F13 is fixed in /repo by c1795fa and `theta_frame` /
  `theta_field_frame` now hold at full strength).  `ThetaRecord.remove` reads back as the per-item drop.

  OMEGA.  The scale conversions of BLOCK records are mutually inverse entry by
  entry over any field with a square root on the diagonal.
-/
namespace Pharmpy.C04

/-! ### `$THETA`: update reads back -/

theorem theta_update_reads_back_partial (r : List RNode) (ps : List Param)
    (hshape : RecShape r) (hok : ∀ p ∈ ps, ParamOK p = true) (hrep : noRepeatSplit r ps = true) :
    parseRec (updRec r ps) = .ok (ps.map Param.toParsed) := by
  induction r generalizing ps with
  | nil =>
    simp only [noRepeatSplit, List.isEmpty_iff] at hrep
    subst hrep
    rfl
  | cons x r ih =>
    cases x with
    | tok t =>
      simp only [updRec, parseRec]
      exact ih ps (fun cs h => hshape cs (List.mem_cons_of_mem _ h)) hok hrep
    | item cs =>
      cases ps with
      | nil => simp [noRepeatSplit] at hrep
      | cons p ps' =>
        simp only [noRepeatSplit, Bool.and_eq_true, beq_iff_eq] at hrep
        obtain ⟨htake, hrest⟩ := hrep
        have hcs : ItemShape cs := hshape cs (by simp)
        obtain ⟨hparse, hmult⟩ := updItem_reads_back cs hcs p (hok p (by simp))
        have hih := ih ((p :: ps').drop (multiple cs))
          (fun cs h => hshape cs (List.mem_cons_of_mem _ h))
          (fun q hq => hok q (List.mem_of_mem_drop hq)) hrest
        simp only [updRec, parseRec, hparse, hih, hmult]
        congr 1
        conv => rhs; rw [← List.take_append_drop (multiple cs) (p :: ps')]
        rw [List.map_append, htake, List.map_replicate]

/-- the same with every side-condition decidable (the driver evaluates them on each generated case;
    the harness reports a case that satisfies them and does not read back on the real code) -/
theorem theta_update_reads_back_decidable (r : List RNode) (ps : List Param)
    (hshape : recShapeOK r = true) (hok : paramsOK ps = true) (hrep : noRepeatSplit r ps = true) :
    parseRec (updRec r ps) = .ok (ps.map Param.toParsed) :=
  theta_update_reads_back_partial r ps (recShapeOK_sound r hshape)
    (fun p hp => List.all_eq_true.mp hok p hp) hrep

/-- the update never changes the number of parameters of a record -/
theorem theta_update_len (r : List RNode) (ps : List Param) (hshape : RecShape r)
    (hok : ∀ p ∈ ps, ParamOK p = true) (hrep : noRepeatSplit r ps = true) :
    recLen (updRec r ps) = recLen r := by
  induction r generalizing ps with
  | nil => rfl
  | cons x r ih =>
    cases x with
    | tok t =>
      simp only [updRec, recLen]
      exact ih ps (fun cs h => hshape cs (List.mem_cons_of_mem _ h)) hok hrep
    | item cs =>
      cases ps with
      | nil => simp [noRepeatSplit] at hrep
      | cons p ps' =>
        simp only [noRepeatSplit, Bool.and_eq_true, beq_iff_eq] at hrep
        obtain ⟨_, hrest⟩ := hrep
        obtain ⟨_, hmult⟩ := updItem_reads_back cs (hshape cs (by simp)) p (hok p (by simp))
        simp only [updRec, recLen, hmult]
        rw [ih _ (fun cs h => hshape cs (List.mem_cons_of_mem _ h))
          (fun q hq => hok q (List.mem_of_mem_drop hq)) hrest]

/-! ### `$THETA`: frame -/

theorem theta_update_keeps_other_nodes (r : List RNode) (ps : List Param) :
    nonItems (updRec r ps) = nonItems r ∧ recItems (updRec r ps) = recItems r := by
  induction r generalizing ps with
  | nil => exact ⟨rfl, rfl⟩
  | cons x r ih =>
    cases x with
    | tok t => simp [updRec, nonItems, recItems, ih]
    | item cs =>
      cases ps with
      | nil => simp [updRec, nonItems, recItems, ih]
      | cons p ps' => simp [updRec, nonItems, recItems, ih]

/-- `theta_frame` (full strength since fix c1795fa): an item that already reads as the parameter — same
    init, same fixedness, bounds that *read back* as the parameter's bounds, whatever their spelling
    (`1E2`, `5.0`, `-INF`, `,INF`, `1000000`) — keeps its whole token list.  `hlu` is a fact about every
    tree the parser produces (an upper bound is only written together with a lower bound). -/
theorem theta_frame (s : Shp) (h : s.WF) (hin : s.Input) (p : Param)
    (hinit : s.ini.val = p.init) (hfix : hasK .fix s.tail = p.fix)
    (hup : curUpper s.upV = p.upper) (hlow : curLower s.lowV = p.lower) (hlu : s.low = none → s.up = none) :
    updItem s.build p = s.build := by
  obtain ⟨s4, e, _, _, _, _, _, _, _, _, _, _, hid⟩ := Shp.updItem_steps s h hin p
  have hnone : s.low = none → needLower p = false := by
    intro hn
    have hl : p.lower = .ninf := by rw [← hlow]; simp [Shp.lowV, hn, curLower]
    have hu : p.upper = .pinf := by rw [← hup]; simp [Shp.upV, hlu hn, curUpper]
    rw [needLower, needUpper, hl, hu]
    rfl
  rw [e, hid hinit hfix hup hlow hnone]

/-- `theta_field_frame`: within an item that *is* changed, every field whose value did not change keeps
    its token: the init token, the FIX tokens and the blanks around them, the upper-bound token, and the
    lower-bound token (unless the lower bound has to go because the upper bound was just removed).
    The one documented exception for the upper bound (fix 6b0a1ad): an explicit infinite upper bound cannot
    stay when the lower bound is removed — hence the hypothesis "if there is a lower bound it is still needed". -/
theorem theta_field_frame (s : Shp) (h : s.WF) (hin : s.Input) (p : Param) :
    ∃ s' : Shp, updItem s.build p = s'.build ∧ s'.WF ∧
      (s.ini.val = p.init → s'.ini = s.ini) ∧
      (hasK .fix s.tail = p.fix → s'.tail = s.tail) ∧
      (curUpper s.upV = p.upper → (s.low.isSome = true → needLower p = true) → s'.up = s.up) ∧
      (curLower s.lowV = p.lower → (s.low = none → needLower p = false) →
        (needLower p = true ∨ curUpper s.upV = p.upper) → s'.low = s.low) := by
  obtain ⟨s4, e, h4, _, _, _, _, _, h1, h2, h3, h5, _⟩ := Shp.updItem_steps s h hin p
  exact ⟨s4, e, h4, h1, h2, h3, h5⟩

/-- non-vacuity of `theta_frame`: `( 0 ,3,1E2) FIXx2` handed its own parameter (bounds spelled `0`, `1E2`) -/
example :
    let p : Param := { init := .fin 3 1, initS := "3.0", lower := .fin 0 1, lowerS := "0",
                       upper := .fin 100 1, upperS := "100", fix := true }
    updItem exShape.build p = exShape.build :=
  theta_frame exShape exShape_wf.1 exShape_wf.2 _ rfl (by decide) (by decide) (by decide) (by simp [exShape])

/-! ### `$THETA`: remove -/

/-- `remove(inds)` reads back as the record without the items at those positions (per item: a `(v)xn`
    item is one position), and keeps every other node -/
theorem theta_remove_reads_back (r : List RNode) (inds : List Nat) :
    parseItems (removeRec r inds) = dropIdx inds 0 (parseItems r) ∧
      nonItems (removeRec r inds) = nonItems r := by
  unfold removeRec
  cases inds with
  | nil =>
    simp only [List.isEmpty_nil, ↓reduceIte, and_true]
    have : ∀ (i : Nat) (xs : List (Except PErr Parsed × Nat)), dropIdx [] i xs = xs := by
      intro i xs
      induction xs generalizing i with
      | nil => rfl
      | cons x xs ih => simp [dropIdx, ih]
    rw [this]
  | cons a as => simpa using removeRecAux_parse (a :: as) 0 r

/-! ### `$THETA`: witnesses — where the full statements fail on the code as it is -/

/-- F12: `$THETA (1)x2`, new parameters (5, 1): the record is written as `(5.0)x2` and read back as (5, 5).
    `noRepeatSplit` is the side-condition that fails. -/
theorem theta_update_repeat_witness :
    let r := [RNode.item [tokLpar, nNum .init "1" 1, tokRpar, nRep 2]]
    let ps := [pSimple 5 "5.0", pSimple 1 "1.0"]
    noRepeatSplit r ps = false ∧
    updRec r ps = [RNode.item [tokLpar, nNum .init "5.0" 5, tokRpar, nRep 2]] ∧
    parseRec (updRec r ps) = .ok [(pSimple 5 "5.0").toParsed, (pSimple 5 "5.0").toParsed] := by
  decide

/-- F13 (fixed by c1795fa): `(0,3,1E2)` with new init 4 is now written `(0,4.0,1E2)`; before the fix the
    unchanged upper bound was respelled `100`. -/
theorem theta_bound_spelling_kept :
    let cs := [tokLpar, nNum .low "0" 0, tokComma, nNum .init "3" 3, tokComma, nNum .up "1E2" 100, tokRpar]
    let p : Param := { init := .fin 4 1, initS := "4.0", lower := .fin 0 1, lowerS := "0",
                       upper := .fin 100 1, upperS := "100", fix := false }
    updItem cs p = [tokLpar, nNum .low "0" 0, tokComma, nNum .init "4.0" 4, tokComma, nNum .up "1E2" 100, tokRpar] := by
  decide

/-- fixed by 6b0a1ad (found by this check after c1795fa): an explicit infinite upper bound (`INF`,
    `1000000`) goes together with the lower bound and the parentheses: `(0,7.5,INF)` with the lower bound set
    to -inf is written `7.5` (c1795fa alone wrote `7.5,INF`, which the grammar does not derive). -/
theorem theta_explicit_inf_upper_removed :
    let cs := [tokLpar, nNum .low "0" 0, tokComma, nNum .init "7.5" 15 2, tokComma,
               ({ k := .up, rule := "POS_INF", text := "INF", val := .pinf } : TNode), tokRpar]
    let p : Param := { init := .fin 15 2, initS := "7.5", lower := .ninf, lowerS := "-inf",
                       upper := .pinf, upperS := "inf", fix := false }
    grammarOK cs = true ∧ updItem cs p = [nNum .init "7.5" 15 2] ∧ grammarOK (updItem cs p) = true ∧
      parseItem (updItem cs p) = .ok p.toParsed := by
  decide

/-- fixing `(1)x2` appends ` FIX` after `x2`; the `theta` rule has `n | FIX` there, not both -/
theorem theta_fix_after_repeat_witness :
    let cs := [tokLpar, nNum .init "1" 1, tokRpar, nRep 2]
    grammarOK cs = true ∧
    updItem cs (pSimple 1 "1.0" true) = [tokLpar, nNum .init "1" 1, tokRpar, nRep 2, tokWs, tokFix] ∧
    grammarOK (updItem cs (pSimple 1 "1.0" true)) = false := by
  decide

/-- FIX inside the parentheses (outside `Shp`): `(3 FIX, 3)` with the lower bound removed loses the FIX
    together with the bound and reads back unfixed -/
theorem theta_fix_inside_witness :
    let cs := [tokLpar, nNum .low "3" 3, tokWs, tokFix, tokComma, tokWs, nNum .init "3" 3, tokRpar]
    let p := pSimple 3 "3.0" true
    parseItem cs = .ok { init := .fin 3 1, lower := .fin 3 1, upper := .pinf, fix := true } ∧
    updItem cs p = [nNum .init "3" 3] ∧
    parseItem (updItem cs p) = .ok { init := .fin 3 1, lower := .ninf, upper := .pinf, fix := false } := by
  decide

/-- FIX in front inside the parentheses: `(FIX 3, 3)` with the lower bound removed is written `FIX 3`,
    which the grammar does not derive -/
theorem theta_fix_front_witness :
    let cs := [tokLpar, tokFix, tokWs, nNum .low "3" 3, tokComma, tokWs, nNum .init "3" 3, tokRpar]
    updItem cs (pSimple 3 "3.0" true) = [tokFix, tokWs, nNum .init "3" 3] ∧
    grammarOK (updItem cs (pSimple 3 "3.0" true)) = false := by
  decide

/-! ### non-vacuity -/

/-- the hypotheses of `theta_update_reads_back_partial` are satisfiable on a non-trivial input:
    `( 0 ,3,1E2) FIXx2`-like item with two identical new parameters that change init, bounds and fixedness -/
example :
    let p : Param := { init := .fin 4 1, initS := "4.0", lower := .ninf, lowerS := "-inf",
                       upper := .fin 7 1, upperS := "7", fix := false }
    let r := [RNode.tok tokWs, RNode.item exShape.build, RNode.tok tokWs]
    RecShape r ∧ (∀ q ∈ [p, p], ParamOK q = true) ∧ noRepeatSplit r [p, p] = true ∧
      parseRec (updRec r [p, p]) = .ok [p.toParsed, p.toParsed] := by
  intro p r
  have hs : RecShape r := by
    intro cs h
    simp [r] at h
    subst h
    exact ⟨exShape, exShape_wf.1, exShape_wf.2, rfl⟩
  have hp : ∀ q ∈ [p, p], ParamOK q = true := by
    intro q hq; simp at hq; subst hq; decide
  have hr : noRepeatSplit r [p, p] = true := by decide
  exact ⟨hs, hp, hr, theta_update_reads_back_partial r [p, p] hs hp hr⟩

/-! ### diagonal `$OMEGA` / `$SIGMA` records -/

/-- one updated item, any child list with an init (options FIX/SD/VAR and parentheses anywhere) -/
theorem omega_diag_item_reads_back (cs : List TNode) (p : OParam) (h : hasK .init cs = true)
    (hsv : (hasK .sd cs && hasK .var cs) = false) (hz : p.raw = zero → p.fix = true) :
    parseDiagItem (updDiagSame cs p) = .ok { raw := p.raw, sd := hasK .sd cs, fix := p.fix } ∧
      multiple (updDiagSame cs p) = multiple cs := by
  obtain ⟨h1, h2, h3, h4, h5⟩ := updDiagSame_obs cs p h
  refine ⟨?_, h5⟩
  unfold parseDiagItem
  rw [h1, h2, h3, h4]
  by_cases hr : p.raw = zero
  · simp [hsv, hr, hz hr]
  · simp [hsv, hr]

/-- `omega_diag_update_reads_back_partial`: for every diagonal record (any number of items, any
    options, `DIAGONAL(n)`, comments) the updated record reads back with the new raw values and
    fixedness and the old scale flags — when no `(v)xn` item has to be split (`noRepeatSplitD`). -/
theorem omega_diag_update_reads_back_partial (r : List DNode) (ps : List OParam) (hok : DiagOK r)
    (hz : ∀ p ∈ ps, p.raw = zero → p.fix = true) (hrep : noRepeatSplitD r ps = true) :
    parseDiag (updDiag r ps) = .ok (expectD r ps) := by
  induction r generalizing ps with
  | nil => rfl
  | cons x r ih =>
    have hok' : DiagOK r := fun cs h => hok cs (List.mem_cons_of_mem _ h)
    cases x with
    | tok t => simpa [updDiag, parseDiag, expectD] using ih ps hok' hz hrep
    | diagonal t => simpa [updDiag, parseDiag, expectD] using ih ps hok' hz hrep
    | item cs =>
      cases ps with
      | nil => simp [noRepeatSplitD] at hrep
      | cons p ps' =>
        simp only [noRepeatSplitD, Bool.and_eq_true, decide_eq_true_eq, beq_iff_eq] at hrep
        obtain ⟨⟨hn, htake⟩, hrest⟩ := hrep
        obtain ⟨hinit, hsv⟩ := hok cs (by simp)
        obtain ⟨hparse, hmult⟩ := omega_diag_item_reads_back cs p hinit hsv (hz p (by simp))
        have hih := ih ((p :: ps').drop (multiple cs)) hok'
          (fun q hq => hz q (List.mem_of_mem_drop hq)) hrest
        have hall : (multiple cs = 1 || ((p :: ps').take (multiple cs)).all (fun q => q.raw == p.raw && q.fix == p.fix)) = true := by
          rw [htake]; simp
        have hhead : ∃ rest, (p :: ps').take (multiple cs) = p :: rest := by
          cases hm : multiple cs with
          | zero => omega
          | succ m => exact ⟨List.take m ps', by simp [List.take]⟩
        obtain ⟨rest, hrest'⟩ := hhead
        have hitem : updDiagItem cs ((p :: ps').take (multiple cs)) = [.item (updDiagSame cs p)] := by
          rw [hrest'] at hall ⊢
          simp only [updDiagItem]
          rw [if_pos hall]
        simp only [updDiag, hitem, List.singleton_append, parseDiag, hparse, hih, hmult, expectD]

/-- `remove` on a diagonal record reads back as the per-item drop -/
theorem omega_diag_remove_reads_back (r : List DNode) (inds : List Nat) :
    parseDiagItems (removeDiag r inds) = dropIdx inds 0 (parseDiagItems r) := by
  unfold removeDiag
  cases inds with
  | nil =>
    simp only [List.isEmpty_nil, ↓reduceIte]
    have : ∀ (i : Nat) (xs : List (Except DErr DParsed × Nat)), dropIdx [] i xs = xs := by
      intro i xs
      induction xs generalizing i with
      | nil => rfl
      | cons x xs ih => simp [dropIdx, ih]
    rw [this]
  | cons a as => simpa using removeDiagAux_parse (a :: as) 0 true r

/-- names after `remove`: for every diagonal record (any items, any comments, note lines, blanks and newlines
    between them; `DIAGONAL(n)` only in front of the first item, as the grammar has it) and every index set, the
    kept items are read under exactly the names they had — the name comments of a removed item (on its line or on
    stand-alone lines below it, up to the next item) go with it and are never attributed to a kept item -/
theorem omega_diag_remove_names (r : List DNode) (inds : List Nat) (h : diagonalInFront r = true) :
    diagNames (removeDiag r inds) = dropIdx inds 0 (diagNames r) := by
  unfold removeDiag
  cases inds with
  | nil => simp [dropIdx_nil]
  | cons a as => simpa using removeDiagAux_names (a :: as) 0 true r h

/-- names and values together: what is read for every kept item after `remove` -/
theorem omega_diag_remove_reads_back_named (r : List DNode) (inds : List Nat) (h : diagonalInFront r = true) :
    (parseDiagItems (removeDiag r inds)).zip (diagNames (removeDiag r inds)) =
      (dropIdx inds 0 (parseDiagItems r)).zip (dropIdx inds 0 (diagNames r)) := by
  rw [omega_diag_remove_reads_back, omega_diag_remove_names r inds h]

/-- the regular expression of `_get_name` on the spellings that occur -/
theorem comment_name_examples :
    commentName "; IIV_V" = some "IIV_V" ∧ commentName ";IIV_V [L/h]" = some "IIV_V" ∧
    commentName "; previous_value 0.4" = some "previous_value" ∧ commentName "; 2nd value" = none ∧
    commentName "; 0.4 ; was_fixed" = some "was_fixed" ∧ commentName "\n" = none ∧ commentName ";" = none := by
  decide

/-- non-vacuity: `$OMEGA 0.1⏎ 0.2⏎ ; IIV_V⏎ 0.3 ; IIV_KA⏎` with the second item removed: the stand-alone name
    comment goes with it, the first item stays unnamed -/
example :
    let r := [DNode.tok tokWs, .item [nNum .init "0.1" 1 10], .tok nNewline, .tok tokWs,
              .item [nNum .init "0.2" 1 5], .tok nNewline, .tok tokWs, .tok (nComment "; IIV_V"), .tok nNewline, .tok tokWs,
              .item [nNum .init "0.3" 3 10], .tok tokWs, .tok (nComment "; IIV_KA"), .tok nNewline]
    diagonalInFront r = true ∧ diagNames r = [none, some "IIV_V", some "IIV_KA"] ∧
      diagNames (removeDiag r [1]) = [none, some "IIV_KA"] ∧
      removeDiag r [1] = [DNode.tok tokWs, .item [nNum .init "0.1" 1 10], .tok nNewline, .tok tokWs,
              .item [nNum .init "0.3" 3 10], .tok tokWs, .tok (nComment "; IIV_KA"), .tok nNewline] := by
  decide

/-- the split-xn path inverts the FIX logic: `$OMEGA (0.1 FIX)x2` with the second variance changed and
    both still fixed is written `(0.1) (0.25)` — both unfixed -/
theorem omega_diag_split_fix_witness :
    let cs := [tokLpar, nNum .init "0.1" 1 10, tokWs, tokFix, tokRpar, nRep 2]
    let ps := [oP 1 10 "0.1" true, oP 1 4 "0.25" true]
    noRepeatSplitD [.item cs] ps = false ∧
    updDiag [.item cs] ps =
      [.item [tokLpar, nNum .init "0.1" 1 10, tokRpar], .tok wsTree, .item [tokLpar, nNum .init "0.25" 1 4, tokRpar]] ∧
    parseDiag (updDiag [.item cs] ps) = .ok [{ raw := .fin 1 10, sd := false, fix := false },
                                             { raw := .fin 1 4, sd := false, fix := false }] := by
  decide

/-- removing the last value of `$OMEGA 0.1 0.2⏎` also removes the newline that ends the record -/
theorem omega_diag_remove_last_newline_witness :
    let r := [DNode.tok tokWs, .item [nNum .init "0.1" 1 10], .tok tokWs, .item [nNum .init "0.2" 1 5], .tok nNewline]
    removeDiag r [1] = [DNode.tok tokWs, .item [nNum .init "0.1" 1 10], .tok tokWs] := by
  decide

/-- non-vacuity: `$OMEGA DIAG(3) (0.1 SD)x2 0.3 FIX` with new values for all three etas -/
example :
    let r := [DNode.diagonal tokWs, .item [tokLpar, nNum .init "0.1" 1 10, tokWs, nSd, tokRpar, nRep 2], .tok tokWs,
              .item [nNum .init "0.3" 3 10, tokWs, tokFix], .tok nNewline]
    let ps := [oP 1 2 "0.5" true, oP 1 2 "0.5" true, oP 2 1 "2" false]
    DiagOK r ∧ noRepeatSplitD r ps = true ∧
      parseDiag (updDiag r ps) = .ok [{ raw := .fin 1 2, sd := true, fix := true }, { raw := .fin 1 2, sd := true, fix := true },
                                      { raw := .fin 2 1, sd := false, fix := false }] := by
  intro r ps
  have hok : DiagOK r := by
    intro cs h
    simp [r] at h
    rcases h with rfl | rfl <;> decide
  have hrep : noRepeatSplitD r ps = true := by decide
  refine ⟨hok, hrep, ?_⟩
  rw [omega_diag_update_reads_back_partial r ps hok (by intro p hp; simp [ps] at hp; rcases hp with rfl | rfl <;> decide) hrep]
  decide

/-! ### `$OMEGA` / `$SIGMA BLOCK(n)`: fixedness -/

/-- `omega_block_fix_reads_back`: for every BLOCK record — any number of `omega` nodes, FIX written on the
    header, after an init, or inside the parentheses before/after the value, any blanks/comments — after
    the BLOCK branch of `OmegaRecord.update` with new fixedness `b` the reader's `_block_flags` reports `b`
    (when no `(v)xn` node has to be split). -/
theorem omega_block_fix_reads_back (r : List DNode) (ws : List String) (news : List OParam) (olds : List Val)
    (f b : Bool) (h : blockFix r = .ok f) (hb : hasBlock r = true)
    (hn : noSplitB r (blockArray r ws news olds) = true) :
    ∃ r', updBlock r ws news olds b = .ok r' ∧ blockFix r' = .ok b := by
  obtain ⟨h1, h2, h3⟩ := updBlockVals_flags r _ hn
  refine ⟨setBlockFix f (updBlockVals r (blockArray r ws news olds)) b, by simp [updBlock, h], ?_⟩
  apply setBlockFix_reads_back
  · unfold blockFix at h ⊢
    rw [h1, h3]
    exact h
  · rw [h2]; exact hb

/-- `omega_block_noop` (fix f0abfd5): a no-op update of a BLOCK record returns the record unchanged, token for
    token — for every record (any nodes, `(v)xn`, options, comments), on every scale: all that is used of the
    scale conversion is that the reader and the writer apply the *same* function, so that equal parameters give
    equal record-scale values (`olds = news.map raw`); the fixedness is the one the record has. -/
theorem omega_block_noop (r : List DNode) (ws : List String) (news : List OParam) (f : Bool)
    (h : blockFix r = .ok f) (hws : ws.length = (writtenVals r).length)
    (hlen : news.length = (writtenVals r).length) :
    updBlock r ws news (news.map (·.raw)) f = .ok r := by
  have harr : (blockArray r ws news (news.map (·.raw))).map (·.raw) = writtenVals r := by
    unfold blockArray
    simp only [List.length_map, ↓reduceIte]
    exact mergeKept_same _ ws news hws hlen
  simp [updBlock, h, updBlockVals_written r _ harr, setBlockFix]

/-- non-vacuity, the layouts the seeded mutation needed: `BLOCK(2) 0.1 0.01 (0.2 FIX)`, unfixed, and
    `BLOCK(2) 0.1 0.01 0.2`, fixed -/
example :
    let r := [DNode.tok tokWs, .tok nBlock, .tok tokWs, .item [nNum .init "0.1" 1 10], .tok tokWs,
              .item [nNum .init "0.01" 1 100], .tok tokWs,
              .item [tokLpar, nNum .init "0.2" 1 5, tokWs, tokFix, tokRpar], .tok nNewline]
    let vals := [oP 1 10 "0.1" false, oP 1 100 "0.01" false, oP 1 5 "0.2" false]
    let ws := ["0.1", "0.01", "0.2"]
    let olds := vals.map (·.raw)
    blockFix r = .ok true ∧ hasBlock r = true ∧ noSplitB r (blockArray r ws vals olds) = true ∧
      updBlock r ws vals olds false = .ok [DNode.tok tokWs, .tok nBlock, .tok tokWs, .item [nNum .init "0.1" 1 10], .tok tokWs,
              .item [nNum .init "0.01" 1 100], .tok tokWs,
              .item [tokLpar, nNum .init "0.2" 1 5, tokRpar], .tok nNewline] ∧
      (updBlock r ws vals olds true).map blockFix = .ok (.ok true) := by
  decide

/-! ### `$OMEGA` / `$SIGMA BLOCK(n)`: scale conversions (every block size, entry by entry) -/

section omega
variable {F : Type} [Field F]

/-- `omega_scale_inverse`, writing then reading: for every form VARIANCE|SD x COVARIANCE|CORRELATION,
    converting a covariance matrix to the spelled scale (`OmegaRecord.update`) and back
    (`OmegaRecord.parse`) is the identity on every entry, for every matrix size, over any field with a
    function `s` that is a square root on the diagonal entries and does not vanish there
    (the implicit guard of the code: a positive diagonal). -/
theorem omega_scale_inverse (s : F → F) (sd corr : Bool) (C : Nat → Nat → F)
    (hs : ∀ i, s (C i i) * s (C i i) = C i i) (hne : ∀ i, s (C i i) ≠ 0) (i j : Nat) :
    toCovE (fieldOps s) sd corr (fromCovE (fieldOps s) sd corr C) i j = C i j := by
  unfold toCovE fromCovE fieldOps
  by_cases hij : i = j
  · subst hij
    cases sd <;> simp [hs]
  · have hi := hne i
    have hj := hne j
    cases sd <;> cases corr <;> simp [hij]
    · field_simp
    · field_simp

/-- `omega_scale_inverse`, reading then writing (unchanged raw values come back as they were — in exact
    arithmetic): needs non-negative, non-zero standard deviations (SD form) resp. a non-vanishing root
    of the variances (VARIANCE form). -/
theorem omega_scale_inverse_raw (s : F → F) (sd corr : Bool) (A : Nat → Nat → F)
    (hsd : sd = true → ∀ i, s (A i i * A i i) = A i i ∧ A i i ≠ 0)
    (hvar : sd = false → ∀ i, s (A i i) ≠ 0) (i j : Nat) :
    fromCovE (fieldOps s) sd corr (toCovE (fieldOps s) sd corr A) i j = A i j := by
  unfold toCovE fromCovE fieldOps
  by_cases hij : i = j
  · subst hij
    cases sd
    · simp
    · simp [(hsd rfl i).1]
  · cases sd
    · have hi := hvar rfl i
      have hj := hvar rfl j
      cases corr <;> simp [hij]
      field_simp
    · obtain ⟨ei, hi⟩ := hsd rfl i
      obtain ⟨ej, hj⟩ := hsd rfl j
      cases corr <;> simp [hij, ei, ej]
      field_simp

/-- the same over an ordered field with a square root of the non-negative elements:
    a positive diagonal is all that is needed -/
theorem omega_scale_inverse_ordered [LinearOrder F] (s : F → F) (hsqrt : ∀ x, 0 ≤ x → s x * s x = x)
    (sd corr : Bool) (C : Nat → Nat → F) (hpos : ∀ i, 0 < C i i) (i j : Nat) :
    toCovE (fieldOps s) sd corr (fromCovE (fieldOps s) sd corr C) i j = C i j := by
  apply omega_scale_inverse
  · intro k; exact hsqrt _ (le_of_lt (hpos k))
  · intro k h0
    have := hsqrt _ (le_of_lt (hpos k))
    rw [h0] at this
    have hp := hpos k
    rw [← this] at hp
    simp at hp

/-- `omega_remove_block` (non-Cholesky forms): `OmegaRecord.remove` deletes rows and columns of the *raw*
    matrix and keeps the scale options; that commutes with the conversion — any operations, any size,
    any injective re-indexing `σ` (the kept indices in order). -/
theorem omega_remove_block {G : Type} (o : Ops G) (sd corr : Bool) (A : Nat → Nat → G) (σ : Nat → Nat)
    (hσ : ∀ a b, σ a = σ b → a = b) (i j : Nat) :
    toCovE o sd corr (fun a b => A (σ a) (σ b)) i j = toCovE o sd corr A (σ i) (σ j) := by
  unfold toCovE
  by_cases hij : i = j
  · subst hij; simp
  · have : σ i ≠ σ j := fun h => hij (hσ i j h)
    simp [hij, this]

end omega

/-- non-vacuity of `omega_scale_inverse`: the rationals with `s 4 = 2`, `s 9 = 3`, a 2x2 matrix -/
example :
    let s : Rat → Rat := fun x => if x = 4 then 2 else if x = 9 then 3 else 1
    let C : Nat → Nat → Rat := fun i j => if i = j then (if i % 2 = 0 then 4 else 9) else 3
    (∀ i, s (C i i) * s (C i i) = C i i) ∧ (∀ i, s (C i i) ≠ 0) ∧
      fromCovE (fieldOps s) true true C 0 1 = 1 / 2 := by
  intro s C
  refine ⟨?_, ?_, ?_⟩
  · intro i
    by_cases h : i % 2 = 0 <;> simp [s, C, h] <;> norm_num
  · intro i
    by_cases h : i % 2 = 0 <;> simp [s, C, h]
  · simp [fromCovE, fieldOps, s, C]
    norm_num

end Pharmpy.C04
