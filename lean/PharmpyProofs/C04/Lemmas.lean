import PharmpyModel.C04.Theta
import PharmpyModel.C04.OmegaDiag
import PharmpyModel.C04.OmegaBlock
import PharmpyModel.C04.ThetaShape
/-
  Helper lemmas for C04: how the helpers of theta_record.py act on a list of
  children that starts with "filler" nodes (blanks, comments, commas), and on
  the tail of a `theta` subtree (what follows the closing parenthesis).
-/
namespace Pharmpy.C04

/-- nodes the helpers never react to inside the parentheses: WS, COMMENT/NEWLINE, COMMA -/
def Fillers (F : List TNode) : Prop := ∀ x ∈ F, x.k = .ws ∨ x.k = .other ∨ x.k = .comma

/-- nodes after the closing parenthesis (or after a bare init): WS, comments, FIX, xn -/
def TailNodes (T : List TNode) : Prop := ∀ x ∈ T, x.k = .ws ∨ x.k = .other ∨ x.k = .fix ∨ x.k = .rep

theorem Fillers.nil : Fillers [] := by intro x h; cases h
theorem Fillers.cons {x : TNode} {F : List TNode} (h : Fillers (x :: F)) :
    (x.k = .ws ∨ x.k = .other ∨ x.k = .comma) ∧ Fillers F :=
  ⟨h x (by simp), fun y hy => h y (by simp [hy])⟩
theorem TailNodes.nil : TailNodes [] := by intro x h; cases h
theorem TailNodes.cons {x : TNode} {T : List TNode} (h : TailNodes (x :: T)) :
    (x.k = .ws ∨ x.k = .other ∨ x.k = .fix ∨ x.k = .rep) ∧ TailNodes T :=
  ⟨h x (by simp), fun y hy => h y (by simp [hy])⟩

/-! ### fillers in front -/

theorem replaceFirst_fillers (new : TNode) (hn : new.k = .init ∨ new.k = .low ∨ new.k = .up)
    {F : List TNode} (hF : Fillers F) (r : List TNode) :
    replaceFirst new (F ++ r) = F ++ replaceFirst new r := by
  induction F with
  | nil => rfl
  | cons x F ih =>
    have ⟨hx, hF'⟩ := hF.cons
    have : x.k ≠ new.k := by rcases hx with h | h | h <;> rcases hn with g | g | g <;> simp [h, g]
    simp [replaceFirst, this, ih hF']

theorem addUpper_fillers (u : TNode) {F : List TNode} (hF : Fillers F) (r : List TNode) :
    addUpper u (F ++ r) = F ++ addUpper u r := by
  induction F with
  | nil => rfl
  | cons x F ih =>
    have ⟨hx, hF'⟩ := hF.cons
    have : x.k ≠ .init := by rcases hx with h | h | h <;> simp [h]
    simp [addUpper, this, ih hF']

theorem addLower_fillers (l : TNode) {F : List TNode} (hF : Fillers F) (r : List TNode) :
    addLower l (F ++ r) = F ++ addLower l r := by
  induction F with
  | nil => rfl
  | cons x F ih =>
    have ⟨hx, hF'⟩ := hF.cons
    have : x.k ≠ .init := by rcases hx with h | h | h <;> simp [h]
    simp [addLower, this, ih hF']

theorem removeUpperAux_false_fillers {F : List TNode} (hF : Fillers F) (r : List TNode) :
    removeUpperAux false (F ++ r) = F ++ removeUpperAux false r := by
  induction F with
  | nil => rfl
  | cons x F ih =>
    have ⟨hx, hF'⟩ := hF.cons
    have h1 : x.k ≠ .init := by rcases hx with h | h | h <;> simp [h]
    have h2 : x.k ≠ .up := by rcases hx with h | h | h <;> simp [h]
    simp [removeUpperAux, h1, h2, ih hF']

theorem removeUpperAux_true_fillers {F : List TNode} (hF : Fillers F) (r : List TNode) :
    removeUpperAux true (F ++ r) = removeUpperAux true r := by
  induction F with
  | nil => rfl
  | cons x F ih =>
    have ⟨hx, hF'⟩ := hF.cons
    have h1 : x.k ≠ .init := by rcases hx with h | h | h <;> simp [h]
    have h2 : x.k ≠ .up := by rcases hx with h | h | h <;> simp [h]
    simp [removeUpperAux, h1, h2, ih hF']

theorem removeLowerAux_false_fillers {F : List TNode} (hF : Fillers F) (r : List TNode) :
    removeLowerAux false (F ++ r) = F ++ removeLowerAux false r := by
  induction F with
  | nil => rfl
  | cons x F ih =>
    have ⟨hx, hF'⟩ := hF.cons
    have h1 : x.k ≠ .init := by rcases hx with h | h | h <;> simp [h]
    have h2 : x.k ≠ .low := by rcases hx with h | h | h <;> simp [h]
    simp [removeLowerAux, h1, h2, ih hF']

theorem removeLowerAux_true_fillers {F : List TNode} (hF : Fillers F) (r : List TNode) :
    removeLowerAux true (F ++ r) = removeLowerAux true r := by
  induction F with
  | nil => rfl
  | cons x F ih =>
    have ⟨hx, hF'⟩ := hF.cons
    have h1 : x.k ≠ .init := by rcases hx with h | h | h <;> simp [h]
    have h2 : x.k ≠ .low := by rcases hx with h | h | h <;> simp [h]
    simp [removeLowerAux, h1, h2, ih hF']

theorem replaceBound_fillers (new : TNode) (hn : new.k = .low ∨ new.k = .up)
    {F : List TNode} (hF : Fillers F) (r : List TNode) :
    replaceBound new (F ++ r) = F ++ replaceBound new r := by
  induction F with
  | nil => rfl
  | cons x F ih =>
    have ⟨hx, hF'⟩ := hF.cons
    have : x.k ≠ new.k := by rcases hx with h | h | h <;> rcases hn with g | g <;> simp [h, g]
    have ih' := ih hF'
    simp only [replaceBound] at ih' ⊢
    simp [this, ih']

theorem removeParens_fillers {F : List TNode} (hF : Fillers F) (r : List TNode) :
    removeParens (F ++ r) = F ++ removeParens r := by
  induction F with
  | nil => rfl
  | cons x F ih =>
    have ⟨hx, hF'⟩ := hF.cons
    have ih' := ih hF'
    have hx' : (!(x.k == K.lpar || x.k == K.rpar)) = true := by rcases hx with h | h | h <;> simp [h]
    simp only [removeParens, List.cons_append] at ih' ⊢
    rw [List.filter_cons]
    simp only [hx', ↓reduceIte]
    rw [ih']

theorem addParensAux_fillers (b : Bool) {F : List TNode} (hF : Fillers F) (r : List TNode) :
    addParensAux b (F ++ r) = F ++ addParensAux b r := by
  induction F with
  | nil => rfl
  | cons x F ih =>
    have ⟨hx, hF'⟩ := hF.cons
    rcases hx with h | h | h <;> simp [addParensAux, h, ih hF']

theorem findK_fillers (k : K) (hk : k ≠ .ws ∧ k ≠ .other ∧ k ≠ .comma)
    {F : List TNode} (hF : Fillers F) (r : List TNode) :
    findK k (F ++ r) = findK k r := by
  induction F with
  | nil => rfl
  | cons x F ih =>
    have ⟨hx, hF'⟩ := hF.cons
    have ih' := ih hF'
    simp only [findK] at ih' ⊢
    have : (x.k == k) = false := by
      rcases hx with h | h | h <;> simp [h] <;> (intro g; simp [← g] at hk)
    simp [List.find?, this, ih']

theorem hasK_fillers (k : K) (hk : k ≠ .ws ∧ k ≠ .other ∧ k ≠ .comma)
    {F : List TNode} (hF : Fillers F) (r : List TNode) :
    hasK k (F ++ r) = hasK k r := by
  induction F with
  | nil => rfl
  | cons x F ih =>
    have ⟨hx, hF'⟩ := hF.cons
    have ih' := ih hF'
    simp only [hasK] at ih' ⊢
    have : (x.k == k) = false := by
      rcases hx with h | h | h <;> simp [h] <;> (intro g; simp [← g] at hk)
    simp [this, ih']

theorem firstFixInParens_fillers (b : Bool) {F : List TNode} (hF : Fillers F) (r : List TNode) :
    firstFixInParens b (F ++ r) = firstFixInParens b r := by
  induction F with
  | nil => rfl
  | cons x F ih =>
    have ⟨hx, hF'⟩ := hF.cons
    rcases hx with h | h | h <;> simp [firstFixInParens, h, ih hF']

/-! ### the tail -/

theorem replaceFirst_tail (new : TNode) (hn : new.k = .init ∨ new.k = .low ∨ new.k = .up)
    {T : List TNode} (hT : TailNodes T) : replaceFirst new T = T := by
  induction T with
  | nil => rfl
  | cons x T ih =>
    have ⟨hx, hT'⟩ := hT.cons
    have : x.k ≠ new.k := by rcases hx with h | h | h | h <;> rcases hn with g | g | g <;> simp [h, g]
    simp [replaceFirst, this, ih hT']

theorem addUpper_tail (u : TNode) {T : List TNode} (hT : TailNodes T) : addUpper u T = T := by
  induction T with
  | nil => rfl
  | cons x T ih =>
    have ⟨hx, hT'⟩ := hT.cons
    have : x.k ≠ .init := by rcases hx with h | h | h | h <;> simp [h]
    simp [addUpper, this, ih hT']

theorem addLower_tail (l : TNode) {T : List TNode} (hT : TailNodes T) : addLower l T = T := by
  induction T with
  | nil => rfl
  | cons x T ih =>
    have ⟨hx, hT'⟩ := hT.cons
    have : x.k ≠ .init := by rcases hx with h | h | h | h <;> simp [h]
    simp [addLower, this, ih hT']

theorem removeUpperAux_false_tail {T : List TNode} (hT : TailNodes T) : removeUpperAux false T = T := by
  induction T with
  | nil => rfl
  | cons x T ih =>
    have ⟨hx, hT'⟩ := hT.cons
    have h1 : x.k ≠ .init := by rcases hx with h | h | h | h <;> simp [h]
    have h2 : x.k ≠ .up := by rcases hx with h | h | h | h <;> simp [h]
    simp [removeUpperAux, h1, h2, ih hT']

theorem removeLowerAux_false_tail {T : List TNode} (hT : TailNodes T) : removeLowerAux false T = T := by
  induction T with
  | nil => rfl
  | cons x T ih =>
    have ⟨hx, hT'⟩ := hT.cons
    have h1 : x.k ≠ .init := by rcases hx with h | h | h | h <;> simp [h]
    have h2 : x.k ≠ .low := by rcases hx with h | h | h | h <;> simp [h]
    simp [removeLowerAux, h1, h2, ih hT']

theorem replaceBound_tail (new : TNode) (hn : new.k = .low ∨ new.k = .up)
    {T : List TNode} (hT : TailNodes T) : replaceBound new T = T := by
  induction T with
  | nil => rfl
  | cons x T ih =>
    have ⟨hx, hT'⟩ := hT.cons
    have : x.k ≠ new.k := by rcases hx with h | h | h | h <;> rcases hn with g | g <;> simp [h, g]
    have ih' := ih hT'
    simp only [replaceBound] at ih' ⊢
    simp [this, ih']

theorem removeParens_tail {T : List TNode} (hT : TailNodes T) : removeParens T = T := by
  induction T with
  | nil => rfl
  | cons x T ih =>
    have ⟨hx, hT'⟩ := hT.cons
    have ih' := ih hT'
    have hx' : (!(x.k == K.lpar || x.k == K.rpar)) = true := by rcases hx with h | h | h | h <;> simp [h]
    simp only [removeParens] at ih' ⊢
    rw [List.filter_cons]
    simp only [hx', ↓reduceIte]
    rw [ih']

theorem addParensAux_tail (b : Bool) {T : List TNode} (hT : TailNodes T) : addParensAux b T = T := by
  induction T with
  | nil => rfl
  | cons x T ih =>
    have ⟨hx, hT'⟩ := hT.cons
    rcases hx with h | h | h | h <;> simp [addParensAux, h, ih hT']

theorem findK_tail (k : K) (hk : k = .init ∨ k = .low ∨ k = .up ∨ k = .lpar ∨ k = .rpar)
    {T : List TNode} (hT : TailNodes T) : findK k T = none := by
  induction T with
  | nil => rfl
  | cons x T ih =>
    have ⟨hx, hT'⟩ := hT.cons
    have ih' := ih hT'
    simp only [findK] at ih' ⊢
    have : (x.k == k) = false := by
      rcases hx with h | h | h | h <;> rcases hk with g | g | g | g | g <;> simp [h, g]
    simp [List.find?, this, ih']

theorem hasK_tail (k : K) (hk : k = .init ∨ k = .low ∨ k = .up ∨ k = .lpar ∨ k = .rpar)
    {T : List TNode} (hT : TailNodes T) : hasK k T = false := by
  induction T with
  | nil => rfl
  | cons x T ih =>
    have ⟨hx, hT'⟩ := hT.cons
    have ih' := ih hT'
    simp only [hasK] at ih' ⊢
    have : (x.k == k) = false := by
      rcases hx with h | h | h | h <;> rcases hk with g | g | g | g | g <;> simp [h, g]
    simp [this, ih']

/-- outside the parentheses the scan reports the first FIX as "not in parentheses" -/
theorem firstFixInParens_false_tail {T : List TNode} (hT : TailNodes T) :
    firstFixInParens false T = if hasK .fix T then some false else none := by
  induction T with
  | nil => rfl
  | cons x T ih =>
    have ⟨hx, hT'⟩ := hT.cons
    rcases hx with h | h | h | h <;> simp [firstFixInParens, hasK, h, ih hT'] <;> simp [hasK]

end Pharmpy.C04

namespace Pharmpy.C04

/-! ### the shape of a `theta` subtree

  `[(] F0 [low F1] init [F2 up] F3 [)] tail` with filler lists `F0 … F3`
  (blanks, comments, commas — no FIX inside the parentheses) and a tail of
  blanks, comments, FIX tokens and `xn`.  Every layout the grammar derives
  without FIX inside the parentheses has this shape (the harness checks the
  recogniser `grammarOK` against lark); the intermediate trees of `update`
  (bounds without parentheses) have it too.
-/

structure Shp.WF (s : Shp) : Prop where
  ini : s.ini.k = .init
  lp : ∀ x, s.lp = some x → x.k = .lpar
  rp : ∀ x, s.rp = some x → x.k = .rpar
  both : s.lp.isSome = s.rp.isSome
  F0 : Fillers s.F0
  F3 : Fillers s.F3
  low : ∀ lo F1, s.low = some (lo, F1) → lo.k = .low ∧ Fillers F1
  up : ∀ F2 u, s.up = some (F2, u) → u.k = .up ∧ Fillers F2
  tail : TailNodes s.tail



theorem findK_cons (k : K) (x : TNode) (xs : List TNode) :
    findK k (x :: xs) = if x.k = k then some x else findK k xs := by
  simp only [findK, List.find?]
  by_cases h : x.k = k
  · simp [h]
  · have : (x.k == k) = false := by simp [h]
    simp [h, this]

theorem hasK_cons (k : K) (x : TNode) (xs : List TNode) :
    hasK k (x :: xs) = (decide (x.k = k) || hasK k xs) := by
  by_cases h : x.k = k <;> simp [hasK, h]

@[simp] theorem findK_nil (k : K) : findK k [] = none := rfl
@[simp] theorem hasK_nil (k : K) : hasK k [] = false := rfl

def Shp.Input (s : Shp) : Prop := s.lp = none → s.F0 = [] ∧ s.F3 = []

set_option hygiene false in
macro "shp_split" s:ident h:ident : tactic => `(tactic| (
  obtain ⟨lp, F0, low, ini, up, F3, rp, tail⟩ := $s
  obtain ⟨hi, hlp, hrp, hb, h0, h3, hlow, hup, ht⟩ := $h
  simp only at hi hlp hrp hb h0 h3 hlow hup ht
  rcases lp with _ | lp <;> rcases rp with _ | rp <;> simp at hb <;>
  rcases low with _ | ⟨lo, F1⟩ <;> rcases up with _ | ⟨F2, u⟩ <;>
  simp only [Option.some.injEq, Prod.mk.injEq, forall_eq', and_imp, forall_apply_eq_imp_iff, forall_eq_apply_imp_iff,
    reduceCtorEq, false_implies, implies_true, forall_const] at hlp hrp hlow hup))

theorem Shp.findK_init (s : Shp) (h : s.WF) : findK .init s.build = some s.ini := by
  shp_split s h
  all_goals simp [Shp.build, optL, lowL, upL, findK_cons, findK_fillers, *]

theorem Shp.findK_low (s : Shp) (h : s.WF) : findK .low s.build = s.low.map (·.1) := by
  shp_split s h
  all_goals simp [Shp.build, optL, lowL, upL, findK_cons, findK_fillers, findK_tail, *]

theorem Shp.findK_up (s : Shp) (h : s.WF) : findK .up s.build = s.up.map (·.2) := by
  shp_split s h
  all_goals simp [Shp.build, optL, lowL, upL, findK_cons, findK_fillers, findK_tail, *]

theorem Shp.hasK_fix (s : Shp) (h : s.WF) : hasK .fix s.build = hasK .fix s.tail := by
  shp_split s h
  all_goals simp [Shp.build, optL, lowL, upL, hasK_cons, hasK_fillers, *]

theorem Shp.findK_rep (s : Shp) (h : s.WF) : findK .rep s.build = findK .rep s.tail := by
  shp_split s h
  all_goals simp [Shp.build, optL, lowL, upL, findK_cons, findK_fillers, *]

theorem Shp.firstFix (s : Shp) (h : s.WF) :
    firstFixInParens false s.build = if hasK .fix s.tail then some false else none := by
  shp_split s h
  all_goals simp [Shp.build, optL, lowL, upL, firstFixInParens, firstFixInParens_fillers, firstFixInParens_false_tail, *]

theorem Fillers.comma : Fillers [tokComma] := by
  intro x hx; simp at hx; subst hx; simp [tokComma]

theorem Shp.replaceFirst_init (s : Shp) (h : s.WF) (new : TNode) (hn : new.k = .init) :
    replaceFirst new s.build = { s with ini := new }.build := by
  shp_split s h
  all_goals simp [Shp.build, optL, lowL, upL, replaceFirst, replaceFirst_fillers, *]

theorem Shp.addUpper_build (s : Shp) (h : s.WF) (hu : s.up = none) (u : TNode) :
    addUpper u s.build = { s with up := some ([tokComma], u) }.build := by
  shp_split s h
  all_goals simp at hu
  all_goals simp [Shp.build, optL, lowL, upL, addUpper, addUpper_fillers, addUpper_tail, *]

theorem Shp.removeUpper_build (s : Shp) (h : s.WF) (hu : s.up.isSome) :
    removeUpper s.build = { s with up := none }.build := by
  shp_split s h
  all_goals simp at hu
  all_goals simp [Shp.build, optL, lowL, upL, removeUpper, removeUpperAux, removeUpperAux_false_fillers,
    removeUpperAux_true_fillers, removeUpperAux_false_tail, *]


theorem Shp.removeLower_build (s : Shp) (h : s.WF) (hl : s.low.isSome) :
    removeLower s.build = { s with low := none }.build := by
  shp_split s h
  all_goals simp at hl
  all_goals simp [Shp.build, optL, lowL, upL, removeLower, removeLowerAux, removeLowerAux_false_fillers,
    removeLowerAux_true_fillers, removeLowerAux_false_tail, *]

theorem Shp.addLower_build (s : Shp) (h : s.WF) (hl : s.low = none) (lo : TNode) :
    addLower lo s.build = { s with low := some (lo, [tokComma]) }.build := by
  shp_split s h
  all_goals simp at hl
  all_goals simp [Shp.build, optL, lowL, upL, addLower, addLower_fillers, addLower_tail, *]

theorem replaceBound_cons (new x : TNode) (xs : List TNode) :
    replaceBound new (x :: xs) = (if x.k = new.k then new else x) :: replaceBound new xs := by
  simp [replaceBound]

theorem removeParens_cons (x : TNode) (xs : List TNode) :
    removeParens (x :: xs) = if x.k = .lpar ∨ x.k = .rpar then removeParens xs else x :: removeParens xs := by
  simp only [removeParens, List.filter_cons]
  by_cases h1 : x.k = .lpar <;> by_cases h2 : x.k = .rpar <;> simp [h1, h2]

theorem Shp.replaceBound_up (s : Shp) (h : s.WF) (new : TNode) (hn : new.k = .up) :
    replaceBound new s.build = { s with up := s.up.map (fun (p : List TNode × TNode) => (p.1, new)) }.build := by
  shp_split s h
  all_goals simp [Shp.build, optL, lowL, upL, replaceBound_cons, replaceBound_fillers, replaceBound_tail, *]

theorem Shp.replaceBound_low (s : Shp) (h : s.WF) (new : TNode) (hn : new.k = .low) :
    replaceBound new s.build = { s with low := s.low.map (fun (p : TNode × List TNode) => (new, p.2)) }.build := by
  shp_split s h
  all_goals simp [Shp.build, optL, lowL, upL, replaceBound_cons, replaceBound_fillers, replaceBound_tail, *]

theorem Shp.removeParens_build (s : Shp) (h : s.WF) :
    removeParens s.build = { s with lp := none, rp := none }.build := by
  shp_split s h
  all_goals simp [Shp.build, optL, lowL, upL, removeParens_cons, removeParens_fillers, removeParens_tail, *]

theorem Shp.addParens_build (s : Shp) (h : s.WF) (hin : s.Input) (hl : s.low.isSome) :
    addParens s.build = if s.lp.isSome then s.build else { s with lp := some tokLpar, rp := some tokRpar }.build := by
  unfold Shp.Input at hin
  shp_split s h
  all_goals simp at hl
  all_goals simp at hin
  all_goals simp [Shp.build, optL, lowL, upL, addParens, addParensAux, addParensAux_fillers, addParensAux_tail,
    hasK_cons, hasK_fillers, hasK_tail, *]


/-! ### remove_token_and_space -/

theorem rmFixAux_cons_nonfix (acc : List TNode) (x : TNode) (xs : List TNode) (hx : x.k ≠ .fix) :
    rmFixAux acc (x :: xs) = rmFixAux (x :: acc) xs := by
  simp [rmFixAux, hx]

theorem rmFixAux_fillers (acc : List TNode) {F : List TNode} (hF : Fillers F) (r : List TNode) :
    rmFixAux acc (F ++ r) = rmFixAux (F.reverse ++ acc) r := by
  induction F generalizing acc with
  | nil => rfl
  | cons x F ih =>
    have ⟨hx, hF'⟩ := hF.cons
    have : x.k ≠ .fix := by rcases hx with h | h | h <;> simp [h]
    simp [rmFixAux_cons_nonfix, this, ih _ hF']

/-- below a non-blank element of the output stack nothing is ever popped -/
theorem rmFixAux_base (A : List TNode) (b : TNode) (B : List TNode) (T : List TNode) (hb : b.k ≠ .ws) :
    rmFixAux (A ++ b :: B) T = (b :: B).reverse ++ rmFixAux A T := by
  induction T generalizing A with
  | nil => simp [rmFixAux]
  | cons x T ih =>
    by_cases hx : x.k = .fix
    · cases A with
      | nil =>
        have := ih []
        simp only [List.nil_append] at this
        simp [rmFixAux, hx, hb, this]
      | cons a A =>
        by_cases ha : a.k = .ws
        · simp [rmFixAux, hx, ha, ih A]
        · have := ih (a :: A)
          simp only [List.cons_append] at this
          simp [rmFixAux, hx, ha, this]
    · have := ih (x :: A)
      simp only [List.cons_append] at this
      simp [rmFixAux, hx, this]

theorem rmFixAux_tailNodes (acc T : List TNode) (ha : TailNodes acc) (hT : TailNodes T) :
    TailNodes (rmFixAux acc T) := by
  induction T generalizing acc with
  | nil =>
    simp only [rmFixAux]
    intro x hx
    exact ha x (by simpa using hx)
  | cons x T ih =>
    have ⟨hx, hT'⟩ := hT.cons
    by_cases hf : x.k = .fix
    · cases acc with
      | nil => simpa [rmFixAux, hf] using ih [] TailNodes.nil hT'
      | cons a acc =>
        have ⟨_, ha'⟩ := ha.cons
        by_cases hw : a.k = .ws
        · simpa [rmFixAux, hf, hw] using ih acc ha' hT'
        · simpa [rmFixAux, hf, hw] using ih (a :: acc) ha hT'
    · have : TailNodes (x :: acc) := by
        intro y hy
        simp at hy
        rcases hy with rfl | hy
        · exact hx
        · exact ha y hy
      simpa [rmFixAux, hf] using ih (x :: acc) this hT'

theorem rmFixAux_noFix (acc T : List TNode) (ha : hasK .fix acc = false) :
    hasK .fix (rmFixAux acc T) = false := by
  induction T generalizing acc with
  | nil => simpa [rmFixAux, hasK] using ha
  | cons x T ih =>
    by_cases hf : x.k = .fix
    · cases acc with
      | nil => simpa [rmFixAux, hf] using ih [] rfl
      | cons a acc =>
        have ha' : hasK .fix acc = false := by
          simp [hasK_cons] at ha; exact ha.2
        by_cases hw : a.k = .ws
        · simpa [rmFixAux, hf, hw] using ih acc ha'
        · simpa [rmFixAux, hf, hw] using ih (a :: acc) ha
    · have : hasK .fix (x :: acc) = false := by simp [hasK_cons, hf, ha]
      simpa [rmFixAux, hf] using ih (x :: acc) this

theorem findK_append (k : K) (A B : List TNode) :
    findK k (A ++ B) = (findK k A).or (findK k B) := by
  simp [findK, List.find?_append]

theorem rmFixAux_findRep (acc T : List TNode) :
    findK .rep (rmFixAux acc T) = findK .rep (acc.reverse ++ T) := by
  induction T generalizing acc with
  | nil => simp [rmFixAux]
  | cons x T ih =>
    by_cases hf : x.k = .fix
    · cases acc with
      | nil => simp [rmFixAux, hf, ih, findK_cons]
      | cons a acc =>
        by_cases hw : a.k = .ws
        · simp [rmFixAux, hf, hw, ih, findK_append, findK_cons]
        · simp [rmFixAux, hf, hw, ih, findK_append, findK_cons]
    · simp [rmFixAux, hf, ih, findK_append, findK_cons]


/-! ### the steps of `_update_theta` on a shape -/

theorem rmFixAux_base' (b : TNode) (B T : List TNode) (hb : b.k ≠ .ws) :
    rmFixAux (b :: B) T = (b :: B).reverse ++ rmFixAux [] T := by
  simpa using rmFixAux_base [] b B T hb

theorem Shp.rmFix_build (s : Shp) (h : s.WF) (hin : s.Input) :
    rmFix s.build = { s with tail := rmFixAux [] s.tail }.build := by
  unfold Shp.Input at hin
  shp_split s h
  all_goals simp at hin
  all_goals simp [Shp.build, optL, lowL, upL, rmFix, rmFixAux_cons_nonfix, rmFixAux_fillers, rmFixAux_base', *]

theorem Shp.appendFix_build (s : Shp) :
    s.build ++ [tokWs, tokFix] = { s with tail := s.tail ++ [tokWs, tokFix] }.build := by
  simp [Shp.build]

theorem TailNodes.append {A B : List TNode} (ha : TailNodes A) (hb : TailNodes B) : TailNodes (A ++ B) := by
  intro x hx
  rcases List.mem_append.mp hx with h | h
  · exact ha x h
  · exact hb x h

theorem TailNodes.wsFix : TailNodes [tokWs, tokFix] := by
  intro x hx
  simp at hx
  rcases hx with rfl | rfl <;> simp [tokWs, tokFix]

theorem hasK_append (k : K) (A B : List TNode) : hasK k (A ++ B) = (hasK k A || hasK k B) := by
  simp [hasK]

def Shp.mult (s : Shp) : Nat := multiple s.tail

theorem Shp.multiple_build (s : Shp) (h : s.WF) : multiple s.build = s.mult := by
  simp [multiple, Shp.mult, Shp.findK_rep s h]

theorem Shp.hasK_low (s : Shp) (h : s.WF) : hasK .low s.build = s.low.isSome := by
  shp_split s h
  all_goals simp [Shp.build, optL, lowL, upL, hasK_cons, hasK_fillers, hasK_tail, *]

theorem Shp.hasK_up (s : Shp) (h : s.WF) : hasK .up s.build = s.up.isSome := by
  shp_split s h
  all_goals simp [Shp.build, optL, lowL, upL, hasK_cons, hasK_fillers, hasK_tail, *]

/-- step 1 -/
theorem Shp.setInit_step (s : Shp) (h : s.WF) (hin : s.Input) (p : Param) :
    ∃ s' : Shp, setInit s.build p = s'.build ∧ s'.WF ∧ s'.Input ∧ s'.ini.val = p.init ∧
      s'.low = s.low ∧ s'.up = s.up ∧ s'.tail = s.tail ∧ s'.lp = s.lp ∧ (s.ini.val = p.init → s' = s) := by
  unfold setInit
  rw [Shp.findK_init s h]
  by_cases hv : s.ini.val = p.init
  · exact ⟨s, by simp [hv], h, hin, hv, rfl, rfl, rfl, rfl, fun _ => rfl⟩
  · refine ⟨{ s with ini := numNode .init p.initS p.init }, ?_, ?_, ?_, rfl, rfl, rfl, rfl, rfl, fun hh => absurd hh hv⟩
    · show (if s.ini.val ≠ p.init then replaceFirst (numNode K.init p.initS p.init) s.build else s.build) = _
      rw [if_pos hv]
      exact Shp.replaceFirst_init s h _ (by simp [numNode])
    · exact { h with ini := by simp [numNode] }
    · exact hin

/-- step 2 -/
theorem Shp.setFix_step (s : Shp) (h : s.WF) (hin : s.Input) (p : Param) :
    ∃ s' : Shp, setFix s.build p = s'.build ∧ s'.WF ∧ s'.Input ∧ s'.ini = s.ini ∧
      s'.low = s.low ∧ s'.up = s.up ∧ hasK .fix s'.tail = p.fix ∧ s'.mult = s.mult ∧ s'.lp = s.lp ∧
      (hasK .fix s.tail = p.fix → s' = s) := by
  unfold setFix
  rw [Shp.hasK_fix s h]
  by_cases hf : hasK .fix s.tail = p.fix
  · exact ⟨s, by simp [hf], h, hin, rfl, rfl, rfl, hf, rfl, rfl, fun _ => rfl⟩
  · by_cases hp : p.fix = true
    · refine ⟨{ s with tail := s.tail ++ [tokWs, tokFix] }, ?_, ?_, hin, rfl, rfl, rfl, ?_, ?_, rfl, fun hh => absurd hh hf⟩
      · rw [if_pos hf, if_pos hp]
        exact Shp.appendFix_build s
      · exact { h with tail := h.tail.append TailNodes.wsFix }
      · simp [hasK_append, hasK_cons, tokWs, tokFix, hp]
      · simp [Shp.mult, multiple, findK_append, findK_cons, tokWs, tokFix]
    · refine ⟨{ s with tail := rmFixAux [] s.tail }, ?_, ?_, hin, rfl, rfl, rfl, ?_, ?_, rfl, fun hh => absurd hh hf⟩
      · rw [if_pos hf, if_neg hp]
        exact Shp.rmFix_build s h hin
      · exact { h with tail := rmFixAux_tailNodes [] s.tail TailNodes.nil h.tail }
      · simp [rmFixAux_noFix [] s.tail rfl]
        simpa using hp
      · simp [Shp.mult, multiple, rmFixAux_findRep]

theorem Shp.WF.setUp {s : Shp} (h : s.WF) (F2 : List TNode) (u : TNode) (hu : u.k = .up) (hF : Fillers F2) :
    ({ s with up := some (F2, u) } : Shp).WF := by
  refine { h with up := ?_ }
  intro F2' u' hh
  simp only [Option.some.injEq, Prod.mk.injEq] at hh
  obtain ⟨rfl, rfl⟩ := hh
  exact ⟨hu, hF⟩

theorem Shp.WF.noUp {s : Shp} (h : s.WF) : ({ s with up := none } : Shp).WF :=
  { h with up := by intro F2' u' hh; simp at hh }

theorem Shp.WF.setLow {s : Shp} (h : s.WF) (lo : TNode) (F1 : List TNode) (hl : lo.k = .low) (hF : Fillers F1) :
    ({ s with low := some (lo, F1) } : Shp).WF := by
  refine { h with low := ?_ }
  intro lo' F1' hh
  simp only [Option.some.injEq, Prod.mk.injEq] at hh
  obtain ⟨rfl, rfl⟩ := hh
  exact ⟨hl, hF⟩

theorem Shp.WF.noLow {s : Shp} (h : s.WF) : ({ s with low := none } : Shp).WF :=
  { h with low := by intro lo' F1' hh; simp at hh }

theorem Shp.WF.noPar {s : Shp} (h : s.WF) : ({ s with lp := none, rp := none } : Shp).WF :=
  { h with lp := (by intro x hh; simp at hh), rp := (by intro x hh; simp at hh), both := rfl }

theorem Shp.WF.setPar {s : Shp} (h : s.WF) : ({ s with lp := some tokLpar, rp := some tokRpar } : Shp).WF :=
  { h with lp := (by intro x hh; simp at hh; subst hh; rfl), rp := (by intro x hh; simp at hh; subst hh; rfl), both := rfl }

/-- step 3, the branch that touches the upper bound -/
theorem Shp.setUpperDo_step (s : Shp) (h : s.WF) (hin : s.Input) (p : Param) :
    ∃ s' : Shp, (setUpperDo s.build p).1 = s'.build ∧ s'.WF ∧ s'.Input ∧ s'.ini = s.ini ∧ s'.low = s.low ∧
      s'.up.map (fun q => q.2.val) = (if needUpper p then some p.upper else none) ∧
      s'.tail = s.tail ∧ s'.lp = s.lp ∧
      ((setUpperDo s.build p).2 = true → s'.up = none) := by
  unfold setUpperDo
  simp only [Shp.hasK_up s h]
  cases hu : s.up with
  | none =>
    cases hn : needUpper p with
    | true =>
      refine ⟨{ s with up := some ([tokComma], numNode .up p.upperS p.upper) }, ?_,
        h.setUp _ _ (by simp [numNode]) Fillers.comma, hin, rfl, rfl, ?_, rfl, rfl, ?_⟩
      · simp [Shp.addUpper_build s h hu]
      · simp [numNode]
      · simp
    | false =>
      refine ⟨s, ?_, h, hin, rfl, rfl, ?_, rfl, rfl, ?_⟩
      · have := Shp.replaceBound_up s h (numNode .up p.upperS p.upper) (by simp [numNode])
        simp [hu] at this
        simp [this]
        rw [← hu]
      · simp [hu]
      · simp
  | some q =>
    cases hn : needUpper p with
    | false =>
      refine ⟨{ s with up := none }, ?_, h.noUp, hin, rfl, rfl, ?_, rfl, rfl, ?_⟩
      · simp [Shp.removeUpper_build s h (by simp [hu])]
      · simp
      · simp
    | true =>
      refine ⟨{ s with up := some (q.1, numNode .up p.upperS p.upper) }, ?_,
        h.setUp _ _ (by simp [numNode]) (h.up q.1 q.2 (by simp [hu])).2, hin, rfl, rfl, ?_, rfl, rfl, ?_⟩
      · have := Shp.replaceBound_up s h (numNode .up p.upperS p.upper) (by simp [numNode])
        simp [hu] at this
        simp [this]
      · simp [numNode]
      · simp

/-- step 4, the branch that touches the lower bound -/
theorem Shp.setLowerDo_step (s : Shp) (h : s.WF) (hin : s.Input) (n : Nat) (p : Param) :
    ∃ s' : Shp, setLowerDo s.low.isSome n s.build p = s'.build ∧ s'.WF ∧ s'.ini = s.ini ∧
      (s'.up = s.up ∨ (s'.up = none ∧ s.low.isSome = true ∧ needLower p = false)) ∧
      s'.low.map (fun q => q.1.val) = (if needLower p then some p.lower else none) ∧ s'.tail = s.tail := by
  unfold setLowerDo
  cases hl : s.low with
  | none =>
    cases hn : needLower p with
    | true =>
      let s1 : Shp := { s with low := some (numNode .low p.lowerS p.lower, [tokComma]) }
      have h1 : s1.WF := h.setLow _ _ (by simp [numNode]) Fillers.comma
      have hin1 : s1.Input := hin
      have e1 : addLower (numNode .low p.lowerS p.lower) s.build = s1.build := Shp.addLower_build s h hl _
      have e2 := Shp.addParens_build s1 h1 hin1 (by simp [s1])
      cases hp : s.lp with
      | none =>
        refine ⟨{ s1 with lp := some tokLpar, rp := some tokRpar }, ?_, h1.setPar, rfl, Or.inl rfl, ?_, rfl⟩
        · simp only [Option.isSome_none, Bool.not_false, Bool.and_self, ↓reduceIte, e1]
          rw [e2]
          simp [s1, hp]
        · simp [s1, numNode]
      | some x =>
        refine ⟨s1, ?_, h1, rfl, Or.inl rfl, ?_, rfl⟩
        · simp only [Option.isSome_none, Bool.not_false, Bool.and_self, ↓reduceIte, e1]
          rw [e2]
          simp [s1, hp]
        · simp [s1, numNode]
    | false =>
      refine ⟨s, ?_, h, rfl, Or.inl rfl, ?_, rfl⟩
      · have := Shp.replaceBound_low s h (numNode .low p.lowerS p.lower) (by simp [numNode])
        simp [hl] at this
        simp [this]
        rw [← hl]
      · simp [hl]
  | some q =>
    cases hn : needLower p with
    | false =>
      -- the upper bound, if one is still there, goes first (6b0a1ad)
      let s0 : Shp := { s with up := none }
      have h0 : s0.WF := h.noUp
      have e0 : (if hasK .up s.build then removeUpper s.build else s.build) = s0.build := by
        rw [Shp.hasK_up s h]
        cases hu : s.up with
        | none => simp [s0, hu]; rw [← hu]
        | some u => simp [s0, Shp.removeUpper_build s h (by simp [hu])]
      have e1 := Shp.removeLower_build s0 h0 (by simp [s0, hl])
      by_cases h1 : n = 1
      · refine ⟨{ s0 with low := none, lp := none, rp := none }, ?_, h0.noLow.noPar, rfl,
          Or.inr ⟨rfl, by simp, rfl⟩, ?_, rfl⟩
        · simp only [Option.isSome_some, Bool.not_true, Bool.false_and, Bool.false_eq_true, ↓reduceIte,
            Bool.not_false, Bool.and_self, e0, h1, e1]
          exact Shp.removeParens_build _ h0.noLow
        · simp
      · refine ⟨{ s0 with low := none }, ?_, h0.noLow, rfl, Or.inr ⟨rfl, by simp, rfl⟩, ?_, rfl⟩
        · simp only [Option.isSome_some, Bool.not_true, Bool.false_and, Bool.false_eq_true, ↓reduceIte,
            Bool.not_false, Bool.and_self, e0, h1, e1]
        · simp
    | true =>
      refine ⟨{ s with low := some (numNode .low p.lowerS p.lower, q.2) }, ?_,
        h.setLow _ _ (by simp [numNode]) (h.low q.1 q.2 (by simp [hl])).2, rfl, Or.inl rfl, ?_, rfl⟩
      · have := Shp.replaceBound_low s h (numNode .low p.lowerS p.lower) (by simp [numNode])
        simp [hl] at this
        simp [this]
      · simp [numNode]

theorem Val.lt_irrefl (v : Val) : v.lt v = false := by
  cases v <;> simp [Val.lt]

theorem Val.lt_asymm {a b : Val} (h : a.lt b = true) : b.lt a = false := by
  cases a <;> cases b <;> simp_all [Val.lt]
  omega

theorem Val.ne_of_lt {a b : Val} (h : a.lt b = true) : b ≠ a := by
  intro e; subst e; simp [Val.lt_irrefl] at h

theorem lowerOf_written (l : Val) (b : Bool) (h1 : minLower.lt l = true ∨ l = .ninf) (h2 : b = false → l = .ninf) :
    lowerOf (if b then some l else none) = .ok l := by
  cases b with
  | false => simp [lowerOf, h2 rfl]
  | true =>
    rcases h1 with h | h
    · have hne := Val.ne_of_lt h
      have hge := Val.lt_asymm h
      cases l <;> simp_all [lowerOf]
    · subst h; simp [lowerOf]

theorem upperOf_written (u : Val) (b : Bool) (h1 : u.lt maxUpper = true ∨ u = .pinf) (h2 : b = false → u = .pinf) :
    upperOf (if b then some u else none) = .ok u := by
  cases b with
  | false => simp [upperOf, h2 rfl]
  | true =>
    rcases h1 with h | h
    · have hne : u ≠ maxUpper := fun e => by subst e; simp [Val.lt_irrefl] at h
      have hge := Val.lt_asymm h
      cases u <;> simp_all [upperOf]
    · subst h; simp [upperOf]

/-- a bound that is left alone because it already reads as the new value reads back as that value -/
theorem upperOf_of_cur (uptok : Option Val) (u : Val) (hc : curUpper uptok = u)
    (h1 : u.lt maxUpper = true ∨ u = .pinf) : upperOf uptok = .ok u := by
  cases uptok with
  | none => simp [curUpper] at hc; simp [upperOf, hc]
  | some v =>
    by_cases hv : v = maxUpper
    · simp [curUpper, hv] at hc
      subst hc; subst hv
      simp [upperOf, maxUpper]
    · simp [curUpper, hv] at hc
      subst hc
      simpa using upperOf_written v true h1 (by simp)

theorem lowerOf_of_cur (lowtok : Option Val) (l : Val) (hc : curLower lowtok = l)
    (h1 : minLower.lt l = true ∨ l = .ninf) : lowerOf lowtok = .ok l := by
  cases lowtok with
  | none => simp [curLower] at hc; simp [lowerOf, hc]
  | some v =>
    by_cases hv : v = minLower
    · simp [curLower, hv] at hc
      subst hc; subst hv
      simp [lowerOf, minLower]
    · simp [curLower, hv] at hc
      subst hc
      simpa using lowerOf_written v true h1 (by simp)

def Shp.upV (s : Shp) : Option Val := s.up.map (fun q => q.2.val)
def Shp.lowV (s : Shp) : Option Val := s.low.map (fun q => q.1.val)

theorem Shp.valK_up (s : Shp) (h : s.WF) : valK .up s.build = s.upV := by
  simp only [valK, Shp.findK_up s h, Shp.upV, Option.map_map]
  rfl

theorem Shp.valK_low (s : Shp) (h : s.WF) : valK .low s.build = s.lowV := by
  simp only [valK, Shp.findK_low s h, Shp.lowV, Option.map_map]
  rfl

/-- step 3 -/
theorem Shp.setUpper_step (s : Shp) (h : s.WF) (hin : s.Input) (p : Param) :
    ∃ s' : Shp, (setUpper s.build p).1 = s'.build ∧ s'.WF ∧ s'.Input ∧ s'.ini = s.ini ∧ s'.low = s.low ∧
      s'.tail = s.tail ∧ s'.lp = s.lp ∧
      (p.upper.lt maxUpper = true ∨ p.upper = .pinf → upperOf s'.upV = .ok p.upper) ∧
      ((setUpper s.build p).2 = true → curUpper s.upV ≠ p.upper) ∧
      (curUpper s.upV = p.upper → s' = s) := by
  unfold setUpper
  rw [Shp.valK_up s h]
  by_cases hc : curUpper s.upV = p.upper
  · refine ⟨s, by simp [hc], h, hin, rfl, rfl, rfl, rfl, ?_, by simp [hc], fun _ => rfl⟩
    intro hU
    exact upperOf_of_cur _ _ hc hU
  · obtain ⟨s', e, hw, hi', hini, hlow, hup, htail, hlp, _⟩ := Shp.setUpperDo_step s h hin p
    refine ⟨s', by simp [hc, e], hw, hi', hini, hlow, htail, hlp, ?_, fun _ => hc, fun hh => absurd hh hc⟩
    intro hU
    simp only [Shp.upV, hup]
    apply upperOf_written _ _ hU
    intro hn
    rcases hU with hu | hu
    · simp [needUpper, hu] at hn
    · exact hu

/-- step 4 -/
theorem Shp.setLower_step (s : Shp) (h : s.WF) (hin : s.Input) (n : Nat) (removedU : Bool) (p : Param) :
    ∃ s' : Shp, setLower s.low.isSome n s.lowV removedU s.build p = s'.build ∧ s'.WF ∧ s'.ini = s.ini ∧
      (s'.up = s.up ∨ (s'.up = none ∧ s.low.isSome = true ∧ needLower p = false)) ∧ s'.tail = s.tail ∧
      (minLower.lt p.lower = true ∨ p.lower = .ninf → lowerOf s'.lowV = .ok p.lower) ∧
      (curLower s.lowV = p.lower → (s.low = none → needLower p = false) →
        (removedU = true → needLower p = true) → s' = s) := by
  unfold setLower
  by_cases hc : (curLower s.lowV ≠ p.lower || (!s.low.isSome && needLower p) ||
      (removedU && s.low.isSome && !needLower p)) = true
  · obtain ⟨s', e, hw, hini, hup, hlow, htail⟩ := Shp.setLowerDo_step s h hin n p
    refine ⟨s', by rw [if_pos hc]; exact e, hw, hini, hup, htail, ?_, ?_⟩
    · intro hL
      simp only [Shp.lowV, hlow]
      apply lowerOf_written _ _ hL
      intro hn
      rcases hL with hl | hl
      · simp [needLower, hl] at hn
      · exact hl
    · intro h1 h2 h3
      exfalso
      simp only [Bool.or_eq_true, Bool.and_eq_true, Bool.not_eq_true', decide_eq_true_eq] at hc
      rcases hc with (hc | hc) | hc
      · exact hc h1
      · cases hs : s.low with
        | none => simp [h2 hs] at hc
        | some q => simp [hs] at hc
      · have := h3 hc.1.1
        simp [this] at hc
  · refine ⟨s, by rw [if_neg hc], h, rfl, Or.inl rfl, rfl, ?_, fun _ _ _ => rfl⟩
    intro hL
    simp only [Bool.or_eq_true, Bool.and_eq_true, Bool.not_eq_true', decide_eq_true_eq, not_or, ne_eq,
      Decidable.not_not] at hc
    exact lowerOf_of_cur _ _ hc.1.1 hL

/-! ### parse of a shape -/

/-- what `inits`/`bounds`/`fixs`/parsing.py compute from the four observed values -/
def parseView (init : Val) (lowtok uptok : Option Val) (fix : Bool) : Except PErr Parsed :=
  match lowerOf lowtok with
  | .error e => .error e
  | .ok lower =>
  match upperOf uptok with
  | .error e => .error e
  | .ok upper =>
  if init = maxUpper || init = minLower then .error .initIsBound else
  if !fix && uptok.isNone && lowtok = some init then .error .lowEqInit else
  if !fix && init = zero then .error .zeroInit else
  let fix' := if lower = upper && upper = init then true else fix
  if init.lt lower || upper.lt init then .error .initOutside else
  .ok { init := init, lower := lower, upper := upper, fix := fix' }

theorem Shp.parse_build (s : Shp) (h : s.WF) :
    parseItem s.build = parseView s.ini.val s.lowV s.upV (hasK .fix s.tail) := by
  unfold parseItem parseView valK Shp.lowV Shp.upV
  rw [Shp.findK_init s h, Shp.findK_low s h, Shp.findK_up s h, Shp.firstFix s h]
  simp only [Option.map_some, Option.map_map, Function.comp_def]
  cases hf : hasK .fix s.tail <;> simp <;> rfl

/-- whatever bound tokens are present: if they read back as the parameter's bounds, the item reads back
    as the parameter -/
theorem parseView_ok (p : Param) (h : ParamOK p = true) (lowtok uptok : Option Val)
    (hl : lowerOf lowtok = .ok p.lower) (hu : upperOf uptok = .ok p.upper) :
    parseView p.init lowtok uptok p.fix =
      .ok { init := p.init, lower := p.lower, upper := p.upper, fix := p.fix } := by
  simp only [ParamOK, Bool.and_eq_true, Bool.or_eq_true, Bool.not_eq_true', beq_iff_eq] at h
  obtain ⟨⟨⟨⟨⟨⟨⟨⟨⟨hfin, hlo⟩, hup⟩, hmax⟩, hmin⟩, hle⟩, hz⟩, haf⟩, hil⟩, hui⟩ := h
  simp only [beq_eq_false_iff_ne, ne_eq] at hmin hmax
  -- the "lower bound equal to init" refusal cannot fire
  have hcheck : (!p.fix && uptok.isNone && decide (lowtok = some p.init)) = false := by
    cases hf : p.fix
    · cases uptok with
      | some v => simp
      | none =>
        by_cases hli : lowtok = some p.init
        · exfalso
          have hpu : p.upper = .pinf := by simpa [upperOf] using hu.symm
          have hnu : needUpper p = false := by rw [needUpper, hpu]; rfl
          have hpl : p.lower = p.init := by
            rw [hli] at hl
            cases hi : p.init with
            | ninf => simp [hi] at hfin
            | pinf => simp [hi] at hfin
            | fin a b =>
              rw [hi] at hl hmin
              simp only [lowerOf] at hl
              by_cases h1 : Val.fin a b = minLower
              · exact absurd h1 hmin
              · simp only [h1, ↓reduceIte] at hl
                by_cases h2 : (Val.fin a b).lt minLower = true
                · simp [h2] at hl
                · simp only [h2] at hl
                  simpa using hl.symm
          simp [hf, hnu, hpl] at hle
        · simp [hli]
    · simp
  unfold parseView
  rw [hl, hu]
  simp only [hcheck]
  cases hf : p.fix <;> simp_all <;> (intro e1 e2; simp_all)

/-! ### the whole `_update_theta` -/

/-- the four steps on a shape, with everything later proofs need about the result -/
theorem Shp.updItem_steps (s : Shp) (h : s.WF) (hin : s.Input) (p : Param) :
    ∃ s4 : Shp, updItem s.build p = s4.build ∧ s4.WF ∧ s4.ini.val = p.init ∧ hasK .fix s4.tail = p.fix ∧
      multiple s4.tail = multiple s.tail ∧
      (p.upper.lt maxUpper = true ∨ p.upper = .pinf → upperOf s4.upV = .ok p.upper) ∧
      (minLower.lt p.lower = true ∨ p.lower = .ninf → lowerOf s4.lowV = .ok p.lower) ∧
      (s.ini.val = p.init → s4.ini = s.ini) ∧
      (hasK .fix s.tail = p.fix → s4.tail = s.tail) ∧
      (curUpper s.upV = p.upper → (s.low.isSome = true → needLower p = true) → s4.up = s.up) ∧
      (curLower s.lowV = p.lower → (s.low = none → needLower p = false) →
        (needLower p = true ∨ curUpper s.upV = p.upper) → s4.low = s.low) ∧
      (s.ini.val = p.init → hasK .fix s.tail = p.fix → curUpper s.upV = p.upper → curLower s.lowV = p.lower →
        (s.low = none → needLower p = false) → s4 = s) := by
  unfold updItem
  obtain ⟨s1, e1, h1, hin1, hv1, hl1, hu1, ht1, hp1, hid1⟩ := Shp.setInit_step s h hin p
  simp only [e1]
  obtain ⟨s2, e2, h2, hin2, hi2, hl2, hu2, hf2, hm2, hp2, hid2⟩ := Shp.setFix_step s1 h1 hin1 p
  simp only [e2]
  obtain ⟨s3, e3, h3, hin3, hi3, hl3, ht3, hp3, hU3, hflag3, hid3⟩ := Shp.setUpper_step s2 h2 hin2 p
  simp only [e3, Shp.hasK_low s2 h2, Shp.valK_low s2 h2]
  have hlow23 : s2.lowV = s3.lowV := by simp [Shp.lowV, hl3]
  rw [← hl3, hlow23]
  obtain ⟨s4, e4, h4, hi4, hu4, ht4, hL4, hid4⟩ :=
    Shp.setLower_step s3 h3 hin3 (multiple s2.build) (setUpper s2.build p).2 p
  have hup2 : s2.upV = s.upV := by simp [Shp.upV, hu2, hu1]
  have hlow3 : s3.lowV = s.lowV := by simp [Shp.lowV, hl3, hl2, hl1]
  have hlow3' : s3.low = s.low := by rw [hl3, hl2, hl1]
  refine ⟨s4, e4, h4, ?_, ?_, ?_, ?_, hL4, ?_, ?_, ?_, ?_, ?_⟩
  · rw [hi4, hi3, hi2]; exact hv1
  · rw [ht4, ht3]; exact hf2
  · simp only [Shp.mult] at hm2
    rw [ht4, ht3, hm2, ht1]
  · intro hU
    have := hU3 hU
    rcases hu4 with hu4 | ⟨hu4, _, hnl⟩
    · simpa [Shp.upV, hu4] using this
    · -- the upper bound went with the lower bound: then no upper bound is needed, i.e. it is +inf
      have hnu : needUpper p = false := by
        simp only [needLower, Bool.or_eq_false_iff] at hnl; exact hnl.2
      have hpu : p.upper = .pinf := by
        rcases hU with hu | hu
        · simp [needUpper, hu] at hnu
        · exact hu
      simp [Shp.upV, hu4, upperOf, hpu]
  · intro hv
    rw [hi4, hi3, hi2, hid1 hv]
  · intro hf
    have : s2 = s1 := hid2 (by rw [ht1]; exact hf)
    rw [ht4, ht3, this, ht1]
  · intro hc hneed
    have : s3 = s2 := hid3 (by rw [hup2]; exact hc)
    rcases hu4 with hu4 | ⟨_, hsome, hnl⟩
    · rw [hu4, this, hu2, hu1]
    · rw [hlow3'] at hsome
      rw [hneed hsome] at hnl
      exact absurd hnl (by simp)
  · intro hc hnone hor
    have hs3 : s4 = s3 := by
      apply hid4
      · rw [hlow3]; exact hc
      · intro hn; exact hnone (by rw [← hlow3']; exact hn)
      · intro hr
        rcases hor with hn | hcu
        · exact hn
        · exact absurd (by rw [hup2]; exact hcu) (hflag3 hr)
    rw [hs3, hlow3']
  · intro hv hf hcu hcl hnone
    have e1' : s1 = s := hid1 hv
    have e2' : s2 = s1 := hid2 (by rw [e1']; exact hf)
    have e3' : s3 = s2 := hid3 (by rw [hup2]; exact hcu)
    have e4' : s4 = s3 := by
      apply hid4
      · rw [hlow3]; exact hcl
      · intro hn; exact hnone (by rw [← hlow3']; exact hn)
      · intro hr
        exact absurd (by rw [hup2]; exact hcu) (hflag3 hr)
    rw [e4', e3', e2', e1']

theorem Shp.updItem_parse (s : Shp) (h : s.WF) (hin : s.Input) (p : Param) (hp : ParamOK p = true) :
    parseItem (updItem s.build p) = .ok p.toParsed ∧ multiple (updItem s.build p) = multiple s.build := by
  obtain ⟨s4, e, h4, hv, hf, hm, hU, hL, _⟩ := Shp.updItem_steps s h hin p
  have hp' := hp
  simp only [ParamOK, Bool.and_eq_true, Bool.or_eq_true, beq_iff_eq] at hp'
  have hlo : minLower.lt p.lower = true ∨ p.lower = .ninf := hp'.1.1.1.1.1.1.1.1.2
  have hup : p.upper.lt maxUpper = true ∨ p.upper = .pinf := hp'.1.1.1.1.1.1.1.2
  refine ⟨?_, ?_⟩
  · rw [e, Shp.parse_build s4 h4, hv, hf, parseView_ok p hp _ _ (hL hlo) (hU hup)]
    rfl
  · rw [e, Shp.multiple_build s4 h4, Shp.multiple_build s h]
    exact hm

/-- `ItemShape cs`: the children list is one of the layouts of `Shp` (no FIX inside the parentheses) -/
def ItemShape (cs : List TNode) : Prop := ∃ s : Shp, s.WF ∧ s.Input ∧ cs = s.build


theorem updItem_reads_back (cs : List TNode) (hs : ItemShape cs) (p : Param) (hp : ParamOK p = true) :
    parseItem (updItem cs p) = .ok p.toParsed ∧ multiple (updItem cs p) = multiple cs := by
  obtain ⟨s, h, hin, rfl⟩ := hs
  exact Shp.updItem_parse s h hin p hp

/-! ### definitions used in the statements of Properties.lean -/

/-- every `theta` subtree of the record has a layout of `Shp` -/
def RecShape (r : List RNode) : Prop := ∀ cs, RNode.item cs ∈ r → ItemShape cs

/-- everything that is not a `theta` subtree (blanks, comments, newlines, options) is kept, in place -/
def nonItems : List RNode → List TNode
  | [] => []
  | .tok t :: r => t :: nonItems r
  | .item _ :: r => nonItems r


/-- drop the entries whose index (counted from `i`) is in `inds` -/
def dropIdx {α : Type} (inds : List Nat) : Nat → List α → List α
  | _, [] => []
  | i, x :: xs => if inds.contains i then dropIdx inds (i + 1) xs else x :: dropIdx inds (i + 1) xs

theorem removeRecAux_parse (inds : List Nat) (i : Nat) (r : List RNode) :
    parseItems (removeRecAux inds i r) = dropIdx inds i (parseItems r) ∧
      nonItems (removeRecAux inds i r) = nonItems r := by
  induction r generalizing i with
  | nil => exact ⟨rfl, rfl⟩
  | cons x r ih =>
    cases x with
    | tok t => simp [removeRecAux, parseItems, nonItems, ih]
    | item cs =>
      by_cases hc : i ∈ inds
      · simp [removeRecAux, parseItems, nonItems, dropIdx, hc, ih]
      · simp [removeRecAux, parseItems, nonItems, dropIdx, hc, ih]


def nNum (k : K) (s : String) (n : Int) (d : Nat := 1) : TNode := numNode k s (.fin n d)
def nRep (n : Nat) : TNode := { k := .rep, rule := "X INT", text := s!"x{n}", cnt := n }
def pSimple (init : Int) (s : String) (fix : Bool := false) : Param :=
  { init := .fin init 1, initS := s, lower := .ninf, lowerS := "-inf", upper := .pinf, upperS := "inf", fix := fix }


/-- `(0 , 3 ,1E2) FIX ;c` style item: a `Shp` with every part present -/
def exShape : Shp :=
  { lp := some tokLpar, F0 := [tokWs], low := some (nNum .low "0" 0, [tokWs, tokComma]),
    ini := nNum .init "3" 3, up := some ([tokComma], nNum .up "1E2" 100), F3 := [], rp := some tokRpar,
    tail := [tokWs, tokFix, nRep 2] }

theorem exShape_wf : exShape.WF ∧ exShape.Input := by
  refine ⟨⟨rfl, ?_, ?_, rfl, ?_, ?_, ?_, ?_, ?_⟩, ?_⟩
  · intro x h; simp [exShape] at h; subst h; rfl
  · intro x h; simp [exShape] at h; subst h; rfl
  · intro x h; simp [exShape] at h; subst h; simp [tokWs]
  · intro x h; simp [exShape] at h
  · intro lo F1 h
    simp [exShape] at h
    obtain ⟨rfl, rfl⟩ := h
    refine ⟨rfl, ?_⟩
    intro x hx; simp at hx; rcases hx with rfl | rfl <;> simp [tokWs, tokComma]
  · intro F2 u h
    simp [exShape] at h
    obtain ⟨rfl, rfl⟩ := h
    exact ⟨rfl, Fillers.comma⟩
  · intro x hx; simp [exShape] at hx; rcases hx with rfl | rfl | rfl <;> simp [tokWs, tokFix, nRep]
  · intro h; simp [exShape] at h


/-! ### general lemmas (arbitrary child lists) for the diagonal omega model -/

@[simp] theorem tokWs_k : tokWs.k = .ws := rfl
@[simp] theorem tokFix_k : tokFix.k = .fix := rfl

theorem hasK_eq_isSome (k : K) (cs : List TNode) : hasK k cs = (findK k cs).isSome := by
  induction cs with
  | nil => rfl
  | cons x xs ih =>
    by_cases h : x.k = k <;> simp [hasK_cons, findK_cons, h, ih]

theorem findK_replaceFirst_ne (new : TNode) (k : K) (hk : k ≠ new.k) (cs : List TNode) :
    findK k (replaceFirst new cs) = findK k cs := by
  induction cs with
  | nil => rfl
  | cons x xs ih =>
    by_cases h : x.k = new.k
    · have : x.k ≠ k := fun e => hk (e ▸ h)
      simp [replaceFirst, h, findK_cons, Ne.symm hk]
    · simp [replaceFirst, h, findK_cons, ih]

theorem findK_replaceFirst_eq (new : TNode) (cs : List TNode) (h : hasK new.k cs = true) :
    findK new.k (replaceFirst new cs) = some new := by
  induction cs with
  | nil => simp at h
  | cons x xs ih =>
    by_cases hx : x.k = new.k
    · simp [replaceFirst, hx, findK_cons]
    · simp [hasK_cons, hx] at h
      simp [replaceFirst, hx, findK_cons, ih h]

theorem rmFixAux_findK (k : K) (hk : k ≠ .ws ∧ k ≠ .fix) (acc T : List TNode) :
    findK k (rmFixAux acc T) = findK k (acc.reverse ++ T) := by
  induction T generalizing acc with
  | nil => simp [rmFixAux]
  | cons x T ih =>
    by_cases hf : x.k = .fix
    · have hxk : x.k ≠ k := fun e => hk.2 (e ▸ hf)
      cases acc with
      | nil => simp [rmFixAux, hf, ih, findK_cons, Ne.symm hk.2]
      | cons a acc =>
        by_cases hw : a.k = .ws
        · simp [rmFixAux, hf, hw, ih, findK_append, findK_cons, Ne.symm hk.2, Ne.symm hk.1]
        · simp [rmFixAux, hf, hw, ih, findK_append, findK_cons, Ne.symm hk.2]
    · simp [rmFixAux, hf, ih, findK_append, findK_cons]

theorem rmFix_findK (k : K) (hk : k ≠ .ws ∧ k ≠ .fix) (cs : List TNode) : findK k (rmFix cs) = findK k cs := by
  simpa [rmFix] using rmFixAux_findK k hk [] cs

theorem rmFix_noFix (cs : List TNode) : hasK .fix (rmFix cs) = false := rmFixAux_noFix [] cs rfl

theorem insertBefore_findK (k : K) (hk : k ≠ .ws ∧ k ≠ .fix) (cs : List TNode) :
    findK k (insertBefore .rpar [tokWs, tokFix] cs) = findK k cs := by
  induction cs with
  | nil => rfl
  | cons x xs ih =>
    by_cases h : x.k = .rpar
    · simp [insertBefore, h, findK_cons, Ne.symm hk.1, Ne.symm hk.2, ih]
    · simp [insertBefore, h, findK_cons, ih]

theorem insertFix_findK (k : K) (hk : k ≠ .ws ∧ k ≠ .fix) (cs : List TNode) :
    findK k (insertBeforeOrAtEnd .rpar [tokWs, tokFix] cs) = findK k cs := by
  unfold insertBeforeOrAtEnd
  cases hf : hasK .rpar cs
  · simp [findK_append, findK_cons, Ne.symm hk.1, Ne.symm hk.2]
  · simp [insertBefore_findK k hk cs]

theorem insertBefore_hasFix (cs : List TNode) (h : hasK .rpar cs = true) :
    hasK .fix (insertBefore .rpar [tokWs, tokFix] cs) = true := by
  induction cs with
  | nil => simp at h
  | cons x xs ih =>
    by_cases hx : x.k = .rpar
    · simp [insertBefore, hx, hasK_cons]
    · simp [hasK_cons, hx] at h
      simp [insertBefore, hx, hasK_cons, ih h]

theorem insertFix_hasFix (cs : List TNode) : hasK .fix (insertBeforeOrAtEnd .rpar [tokWs, tokFix] cs) = true := by
  unfold insertBeforeOrAtEnd
  cases hf : hasK .rpar cs
  · simp [hasK_append, hasK_cons]
  · simpa using insertBefore_hasFix cs hf

theorem setRaw_valInit (cs : List TNode) (p : OParam) (h : hasK .init cs = true) :
    valK .init (setRaw cs p) = some p.raw := by
  unfold setRaw valK
  rw [hasK_eq_isSome] at h
  cases hf : findK .init cs with
  | none => simp [hf] at h
  | some i =>
    by_cases hv : i.val = p.raw
    · simp [hv, hf]
    · have : hasK (numNode .init p.rawS p.raw).k cs = true := by
        rw [hasK_eq_isSome]; simp [numNode, hf]
      simp only [ne_eq, hv, not_false_eq_true, ↓reduceIte]
      have e := findK_replaceFirst_eq (numNode .init p.rawS p.raw) cs this
      simp only [numNode] at e ⊢
      simp [e]

theorem setRaw_findK (k : K) (hk : k ≠ .init) (cs : List TNode) (p : OParam) :
    findK k (setRaw cs p) = findK k cs := by
  unfold setRaw
  cases hf : findK .init cs with
  | none => rfl
  | some i =>
    by_cases hv : i.val = p.raw
    · simp [hv]
    · simp only [ne_eq, hv, not_false_eq_true, ↓reduceIte]
      exact findK_replaceFirst_ne _ k (by simpa [numNode] using hk) cs

/-- what the "all equal" path does to the observations the reader makes -/
theorem updDiagSame_obs (cs : List TNode) (p : OParam) (h : hasK .init cs = true) :
    valK .init (updDiagSame cs p) = some p.raw ∧ hasK .fix (updDiagSame cs p) = p.fix ∧
    hasK .sd (updDiagSame cs p) = hasK .sd cs ∧ hasK .var (updDiagSame cs p) = hasK .var cs ∧
    multiple (updDiagSame cs p) = multiple cs := by
  have hfix0 : hasK .fix (setRaw cs p) = hasK .fix cs := by
    simp [hasK_eq_isSome, setRaw_findK .fix (by simp) cs p]
  have hk : ∀ k : K, k ≠ .init → k ≠ .ws → k ≠ .fix →
      findK k (updDiagSame cs p) = findK k cs := by
    intro k h1 h2 h3
    unfold updDiagSame
    by_cases hf : p.fix = hasK .fix cs
    · simp [hf, setRaw_findK k h1]
    · cases hp : p.fix
      · simp [hp] at hf
        simp [hp, hf, rmFix_findK k ⟨h2, h3⟩, setRaw_findK k h1]
      · simp [hp] at hf
        simp [hp, hf, insertFix_findK k ⟨h2, h3⟩, setRaw_findK k h1]
  refine ⟨?_, ?_, ?_, ?_, ?_⟩
  · unfold updDiagSame valK
    have h0 := setRaw_valInit cs p h
    unfold valK at h0
    by_cases hf : p.fix = hasK .fix cs
    · simp [hf, h0]
    · cases hp : p.fix
      · simp [hp] at hf
        simp [hp, hf, rmFix_findK .init (by simp), h0]
      · simp [hp] at hf
        simp [hp, hf, insertFix_findK .init (by simp), h0]
  · unfold updDiagSame
    by_cases hf : p.fix = hasK .fix cs
    · simp [hf, hfix0]
    · cases hp : p.fix
      · simp [hp] at hf
        simp [hp, hf, rmFix_noFix]
      · simp [hp] at hf
        simp [hp, hf, insertFix_hasFix]
  · simp [hasK_eq_isSome, hk .sd (by simp) (by simp) (by simp)]
  · simp [hasK_eq_isSome, hk .var (by simp) (by simp) (by simp)]
  · simp [multiple, hk .rep (by simp) (by simp) (by simp)]


/-- the diagonal record analogue of `noRepeatSplit`: as many parameters as the record has etas, every
    `(v)xn` item (n ≥ 1) receives n identical parameters -/
def noRepeatSplitD : List DNode → List OParam → Bool
  | [], ps => ps.isEmpty
  | .item cs :: r, ps =>
    match ps with
    | [] => false
    | p :: _ => decide (1 ≤ multiple cs) && (ps.take (multiple cs) == List.replicate (multiple cs) p) &&
        noRepeatSplitD r (ps.drop (multiple cs))
  | _ :: r, ps => noRepeatSplitD r ps

/-- what the reader is expected to see after the update -/
def expectD : List DNode → List OParam → List DParsed
  | [], _ => []
  | .item cs :: r, ps =>
    match ps with
    | [] => []
    | p :: _ => List.replicate (multiple cs) { raw := p.raw, sd := hasK .sd cs, fix := p.fix } ++
        expectD r (ps.drop (multiple cs))
  | _ :: r, ps => expectD r ps

/-- items the reader accepts: an init, not both SD and VAR -/
def DiagOK (r : List DNode) : Prop :=
  ∀ cs, DNode.item cs ∈ r → hasK .init cs = true ∧ (hasK .sd cs && hasK .var cs) = false

def nonItemsD : List DNode → List DNode
  | [] => []
  | .item _ :: r => nonItemsD r
  | x :: r => x :: nonItemsD r

theorem removeDiagAux_parse (inds : List Nat) (i : Nat) (keep : Bool) (r : List DNode) :
    parseDiagItems (removeDiagAux inds i keep r) = dropIdx inds i (parseDiagItems r) := by
  induction r generalizing i keep with
  | nil => rfl
  | cons x r ih =>
    cases x with
    | tok t => cases keep <;> simp [removeDiagAux, parseDiagItems, ih]
    | diagonal t => simp [removeDiagAux, parseDiagItems, ih]
    | item cs =>
      by_cases hc : i ∈ inds
      · simp [removeDiagAux, parseDiagItems, dropIdx, hc, ih]
      · simp [removeDiagAux, parseDiagItems, dropIdx, hc, ih]

/-- once a removed item switched `in_keep` off, nothing is emitted before the next item -/
theorem trailing_removeDiagAux_false (inds : List Nat) (i : Nat) (r : List DNode) :
    trailing (removeDiagAux inds i false r) = [] := by
  induction r generalizing i with
  | nil => rfl
  | cons x r ih =>
    cases x with
    | tok t => simp [removeDiagAux, ih]
    | diagonal t => simp [removeDiagAux, ih]
    | item cs =>
      by_cases hc : i ∈ inds
      · simp [removeDiagAux, hc, ih]
      · simp [removeDiagAux, hc, trailing]

/-- the nodes that follow a kept item are exactly the ones it had -/
theorem trailing_removeDiagAux_true (inds : List Nat) (i : Nat) (r : List DNode) (h : noDiagonal r = true) :
    trailing (removeDiagAux inds i true r) = trailing r := by
  induction r generalizing i with
  | nil => rfl
  | cons x r ih =>
    cases x with
    | tok t => simp [noDiagonal] at h; simp [removeDiagAux, trailing, ih i h]
    | diagonal t => simp [noDiagonal] at h
    | item cs =>
      by_cases hc : i ∈ inds
      · simp [removeDiagAux, hc, trailing, trailing_removeDiagAux_false]
      · simp [removeDiagAux, hc, trailing]

theorem removeDiagAux_names_noDiagonal (inds : List Nat) (i : Nat) (keep : Bool) (r : List DNode)
    (h : noDiagonal r = true) :
    diagNames (removeDiagAux inds i keep r) = dropIdx inds i (diagNames r) := by
  induction r generalizing i keep with
  | nil => rfl
  | cons x r ih =>
    cases x with
    | tok t => simp [noDiagonal] at h; cases keep <;> simp [removeDiagAux, diagNames, ih _ _ h]
    | diagonal t => simp [noDiagonal] at h
    | item cs =>
      simp [noDiagonal] at h
      by_cases hc : i ∈ inds
      · simp [removeDiagAux, diagNames, dropIdx, hc, ih _ _ h]
      · simp [removeDiagAux, diagNames, dropIdx, hc, ih _ _ h, trailing_removeDiagAux_true inds (i + 1) r h]

theorem removeDiagAux_names (inds : List Nat) (i : Nat) (keep : Bool) (r : List DNode)
    (h : diagonalInFront r = true) :
    diagNames (removeDiagAux inds i keep r) = dropIdx inds i (diagNames r) := by
  induction r generalizing i keep with
  | nil => rfl
  | cons x r ih =>
    cases x with
    | tok t => simp [diagonalInFront] at h; cases keep <;> simp [removeDiagAux, diagNames, ih _ _ h]
    | diagonal t => simp [diagonalInFront] at h; simp [removeDiagAux, diagNames, ih _ _ h]
    | item cs =>
      simp [diagonalInFront] at h
      exact removeDiagAux_names_noDiagonal inds i keep (.item cs :: r) (by simp [noDiagonal, h])

theorem dropIdx_nil {α : Type} (i : Nat) (xs : List α) : dropIdx [] i xs = xs := by
  induction xs generalizing i with
  | nil => rfl
  | cons x xs ih => simp [dropIdx, ih]

def nSd : TNode := { k := .sd, rule := "SD", text := "SD" }
def nComment (s : String) : TNode := { k := .other, rule := "COMMENT", text := s }
def nNewline : TNode := { k := .other, rule := "NEWLINE", text := "\n" }
def oP (n : Int) (d : Nat) (s : String) (fix : Bool) : OParam := { raw := .fin n d, rawS := s, fix := fix }


/-! ### the decidable recogniser is sound -/

theorem mem_takeWhile_sat {p : TNode → Bool} {l : List TNode} {x : TNode} (h : x ∈ l.takeWhile p) : p x = true := by
  induction l with
  | nil => simp at h
  | cons y ys ih =>
    by_cases hy : p y = true
    · simp [List.takeWhile, hy] at h
      rcases h with rfl | h
      · exact hy
      · exact ih h
    · simp [List.takeWhile, hy] at h

theorem fillers_takeWhile (l : List TNode) : Fillers (l.takeWhile isFiller) := by
  intro x hx
  have := mem_takeWhile_sat hx
  simpa [isFiller, or_assoc] using this

theorem tailNodes_of_all {T : List TNode} (h : T.all isTailNode = true) : TailNodes T := by
  intro x hx
  have := List.all_eq_true.mp h x hx
  simpa [isTailNode, or_assoc] using this

theorem split_fillers (l : List TNode) : l = l.takeWhile isFiller ++ l.dropWhile isFiller :=
  (List.takeWhile_append_dropWhile).symm

theorem afterInit_sound (lp : TNode) (hlp : lp.k = .lpar) (F0 : List TNode) (h0 : Fillers F0)
    (low : Option (TNode × List TNode)) (hlow : ∀ lo F1, low = some (lo, F1) → lo.k = .low ∧ Fillers F1)
    (i : TNode) (hi : i.k = .init) (r4 : List TNode) (s : Shp) (h : afterInit lp F0 low i r4 = some s) :
    s.WF ∧ s.Input ∧ lp :: (F0 ++ (lowL low ++ i :: r4)) = s.build := by
  unfold afterInit at h
  have e4 := split_fillers r4
  cases hd : r4.dropWhile isFiller with
  | nil => simp [hd] at h
  | cons z r5 =>
    simp only [hd] at h
    by_cases hz : z.k = .up
    · simp only [hz, ↓reduceIte] at h
      have e5 := split_fillers r5
      cases hd5 : r5.dropWhile isFiller with
      | nil => simp [hd5] at h
      | cons rp T =>
        simp only [hd5] at h
        by_cases hc : rp.k = .rpar ∧ T.all isTailNode = true
        · rw [if_pos hc] at h
          simp only [Option.some.injEq] at h
          subst h
          refine ⟨⟨hi, ?_, ?_, rfl, h0, fillers_takeWhile r5, hlow, ?_, tailNodes_of_all hc.2⟩, ?_, ?_⟩
          · intro x hx; simp at hx; subst hx; exact hlp
          · intro x hx; simp at hx; subst hx; exact hc.1
          · intro F2 u hu; simp at hu; obtain ⟨rfl, rfl⟩ := hu; exact ⟨hz, fillers_takeWhile r4⟩
          · intro hn; simp at hn
          · rw [hd] at e4; rw [hd5] at e5
            simp only [Shp.build, optL, upL]
            conv => lhs; rw [e4, e5]
            simp
        · rw [if_neg hc] at h
          simp at h
    · simp only [hz, ↓reduceIte] at h
      by_cases hc : z.k = .rpar ∧ r5.all isTailNode = true
      · rw [if_pos hc] at h
        simp only [Option.some.injEq] at h
        subst h
        refine ⟨⟨hi, ?_, ?_, rfl, h0, fillers_takeWhile r4, hlow, ?_, tailNodes_of_all hc.2⟩, ?_, ?_⟩
        · intro x hx; simp at hx; subst hx; exact hlp
        · intro x hx; simp at hx; subst hx; exact hc.1
        · intro F2 u hu; simp at hu
        · intro hn; simp at hn
        · rw [hd] at e4
          simp only [Shp.build, optL, upL]
          conv => lhs; rw [e4]
          simp
      · rw [if_neg hc] at h
        simp at h

theorem toShp?_sound (cs : List TNode) (s : Shp) (h : toShp? cs = some s) :
    s.WF ∧ s.Input ∧ cs = s.build := by
  cases cs with
  | nil => simp [toShp?] at h
  | cons x rest =>
    simp only [toShp?] at h
    by_cases hx : x.k = .init
    · simp only [hx, ↓reduceIte] at h
      by_cases ht : rest.all isTailNode = true
      · simp only [ht, ↓reduceIte, Option.some.injEq] at h
        subst h
        refine ⟨⟨hx, ?_, ?_, rfl, Fillers.nil, Fillers.nil, ?_, ?_, tailNodes_of_all ht⟩, ?_, ?_⟩
        · intro y hy; simp at hy
        · intro y hy; simp at hy
        · intro lo F1 hl; simp at hl
        · intro F2 u hu; simp at hu
        · intro _; exact ⟨rfl, rfl⟩
        · simp [Shp.build, optL, lowL, upL]
      · simp [ht] at h
    · simp only [hx, ↓reduceIte] at h
      by_cases hl : x.k = .lpar
      · simp only [hl, ↓reduceIte] at h
        have e0 := split_fillers rest
        cases hd : rest.dropWhile isFiller with
        | nil => simp [hd] at h
        | cons y r2 =>
          simp only [hd] at h
          rw [hd] at e0
          by_cases hy : y.k = .low
          · simp only [hy, ↓reduceIte] at h
            have e2 := split_fillers r2
            cases hd2 : r2.dropWhile isFiller with
            | nil => simp [hd2] at h
            | cons i r4 =>
              simp only [hd2] at h
              rw [hd2] at e2
              by_cases hi : i.k = .init
              · simp only [hi, ↓reduceIte] at h
                obtain ⟨hw, hin, hb⟩ := afterInit_sound x hl _ (fillers_takeWhile rest) _
                  (by intro lo F1 hh; simp at hh; obtain ⟨rfl, rfl⟩ := hh; exact ⟨hy, fillers_takeWhile r2⟩) i hi r4 s h
                refine ⟨hw, hin, ?_⟩
                rw [← hb]
                conv => lhs; rw [e0, e2]
                simp [lowL]
              · simp [hi] at h
          · simp only [hy, ↓reduceIte] at h
            by_cases hi : y.k = .init
            · simp only [hi, ↓reduceIte] at h
              obtain ⟨hw, hin, hb⟩ := afterInit_sound x hl _ (fillers_takeWhile rest) none
                (by intro lo F1 hh; simp at hh) y hi r2 s h
              refine ⟨hw, hin, ?_⟩
              rw [← hb]
              conv => lhs; rw [e0]
              simp [lowL]
            · simp [hi] at h
      · simp [hl] at h

theorem shapeOK_sound (cs : List TNode) (h : shapeOK cs = true) : ItemShape cs := by
  unfold shapeOK at h
  cases hs : toShp? cs with
  | none => simp [hs] at h
  | some s =>
    obtain ⟨hw, hin, hb⟩ := toShp?_sound cs s hs
    exact ⟨s, hw, hin, hb⟩


theorem recShapeOK_sound (r : List RNode) (h : recShapeOK r = true) : RecShape r := by
  induction r with
  | nil => intro cs hc; simp at hc
  | cons x r ih =>
    cases x with
    | tok t =>
      intro cs hc
      simp at hc
      exact ih (by simpa [recShapeOK] using h) cs hc
    | item cs0 =>
      simp only [recShapeOK, Bool.and_eq_true] at h
      intro cs hc
      simp at hc
      rcases hc with rfl | hc
      · exact shapeOK_sound _ h.1
      · exact ih h.2 cs hc

/-! ### BLOCK records: the FIX flag -/

def itemNoFix : DNode → Bool
  | .item cs => !hasK .fix cs
  | _ => true

/-- no `omega` subtree carries a FIX -/
def itemsNoFix (r : List DNode) : Bool := r.all itemNoFix

def isBlockTok : DNode → Bool
  | .tok t => t.k == .block
  | _ => false

def hasBlock (r : List DNode) : Bool := r.any isBlockTok

theorem blockFixAux_noItemFix (f : Bool) (r : List DNode) (h : itemsNoFix r = true) :
    blockFixAux f r = .ok f := by
  induction r generalizing f with
  | nil => rfl
  | cons x r ih =>
    simp only [itemsNoFix, List.all_cons, Bool.and_eq_true] at h
    cases x with
    | item cs =>
      have : hasK .fix cs = false := by simpa [itemNoFix] using h.1
      simp [blockFixAux, this, ih f h.2]
    | tok t => simp [blockFixAux, ih f h.2]
    | diagonal t => simp [blockFixAux, ih f h.2]

theorem blockFixAux_false (f : Bool) (r : List DNode) (h : blockFixAux f r = .ok false) :
    f = false ∧ itemsNoFix r = true := by
  induction r generalizing f with
  | nil => simp [blockFixAux] at h; exact ⟨h, rfl⟩
  | cons x r ih =>
    cases x with
    | item cs =>
      by_cases hc : hasK .fix cs = true
      · cases f
        · simp [blockFixAux, hc] at h
          have := (ih true h).1
          simp at this
        · simp [blockFixAux, hc] at h
      · simp only [Bool.not_eq_true] at hc
        simp [blockFixAux, hc] at h
        obtain ⟨h1, h2⟩ := ih f h
        refine ⟨h1, ?_⟩
        simp only [itemsNoFix, List.all_cons, Bool.and_eq_true]
        exact ⟨by simp [itemNoFix, hc], h2⟩
    | tok t =>
      simp [blockFixAux] at h
      obtain ⟨h1, h2⟩ := ih f h
      refine ⟨h1, ?_⟩
      simp only [itemsNoFix, List.all_cons, Bool.and_eq_true]
      exact ⟨rfl, h2⟩
    | diagonal t =>
      simp [blockFixAux] at h
      obtain ⟨h1, h2⟩ := ih f h
      refine ⟨h1, ?_⟩
      simp only [itemsNoFix, List.all_cons, Bool.and_eq_true]
      exact ⟨rfl, h2⟩

theorem rmFixRootAux_noRootFix (acc r : List DNode) (ha : rootHasFix acc = false) :
    rootHasFix (rmFixRootAux acc r) = false := by
  induction r generalizing acc with
  | nil => simpa [rmFixRootAux, rootHasFix] using ha
  | cons x r ih =>
    by_cases hx : isRootFix x = true
    · cases acc with
      | nil => simpa [rmFixRootAux, hx] using ih [] rfl
      | cons a acc =>
        have ha' : rootHasFix acc = false := by
          simp [rootHasFix] at ha ⊢; exact ha.2
        by_cases hw : isRootWs a = true
        · simpa [rmFixRootAux, hx, hw] using ih acc ha'
        · simpa [rmFixRootAux, hx, hw] using ih (a :: acc) ha
    · have : rootHasFix (x :: acc) = false := by
        simp [rootHasFix] at ha ⊢
        exact ⟨by simpa using hx, ha⟩
      simpa [rmFixRootAux, hx] using ih (x :: acc) this

theorem rootHasFix_map_inside (l : List DNode) : rootHasFix (l.map rmFixInside) = rootHasFix l := by
  induction l with
  | nil => rfl
  | cons x l ih =>
    cases x <;> simp [rootHasFix, rmFixInside, isRootFix] at ih ⊢ <;> simp [ih]

theorem itemsNoFix_map_inside (l : List DNode) : itemsNoFix (l.map rmFixInside) = true := by
  induction l with
  | nil => rfl
  | cons x l ih =>
    cases x <;> simp [itemsNoFix, rmFixInside, itemNoFix, rmFix_noFix] at ih ⊢ <;> exact ih

theorem rmFixRec_blockFix (r : List DNode) : blockFix (rmFixRec r) = .ok false := by
  unfold blockFix rmFixRec
  rw [rootHasFix_map_inside, rmFixRootAux_noRootFix [] r rfl]
  exact blockFixAux_noItemFix false _ (itemsNoFix_map_inside _)

theorem insertAfterBlock_rootFix (r : List DNode) (h : hasBlock r = true) :
    rootHasFix (insertAfterBlock [.tok tokWs, .tok tokFix] r) = true := by
  induction r with
  | nil => simp [hasBlock] at h
  | cons x r ih =>
    cases x with
    | tok t =>
      by_cases hb : t.k = .block
      · simp [insertAfterBlock, hb, rootHasFix, isRootFix]
      · have : hasBlock r = true := by simpa [hasBlock, isBlockTok, hb] using h
        simp [insertAfterBlock, hb, rootHasFix, isRootFix] at ih ⊢
        exact Or.inr (ih this)
    | item cs =>
      have : hasBlock r = true := by simpa [hasBlock, isBlockTok] using h
      simp [insertAfterBlock, rootHasFix, isRootFix] at ih ⊢
      exact ih this
    | diagonal t =>
      have : hasBlock r = true := by simpa [hasBlock, isBlockTok] using h
      simp [insertAfterBlock, rootHasFix, isRootFix] at ih ⊢
      exact ih this

theorem insertAfterBlock_items (r : List DNode) :
    itemsNoFix (insertAfterBlock [.tok tokWs, .tok tokFix] r) = itemsNoFix r := by
  induction r with
  | nil => rfl
  | cons x r ih =>
    cases x with
    | tok t =>
      by_cases hb : t.k = .block <;> simp [insertAfterBlock, hb, itemsNoFix, itemNoFix] at ih ⊢ <;> exact ih
    | item cs => simp [insertAfterBlock, itemsNoFix, itemNoFix] at ih ⊢; rw [ih]
    | diagonal t => simp [insertAfterBlock, itemsNoFix, itemNoFix] at ih ⊢; exact ih

/-- the FIX handling at the end of the BLOCK branch reads back, wherever the FIX was written -/
theorem setBlockFix_reads_back (r : List DNode) (f b : Bool) (h : blockFix r = .ok f) (hb : hasBlock r = true) :
    blockFix (setBlockFix f r b) = .ok b := by
  unfold setBlockFix
  by_cases hbf : b = f
  · simp [hbf, h]
  · rw [if_pos hbf]
    cases b with
    | true =>
      have hf : f = false := by cases f <;> simp_all
      subst hf
      obtain ⟨h1, h2⟩ := blockFixAux_false _ _ h
      simp only [↓reduceIte]
      unfold blockFix
      rw [insertAfterBlock_rootFix r hb]
      exact blockFixAux_noItemFix true _ (by rw [insertAfterBlock_items]; exact h2)
    | false =>
      simp only [Bool.false_eq_true, ↓reduceIte]
      exact rmFixRec_blockFix r

/-- no `(v)xn` node of the block has to be split: its n new values are equal -/
def noSplitB : List DNode → List OParam → Bool
  | [], _ => true
  | .item cs :: r, vs =>
    (match vs.take (multiple cs) with
     | [] => true
     | v :: rest => rest.all (fun q => q.raw == v.raw)) && noSplitB r (vs.drop (multiple cs))
  | _ :: r, vs => noSplitB r vs

theorem setRaw_hasFix (cs : List TNode) (v : OParam) : hasK .fix (setRaw cs v) = hasK .fix cs := by
  simp [hasK_eq_isSome, setRaw_findK .fix (by simp) cs v]

theorem updBlockVals_flags (r : List DNode) (vs : List OParam) (hn : noSplitB r vs = true) :
    rootHasFix (updBlockVals r vs) = rootHasFix r ∧ hasBlock (updBlockVals r vs) = hasBlock r ∧
      ∀ f, blockFixAux f (updBlockVals r vs) = blockFixAux f r := by
  induction r generalizing vs with
  | nil => exact ⟨rfl, rfl, fun _ => rfl⟩
  | cons x r ih =>
    cases x with
    | tok t =>
      obtain ⟨h1, h2, h3⟩ := ih vs (by simpa [noSplitB] using hn)
      refine ⟨?_, ?_, ?_⟩
      · simp [updBlockVals, rootHasFix] at h1 ⊢; rw [h1]
      · simp [updBlockVals, hasBlock] at h2 ⊢; rw [h2]
      · intro f; simp [updBlockVals, blockFixAux, h3]
    | diagonal t =>
      obtain ⟨h1, h2, h3⟩ := ih vs (by simpa [noSplitB] using hn)
      refine ⟨?_, ?_, ?_⟩
      · simp [updBlockVals, rootHasFix] at h1 ⊢; rw [h1]
      · simp [updBlockVals, hasBlock] at h2 ⊢; rw [h2]
      · intro f; simp [updBlockVals, blockFixAux, h3]
    | item cs =>
      simp only [noSplitB, Bool.and_eq_true] at hn
      obtain ⟨h1, h2, h3⟩ := ih (vs.drop (multiple cs)) hn.2
      have hitem : ∃ cs', updOmegaItem cs (vs.take (multiple cs)) = [.item cs'] ∧ hasK .fix cs' = hasK .fix cs := by
        unfold updOmegaItem
        cases ht : vs.take (multiple cs) with
        | nil => exact ⟨cs, rfl, rfl⟩
        | cons v rest =>
          have hall : (v :: rest).all (fun q => q.raw == v.raw) = true := by
            have := hn.1
            rw [ht] at this
            simpa using this
          simp only [hall, ↓reduceIte]
          exact ⟨_, rfl, setRaw_hasFix cs v⟩
      obtain ⟨cs', e, hf⟩ := hitem
      refine ⟨?_, ?_, ?_⟩
      · simp [updBlockVals, e, rootHasFix, isRootFix] at h1 ⊢; exact h1
      · simp [updBlockVals, e, hasBlock, isBlockTok] at h2 ⊢; exact h2
      · intro f
        simp only [updBlockVals, e, List.singleton_append, blockFixAux, hf]
        cases hasK .fix cs <;> cases f <;> simp [h3]


def nBlock : TNode := { k := .block, rule := "block", text := "BLOCK(2)" }


/-! ### BLOCK records: a value that did not change keeps the written number (fix f0abfd5) -/

theorem mergeKept_same (written : List Val) (ws : List String) (news : List OParam)
    (h1 : ws.length = written.length) (h2 : news.length = written.length) :
    (mergeKept written ws news (news.map (·.raw))).map (·.raw) = written := by
  induction written generalizing ws news with
  | nil =>
    cases ws <;> cases news <;> simp_all [mergeKept]
  | cons w written ih =>
    cases ws with
    | nil => simp at h1
    | cons s ws =>
      cases news with
      | nil => simp at h2
      | cons n news =>
        simp only [List.length_cons, Nat.add_right_cancel_iff] at h1 h2
        simp [mergeKept, ih ws news h1 h2]

/-- handing every `omega` node its own written value changes nothing -/
theorem updBlockVals_written (r : List DNode) (vals : List OParam)
    (h : vals.map (·.raw) = writtenVals r) : updBlockVals r vals = r := by
  induction r generalizing vals with
  | nil => rfl
  | cons x r ih =>
    cases x with
    | tok t => simp only [updBlockVals]; rw [ih vals (by simpa [writtenVals] using h)]
    | diagonal t => simp only [updBlockVals]; rw [ih vals (by simpa [writtenVals] using h)]
    | item cs =>
      simp only [writtenVals] at h
      have hlen : (List.replicate (multiple cs) ((valK .init cs).getD zero)).length = multiple cs := by simp
      have htake : (vals.take (multiple cs)).map (·.raw) = List.replicate (multiple cs) ((valK .init cs).getD zero) := by
        rw [List.map_take, h, List.take_left' hlen]
      have hdrop : (vals.drop (multiple cs)).map (·.raw) = writtenVals r := by
        rw [List.map_drop, h, List.drop_left' hlen]
      simp only [updBlockVals, ih _ hdrop]
      have hitem : updOmegaItem cs (vals.take (multiple cs)) = [.item cs] := by
        unfold updOmegaItem
        cases ht : vals.take (multiple cs) with
        | nil => rfl
        | cons v rest =>
          rw [ht] at htake
          have hall : ∀ q ∈ v :: rest, q.raw = (valK .init cs).getD zero := by
            intro q hq
            have : q.raw ∈ (v :: rest).map (·.raw) := List.mem_map_of_mem hq
            rw [htake] at this
            exact (List.mem_replicate.mp this).2
          have hv := hall v (by simp)
          have : (v :: rest).all (fun q => q.raw == v.raw) = true := by
            simp only [List.all_eq_true, beq_iff_eq]
            intro q hq; rw [hall q hq, hv]
          simp only [this, ↓reduceIte]
          congr 2
          unfold setRaw
          cases hf : findK .init cs with
          | none => rfl
          | some i =>
            have : i.val = v.raw := by simp [hv, valK, hf]
            simp [this]
      rw [hitem]; rfl

end Pharmpy.C04
