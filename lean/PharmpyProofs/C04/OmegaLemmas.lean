import Mathlib.Tactic.FieldSimp
import Mathlib.Tactic.Ring
import Mathlib.Algebra.Order.Field.Basic
import PharmpyModel.C04.Omega
/-
  C04, omega part: the operations of a field with a chosen "square root"
  function as an instance of the model's `Ops`.
-/
namespace Pharmpy.C04

/-- multiplication and division of a field, `s` as the square root -/
def fieldOps {F : Type} [Field F] (s : F → F) : Ops F := { mul := (· * ·), div := (· / ·), sqrt := s }

end Pharmpy.C04
