import PharmpyProofs.C02.AdvanLemmas
/-
  C02 — property theorems about the ADVAN/TRANS decision and the PK-parameter
  rename tables.  The tables come from `Generated/PkConv.lean`, rewritten from
  `update.py` by translator T2 on every run; the graph tests are the
  hand-written model `PharmpyModel/C02/Advan.lean` (correspondence-checked).
-/
namespace Pharmpy.C02
open CGraph Generated

/-! ### tables (T2) -/

/-- The order of the ADVAN tests in `new_advan_trans` is the one `chooseAdvan` models. -/
theorem advan_ladder_order :
    advanLadder = [("or:nonlin,has_zo", "ADVAN13"), ("match_advan1", "ADVAN1"), ("match_advan2", "ADVAN2"),
      ("match_advan3", "ADVAN3"), ("match_advan4", "ADVAN4"), ("match_advan11", "ADVAN11"),
      ("match_advan12", "ADVAN12"), ("else", "ADVAN5")] := by decide

def oldTransValues : List (Option String) :=
  [none, some "TRANS1", some "TRANS2", some "TRANS3", some "TRANS4", some "TRANS5", some "TRANS6"]

/-- **choose_trans_total** (partial): for every linear ADVAN, every previous TRANS option and both
    outcomes of the symbolic-quotient test, the TRANS chosen by `new_advan_trans` exists for the
    chosen ADVAN — except in the one combination exhibited by `choose_trans_witness`. -/
theorem choose_trans_total_partial :
    ∀ advan ∈ linearAdvans, ∀ old ∈ oldTransValues, ∀ quot : Bool,
      ¬(advan = "ADVAN5" ∧ old = none ∧ quot = true) →
      ∃ t, chooseTrans old advan false quot = some t ∧ t ∈ validTrans advan := by
  decide

/-- The full statement fails: no `TRANS` option on `$SUBROUTINES`, elimination rate a quotient of two
    symbols, general linear model ⇒ `TRANS4`, which does not exist for ADVAN5. -/
theorem choose_trans_witness :
    chooseTrans none "ADVAN5" false true = some "TRANS4" ∧ "TRANS4" ∉ validTrans "ADVAN5" := by
  decide

/-- A nonlinear system gets no TRANS. -/
theorem choose_trans_nonlin (old : Option String) (advan : String) (quot : Bool) :
    chooseTrans old advan true quot = none := by
  simp [chooseTrans]

def transValues : List String := ["TRANS1", "TRANS2", "TRANS3", "TRANS4", "TRANS5", "TRANS6"]

/-- **remap_bijective** (rename tables): every rename dictionary that `pk_param_conversion` can build
    from its literal tables is a partial injection with distinct keys. -/
theorem pk_rename_injective :
    ∀ f ∈ linearAdvans, ∀ t ∈ linearAdvans, ∀ tr ∈ transValues, injectiveDict (renameFor f t tr) = true := by
  decide

/-- **pk_rename_consistent**: for every one-step transition (a depot or one peripheral compartment
    added or removed), every TRANS `t0` of the old ADVAN and the TRANS `t1` the ladder selects, the
    rename dictionary maps the old name of every basic PK parameter to the name the same role has
    under the new (ADVAN, TRANS). -/
theorem pk_rename_consistent_partial :
    ∀ p ∈ adjacent, ∀ t0 ∈ validTrans p.1, ∀ t1,
      chooseTrans (some t0) p.2 false false = some t1 →
      ¬(t0 = "TRANS3" ∧ (p.2 = "ADVAN11" ∨ p.2 = "ADVAN12")) →
      renameConsistent p.1 p.2 t0 t1 = true := by
  decide

/-- The excluded case is a real gap of the table: going from ADVAN3 TRANS3 (CL, V, Q, VSS) to
    ADVAN11 the ladder selects TRANS4, whose central volume is `V1`, but only `Q ↦ Q2` is renamed
    (`update_needed_pk_parameters` then has to introduce `V1 = V`; covered by the monitors only). -/
theorem pk_rename_trans3_witness :
    chooseTrans (some "TRANS3") "ADVAN11" false false = some "TRANS4" ∧
    renameFor "ADVAN3" "ADVAN11" "TRANS4" = [("Q", "Q2")] ∧
    renameConsistent "ADVAN3" "ADVAN11" "TRANS3" "TRANS4" = false := by
  decide

/-! ### ADVAN shapes -/

theorem choose_advan_nonlinear (g : CGraph) (nonlin hasZo : Bool) (res : Nat → Nat → Bool)
    (h : (nonlin || hasZo) = true) : chooseAdvan g nonlin hasZo res = some .a13 := by
  simp [chooseAdvan, h]

/-- Inversion of the ladder: what is known when a given ADVAN is chosen. -/
theorem chooseAdvan_inv (g : CGraph) (res : Nat → Nat → Bool) (a : Advan)
    (h : chooseAdvan g false false res = some a) :
    (a = .a1 ∧ matchAdvan1 g = true) ∨
    (a = .a2 ∧ matchAdvan2 g res = some true) ∨
    (a = .a3 ∧ matchAdvan3 g = some true) ∨
    (a = .a4 ∧ matchAdvan4 g res = some true) ∨
    (a = .a11 ∧ matchAdvan11 g = some true) ∨
    (a = .a12 ∧ matchAdvan12 g res = some true) ∨
    (a = .a5) := by
  unfold chooseAdvan at h
  simp only [Bool.or_self, Bool.false_eq_true, if_false] at h
  split at h
  · simp at h; subst h; simp_all
  · split at h
    · simp at h
    · simp at h; subst h; simp_all
    · split at h
      · simp at h
      · simp at h; subst h; simp_all
      · split at h
        · simp at h
        · simp at h; subst h; simp_all
        · split at h
          · simp at h
          · simp at h; subst h; simp_all
          · split at h
            · simp at h
            · simp at h; subst h; simp_all
            · simp at h; subst h; simp

/-- ADVAN1 ⇒ exactly one compartment, eliminating to the output. -/
theorem advan1_shape (g : CGraph) (wf : WF g) (h : matchAdvan1 g = true) :
    g.n = 1 ∧ HasExactlyEdges g [(1, 0)] := by
  have hn : g.n = 1 := by simpa [matchAdvan1] using h
  refine ⟨hn, ?_⟩
  intro a b
  constructor
  · intro hab
    have h1 := wf.srcIn a b hab
    have h2 := wf.dstIn a b hab
    have h3 := wf.noSelf a
    have ha : a = 1 := by omega
    subst ha
    have hb : b = 0 ∨ b = 1 := by omega
    rcases hb with rfl | rfl
    · simp
    · rw [h3] at hab; cases hab
  · intro hm
    simp at hm
    obtain ⟨rfl, rfl⟩ := hm
    obtain ⟨x, hx⟩ := wf.toOutput
    have := wf.srcIn x 0 hx
    have hx1 : x = 1 := by omega
    subst hx1; exact hx

/-- ADVAN2 ⇒ depot `d` → central `c` → output and nothing else; `d` is the (first) dosing
    compartment. -/
theorem advan2_shape (g : CGraph) (wf : WF g) (res : Nat → Nat → Bool)
    (h : matchAdvan2 g res = some true) :
    ∃ d c, g.n = 2 ∧ d ≠ c ∧ 1 ≤ d ∧ d ≤ 2 ∧ 1 ≤ c ∧ c ≤ 2 ∧
      (∃ ds, g.dosingComps = some ds ∧ ds.headD 0 = d) ∧ res d c = false ∧
      HasExactlyEdges g [(d, c), (c, 0)] := by
  unfold matchAdvan2 at h
  split at h
  · simp at h
  next hn =>
  have hn : g.n = 2 := by simpa using hn
  split at h
  · simp at h
  · simp at h
  next d c hdc =>
  obtain ⟨hds, hs⟩ := depotCentral_some hdc
  split at h
  · simp at h
  next hres =>
  simp only [Option.some.injEq, decide_eq_true_eq] at h
  obtain ⟨e, he⟩ := length_one h
  have fd := succs_singleton hs
  have fc := succs_singleton he
  have hdc' : g.hasEdge d c = true := (fd c).2 rfl
  have hce : g.hasEdge c e = true := (fc e).2 rfl
  have d1 := wf.srcIn d c hdc'
  have c1 := wf.srcIn c e hce
  have e1 := wf.dstIn c e hce
  have dne : d ≠ c := by
    intro hh; subst hh; rw [wf.noSelf] at hdc'; cases hdc'
  have cne : c ≠ e := by
    intro hh; subst hh; rw [wf.noSelf] at hce; cases hce
  have e0 : e = 0 := by
    apply Classical.byContradiction
    intro hne
    have hed : e = d := by omega
    subst hed
    obtain ⟨x, hx⟩ := wf.toOutput
    have x1 := wf.srcIn x 0 hx
    have hxx : x = e ∨ x = c := by omega
    rcases hxx with rfl | rfl
    · have := (fd 0).1 hx; omega
    · have := (fc 0).1 hx; omega
  subst e0
  refine ⟨d, c, hn, dne, by omega, by omega, by omega, by omega, hds, by simpa using hres, ?_⟩
  intro a b
  constructor
  · intro hab
    have a1 := wf.srcIn a b hab
    have hxx : a = d ∨ a = c := by omega
    rcases hxx with rfl | rfl
    · have := (fd b).1 hab; subst this; simp
    · have := (fc b).1 hab; subst this; simp
  · intro hm
    simp at hm
    rcases hm with ⟨rfl, rfl⟩ | ⟨rfl, rfl⟩
    · exact hdc'
    · exact hce

/-- ADVAN3 ⇒ central `c` (the first dosing compartment) ⇄ peripheral `p`, `c` → output, nothing else. -/
theorem advan3_shape (g : CGraph) (wf : WF g) (h : matchAdvan3 g = some true) :
    ∃ c p, g.n = 2 ∧ c ≠ p ∧ 1 ≤ p ∧ p ≤ 2 ∧
      (∃ ds, g.dosingComps = some ds ∧ ds.headD 0 = c) ∧
      HasExactlyEdges g [(c, p), (p, c), (c, 0)] := by
  unfold matchAdvan3 at h
  split at h
  · simp at h
  next hn =>
  have hn : g.n = 2 := by simpa using hn
  cases hd : g.dosingComps with
  | none => simp [hd] at h
  | some ds =>
  simp only [hd] at h
  obtain ⟨c0, hc0e⟩ : ∃ c0, ds.headD 0 = c0 := ⟨_, rfl⟩
  rw [hc0e] at h
  split at h
  · rename_i p hb
    simp only [Option.some.injEq, Bool.not_eq_true', flowNZ_eq g wf] at h
    have fb := bidir_singleton wf hb
    have hp := (fb p).2 rfl
    have p1 := wf.srcIn p _ hp.1
    have c1 := wf.srcIn _ p hp.2
    have cne : c0 ≠ p := by
      intro hh; rw [hh] at hp; rw [wf.noSelf] at hp; cases hp.1
    obtain ⟨x, hx⟩ := wf.toOutput
    have x1 := wf.srcIn x 0 hx
    have hxx : x = p ∨ x = c0 := by omega
    have hc0 : g.hasEdge c0 0 = true := by
      rcases hxx with rfl | rfl
      · rw [h] at hx; cases hx
      · exact hx
    refine ⟨c0, p, hn, cne, p1.1, by omega, ⟨ds, rfl, hc0e⟩, ?_⟩
    intro a b
    constructor
    · intro hab
      have a1 := wf.srcIn a b hab
      have b1 := wf.dstIn a b hab
      have hne : a ≠ b := by intro hh; subst hh; rw [wf.noSelf] at hab; cases hab
      have haa : a = p ∨ a = c0 := by omega
      rcases haa with rfl | rfl
      · have hbb : b = 0 ∨ b = c0 := by omega
        rcases hbb with rfl | rfl
        · rw [h] at hab; cases hab
        · simp
      · have hbb : b = 0 ∨ b = p := by omega
        rcases hbb with rfl | rfl <;> simp
    · intro hm
      simp at hm
      rcases hm with ⟨rfl, rfl⟩ | ⟨rfl, rfl⟩ | ⟨rfl, rfl⟩
      · exact hp.2
      · exact hp.1
      · exact hc0
  · simp at h

/-- **choose_advan_sound (ADVAN4, partial)**: if additionally the central compartment has no flow
    back into the dosing compartment, ADVAN4 ⇒ depot `d` → central `c` ⇄ peripheral `p`,
    `c` → output, and nothing else. -/
theorem advan4_shape_partial (g : CGraph) (wf : WF g) (res : Nat → Nat → Bool)
    (h : matchAdvan4 g res = some true)
    (noBack : ∀ d c, depotCentral g = some (some (d, c)) → g.hasEdge c d = false) :
    ∃ d c p, g.n = 3 ∧ d ≠ c ∧ d ≠ p ∧ c ≠ p ∧
      (∃ ds, g.dosingComps = some ds ∧ ds.headD 0 = d) ∧ res d c = false ∧
      HasExactlyEdges g [(d, c), (c, p), (p, c), (c, 0)] := by
  unfold matchAdvan4 at h
  split at h
  · simp at h
  next hn =>
  have hn : g.n = 3 := by simpa using hn
  split at h
  · simp at h
  · simp at h
  next d c hdc =>
  have nb := noBack d c hdc
  obtain ⟨hds, hs⟩ := depotCentral_some hdc
  split at h
  · simp at h
  next hres =>
  split at h
  · rename_i p hb
    simp only [Option.some.injEq, Bool.not_eq_true', flowNZ_eq g wf, Bool.or_eq_false_iff] at h
    have fd := succs_singleton hs
    have fb := bidir_singleton wf hb
    have hp := (fb p).2 rfl
    have hdc' : g.hasEdge d c = true := (fd c).2 rfl
    have d1 := wf.srcIn d c hdc'
    have c1 := wf.srcIn c p hp.2
    have p1 := wf.srcIn p c hp.1
    have dne : d ≠ c := by intro hh; subst hh; rw [wf.noSelf] at hdc'; cases hdc'
    have cnp : c ≠ p := by intro hh; subst hh; rw [wf.noSelf] at hp; cases hp.1
    have dnp : d ≠ p := by
      intro hh; subst hh; rw [nb] at hp; cases hp.2
    obtain ⟨x, hx⟩ := wf.toOutput
    have x1 := wf.srcIn x 0 hx
    have hxx : x = d ∨ x = c ∨ x = p := by omega
    have hc0 : g.hasEdge c 0 = true := by
      rcases hxx with rfl | rfl | rfl
      · have := (fd 0).1 hx; omega
      · exact hx
      · rw [h.1] at hx; cases hx
    refine ⟨d, c, p, hn, dne, dnp, cnp, hds, by simpa using hres, ?_⟩
    intro a b
    constructor
    · intro hab
      have a1 := wf.srcIn a b hab
      have b1 := wf.dstIn a b hab
      have hne : a ≠ b := by intro hh; subst hh; rw [wf.noSelf] at hab; cases hab
      have haa : a = d ∨ a = c ∨ a = p := by omega
      rcases haa with rfl | rfl | rfl
      · have := (fd b).1 hab; subst this; simp
      · have hbb : b = 0 ∨ b = d ∨ b = p := by omega
        rcases hbb with rfl | rfl | rfl
        · simp
        · rw [nb] at hab; cases hab
        · simp
      · have hbb : b = 0 ∨ b = d ∨ b = c := by omega
        rcases hbb with rfl | rfl | rfl
        · rw [h.1] at hab; cases hab
        · rw [h.2] at hab; cases hab
        · simp
    · intro hm
      simp at hm
      rcases hm with ⟨rfl, rfl⟩ | ⟨rfl, rfl⟩ | ⟨rfl, rfl⟩ | ⟨rfl, rfl⟩
      · exact hdc'
      · exact hp.2
      · exact hp.1
      · exact hc0
  · simp at h

/-- A graph on which `match_advan4` answers True although it is not the ADVAN4 shape:
    DEPOT(2,dose) ⇄ CENTRAL(1) → output, and a third compartment 3 → output. -/
def backflowWitness : CGraph :=
  { n := 3, succE := [(2, 1), (1, 2), (1, 0), (3, 0)], predE := [(2, 1), (1, 2), (3, 0), (1, 0)],
    zeroRate := [], doses := [2], inputs := [], special := [], centralByName := some 1 }

/-- **choose_advan_sound is false without the side condition**: ADVAN4 is chosen for
    `backflowWitness` (well-formed), whose third compartment is not connected to the central one. -/
theorem advan4_unsound_witness :
    chooseAdvan backflowWitness false false (fun _ _ => false) = some .a4 ∧
    backflowWitness.hasEdge 1 3 = false ∧ backflowWitness.hasEdge 3 1 = false ∧
    backflowWitness.hasEdge 1 2 = true := by
  decide

/-! ### compartment renumbering -/

theorem lookup_mem {β : Type} (l : List (String × β)) (k : String) (v : β) (h : l.lookup k = some v) :
    (k, v) ∈ l := by
  induction l with
  | nil => simp at h
  | cons p l ih =>
    obtain ⟨k', v'⟩ := p
    by_cases hk : k = k'
    · subst hk; simp [List.lookup] at h; subst h; simp
    · have : (k == k') = false := by simpa using hk
      simp [List.lookup, this] at h
      exact List.mem_cons_of_mem _ (ih h)

/-- **remap_bijective**: `create_compartment_remap` is injective (two old compartment numbers are
    never sent to the same new number) whenever the old map has distinct names per number and the
    new map distinct numbers per name — which `new_compartmental_map` guarantees. -/
theorem remap_injective (oldmap newmap : List (String × Nat))
    (hold : ∀ p ∈ oldmap, ∀ q ∈ oldmap, p.1 = q.1 → p.2 = q.2)
    (hnew : ∀ p ∈ newmap, ∀ q ∈ newmap, p.2 = q.2 → p.1 = q.1) :
    ∀ r ∈ createCompartmentRemap oldmap newmap, ∀ s ∈ createCompartmentRemap oldmap newmap,
      r.2 = s.2 → r.1 = s.1 := by
  intro r hr s hs hrs
  simp only [createCompartmentRemap, List.mem_filterMap, Option.map_eq_some_iff] at hr hs
  obtain ⟨p, hp, m, hm, rfl⟩ := hr
  obtain ⟨q, hq, m', hm', rfl⟩ := hs
  simp at hrs; subst hrs
  have h1 := lookup_mem _ _ _ hm
  have h2 := lookup_mem _ _ _ hm'
  have := hnew _ h1 _ h2 rfl
  simp at this
  exact hold p hp q hq this

theorem newCompartmentalMap_injective (names : List String) :
    ∀ p ∈ newCompartmentalMap names, ∀ q ∈ newCompartmentalMap names, p.2 = q.2 → p.1 = q.1 := by
  intro p hp q hq h
  simp only [newCompartmentalMap, List.mem_map] at hp hq
  obtain ⟨⟨a, i⟩, hi, rfl⟩ := hp
  obtain ⟨⟨b, j⟩, hj, rfl⟩ := hq
  simp at h; subst h
  rw [List.mem_zipIdx_iff_getElem?] at hi hj
  simp at hi hj
  rw [hi] at hj
  simpa using hj

/-! ### non-vacuity -/

def advan4Example : CGraph :=
  { n := 3, succE := [(2, 1), (1, 3), (3, 1), (1, 0)], predE := [(2, 1), (3, 1), (1, 3), (1, 0)],
    zeroRate := [], doses := [2], inputs := [], special := [], centralByName := some 1 }

example : chooseAdvan advan4Example false false (fun _ _ => false) = some .a4 := by decide
example : advan4Example.order = [2, 1, 3] := by decide
example : depotCentral advan4Example = some (some (2, 1)) ∧ advan4Example.hasEdge 1 2 = false := by decide

end Pharmpy.C02
