import PharmpyModel.C02.Record
import PharmpyProofs.C02.Lemmas
/-
  Helper lemmas for the code-record index: the positional bookkeeping of
  `updateStatements` equals the layout of a piece list.
-/
set_option linter.unusedSectionVars false
namespace Pharmpy.C02

section
variable {σ ν : Type}

theorem nodesOf_append (a b : List (Piece ν σ)) : nodesOf (a ++ b) = nodesOf a ++ nodesOf b := by
  simp [nodesOf]
theorem stmtsOf_append (a b : List (Piece ν σ)) : stmtsOf (a ++ b) = stmtsOf a ++ stmtsOf b := by
  simp [stmtsOf]

theorem indexFrom_append (a b : List (Piece ν σ)) : ∀ (off si : Nat),
    indexFrom off si (a ++ b) =
      indexFrom off si a ++ indexFrom (off + (nodesOf a).length) (si + (stmtsOf a).length) b := by
  induction a with
  | nil => intro off si; simp [indexFrom, nodesOf, stmtsOf]
  | cons p a ih =>
    intro off si
    cases p with
    | gap ns =>
      simp only [List.cons_append, indexFrom, ih]
      simp [nodesOf, stmtsOf, Piece.nodes, Piece.stmts, Nat.add_assoc]
    | block ns ss =>
      simp only [List.cons_append, indexFrom, ih]
      simp [nodesOf, stmtsOf, Piece.nodes, Piece.stmts, Nat.add_assoc]

/-- The blocks an insertion group contributes. -/
def genBlocks (gen : σ → List ν) (ss : List σ) : List (Piece ν σ) := ss.map (fun s => .block (gen s) [s])

theorem stmtsOf_genBlocks (gen : σ → List ν) (ss : List σ) : stmtsOf (genBlocks gen ss) = ss := by
  induction ss with
  | nil => rfl
  | cons s ss ih =>
    simp [genBlocks, stmtsOf, Piece.stmts] at ih ⊢
    exact ih

theorem insertStmts_spec (gen : σ → List ν) : ∀ (ss : List σ) (ch : List ν) (ix : List Idx) (si : Nat),
    insertStmts gen ss (ch, ix, si) =
      (ch ++ nodesOf (genBlocks gen ss), ix ++ indexFrom ch.length si (genBlocks gen ss), si + ss.length) := by
  intro ss
  induction ss with
  | nil => intro ch ix si; simp [insertStmts, genBlocks, nodesOf, indexFrom]
  | cons s ss ih =>
    intro ch ix si
    simp only [insertStmts, ih]
    simp [genBlocks, nodesOf, indexFrom, Piece.nodes, Nat.add_assoc, Nat.add_comm 1]

theorem nodesOf_gap_cons (ns : List ν) (ps : List (Piece ν σ)) : nodesOf (.gap ns :: ps) = ns ++ nodesOf ps := by
  simp [nodesOf, Piece.nodes]
theorem stmtsOf_gap_cons (ns : List ν) (ps : List (Piece ν σ)) : stmtsOf (.gap ns :: ps) = stmtsOf ps := by
  simp [stmtsOf, Piece.stmts]
theorem nodesOf_block_cons (ns : List ν) (ss : List σ) (ps : List (Piece ν σ)) :
    nodesOf (.block ns ss :: ps) = ns ++ nodesOf ps := by
  simp [nodesOf, Piece.nodes]
theorem stmtsOf_block_cons (ns : List ν) (ss : List σ) (ps : List (Piece ν σ)) :
    stmtsOf (.block ns ss :: ps) = ss ++ stmtsOf ps := by
  simp [stmtsOf, Piece.stmts]
theorem nodesOf_nil : nodesOf ([] : List (Piece ν σ)) = [] := rfl
theorem stmtsOf_nil : stmtsOf ([] : List (Piece ν σ)) = [] := rfl

theorem slice_length_le {α : Type} (l : List α) (a b : Nat) (hb : b ≤ l.length) : (slice l a b).length = b - a := by
  simp [slice]; omega

/-- The loop state describes the layout of the pieces produced so far. -/
def Describes (st : UState ν) (acc : List (Piece ν σ)) : Prop :=
  st.children = nodesOf acc ∧ st.index = indexFrom 0 0 acc ∧ st.si = (stmtsOf acc).length

theorem applyGroup_last (gen : σ → List ν) (old : List ν) (st : UState ν) (g : Group σ) :
    (applyGroup gen old st g).last = g.nj := by
  unfold applyGroup
  by_cases h1 : g.op = 1
  · simp [h1]
  · by_cases h0 : g.op = 0 <;> simp [h1, h0]

theorem applyGroup_spec (gen : σ → List ν) (old : List ν) (st : UState ν) (acc : List (Piece ν σ))
    (g : Group σ) (h : Describes st acc) (hb : g.op = 0 → g.nj ≤ old.length) :
    Describes (applyGroup gen old st g) (acc ++ piecesOfGroup gen old st.last g) := by
  obtain ⟨hc, hi, hs⟩ := h
  unfold applyGroup piecesOfGroup
  by_cases h1 : g.op = 1
  · simp only [h1, if_true]
    rw [insertStmts_spec]
    refine ⟨?_, ?_, ?_⟩
    · show st.children ++ slice old st.last g.ni ++ nodesOf (genBlocks gen g.stmts) = _
      rw [nodesOf_append, nodesOf_gap_cons, hc]; simp [genBlocks]
    · show st.index ++ indexFrom (st.children ++ slice old st.last g.ni).length st.si (genBlocks gen g.stmts) = _
      rw [hi, indexFrom_append]
      simp only [Nat.zero_add, indexFrom]
      rw [hc, hs]; simp [genBlocks]
    · show st.si + g.stmts.length = _
      rw [stmtsOf_append, stmtsOf_gap_cons]
      have := stmtsOf_genBlocks gen g.stmts
      unfold genBlocks at this
      rw [this, hs]; simp
  · by_cases h0 : g.op = 0
    · have hlen := slice_length_le old g.ni g.nj (hb h0)
      simp only [h0, show ¬((0 : Int) = 1) by decide, if_false, if_true]
      refine ⟨?_, ?_, ?_⟩
      · show st.children ++ slice old st.last g.ni ++ slice old g.ni g.nj = _
        rw [nodesOf_append, nodesOf_gap_cons, nodesOf_block_cons, nodesOf_nil, hc]; simp
      · show st.index ++ [_] = _
        rw [hi, indexFrom_append]
        simp only [Nat.zero_add, indexFrom]
        rw [hc, hs, hlen]; simp
      · show st.si + g.stmts.length = _
        rw [stmtsOf_append, stmtsOf_gap_cons, stmtsOf_block_cons, stmtsOf_nil, hs]; simp
    · simp only [h1, h0, if_false]
      refine ⟨?_, ?_, ?_⟩
      · show st.children ++ slice old st.last g.ni = _
        rw [nodesOf_append, nodesOf_gap_cons, nodesOf_nil, hc]; simp
      · show st.index = _
        rw [hi, indexFrom_append]
        simp [indexFrom]
      · show st.si = _
        rw [stmtsOf_append, stmtsOf_gap_cons, stmtsOf_nil, hs]; simp

theorem applyGroups_spec (gen : σ → List ν) (old : List ν) : ∀ (gs : List (Group σ)) (st : UState ν)
    (acc : List (Piece ν σ)), Describes st acc → (∀ g ∈ gs, g.op = 0 → g.nj ≤ old.length) →
    (applyGroups gen old st gs).children ++ old.drop (applyGroups gen old st gs).last
        = nodesOf (acc ++ piecesOfGroups gen old st.last gs) ∧
    (applyGroups gen old st gs).index = indexFrom 0 0 (acc ++ piecesOfGroups gen old st.last gs) := by
  intro gs
  induction gs with
  | nil =>
    intro st acc h _
    obtain ⟨hc, hi, _⟩ := h
    simp only [applyGroups, piecesOfGroups]
    constructor
    · rw [nodesOf_append, nodesOf_gap_cons, nodesOf_nil, hc]; simp
    · rw [hi, indexFrom_append]; simp [indexFrom]
  | cons g gs ih =>
    intro st acc h hb
    have hd := applyGroup_spec gen old st acc g h (hb g (by simp))
    have hl := applyGroup_last gen old st g
    have := ih (applyGroup gen old st g) _ hd (fun g' hg' => hb g' (List.mem_cons_of_mem _ hg'))
    simp only [applyGroups, piecesOfGroups]
    rw [hl] at this
    simpa [List.append_assoc] using this

/-! ### every index laid out by `indexFrom` is a partition whose spans are the blocks -/

theorem indexFrom_wf : ∀ (ps : List (Piece ν σ)) (off si : Nat),
    IndexWF off si (off + (nodesOf ps).length) (si + (stmtsOf ps).length) (indexFrom off si ps) := by
  intro ps
  induction ps with
  | nil => intro off si; simp [indexFrom, IndexWF, nodesOf, stmtsOf]
  | cons p ps ih =>
    intro off si
    cases p with
    | gap ns =>
      have := ih (off + ns.length) si
      simp only [indexFrom]
      rw [nodesOf_gap_cons, stmtsOf_gap_cons]
      -- weaken the lower bound `off + ns.length` to `off`
      have wk : ∀ (es : List Idx) (a b s nN nS : Nat), a ≤ b → IndexWF b s nN nS es → IndexWF a s nN nS es := by
        intro es
        cases es with
        | nil => intro a b s nN nS hab h; simp [IndexWF] at h ⊢; omega
        | cons e es =>
          intro a b s nN nS hab h
          obtain ⟨ni, nj, s0, s1⟩ := e
          obtain ⟨h1, h2, h3, h4, h5⟩ := h
          exact ⟨by omega, h2, h3, h4, h5⟩
      refine wk _ off (off + ns.length) si _ _ (by omega) ?_
      simpa [Nat.add_assoc] using this
    | block ns ss =>
      have := ih (off + ns.length) (si + ss.length)
      rw [nodesOf_block_cons, stmtsOf_block_cons]
      show off ≤ off ∧ off ≤ off + ns.length ∧ si = si ∧ si ≤ si + ss.length ∧ IndexWF _ _ _ _ _
      refine ⟨Nat.le_refl _, by omega, rfl, by omega, ?_⟩
      simpa [Nat.add_assoc] using this

theorem slice_append_left {α : Type} (pre mid post : List α) :
    slice (pre ++ (mid ++ post)) pre.length (pre.length + mid.length) = mid := by
  simp [slice]

theorem indexFrom_slices : ∀ (ps : List (Piece ν σ)) (pre : List ν) (spre : List σ),
    ∀ e ∈ indexFrom pre.length spre.length ps, ∃ ns ss, Piece.block ns ss ∈ ps ∧
      slice (pre ++ nodesOf ps) e.1 e.2.1 = ns ∧ slice (spre ++ stmtsOf ps) e.2.2.1 e.2.2.2 = ss := by
  intro ps
  induction ps with
  | nil => intro pre spre e he; simp [indexFrom] at he
  | cons p ps ih =>
    intro pre spre e he
    cases p with
    | gap ns =>
      simp only [indexFrom] at he
      have h := ih (pre ++ ns) spre e (by simpa using he)
      obtain ⟨ns', ss', hm, h1, h2⟩ := h
      refine ⟨ns', ss', List.mem_cons_of_mem _ hm, ?_, ?_⟩
      · simpa [nodesOf, Piece.nodes, List.append_assoc] using h1
      · simpa [stmtsOf, Piece.stmts] using h2
    | block ns ss =>
      simp only [indexFrom, List.mem_cons] at he
      rcases he with rfl | he
      · refine ⟨ns, ss, by simp, ?_, ?_⟩
        · simp only [nodesOf, List.flatMap_cons, Piece.nodes]
          exact slice_append_left pre ns _
        · simp only [stmtsOf, List.flatMap_cons, Piece.stmts]
          exact slice_append_left spre ss _
      · have h := ih (pre ++ ns) (spre ++ ss) e (by simpa using he)
        obtain ⟨ns', ss', hm, h1, h2⟩ := h
        refine ⟨ns', ss', List.mem_cons_of_mem _ hm, ?_, ?_⟩
        · simpa [nodesOf, Piece.nodes, List.append_assoc] using h1
        · simpa [stmtsOf, Piece.stmts, List.append_assoc] using h2

/-! ### the pieces of a group list -/

theorem stmtsOf_piecesOfGroups (gen : σ → List ν) (old : List ν) : ∀ (gs : List (Group σ)) (last : Nat),
    stmtsOf (piecesOfGroups gen old last gs) = groupStmts gs := by
  intro gs
  induction gs with
  | nil => intro last; simp [piecesOfGroups, stmtsOf, groupStmts, Piece.stmts]
  | cons g gs ih =>
    intro last
    simp only [piecesOfGroups, stmtsOf_append, ih, groupStmts, piecesOfGroup]
    congr 1
    rw [stmtsOf_gap_cons]
    by_cases h1 : g.op = 1
    · simp only [h1, if_true, true_or]
      exact stmtsOf_genBlocks gen g.stmts
    · by_cases h0 : g.op = 0
      · simp only [h0, show ¬((0 : Int) = 1) by decide, if_false, if_true, or_true]
        rw [stmtsOf_block_cons, stmtsOf_nil]; simp
      · simp [h1, h0, stmtsOf_nil]

theorem block_mem_piecesOfGroups (gen : σ → List ν) (old : List ν) : ∀ (gs : List (Group σ)) (last : Nat)
    (ns : List ν) (ss : List σ), Piece.block ns ss ∈ piecesOfGroups gen old last gs →
    (∃ s, ns = gen s ∧ ss = [s]) ∨ (∃ g ∈ gs, g.op = 0 ∧ ns = slice old g.ni g.nj ∧ ss = g.stmts) := by
  intro gs
  induction gs with
  | nil => intro last ns ss h; simp [piecesOfGroups] at h
  | cons g gs ih =>
    intro last ns ss h
    simp only [piecesOfGroups, List.mem_append, piecesOfGroup, List.mem_cons] at h
    rcases h with (h | h) | h
    · cases h
    · by_cases h1 : g.op = 1
      · simp only [h1, if_true, List.mem_map] at h
        obtain ⟨s, _, hs⟩ := h
        cases hs
        left; exact ⟨s, rfl, rfl⟩
      · by_cases h0 : g.op = 0
        · simp only [h0, show ¬((0 : Int) = 1) by decide, if_false, if_true, List.mem_singleton] at h
          cases h
          right; exact ⟨g, by simp, h0, rfl, rfl⟩
        · simp [h1, h0] at h
    · rcases ih g.nj ns ss h with h | ⟨g', hg', h'⟩
      · left; exact h
      · right; exact ⟨g', List.mem_cons_of_mem _ hg', h'⟩

end
end Pharmpy.C02
