import PharmpyModel.C02.ModelRecord
/-
  C02 — `update_model_record` re-establishes the numbering invariant in every branch.
-/
namespace Pharmpy.C02

/-- **update_model_record_map_fresh**: for every ADVAN, solver flag, compartment list and previous internals, after
    `update_model_record` the remembered compartment numbering is the numbering of the new system. -/
theorem update_model_record_map_fresh (advan : String) (solver : Bool) (names : List String) (int : Internals) :
    MapFresh names (updateModelRecord advan solver names int) := by
  unfold MapFresh updateModelRecord
  by_cases h1 : specificAdvans.contains advan = true
  · rw [if_pos h1]
  · by_cases h2 : int.map ≠ newCompartmentalMap names ∨ solver = true
    · rw [if_neg h1, if_pos h2]
    · rw [if_neg h1, if_neg h2]

/-- **update_model_record_model_order**: a `$MODEL` record that exists afterwards lists the compartments in that
    numbering, unless it is the untouched old record of an unchanged general-linear system. -/
theorem update_model_record_model_order (advan : String) (solver : Bool) (names : List String) (int : Internals)
    (l : List String) (h : (updateModelRecord advan solver names int).modelRec = some l) :
    l = names ∨ (int.modelRec = some l ∧ int.map = newCompartmentalMap names ∧ solver = false) := by
  unfold updateModelRecord at h
  by_cases h1 : specificAdvans.contains advan = true
  · rw [if_pos h1] at h; cases h
  · by_cases h2 : int.map ≠ newCompartmentalMap names ∨ solver = true
    · rw [if_neg h1, if_pos h2] at h; left; cases h; rfl
    · rw [if_neg h1, if_neg h2] at h
      right
      have hm : int.map = newCompartmentalMap names := by
        apply Classical.byContradiction; intro hc; exact h2 (Or.inl hc)
      have hs : solver = false := by
        cases solver with
        | false => rfl
        | true => exact absurd (Or.inr rfl) h2
      exact ⟨h, hm, hs⟩

/-- A specific ADVAN never keeps a `$MODEL` record. -/
theorem update_model_record_specific (advan : String) (solver : Bool) (names : List String) (int : Internals)
    (h : specificAdvans.contains advan = true) : (updateModelRecord advan solver names int).modelRec = none := by
  unfold updateModelRecord
  rw [if_pos h]

/-- The variant that forgets the refreshed map when it drops `$MODEL` (what the invariant excludes) is stale. -/
example : ({ map := [("DEPOT", 1), ("CENTRAL", 2)], modelRec := none } : Internals).map ≠ newCompartmentalMap ["CENTRAL"] := by decide

end Pharmpy.C02
