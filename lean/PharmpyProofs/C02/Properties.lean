import PharmpyProofs.C02.Lemmas
/-
  C02 — property theorems (LCS diff part).

  `diff` is the executable model of `pharmpy.internals.sequence.lcs.diff`
  (prefix/suffix trimming, `_matrix`, `_diff`).  All theorems are for every
  pair of lists over every type with decidable equality.
-/
set_option linter.unusedSectionVars false
namespace Pharmpy.C02

section
variable {α : Type} [DecidableEq α]

/-- The three segments `diff` works on. -/
theorem diff_decomp (x y : List α) :
    let pre := commonPrefix x y
    let rx := x.drop pre.length
    let ry := y.drop pre.length
    let sufR := commonPrefix rx.reverse ry.reverse
    x = pre ++ ((rx.take (rx.length - sufR.length)).reverse.reverse ++ sufR.reverse) ∧
    y = pre ++ ((ry.take (ry.length - sufR.length)).reverse.reverse ++ sufR.reverse) := by
  intro pre rx ry sufR
  have hx := commonPrefix_left x y
  have hy := commonPrefix_right x y
  have sx := commonPrefix_left rx.reverse ry.reverse
  have sy := commonPrefix_right rx.reverse ry.reverse
  have ex : rx = rx.take (rx.length - sufR.length) ++ sufR.reverse := by
    have := congrArg List.reverse sx
    simp only [List.reverse_append, List.reverse_reverse, List.drop_reverse] at this
    exact this.symm
  have ey : ry = ry.take (ry.length - sufR.length) ++ sufR.reverse := by
    have := congrArg List.reverse sy
    simp only [List.reverse_append, List.reverse_reverse, List.drop_reverse] at this
    exact this.symm
  constructor
  · rw [List.reverse_reverse, ← ex]; exact hx.symm
  · rw [List.reverse_reverse, ← ey]; exact hy.symm

/-- **lcs_diff_correct (1)**: dropping the insertions gives back `old`. -/
theorem lcs_diff_old (old new : List α) : dropIns (diff old new) = old := by
  rw [diff_eq_diffSpec]
  have h := (diff_decomp old new).1
  simp only [diffSpec, dropIns_append, dropIns_zeros, walkSpec_dropIns]
  simpa [List.append_assoc] using h.symm

/-- **lcs_diff_correct (2)**: dropping the deletions gives `new`. -/
theorem lcs_diff_new (old new : List α) : dropDel (diff old new) = new := by
  rw [diff_eq_diffSpec]
  have h := (diff_decomp old new).2
  simp only [diffSpec, dropDel_append, dropDel_zeros, walkSpec_dropDel]
  simpa [List.append_assoc] using h.symm

/-- Every op is one of -1, 0, +1. -/
theorem walkSpec_ops : ∀ (xr yr : List α), ∀ o ∈ walkSpec xr yr, o.1 = -1 ∨ o.1 = 0 ∨ o.1 = 1
  | [], [] => by simp [walkSpec]
  | [], b :: ys => by
    have ih := walkSpec_ops ([] : List α) ys
    intro o ho; rw [walkSpec] at ho
    simp only [List.mem_append, List.mem_singleton] at ho
    rcases ho with ho | ho
    · exact ih o ho
    · subst ho; simp
  | a :: xs, [] => by
    have ih := walkSpec_ops xs ([] : List α)
    intro o ho; rw [walkSpec] at ho
    simp only [List.mem_append, List.mem_singleton] at ho
    rcases ho with ho | ho
    · exact ih o ho
    · subst ho; simp
  | a :: xs, b :: ys => by
    have ih1 := walkSpec_ops xs ys
    have ih2 := walkSpec_ops (a :: xs) ys
    have ih3 := walkSpec_ops xs (b :: ys)
    intro o ho; rw [walkSpec] at ho
    split at ho
    · simp only [List.mem_append, List.mem_singleton] at ho
      rcases ho with ho | ho
      · exact ih1 o ho
      · subst ho; simp
    · split at ho
      · simp only [List.mem_append, List.mem_singleton] at ho
        rcases ho with ho | ho
        · exact ih2 o ho
        · subst ho; simp
      · simp only [List.mem_append, List.mem_singleton] at ho
        rcases ho with ho | ho
        · exact ih3 o ho
        · subst ho; simp
termination_by xr yr => xr.length + yr.length

theorem lcs_diff_ops (old new : List α) : ∀ o ∈ diff old new, o.1 = -1 ∨ o.1 = 0 ∨ o.1 = 1 := by
  rw [diff_eq_diffSpec]
  intro o ho
  simp only [diffSpec, List.mem_append] at ho
  rcases ho with (ho | ho) | ho
  · simp [zeros] at ho; rcases ho with ⟨_, _, rfl⟩; simp
  · exact walkSpec_ops _ _ o ho
  · simp [zeros] at ho; rcases ho with ⟨_, _, rfl⟩; simp

/-- **lcs_diff_correct (3a)**: a common prefix yields only 0-ops, and the rest is
    the diff of the remainders. -/
theorem lcs_diff_prefix (p x y : List α) : diff (p ++ x) (p ++ y) = zeros p ++ diff x y := by
  have hd : ∀ (p z : List α) (k : Nat), (p ++ z).drop (p.length + k) = z.drop k := by
    intro p z k
    induction p with
    | nil => simp
    | cons a p ih =>
      have : (a :: p).length + k = (p.length + k) + 1 := by simp; omega
      rw [this]; simpa using ih
  unfold diff
  simp only [commonPrefix_append, List.length_append, hd]
  simp [zeros]

/-- The kept elements form a common subsequence … -/
theorem kept_sublist_dropIns (d : List (Op α)) : (kept d).Sublist (dropIns d) := by
  induction d with
  | nil => simp [kept, dropIns]
  | cons o d ih =>
    simp [kept, dropIns] at ih ⊢
    by_cases h0 : o.1 = 0
    · have h1 : o.1 ≠ 1 := by omega
      simp [List.filter_cons, h0]
      exact ih
    · by_cases h1 : o.1 = 1
      · simp [List.filter_cons, h1]; exact ih
      · simp [List.filter_cons, h0, h1]; exact List.Sublist.cons _ ih

theorem kept_sublist_dropDel (d : List (Op α)) : (kept d).Sublist (dropDel d) := by
  induction d with
  | nil => simp [kept, dropDel]
  | cons o d ih =>
    simp [kept, dropDel] at ih ⊢
    by_cases h0 : o.1 = 0
    · simp [List.filter_cons, h0]
      exact ih
    · by_cases h1 : o.1 = -1
      · simp [List.filter_cons, h1]; exact ih
      · simp [List.filter_cons, h0, h1]; exact List.Sublist.cons _ ih

/-- **lcs_diff_correct (4)**: the 0-ops of `diff old new` are a *longest* common
    subsequence of `old` and `new`: they are a subsequence of both, and no common
    subsequence is longer. -/
theorem lcs_diff_kept_is_lcs (old new : List α) :
    (kept (diff old new)).Sublist old ∧ (kept (diff old new)).Sublist new ∧
    ∀ zs : List α, zs.Sublist old → zs.Sublist new → zs.length ≤ (kept (diff old new)).length := by
  refine ⟨?_, ?_, ?_⟩
  · have := kept_sublist_dropIns (diff old new); rwa [lcs_diff_old] at this
  · have := kept_sublist_dropDel (diff old new); rwa [lcs_diff_new] at this
  · have hlen : (kept (diff old new)).length =
        (commonPrefix old new).length +
          (lcsR ((old.drop (commonPrefix old new).length).take
                  ((old.drop (commonPrefix old new).length).length -
                    (commonPrefix (old.drop (commonPrefix old new).length).reverse
                      (new.drop (commonPrefix old new).length).reverse).length)).reverse
                ((new.drop (commonPrefix old new).length).take
                  ((new.drop (commonPrefix old new).length).length -
                    (commonPrefix (old.drop (commonPrefix old new).length).reverse
                      (new.drop (commonPrefix old new).length).reverse).length)).reverse +
           (commonPrefix (old.drop (commonPrefix old new).length).reverse
                         (new.drop (commonPrefix old new).length).reverse).reverse.length) := by
      rw [diff_eq_diffSpec]
      simp only [diffSpec, kept_append, kept_zeros, List.length_append, walkSpec_kept_length]
      omega
    obtain ⟨dx, dy⟩ := diff_decomp old new
    have b0 := lcsR_bound
      ((old.drop (commonPrefix old new).length).take
        ((old.drop (commonPrefix old new).length).length -
          (commonPrefix (old.drop (commonPrefix old new).length).reverse
            (new.drop (commonPrefix old new).length).reverse).length)).reverse
      ((new.drop (commonPrefix old new).length).take
        ((new.drop (commonPrefix old new).length).length -
          (commonPrefix (old.drop (commonPrefix old new).length).reverse
            (new.drop (commonPrefix old new).length).reverse).length)).reverse
    have b1 := commonBound_reverse b0
    have b2 := commonBound_append_right
      (commonPrefix (old.drop (commonPrefix old new).length).reverse
        (new.drop (commonPrefix old new).length).reverse).reverse b1
    have b3 := commonBound_append_left (commonPrefix old new) b2
    intro zs hx hy
    rw [dx] at hx
    rw [dy] at hy
    have := b3 zs hx hy
    rw [hlen]
    exact this

/-- The number of 0-ops is the LCS length of the trimmed middle parts plus the
    lengths of the common prefix and suffix. -/
theorem lcs_diff_unchanged_all_zero (l : List α) : diff l l = zeros l := by
  have h : commonPrefix l l = l := by
    induction l with
    | nil => rfl
    | cons a l ih => simp [commonPrefix, ih]
  simp [diff, h, commonPrefix, table, walk, zeros]

end

/-! ### non-vacuity -/

example : diff [1, 2, 3, 4, 5] [1, 3, 9, 4, 5] = [(0, 1), (-1, 2), (0, 3), (1, 9), (0, 4), (0, 5)] := by decide +kernel
example : diff [1, 2] [2, 1] = [(-1, 1), (0, 2), (1, 1)] := by decide +kernel
example : matrixPy [1, 2, 3] [2, 3, 4] = [[0, 0, 0, 0], [0, 0, 0, 0], [0, 1, 1, 1], [0, 1, 2, 2]] := by decide +kernel

end Pharmpy.C02
