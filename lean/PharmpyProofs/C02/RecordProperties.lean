import PharmpyProofs.C02.RecordLemmas
import PharmpyProofs.C02.Properties
/-
  C02 — property theorems about the code record's node index
  (`_index_statements_diff` + `CodeRecord.update_statements`).

  Clause of the property: "the generated code denotes the in-memory model"
  across a CHAIN of `update_source` calls.  The record keeps, between calls, an
  index (node span ↦ statement range); the next call deletes / keeps / re-inserts
  text by that index.  The theorems say that for every record, every diff and
  every statement printer `gen` (any number of nodes per statement) the new
  index is a partition of the new node list whose spans are exactly the nodes
  generated for / kept with their statements.
-/
set_option linter.unusedSectionVars false
namespace Pharmpy.C02

section
variable {σ ν : Type}

/-- Kept groups stay inside the old node list. -/
def GroupsInBounds (old : List ν) (gs : List (Group σ)) : Prop :=
  ∀ g ∈ gs, g.op = 0 → g.nj ≤ old.length

/-- **update_statements = layout of pieces**: the positions `update_statements` computes with
    `len(new_children)` are exactly the layout of the piece list (gaps copied from the old record,
    generated blocks, kept blocks). -/
theorem update_statements_eq_pieces (gen : σ → List ν) (old : List ν) (index : List Idx) (fallback : Nat)
    (ops : List (Op σ)) (gs : List (Group σ))
    (hg : indexDiff (firstStatementIndex index fallback) index none ops = some gs)
    (hb : GroupsInBounds old gs) :
    updateStatements gen old index fallback ops =
      some (nodesOf (piecesOfGroups gen old 0 gs), indexFrom 0 0 (piecesOfGroups gen old 0 gs)) := by
  unfold updateStatements
  rw [hg]
  have h := applyGroups_spec gen old gs ⟨[], [], 0, 0⟩ ([] : List (Piece ν σ))
    ⟨rfl, rfl, rfl⟩ hb
  simp only [List.nil_append] at h
  simp only [h.1, h.2]

/-- **update_statements_partition**: the new index is a partition of the new node list — spans in
    order, disjoint, inside the list — and its statement ranges are consecutive and cover exactly the
    statements of the kept and inserted groups. -/
theorem update_statements_partition (gen : σ → List ν) (old : List ν) (index : List Idx) (fallback : Nat)
    (ops : List (Op σ)) (gs : List (Group σ)) (ch : List ν) (ix : List Idx)
    (hg : indexDiff (firstStatementIndex index fallback) index none ops = some gs)
    (hb : GroupsInBounds old gs)
    (hu : updateStatements gen old index fallback ops = some (ch, ix)) :
    IndexWF 0 0 ch.length (groupStmts gs).length ix := by
  rw [update_statements_eq_pieces gen old index fallback ops gs hg hb] at hu
  cases hu
  have := indexFrom_wf (piecesOfGroups gen old 0 gs) 0 0
  simpa [stmtsOf_piecesOfGroups] using this

/-- **update_statements_spans**: every entry `(ni, nj, si, sj)` of the new index cuts out of the new
    node list exactly the nodes generated for one inserted statement (`gen s`, ALL of them) or the
    nodes of one kept old group, and out of the new statements exactly that statement / group. -/
theorem update_statements_spans (gen : σ → List ν) (old : List ν) (index : List Idx) (fallback : Nat)
    (ops : List (Op σ)) (gs : List (Group σ)) (ch : List ν) (ix : List Idx)
    (hg : indexDiff (firstStatementIndex index fallback) index none ops = some gs)
    (hb : GroupsInBounds old gs)
    (hu : updateStatements gen old index fallback ops = some (ch, ix)) :
    ∀ e ∈ ix,
      (∃ s, slice ch e.1 e.2.1 = gen s ∧ slice (groupStmts gs) e.2.2.1 e.2.2.2 = [s]) ∨
      (∃ g ∈ gs, g.op = 0 ∧ slice ch e.1 e.2.1 = slice old g.ni g.nj ∧
        slice (groupStmts gs) e.2.2.1 e.2.2.2 = g.stmts) := by
  rw [update_statements_eq_pieces gen old index fallback ops gs hg hb] at hu
  cases hu
  intro e he
  obtain ⟨ns, ss, hm, h1, h2⟩ := indexFrom_slices (piecesOfGroups gen old 0 gs) [] [] e (by simpa using he)
  simp only [List.nil_append, stmtsOf_piecesOfGroups] at h1 h2
  rcases block_mem_piecesOfGroups gen old gs 0 ns ss hm with ⟨s, rfl, rfl⟩ | ⟨g, hgm, h0, rfl, rfl⟩
  · left; exact ⟨s, h1, h2⟩
  · right; exact ⟨g, hgm, h0, h1, h2⟩

/-- **update_statements_rep** (the invariant is preserved): let `Rep nodes stmts` be any relation
    "these nodes are the text of these statements".  If the printer is correct (`Rep (gen s) [s]`) and the
    kept groups were represented by their old nodes, then every entry of the new index is represented:
    the node span it records is the text of the statement range it records. -/
theorem update_statements_rep (Rep : List ν → List σ → Prop) (gen : σ → List ν) (old : List ν)
    (index : List Idx) (fallback : Nat) (ops : List (Op σ)) (gs : List (Group σ)) (ch : List ν) (ix : List Idx)
    (hg : indexDiff (firstStatementIndex index fallback) index none ops = some gs)
    (hb : GroupsInBounds old gs)
    (hu : updateStatements gen old index fallback ops = some (ch, ix))
    (hgen : ∀ s, Rep (gen s) [s])
    (hkeep : ∀ g ∈ gs, g.op = 0 → Rep (slice old g.ni g.nj) g.stmts) :
    ∀ e ∈ ix, Rep (slice ch e.1 e.2.1) (slice (groupStmts gs) e.2.2.1 e.2.2.2) := by
  intro e he
  rcases update_statements_spans gen old index fallback ops gs ch ix hg hb hu e he with
    ⟨s, h1, h2⟩ | ⟨g, hgm, h0, h1, h2⟩
  · rw [h1, h2]; exact hgen s
  · rw [h1, h2]; exact hkeep g hgm h0

/-! ### the groups of `_index_statements_diff` -/

theorem dropDel_append_nodec (d e : List (Op σ)) : dropDel (d ++ e) = dropDel d ++ dropDel e := by
  simp [dropDel]

theorem groupStmts_append (a b : List (Group σ)) : groupStmts (a ++ b) = groupStmts a ++ groupStmts b := by
  induction a with
  | nil => rfl
  | cons g a ih => simp [groupStmts, ih]

theorem groupStmts_flush (ni nj : Nat) (acc : List (Op σ)) : groupStmts (flushGroup ni nj acc) = dropDel acc := by
  unfold flushGroup
  by_cases hz : acc.all (fun o => decide (o.1 = 0)) = true
  · simp only [hz, if_true, groupStmts]
    simp only [dropDel]
    have : acc.filter (fun o => decide (o.1 ≠ -1)) = acc := by
      apply List.filter_eq_self.2
      intro o ho
      have := List.all_eq_true.1 hz o ho
      simp at this
      simp [this]
    rw [this]; simp
  · simp only [hz]
    by_cases hn : ((acc.filter (fun o => decide (o.1 ≠ -1))).map (·.2)).isEmpty = true
    · have hd : dropDel acc = [] := by simpa [dropDel] using hn
      simp only [Bool.false_eq_true, if_false, hn, if_true, groupStmts, hd]
      simp
    · simp only [Bool.false_eq_true, if_false, hn, groupStmts]
      simp [dropDel]

/-- **index_diff_statements**: whatever the index, if `_index_statements_diff` completes, the
    statements of the groups it yields for keeping/inserting are, in order, the diff without its
    deletions — by `lcs_diff_new` the new statement list. -/
theorem index_diff_statements : ∀ (ops : List (Op σ)) (last : Nat) (idx : List Idx) (pend : Option (Pending σ))
    (gs : List (Group σ)), indexDiff last idx pend ops = some gs →
    groupStmts gs = dropDel ((match pend with | some p => p.2.2.2 | none => []) ++ ops) := by
  intro ops
  induction ops with
  | nil =>
    intro last idx pend gs h
    cases pend with
    | none => simp [indexDiff] at h; subst h; simp [groupStmts, dropDel]
    | some p => simp [indexDiff] at h
  | cons o rest ih =>
    intro last idx pend gs h
    obtain ⟨op, s⟩ := o
    cases pend with
    | none =>
      simp only [indexDiff] at h
      by_cases h1 : op = 1
      · simp only [h1, if_true, Option.map_eq_some_iff] at h
        obtain ⟨gs', hg', rfl⟩ := h
        have := ih last idx none gs' hg'
        simp only [List.nil_append] at this ⊢
        simp [groupStmts, this, dropDel, h1]
      · simp only [h1, if_false] at h
        cases idx with
        | nil => simp at h
        | cons e idx' =>
          obtain ⟨ni, nj, si, sj⟩ := e
          simp only at h
          by_cases he : sj - si - 1 = 0
          · simp only [he, if_true, Option.map_eq_some_iff] at h
            obtain ⟨gs', hg', rfl⟩ := h
            have := ih nj idx' none gs' hg'
            simp only [List.nil_append] at this ⊢
            rw [groupStmts_append, groupStmts_flush, this, ← dropDel_append_nodec]
            rfl
          · simp only [he, if_false] at h
            have := ih last idx' (some (ni, nj, sj - si - 1, [(op, s)])) gs h
            simpa using this
    | some p =>
      obtain ⟨ni, nj, expected, acc⟩ := p
      simp only [indexDiff] at h
      by_cases he : (if op ≠ 1 then expected - 1 else expected) = 0
      · simp only [he, if_true, Option.map_eq_some_iff] at h
        obtain ⟨gs', hg', rfl⟩ := h
        have := ih nj idx none gs' hg'
        simp only [List.nil_append] at this
        rw [groupStmts_append, groupStmts_flush, this, ← dropDel_append_nodec]
        simp [List.append_assoc]
      · simp only [he, if_false] at h
        have := ih last idx _ gs h
        simpa [List.append_assoc] using this

/-- Spans of kept groups are spans of old index entries (so they are in bounds when the old index is). -/
theorem index_diff_spans : ∀ (ops : List (Op σ)) (last : Nat) (idx : List Idx) (pend : Option (Pending σ))
    (gs : List (Group σ)), indexDiff last idx pend ops = some gs →
    ∀ g ∈ gs, g.op = 0 →
      (∃ e ∈ idx, g.ni = e.1 ∧ g.nj = e.2.1) ∨ (∃ p, pend = some p ∧ g.ni = p.1 ∧ g.nj = p.2.1) := by
  intro ops
  induction ops with
  | nil =>
    intro last idx pend gs h g hg
    cases pend with
    | none => simp [indexDiff] at h; subst h; cases hg
    | some p => simp [indexDiff] at h
  | cons o rest ih =>
    intro last idx pend gs h g hg h0
    obtain ⟨op, s⟩ := o
    have flush_span : ∀ (ni nj : Nat) (acc : List (Op σ)) (g : Group σ), g ∈ flushGroup ni nj acc → g.op = 0 →
        g.ni = ni ∧ g.nj = nj := by
      intro ni nj acc g hm h0
      unfold flushGroup at hm
      split at hm
      · simp at hm; subst hm; exact ⟨rfl, rfl⟩
      · simp only [List.mem_cons] at hm
        rcases hm with rfl | hm
        · simp at h0
        · split at hm
          · cases hm
          · simp at hm; subst hm; simp at h0
    cases pend with
    | none =>
      simp only [indexDiff] at h
      by_cases h1 : op = 1
      · simp only [h1, if_true, Option.map_eq_some_iff] at h
        obtain ⟨gs', hg', rfl⟩ := h
        simp only [List.mem_cons] at hg
        rcases hg with rfl | hg
        · simp at h0
        · rcases ih last idx none gs' hg' g hg h0 with h | ⟨p, hp, _⟩
          · left; exact h
          · cases hp
      · simp only [h1, if_false] at h
        cases idx with
        | nil => simp at h
        | cons e idx' =>
          obtain ⟨ni, nj, si, sj⟩ := e
          simp only at h
          by_cases he : sj - si - 1 = 0
          · simp only [he, if_true, Option.map_eq_some_iff] at h
            obtain ⟨gs', hg', rfl⟩ := h
            simp only [List.mem_append] at hg
            rcases hg with hg | hg
            · have := flush_span ni nj _ g hg h0
              left; exact ⟨(ni, nj, si, sj), by simp, this.1, this.2⟩
            · rcases ih nj idx' none gs' hg' g hg h0 with ⟨e, hem, h⟩ | ⟨p, hp, _⟩
              · left; exact ⟨e, List.mem_cons_of_mem _ hem, h⟩
              · cases hp
          · simp only [he, if_false] at h
            rcases ih last idx' _ gs h g hg h0 with ⟨e, hem, h⟩ | ⟨p, hp, h⟩
            · left; exact ⟨e, List.mem_cons_of_mem _ hem, h⟩
            · cases hp
              left; exact ⟨(ni, nj, si, sj), by simp, h.1, h.2⟩
    | some p =>
      obtain ⟨ni, nj, expected, acc⟩ := p
      simp only [indexDiff] at h
      by_cases he : (if op ≠ 1 then expected - 1 else expected) = 0
      · simp only [he, if_true, Option.map_eq_some_iff] at h
        obtain ⟨gs', hg', rfl⟩ := h
        simp only [List.mem_append] at hg
        rcases hg with hg | hg
        · have := flush_span ni nj _ g hg h0
          right; exact ⟨_, rfl, this.1, this.2⟩
        · rcases ih nj idx none gs' hg' g hg h0 with h | ⟨p, hp, _⟩
          · left; exact h
          · cases hp
      · simp only [he, if_false] at h
        rcases ih last idx _ gs h g hg h0 with h | ⟨p, hp, h⟩
        · left; exact h
        · cases hp
          right; exact ⟨_, rfl, h.1, h.2⟩

/-- Every entry of a partition index ends inside the node list. -/
theorem indexWF_bound : ∀ (ix : List Idx) (off si nN nS : Nat), IndexWF off si nN nS ix →
    ∀ e ∈ ix, e.2.1 ≤ nN := by
  intro ix
  induction ix with
  | nil => intro off si nN nS _ e he; cases he
  | cons e0 ix ih =>
    intro off si nN nS h e he
    obtain ⟨ni, nj, s0, s1⟩ := e0
    obtain ⟨_, _, _, _, h5⟩ := h
    have tail_le : ∀ (es : List Idx) (a s : Nat), IndexWF a s nN nS es → a ≤ nN := by
      intro es
      induction es with
      | nil => intro a s h; exact h.1
      | cons e es ihh =>
        intro a s h
        obtain ⟨ni', nj', s0', s1'⟩ := e
        obtain ⟨h1, h2, _, _, h5⟩ := h
        have := ihh nj' s1' h5
        omega
    simp only [List.mem_cons] at he
    rcases he with rfl | he
    · exact tail_le ix nj s1 h5
    · exact ih nj s1 nN nS h5 e he

/-- **update_statements_frame**: one `update_statements` call on a record whose index is a partition,
    with the LCS diff of the old and new statements.  If the call completes, the new index is again a
    partition of the new children, covers exactly `new`, and every entry records the complete node
    span of what it stands for; with a correct printer and represented kept groups, the
    representation invariant holds for the new record. -/
theorem update_statements_frame [DecidableEq σ] (Rep : List ν → List σ → Prop) (gen : σ → List ν)
    (old : List ν) (index : List Idx) (fallback : Nat) (oldS newS : List σ) (nS : Nat)
    (gs : List (Group σ)) (ch : List ν) (ix : List Idx)
    (hwf : IndexWF 0 0 old.length nS index)
    (hg : indexDiff (firstStatementIndex index fallback) index none (diff oldS newS) = some gs)
    (hu : updateStatements gen old index fallback (diff oldS newS) = some (ch, ix))
    (hgen : ∀ s, Rep (gen s) [s])
    (hkeep : ∀ g ∈ gs, g.op = 0 → Rep (slice old g.ni g.nj) g.stmts) :
    groupStmts gs = newS ∧ IndexWF 0 0 ch.length newS.length ix ∧
      ∀ e ∈ ix, Rep (slice ch e.1 e.2.1) (slice newS e.2.2.1 e.2.2.2) := by
  have hb : GroupsInBounds old gs := by
    intro g hgm h0
    rcases index_diff_spans _ _ _ _ _ hg g hgm h0 with ⟨e, hem, _, h2⟩ | ⟨p, hp, _⟩
    · rw [h2]; exact indexWF_bound index 0 0 _ _ hwf e hem
    · cases hp
  have hs : groupStmts gs = newS := by
    have := index_diff_statements _ _ _ _ _ hg
    simpa [lcs_diff_new] using this
  refine ⟨hs, ?_, ?_⟩
  · have := update_statements_partition gen old index fallback _ gs ch ix hg hb hu
    rwa [hs] at this
  · have := update_statements_rep Rep gen old index fallback _ gs ch ix hg hb hu hgen hkeep
    rwa [hs] at this

end

/-! ### non-vacuity: a statement printed as two nodes, then regenerated -/

/-- statement `s` prints as `s` copies of node `10*s + k`. -/
def exGen (s : Nat) : List Nat := (List.range s).map (fun k => 10 * s + k)

-- old record: nodes [100 (comment), 1 (stmt 1)], index [(1,2,0,1)]; new statements [1, 2]: statement 2 inserted as two nodes
example : updateStatements exGen [100, 1] [(1, 2, 0, 1)] 2 (diff [1] [1, 2]) =
    some ([100, 1, 20, 21], [(1, 2, 0, 1), (2, 4, 1, 2)]) := by decide +kernel
-- second update: statement 2 replaced by statement 3; both nodes 20, 21 disappear, nothing stale is left
example : updateStatements exGen [100, 1, 20, 21] [(1, 2, 0, 1), (2, 4, 1, 2)] 4 (diff [1, 2] [1, 3]) =
    some ([100, 1, 30, 31, 32], [(1, 2, 0, 1), (2, 5, 1, 2)]) := by decide +kernel
-- with the span recorded as one node (the defect the invariant excludes) node 21 would survive
example : updateStatements exGen [100, 1, 20, 21] [(1, 2, 0, 1), (2, 3, 1, 2)] 4 (diff [1, 2] [1, 3]) =
    some ([100, 1, 30, 31, 32, 21], [(1, 2, 0, 1), (2, 5, 1, 2)]) := by decide +kernel

end Pharmpy.C02
