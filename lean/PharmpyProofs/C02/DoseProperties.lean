import PharmpyModel.C02.Dose
/-
  C02 — reserved dose parameters: `update_bio` / `update_lag_time` make the
  PREDPP reading of `$PK` equal to the in-memory dose attributes, PROVIDED no
  stale reserved assignment is present; they do not reconcile a stale one.
-/
namespace Pharmpy.C02

theorem assigned_append (pk : Pk) (x y e : String) : assigned (pk ++ [(y, e)]) x = (assigned pk x || decide (y = x)) := by
  simp [assigned]

theorem fName_eq_alag1 : alagName 1 = "ALAG1" := by decide

/-- **update_bio_consistent_partial**: for every dosing compartment and every `$PK`, if nothing stale is
    present (`NoStaleBio`), after `update_bio` the bioavailability PREDPP reads from the text is the one
    the object has — in both directions (assigned ⇔ non-neutral, same reserved symbol). -/
theorem update_bio_consistent_partial (c : DComp) (pk : Pk) (h : NoStaleBio c pk) :
    BioConsistent (updateBioOne c pk).1 (updateBioOne c pk).2 := by
  obtain ⟨h1, h2, h3⟩ := h
  unfold updateBioOne BioConsistent
  by_cases hn : c.bio = .neutral
  · simp [hn, pkBio, h1 hn]
  · by_cases hf : c.bio = .sym (fName c.num)
    · have : isFdigit c.bio.str = true → assigned pk c.bio.str = true := h2
      simp only [hn, hf, false_or, if_true]
      -- the object refers to Fn: it must be assigned
      have hd : assigned pk (fName c.num) = true := by
        have hfd : isFdigit (fName c.num) = true := by
          unfold fName isFdigit
          have : ("F" ++ toString c.num).toList = 'F' :: (toString c.num).toList := by simp
          rw [this]
          have hne : (toString c.num).toList ≠ [] := by
            simp [Nat.toString_eq_repr, Nat.repr, Nat.toDigits_ne_nil]
          cases hl : (toString c.num).toList with
          | nil => exact absurd hl hne
          | cons d ds =>
            simp only
            have : d ∈ (toString c.num).toList := by rw [hl]; simp
            have hd := Nat.isDigit_of_mem_toDigits (b := 10) (by omega) (by omega)
              (show d ∈ Nat.toDigits 10 c.num by simpa [Nat.toString_eq_repr, Nat.repr] using this)
            exact hd
        have := h2 (by rw [hf]; simpa [Attr.str] using hfd)
        rw [hf] at this; simpa [Attr.str] using this
      simp [pkBio, hd, hf]
    · simp only [hn, hf, or_self, if_false]
      by_cases hd : isFdigit c.bio.str = true
      · simp only [hd, if_true, pkBio]
        have ha := h2 hd
        have : assigned (pk.map (fun p => (if p.1 = c.bio.str then fName c.num else p.1, p.2))) (fName c.num) = true := by
          simp only [assigned, List.any_eq_true, List.any_map, Function.comp] at ha ⊢
          obtain ⟨p, hp, hp'⟩ := ha
          exact ⟨p, hp, by simp at hp'; simp [hp']⟩
        simp [this]
      · simp only [hd, Bool.false_eq_true, if_false, pkBio, assigned_append]
        simp

/-- **update_bio_stale_witness**: the side condition is necessary — with a stale `F1 = F_BIO` in `$PK` and an
    object whose dosing compartment has bioavailability 1, `update_bio` changes nothing and the text scales
    every dose by `F1` while the object does not. -/
theorem update_bio_stale_witness :
    let c : DComp := ⟨1, .neutral, .neutral⟩
    let pk : Pk := [("F_BIO", "BIO"), ("F1", "F_BIO")]
    updateBioOne c pk = (c, pk) ∧ ¬ BioConsistent (updateBioOne c pk).1 (updateBioOne c pk).2 := by
  decide

/-- **update_lag_consistent_partial**: same for the lag time of the (first) dosing compartment. -/
theorem update_lag_consistent_partial (oldLag : Attr) (c : DComp) (pk : Pk) (h : NoStaleLag oldLag c pk) :
    LagConsistent (updateLag oldLag c pk).1 (updateLag oldLag c pk).2 := by
  obtain ⟨hnum, h1, h2⟩ := h
  unfold updateLag LagConsistent
  by_cases hc : c.lag ≠ oldLag ∧ c.lag ≠ .neutral
  · rw [if_pos hc]
    simp only [pkLag, hnum, fName_eq_alag1, assigned_append]
    simp
  · rw [if_neg hc]
    simp only [pkLag, hnum, fName_eq_alag1]
    by_cases hn : c.lag = .neutral
    · simp [hn, h1 hn]
    · have : c.lag = oldLag := by
        apply Classical.byContradiction
        intro hne; exact hc ⟨hne, hn⟩
      obtain ⟨hs, ha⟩ := h2 this hn
      simp [hs, ha]

/-- **update_lag_stale_witness**: a stale `ALAG1` with an object whose lag time is 0 is not reconciled. -/
theorem update_lag_stale_witness :
    let c : DComp := ⟨1, .neutral, .neutral⟩
    let pk : Pk := [("ALAG1", "THETA(3)")]
    updateLag (.sym "ALAG1") c pk = (c, pk) ∧ ¬ LagConsistent (updateLag (.sym "ALAG1") c pk).1 (updateLag (.sym "ALAG1") c pk).2 := by
  decide

/-- **reserved_reading_roundtrip**: writing the reserved assignments an attribute calls for and reading them
    back by the PREDPP rule gives the attribute (so `Consistent` really is "same dosing attributes"). -/
theorem reserved_reading_roundtrip (n : Nat) (pk : Pk) (e : String) (h : assigned pk (fName n) = false) :
    pkBio pk n = .neutral ∧ pkBio (pk ++ [(fName n, e)]) n = .sym (fName n) := by
  simp [pkBio, h, assigned_append]

/-! non-vacuity -/
example : NoStaleBio ⟨1, .sym "F_BIO", .neutral⟩ [("F_BIO", "BIO")] := by
  refine ⟨by simp, by decide, by intro _ _; left; decide⟩
example : updateBioOne ⟨1, .sym "F_BIO", .neutral⟩ [("F_BIO", "BIO")] =
    (⟨1, .sym "F1", .neutral⟩, [("F_BIO", "BIO"), ("F1", "F_BIO")]) := by decide
example : updateBioOne ⟨2, .sym "F1", .neutral⟩ [("F1", "BIO")] = (⟨2, .sym "F2", .neutral⟩, [("F2", "BIO")]) := by decide

end Pharmpy.C02
