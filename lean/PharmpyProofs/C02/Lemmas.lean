import PharmpyModel.C02.Lcs
/-
  Helper lemmas for the LCS diff: the matrix equals its specification, the
  table walk equals the specification walk, LCS optimality.
-/
set_option linter.unusedSectionVars false
namespace Pharmpy.C02

section
variable {α : Type} [DecidableEq α]

/-! ### `commonPrefix` -/

theorem commonPrefix_left : ∀ (x y : List α), commonPrefix x y ++ x.drop (commonPrefix x y).length = x
  | [], _ => by simp [commonPrefix]
  | _ :: _, [] => by simp [commonPrefix]
  | a :: xs, b :: ys => by
    by_cases h : a = b
    · subst h; simp [commonPrefix, commonPrefix_left xs ys]
    · simp [commonPrefix, h]

theorem commonPrefix_right : ∀ (x y : List α), commonPrefix x y ++ y.drop (commonPrefix x y).length = y
  | [], _ => by simp [commonPrefix]
  | _ :: _, [] => by simp [commonPrefix]
  | a :: xs, b :: ys => by
    by_cases h : a = b
    · subst h; simp [commonPrefix, commonPrefix_right xs ys]
    · simp [commonPrefix, h]

theorem commonPrefix_length_le_left (x y : List α) : (commonPrefix x y).length ≤ x.length := by
  have h := congrArg List.length (commonPrefix_left x y)
  simp at h; omega

theorem commonPrefix_length_le_right (x y : List α) : (commonPrefix x y).length ≤ y.length := by
  have h := congrArg List.length (commonPrefix_right x y)
  simp at h; omega

theorem commonPrefix_append (p x y : List α) : commonPrefix (p ++ x) (p ++ y) = p ++ commonPrefix x y := by
  induction p with
  | nil => rfl
  | cons a p ih => simp [commonPrefix, ih]

/-! ### the matrix equals `lcsR` -/

/-- Specification of a row: `lcsR xs` of every tail of `yr`. -/
def rowSpec (xs : List α) : List α → List Nat
  | [] => [lcsR xs []]
  | b :: ys => lcsR xs (b :: ys) :: rowSpec xs ys

theorem lcsR_nil_right (xs : List α) : lcsR xs [] = 0 := by
  cases xs <;> simp [lcsR]

theorem rowSpec_headD (xs ys : List α) : (rowSpec xs ys).headD 0 = lcsR xs ys := by
  cases ys <;> simp [rowSpec]

theorem rowSpec_tail (xs : List α) (b : α) (ys : List α) : (rowSpec xs (b :: ys)).tail = rowSpec xs ys := by
  simp [rowSpec]

theorem rowSpec_nil (ys : List α) : rowSpec ([] : List α) ys = List.replicate (ys.length + 1) 0 := by
  induction ys with
  | nil => simp [rowSpec, lcsR]
  | cons b ys ih => simp [rowSpec, lcsR, ih, List.replicate_succ]

theorem rowStep_spec (a : α) (xs : List α) : ∀ ys, rowStep a ys (rowSpec xs ys) = rowSpec (a :: xs) ys
  | [] => by simp [rowStep, rowSpec, lcsR]
  | b :: ys => by
    have ih := rowStep_spec a xs ys
    simp only [rowStep, rowSpec_tail, ih, rowSpec_headD]
    by_cases h : a = b
    · simp [rowSpec, lcsR, h]
    · simp [rowSpec, lcsR, h]

/-- Specification of the table. -/
def tableSpec : List α → List α → List (List Nat)
  | [], yr => [rowSpec [] yr]
  | a :: xs, yr => rowSpec (a :: xs) yr :: tableSpec xs yr

theorem tableSpec_headD (xs ys : List α) : (tableSpec xs ys).headD [] = rowSpec xs ys := by
  cases xs <;> simp [tableSpec]

theorem table_eq_spec : ∀ (xr yr : List α), table xr yr = tableSpec xr yr
  | [], yr => by simp [table, tableSpec, rowSpec_nil]
  | a :: xs, yr => by
    simp only [table, tableSpec, table_eq_spec xs yr, tableSpec_headD, rowStep_spec]

theorem tableSpec_map_tail (b : α) (ys : List α) : ∀ xr : List α,
    (tableSpec xr (b :: ys)).map List.tail = tableSpec xr ys
  | [] => by simp [tableSpec, rowSpec]
  | a :: xs => by simp [tableSpec, rowSpec, tableSpec_map_tail b ys xs]

theorem tableSpec_tail (a : α) (xs yr : List α) : (tableSpec (a :: xs) yr).tail = tableSpec xs yr := by
  simp [tableSpec]

theorem entry_01 (a : α) (xs : List α) (b : α) (ys : List α) :
    entry (tableSpec (a :: xs) (b :: ys)) 0 1 = lcsR (a :: xs) ys := by
  simp only [entry, tableSpec, rowSpec, List.getD_cons_zero, List.getD_cons_succ]
  cases ys <;> simp [rowSpec]

theorem entry_10 (a : α) (xs : List α) (b : α) (ys : List α) :
    entry (tableSpec (a :: xs) (b :: ys)) 1 0 = lcsR xs (b :: ys) := by
  cases xs <;> simp [entry, tableSpec, rowSpec]

theorem walk_table_eq_spec : ∀ (xr yr : List α), walk (tableSpec xr yr) xr yr = walkSpec xr yr
  | [], [] => by simp [walk, walkSpec]
  | [], b :: ys => by
    have ih := walk_table_eq_spec ([] : List α) ys
    simp only [walk, walkSpec, tableSpec_map_tail, ih]
  | a :: xs, [] => by
    have ih := walk_table_eq_spec xs ([] : List α)
    simp only [walk, walkSpec, tableSpec_tail, ih]
  | a :: xs, b :: ys => by
    have ih1 := walk_table_eq_spec xs ys
    have ih2 := walk_table_eq_spec (a :: xs) ys
    have ih3 := walk_table_eq_spec xs (b :: ys)
    rw [walk, walkSpec, entry_01, entry_10, tableSpec_map_tail, tableSpec_tail, tableSpec_map_tail, ih1, ih2, ih3]
termination_by xr yr => xr.length + yr.length

theorem diff_eq_diffSpec (old new : List α) : diff old new = diffSpec old new := by
  simp only [diff, diffSpec, table_eq_spec, walk_table_eq_spec]

/-! ### what the walk yields -/

theorem dropIns_append (d e : List (Op α)) : dropIns (d ++ e) = dropIns d ++ dropIns e := by
  simp [dropIns]
theorem dropDel_append (d e : List (Op α)) : dropDel (d ++ e) = dropDel d ++ dropDel e := by
  simp [dropDel]
theorem kept_append (d e : List (Op α)) : kept (d ++ e) = kept d ++ kept e := by
  simp [kept]

theorem dropIns_zeros (l : List α) : dropIns (zeros l) = l := by
  induction l with
  | nil => rfl
  | cons a l ih => simp [dropIns, zeros] at ih ⊢; exact ih
theorem dropDel_zeros (l : List α) : dropDel (zeros l) = l := by
  induction l with
  | nil => rfl
  | cons a l ih => simp [dropDel, zeros] at ih ⊢; exact ih
theorem kept_zeros (l : List α) : kept (zeros l) = l := by
  induction l with
  | nil => rfl
  | cons a l ih => simp [kept, zeros] at ih ⊢; exact ih

theorem walkSpec_dropIns : ∀ (xr yr : List α), dropIns (walkSpec xr yr) = xr.reverse
  | [], [] => by simp [walkSpec, dropIns]
  | [], b :: ys => by
    have ih := walkSpec_dropIns ([] : List α) ys
    rw [walkSpec, dropIns_append, ih]; simp [dropIns]
  | a :: xs, [] => by
    have ih := walkSpec_dropIns xs ([] : List α)
    rw [walkSpec, dropIns_append, ih]; simp [dropIns]
  | a :: xs, b :: ys => by
    have ih1 := walkSpec_dropIns xs ys
    have ih2 := walkSpec_dropIns (a :: xs) ys
    have ih3 := walkSpec_dropIns xs (b :: ys)
    rw [walkSpec]
    split
    · rw [dropIns_append, ih1]; simp [dropIns]
    · split
      · rw [dropIns_append, ih2]; simp [dropIns]
      · rw [dropIns_append, ih3]; simp [dropIns]
termination_by xr yr => xr.length + yr.length

theorem walkSpec_dropDel : ∀ (xr yr : List α), dropDel (walkSpec xr yr) = yr.reverse
  | [], [] => by simp [walkSpec, dropDel]
  | [], b :: ys => by
    have ih := walkSpec_dropDel ([] : List α) ys
    rw [walkSpec, dropDel_append, ih]; simp [dropDel]
  | a :: xs, [] => by
    have ih := walkSpec_dropDel xs ([] : List α)
    rw [walkSpec, dropDel_append, ih]; simp [dropDel]
  | a :: xs, b :: ys => by
    have ih1 := walkSpec_dropDel xs ys
    have ih2 := walkSpec_dropDel (a :: xs) ys
    have ih3 := walkSpec_dropDel xs (b :: ys)
    rw [walkSpec]
    split
    · next h => subst h; rw [dropDel_append, ih1]; simp [dropDel]
    · split
      · rw [dropDel_append, ih2]; simp [dropDel]
      · rw [dropDel_append, ih3]; simp [dropDel]
termination_by xr yr => xr.length + yr.length

theorem walkSpec_kept_length : ∀ (xr yr : List α), (kept (walkSpec xr yr)).length = lcsR xr yr
  | [], [] => by simp [walkSpec, kept, lcsR]
  | [], b :: ys => by
    have ih := walkSpec_kept_length ([] : List α) ys
    rw [walkSpec, kept_append, List.length_append, ih]; simp [kept, lcsR]
  | a :: xs, [] => by
    have ih := walkSpec_kept_length xs ([] : List α)
    rw [walkSpec, kept_append, List.length_append, ih]; simp [kept, lcsR_nil_right]
  | a :: xs, b :: ys => by
    have ih1 := walkSpec_kept_length xs ys
    have ih2 := walkSpec_kept_length (a :: xs) ys
    have ih3 := walkSpec_kept_length xs (b :: ys)
    rw [walkSpec, lcsR]
    split
    · rw [kept_append, List.length_append, ih1]; simp [kept]
    · split
      · next h => rw [kept_append, List.length_append, ih2]; simp [kept]; omega
      · next h => rw [kept_append, List.length_append, ih3]; simp [kept]; omega
termination_by xr yr => xr.length + yr.length

/-! ### LCS optimality -/

/-- `n` bounds the length of every common subsequence of `x` and `y`. -/
def CommonBound (n : Nat) (x y : List α) : Prop :=
  ∀ zs : List α, zs.Sublist x → zs.Sublist y → zs.length ≤ n

theorem commonBound_cons {n : Nat} {x y : List α} (a : α) (h : CommonBound n x y) :
    CommonBound (n + 1) (a :: x) (a :: y) := by
  intro zs hx hy
  cases hx with
  | cons _ hx' =>
    cases hy with
    | cons _ hy' => have := h _ hx' hy'; omega
    | cons_cons _ hy' =>
      have := h _ ((List.sublist_cons_self _ _).trans hx') hy'
      simp; omega
  | cons_cons _ hx' =>
    cases hy with
    | cons _ hy' =>
      have := h _ hx' ((List.sublist_cons_self _ _).trans hy')
      simp; omega
    | cons_cons _ hy' => have := h _ hx' hy'; simp; omega

theorem commonBound_append_left {n : Nat} {x y : List α} (p : List α) (h : CommonBound n x y) :
    CommonBound (p.length + n) (p ++ x) (p ++ y) := by
  induction p with
  | nil => simpa using h
  | cons a p ih =>
    have := commonBound_cons a ih
    simpa [Nat.add_assoc, Nat.add_comm, Nat.add_left_comm] using this

theorem commonBound_reverse {n : Nat} {x y : List α} (h : CommonBound n x y) :
    CommonBound n x.reverse y.reverse := by
  intro zs hx hy
  have hx' := hx.reverse
  have hy' := hy.reverse
  simp at hx' hy'
  simpa using h _ hx' hy'

theorem commonBound_append_right {n : Nat} {x y : List α} (s : List α) (h : CommonBound n x y) :
    CommonBound (n + s.length) (x ++ s) (y ++ s) := by
  have h1 := commonBound_append_left s.reverse (commonBound_reverse h)
  have h2 := commonBound_reverse h1
  simpa [Nat.add_comm] using h2

theorem lcsR_bound : ∀ (x y : List α), CommonBound (lcsR x y) x y
  | [], _ => by
    intro zs hx _; simp at hx; subst hx; simp
  | _ :: _, [] => by
    intro zs _ hy; simp at hy; subst hy; simp
  | a :: xs, b :: ys => by
    have ih1 := lcsR_bound xs ys
    have ih2 := lcsR_bound (a :: xs) ys
    have ih3 := lcsR_bound xs (b :: ys)
    rw [lcsR]
    split
    · next h => subst h; exact commonBound_cons a ih1
    · next h =>
      intro zs hx hy
      cases hx with
      | cons _ hx' => have := ih3 _ hx' hy; omega
      | cons_cons _ hx' =>
        cases hy with
        | cons _ hy' => have := ih2 _ (List.Sublist.cons_cons _ hx') hy'; omega
        | cons_cons _ hy' => exact absurd rfl h
termination_by x y => x.length + y.length

end
end Pharmpy.C02
