import PharmpyModel.C02.Advan
import PharmpyModel.C02.PkConv
/-
  Helper lemmas for the ADVAN decision: membership characterisations of the
  graph queries.
-/
namespace Pharmpy.C02
open CGraph

theorem mem_succs (g : CGraph) (a b : Nat) : b ∈ g.succs a ↔ g.hasEdge a b = true := by
  simp only [succs, hasEdge, List.mem_map, List.mem_filter, List.contains_iff_mem, decide_eq_true_eq]
  constructor
  · rintro ⟨⟨x, y⟩, ⟨hm, hx⟩, hy⟩
    simp at hx hy; subst hx; subst hy; exact hm
  · intro h; exact ⟨(a, b), ⟨h, rfl⟩, rfl⟩

theorem mem_preds (g : CGraph) (wf : WF g) (a b : Nat) : a ∈ g.preds b ↔ g.hasEdge a b = true := by
  simp only [preds, hasEdge, List.mem_map, List.mem_filter, List.contains_iff_mem, decide_eq_true_eq]
  constructor
  · rintro ⟨⟨x, y⟩, ⟨hm, hy⟩, hx⟩
    simp at hx hy; subst hx; subst hy; exact (wf.predSame _).1 hm
  · intro h; exact ⟨(a, b), ⟨(wf.predSame _).2 h, rfl⟩, rfl⟩

theorem mem_bidir (g : CGraph) (wf : WF g) (c v : Nat) :
    v ∈ g.bidir c ↔ (g.hasEdge v c = true ∧ g.hasEdge c v = true) := by
  simp [bidir, List.mem_filter, mem_preds g wf]

theorem flowNZ_eq (g : CGraph) (wf : WF g) (a b : Nat) : g.flowNZ a b = g.hasEdge a b := by
  simp [flowNZ, wf.noZero]

theorem succs_singleton {g : CGraph} {a c : Nat} (h : g.succs a = [c]) :
    ∀ x, g.hasEdge a x = true ↔ x = c := by
  intro x; rw [← mem_succs, h]; simp

theorem bidir_singleton {g : CGraph} (wf : WF g) {c p : Nat} (h : g.bidir c = [p]) :
    ∀ x, (g.hasEdge x c = true ∧ g.hasEdge c x = true) ↔ x = p := by
  intro x; rw [← mem_bidir g wf, h]; simp

theorem bidir_pair {g : CGraph} (wf : WF g) {c p q : Nat} (h : g.bidir c = [p, q]) :
    ∀ x, (g.hasEdge x c = true ∧ g.hasEdge c x = true) ↔ (x = p ∨ x = q) := by
  intro x; rw [← mem_bidir g wf, h]; simp

theorem length_one {α : Type} {l : List α} (h : l.length = 1) : ∃ e, l = [e] := by
  match l, h with
  | [e], _ => exact ⟨e, rfl⟩

/-- Unfolding of the shared head of `match_advan2/4/12`. -/
theorem depotCentral_some {g : CGraph} {d c : Nat} (h : depotCentral g = some (some (d, c))) :
    (∃ ds, g.dosingComps = some ds ∧ ds.headD 0 = d) ∧ g.succs d = [c] := by
  unfold depotCentral at h
  cases hd : g.dosingComps with
  | none => simp [hd] at h
  | some ds =>
    simp only [hd] at h
    split at h
    · next c' hs =>
      simp only [Option.some.injEq, Prod.mk.injEq] at h
      obtain ⟨h1, h2⟩ := h
      subst h1; subst h2
      exact ⟨⟨ds, rfl, rfl⟩, hs⟩
    · simp at h

end Pharmpy.C02
