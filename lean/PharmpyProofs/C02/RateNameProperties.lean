/-
  C02 × C01 — every rate-constant name written by the generator is read back as the flow it
  was written for: for every number of compartments, every source and every destination.
-/
import PharmpyModel.C02.RateName
import Mathlib.Tactic.IntervalCases
namespace Pharmpy.C02.RateName
open Pharmpy.C01.Rates

theorem natOf_eq (cs : List Char) : natOf cs = Nat.ofDigitChars 10 cs 0 := rfl

@[simp] theorem natOf_digits (k : Nat) : natOf (digits k) = k := by
  simp [natOf_eq, digits]

theorem digits_all (k : Nat) : (digits k).all Char.isDigit = true := by
  simp only [List.all_eq_true]
  intro c hc
  exact Nat.isDigit_of_mem_toDigits (by decide) (by decide) hc

theorem digits_ne_nil (k : Nat) : digits k ≠ [] := Nat.toDigits_ne_nil

theorem digits_lt10 {k : Nat} (h : k < 10) : digits k = [Nat.digitChar k] :=
  Nat.toDigits_of_lt_base h

theorem takeWhile_append_stop (p : Char → Bool) : ∀ (d rest : List Char) (c : Char), d.all p = true → p c = false →
    (d ++ c :: rest).takeWhile p = d ∧ (d ++ c :: rest).dropWhile p = c :: rest := by
  intro d; induction d with
  | nil => intro rest c _ hc; simp [hc]
  | cons x xs ih =>
    intro rest c h hc
    simp only [List.all_cons, Bool.and_eq_true] at h
    have := ih rest c h.2 hc
    simp [h.1, this.1, this.2]

theorem takeWhile_all (p : Char → Bool) : ∀ d : List Char, d.all p = true →
    d.takeWhile p = d ∧ d.dropWhile p = [] := by
  intro d; induction d with
  | nil => intro _; simp
  | cons x xs ih =>
    intro h
    simp only [List.all_cons, Bool.and_eq_true] at h
    simp [h.1, ih h.2]

/-- A `K<d1>T<d2>` spelling is read as the pair of its two numbers. -/
theorem rateOf_T (n : Nat) (d1 d2 : List Char) (h1 : d1.all Char.isDigit = true) (h1' : d1 ≠ [])
    (h2 : d2.all Char.isDigit = true) (h2' : d2 ≠ []) :
    rateOf n (String.ofList ('K' :: (d1 ++ 'T' :: d2))) = some (fin n (natOf d1) (natOf d2)) := by
  have := takeWhile_append_stop Char.isDigit d1 d2 'T' h1 (by decide)
  have hd2 : isDigits d2 = true := by
    simp [isDigits, h2]; exact h2'
  simp [rateOf, splitRate, this.1, this.2, hd2, decode, h1']

/-- A `K<a><b>` spelling with two digits is read digit by digit. -/
theorem rateOf_two (n a b : Nat) (ha : a < 10) (hb : b < 10) :
    rateOf n (String.ofList ['K', Nat.digitChar a, Nat.digitChar b]) = some (fin n a b) := by
  interval_cases a <;> interval_cases b <;> rfl

/-- A `K<d1>` spelling whose digit string is `d1`. -/
theorem rateOf_bare (n : Nat) (d1 : List Char) (h1 : d1.all Char.isDigit = true) (h1' : d1 ≠ []) :
    rateOf n (String.ofList ('K' :: d1)) = some (decode n d1 none) := by
  have := takeWhile_all Char.isDigit d1 h1
  simp [rateOf, splitRate, this.1, this.2, h1']

/-- **Round trip (all sizes).**  For every number `n` of the output compartment, every source
    `sn` and every destination `dn` (a compartment `1 ≤ dn < n`, or the output `dn = n`), the
    name the generator writes is read back by `_find_rates` as the flow `sn → dn`. -/
theorem rate_name_roundtrip (n sn dn : Nat) (hs : 1 ≤ sn) (hd : 1 ≤ dn) (hdn : dn ≤ n) :
    rateOf n (rateParam n sn dn) = some (.flow sn dn) := by
  unfold rateParam sep
  by_cases hout : dn = n
  · subst hout
    by_cases h10 : 10 ≤ sn
    · have := rateOf_T dn (digits sn) ['0'] (digits_all sn) (digits_ne_nil sn) (by decide) (by decide)
      simp [h10] at this ⊢
      simpa [fin, natOf] using this
    · have hs' : sn < 10 := by omega
      have e : String.ofList ('K' :: (digits sn ++ (if 10 ≤ sn ∨ 10 ≤ dn then if dn ≠ dn ∨ 10 ≤ sn then ['T'] else [] else []) ++
          (if dn = dn then ['0'] else digits dn))) = String.ofList ['K', Nat.digitChar sn, Nat.digitChar 0] := by
        by_cases hd10 : 10 ≤ dn <;> simp [h10, hd10, digits_lt10 hs'] <;> rfl
      rw [e]
      have := rateOf_two dn sn 0 hs' (by decide)
      simpa [fin] using this
  · by_cases h : 10 ≤ sn ∨ 10 ≤ dn
    · have := rateOf_T n (digits sn) (digits dn) (digits_all sn) (digits_ne_nil sn) (digits_all dn) (digits_ne_nil dn)
      simp [h, hout] at this ⊢
      have hd0 : ¬ dn = 0 := by omega
      simpa [fin, hd0] using this
    · have hs' : sn < 10 := by omega
      have hd' : dn < 10 := by omega
      have := rateOf_two n sn dn hs' hd'
      have hd0 : ¬ dn = 0 := by omega
      simp [h, hout, digits_lt10 hs', digits_lt10 hd']
      simpa [fin, hd0] using this

/-- Non-vacuity and the reason for the separator before `0`: with eleven compartments and the
    output numbered 12, the flow `11 → output` is written `K11T0`; the bare spelling `K110`
    (which the code produced before the repair) cannot be read back. -/
theorem rate_name_witness :
    rateParam 12 11 12 = "K11T0" ∧ rateOf 12 (rateParam 12 11 12) = some (.flow 11 12) ∧
    rateParamOld 12 11 12 = "K110" ∧ rateOf 12 (rateParamOld 12 11 12) = some .ambiguous := by
  decide

/-- The old spelling and the new one differ only for a two-digit source flowing to the output. -/
theorem rateParamOld_eq (n sn dn : Nat) (h : dn ≠ n ∨ sn < 10) : rateParamOld n sn dn = rateParam n sn dn := by
  unfold rateParamOld rateParam sepOld sep
  rcases h with h | h
  · simp [h]
  · have : ¬ 10 ≤ sn := by omega
    simp [this]

example : rateOf 5 (rateParam 5 2 3) = some (.flow 2 3) := rate_name_roundtrip 5 2 3 (by decide) (by decide) (by decide)
example : rateParam 11 9 10 = "K9T10" ∧ rateParam 11 10 9 = "K10T9" ∧ rateParam 10 9 10 = "K90" := by decide

theorem digits_two {k : Nat} (h1 : 10 ≤ k) (h2 : k < 100) : digits k = [Nat.digitChar (k / 10), Nat.digitChar (k % 10)] := by
  unfold digits
  rw [Nat.toDigits_of_base_le (by decide) h1, Nat.toDigits_of_lt_base (by omega)]
  rfl

theorem natOf_dc (a : Nat) (h : a < 10) : natOf [Nat.digitChar a] = a := by
  interval_cases a <;> rfl
theorem natOf_dc2 (a b : Nat) (ha : a < 10) (hb : b < 10) : natOf [Nat.digitChar a, Nat.digitChar b] = 10 * a + b := by
  interval_cases a <;> interval_cases b <;> rfl

/-- three digits `a b c`: the decoding is the first reading, the second reading, ambiguous or skip, as the code says. -/
theorem decode_three (n a b c : Nat) (ha : a < 10) (hb : b < 10) (hc : c < 10) :
    decode n [Nat.digitChar a, Nat.digitChar b, Nat.digitChar c] none =
      (let q1 := decide (a ≤ n) && decide (10 * b + c ≤ n) && (10 * b + c != 0)
       let q2 := decide (10 * a + b ≤ n) && decide (c ≤ n)
       if q1 && q2 then .ambiguous else if q1 then fin n a (10 * b + c) else if q2 then fin n (10 * a + b) c else .skip) := by
  simp only [decode, natOf_dc a ha, natOf_dc c hc, natOf_dc2 a b ha hb, natOf_dc2 b c hb hc]

theorem all_dc (l : List Nat) (h : ∀ x ∈ l, x < 10) : (l.map Nat.digitChar).all Char.isDigit = true := by
  induction l with
  | nil => rfl
  | cons a t ih =>
    have ha := h a (List.mem_cons_self)
    have : (Nat.digitChar a).isDigit = true := by interval_cases a <;> rfl
    simp only [List.map_cons, List.all_cons, this, Bool.true_and]
    exact ih (fun x hx => h x (List.mem_cons_of_mem _ hx))

/-- **Synonyms never name another flow (fewer than 100 compartments).**  The bare spelling `K{sn}{dn}` under which
    `add_rate_assignment_if_missing` also recognises an existing rate is read by `_find_rates` as the flow `sn → dn`
    or refused as ambiguous — never as a different flow and never ignored. -/
theorem bare_synonym_sound (n sn dn : Nat) (hn : n < 100) (hs : 1 ≤ sn) (hsn : sn ≤ n) (hd : 1 ≤ dn) (hdn : dn ≤ n) :
    rateOf n (String.ofList ('K' :: (digits sn ++ digits dn))) = some (.flow sn dn) ∨
    rateOf n (String.ofList ('K' :: (digits sn ++ digits dn))) = some .ambiguous := by
  have hd0 : (dn == 0) = false := by simp; omega
  by_cases h1 : sn < 10 <;> by_cases h2 : dn < 10
  · left
    rw [digits_lt10 h1, digits_lt10 h2]
    have := rateOf_two n sn dn h1 h2
    simpa [fin, hd0] using this
  · have hdn2 := digits_two (k := dn) (by omega) (by omega)
    rw [digits_lt10 h1, hdn2]
    have hall := all_dc [sn, dn / 10, dn % 10] (by intro x hx; simp at hx; omega)
    have := rateOf_bare n [Nat.digitChar sn, Nat.digitChar (dn / 10), Nat.digitChar (dn % 10)] hall (by simp)
    simp only [List.cons_append, List.nil_append]
    rw [this, decode_three n sn (dn / 10) (dn % 10) h1 (by omega) (by omega)]
    have e : 10 * (dn / 10) + dn % 10 = dn := by omega
    simp only [e]
    have q1 : (decide (sn ≤ n) && decide (dn ≤ n) && (dn != 0)) = true := by simp; omega
    simp only [q1, Bool.true_and]
    by_cases q2 : (decide (10 * sn + dn / 10 ≤ n) && decide (dn % 10 ≤ n)) = true
    · right; simp [q2]
    · left; simp [q2, fin, hd0]
  · have hsn2 := digits_two (k := sn) (by omega) (by omega)
    rw [digits_lt10 h2, hsn2]
    have hall := all_dc [sn / 10, sn % 10, dn] (by intro x hx; simp at hx; omega)
    have := rateOf_bare n [Nat.digitChar (sn / 10), Nat.digitChar (sn % 10), Nat.digitChar dn] hall (by simp)
    simp only [List.cons_append, List.nil_append]
    rw [this, decode_three n (sn / 10) (sn % 10) dn (by omega) (by omega) h2]
    have e : 10 * (sn / 10) + sn % 10 = sn := by omega
    simp only [e]
    have q2 : (decide (sn ≤ n) && decide (dn ≤ n)) = true := by simp; omega
    simp only [q2, Bool.and_true]
    by_cases q1 : (decide (sn / 10 ≤ n) && decide (10 * (sn % 10) + dn ≤ n) && (10 * (sn % 10) + dn != 0)) = true
    · right; simp [q1]
    · left; simp [q1, fin, hd0]
  · left
    have hsn2 := digits_two (k := sn) (by omega) (by omega)
    have hdn2 := digits_two (k := dn) (by omega) (by omega)
    rw [hsn2, hdn2]
    have hall := all_dc [sn / 10, sn % 10, dn / 10, dn % 10] (by intro x hx; simp at hx; omega)
    have := rateOf_bare n [Nat.digitChar (sn / 10), Nat.digitChar (sn % 10), Nat.digitChar (dn / 10), Nat.digitChar (dn % 10)] hall (by simp)
    simp only [List.cons_append, List.nil_append]
    rw [this]
    simp only [decode, natOf_dc2 _ _ (show sn / 10 < 10 by omega) (show sn % 10 < 10 by omega),
      natOf_dc2 _ _ (show dn / 10 < 10 by omega) (show dn % 10 < 10 by omega)]
    have e1 : 10 * (sn / 10) + sn % 10 = sn := by omega
    have e2 : 10 * (dn / 10) + dn % 10 = dn := by omega
    simp [e1, e2, fin, hd0]

/-- The ambiguous outcome does occur (twelve compartments and the output: `K112` for 1 → 12 or 11 → 2). -/
theorem bare_synonym_ambiguous_witness :
    rateOf 13 (String.ofList ('K' :: (digits 1 ++ digits 12))) = some .ambiguous ∧
    String.ofList ('K' :: (digits 1 ++ digits 12)) = String.ofList ('K' :: (digits 11 ++ digits 2)) := by decide

end Pharmpy.C02.RateName
