/-
  C02 × C01 — every rate-constant name written by the generator is read back as the flow it
  was written for: for every number of compartments, every source and every destination.
-/
import PharmpyModel.C02.RateName
import Mathlib.Tactic.IntervalCases
namespace Pharmpy.C02.RateName
open Pharmpy.C01.Rates

theorem natOf_eq (cs : List Char) : natOf cs = Nat.ofDigitChars 10 cs 0 := rfl

@[simp] theorem natOf_digits (k : Nat) : natOf (digits k) = k := by
  simp [natOf_eq, digits]

theorem digits_all (k : Nat) : (digits k).all Char.isDigit = true := by
  simp only [List.all_eq_true]
  intro c hc
  exact Nat.isDigit_of_mem_toDigits (by decide) (by decide) hc

theorem digits_ne_nil (k : Nat) : digits k ≠ [] := Nat.toDigits_ne_nil

theorem digits_lt10 {k : Nat} (h : k < 10) : digits k = [Nat.digitChar k] :=
  Nat.toDigits_of_lt_base h

theorem takeWhile_append_stop (p : Char → Bool) : ∀ (d rest : List Char) (c : Char), d.all p = true → p c = false →
    (d ++ c :: rest).takeWhile p = d ∧ (d ++ c :: rest).dropWhile p = c :: rest := by
  intro d; induction d with
  | nil => intro rest c _ hc; simp [hc]
  | cons x xs ih =>
    intro rest c h hc
    simp only [List.all_cons, Bool.and_eq_true] at h
    have := ih rest c h.2 hc
    simp [h.1, this.1, this.2]

theorem takeWhile_all (p : Char → Bool) : ∀ d : List Char, d.all p = true →
    d.takeWhile p = d ∧ d.dropWhile p = [] := by
  intro d; induction d with
  | nil => intro _; simp
  | cons x xs ih =>
    intro h
    simp only [List.all_cons, Bool.and_eq_true] at h
    simp [h.1, ih h.2]

/-- A `K<d1>T<d2>` spelling is read as the pair of its two numbers. -/
theorem rateOf_T (n : Nat) (d1 d2 : List Char) (h1 : d1.all Char.isDigit = true) (h1' : d1 ≠ [])
    (h2 : d2.all Char.isDigit = true) (h2' : d2 ≠ []) :
    rateOf n (String.ofList ('K' :: (d1 ++ 'T' :: d2))) = some (fin n (natOf d1) (natOf d2)) := by
  have := takeWhile_append_stop Char.isDigit d1 d2 'T' h1 (by decide)
  have hd2 : isDigits d2 = true := by
    simp [isDigits, h2]; exact h2'
  simp [rateOf, splitRate, this.1, this.2, hd2, decode, h1']

/-- A `K<a><b>` spelling with two digits is read digit by digit. -/
theorem rateOf_two (n a b : Nat) (ha : a < 10) (hb : b < 10) :
    rateOf n (String.ofList ['K', Nat.digitChar a, Nat.digitChar b]) = some (fin n a b) := by
  interval_cases a <;> interval_cases b <;> rfl

/-- A `K<d1>` spelling whose digit string is `d1`. -/
theorem rateOf_bare (n : Nat) (d1 : List Char) (h1 : d1.all Char.isDigit = true) (h1' : d1 ≠ []) :
    rateOf n (String.ofList ('K' :: d1)) = some (decode n d1 none) := by
  have := takeWhile_all Char.isDigit d1 h1
  simp [rateOf, splitRate, this.1, this.2, h1']

/-- **Round trip (all sizes).**  For every number `n` of the output compartment, every source
    `sn` and every destination `dn` (a compartment `1 ≤ dn < n`, or the output `dn = n`), the
    name the generator writes is read back by `_find_rates` as the flow `sn → dn`. -/
theorem rate_name_roundtrip (n sn dn : Nat) (hs : 1 ≤ sn) (hd : 1 ≤ dn) (hdn : dn ≤ n) :
    rateOf n (rateParam n sn dn) = some (.flow sn dn) := by
  unfold rateParam sep
  by_cases hout : dn = n
  · subst hout
    by_cases h10 : 10 ≤ sn
    · have := rateOf_T dn (digits sn) ['0'] (digits_all sn) (digits_ne_nil sn) (by decide) (by decide)
      simp [h10] at this ⊢
      simpa [fin, natOf] using this
    · have hs' : sn < 10 := by omega
      have e : String.ofList ('K' :: (digits sn ++ (if 10 ≤ sn ∨ 10 ≤ dn then if dn ≠ dn ∨ 10 ≤ sn then ['T'] else [] else []) ++
          (if dn = dn then ['0'] else digits dn))) = String.ofList ['K', Nat.digitChar sn, Nat.digitChar 0] := by
        by_cases hd10 : 10 ≤ dn <;> simp [h10, hd10, digits_lt10 hs'] <;> rfl
      rw [e]
      have := rateOf_two dn sn 0 hs' (by decide)
      simpa [fin] using this
  · by_cases h : 10 ≤ sn ∨ 10 ≤ dn
    · have := rateOf_T n (digits sn) (digits dn) (digits_all sn) (digits_ne_nil sn) (digits_all dn) (digits_ne_nil dn)
      simp [h, hout] at this ⊢
      have hd0 : ¬ dn = 0 := by omega
      simpa [fin, hd0] using this
    · have hs' : sn < 10 := by omega
      have hd' : dn < 10 := by omega
      have := rateOf_two n sn dn hs' hd'
      have hd0 : ¬ dn = 0 := by omega
      simp [h, hout, digits_lt10 hs', digits_lt10 hd']
      simpa [fin, hd0] using this

/-- Non-vacuity and the reason for the separator before `0`: with eleven compartments and the
    output numbered 12, the flow `11 → output` is written `K11T0`; the bare spelling `K110`
    (which the code produced before the repair) cannot be read back. -/
theorem rate_name_witness :
    rateParam 12 11 12 = "K11T0" ∧ rateOf 12 (rateParam 12 11 12) = some (.flow 11 12) ∧
    rateParamOld 12 11 12 = "K110" ∧ rateOf 12 (rateParamOld 12 11 12) = some .ambiguous := by
  decide

/-- The old spelling and the new one differ only for a two-digit source flowing to the output. -/
theorem rateParamOld_eq (n sn dn : Nat) (h : dn ≠ n ∨ sn < 10) : rateParamOld n sn dn = rateParam n sn dn := by
  unfold rateParamOld rateParam sepOld sep
  rcases h with h | h
  · simp [h]
  · have : ¬ 10 ≤ sn := by omega
    simp [this]

example : rateOf 5 (rateParam 5 2 3) = some (.flow 2 3) := rate_name_roundtrip 5 2 3 (by decide) (by decide) (by decide)
example : rateParam 11 9 10 = "K9T10" ∧ rateParam 11 10 9 = "K10T9" ∧ rateParam 10 9 10 = "K90" := by decide

end Pharmpy.C02.RateName
