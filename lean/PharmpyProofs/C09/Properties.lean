import PharmpyProofs.C09.Lemmas
/-
  C09 — Model extensions implement documented formulas; neutral at reference.
  Property theorems only.

  `Gen.*` are the templates read from pharmpy's source by translator T8 on every
  run (Generated/Templates.lean); `Doc.*` is the documented formula table.
  All theorems quantify over every interpretation `F : Funs` of
  exp/log/pow/sign/Abs/sqrt over `Rat`; the laws of these functions that a
  theorem needs are explicit hypotheses (`F.exp 0 = 1`, `∀ t, F.pow 1 t = 1`).
-/
namespace Pharmpy.C09
open Pharmpy Expr

/-! ## Covariate effects: the code's templates are the documented functions -/

/-- lin / exp / pow / piece_lin: the instantiated source template evaluates to the documented formula of
    theta, the covariate and the centring statistic. -/
theorem effect_matches_doc (F : Funs) (ρ : Env Rat) (a : CovArgs) (e : Expr) (he : effectExpr a = some e) :
    (a.kind = "lin" → ev F ρ e = Doc.lin (ρ (thetaName a 0)) (ρ a.cov) (ρ (medianName a))) ∧
    (a.kind = "exp" → ev F ρ e = Doc.exp F (ρ (thetaName a 0)) (ρ a.cov) (ρ (medianName a))) ∧
    (a.kind = "pow" → ev F ρ e = Doc.pow F (ρ (thetaName a 0)) (ρ a.cov) (ρ (medianName a))) ∧
    (a.kind = "piece_lin" →
      ev F ρ e = Doc.pieceLin (ρ (thetaName a 1)) (ρ (thetaName a 2)) (ρ a.cov) (ρ (medianName a))) := by
  refine ⟨?_, ?_, ?_, ?_⟩ <;> intro h <;> simp [effectExpr, h] at he <;> subst he
  · simp [ev, inst, Gen.effLin, Expr.subst, List.lookup, Expr.eval, interp, interpFn, Doc.lin]; grind
  · simp [ev, inst, Gen.effExp, Expr.subst, List.lookup, Expr.eval, interp, interpFn, Doc.exp]; grind
  · simp [ev, inst, Gen.effPow, Expr.subst, List.lookup, Expr.eval, interp, interpFn, Doc.pow]
  · simp [ev, inst, Gen.effPieceLin, Expr.subst, List.lookup, Expr.eval, interp, interpFn, Doc.pieceLin, truth]
    grind

/-- The documented continuous effects equal 1 at the reference value of the covariate. -/
theorem doc_effect_one_at_reference (F : Funs) (hexp : F.exp 0 = 1) (hpow : ∀ t, F.pow 1 t = 1)
    (θ θ' m : Rat) :
    Doc.lin θ m m = 1 ∧ Doc.pieceLin θ θ' m m = 1 ∧ Doc.exp F θ m m = 1 ∧ (m ≠ 0 → Doc.pow F θ m m = 1) := by
  refine ⟨?_, ?_, ?_, ?_⟩
  · simp [Doc.lin]; grind
  · simp [Doc.pieceLin]; grind
  · have : θ * (m - m) = 0 := by grind
    simp [Doc.exp, this, hexp]
  · intro hm
    have : m / m = 1 := by grind
    simp [Doc.pow, this, hpow]

/-- Evaluation of a piecewise chain built from `catBranches`: the branch of the j-th other category fires when
    the covariate equals it and equals no earlier category (all category lists, all positions). -/
theorem cat_branch_lookup (F : Funs) (ρ : Env Rat) (alt single : Bool) (cov : Sym) (tn : Nat → Sym) :
    ∀ (others : List Cat) (k0 j : Nat) (c : Expr),
      others[j]? = some (some c) → ρ cov = ev F ρ c →
      (∀ i, i < j → ∀ d, others[i]? = some (some d) → ρ cov ≠ ev F ρ d) →
      (∀ i, i < j → others[i]? = some none → ρ cov ≠ ρ "NaN") →
      ev F ρ (piecewise (catBranches alt single cov tn others k0))
        = ev F ρ (catValue alt single tn (k0 + ((others.take j).filter Option.isSome).length)) := by
  intro others
  induction others with
  | nil => intro k0 j c h; simp at h
  | cons o rest ih =>
    intro k0 j c hj hc hne hnan
    cases j with
    | zero =>
      simp at hj; subst hj
      simp [catBranches, piecewise, ev, Expr.eval, interp, interpFn, eEq, truth]
      simp [ev, interp] at hc
      simp [hc]
    | succ j' =>
      simp at hj
      cases o with
      | none =>
        have h0 := hnan 0 (by omega) (by simp)
        have := ih k0 j' c hj hc
          (fun i hi d hd => hne (i + 1) (by omega) d (by simpa using hd))
          (fun i hi hd => hnan (i + 1) (by omega) (by simpa using hd))
        simp only [catBranches, piecewise]
        simp only [ev, Expr.eval] at this ⊢
        simp only [interp, interpFn, eEq, truth, Expr.eval] at this ⊢
        simp [h0] at this ⊢
        exact this
      | some d =>
        have h0 := hne 0 (by omega) d (by simp)
        have := ih (k0 + 1) j' c hj hc
          (fun i hi d hd => hne (i + 1) (by omega) d (by simpa using hd))
          (fun i hi hd => hnan (i + 1) (by omega) (by simpa using hd))
        simp only [catBranches, piecewise]
        simp only [ev, Expr.eval] at this h0 ⊢
        simp only [interp, interpFn, eEq, truth, Expr.eval] at this h0 ⊢
        simp [h0] at this ⊢
        rw [this]
        have hk : k0 + 1 + ((List.take j' rest).filter Option.isSome).length
            = k0 + (((List.take j' rest).filter Option.isSome).length + 1) := by omega
        rw [hk]

/-- cat / cat2: value of a non-reference branch is the documented `1 + θ_k` / `θ_k`. -/
theorem cat_value_matches_doc (F : Funs) (ρ : Env Rat) (alt single : Bool) (tn : Nat → Sym) (k : Nat) :
    ev F ρ (catValue alt single tn k) = Doc.cat alt (ρ (tn (if single then 0 else k))) := by
  cases alt <;> cases single <;>
    simp [catValue, ev, inst, Gen.catSingle, Gen.cat2Single, Gen.catMulti, Gen.cat2Multi, Expr.subst,
      List.lookup, Expr.eval, interp, interpFn, Doc.cat]

/-- cat / cat2 are 1 at the reference (most common) category, for every list of other categories. -/
theorem cat_neutral_at_reference (F : Funs) (ρ : Env Rat) (alt : Bool) (cov : Sym) (ref : Expr)
    (others : List Cat) (tn : Nat → Sym) (href : ρ cov = ev F ρ ref) :
    ev F ρ (catTemplate alt cov ref others tn) = 1 := by
  simp only [ev, interp] at href
  simp [catTemplate, piecewise, ev, Expr.eval, interp, interpFn, eEq, truth, Gen.catRef, href]

/-- Every templated effect equals 1 at the reference value of the covariate
    (median for the continuous kinds, most common category for cat/cat2). -/
theorem effect_one_at_reference (F : Funs) (hexp : F.exp 0 = 1) (hpow : ∀ t, F.pow 1 t = 1)
    (ρ : Env Rat) (a : CovArgs) (e : Expr) (he : effectExpr a = some e)
    (href : if usesMedian a.kind then ρ a.cov = ρ (medianName a) else ρ a.cov = ev F ρ a.ref)
    (hm : a.kind = "pow" → ρ (medianName a) ≠ 0) :
    ev F ρ e = 1 := by
  have hdoc := effect_matches_doc F ρ a e he
  have hone := doc_effect_one_at_reference F hexp hpow
  unfold effectExpr at he
  split at he
  · rename_i hk; simp [usesMedian, hk] at href
    rw [hdoc.1 hk, href]; exact (hone _ 0 _).1
  · rename_i hk; simp [usesMedian, hk] at href
    rw [hdoc.2.1 hk, href]; exact (hone _ 0 _).2.2.1
  · rename_i hk; simp [usesMedian, hk] at href
    rw [hdoc.2.2.1 hk, href]; exact (hone _ 0 _).2.2.2 (hm hk)
  · rename_i hk; simp [usesMedian, hk] at href
    rw [hdoc.2.2.2 hk, href]; exact (hone _ _ _).2.1
  · rename_i hk; simp [usesMedian, hk] at href
    simp at he; subst he
    exact cat_neutral_at_reference F ρ false _ _ _ _ href
  · rename_i hk; simp [usesMedian, hk] at href
    simp at he; subst he
    exact cat_neutral_at_reference F ρ true _ _ _ _ href
  · simp at he

/-- FULL statement of the property ("the effect equals the neutral element of the operation at the reference"),
    proved for the multiplicative operation … -/
theorem effect_neutral_at_reference_partial (F : Funs) (hexp : F.exp 0 = 1) (hpow : ∀ t, F.pow 1 t = 1)
    (ρ : Env Rat) (a : CovArgs) (e : Expr) (he : effectExpr a = some e)
    (href : if usesMedian a.kind then ρ a.cov = ρ (medianName a) else ρ a.cov = ev F ρ a.ref)
    (hm : a.kind = "pow" → ρ (medianName a) ≠ 0) (hop : a.op = "*") (p : Rat) :
    ev F ρ e = neutral a.op ∧ applyOp a.op p (ev F ρ e) = p := by
  rw [effect_one_at_reference F hexp hpow ρ a e he href hm]
  simp [neutral, applyOp, hop]

/-- … and false for the additive operation: every template is 1, not 0, at the reference, so
    `P + effect` is `P + 1` there. -/
theorem effect_neutral_at_reference_witness (F : Funs) (hexp : F.exp 0 = 1) (hpow : ∀ t, F.pow 1 t = 1)
    (ρ : Env Rat) (a : CovArgs) (e : Expr) (he : effectExpr a = some e)
    (href : if usesMedian a.kind then ρ a.cov = ρ (medianName a) else ρ a.cov = ev F ρ a.ref)
    (hm : a.kind = "pow" → ρ (medianName a) ≠ 0) (hop : a.op = "+") (p : Rat) :
    ev F ρ e ≠ neutral a.op ∧ applyOp a.op p (ev F ρ e) = p + 1 := by
  rw [effect_one_at_reference F hexp hpow ρ a e he href hm]
  simp [neutral, applyOp, hop]

example : effectExpr { param := "CL", cov := "WGT", kind := "pow", op := "*", median := .lit 70, ref := .lit 0,
                       others := [], cols := [] }
    = some (.f2 "pow" (.f2 "div" (.sym "WGT") (.sym "WGT_MEDIAN")) (.sym "POP_CLWGT")) := by decide

/-! ## IIV forms -/

/-- each eta form of `add_iiv` is the documented function of the old expression and the new eta -/
theorem eta_matches_doc (F : Funs) (ρ : Env Rat) (orig : Expr) (eta : Sym) :
    ev F ρ (inst [("original", orig), ("eta_new", .sym eta)] Gen.etaAdd) = Doc.iivAdd (ev F ρ orig) (ρ eta) ∧
    ev F ρ (inst [("original", orig), ("eta_new", .sym eta)] Gen.etaProp) = Doc.iivProp (ev F ρ orig) (ρ eta) ∧
    ev F ρ (inst [("original", orig), ("eta_new", .sym eta)] (Gen.etaExp "mul")) = Doc.iivExp F (ev F ρ orig) (ρ eta) ∧
    ev F ρ (inst [("original", orig), ("eta_new", .sym eta)] (Gen.etaExp "add")) = Doc.iivExpAdd F (ev F ρ orig) (ρ eta) ∧
    ev F ρ (inst [("original", orig), ("eta_new", .sym eta)] Gen.etaLogit) = Doc.iivLogit F (ev F ρ orig) (ρ eta) := by
  refine ⟨?_, ?_, ?_, ?_, ?_⟩
  · simp [ev, inst, Gen.etaAdd, Expr.subst, List.lookup, Expr.eval, interp, interpFn, Doc.iivAdd]
  · simp [ev, inst, Gen.etaProp, Expr.subst, List.lookup, Expr.eval, interp, interpFn, Doc.iivProp]
  · simp [ev, inst, Gen.etaExp, Expr.subst, List.lookup, Expr.eval, interp, interpFn, Doc.iivExp]
  · simp [ev, inst, Gen.etaExp, Expr.subst, List.lookup, Expr.eval, interp, interpFn, Doc.iivExpAdd]
  · simp [ev, inst, Gen.etaLogit, Expr.subst, List.lookup, Expr.eval, interp, interpFn, Doc.iivLogit]
    grind

/-- rescaled logit: with `phi = log(Θ/(1-Θ))` the new parameter is the documented function -/
theorem eta_relogit_matches_doc (F : Funs) (ρ : Env Rat) (orig : Expr) (eta phi : Sym)
    (hphi : ρ phi = F.log (ev F ρ orig / (1 - ev F ρ orig))) :
    ev F ρ (inst [("original", .sym phi), ("eta_new", .sym eta)] Gen.etaReLogit)
      = Doc.iivReLogit F (ev F ρ orig) (ρ eta) := by
  simp [ev, inst, Gen.etaReLogit, Expr.subst, List.lookup, Expr.eval, interp, interpFn, Doc.iivReLogit] at hphi ⊢
  rw [hphi]; grind

/-- FULL statement ("adding IIV leaves the parameter unchanged at eta = 0") holds for add, prop, exp(*) … -/
theorem eta_neutral_at_zero_partial (F : Funs) (hexp : F.exp 0 = 1) (Θ : Rat) :
    Doc.iivAdd Θ 0 = Θ ∧ Doc.iivProp Θ 0 = Θ ∧ Doc.iivExp F Θ 0 = Θ := by
  refine ⟨?_, ?_, ?_⟩ <;> simp [Doc.iivAdd, Doc.iivProp, Doc.iivExp, hexp] <;> grind

/-- … and fails for the other documented forms: at eta = 0 the logit form gives Θ/2, the rescaled logit 1/2
    (whatever Θ), the additive exponential Θ + 1. -/
theorem eta_neutral_at_zero_witness (F : Funs) (hexp : F.exp 0 = 1) (Θ : Rat) :
    Doc.iivLogit F Θ 0 = Θ / 2 ∧ Doc.iivReLogit F Θ 0 = 1 / 2 ∧ Doc.iivExpAdd F Θ 0 = Θ + 1 := by
  refine ⟨?_, ?_, ?_⟩
  · simp [Doc.iivLogit, hexp]; grind
  · simp [Doc.iivReLogit, hexp]; grind
  · simp [Doc.iivExpAdd, hexp]

/-! ## Eta transformations -/

/-- Box-Cox, t-distribution and John–Draper transformed etas are 0 at eta = 0 (so every parameter is unchanged
    there), for every value of the shape parameter. -/
theorem eta_transformation_zero_at_zero (F : Funs) (hexp : F.exp 0 = 1) (hpow : ∀ t, F.pow 1 t = 1)
    (hsign : F.sign 0 = 0) (ρ : Env Rat) (e : TransEta) (h0 : ρ e.eta = 0) :
    ev F ρ (inst [("eta{i}", .sym e.eta), ("theta{i}", .sym e.theta)] Gen.transBoxcox) = 0 ∧
    ev F ρ (inst [("eta{i}", .sym e.eta), ("theta{i}", .sym e.theta)] Gen.transTdist) = 0 ∧
    ev F ρ (inst [("eta{i}", .sym e.eta), ("theta{i}", .sym e.theta)] Gen.transJohnDraper) = 0 := by
  refine ⟨?_, ?_, ?_⟩
  · simp [ev, inst, Gen.transBoxcox, Expr.subst, List.lookup, Expr.eval, interp, interpFn, h0, hexp, hpow]
    grind
  · simp [ev, inst, Gen.transTdist, Expr.subst, List.lookup, Expr.eval, interp, interpFn, h0]
  · simp [ev, inst, Gen.transJohnDraper, Expr.subst, List.lookup, Expr.eval, interp, interpFn, h0, hsign]

/-! ## IOV and eta transformations at statement level -/

/-- `add_iov` and `transform_etas_*` have the shape  `declarations ++ statements[eta ↦ new symbol]`.
    If, after the declarations, every new symbol carries the value of the eta it replaces (`Sim`) — which is the case
    at IOV etas = 0 (`iov_declarations_neutral`) and at eta = 0 for the three transformations
    (`eta_transformation_zero_at_zero`) — then *every* symbol of the original model other than the new ones has the
    same final value in the extended model.  All statement lists (with ODE systems), all renamings. -/
theorem extension_neutral (F : Funs) (m : List (Sym × Sym)) (decls ss : List Stmt) (ρ : Env Rat)
    (hok : ∀ s ∈ ss, StmtOk m s) (hdecl : Sim m (run (interp F) decls ρ) ρ) :
    ∀ x, x ∉ m.map Prod.snd →
      run (interp F) (decls ++ ss.map (substStmt (renameOf m))) ρ x = run (interp F) ss ρ x := by
  intro x hx
  rw [run_append]
  exact (sim_run (interp F) m ss _ _ hok hdecl).1 x hx

example : StmtOk [("ETA_CL", "ETAI1")] (.assign "CL" (.f2 "mul" (.sym "TVCL") (.f1 "exp" (.sym "ETA_CL")))) := by
  simp [StmtOk, Stmt.defs, Stmt.rhs, Expr.syms, Stmt.isOde, List.lookup]

/-- The declarations of one IOV eta: with every occasion eta equal to 0 and the occasion column equal to one of
    the categories, `IOV_i = 0` and `ETAI_i = eta` (all numbers of occasions). -/
theorem iov_declarations_neutral (F : Funs) (ρ : Env Rat) (occ : Sym) :
    ∀ (cats : List Expr) (names : List Sym), (∀ n ∈ names, ρ n = 0) →
      (∃ c ∈ (cats.zip names).map Prod.fst, ev F ρ c = ρ occ) →
      ev F ρ (piecewise ((cats.zip names).map (fun (c, n) => (eEq c (.sym occ), .sym n)))) = 0 := by
  intro cats
  induction cats with
  | nil => intro names _ h; simp at h
  | cons c t ih =>
    intro names hz hex
    cases names with
    | nil => simp at hex
    | cons n ns =>
      simp only [List.zip_cons_cons, List.map_cons, piecewise]
      by_cases hc : ev F ρ c = ρ occ
      · simp only [ev, interp] at hc
        simp [ev, Expr.eval, interp, interpFn, eEq, truth, hc, hz n (by simp)]
      · have hrest := ih ns (fun k hk => hz k (by simp [hk])) (by
          obtain ⟨d, hd, hdv⟩ := hex
          simp only [List.zip_cons_cons, List.map_cons, List.mem_cons] at hd
          rcases hd with rfl | hd
          · exact absurd hdv hc
          · exact ⟨d, hd, hdv⟩)
        simp only [ev, interp] at hc hrest
        simp [ev, Expr.eval, interp, interpFn, eEq, truth, hc]
        exact hrest

/-! ## Error models -/

/-- The right-hand side written by each error-model setter is the documented function of the prediction and the
    epsilons. -/
theorem error_model_shape (F : Funs) (ρ : Env Rat) (f ipred : Expr) (e1 e2 : Sym) :
    (errorY "additive" f ipred e1 e2).map (ev F ρ) = some (Doc.errAdditive (ev F ρ f) (ρ e1)) ∧
    (errorY "proportional" f ipred e1 e2).map (ev F ρ) = some (Doc.errProportional (ev F ρ f) (ρ e1)) ∧
    (errorY "combined" f ipred e1 e2).map (ev F ρ) = some (Doc.errCombined (ev F ρ f) (ρ e1) (ρ e2)) ∧
    (errorY "proportional-log" f ipred e1 e2).map (ev F ρ) = some (Doc.errProportionalLog F (ev F ρ f) (ρ e1)) ∧
    (errorY "combined-log" f ipred e1 e2).map (ev F ρ) = some (Doc.errCombinedLog F (ev F ρ f) (ρ e1) (ρ e2)) := by
  refine ⟨?_, ?_, ?_, ?_, ?_⟩ <;>
    simp [errorY, ev, inst, Gen.errAdditive, Gen.errProp, Gen.errComb, Gen.errPropLog, Gen.errCombLog, Expr.subst,
      List.lookup, Expr.eval, interp, interpFn, Doc.errAdditive, Doc.errProportional, Doc.errCombined,
      Doc.errProportionalLog, Doc.errCombinedLog]

/-- With zero protection the proportional model is `f + IPREDADJ·ε` with `IPREDADJ = f` whenever `f ≠ 0`. -/
theorem error_model_zero_protection (F : Funs) (ρ : Env Rat) (f : Expr) (adj e1 : Sym)
    (hadj : ρ adj = ev F ρ (guardExpr f)) (hf : ev F ρ f ≠ 0) :
    (errorY "proportional-zp" f (.sym adj) e1 e1).map (ev F ρ) = some (Doc.errProportional (ev F ρ f) (ρ e1)) := by
  simp [guardExpr, ev, inst, Gen.errGuard, Expr.subst, List.lookup, Expr.eval, interp, interpFn, truth] at hadj hf
  simp [errorY, ev, inst, Gen.errPropZP, Expr.subst, List.lookup, Expr.eval, interp, interpFn, Doc.errProportional,
    hadj, hf]

/-- Dependence on each epsilon: `Y - f` is `ε`, `f·ε`, `f·ε₁ + ε₂`; in particular `Y = f` at ε = 0
    (which is what `remove_error_model` restores). -/
theorem error_model_eps_dependence (f ε₁ ε₂ : Rat) :
    Doc.errAdditive f ε₁ - f = ε₁ ∧ Doc.errProportional f ε₁ - f = f * ε₁ ∧
    Doc.errCombined f ε₁ ε₂ - f = f * ε₁ + ε₂ ∧
    Doc.errAdditive f 0 = f ∧ Doc.errProportional f 0 = f ∧ Doc.errCombined f 0 0 = f := by
  refine ⟨?_, ?_, ?_, ?_, ?_, ?_⟩ <;> simp [Doc.errAdditive, Doc.errProportional, Doc.errCombined] <;> grind

/-- `remove_error_model` substitutes 0 for every epsilon in `Y`; evaluating the result is evaluating `Y` in the
    environment where the epsilons are 0 … -/
theorem remove_error_subst (F : Funs) (ρ : Env Rat) (eps : List Sym) (y : Expr) :
    ev F ρ (y.subst (fun s => if s ∈ eps then some (.lit 0) else none))
      = ev F (fun s => if s ∈ eps then 0 else ρ s) y := by
  simp only [ev]
  rw [eval_subst]
  congr 1
  funext s
  by_cases h : s ∈ eps <;> simp [h, Expr.eval, interp]

/-- … where the `Y` written by a natural-scale setter is the prediction again (`remove(ext(M)) ~ M`). -/
theorem remove_restores_error (F : Funs) (ρ : Env Rat) (f : Expr) (e1 e2 : Sym) (h1 : ρ e1 = 0) (h2 : ρ e2 = 0) :
    (errorY "additive" f f e1 e2).map (ev F ρ) = some (ev F ρ f) ∧
    (errorY "proportional" f f e1 e2).map (ev F ρ) = some (ev F ρ f) ∧
    (errorY "combined" f f e1 e2).map (ev F ρ) = some (ev F ρ f) := by
  have h := error_model_shape F ρ f f e1 e2
  have d := error_model_eps_dependence (ev F ρ f) 0 0
  rw [h.1, h.2.1, h.2.2.1, h1, h2]
  exact ⟨by rw [d.2.2.2.1], by rw [d.2.2.2.2.1], by rw [d.2.2.2.2.2]⟩

/-! ## IIV on RUV, time-varying error -/

/-- `set_iiv_on_ruv`: evaluating the rewritten expression is evaluating the original one with **every** selected
    epsilon multiplied by `exp` of its eta — all expressions, all lists of (epsilon, eta) pairs. -/
theorem iiv_on_ruv_shape (F : Funs) : ∀ (ps : List (Sym × Sym)) (y : Expr) (ρ : Env Rat), PairsOk ps →
    ev F ρ (iivOnRuv y ps) = ev F (scaleEnv F ρ ps) y := by
  intro ps
  induction ps with
  | nil => intro y ρ _; rfl
  | cons p t ih =>
    obtain ⟨e, η⟩ := p
    intro y ρ hok
    obtain ⟨he, hη, ht⟩ := hok
    simp only [iivOnRuv]
    rw [ih _ ρ ht]
    simp only [ev]
    rw [eval_subst1]
    congr 1
    funext s
    have hfac : Expr.eval (interp F) (scaleEnv F ρ t) (iivFactor e η) = ρ e * F.exp (ρ η) := by
      simp [iivFactor, inst, Gen.iivOnRuv, Expr.subst, List.lookup, Expr.eval, interp, interpFn, scaleEnv, he, hη]
    rw [hfac]
    by_cases hs : s = e
    · subst hs; simp [Env.set, scaleEnv, List.lookup]
    · have : (s == e) = false := by simpa using hs
      simp [Env.set, scaleEnv, List.lookup, hs, this]

/-- … hence the model function is unchanged when all new etas are 0. -/
theorem iiv_on_ruv_neutral (F : Funs) (hexp : F.exp 0 = 1) (ps : List (Sym × Sym)) (y : Expr) (ρ : Env Rat)
    (hok : PairsOk ps) (h0 : ∀ η ∈ ps.map Prod.snd, ρ η = 0) :
    ev F ρ (iivOnRuv y ps) = ev F ρ y := by
  rw [iiv_on_ruv_shape F ps y ρ hok]
  congr 1
  funext s
  simp only [scaleEnv]
  cases hl : ps.lookup s with
  | none => rfl
  | some η =>
    have := h0 η (lookup_mem_snd ps s η hl)
    simp [this, hexp]

/-- On a combined error model **both** terms are scaled: `Y = f + f·ε₁·e^{η₁} + ε₂·e^{η₂}`
    (with `same_eta` the two etas are the same symbol). -/
theorem iiv_on_ruv_combined (F : Funs) (ρ : Env Rat) (f : Expr) (e1 e2 η1 η2 : Sym) (y : Expr)
    (hy : errorY "combined" f f e1 e2 = some y) (hne : e1 ≠ e2)
    (hη : η1 ≠ e1 ∧ η1 ≠ e2 ∧ η2 ≠ e1 ∧ η2 ≠ e2) (hf : e1 ∉ f.syms ∧ e2 ∉ f.syms) :
    ev F ρ (iivOnRuv y [(e1, η1), (e2, η2)])
      = Doc.errCombined (ev F ρ f) (ρ e1 * F.exp (ρ η1)) (ρ e2 * F.exp (ρ η2)) := by
  have hb : ∀ a b : Sym, a ≠ b → (a == b) = false := fun a b h => by simpa using h
  have hok : PairsOk [(e1, η1), (e2, η2)] := by
    simp [PairsOk, List.lookup, hb e1 e2 hne, hb η1 e2 hη.2.1]
  rw [iiv_on_ruv_shape F _ y ρ hok]
  have hs := (error_model_shape F (scaleEnv F ρ [(e1, η1), (e2, η2)]) f f e1 e2).2.2.1
  rw [hy] at hs
  simp only [Option.map_some, Option.some.injEq] at hs
  rw [hs]
  have hfe : ev F (scaleEnv F ρ [(e1, η1), (e2, η2)]) f = ev F ρ f := by
    apply eval_congr
    intro s hs'
    have h1 : s ≠ e1 := fun h => hf.1 (h ▸ hs')
    have h2 : s ≠ e2 := fun h => hf.2 (h ▸ hs')
    simp [scaleEnv, List.lookup, hb s e1 h1, hb s e2 h2]
  rw [hfe]
  simp [scaleEnv, List.lookup, hb e2 e1 (Ne.symm hne)]

/-- `set_time_varying_error_model`: before the cutoff every epsilon is multiplied by theta, after it `Y` is unchanged
    (all expressions, all epsilon lists without repeats that do not contain theta). -/
theorem time_varying_shape (F : Funs) (theta : Sym) : ∀ (es : List Sym) (y : Expr) (ρ : Env Rat),
    es.Nodup → theta ∉ es →
    ev F ρ (tvScaled theta y es) = ev F (fun s => if s ∈ es then ρ s * ρ theta else ρ s) y := by
  intro es
  induction es with
  | nil => intro y ρ _ _; simp [tvScaled]
  | cons e t ih =>
    intro y ρ hnd hth
    have hnd' := (List.nodup_cons.mp hnd)
    have hth' : theta ∉ t := fun h => hth (List.mem_cons_of_mem _ h)
    have hte : theta ≠ e := fun h => hth (by simp [h])
    simp only [tvScaled]
    rw [ih _ ρ hnd'.2 hth']
    simp only [ev]
    rw [eval_subst1]
    congr 1
    funext s
    have hfac : Expr.eval (interp F) (fun s => if s ∈ t then ρ s * ρ theta else ρ s) (tvFactor e theta) = ρ e * ρ theta := by
      simp [tvFactor, inst, Gen.timeVarying, Expr.subst, List.lookup, Expr.eval, interp, interpFn, hnd'.1, hth']
    rw [hfac]
    by_cases hs : s = e
    · subst hs; simp [Env.set]
    · simp [Env.set, hs]

theorem time_varying_after_cutoff (F : Funs) (ρ : Env Rat) (y cond : Expr) (es : List Sym) (theta : Sym)
    (hc : ev F ρ cond = 0) : ev F ρ (timeVarying y es theta cond) = ev F ρ y := by
  simp only [ev, interp] at hc
  simp [timeVarying, ev, Expr.eval, interp, interpFn, hc]

/-! ## Allometry -/

theorem allometry_matches_doc (F : Funs) (ρ : Env Rat) (p theta : Sym) (x z : Expr) :
    ev F ρ (allometryExpr p x z theta) = Doc.allometry F (ρ p) (ev F ρ x) (ev F ρ z) (ρ theta) := by
  simp [allometryExpr, ev, inst, Gen.allometry, Expr.subst, List.lookup, Expr.eval, interp, interpFn, Doc.allometry]

/-- at the reference weight the allometric factor is 1: the parameter is unchanged, for every exponent -/
theorem allometry_neutral_at_ref_weight (F : Funs) (hpow : ∀ t, F.pow 1 t = 1) (p z t : Rat) (hz : z ≠ 0) :
    Doc.allometry F p z z t = p := by
  have : z / z = 1 := by grind
  simp [Doc.allometry, this, hpow]

/-- `add_allometry` acts on the **last** assignment of the parameter.  For every statement list — any number of
    earlier assignments of `p` in `pre`, anything not defining `p` in `post` — the new statement is placed right after
    the last assignment, the final value of `p` in the extended model is the documented `P·(X/Z)^T` applied to the
    **final** value `p` had before the extension (X, Z, T read at that point), and `post` sees it. -/
theorem allometry_acts_on_last_assignment (F : Funs) (ρ : Env Rat) (pre post : List Stmt) (p θ : Sym) (e x z : Expr)
    (hpost : ∀ s ∈ post, p ∉ s.defs) :
    addAllometry (pre ++ .assign p e :: post) p x z θ
        = some (pre ++ .assign p e :: .assign p (allometryExpr p x z θ) :: post) ∧
    run (interp F) (pre ++ .assign p e :: post) ρ p = run (interp F) (pre ++ [.assign p e]) ρ p ∧
    run (interp F) (pre ++ .assign p e :: .assign p (allometryExpr p x z θ) :: post) ρ p
        = Doc.allometry F (run (interp F) (pre ++ [.assign p e]) ρ p)
            (ev F (run (interp F) (pre ++ [.assign p e]) ρ) x) (ev F (run (interp F) (pre ++ [.assign p e]) ρ) z)
            (run (interp F) (pre ++ [.assign p e]) ρ θ) := by
  refine ⟨?_, ?_, ?_⟩
  · have hsplit : pre ++ Stmt.assign p e :: post = (pre ++ [Stmt.assign p e]) ++ post := by simp
    have hlen : (pre ++ [Stmt.assign p e]).length = pre.length + 1 := by simp
    have h1 : (pre ++ Stmt.assign p e :: post).take (pre.length + 1) = pre ++ [Stmt.assign p e] := by
      rw [hsplit]; exact List.take_left' hlen
    have h2 : (pre ++ Stmt.assign p e :: post).drop (pre.length + 1) = post := by
      rw [hsplit]; exact List.drop_left' hlen
    simp [addAllometry, findLastAssign_split p pre post e hpost, h1, h2]
  · have : pre ++ Stmt.assign p e :: post = (pre ++ [Stmt.assign p e]) ++ post := by simp
    rw [this, run_append, run_not_def (interp F) post _ p hpost]
  · have : pre ++ Stmt.assign p e :: Stmt.assign p (allometryExpr p x z θ) :: post
        = (pre ++ [Stmt.assign p e]) ++ (Stmt.assign p (allometryExpr p x z θ) :: post) := by simp
    rw [this, run_append, run_cons, run_not_def (interp F) post _ p hpost]
    simp only [Stmt.exec, Env.set, if_true]
    exact allometry_matches_doc F _ p θ x z

/-- Acting on the FIRST assignment instead is wrong as soon as a later re-assignment is not multiplicative:
    for `CL = T; CL = CL + A` the documented result is `(T + A)·(W/Z)^θ`, the first-assignment variant gives
    `T·(W/Z)^θ + A` (here 4 versus 3), for every `F` with `pow a 1 = a`. -/
theorem allometry_first_assignment_witness (F : Funs) (hpow : ∀ a, F.pow a 1 = a) :
    let ss : List Stmt := [.assign "CL" (.sym "T"), .assign "CL" (.f2 "add" (.sym "CL") (.sym "A"))]
    let ρ : Env Rat := fun s => if s = "W" then 2 else 1
    (addAllometry ss "CL" (.sym "W") (.sym "Z") "TH").map (fun r => run (interp F) r ρ "CL") = some 4 ∧
    (addAllometryFirst ss "CL" (.sym "W") (.sym "Z") "TH").map (fun r => run (interp F) r ρ "CL") = some 3 := by
  intro ss ρ
  have h1 : addAllometry ss "CL" (.sym "W") (.sym "Z") "TH"
      = some [.assign "CL" (.sym "T"), .assign "CL" (.f2 "add" (.sym "CL") (.sym "A")),
              .assign "CL" (allometryExpr "CL" (.sym "W") (.sym "Z") "TH")] := by decide
  have h2 : addAllometryFirst ss "CL" (.sym "W") (.sym "Z") "TH"
      = some [.assign "CL" (.sym "T"), .assign "CL" (allometryExpr "CL" (.sym "W") (.sym "Z") "TH"),
              .assign "CL" (.f2 "add" (.sym "CL") (.sym "A"))] := by decide
  rw [h1, h2]
  constructor
  · simp [run, List.foldl, Stmt.exec, Env.set, Expr.eval, interp, interpFn, allometryExpr, inst, Gen.allometry,
      Expr.subst, List.lookup, ρ, hpow]
    grind
  · simp [run, List.foldl, Stmt.exec, Env.set, Expr.eval, interp, interpFn, allometryExpr, inst, Gen.allometry,
      Expr.subst, List.lookup, ρ, hpow]
    grind

/-! ## Transit compartments -/

/-- a well-formed chain: every flow is `length / MDT` -/
def WFChain (mdt : Sym) (rs : List Rate) : Prop := ∀ r ∈ rs, r = ⟨rs.length, mdt⟩

theorem setTransits_length (rs : List Rate) (n : Nat) (mdt : Sym) (depot : Bool) :
    (setTransits rs n mdt depot).length = n := by
  unfold setTransits
  split
  · assumption
  · split
    · simp [newChain]
    · split
      · unfold updateNumerators; split <;> simp [shrinkChain] <;> omega
      · rename_i h1 h2 h3
        have : rs ≠ [] := by intro h; simp [h] at h2
        simp only [updateNumerators, if_true, List.length_map, extendChain]
        cases hl : rs.getLast? with
        | none => simp [List.getLast?_eq_none_iff] at hl; exact absurd hl this
        | some r => simp; omega

/-- FULL statement: `set_transit_compartments` keeps every chain rate equal to `n / MDT`, whatever the previous
    number of transits was (all n, all chain lengths) — proved when the model has a depot or n ≠ 1 … -/
theorem transit_rate_mdt_partial (rs : List Rate) (n : Nat) (mdt : Sym) (depot : Bool) (hwf : WFChain mdt rs)
    (hdet : depot = true ∨ n ≠ 1) :
    WFChain mdt (setTransits rs n mdt depot) := by
  have hd : (depot || n != 1) = true := by
    rcases hdet with h | h
    · simp [h]
    · simp [h]
  intro r hr
  rw [setTransits_length]
  unfold setTransits at hr
  split at hr
  · rename_i h; rw [← h]; exact hwf r hr
  · split at hr
    · simp [newChain] at hr; exact hr.2
    · split at hr
      · simp only [updateNumerators, hd, if_true, List.mem_map] at hr
        obtain ⟨q, hq, rfl⟩ := hr
        have hq' : q ∈ rs := List.mem_of_mem_take (by simpa [shrinkChain] using hq)
        have := hwf q hq'
        simp [shrinkChain] at *
        rw [this]; simp; omega
      · simp only [updateNumerators, if_true, List.mem_map] at hr
        obtain ⟨q, hq, rfl⟩ := hr
        have hden : q.denom = mdt := by
          unfold extendChain at hq
          cases hl : rs.getLast? with
          | none => rw [hl] at hq; have := hwf q hq; rw [this]
          | some l =>
            rw [hl] at hq
            have hlm : l ∈ rs := List.mem_of_getLast? hl
            rcases List.mem_append.mp hq with h | h
            · have := hwf q h; rw [this]
            · have := (List.mem_replicate.mp h).2; rw [this, hwf l hlm]
        have hlen := setTransits_length rs n mdt depot
        rename_i h1 h2 h3
        simp only [setTransits, h1, h2, h3, if_false, updateNumerators, if_true, List.length_map] at hlen
        cases q; simp at hden ⊢; exact ⟨by exact_mod_cast hlen, hden⟩

/-- … and false otherwise: reducing a chain of 5 to a single transit in a model without depot leaves the rate
    `5/MDT` (the remaining compartment is not recognised as a transit, so its numerator is not updated):
    the mean transit time is then `MDT/5`, not `MDT`. -/
theorem transit_rate_mdt_witness :
    setTransits (List.replicate 5 ⟨5, "MDT"⟩) 1 "MDT" false = [⟨5, "MDT"⟩] ∧
    ¬ WFChain "MDT" (setTransits (List.replicate 5 ⟨5, "MDT"⟩) 1 "MDT" false) := by
  refine ⟨by decide, ?_⟩
  intro h
  have := h ⟨5, "MDT"⟩ (by decide)
  simp [setTransits_length] at this

/-- … for every history of calls starting from a model without transits (never asking for exactly one transit
    unless the model has a depot). -/
theorem transit_rate_mdt_history (mdt : Sym) (depot : Bool) (ns : List Nat) (hns : depot = true ∨ ∀ n ∈ ns, n ≠ 1) :
    WFChain mdt (ns.foldl (fun rs n => setTransits rs n mdt depot) []) := by
  have : ∀ (rs : List Rate), WFChain mdt rs → WFChain mdt (ns.foldl (fun rs n => setTransits rs n mdt depot) rs) := by
    induction ns with
    | nil => intro rs h; exact h
    | cons n t ih =>
      intro rs h
      have hn : depot = true ∨ n ≠ 1 := by
        rcases hns with h' | h'
        · exact Or.inl h'
        · exact Or.inr (h' n (by simp))
      have ht : depot = true ∨ ∀ k ∈ t, k ≠ 1 := by
        rcases hns with h' | h'
        · exact Or.inl h'
        · exact Or.inr (fun k hk => h' k (by simp [hk]))
      exact ih ht _ (transit_rate_mdt_partial rs n mdt depot h hn)
  exact this [] (by intro r hr; simp at hr)

/-- The mean transit time of a well-formed non-empty chain (sum of the mean residence times of its compartments)
    is `MDT`, for every number of compartments. -/
theorem transit_mean_time (ρ : Env Rat) (mdt : Sym) (rs : List Rate) (hwf : WFChain mdt rs) (hne : rs ≠ [])
    (hm : ρ mdt ≠ 0) : meanTransitTime ρ rs = ρ mdt := by
  unfold meanTransitTime
  have hlen : (rs.length : Rat) ≠ 0 := by
    have : rs.length ≠ 0 := by simpa using hne
    exact_mod_cast this
  rw [sum_map_const rs _ (ρ mdt / rs.length)]
  · grind
  · intro r hr
    rw [hwf r hr]
    have hc : (((rs.length : Nat) : Int) : Rat) = (rs.length : Rat) := by norm_cast
    simp only [rateValue, hc]
    grind

/-- the rate written into the model is the source template `n / mdt_symb` -/
theorem transit_rate_expr (F : Funs) (ρ : Env Rat) (r : Rate) : ev F ρ (rateExpr r) = rateValue ρ r := by
  simp [rateExpr, ev, inst, Gen.transitRate, Expr.subst, List.lookup, Expr.eval, interp, interpFn, rateValue]

example : setTransits (setTransits [] 2 "MDT" false) 4 "MDT" false = List.replicate 4 ⟨4, "MDT"⟩ := by decide
example : WFChain "MDT" [⟨2, "MDT"⟩, ⟨2, "MDT"⟩] := by intro r hr; simp at hr; rw [hr]; rfl


/-! ## Combined error model on top of the residual-error modifiers (time-varying, IIV on RUV) -/

/-- the loop `for eps in epsilons: expr = expr.subs({eps: ruv_prop})` evaluates as the expression with **every**
    epsilon of the list carrying the value of the new proportional epsilon — all expressions, all epsilon lists. -/
theorem subst_eps_eval (F : Funs) (p : Sym) : ∀ (es : List Sym) (e : Expr) (ρ : Env Rat), p ∉ es →
    ev F ρ (substEps p e es) = ev F (epsTo ρ es p) e := by
  intro es
  induction es with
  | nil =>
    intro e ρ _
    have h : epsTo ρ [] p = ρ := by funext s; simp [epsTo]
    simp [substEps, h]
  | cons x t ih =>
    intro e ρ hp
    have hp' : p ∉ t := fun h => hp (List.mem_cons_of_mem _ h)
    simp only [substEps]
    rw [ih _ ρ hp']
    simp only [ev]
    rw [eval_subst1]
    congr 1
    funext s
    by_cases hs : s = x
    · subst hs; simp [Env.set, epsTo, Expr.eval, hp']
    · simp [Env.set, epsTo, hs]

/-- value of the `Y` written by `set_combined_error_model` on a time-varying model: in each branch the old branch
    value with every old epsilon set to the proportional one, plus the additive epsilon times the factors of the
    modifiers in force (`theta` only before the cutoff, `exp(eta)` in BOTH branches when the model has IIV on RUV). -/
theorem combined_on_time_varying_eval (F : Funs) (ρ : Env Rat) (e0 e1 cond : Expr) (es : List Sym) (p a η θ : Sym)
    (hasEta : Bool) (hp : p ∉ es) :
    ev F ρ (combinedOnTimeVarying e0 e1 cond es p a hasEta η θ) =
      if ev F ρ cond = 0 then ev F (epsTo ρ es p) e1 + ρ a * (if hasEta then F.exp (ρ η) else 1)
      else ev F (epsTo ρ es p) e0 + ρ a * ρ θ * (if hasEta then F.exp (ρ η) else 1) := by
  have h0 := subst_eps_eval F p es e0 ρ hp
  have h1 := subst_eps_eval F p es e1 ρ hp
  simp only [ev] at h0 h1 ⊢
  cases hasEta <;>
    simp [combinedOnTimeVarying, combAddTerm, eAdd, eMul, Expr.eval, interp, interpFn] <;>
    split <;> simp_all [interp]

/-- The clause "the observation depends on the prediction and on each epsilon as the named error model does", for
    `set_combined_error_model` applied after `set_time_varying_error_model` and (optionally) `set_iiv_on_ruv` on a
    proportional model with epsilon `ε`: when the two branch values of the old `Y` are the documented
    `f + f·ε·θ·[exp η]` and `f + f·ε·[exp η]` (in every environment) and the prediction does not depend on `ε`, the
    new `Y` is the combined model `f + (f·ε_p + ε_a)·s` with the SAME factor `s` on both epsilons:
    `θ·[exp η]` before the cutoff, `[exp η]` after it. -/
theorem combined_after_modifiers_shape (F : Funs) (ρ : Env Rat) (f e0 e1 cond : Expr) (ε p a η θ : Sym)
    (hasEta : Bool) (hp : p ≠ ε) (hθ : θ ≠ ε) (hη : η ≠ ε)
    (h0 : ∀ ρ', ev F ρ' e0 = ev F ρ' f + ev F ρ' f * ρ' ε * (ρ' θ * (if hasEta then F.exp (ρ' η) else 1)))
    (h1 : ∀ ρ', ev F ρ' e1 = ev F ρ' f + ev F ρ' f * ρ' ε * (if hasEta then F.exp (ρ' η) else 1))
    (hf : ev F (epsTo ρ [ε] p) f = ev F ρ f) :
    ev F ρ (combinedOnTimeVarying e0 e1 cond [ε] p a hasEta η θ) =
      Doc.errCombinedScaled (ev F ρ f) (ρ p) (ρ a)
        ((if ev F ρ cond = 0 then 1 else ρ θ) * (if hasEta then F.exp (ρ η) else 1)) := by
  rw [combined_on_time_varying_eval F ρ e0 e1 cond [ε] p a η θ hasEta (by simp [hp])]
  rw [h0, h1, hf]
  have e1' : epsTo ρ [ε] p ε = ρ p := by simp [epsTo]
  have e2' : epsTo ρ [ε] p θ = ρ θ := by simp [epsTo, hθ]
  have e3' : epsTo ρ [ε] p η = ρ η := by simp [epsTo, hη]
  rw [e1', e2', e3']
  unfold Doc.errCombinedScaled
  split <;> grind

/-- at eta = 0 after the cutoff the result is the plain combined error model -/
theorem combined_after_modifiers_reference (F : Funs) (hexp : F.exp 0 = 1) (f ε₁ ε₂ : Rat) (hasEta : Bool) :
    Doc.errCombinedScaled f ε₁ ε₂ (1 * (if hasEta then F.exp 0 else 1)) = Doc.errCombined f ε₁ ε₂ := by
  cases hasEta <;> simp [Doc.errCombinedScaled, Doc.errCombined, hexp] <;> grind

-- non-vacuity: the hypotheses of `combined_after_modifiers_shape` hold for the expressions the setters write
example (F : Funs) (ρ' : Env Rat) :
    ev F ρ' (.f2 "add" (.sym "F") (.f2 "mul" (.f2 "mul" (.sym "F") (.sym "EPS_1")) (.f2 "mul" (.sym "time_varying") (.f1 "exp" (.sym "ETA_RV1")))))
      = ev F ρ' (.sym "F") + ev F ρ' (.sym "F") * ρ' "EPS_1" * (ρ' "time_varying" * (if true then F.exp (ρ' "ETA_RV1") else 1)) := by
  simp [ev, Expr.eval, interp, interpFn]

end Pharmpy.C09
