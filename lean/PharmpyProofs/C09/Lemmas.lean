import PharmpyModel.C09.Model
/-
  Helper lemmas for C09: substitution lemma, `run` over append / map, sums over replicate.
-/
namespace Pharmpy.C09
open Pharmpy Expr

theorem eval_subst {α : Type} (I : Interp α) (ρ : Env α) (σ : Sym → Option Expr) (e : Expr) :
    eval I ρ (subst σ e) =
      eval I (fun x => match σ x with | some t => eval I ρ t | none => ρ x) e := by
  induction e with
  | lit n => simp [subst, eval]
  | sym s =>
    simp only [subst, eval]
    cases h : σ s <;> simp [eval]
  | f1 f a ih => simp [subst, eval, ih]
  | f2 f a b iha ihb => simp [subst, eval, iha, ihb]
  | f3 f a b c iha ihb ihc => simp [subst, eval, iha, ihb, ihc]

theorem eval_congr {α : Type} (I : Interp α) (ρ ρ' : Env α) (e : Expr)
    (h : ∀ y ∈ e.syms, ρ y = ρ' y) : eval I ρ e = eval I ρ' e := by
  induction e with
  | lit n => rfl
  | sym s => exact h s (by simp [syms])
  | f1 f a ih => simp only [eval]; rw [ih (fun y hy => h y (by simpa [syms] using hy))]
  | f2 f a b iha ihb =>
    simp only [eval]
    rw [iha (fun y hy => h y (by simp [syms, hy])), ihb (fun y hy => h y (by simp [syms, hy]))]
  | f3 f a b c iha ihb ihc =>
    simp only [eval]
    rw [iha (fun y hy => h y (by simp [syms, hy])), ihb (fun y hy => h y (by simp [syms, hy])),
        ihc (fun y hy => h y (by simp [syms, hy]))]

theorem run_append {α : Type} (I : Interp α) (s t : List Stmt) (ρ : Env α) :
    run I (s ++ t) ρ = run I t (run I s ρ) := by
  simp [run, List.foldl_append]

theorem run_cons {α : Type} (I : Interp α) (s : Stmt) (t : List Stmt) (ρ : Env α) :
    run I (s :: t) ρ = run I t (s.exec I ρ) := rfl

theorem run_nil {α : Type} (I : Interp α) (ρ : Env α) : run I [] ρ = ρ := rfl

/-- a symbol that no statement defines keeps its value -/
theorem run_not_def {α : Type} (I : Interp α) (ss : List Stmt) :
    ∀ (ρ : Env α) (x : Sym), (∀ s ∈ ss, x ∉ s.defs) → run I ss ρ x = ρ x := by
  induction ss with
  | nil => intro ρ x _; rfl
  | cons s t ih =>
    intro ρ x h
    rw [run_cons, ih _ x (fun s' hs' => h s' (List.mem_cons_of_mem _ hs'))]
    have hx := h s (by simp)
    cases s with
    | assign y e =>
      simp only [Stmt.exec, Env.set]
      have : x ≠ y := by simpa [Stmt.defs] using hx
      simp [this]
    | ode a r =>
      simp only [Stmt.exec]
      have : x ∉ a := by simpa [Stmt.defs] using hx
      simp [this]

theorem sum_replicate (n : Nat) (c : Rat) : (List.replicate n c).sum = (n : Rat) * c := by
  induction n with
  | zero => simp
  | succ k ih =>
    simp only [List.replicate_succ, List.sum_cons, ih]
    have : ((k + 1 : Nat) : Rat) = (k : Rat) + 1 := by simp
    rw [this]; grind

theorem sum_map_const {β : Type} (xs : List β) (g : β → Rat) (c : Rat) (h : ∀ x ∈ xs, g x = c) :
    (xs.map g).sum = (xs.length : Rat) * c := by
  induction xs with
  | nil => simp
  | cons x t ih =>
    simp only [List.map_cons, List.sum_cons, List.length_cons]
    rw [ih (fun y hy => h y (List.mem_cons_of_mem _ hy)), h x (by simp)]
    have : ((t.length + 1 : Nat) : Rat) = (t.length : Rat) + 1 := by simp
    rw [this]; grind

end Pharmpy.C09
