import PharmpyModel.C09.Model
/-
  Helper lemmas for C09: substitution lemma, `run` over append / map, sums over replicate.
-/
namespace Pharmpy.C09
open Pharmpy Expr

theorem eval_subst {α : Type} (I : Interp α) (ρ : Env α) (σ : Sym → Option Expr) (e : Expr) :
    eval I ρ (subst σ e) =
      eval I (fun x => match σ x with | some t => eval I ρ t | none => ρ x) e := by
  induction e with
  | lit n => simp [subst, eval]
  | sym s =>
    simp only [subst, eval]
    cases h : σ s <;> simp [eval]
  | f1 f a ih => simp [subst, eval, ih]
  | f2 f a b iha ihb => simp [subst, eval, iha, ihb]
  | f3 f a b c iha ihb ihc => simp [subst, eval, iha, ihb, ihc]

theorem eval_subst1 {α : Type} (I : Interp α) (ρ : Env α) (x : Sym) (t e : Expr) :
    eval I ρ (subst1 x t e) = eval I (ρ.set x (eval I ρ t)) e := by
  unfold subst1
  rw [eval_subst]
  congr 1
  funext y
  unfold Env.set
  by_cases h : y = x <;> simp [h]

theorem eval_congr {α : Type} (I : Interp α) (ρ ρ' : Env α) (e : Expr)
    (h : ∀ y ∈ e.syms, ρ y = ρ' y) : eval I ρ e = eval I ρ' e := by
  induction e with
  | lit n => rfl
  | sym s => exact h s (by simp [syms])
  | f1 f a ih => simp only [eval]; rw [ih (fun y hy => h y (by simpa [syms] using hy))]
  | f2 f a b iha ihb =>
    simp only [eval]
    rw [iha (fun y hy => h y (by simp [syms, hy])), ihb (fun y hy => h y (by simp [syms, hy]))]
  | f3 f a b c iha ihb ihc =>
    simp only [eval]
    rw [iha (fun y hy => h y (by simp [syms, hy])), ihb (fun y hy => h y (by simp [syms, hy])),
        ihc (fun y hy => h y (by simp [syms, hy]))]

theorem run_append {α : Type} (I : Interp α) (s t : List Stmt) (ρ : Env α) :
    run I (s ++ t) ρ = run I t (run I s ρ) := by
  simp [run, List.foldl_append]

theorem run_cons {α : Type} (I : Interp α) (s : Stmt) (t : List Stmt) (ρ : Env α) :
    run I (s :: t) ρ = run I t (s.exec I ρ) := rfl

theorem run_nil {α : Type} (I : Interp α) (ρ : Env α) : run I [] ρ = ρ := rfl

/-- a symbol that no statement defines keeps its value -/
theorem run_not_def {α : Type} (I : Interp α) (ss : List Stmt) :
    ∀ (ρ : Env α) (x : Sym), (∀ s ∈ ss, x ∉ s.defs) → run I ss ρ x = ρ x := by
  induction ss with
  | nil => intro ρ x _; rfl
  | cons s t ih =>
    intro ρ x h
    rw [run_cons, ih _ x (fun s' hs' => h s' (List.mem_cons_of_mem _ hs'))]
    have hx := h s (by simp)
    cases s with
    | assign y e =>
      simp only [Stmt.exec, Env.set]
      have : x ≠ y := by simpa [Stmt.defs] using hx
      simp [this]
    | ode a r =>
      simp only [Stmt.exec]
      have : x ∉ a := by simpa [Stmt.defs] using hx
      simp [this]

theorem sum_replicate (n : Nat) (c : Rat) : (List.replicate n c).sum = (n : Rat) * c := by
  induction n with
  | zero => simp
  | succ k ih =>
    simp only [List.replicate_succ, List.sum_cons, ih]
    have : ((k + 1 : Nat) : Rat) = (k : Rat) + 1 := by simp
    rw [this]; grind

theorem sum_map_const {β : Type} (xs : List β) (g : β → Rat) (c : Rat) (h : ∀ x ∈ xs, g x = c) :
    (xs.map g).sum = (xs.length : Rat) * c := by
  induction xs with
  | nil => simp
  | cons x t ih =>
    simp only [List.map_cons, List.sum_cons, List.length_cons]
    rw [ih (fun y hy => h y (List.mem_cons_of_mem _ hy)), h x (by simp)]
    have : ((t.length + 1 : Nat) : Rat) = (t.length : Rat) + 1 := by simp
    rw [this]; grind



/-- The simulation relation between the extended model's environment `ρ₁` and the original one `ρ` under a
    symbol renaming `m` (old eta ↦ new symbol): they agree off the new symbols, and each new symbol carries the
    value of the old one. -/
def Sim (m : List (Sym × Sym)) (ρ₁ ρ : Env Rat) : Prop :=
  (∀ y, y ∉ m.map Prod.snd → ρ₁ y = ρ y) ∧ (∀ o n, m.lookup o = some n → ρ₁ n = ρ o)

/-- A statement is compatible with the renaming: it neither defines nor reads a new symbol, never assigns a
    renamed (old) symbol, and an ODE system (whose rates the model does not rewrite) does not read one. -/
def StmtOk (m : List (Sym × Sym)) (s : Stmt) : Prop :=
  (∀ y ∈ s.defs, y ∉ m.map Prod.snd ∧ m.lookup y = none) ∧ (∀ y ∈ s.rhs, y ∉ m.map Prod.snd) ∧
  (s.isOde = true → ∀ y ∈ s.rhs, m.lookup y = none)

theorem lookup_mem_snd (m : List (Sym × Sym)) (o n : Sym) (h : m.lookup o = some n) : n ∈ m.map Prod.snd := by
  induction m with
  | nil => simp at h
  | cons p t ih =>
    obtain ⟨a, b⟩ := p
    simp only [List.lookup_cons] at h
    by_cases hab : o = a
    · simp [hab] at h; simp [h]
    · have : (o == a) = false := by simpa using hab
      simp [this] at h
      simp [ih h]

theorem eval_rename (I : Interp Rat) (m : List (Sym × Sym)) (ρ₁ ρ : Env Rat) (hs : Sim m ρ₁ ρ) (e : Expr)
    (hfresh : ∀ y ∈ e.syms, y ∉ m.map Prod.snd) :
    eval I ρ₁ (subst (renameOf m) e) = eval I ρ e := by
  rw [eval_subst]
  apply eval_congr
  intro y hy
  simp only [renameOf]
  cases hl : m.lookup y with
  | none => simp; exact hs.1 y (hfresh y hy)
  | some n => simp [Expr.eval]; exact hs.2 y n hl

theorem sim_step (I : Interp Rat) (m : List (Sym × Sym)) (s : Stmt) (hok : StmtOk m s) (ρ₁ ρ : Env Rat)
    (hs : Sim m ρ₁ ρ) : Sim m ((substStmt (renameOf m) s).exec I ρ₁) (s.exec I ρ) := by
  obtain ⟨hd, hr, ho⟩ := hok
  cases s with
  | assign x e =>
    have hx := hd x (by simp [Stmt.defs])
    have hev : eval I ρ₁ (subst (renameOf m) e) = eval I ρ e :=
      eval_rename I m ρ₁ ρ hs e (fun y hy => hr y (by simpa [Stmt.rhs] using hy))
    refine ⟨?_, ?_⟩
    · intro y hy
      simp only [substStmt, Stmt.exec, Env.set]
      by_cases hyx : y = x
      · simp [hyx, hev]
      · simp [hyx]; exact hs.1 y hy
    · intro o n hl
      have hn : n ∈ m.map Prod.snd := lookup_mem_snd m o n hl
      have hnx : n ≠ x := fun h => hx.1 (h ▸ hn)
      have hox : o ≠ x := fun h => by rw [h] at hl; rw [hx.2] at hl; cases hl
      simp only [substStmt, Stmt.exec, Env.set]
      simp [hnx, hox]; exact hs.2 o n hl
  | ode a r =>
    have hmap : r.map ρ₁ = r.map ρ :=
      List.map_congr_left (fun z hz => hs.1 z (hr z (by simpa [Stmt.rhs] using hz)))
    refine ⟨?_, ?_⟩
    · intro y hy
      simp only [substStmt, Stmt.exec]
      by_cases hya : y ∈ a
      · simp [hya, hmap]
      · simp [hya]; exact hs.1 y hy
    · intro o n hl
      have hn : n ∈ m.map Prod.snd := lookup_mem_snd m o n hl
      have hna : n ∉ a := fun h => (hd n (by simpa [Stmt.defs] using h)).1 hn
      have hoa : o ∉ a := fun h => by
        have := (hd o (by simpa [Stmt.defs] using h)).2
        rw [this] at hl; cases hl
      simp only [substStmt, Stmt.exec]
      simp [hna, hoa]; exact hs.2 o n hl

/-- Executing the renamed statements in the extended environment simulates executing the original ones
    (all statement lists). -/
theorem sim_run (I : Interp Rat) (m : List (Sym × Sym)) (ss : List Stmt) :
    ∀ (ρ₁ ρ : Env Rat), (∀ s ∈ ss, StmtOk m s) → Sim m ρ₁ ρ →
      Sim m (run I (ss.map (substStmt (renameOf m))) ρ₁) (run I ss ρ) := by
  induction ss with
  | nil => intro ρ₁ ρ _ h; exact h
  | cons s t ih =>
    intro ρ₁ ρ hok h
    simp only [List.map_cons, run_cons]
    exact ih _ _ (fun s' hs' => hok s' (List.mem_cons_of_mem _ hs')) (sim_step I m s (hok s (by simp)) ρ₁ ρ h)

/-! ### `findLastAssign` on a list split at the last assignment -/

theorem go_append (p : Sym) : ∀ (a b : List Stmt) (i : Nat) (acc : Option Nat),
    findLastAssign.go p (a ++ b) i acc = findLastAssign.go p b (i + a.length) (findLastAssign.go p a i acc) := by
  intro a
  induction a with
  | nil => intro b i acc; simp [findLastAssign.go]
  | cons s t ih =>
    intro b i acc
    cases s with
    | assign x e =>
      simp only [List.cons_append, findLastAssign.go, List.length_cons]
      rw [ih]; congr 1; omega
    | ode am r =>
      simp only [List.cons_append, findLastAssign.go, List.length_cons]
      rw [ih]; congr 1; omega

theorem go_no_assign (p : Sym) : ∀ (b : List Stmt) (i : Nat) (acc : Option Nat),
    (∀ s ∈ b, p ∉ s.defs) → findLastAssign.go p b i acc = acc := by
  intro b
  induction b with
  | nil => intro i acc _; simp [findLastAssign.go]
  | cons s t ih =>
    intro i acc h
    have ht := ih (i + 1)
    cases s with
    | assign x e =>
      have hx : x ≠ p := by
        have := h (.assign x e) (by simp)
        simpa [Stmt.defs, eq_comm] using this
      simp only [findLastAssign.go, hx, if_false]
      exact ht acc (fun s hs => h s (List.mem_cons_of_mem _ hs))
    | ode am r =>
      simp only [findLastAssign.go]
      exact ht acc (fun s hs => h s (List.mem_cons_of_mem _ hs))

/-- every list with a last assignment of `p` has this shape, and `find_assignment_index` finds exactly that one -/
theorem findLastAssign_split (p : Sym) (pre post : List Stmt) (e : Expr) (hpost : ∀ s ∈ post, p ∉ s.defs) :
    findLastAssign (pre ++ .assign p e :: post) p = some pre.length := by
  unfold findLastAssign
  rw [go_append]
  simp only [findLastAssign.go, if_true, Nat.zero_add]
  exact go_no_assign p post _ _ hpost

end Pharmpy.C09
