import PharmpyProofs.C16.DBLemmas
import PharmpyProofs.C16.TextLemmas
import PharmpyProofs.C16.ResultLogLemmas
/-
  C16 — Model database and run context are atomic and faithful, even across
  crashes.  Property theorems.

  Every statement quantifies over an arbitrary file system `fs` (hence over
  whatever any earlier workload, crashed or not, left behind), every crash
  point `j` of the interrupted call and every torn prefix `n`.
-/
namespace Pharmpy.C16

/-! ### The PENDING protocol -/

/-- A reader is refused exactly when PENDING is present; otherwise it gets the
    entry read from the files as they are. -/
theorem pending_protocol (k : String) (fs : FS) :
    ((dbRetrieve k fs).2 = .error .pending ↔ (pexists fs (pendingPath k) = true ∨ readEntry k fs = .error .pending)) ∧
    (pexists fs (pendingPath k) = true → (dbRetrieve k fs).2 = .error .pending) := by
  rw [dbRetrieve_result]
  constructor
  · by_cases h : pexists fs (pendingPath k) = true <;> simp [h]
  · intro h; simp [h]

/-- **Transactions are atomic for their key** (any body that does not address
    the marker; any file system; any crash point; any torn write): after the
    crash either nothing but the creation of the key's directories and of the
    lock file has happened, or PENDING is present, or the transaction
    completed. -/
theorem txn_atomic (k : String) (body : Prog Unit)
    (havoid : ∀ fs o, o ∈ (body fs).1 → o.path ≠ pendingPath k) (fs : FS) (j : Nat) (n : Option Nat) :
    (∀ p, p ≠ keyDir k → p ≠ metaDir k → p ≠ lockPath → get (crash fs (txn k body fs).1 j n) p = get fs p)
    ∨ pexists (crash fs (txn k body fs).1 j n) (pendingPath k) = true
    ∨ ((txn k body fs).2 = .ok () ∧ crash fs (txn k body fs).1 j n = applyAll fs (txn k body fs).1) := by
  have hpre : ∀ (j : Nat) p, p ≠ keyDir k → p ≠ metaDir k → p ≠ lockPath →
      get (crash fs (openKey k fs) j n) p = get fs p := by
    intro j p h1 h2 h3
    apply get_crash_ne
    intro o ho
    rcases (openKey_paths ho).1 with e | e | e <;> rw [e] <;> exact fun h' => by simp_all
  -- shape of the issued operations
  unfold txn
  simp only
  split
  · exact Or.inl (hpre j)
  · generalize hb : body (apply (applyAll fs (openKey k fs)) (Op.create (pendingPath k))) = br
    obtain ⟨b, r⟩ := br
    have hbav : ∀ o ∈ b, o.path ≠ pendingPath k := fun o ho => havoid _ o (by rw [hb]; exact ho)
    generalize hfs1 : applyAll fs (openKey k fs) = fs1
    have hfs2 : get (applyAll fs1 [Op.create (pendingPath k)]) (pendingPath k) = some (.file (.text [])) := by
      simp [applyAll, apply, get_cons_self]
    -- crash before or at the creation of the marker: only opening operations happened
    have early : ∀ rest : List Op, j ≤ (openKey k fs).length →
        ∀ p, p ≠ keyDir k → p ≠ metaDir k → p ≠ lockPath →
        get (crash fs (openKey k fs ++ (Op.create (pendingPath k) :: rest)) j n) p = get fs p := by
      intro rest hj p h1 h2 h3
      rcases Nat.lt_or_ge j (openKey k fs).length with hlt | hge
      · rw [crash_append_left hlt]; exact hpre j p h1 h2 h3
      · have hje : j = (openKey k fs).length := Nat.le_antisymm hj hge
        rw [crash_append_right hge, hje, Nat.sub_self]
        have : crash (applyAll fs (openKey k fs)) (Op.create (pendingPath k) :: rest) 0 n
            = applyAll fs (openKey k fs) := by
          unfold crash
          cases n <;> simp [applyAll, Op.tear]
        rw [this]
        have := hpre (openKey k fs).length p h1 h2 h3
        rwa [crash_of_length_le (Nat.le_refl _)] at this
    -- crash after the creation of the marker, inside the body
    have mid : ∀ rest : List Op, (openKey k fs).length < j → (∀ o ∈ rest, o.path ≠ pendingPath k) →
        pexists (crash fs (openKey k fs ++ (Op.create (pendingPath k) :: rest)) j n) (pendingPath k) = true := by
      intro rest hj hrest
      rw [crash_append_right (Nat.le_of_lt hj), hfs1]
      have e1 : Op.create (pendingPath k) :: rest = [Op.create (pendingPath k)] ++ rest := rfl
      rw [e1, crash_append_right (by simp; omega)]
      simp only [pexists, get_crash_ne _ n hrest, hfs2, Option.isSome_some]
    cases r with
    | error e =>
      simp only
      rcases Nat.lt_or_ge (openKey k fs).length j with hlt | hge
      · exact Or.inr (Or.inl (mid b hlt hbav))
      · exact Or.inl (early b hge)
    | ok u =>
      simp only
      rcases Nat.lt_or_ge (openKey k fs).length j with hlt | hge
      · rcases Nat.lt_or_ge j ((openKey k fs).length + 1 + b.length + 1) with hj2 | hj2
        · -- the unlink has not happened
          right; left
          have hj3 : j ≤ (openKey k fs).length + 1 + b.length := Nat.le_of_lt_succ hj2
          rw [show openKey k fs ++ Op.create (pendingPath k) :: b ++ [Op.unlink (pendingPath k)]
                = (openKey k fs ++ Op.create (pendingPath k) :: b) ++ [Op.unlink (pendingPath k)] by simp]
          rcases Nat.lt_or_ge j ((openKey k fs).length + 1 + b.length) with h4 | h4
          · rw [crash_append_left (by simp; omega)]
            exact mid b hlt hbav
          · have hje : j = (openKey k fs).length + 1 + b.length := Nat.le_antisymm hj3 h4
            rw [crash_append_right (by simp; omega)]
            have hz : j - (openKey k fs ++ Op.create (pendingPath k) :: b).length = 0 := by simp; omega
            rw [hz]
            have : ∀ fsx, crash fsx [Op.unlink (pendingPath k)] 0 n = fsx := by
              intro fsx; unfold crash; cases n <;> simp [applyAll, Op.tear]
            rw [this, ← crash_of_length_le (k := j) (n := n) (by simp; omega)]
            exact mid b hlt hbav
        · right; right
          exact ⟨trivial, crash_of_length_le (by simp; omega)⟩
      · exact Or.inl (by
          rw [List.append_assoc]; exact early (b ++ [Op.unlink (pendingPath k)]) hge)

end Pharmpy.C16

namespace Pharmpy.C16

/-- **No partially written entry is ever visible as complete** (the crashed
    key): whatever a reader obtains for the key of an interrupted
    `store_model_entry` is what it would have obtained before the call started,
    or what it obtains after the call completed — for every file system, crash
    point and torn write. -/
theorem visible_subset_committed (m : MDesc) (fs : FS) (j : Nat) (n : Option Nat) (e : Entry)
    (h : (dbRetrieve m.key (crash fs (dbStoreEntry m fs).1 j n)).2 = .ok e) :
    (dbRetrieve m.key fs).2 = .ok e ∨
    ((dbStoreEntry m fs).2 = .ok () ∧ (dbRetrieve m.key (applyAll fs (dbStoreEntry m fs).1)).2 = .ok e) := by
  rcases txn_atomic m.key (storeEntryBody m) (storeEntryBody_avoids_pending m m.key) fs j n with h1 | h1 | ⟨h1, h2⟩
  · left
    rw [dbRetrieve_result] at h ⊢
    have hP : pexists (crash fs (dbStoreEntry m fs).1 j n) (pendingPath m.key) = pexists fs (pendingPath m.key) := by
      have := pending_not_openKey m.key m.key
      simp only [pexists, dbStoreEntry, h1 _ this.1 this.2.1 this.2.2]
    have hR : readEntry m.key (crash fs (dbStoreEntry m fs).1 j n) = readEntry m.key fs :=
      readEntry_congr (fun p hp => by
        have hh := readSet_not_openKey (k' := m.key) hp
        exact h1 p hh.1 hh.2.1 hh.2.2.1)
    rwa [hP, hR] at h
  · rw [dbRetrieve_result] at h
    simp only [dbStoreEntry] at h
    simp [h1] at h
  · right
    exact ⟨h1, by simp only [dbStoreEntry] at h ⊢; rwa [h2] at h⟩

/-- **Entries committed earlier remain intact and retrievable** (general form):
    an entry a reader obtained for key `k` is obtained unchanged after any
    later transaction on another key whose body stays inside the footprint
    `FootN` with a fresh dataset number, completed or interrupted at any point
    with any torn write — on every file system. -/
theorem earlier_commits_intact_txn (key ext dh : String) (body : Prog Unit)
    (hfoot : ∀ fs o, o ∈ (body fs).1 → ∃ N, highest fs < N ∧ FootN key ext dh N o.path)
    (fs : FS) (j : Nat) (n : Option Nat) (k : String) (e : Entry)
    (hk : k ≠ key) (hk2 : k ≠ ".datasets")
    (h : (dbRetrieve k fs).2 = .ok e) :
    (dbRetrieve k (crash fs (txn key body fs).1 j n)).2 = .ok e := by
  rw [dbRetrieve_result] at h ⊢
  by_cases hP : pexists fs (pendingPath k) = true
  · simp [hP] at h
  · simp only [hP] at h
    -- paths the interrupted call addresses
    have hops : ∀ o ∈ (txn key body fs).1,
        o.path = keyDir key ∨ o.path = metaDir key ∨ o.path = lockPath ∨ o.path = pendingPath key ∨
        (∃ N, highest (apply (applyAll fs (openKey key fs)) (Op.create (pendingPath key))) < N ∧ FootN key ext dh N o.path) := by
      intro o ho
      simp only [txn] at ho
      split at ho
      · rcases (openKey_paths ho).1 with e | e | e <;> simp [e]
      · generalize hb : body (apply (applyAll fs (openKey key fs)) (Op.create (pendingPath key))) = br at ho
        have hbody : ∀ o ∈ br.1, (∃ N, highest (apply (applyAll fs (openKey key fs)) (Op.create (pendingPath key))) < N ∧ FootN key ext dh N o.path) :=
          fun o ho => hfoot _ o (by rw [hb]; exact ho)
        obtain ⟨b, r⟩ := br
        have : o ∈ openKey key fs ∨ o = Op.create (pendingPath key) ∨ o ∈ b ∨ o = Op.unlink (pendingPath key) := by
          cases r with
          | error e =>
            simp only [List.mem_append, List.mem_cons] at ho
            rcases ho with ho | ho | ho
            · exact Or.inl ho
            · exact Or.inr (Or.inl ho)
            · exact Or.inr (Or.inr (Or.inl ho))
          | ok u =>
            simp only [List.mem_append, List.mem_cons, List.not_mem_nil, or_false] at ho
            rcases ho with (ho | ho | ho) | ho
            · exact Or.inl ho
            · exact Or.inr (Or.inl ho)
            · exact Or.inr (Or.inr (Or.inl ho))
            · exact Or.inr (Or.inr (Or.inr ho))
        rcases this with ho | rfl | ho | rfl
        · rcases (openKey_paths ho).1 with e | e | e <;> simp [e]
        · simp [Op.path]
        · exact Or.inr (Or.inr (Or.inr (Or.inr (hbody o ho))))
        · simp [Op.path]
    generalize hfsB : apply (applyAll fs (openKey key fs)) (Op.create (pendingPath key)) = fsB at hops
    have hne : ∀ p, p ≠ keyDir key → p ≠ metaDir key → p ≠ lockPath → p ≠ pendingPath key →
        (∀ N, highest fsB < N → ¬ FootN key ext dh N p) → get (crash fs (txn key body fs).1 j n) p = get fs p := by
      intro p a1 a2 a3 a4 a5
      apply get_crash_ne
      intro o ho hop
      rcases hops o ho with e | e | e | e | e
      · exact a1 (hop ▸ e)
      · exact a2 (hop ▸ e)
      · exact a3 (hop ▸ e)
      · exact a4 (hop ▸ e)
      · obtain ⟨N, hN, e⟩ := e
        exact a5 N hN (hop ▸ e)
    have hkk : (Seg.s k) ≠ Seg.s key := fun h' => hk (by cases h'; rfl)
    have hP' : pexists (crash fs (txn key body fs).1 j n) (pendingPath k) = pexists fs (pendingPath k) := by
      unfold pexists
      rw [hne]
      all_goals first
        | (simp [pendingPath, metaDir, keyDir, lockPath, dbRoot]; done)
        | (simp [pendingPath, metaDir, keyDir, lockPath, dbRoot]; exact hk)
        | (intro N hN hb
           rcases hb with e | e | e | e | e | e | e | e | e <;>
             simp [pendingPath, metaDir, keyDir, modelPath, resultsPath, metadataPath, datasetsDir, hashDir, dbRoot] at e)
    rw [hP']
    simp only [hP]
    have hfsB_csv : ∀ r, get fsB (datasetsDir ++ [.csv r]) = get fs (datasetsDir ++ [.csv r]) := by
      intro r
      rw [← hfsB, get_apply_ne (by simp [Op.path, pendingPath, metaDir, keyDir, datasetsDir, dbRoot]),
        get_openKey_of (by simp [keyDir, metaDir, lockPath, datasetsDir, dbRoot])]
    apply readEntry_ok_congr (fs := fs) _ _ _ _ h
    · apply hne <;> first
        | (simp [modelPath, metaDir, keyDir, lockPath, pendingPath, dbRoot]; done)
        | (intro N hN hb
           rcases hb with e | e | e | e | e | e | e | e | e <;>
             simp [modelPath, metaDir, keyDir, resultsPath, metadataPath, datasetsDir, hashDir, dbRoot] at e
           exact hk e.1)
    · apply hne <;> first
        | (simp [modelPath, metaDir, keyDir, lockPath, pendingPath, dbRoot]; done)
        | (intro N hN hb
           rcases hb with e | e | e | e | e | e | e | e | e <;>
             simp [modelPath, metaDir, keyDir, resultsPath, metadataPath, datasetsDir, hashDir, dbRoot] at e
           exact hk e.1)
    · apply hne <;> first
        | (simp [resultsPath, metaDir, keyDir, lockPath, pendingPath, dbRoot]; done)
        | (simp [resultsPath, metaDir, keyDir, lockPath, pendingPath, dbRoot]; exact hk)
        | (intro N hN hb
           rcases hb with e | e | e | e | e | e | e | e | e <;>
             simp [modelPath, metaDir, keyDir, resultsPath, metadataPath, datasetsDir, hashDir, dbRoot] at e
           first | exact hk e | exact hk2 e.1)
    · intro r hr
      have hle : r ≤ highest fsB := le_highest (by simpa [pexists, hfsB_csv r] using hr)
      constructor
      · apply hne <;> first
          | (simp [datasetsDir, metaDir, keyDir, lockPath, pendingPath, dbRoot]; done)
          | (intro N hN hb
             rcases hb with e | e | e | e | e | e | e | e | e <;>
               simp [modelPath, metaDir, keyDir, resultsPath, metadataPath, datasetsDir, hashDir, dbRoot] at e
             omega)
      · apply hne <;> first
          | (simp [datasetsDir, metaDir, keyDir, lockPath, pendingPath, dbRoot]; done)
          | (intro N hN hb
             rcases hb with e | e | e | e | e | e | e | e | e <;>
               simp [modelPath, metaDir, keyDir, resultsPath, metadataPath, datasetsDir, hashDir, dbRoot] at e
             omega)


/-- **Entries committed earlier remain intact and retrievable**: an entry that
    a reader obtained for key `k` is obtained unchanged after any later
    `store_model_entry` of another key, completed or interrupted at any point
    with any torn write — on every file system. -/
theorem earlier_commits_intact (m : MDesc) (fs : FS) (j : Nat) (n : Option Nat) (k : String) (e : Entry)
    (hk : k ≠ m.key) (hk2 : k ≠ ".datasets")
    (h : (dbRetrieve k fs).2 = .ok e) :
    (dbRetrieve k (crash fs (dbStoreEntry m fs).1 j n)).2 = .ok e :=
  earlier_commits_intact_txn m.key m.ext m.dh (storeEntryBody m)
    (fun _ _ ho => (storeEntryBody_paths ho).footN) fs j n k e hk hk2 h

/-- The same for `db.store_model(m)` … -/
theorem earlier_commits_intact_store_model (m : MDesc) (fs : FS) (j : Nat) (n : Option Nat) (k : String) (e : Entry)
    (hk : k ≠ m.key) (hk2 : k ≠ ".datasets")
    (h : (dbRetrieve k fs).2 = .ok e) :
    (dbRetrieve k (crash fs (dbStoreModel m fs).1 j n)).2 = .ok e :=
  earlier_commits_intact_txn m.key m.ext m.dh (storeModel m)
    (fun _ _ ho => (storeModel_paths ho).footN) fs j n k e hk hk2 h

/-- … and for `db.store_metadata(key, md)`. -/
theorem earlier_commits_intact_store_metadata (key md : String) (fs : FS) (j : Nat) (n : Option Nat) (k : String)
    (e : Entry) (hk : k ≠ key) (hk2 : k ≠ ".datasets")
    (h : (dbRetrieve k fs).2 = .ok e) :
    (dbRetrieve k (crash fs (dbStoreMetadata key md fs).1 j n)).2 = .ok e :=
  earlier_commits_intact_txn key "ctl" "" (storeMetadata key md)
    (fun fs o ho => ⟨highest fs + 1, Nat.lt_succ_self _, by
      simp only [storeMetadata, List.mem_cons, List.not_mem_nil, or_false] at ho
      rcases ho with rfl | rfl <;>
        exact Or.inr (Or.inr (Or.inr (Or.inr (Or.inr (Or.inr (Or.inr (Or.inr rfl)))))))⟩)
    fs j n k e hk hk2 h

end Pharmpy.C16

namespace Pharmpy.C16

/-! ### Storing after a crash -/

/-- The decidable condition under which `store_model` can use (or create) the
    dataset index entry of `m`'s dataset. -/
def IndexUsable (m : MDesc) (fs : FS) : Bool :=
  isFile fs (modelPath m.key m.ext) || !isDir fs (hashDir m.dh) ||
  (match children fs (hashDir m.dh) with
   | [] => false
   | x :: _ => match get fs (datasetsDir ++ [dinfoOf x]) with
     | some (.file c) => (parseDinfo c).isSome
     | _ => false)

/-- **Later stores succeed** — under the side condition that the key is not
    left pending and the index entry of its dataset is usable (absent, or
    complete).  Holds on every file system, hence after every crash. -/
theorem later_stores_succeed_partial (m : MDesc) (fs : FS)
    (hP : pexists fs (pendingPath m.key) = false)
    (hI : IndexUsable m (apply (applyAll fs (openKey m.key fs)) (.create (pendingPath m.key))) = true) :
    (dbStoreEntry m fs).2 = .ok () := by
  have hp : pexists (applyAll fs (openKey m.key fs)) (pendingPath m.key) = false := by
    simp only [pexists, get_openKey_of (pending_not_openKey m.key m.key)] at hP ⊢; exact hP
  generalize hfsB : apply (applyAll fs (openKey m.key fs)) (.create (pendingPath m.key)) = fsB at hI
  have hbody : (storeEntryBody m fsB).2 = .ok () := by
    have hs : (storeModel m fsB).2 = .ok () := by
      unfold IndexUsable at hI
      unfold storeModel
      by_cases h1 : isFile fsB (modelPath m.key m.ext) = true
      · simp [h1]
      · by_cases h2 : isDir fsB (hashDir m.dh) = true
        · simp only [h1, h2, Bool.false_eq_true, if_false, if_true]
          simp only [h1, h2, Bool.not_true, Bool.or_false, Bool.false_or] at hI
          unfold storeShared
          split at hI
          · cases hI
          · rename_i x t hx
            simp only [hx]
            split at hI
            · rename_i c hc
              simp only [hc]
              cases hpd : parseDinfo c with
              | none => simp [hpd] at hI
              | some v => rfl
            · cases hI
        · simp [h1, h2, storeFresh]
    unfold storeEntryBody Prog.andThen
    generalize hsm : storeModel m fsB = sm at hs
    obtain ⟨o1, r1⟩ := sm
    simp only at hs
    subst hs
    simp only [storeResults]
    cases m.res <;> rfl
  simp only [dbStoreEntry, txn, hp, Bool.false_eq_true, if_false, hfsB]
  generalize hb : storeEntryBody m fsB = br at hbody
  obtain ⟨b, r⟩ := br
  simp only at hbody
  subst hbody
  rfl

/-- Two models sharing a dataset (hash `H1`, datainfo `D1`) and a third with
    another dataset whose datainfo equals `D1`. -/
def wM1 : MDesc := { key := "K1", dh := "H1", di := "D1", code := "M1" }
def wM2 : MDesc := { key := "K2", dh := "H1", di := "D1", code := "M2" }
def wM3 : MDesc := { key := "K3", dh := "H2", di := "D1", code := "M3" }

/-- State after `LocalDirectoryContext(...)` and a `store_model_entry(M1)`
    interrupted at operation `j` (torn parameter `n`). -/
def wCrash (j : Nat) (n : Option Nat) : FS := crashW [] [.init, .dbStoreEntry wM1] j n

/-- **F5** (`later_stores_succeed` is false of the code): after a crash right
    after `h_dir.mkdir()` every store of a model sharing the dataset raises
    `StopIteration` … -/
theorem store_after_crash_witness :
    (dbStoreEntry wM2 (wCrash 16 none)).2 = .error .stopIteration := by decide

/-- … after the index `touch` (and until the datainfo is written) it raises
    `FileNotFoundError` … -/
theorem store_after_crash_witness_index :
    (dbStoreEntry wM2 (wCrash 17 none)).2 = .error .fileNotFound ∧
    (dbStoreEntry wM2 (wCrash 19 (some 3))).2 = .error .fileNotFound := by decide

/-- … and after a torn datainfo it raises `JSONDecodeError`. -/
theorem store_after_crash_witness_torn :
    (dbStoreEntry wM2 (wCrash 20 (some 5))).2 = .error .jsonDecode := by decide

/-- The key of the interrupted store itself stays refused for ever (nobody
    removes a stale PENDING), for readers and writers alike. -/
theorem stale_pending_witness :
    (dbRetrieve "K1" (wCrash 22 none)).2 = .error .pending ∧
    (dbStoreEntry wM1 (wCrash 22 none)).2 = .error .pending := by decide

/-- The same happens to an entry that *was* committed: an interrupted second
    store of the same key (here: storing results for it) makes the committed
    entry unavailable. -/
theorem committed_then_pending_witness :
    let fs1 := runW [] [.init, .dbStoreEntry wM1]
    (dbRetrieve "K1" fs1).2 = .ok wM1.entry ∧
    (dbRetrieve "K1" (crash fs1 (dbStoreEntry { wM1 with res := some "R" } fs1).1 2 none)).2 = .error .pending := by
  decide

/-- **Silent binding to the wrong dataset**: crash after the index `touch`
    for dataset `H1`; a model with another dataset `H2` (equal datainfo) is
    stored and takes `data1.csv`; a later model with dataset `H1` is bound by
    the stale index entry to `data1.csv` — and is retrieved, as if complete,
    with dataset `H2`. -/
theorem wrong_dataset_witness :
    let fs := runW (wCrash 17 none) [.dbStoreEntry wM3, .dbStoreEntry wM2]
    (dbRetrieve "K2" fs).2 = .ok { code := "M2", dataset := some "H2", di := some "D1", res := none } := by
  decide

/-- Non-vacuity of `later_stores_succeed_partial`, `visible_subset_committed`
    and `earlier_commits_intact`: on the state after a completed store of `M1`
    a model sharing its dataset is stored, retrieved faithfully, and `M1` is
    still there. -/
example :
    let fs1 := runW [] [.init, .dbStoreEntry wM1]
    pexists fs1 (pendingPath wM2.key) = false ∧
    IndexUsable wM2 (apply (applyAll fs1 (openKey wM2.key fs1)) (.create (pendingPath wM2.key))) = true ∧
    (dbRetrieve "K2" (applyAll fs1 (dbStoreEntry wM2 fs1).1)).2 = .ok wM2.entry ∧
    (dbRetrieve "K1" (applyAll fs1 (dbStoreEntry wM2 fs1).1)).2 = .ok wM1.entry := by decide

end Pharmpy.C16

namespace Pharmpy.C16

/-! ### All workloads, all crash points -/

/-- A crash point of a workload is a crash point of one of its calls, run on
    the state the completed calls before it left (or the workload completed).
    Hence the theorems above, which hold for every file system, hold after
    every workload prefix. -/
theorem crashW_split (w : List Call) (fs : FS) (j : Nat) (n : Option Nat) :
    crashW fs w j n = runW fs w ∨
    ∃ w1 c w2 j', w = w1 ++ c :: w2 ∧ j' < (c.ops (runW fs w1)).length ∧
      crashW fs w j n = crash (runW fs w1) (c.ops (runW fs w1)) j' n := by
  induction w generalizing fs j with
  | nil => left; simp [crashW, traceW, runW, crash, applyAll]
  | cons c w ih =>
    by_cases hj : j < (c.ops fs).length
    · right
      refine ⟨[], c, w, j, rfl, hj, ?_⟩
      simp only [crashW, traceW, runW]
      exact crash_append_left hj
    · have hj := Nat.le_of_not_lt hj
      have e : crashW fs (c :: w) j n = crashW (applyAll fs (c.ops fs)) w (j - (c.ops fs).length) n := by
        simp only [crashW, traceW]; exact crash_append_right hj
      rcases ih (applyAll fs (c.ops fs)) (j - (c.ops fs).length) with h | ⟨w1, c', w2, j', hw, hj', h⟩
      · left; rw [e, h]; rfl
      · right
        exact ⟨c :: w1, c', w2, j', by rw [hw]; rfl, hj', by rw [e, h]; rfl⟩

/-- **Earlier commits stay intact through any later workload of stores of
    other keys, interrupted anywhere**: induction over the workload. -/
theorem earlier_commits_intact_workload (ms : List MDesc) (fs : FS) (j : Nat) (n : Option Nat) (k : String) (e : Entry)
    (hk : ∀ m ∈ ms, k ≠ m.key) (hk2 : k ≠ ".datasets")
    (h : (dbRetrieve k fs).2 = .ok e) :
    (dbRetrieve k (crashW fs (ms.map Call.dbStoreEntry) j n)).2 = .ok e := by
  induction ms generalizing fs j with
  | nil => simpa [crashW, traceW, crash, applyAll] using h
  | cons m ms ih =>
    have hm := hk m List.mem_cons_self
    by_cases hj : j < ((Call.dbStoreEntry m).ops fs).length
    · have : crashW fs ((m :: ms).map Call.dbStoreEntry) j n = crash fs (dbStoreEntry m fs).1 j n := by
        simp only [List.map_cons, crashW, traceW]
        rw [crash_append_left hj]
        simp [Call.ops, Call.run, outOf]
        cases hh : dbStoreEntry m fs with
        | mk o r => cases r <;> simp [outOf]
      rw [this]; exact earlier_commits_intact m fs j n k e hm hk2 h
    · have hj := Nat.le_of_not_lt hj
      have hops : (Call.dbStoreEntry m).ops fs = (dbStoreEntry m fs).1 := by
        simp [Call.ops, Call.run]
        cases hh : dbStoreEntry m fs with
        | mk o r => cases r <;> simp [outOf]
      have e1 : crashW fs ((m :: ms).map Call.dbStoreEntry) j n
          = crashW (applyAll fs (dbStoreEntry m fs).1) (ms.map Call.dbStoreEntry) (j - (dbStoreEntry m fs).1.length) n := by
        simp only [List.map_cons, crashW, traceW]
        rw [crash_append_right hj, hops]
      rw [e1]
      apply ih _ _ (fun m' hm' => hk m' (List.mem_cons_of_mem _ hm'))
      have := earlier_commits_intact m fs (dbStoreEntry m fs).1.length n k e hm hk2 h
      rwa [crash_of_length_le (Nat.le_refl _)] at this

/-! ### log.csv -/

/-- **Log messages come back in order and verbatim** (full statement, the code
    since fix 68c0db2) — for any number of appended messages with arbitrary
    content (quotes, commas, line breaks, `NA`, empty, numerals, …), context
    path, date and severity containing no separator, quote or line break:
    `retrieve_log` returns exactly the stored messages, in append order. -/
theorem log_roundtrip (rs : List LogRec) (h : ∀ r ∈ rs, r.Safe) :
    readLog (logHeader ++ (rs.map LogRec.line).flatten) = .ok (rs.map fun r => some r.message) := by
  simp only [readLog, readLogWith, csvParse_log rs h]
  have hany : (rs.map fun r => [r.path, r.date, r.severity, r.message]).any (fun r => decide (4 < r.length)) = false := by
    simp [List.any_eq_false]
  simp [hany]

/-- `log_order`: the k-th row is the k-th appended message. -/
theorem log_order (rs : List LogRec) (h : ∀ r ∈ rs, r.Safe) (k : Nat) :
    (readLog (logHeader ++ (rs.map LogRec.line).flatten)).toOption.map (fun ms => ms[k]?)
      = some (rs[k]?.map fun r => some r.message) := by
  rw [log_roundtrip rs h]; simp [Except.toOption]

/-- The pre-repair reader (`pd.read_csv(log_path)` with pandas' defaults, before
    68c0db2) satisfied only the partial statement: NA strings came back as NaN
    (`none`) … -/
theorem log_roundtrip_partial_prerepair (rs : List LogRec) (h : ∀ r ∈ rs, r.Safe) :
    readLogWith true (logHeader ++ (rs.map LogRec.line).flatten)
      = .ok (rs.map fun r => if isNA r.message then none else some r.message) := by
  simp only [readLogWith, csvParse_log rs h]
  have hany : (rs.map fun r => [r.path, r.date, r.severity, r.message]).any (fun r => decide (4 < r.length)) = false := by
    simp [List.any_eq_false]
  simp [hany]

/-- … witnesses: `"NA"`, `""`, `"nan"` were lost by the pre-repair reader and
    are returned verbatim by the code as it is. -/
theorem log_na_witness :
    (readLogWith true (logHeader ++ logLine "ctx".toList "2026".toList "info".toList "NA".toList) = .ok [none] ∧
     readLogWith true (logHeader ++ logLine "ctx".toList "2026".toList "info".toList []) = .ok [none] ∧
     readLogWith true (logHeader ++ logLine "ctx".toList "2026".toList "info".toList "nan".toList) = .ok [none]) ∧
    (readLog (logHeader ++ logLine "ctx".toList "2026".toList "info".toList "NA".toList) = .ok [some "NA".toList] ∧
     readLog (logHeader ++ logLine "ctx".toList "2026".toList "info".toList []) = .ok [some []]) := by
  decide

/-- Still false of the code: a torn append makes the whole log unreadable (all
    committed messages lost to the reader) or shows a partial row — now with
    an empty message — as a log entry. -/
theorem log_torn_witness :
    let l1 := logLine "ctx".toList "2026".toList "info".toList "first".toList
    let l2 := logLine "ctx".toList "2026".toList "info".toList "second".toList
    readLog (logHeader ++ l1 ++ l2.take 18) = .error .parserError ∧
    readLog (logHeader ++ l1 ++ l2.take 6) = .ok [some "first".toList, some []] := by
  decide

end Pharmpy.C16

namespace Pharmpy.C16

/-! ### annotations -/

/-- **Annotation round trip** — for a name without blank or line break and an
    annotation without line break, on any annotations file made of complete
    lines: the stored annotation comes back verbatim. -/
theorem annotation_roundtrip_partial (name ann : List Char) (ls : List (List Char)) (h : ∀ l ∈ ls, WfLine l)
    (hn0 : ' ' ∉ name) (hn1 : '\n' ∉ name) (hn2 : '\r' ∉ name) (ha1 : '\n' ∉ ann) (ha2 : '\r' ∉ ann) :
    retrieveAnnotationText name (storeAnnotationText name ann ls.flatten) = .ok ann := by
  have hw := wf_annLine name ann hn1 hn2 ha1 ha2
  rw [storeAnnotationText_lines name ann ls h]
  unfold retrieveAnnotationText
  rw [readlines_flatten _ (annLines_wf name ann ls h hw)]
  have hkey := lineKey_annLine name ann hn0
  have hfind : (annLines name ann ls).find? (fun l => decide (lineKey l = name)) = some (annLine name ann) := by
    apply find?_eq_of_forall
    · intro l hl hp
      have hp : lineKey l = name := by simpa using hp
      simp only [annLines] at hl
      have hmap : ∀ l ∈ ls.map (fun l => if lineKey l = name then annLine name ann else l),
          lineKey l = name → l = annLine name ann := by
        intro l hl hp
        rw [List.mem_map] at hl
        obtain ⟨l0, _, rfl⟩ := hl
        by_cases hk : lineKey l0 = name
        · simp [hk]
        · simp [hk] at hp
      split at hl
      · exact hmap l hl hp
      · rcases List.mem_append.mp hl with hl | hl
        · exact hmap l hl hp
        · simpa using hl
    · simp only [annLines]
      split
      · rename_i hany
        rw [List.any_eq_true] at hany
        obtain ⟨l0, hl0, hp0⟩ := hany
        refine ⟨annLine name ann, ?_, by simpa using hkey⟩
        rw [List.mem_map]
        exact ⟨l0, hl0, by simp at hp0; simp [hp0]⟩
      · exact ⟨annLine name ann, by simp, by simpa using hkey⟩
  rw [hfind]
  have hc : (annLine name ann).contains ' ' = true := by simp [annLine]
  simp only [hc, if_true]
  congr 1
  unfold annLine
  rw [dropWhile_append_of_all name _ (fun c hc => by
    have : c ≠ ' ' := fun e => hn0 (e ▸ hc)
    simpa using this)]
  simp [List.dropWhile]

/-- The written file is again made of complete lines, so the round trip
    holds after any number of stores. -/
theorem annotation_wf_preserved (name ann : List Char) (ls : List (List Char)) (h : ∀ l ∈ ls, WfLine l)
    (hn1 : '\n' ∉ name) (hn2 : '\r' ∉ name) (ha1 : '\n' ∉ ann) (ha2 : '\r' ∉ ann) :
    ∃ ls' : List (List Char), storeAnnotationText name ann ls.flatten = ls'.flatten ∧ ∀ l ∈ ls', WfLine l :=
  ⟨annLines name ann ls, storeAnnotationText_lines name ann ls h,
    annLines_wf name ann ls h (wf_annLine name ann hn1 hn2 ha1 ha2)⟩

/-- **Frame**: storing the annotation of one name leaves the annotation every
    other name retrieves unchanged (crash-free). -/
theorem annotation_frame (name ann other : List Char) (ls : List (List Char)) (h : ∀ l ∈ ls, WfLine l)
    (hn0 : ' ' ∉ name) (hn1 : '\n' ∉ name) (hn2 : '\r' ∉ name) (ha1 : '\n' ∉ ann) (ha2 : '\r' ∉ ann)
    (hne : other ≠ name) :
    retrieveAnnotationText other (storeAnnotationText name ann ls.flatten)
      = retrieveAnnotationText other ls.flatten := by
  have hw := wf_annLine name ann hn1 hn2 ha1 ha2
  rw [storeAnnotationText_lines name ann ls h]
  unfold retrieveAnnotationText
  rw [readlines_flatten _ (annLines_wf name ann ls h hw), readlines_flatten _ h]
  have hkey := lineKey_annLine name ann hn0
  have hno : ¬ name = other := fun e => hne e.symm
  have hpa : (fun l : List Char => decide (lineKey l = other)) (annLine name ann) = false := by
    simp [hkey, hno]
  have hmap : (ls.map (fun l => if lineKey l = name then annLine name ann else l)).find?
      (fun l => decide (lineKey l = other)) = ls.find? (fun l => decide (lineKey l = other)) := by
    apply find?_map_congr
    intro l _
    by_cases hk : lineKey l = name
    · have : ¬ lineKey l = other := fun e => hne (e.symm.trans hk)
      simp [hk, hkey, hno]
    · simp [hk]
  have hfind : (annLines name ann ls).find? (fun l => decide (lineKey l = other))
      = ls.find? (fun l => decide (lineKey l = other)) := by
    simp only [annLines]
    split
    · exact hmap
    · rw [find?_append_false (fun l : List Char => decide (lineKey l = other)) _ _ hpa]; exact hmap
  rw [hfind]

/-- The full statement is false of the code: an annotation with a line break
    is cut, and a torn rewrite of the annotations file loses or cuts the
    annotation of another, earlier stored name. -/
theorem annotation_newline_witness :
    retrieveAnnotationText "mA".toList (storeAnnotationText "mA".toList "line1\nline2".toList []) = .ok "line1".toList ∧
    retrieveAnnotationText "mA".toList (storeAnnotationText "mA".toList "cr\rhere".toList []) = .ok "cr".toList := by
  decide

theorem annotation_torn_witness :
    let t1 := storeAnnotationText "mA".toList "Model A".toList []
    let t2 := storeAnnotationText "mC".toList "Model C".toList t1
    retrieveAnnotationText "mA".toList t2 = .ok "Model A".toList ∧
    retrieveAnnotationText "mA".toList (t2.take 0) = .error .keyError ∧
    retrieveAnnotationText "mA".toList (t2.take 7) = .ok "Mod".toList ∧
    retrieveAnnotationText "mA".toList (t2.take 2) = .error .indexError := by
  decide

end Pharmpy.C16

namespace Pharmpy.C16

/-! ### Fidelity of a completed store -/

/-- **A completed store is retrievable and faithful** (first store of a key
    whose dataset is not yet in the database, on any file system): the reader
    obtains the model text, the dataset, the datainfo and the results that
    were stored. -/
theorem committed_faithful (m : MDesc) (fs : FS)
    (hext : m.ext = "ctl" ∨ m.ext = "mod") (hk : m.key ≠ ".datasets")
    (hP : pexists fs (pendingPath m.key) = false)
    (hM1 : isFile fs (modelPath m.key "mod") = false) (hM2 : isFile fs (modelPath m.key "ctl") = false)
    (hH : isDir fs (hashDir m.dh) = false)
    (hR : m.res = none → get fs (resultsPath m.key) = none) :
    (dbStoreEntry m fs).2 = .ok () ∧
    (dbRetrieve m.key (applyAll fs (dbStoreEntry m fs).1)).2 = .ok m.entry := by
  have hp1 : pexists (applyAll fs (openKey m.key fs)) (pendingPath m.key) = false := by
    simp only [pexists, get_openKey_of (pending_not_openKey m.key m.key)] at hP ⊢; exact hP
  generalize hfsB : apply (applyAll fs (openKey m.key fs)) (.create (pendingPath m.key)) = fsB
  have hgB : ∀ p, p ≠ keyDir m.key → p ≠ metaDir m.key → p ≠ lockPath → p ≠ pendingPath m.key →
      get fsB p = get fs p := by
    intro p a1 a2 a3 a4
    rw [← hfsB, get_apply_ne (by simpa [Op.path] using fun h => a4 h.symm), get_openKey_of ⟨a1, a2, a3⟩]
  have hMB : isFile fsB (modelPath m.key m.ext) = false := by
    have h1 : get fsB (modelPath m.key "mod") = get fs (modelPath m.key "mod") := by
      apply hgB <;> simp [modelPath, keyDir, metaDir, lockPath, pendingPath, dbRoot]
    have h2 : get fsB (modelPath m.key "ctl") = get fs (modelPath m.key "ctl") := by
      apply hgB <;> simp [modelPath, keyDir, metaDir, lockPath, pendingPath, dbRoot]
    rcases hext with h | h
    · rw [h]; simp only [isFile, h2]; exact hM2
    · rw [h]; simp only [isFile, h1]; exact hM1
  have hHB : isDir fsB (hashDir m.dh) = false := by
    have : get fsB (hashDir m.dh) = get fs (hashDir m.dh) := by
      apply hgB <;> first
        | (simp [hashDir, datasetsDir, keyDir, metaDir, lockPath, pendingPath, dbRoot]; done)
        | (simp [hashDir, datasetsDir, keyDir, metaDir, lockPath, pendingPath, dbRoot]
           intro h; exact absurd h.symm hk)
    simp only [isDir, this]; exact hH
  -- the body
  generalize hN : highest fsB + 1 = N
  have hsm : storeModel m fsB = storeFresh m fsB := by simp [storeModel, hMB, hHB]
  have hbody : storeEntryBody m fsB =
      ((storeFresh m fsB).1 ++ (match m.res with
        | none => []
        | some r => [.create (resultsPath m.key), .write (resultsPath m.key) (.full (.results r))]), .ok ()) := by
    simp only [storeEntryBody, Prog.andThen, hsm, storeFresh, storeResults]
    cases m.res <;> simp
  have hrun : dbStoreEntry m fs = (openKey m.key fs ++ .create (pendingPath m.key) ::
      ((storeFresh m fsB).1 ++ (match m.res with
        | none => []
        | some r => [.create (resultsPath m.key), .write (resultsPath m.key) (.full (.results r))]))
      ++ [.unlink (pendingPath m.key)], .ok ()) := by
    simp only [dbStoreEntry, txn, hp1, Bool.false_eq_true, if_false, hfsB, hbody]
  refine ⟨by rw [hrun], ?_⟩
  rw [hrun, dbRetrieve_result]
  simp only
  -- the final state, path by path
  generalize hF : applyAll fs (openKey m.key fs ++ .create (pendingPath m.key) ::
      ((storeFresh m fsB).1 ++ (match m.res with
        | none => []
        | some r => [.create (resultsPath m.key), .write (resultsPath m.key) (.full (.results r))]))
      ++ [.unlink (pendingPath m.key)]) = fsF
  have hF' : fsF = apply (applyAll (applyAll fsB (storeFresh m fsB).1) (match m.res with
        | none => []
        | some r => [.create (resultsPath m.key), .write (resultsPath m.key) (.full (.results r))]))
        (.unlink (pendingPath m.key)) := by
    rw [← hF, ← hfsB]
    simp [applyAll, List.foldl_append]
  generalize hmk : mkdirP fsB dbRoot [.s ".datasets", .s ".hash", .s m.dh] = mk at *
  have hmkget : ∀ p, p ≠ datasetsDir → p ≠ datasetsDir ++ [.s ".hash"] → p ≠ hashDir m.dh →
      get (applyAll fsB mk) p = get fsB p := by
    intro p a1 a2 a3
    rw [← hmk]
    apply get_mkdirP_file
    intro q hq
    simp only [ancestors, List.mem_cons, List.not_mem_nil, or_false] at hq
    rcases hq with rfl | rfl | rfl
    · exact fun h => a1 h.symm
    · exact fun h => a2 (by simpa [datasetsDir] using h.symm)
    · exact fun h => a3 (by simpa [hashDir, datasetsDir] using h.symm)
  -- state after the model-store part
  have hS : ∀ p, get (applyAll fsB (storeFresh m fsB).1) p =
      if modelPath m.key m.ext = p then some (.file (.full (.model m.code (some N))))
      else if datasetsDir ++ [.dinfo N] = p then some (.file (.full (.dinfo m.di N)))
      else if datasetsDir ++ [.csv N] = p then some (.file (.full (.csv m.dh)))
      else if hashDir m.dh ++ [.csv N] = p then some (.file (.text []))
      else get (applyAll fsB mk) p := by
    intro p
    simp only [storeFresh, hN, hmk, writeModel, applyAll, List.foldl_append, List.foldl_cons, List.foldl_nil, apply,
      get_cons_eq]
    by_cases c1 : modelPath m.key m.ext = p <;> by_cases c2 : datasetsDir ++ [Seg.dinfo N] = p <;>
      by_cases c3 : datasetsDir ++ [Seg.csv N] = p <;> by_cases c4 : hashDir m.dh ++ [Seg.csv N] = p <;>
      simp [c1, c2, c3, c4]
  have hfin : ∀ p, p ≠ pendingPath m.key → p ≠ resultsPath m.key →
      get fsF p = get (applyAll fsB (storeFresh m fsB).1) p := by
    intro p a1 a2
    have n1 : ¬ pendingPath m.key = p := fun h => a1 h.symm
    have n2 : ¬ resultsPath m.key = p := fun h => a2 h.symm
    rw [hF']
    simp only [apply, get_filter_eq, if_neg n1]
    cases m.res with
    | none => simp [applyAll]
    | some r =>
      simp only [applyAll, List.foldl_cons, List.foldl_nil, apply, get_cons_eq, if_neg n2]
  have hPF : pexists fsF (pendingPath m.key) = false := by
    rw [hF']; simp only [pexists, apply, get_filter_self]; rfl
  have hRF : get fsF (resultsPath m.key) = match m.res with
      | none => none
      | some r => some (.file (.full (.results r))) := by
    rw [hF']
    have hne : pendingPath m.key ≠ resultsPath m.key := by simp [pendingPath, resultsPath]
    simp only [apply, get_filter_eq, if_neg hne]
    cases hres : m.res with
    | none =>
      have : applyAll (applyAll fsB (storeFresh m fsB).1) [] = applyAll fsB (storeFresh m fsB).1 := rfl
      rw [this, hS]
      have e1 : modelPath m.key m.ext ≠ resultsPath m.key := by simp [modelPath, resultsPath, metaDir, keyDir]
      have e2 : datasetsDir ++ [.dinfo N] ≠ resultsPath m.key := by simp [datasetsDir, resultsPath, metaDir, keyDir, dbRoot]
      have e3 : datasetsDir ++ [.csv N] ≠ resultsPath m.key := by simp [datasetsDir, resultsPath, metaDir, keyDir, dbRoot]
      have e4 : hashDir m.dh ++ [.csv N] ≠ resultsPath m.key := by simp [hashDir, datasetsDir, resultsPath, metaDir, keyDir, dbRoot]
      simp only [if_neg e1, if_neg e2, if_neg e3, if_neg e4]
      rw [hmkget, hgB, hR hres]
      all_goals simp [resultsPath, metaDir, keyDir, lockPath, pendingPath, datasetsDir, hashDir, dbRoot]
      all_goals (intro h; exact absurd h hk)
    | some r => simp [applyAll, apply, get_cons_self]
  -- files the reader looks at
  have hbase : ∀ p, p ≠ keyDir m.key → p ≠ metaDir m.key → p ≠ lockPath → p ≠ pendingPath m.key →
      p ≠ datasetsDir → p ≠ datasetsDir ++ [.s ".hash"] → p ≠ hashDir m.dh →
      get (applyAll fsB mk) p = get fs p := by
    intro p a1 a2 a3 a4 a5 a6 a7
    rw [hmkget p a5 a6 a7, hgB p a1 a2 a3 a4]
  have hmod : ∀ e, get fsF (modelPath m.key e) =
      if m.ext = e then some (.file (.full (.model m.code (some N)))) else get fs (modelPath m.key e) := by
    intro e
    rw [hfin _ (by simp [modelPath, pendingPath, metaDir, keyDir]) (by simp [modelPath, resultsPath, metaDir, keyDir]), hS]
    by_cases he : m.ext = e
    · simp [he]
    · have c1 : ¬ modelPath m.key m.ext = modelPath m.key e := by simp [modelPath, he]
      have c2 : ¬ datasetsDir ++ [Seg.dinfo N] = modelPath m.key e := by simp [modelPath, datasetsDir, keyDir, dbRoot]
      have c3 : ¬ datasetsDir ++ [Seg.csv N] = modelPath m.key e := by simp [modelPath, datasetsDir, keyDir, dbRoot]
      have c4 : ¬ hashDir m.dh ++ [Seg.csv N] = modelPath m.key e := by simp [modelPath, hashDir, datasetsDir, keyDir, dbRoot]
      simp only [if_neg c1, if_neg c2, if_neg c3, if_neg c4, if_neg he]
      apply hbase <;> simp [modelPath, keyDir, metaDir, lockPath, pendingPath, datasetsDir, hashDir, dbRoot]
  have hcsv : get fsF (datasetsDir ++ [.csv N]) = some (.file (.full (.csv m.dh))) := by
    rw [hfin _ (by simp [datasetsDir, pendingPath, metaDir, keyDir, dbRoot]) (by simp [datasetsDir, resultsPath, metaDir, keyDir, dbRoot]), hS]
    have c1 : ¬ modelPath m.key m.ext = datasetsDir ++ [Seg.csv N] := by simp [modelPath, datasetsDir, keyDir, dbRoot]
    have c2 : ¬ datasetsDir ++ [Seg.dinfo N] = datasetsDir ++ [Seg.csv N] := by simp
    simp [if_neg c1, if_neg c2]
  have hdi : get fsF (datasetsDir ++ [.dinfo N]) = some (.file (.full (.dinfo m.di N))) := by
    rw [hfin _ (by simp [datasetsDir, pendingPath, metaDir, keyDir, dbRoot]) (by simp [datasetsDir, resultsPath, metaDir, keyDir, dbRoot]), hS]
    have c1 : ¬ modelPath m.key m.ext = datasetsDir ++ [Seg.dinfo N] := by simp [modelPath, datasetsDir, keyDir, dbRoot]
    simp [if_neg c1]
  have hcsv' : read fsF (datasetsDir ++ [.csv N]) = some (.full (.csv m.dh)) := by simp only [read, hcsv]
  have hdi' : read fsF (datasetsDir ++ [.dinfo N]) = some (.full (.dinfo m.di N)) := by simp only [read, hdi]
  simp only [hPF, Bool.false_eq_true, if_false]
  rcases hext with he | he
  · -- model.ctl
    have e1 : isFile fsF (modelPath m.key "mod") = false := by
      have hne : ¬ m.ext = "mod" := by rw [he]; decide
      simp only [isFile, hmod "mod", if_neg hne]
      exact hM1
    have e2 : isFile fsF (modelPath m.key "ctl") = true := by simp [isFile, hmod "ctl", he]
    have e3 : read fsF (modelPath m.key "ctl") = some (.full (.model m.code (some N))) := by
      simp [read, hmod "ctl", he]
    simp only [readEntry, findModel, e1, e2, Bool.false_eq_true, if_false, if_true, e3, hcsv', hdi', parseDinfo]
    rw [hRF]; cases hr : m.res <;> simp [MDesc.entry, hr, Except.map]
  · -- model.mod
    have e2 : isFile fsF (modelPath m.key "mod") = true := by simp [isFile, hmod "mod", he]
    have e3 : read fsF (modelPath m.key "mod") = some (.full (.model m.code (some N))) := by
      simp [read, hmod "mod", he]
    simp only [readEntry, findModel, e2, if_true, e3, hcsv', hdi', parseDinfo]
    rw [hRF]; cases hr : m.res <;> simp [MDesc.entry, hr, Except.map]

end Pharmpy.C16

namespace Pharmpy.C16

/-! ### The intended repair of `store_model` (`storeModelR`, DB.lean)

  An index entry is used only when its datainfo can be read, and a new dataset
  is numbered above every number in use below `.datasets` (index entries
  included).  The full statements hold for it. -/

/-- **Later stores succeed** (full statement, repaired algorithm): on every
    file system — hence after every crash — every store of a key that is not
    itself left pending succeeds. -/
theorem later_stores_succeed_repaired (m : MDesc) (fs : FS)
    (hP : pexists fs (pendingPath m.key) = false) : (dbStoreEntryR m fs).2 = .ok () := by
  have hp : pexists (applyAll fs (openKey m.key fs)) (pendingPath m.key) = false := by
    simp only [pexists, get_openKey_of (pending_not_openKey m.key m.key)] at hP ⊢; exact hP
  simp only [dbStoreEntryR, txn, hp, Bool.false_eq_true, if_false]
  have := storeEntryBodyR_ok m (apply (applyAll fs (openKey m.key fs)) (Op.create (pendingPath m.key)))
  generalize storeEntryBodyR m (apply (applyAll fs (openKey m.key fs)) (Op.create (pendingPath m.key))) = br at this
  obtain ⟨b, r⟩ := br
  simp only at this; subst this
  rfl

/-- The repaired store is atomic for its key … -/
theorem repaired_atomic (m : MDesc) (fs : FS) (j : Nat) (n : Option Nat) :
    (∀ p, p ≠ keyDir m.key → p ≠ metaDir m.key → p ≠ lockPath →
        get (crash fs (dbStoreEntryR m fs).1 j n) p = get fs p)
    ∨ pexists (crash fs (dbStoreEntryR m fs).1 j n) (pendingPath m.key) = true
    ∨ ((dbStoreEntryR m fs).2 = .ok () ∧ crash fs (dbStoreEntryR m fs).1 j n = applyAll fs (dbStoreEntryR m fs).1) :=
  txn_atomic m.key (storeEntryBodyR m)
    (fun _ _ ho => by
      obtain ⟨N, _, hf⟩ := storeEntryBodyR_paths ho
      exact footN_ne_pending m.key hf) fs j n

/-- … and leaves entries committed under other keys intact, wherever it is
    interrupted. -/
theorem earlier_commits_intact_repaired (m : MDesc) (fs : FS) (j : Nat) (n : Option Nat) (k : String) (e : Entry)
    (hk : k ≠ m.key) (hk2 : k ≠ ".datasets")
    (h : (dbRetrieve k fs).2 = .ok e) :
    (dbRetrieve k (crash fs (dbStoreEntryR m fs).1 j n)).2 = .ok e :=
  earlier_commits_intact_txn m.key m.ext m.dh (storeEntryBodyR m)
    (fun _ _ ho => storeEntryBodyR_paths ho) fs j n k e hk hk2 h

/-- On the crash states that defeat the code (F5: after `h_dir.mkdir()`, after
    the index `touch`, after a torn datainfo) the repaired store of a model
    sharing the dataset succeeds and is retrieved faithfully; and in the
    wrong-dataset scenario the model keeps its own dataset. -/
theorem repaired_witness :
    (∀ jn ∈ [(16, none), (17, none), (19, some 3), (20, some 5)],
      let fs := wCrash jn.1 jn.2
      (dbStoreEntryR wM2 fs).2 = .ok () ∧
      (dbRetrieve "K2" (applyAll fs (dbStoreEntryR wM2 fs).1)).2 = .ok wM2.entry) ∧
    (let fs0 := wCrash 17 none
     let fs1 := applyAll fs0 (dbStoreEntryR wM3 fs0).1
     let fs2 := applyAll fs1 (dbStoreEntryR wM2 fs1).1
     (dbRetrieve "K2" fs2).2 = .ok wM2.entry ∧ (dbRetrieve "K3" fs2).2 = .ok wM3.entry) := by
  decide

end Pharmpy.C16

namespace Pharmpy.C16

/-! ### Exception faults (operation `j` raises, the code's cleanup blocks run)

  `transaction` removes PENDING after the `yield`, outside any `finally`, and
  releasing the locks touches no file: the code as it is runs no cleanup
  operation (`unlinkInFinally = false`), so the state after an exception
  fault is the state after a crash at the same point, and the marker keeps
  protecting the key. -/

/-- For the code as it is an exception fault leaves exactly the crash state. -/
theorem exception_fault_eq_crash (c : Call) (fs : FS) (j : Nat) (n : Option Nat) :
    excFault fs c j n = crash fs (c.ops fs) j n := by
  have : c.cleanup fs j = [] := by
    cases c <;> simp [Call.cleanup, Call.cleanupWith, unlinkInFinally, txnCleanup_false]
  simp [excFault, excFaultWith, unlinkInFinally] at *
  cases c <;> simp [Call.cleanupWith, txnCleanup_false, applyAll]

/-- Between the creation of the marker and its removal the marker is present,
    whatever the crash / fault point and torn write (any body that does not
    address the marker). -/
theorem txn_marker_present (k : String) (body : Prog Unit)
    (havoid : ∀ fs o, o ∈ (body fs).1 → o.path ≠ pendingPath k) (fs : FS) (j : Nat) (n : Option Nat)
    (hP : pexists (applyAll fs (openKey k fs)) (pendingPath k) = false)
    (h1 : (openKey k fs).length < j) (h2 : j < (txn k body fs).1.length) :
    pexists (crash fs (txn k body fs).1 j n) (pendingPath k) = true := by
  unfold txn at h2 ⊢
  simp only [hP, Bool.false_eq_true, if_false] at h2 ⊢
  generalize hb : body (apply (applyAll fs (openKey k fs)) (Op.create (pendingPath k))) = br at h2 ⊢
  obtain ⟨b, r⟩ := br
  have hbav : ∀ o ∈ b, o.path ≠ pendingPath k := fun o ho => havoid _ o (by rw [hb]; exact ho)
  have hfs2 : get (applyAll (applyAll fs (openKey k fs)) [Op.create (pendingPath k)]) (pendingPath k)
      = some (.file (.text [])) := by
    simp [applyAll, apply, get_cons_self]
  have mid : ∀ j, (openKey k fs).length < j →
      pexists (crash fs (openKey k fs ++ (Op.create (pendingPath k) :: b)) j n) (pendingPath k) = true := by
    intro j hj
    rw [crash_append_right (Nat.le_of_lt hj)]
    have e1 : Op.create (pendingPath k) :: b = [Op.create (pendingPath k)] ++ b := rfl
    rw [e1, crash_append_right (by simp; omega)]
    simp only [pexists, get_crash_ne _ n hbav, hfs2, Option.isSome_some]
  cases r with
  | error e => exact mid j h1
  | ok u =>
    simp only [List.length_append, List.length_cons, List.length_nil] at h2
    simp only
    rw [show openKey k fs ++ Op.create (pendingPath k) :: b ++ [Op.unlink (pendingPath k)]
          = (openKey k fs ++ Op.create (pendingPath k) :: b) ++ [Op.unlink (pendingPath k)] by simp]
    rcases Nat.lt_or_ge j ((openKey k fs).length + 1 + b.length) with h4 | h4
    · rw [crash_append_left (by simp; omega)]
      exact mid j h1
    · rw [crash_append_right (by simp; omega)]
      have hz : j - (openKey k fs ++ Op.create (pendingPath k) :: b).length = 0 := by simp; omega
      rw [hz]
      have : ∀ fsx, crash fsx [Op.unlink (pendingPath k)] 0 n = fsx := by
        intro fsx; unfold crash; cases n <;> simp [applyAll, Op.tear]
      rw [this, ← crash_of_length_le (k := j) (n := n) (by simp; omega)]
      exact mid j h1

/-- **The marker stays after an exception inside the transaction body**: if
    operation `j` of a store raises after PENDING was created (and `j` is an
    operation of the call: the removal of PENDING at the latest), PENDING is
    present afterwards and every reader is refused — nothing partial is
    visible. -/
theorem pending_stays_after_exception (m : MDesc) (fs : FS) (j : Nat) (n : Option Nat)
    (hP : pexists fs (pendingPath m.key) = false)
    (h1 : (openKey m.key fs).length < j) (h2 : j < (dbStoreEntry m fs).1.length) :
    pexists (excFault fs (.dbStoreEntry m) j n) (pendingPath m.key) = true ∧
    (dbRetrieve m.key (excFault fs (.dbStoreEntry m) j n)).2 = .error .pending := by
  rw [exception_fault_eq_crash, ops_dbStoreEntry]
  have hp1 : pexists (applyAll fs (openKey m.key fs)) (pendingPath m.key) = false := by
    simp only [pexists, get_openKey_of (pending_not_openKey m.key m.key)] at hP ⊢; exact hP
  have key := txn_marker_present m.key (storeEntryBody m) (storeEntryBody_avoids_pending m m.key) fs j n hp1 h1 h2
  exact ⟨key, by rw [dbRetrieve_result]; simp only [dbStoreEntry]; simp [key]⟩

/-- **visible ⊆ committed after an exception fault**: whatever a reader
    obtains for the key of a `store_model_entry` whose operation `j` raised
    (torn or not) is what it obtained before the call or obtains after the
    completed call. -/
theorem visible_subset_committed_exception (m : MDesc) (fs : FS) (j : Nat) (n : Option Nat) (e : Entry)
    (h : (dbRetrieve m.key (excFault fs (.dbStoreEntry m) j n)).2 = .ok e) :
    (dbRetrieve m.key fs).2 = .ok e ∨
    ((dbStoreEntry m fs).2 = .ok () ∧ (dbRetrieve m.key (applyAll fs (dbStoreEntry m fs).1)).2 = .ok e) := by
  rw [exception_fault_eq_crash, ops_dbStoreEntry] at h
  exact visible_subset_committed m fs j n e h

/-- Entries committed under other keys stay intact after an exception fault. -/
theorem earlier_commits_intact_exception (m : MDesc) (fs : FS) (j : Nat) (n : Option Nat) (k : String) (e : Entry)
    (hk : k ≠ m.key) (hk2 : k ≠ ".datasets") (h : (dbRetrieve k fs).2 = .ok e) :
    (dbRetrieve k (excFault fs (.dbStoreEntry m) j n)).2 = .ok e := by
  rw [exception_fault_eq_crash, ops_dbStoreEntry]
  exact earlier_commits_intact m fs j n k e hk hk2 h

/-- With a `try/finally` around the `yield` (marker removed although the body
    raised) the statement is FALSE: an I/O error while creating `results.json`
    leaves the model file without results and without marker, and a reader
    obtains an entry that was never committed — neither the state before the
    call nor the state after its completion. -/
theorem exception_finally_witness :
    let fs := runW [] [.init]
    let m : MDesc := { wM1 with res := some "R" }
    (dbRetrieve "K1" fs).2 = .error .notFound ∧
    (dbRetrieve "K1" (applyAll fs (dbStoreEntry m fs).1)).2 = .ok m.entry ∧
    (dbRetrieve "K1" (excFaultWith true fs (.dbStoreEntry m) 14 none)).2
      = .ok { code := "M1", dataset := some "H1", di := some "D1", res := none } ∧
    (dbRetrieve "K1" (excFault fs (.dbStoreEntry m) 14 none)).2 = .error .pending := by
  decide

end Pharmpy.C16

namespace Pharmpy.C16

/-! ### The log of a stored model entry (through results.json) -/

/-- **The log of a stored entry comes back in order and verbatim**, for every
    log of every length and every message text: `Log.from_dict` applied to what
    `read_results` rebuilds from the JSON object `ModelfitResults.to_json`
    writes for `Log.to_dict` (integer positions turned into string keys) is the
    log itself. -/
theorem result_log_roundtrip (l : List LogEntry) : decodeLog (encodeLog l) = some l := by
  have hnodup : ((encodeLog l).map (·.1)).Nodup := by
    simp only [encodeLog, List.map_append, List.map_map, List.map_cons, List.map_nil]
    rw [List.nodup_append]
    refine ⟨keys_logToDict_nodup 0 l, by simp, ?_⟩
    intro a ha b hb
    simp only [List.mem_map, Function.comp] at ha
    obtain ⟨p, _, rfl⟩ := ha
    simp only [List.mem_cons, List.not_mem_nil, or_false] at hb
    subst hb
    exact toString_nat_ne_class p.1
  have hd : dictOfPairs (encodeLog l) = encodeLog l := by
    have := dictOfPairs_nodup (encodeLog l) [] (by simpa using hnodup)
    simpa [dictOfPairs] using this
  unfold decodeLog
  simp only [hd]
  have hany : (encodeLog l).any (fun p => p.1 = "__class__" ∧ p.2 = JVal.str "Log") = true := by
    simp [encodeLog]
  simp only [hany, if_true]
  have hdel : dictDel (encodeLog l) "__class__"
      = (logToDict 0 l).map (fun p => (toString p.1, JVal.entry p.2)) := by
    simp only [dictDel, encodeLog, List.filter_append]
    have h1 : ((logToDict 0 l).map (fun p => (toString p.1, JVal.entry p.2))).filter (fun p => p.1 ≠ "__class__")
        = (logToDict 0 l).map (fun p => (toString p.1, JVal.entry p.2)) := by
      apply List.filter_eq_self.mpr
      intro p hp
      rw [List.mem_map] at hp
      obtain ⟨q, _, rfl⟩ := hp
      simpa using toString_nat_ne_class q.1
    rw [h1]; simp
  rw [hdel, logFromDict_entries, logToDict_values]

/-- `result_log_order`: the k-th retrieved message is the k-th stored one. -/
theorem result_log_order (l : List LogEntry) (k : Nat) :
    (decodeLog (encodeLog l)).map (fun r => r[k]?) = some l[k]? := by
  rw [result_log_roundtrip]; rfl

/-- The round trip depends on reading the dict in insertion order: ordering the
    (string!) keys with `sorted` permutes any log of more than ten messages. -/
theorem result_log_sorted_keys_witness :
    let l : List LogEntry := (List.range 12).map fun i => { category := "WARNING", message := toString i, time := "t" }
    (logFromDictSorted (dictDel (dictOfPairs (encodeLog l)) "__class__")).map (·.map (·.message))
      = some ["0", "1", "10", "11", "2", "3", "4", "5", "6", "7", "8", "9"] := by
  decide

end Pharmpy.C16

namespace Pharmpy.C16

/-! ### The name link of `Context._store_model`

  Context-level stores are NOT atomic as a whole (the annotation rewrite and
  the refusal to re-bind a name are known defects), but one part holds and
  carries "no reader obtains a partially written entry as if complete" at the
  name level: `store_key` runs after the `with db.transaction` block, so a
  name is linked only once its key has committed. -/

/-- **A name linked by an interrupted `_store_model` points to a committed
    key**: for every file system, crash point and torn write, if the call
    changed what is at `models/<name>`, then its transaction had completed —
    PENDING of the key is absent and a reader of the key obtains exactly what it
    obtains after the completed transaction. -/
theorem linked_name_committed (name descr : String) (m : MDesc) (fs : FS) (j : Nat) (n : Option Nat)
    (hlink : get (crash fs (ctxStore name descr m fs).1 j n) (namePath name) ≠ get fs (namePath name)) :
    (dbStoreEntry m fs).2 = .ok () ∧
    pexists (crash fs (ctxStore name descr m fs).1 j n) (pendingPath m.key) = false ∧
    (dbRetrieve m.key (crash fs (ctxStore name descr m fs).1 j n)).2
      = (dbRetrieve m.key (applyAll fs (dbStoreEntry m fs).1)).2 := by
  -- operations of the transaction never address the name link
  have hT : ∀ o ∈ (dbStoreEntry m fs).1, o.path ≠ namePath name := by
    intro o ho
    have hfoot : o.path = keyDir m.key ∨ o.path = metaDir m.key ∨ o.path = lockPath ∨ o.path = pendingPath m.key ∨
        ∃ fs', BodyFoot m fs' o.path := by
      simp only [dbStoreEntry, txn] at ho
      split at ho
      · rcases (openKey_paths ho).1 with e | e | e <;> simp [e]
      · generalize hb : storeEntryBody m (apply (applyAll fs (openKey m.key fs)) (Op.create (pendingPath m.key))) = br at ho
        have hbody : ∀ o ∈ br.1, ∃ fs', BodyFoot m fs' o.path :=
          fun o ho => ⟨_, storeEntryBody_paths (by rw [hb]; exact ho)⟩
        obtain ⟨b, r⟩ := br
        have : o ∈ openKey m.key fs ∨ o = Op.create (pendingPath m.key) ∨ o ∈ b ∨ o = Op.unlink (pendingPath m.key) := by
          cases r with
          | error e =>
            simp only [List.mem_append, List.mem_cons] at ho
            rcases ho with ho | ho | ho
            · exact Or.inl ho
            · exact Or.inr (Or.inl ho)
            · exact Or.inr (Or.inr (Or.inl ho))
          | ok u =>
            simp only [List.mem_append, List.mem_cons, List.not_mem_nil, or_false] at ho
            rcases ho with (ho | ho | ho) | ho
            · exact Or.inl ho
            · exact Or.inr (Or.inl ho)
            · exact Or.inr (Or.inr (Or.inl ho))
            · exact Or.inr (Or.inr (Or.inr ho))
        rcases this with ho | rfl | ho | rfl
        · rcases (openKey_paths ho).1 with e | e | e <;> simp [e]
        · simp [Op.path]
        · exact Or.inr (Or.inr (Or.inr (Or.inr (hbody o ho))))
        · simp [Op.path]
    rcases hfoot with e | e | e | e | ⟨fs', e⟩
    · rw [e]; simp [keyDir, namePath, modelsDir, ctxRoot, dbRoot]
    · rw [e]; simp [metaDir, keyDir, namePath, modelsDir, ctxRoot, dbRoot]
    · rw [e]; simp [lockPath, namePath, modelsDir, ctxRoot, dbRoot]
    · rw [e]; simp [pendingPath, metaDir, keyDir, namePath, modelsDir, ctxRoot, dbRoot]
    · rcases e with e | e | e | e | e | e | e | e <;> rw [e] <;>
        simp [modelPath, resultsPath, metaDir, keyDir, datasetsDir, hashDir, namePath, modelsDir, ctxRoot, dbRoot]
  have hops : (ctxStore name descr m fs).1
      = ((dbStoreEntry m).andThen (fun _ => (storeKey name m.key).andThen fun _ => storeAnnotation name descr) fs).1 := rfl
  rw [hops, andThen_fst] at hlink ⊢
  cases hr : (dbStoreEntry m fs).2 with
  | error e =>
    exfalso
    rw [hr] at hlink
    exact hlink (get_crash_ne j n hT)
  | ok u =>
    rw [hr] at hlink
    simp only at hlink ⊢
    generalize hT1 : (dbStoreEntry m fs).1 = t at hlink hT ⊢
    generalize hrest : (((storeKey name m.key).andThen fun _ => storeAnnotation name descr) (applyAll fs t)).1 = rest
      at hlink ⊢
    have hR : ∀ o ∈ rest, o.path = namePath name ∨ o.path = annotationsLock ∨ o.path = annotationsPath :=
      fun o ho => ctxTail_paths (by rw [hrest]; exact ho)
    refine ⟨trivial, ?_⟩
    rcases Nat.lt_or_ge j t.length with hj | hj
    · exfalso
      rw [crash_append_left hj] at hlink
      exact hlink (get_crash_ne j n hT)
    · rw [crash_append_right hj]
      have hnoP : pexists (applyAll fs t) (pendingPath m.key) = false := by
        have := txn_ok_no_pending m.key (storeEntryBody m) fs hr
        have e : (txn m.key (storeEntryBody m) fs).1 = t := hT1
        rwa [e] at this
      have hget : ∀ p, p ≠ namePath name → p ≠ annotationsLock → p ≠ annotationsPath →
          get (crash (applyAll fs t) rest (j - t.length) n) p = get (applyAll fs t) p := by
        intro p a1 a2 a3
        apply get_crash_ne
        intro o ho hop
        rcases hR o ho with e | e | e
        · exact a1 (hop ▸ e)
        · exact a2 (hop ▸ e)
        · exact a3 (hop ▸ e)
      have hP : pexists (crash (applyAll fs t) rest (j - t.length) n) (pendingPath m.key) = false := by
        unfold pexists
        rw [hget]
        · exact hnoP
        all_goals simp [pendingPath, metaDir, keyDir, namePath, modelsDir, annotationsLock, annotationsPath, ctxRoot, dbRoot]
      refine ⟨hP, ?_⟩
      rw [dbRetrieve_result, dbRetrieve_result, hP, hnoP]
      simp only [Bool.false_eq_true, if_false]
      apply readEntry_congr
      intro p hp
      apply hget
      all_goals
        rcases hp with rfl | rfl | rfl | ⟨q, rfl⟩ | ⟨q, rfl⟩ <;>
          simp [modelPath, resultsPath, metaDir, keyDir, datasetsDir, namePath, modelsDir, annotationsLock,
            annotationsPath, ctxRoot, dbRoot]

/-- What the theorem excludes: with `store_key` inside the transaction block
    (`ctxStoreEarlyLink`) a crash between the link and the removal of PENDING
    leaves the name bound to a key that never committed; a later store of
    another model under that name succeeds, but the name still resolves to the
    pending key. -/
theorem early_link_witness :
    let fs0 := runW [] [.init]
    let fs := crash fs0 (ctxStoreEarlyLink "mA" "Model A" wM1 fs0).1 15 none
    resolveName fs "mA" = some "K1" ∧ pexists fs (pendingPath "K1") = true ∧
    (ctxStore "mA" "Model E" wM3 fs).2 = .ok () ∧
    (ctxRetrieve "mA" (applyAll fs (ctxStore "mA" "Model E" wM3 fs).1)).2 = .error .pending ∧
    -- the code as it is, same crash point: the name is not linked yet
    resolveName (crash fs0 (ctxStore "mA" "Model A" wM1 fs0).1 15 none) "mA" = none := by
  decide

end Pharmpy.C16

namespace Pharmpy.C16

/-! ### The key must identify the entry

  The database protocol is faithful only for entries with different keys: a
  store under a key whose model file exists writes nothing (`store_model`'s
  early return), so `ModelHash` has to separate models that differ in their
  data values, code or datainfo (hashing itself: C12). -/

/-- `store_model` of any model whose key already has a model file issues no
    operation at all — whatever its dataset. -/
theorem storeModel_early_return (m : MDesc) (fs : FS) (h : isFile fs (modelPath m.key m.ext) = true) :
    storeModel m fs = ([], .ok ()) := by
  simp [storeModel, h]

/-- Hence two entries that differ only in their data but share a key are not
    both retrievable: the second store "succeeds" and the reader obtains the
    first entry's dataset (while with different keys both come back, see the
    non-vacuity example above). -/
theorem key_collision_witness :
    let mA : MDesc := wM1
    let mC : MDesc := { wM1 with dh := "H2" }
    let fs1 := runW [] [.init, .dbStoreEntry mA]
    (dbStoreEntry mC fs1).2 = .ok () ∧
    (dbRetrieve "K1" (applyAll fs1 (dbStoreEntry mC fs1).1)).2 = .ok mA.entry ∧
    mA.entry ≠ mC.entry := by
  decide

end Pharmpy.C16
