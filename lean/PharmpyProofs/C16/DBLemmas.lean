import PharmpyProofs.C16.Lemmas
/-
  C16 — lemmas about the database programs: which paths they address, what a
  reader depends on.
-/
namespace Pharmpy.C16

/-- Paths `transaction`/`snapshot` address before looking at PENDING. -/
theorem openKey_paths {k : String} {fs : FS} {o : Op} (h : o ∈ openKey k fs) :
    (o.path = keyDir k ∨ o.path = metaDir k ∨ o.path = lockPath) ∧ ∀ n, o.tear n = none := by
  simp only [openKey, mkdirP, ancestors, touch, List.mem_append, List.mem_map, List.mem_filter] at h
  rcases h with ⟨p, ⟨hp, _⟩, rfl⟩ | h
  · simp only [List.mem_cons, List.not_mem_nil, or_false] at hp
    rcases hp with rfl | rfl
    · exact ⟨Or.inl rfl, fun _ => rfl⟩
    · exact ⟨Or.inr (Or.inl (by simp [metaDir, keyDir, Op.path])), fun _ => rfl⟩
  · split at h
    · simp at h
    · simp only [List.mem_cons, List.not_mem_nil, or_false] at h
      subst h; exact ⟨Or.inr (Or.inr rfl), fun _ => rfl⟩

/-- The paths a reader of key `k` looks at. -/
def ReadSet (k : String) (p : Path) : Prop :=
  p = modelPath k "mod" ∨ p = modelPath k "ctl" ∨ p = resultsPath k ∨
  (∃ n, p = datasetsDir ++ [.csv n]) ∨ (∃ n, p = datasetsDir ++ [.dinfo n])

theorem readEntry_congr {k : String} {fs fs' : FS} (h : ∀ p, ReadSet k p → get fs' p = get fs p) :
    readEntry k fs' = readEntry k fs := by
  have h1 := h _ (Or.inl rfl)
  have h2 := h _ (Or.inr (Or.inl rfl))
  have h3 := h _ (Or.inr (Or.inr (Or.inl rfl)))
  have h4 : ∀ n, get fs' (datasetsDir ++ [.csv n]) = get fs (datasetsDir ++ [.csv n]) :=
    fun n => h _ (Or.inr (Or.inr (Or.inr (Or.inl ⟨n, rfl⟩))))
  have h5 : ∀ n, get fs' (datasetsDir ++ [.dinfo n]) = get fs (datasetsDir ++ [.dinfo n]) :=
    fun n => h _ (Or.inr (Or.inr (Or.inr (Or.inr ⟨n, rfl⟩))))
  have hf : findModel k fs' = findModel k fs := by
    unfold findModel isFile; rw [h1, h2]
  unfold readEntry
  rw [hf]
  cases hm : findModel k fs with
  | none => rfl
  | some p =>
    have hp : get fs' p = get fs p := by
      simp only [findModel] at hm
      split at hm
      · cases hm; exact h1
      · split at hm
        · cases hm; exact h2
        · cases hm
    simp only [read, hp, h3, h4, h5]

theorem readSet_not_openKey {k k' : String} {p : Path} (hp : ReadSet k p) :
    p ≠ keyDir k' ∧ p ≠ metaDir k' ∧ p ≠ lockPath ∧ p ≠ pendingPath k' := by
  rcases hp with rfl | rfl | rfl | ⟨n, rfl⟩ | ⟨n, rfl⟩ <;>
    simp [modelPath, resultsPath, keyDir, metaDir, lockPath, pendingPath, datasetsDir, dbRoot]

theorem pending_not_openKey (k k' : String) :
    pendingPath k ≠ keyDir k' ∧ pendingPath k ≠ metaDir k' ∧ pendingPath k ≠ lockPath := by
  simp [keyDir, metaDir, lockPath, pendingPath, dbRoot]

/-- `snapshot`'s own directory creation does not change what it then reads. -/
theorem get_openKey_of {k : String} {fs : FS} {p : Path}
    (h : p ≠ keyDir k ∧ p ≠ metaDir k ∧ p ≠ lockPath) :
    get (applyAll fs (openKey k fs)) p = get fs p := by
  apply get_applyAll_ne
  intro o ho
  rcases (openKey_paths ho).1 with e | e | e <;> rw [e]
  · exact fun h' => h.1 h'.symm
  · exact fun h' => h.2.1 h'.symm
  · exact fun h' => h.2.2 h'.symm

/-- **What a reader gets**: refused iff PENDING is there, otherwise the entry
    read from the files as they are. -/
theorem dbRetrieve_result (k : String) (fs : FS) :
    (dbRetrieve k fs).2 = if pexists fs (pendingPath k) then .error .pending else readEntry k fs := by
  have hp : pexists (applyAll fs (openKey k fs)) (pendingPath k) = pexists fs (pendingPath k) := by
    simp only [pexists, get_openKey_of (pending_not_openKey k k)]
  have hr : readEntry k (applyAll fs (openKey k fs)) = readEntry k fs :=
    readEntry_congr (fun p hp => by
      have hh := readSet_not_openKey (k' := k) hp
      exact get_openKey_of ⟨hh.1, hh.2.1, hh.2.2.1⟩)
  simp only [dbRetrieve, snapshot, hp]
  split <;> simp [hr]

end Pharmpy.C16

namespace Pharmpy.C16

theorem foldl_max_ge_acc (l : List Seg) (acc : Nat) :
    acc ≤ l.foldl (fun acc x => match x with | .csv n => max acc n | _ => acc) acc := by
  induction l generalizing acc with
  | nil => exact Nat.le_refl _
  | cons x xs ih =>
    simp only [List.foldl_cons]
    cases x <;> first | exact ih _ | exact Nat.le_trans (Nat.le_max_left _ _) (ih _)

theorem foldl_max_ge_mem (l : List Seg) (acc n : Nat) (h : Seg.csv n ∈ l) :
    n ≤ l.foldl (fun acc x => match x with | .csv n => max acc n | _ => acc) acc := by
  induction l generalizing acc with
  | nil => cases h
  | cons x xs ih =>
    simp only [List.foldl_cons]
    rcases List.mem_cons.mp h with rfl | h'
    · exact Nat.le_trans (Nat.le_max_right _ _) (foldl_max_ge_acc _ _)
    · exact ih _ h'

theorem mem_of_get_some {fs : FS} {p : Path} {n : Node} (h : get fs p = some n) : (p, n) ∈ fs := by
  induction fs with
  | nil => cases h
  | cons x xs ih =>
    obtain ⟨a, b⟩ := x
    by_cases ha : a = p
    · subst ha; rw [get_cons_self] at h; cases h; exact List.mem_cons_self
    · rw [get_cons_ne ha] at h; exact List.mem_cons_of_mem _ (ih h)

/-- A dataset file that exists has a number not above `highest`: the number
    `store_model` picks for a new dataset is fresh. -/
theorem le_highest {fs : FS} {n : Nat} (h : pexists fs (datasetsDir ++ [.csv n]) = true) : n ≤ highest fs := by
  unfold pexists at h
  cases hg : get fs (datasetsDir ++ [.csv n]) with
  | none => simp [hg] at h
  | some nd =>
    have hm := mem_of_get_some hg
    apply foldl_max_ge_mem
    simp only [children, List.mem_filterMap]
    exact ⟨_, hm, by simp [datasetsDir, dbRoot]⟩

/-- Paths the body of `store_model_entry` may address, run on `fs`. -/
def BodyFoot (m : MDesc) (fs : FS) (p : Path) : Prop :=
  p = modelPath m.key m.ext ∨ p = resultsPath m.key ∨ p = datasetsDir ∨ p = datasetsDir ++ [.s ".hash"] ∨
  p = hashDir m.dh ∨ p = hashDir m.dh ++ [.csv (highest fs + 1)] ∨
  p = datasetsDir ++ [.csv (highest fs + 1)] ∨ p = datasetsDir ++ [.dinfo (highest fs + 1)]

/-- Footprint of a transaction body on key `key` that stores a model file
    `model.<ext>`, results, metadata, and at most one new dataset numbered `N`
    under the index of dataset hash `dh`. -/
def FootN (key ext dh : String) (N : Nat) (p : Path) : Prop :=
  p = modelPath key ext ∨ p = resultsPath key ∨ p = datasetsDir ∨ p = datasetsDir ++ [.s ".hash"] ∨
  p = hashDir dh ∨ p = hashDir dh ++ [.csv N] ∨
  p = datasetsDir ++ [.csv N] ∨ p = datasetsDir ++ [.dinfo N] ∨ p = metadataPath key

theorem BodyFoot.footN {m : MDesc} {fs : FS} {p : Path} (h : BodyFoot m fs p) :
    ∃ N, highest fs < N ∧ FootN m.key m.ext m.dh N p := by
  refine ⟨highest fs + 1, Nat.lt_succ_self _, ?_⟩
  rcases h with h | h | h | h | h | h | h | h
  · exact Or.inl h
  · exact Or.inr (Or.inl h)
  · exact Or.inr (Or.inr (Or.inl h))
  · exact Or.inr (Or.inr (Or.inr (Or.inl h)))
  · exact Or.inr (Or.inr (Or.inr (Or.inr (Or.inl h))))
  · exact Or.inr (Or.inr (Or.inr (Or.inr (Or.inr (Or.inl h)))))
  · exact Or.inr (Or.inr (Or.inr (Or.inr (Or.inr (Or.inr (Or.inl h))))))
  · exact Or.inr (Or.inr (Or.inr (Or.inr (Or.inr (Or.inr (Or.inr (Or.inl h)))))))

theorem storeShared_ops (m : MDesc) (fs : FS) :
    (storeShared m fs).1 = [] ∨ ∃ r, (storeShared m fs).1 = writeModel m r := by
  unfold storeShared
  split
  · exact Or.inl rfl
  · split
    · split
      · exact Or.inl rfl
      · exact Or.inr ⟨_, rfl⟩
    · exact Or.inl rfl

theorem storeModel_paths {m : MDesc} {fs : FS} {o : Op} (h : o ∈ (storeModel m fs).1) : BodyFoot m fs o.path := by
  unfold storeModel at h
  split at h
  · simp at h
  · split at h
    · rcases storeShared_ops m fs with e | ⟨r, e⟩ <;> rw [e] at h
      · simp at h
      · simp only [writeModel, List.mem_cons, List.not_mem_nil, or_false] at h
        rcases h with rfl | rfl <;> exact Or.inl rfl
    · simp only [storeFresh, mkdirP, ancestors, writeModel, List.mem_append, List.mem_map, List.mem_filter,
        List.mem_cons, List.not_mem_nil, or_false] at h
      rcases h with (⟨p, ⟨hp, _⟩, rfl⟩ | h) | h
      · rcases hp with rfl | rfl | rfl
        · exact Or.inr (Or.inr (Or.inl rfl))
        · exact Or.inr (Or.inr (Or.inr (Or.inl (by simp [Op.path, datasetsDir]))))
        · exact Or.inr (Or.inr (Or.inr (Or.inr (Or.inl (by simp [Op.path, hashDir, datasetsDir])))))
      · rcases h with rfl | rfl | rfl | rfl | rfl
        · exact Or.inr (Or.inr (Or.inr (Or.inr (Or.inr (Or.inl rfl)))))
        · exact Or.inr (Or.inr (Or.inr (Or.inr (Or.inr (Or.inr (Or.inl rfl))))))
        · exact Or.inr (Or.inr (Or.inr (Or.inr (Or.inr (Or.inr (Or.inl rfl))))))
        · exact Or.inr (Or.inr (Or.inr (Or.inr (Or.inr (Or.inr (Or.inr rfl))))))
        · exact Or.inr (Or.inr (Or.inr (Or.inr (Or.inr (Or.inr (Or.inr rfl))))))
      · rcases h with rfl | rfl <;> exact Or.inl rfl

theorem storeEntryBody_paths {m : MDesc} {fs : FS} {o : Op} (h : o ∈ (storeEntryBody m fs).1) :
    BodyFoot m fs o.path := by
  unfold storeEntryBody Prog.andThen at h
  split at h
  · exact storeModel_paths (by simp_all)
  · rename_i o1 x heq
    simp only [storeResults] at h
    split at h <;> simp only [List.append_nil, List.mem_append, List.mem_cons, List.not_mem_nil, or_false] at h
    · exact storeModel_paths (by rw [heq]; exact h)
    · rcases h with h | rfl | rfl
      · exact storeModel_paths (by rw [heq]; exact h)
      · exact Or.inr (Or.inl rfl)
      · exact Or.inr (Or.inl rfl)

theorem bodyFoot_ne_pending {m : MDesc} {fs : FS} {p : Path} (k : String) (h : BodyFoot m fs p) :
    p ≠ pendingPath k := by
  rcases h with rfl | rfl | rfl | rfl | rfl | rfl | rfl | rfl <;>
    simp [modelPath, resultsPath, keyDir, metaDir, pendingPath, datasetsDir, hashDir, dbRoot]

end Pharmpy.C16

namespace Pharmpy.C16

theorem get_cons_eq (fs : FS) (p q : Path) (n : Node) :
    get ((q, n) :: fs) p = if q = p then some n else get fs p := by
  by_cases h : q = p
  · subst h; simp [get_cons_self]
  · simp [h, get_cons_ne h]

theorem get_filter_eq (fs : FS) (p q : Path) :
    get (fs.filter (fun pn => pn.1 ≠ q)) p = if q = p then none else get fs p := by
  by_cases h : q = p
  · subst h; rw [get_filter_self]; simp
  · rw [get_filter_ne h]; simp [h]

theorem get_mkdirP_file {fs : FS} {base : Path} {rel : List Seg} {p : Path}
    (h : ∀ q ∈ ancestors base rel, q ≠ p) : get (applyAll fs (mkdirP fs base rel)) p = get fs p := by
  apply get_applyAll_ne
  intro o ho
  simp only [mkdirP, List.mem_map, List.mem_filter] at ho
  obtain ⟨q, ⟨hq, _⟩, rfl⟩ := ho
  exact h q hq

end Pharmpy.C16

namespace Pharmpy.C16

theorem storeEntryBody_avoids_pending (m : MDesc) (k : String) :
    ∀ fs o, o ∈ (storeEntryBody m fs).1 → o.path ≠ pendingPath k :=
  fun _ _ ho => bodyFoot_ne_pending k (storeEntryBody_paths ho)


/-- A reader of key `k` that found its entry depends only on files the later
    store of another key never addresses. -/
theorem readEntry_ok_congr {k : String} {fs fs' : FS} {e : Entry}
    (h1 : get fs' (modelPath k "mod") = get fs (modelPath k "mod"))
    (h2 : get fs' (modelPath k "ctl") = get fs (modelPath k "ctl"))
    (h3 : get fs' (resultsPath k) = get fs (resultsPath k))
    (h4 : ∀ n, pexists fs (datasetsDir ++ [.csv n]) = true →
      get fs' (datasetsDir ++ [.csv n]) = get fs (datasetsDir ++ [.csv n]) ∧
      get fs' (datasetsDir ++ [.dinfo n]) = get fs (datasetsDir ++ [.dinfo n]))
    (h : readEntry k fs = .ok e) : readEntry k fs' = .ok e := by
  have hf : findModel k fs' = findModel k fs := by
    unfold findModel isFile; rw [h1, h2]
  unfold readEntry at h ⊢
  rw [hf]
  cases hm : findModel k fs with
  | none => rw [hm] at h; cases h
  | some p =>
    have hp : get fs' p = get fs p := by
      simp only [findModel] at hm
      split at hm
      · cases hm; exact h1
      · split at hm
        · cases hm; exact h2
        · cases hm
    rw [hm] at h
    have hrp : read fs' p = read fs p := by simp only [read, hp]
    simp only [hrp, h3] at h ⊢
    cases hrd : read fs p with
    | none => simp [hrd] at h
    | some c =>
      cases c with
      | text cs => simp [hrd] at h
      | part t q => simp [hrd] at h
      | full t =>
        cases t with
        | model code ref =>
          simp only [hrd] at h ⊢
          cases ref with
          | none => exact h
          | some r =>
            simp only at h ⊢
            cases hc : get fs (datasetsDir ++ [.csv r]) with
            | none => simp [read, hc] at h
            | some nd =>
              have := h4 r (by simp [pexists, hc])
              have e1 : read fs' (datasetsDir ++ [.csv r]) = read fs (datasetsDir ++ [.csv r]) := by
                simp only [read, this.1]
              have e2 : read fs' (datasetsDir ++ [.dinfo r]) = read fs (datasetsDir ++ [.dinfo r]) := by
                simp only [read, this.2]
              rw [e1, e2]; exact h
        | csv d => simp [hrd] at h
        | dinfo d q => simp [hrd] at h
        | results r => simp [hrd] at h
        | mdata r => simp [hrd] at h


end Pharmpy.C16

namespace Pharmpy.C16

/-! ### the repaired `store_model` -/

theorem foldl_max_le (l : List Seg) (acc X : Nat) (hacc : acc ≤ X) (h : ∀ n, Seg.csv n ∈ l → n ≤ X) :
    l.foldl (fun acc x => match x with | .csv n => max acc n | _ => acc) acc ≤ X := by
  induction l generalizing acc with
  | nil => exact hacc
  | cons x xs ih =>
    simp only [List.foldl_cons]
    apply ih
    · cases x <;> first
        | exact hacc
        | exact Nat.max_le.mpr ⟨hacc, h _ List.mem_cons_self⟩
    · exact fun n hn => h n (List.mem_cons_of_mem _ hn)

def stepR (acc : Nat) (pn : Path × Node) : Nat :=
  if datasetsDir.isPrefixOf pn.1 then
    match pn.1.getLast? with
    | some (.csv n) => max acc n
    | some (.dinfo n) => max acc n
    | _ => acc
  else acc

theorem highestR_eq (fs : FS) : highestR fs = fs.foldl stepR 0 := rfl

theorem stepR_ge (acc : Nat) (pn : Path × Node) : acc ≤ stepR acc pn := by
  unfold stepR
  split
  · split <;> first | exact Nat.le_max_left _ _ | exact Nat.le_refl _
  · exact Nat.le_refl _

theorem foldl_stepR_ge_acc (l : FS) (acc : Nat) : acc ≤ l.foldl stepR acc := by
  induction l generalizing acc with
  | nil => exact Nat.le_refl _
  | cons x xs ih => exact Nat.le_trans (stepR_ge acc x) (ih _)

theorem foldl_stepR_ge_mem (l : FS) (acc n : Nat) (nd : Node) (h : (datasetsDir ++ [Seg.csv n], nd) ∈ l) :
    n ≤ l.foldl stepR acc := by
  induction l generalizing acc with
  | nil => cases h
  | cons x xs ih =>
    simp only [List.foldl_cons]
    rcases List.mem_cons.mp h with rfl | h'
    · refine Nat.le_trans ?_ (foldl_stepR_ge_acc _ _)
      simp [stepR, datasetsDir, dbRoot]
      exact Nat.le_max_right _ _
    · exact ih _ h'

theorem dropLast_append_of_getLast? {α : Type} : ∀ (l : List α) (x : α), l.getLast? = some x → l.dropLast ++ [x] = l
  | [], _, h => by simp at h
  | [a], x, h => by simp at h; simp [h]
  | a :: b :: t, x, h => by
    have h' : (b :: t).getLast? = some x := by simpa [List.getLast?_cons_cons] using h
    have := dropLast_append_of_getLast? (b :: t) x h'
    simp only [List.dropLast_cons₂, List.cons_append]
    rw [this]

/-- The repaired numbering is above the code's `highest`: still fresh. -/
theorem highest_le_highestR (fs : FS) : highest fs ≤ highestR fs := by
  unfold highest
  apply foldl_max_le _ _ _ (Nat.zero_le _)
  intro n hn
  simp only [children, List.mem_filterMap] at hn
  obtain ⟨⟨p, nd⟩, hmem, hp⟩ := hn
  simp only at hp
  cases hl : p.getLast? with
  | none => simp [hl] at hp
  | some x =>
    simp only [hl] at hp
    split at hp
    · rename_i hd
      cases hp
      have : p = datasetsDir ++ [Seg.csv n] := by
        have := dropLast_append_of_getLast? p (Seg.csv n) hl
        rw [hd] at this; exact this.symm
      subst this
      exact foldl_stepR_ge_mem fs 0 n nd hmem
    · cases hp

theorem storeModelR_paths {m : MDesc} {fs : FS} {o : Op} (h : o ∈ (storeModelR m fs).1) :
    ∃ N, highest fs < N ∧ FootN m.key m.ext m.dh N o.path := by
  refine ⟨highestR fs + 1, Nat.lt_succ_of_le (highest_le_highestR fs), ?_⟩
  unfold storeModelR at h
  split at h
  · simp at h
  · split at h
    · simp only [writeModel, List.mem_cons, List.not_mem_nil, or_false] at h
      rcases h with rfl | rfl <;> exact Or.inl rfl
    · simp only [storeFreshR, mkdirP, ancestors, writeModel, List.mem_append, List.mem_map, List.mem_filter,
        List.mem_cons, List.not_mem_nil, or_false] at h
      rcases h with (⟨p, ⟨hp, _⟩, rfl⟩ | h) | h
      · rcases hp with rfl | rfl | rfl
        · exact Or.inr (Or.inr (Or.inl rfl))
        · exact Or.inr (Or.inr (Or.inr (Or.inl (by simp [Op.path, datasetsDir]))))
        · exact Or.inr (Or.inr (Or.inr (Or.inr (Or.inl (by simp [Op.path, hashDir, datasetsDir])))))
      · rcases h with rfl | rfl | rfl | rfl | rfl
        · exact Or.inr (Or.inr (Or.inr (Or.inr (Or.inr (Or.inl rfl)))))
        · exact Or.inr (Or.inr (Or.inr (Or.inr (Or.inr (Or.inr (Or.inl rfl))))))
        · exact Or.inr (Or.inr (Or.inr (Or.inr (Or.inr (Or.inr (Or.inl rfl))))))
        · exact Or.inr (Or.inr (Or.inr (Or.inr (Or.inr (Or.inr (Or.inr (Or.inl rfl)))))))
        · exact Or.inr (Or.inr (Or.inr (Or.inr (Or.inr (Or.inr (Or.inr (Or.inl rfl)))))))
      · rcases h with rfl | rfl <;> exact Or.inl rfl

theorem storeModelR_ok (m : MDesc) (fs : FS) : (storeModelR m fs).2 = .ok () := by
  unfold storeModelR
  split
  · rfl
  · split <;> rfl

theorem storeEntryBodyR_ok (m : MDesc) (fs : FS) : (storeEntryBodyR m fs).2 = .ok () := by
  unfold storeEntryBodyR Prog.andThen
  have := storeModelR_ok m fs
  generalize storeModelR m fs = r at this
  obtain ⟨o, x⟩ := r
  simp only at this; subst this
  simp only [storeResults]
  cases m.res <;> rfl

theorem storeEntryBodyR_paths {m : MDesc} {fs : FS} {o : Op} (h : o ∈ (storeEntryBodyR m fs).1) :
    ∃ N, highest fs < N ∧ FootN m.key m.ext m.dh N o.path := by
  unfold storeEntryBodyR Prog.andThen at h
  have hok := storeModelR_ok m fs
  generalize hr : storeModelR m fs = r at h hok
  obtain ⟨o1, x⟩ := r
  simp only at hok; subst hok
  simp only [storeResults] at h
  have h1 : ∀ o ∈ o1, ∃ N, highest fs < N ∧ FootN m.key m.ext m.dh N o.path :=
    fun o ho => storeModelR_paths (by rw [hr]; exact ho)
  cases hres : m.res with
  | none => simp only [hres, List.append_nil] at h; exact h1 o h
  | some r =>
    simp only [hres, List.mem_append, List.mem_cons, List.not_mem_nil, or_false] at h
    rcases h with h | rfl | rfl
    · exact h1 o h
    · exact ⟨highest fs + 1, Nat.lt_succ_self _, Or.inr (Or.inl rfl)⟩
    · exact ⟨highest fs + 1, Nat.lt_succ_self _, Or.inr (Or.inl rfl)⟩

theorem footN_ne_pending {key ext dh : String} {N : Nat} {p : Path} (k : String) (h : FootN key ext dh N p) :
    p ≠ pendingPath k := by
  rcases h with rfl | rfl | rfl | rfl | rfl | rfl | rfl | rfl | rfl <;>
    simp [modelPath, resultsPath, metadataPath, keyDir, metaDir, pendingPath, datasetsDir, hashDir, dbRoot]

end Pharmpy.C16

namespace Pharmpy.C16

theorem txnCleanup_false (k : String) (fs : FS) (nops j : Nat) : txnCleanup false k fs nops j = [] := by
  simp [txnCleanup]

theorem ops_dbStoreEntry (m : MDesc) (fs : FS) : (Call.dbStoreEntry m).ops fs = (dbStoreEntry m fs).1 := by
  simp [Call.ops, Call.run]
  cases hh : dbStoreEntry m fs with
  | mk o r => cases r <;> simp [outOf]

end Pharmpy.C16

namespace Pharmpy.C16

/-- A transaction that returned normally has removed its marker. -/
theorem txn_ok_no_pending (k : String) (body : Prog Unit) (fs : FS) (h : (txn k body fs).2 = .ok ()) :
    pexists (applyAll fs (txn k body fs).1) (pendingPath k) = false := by
  unfold txn at h ⊢
  simp only at h ⊢
  split at h
  · cases h
  · rename_i hP
    simp only [hP, if_false]
    generalize hb : body (apply (applyAll fs (openKey k fs)) (Op.create (pendingPath k))) = br at h ⊢
    obtain ⟨b, r⟩ := br
    cases r with
    | error e => simp at h
    | ok u =>
      simp only [Bool.false_eq_true, if_false]
      rw [applyAll_append]
      simp only [applyAll, List.foldl_cons, List.foldl_nil, apply, pexists, get_filter_self]
      rfl

theorem storeKey_ops (name key : String) (fs : FS) :
    (storeKey name key fs).1 = [] ∨ (storeKey name key fs).1 = [.symlink (namePath name) (keyDir key)] := by
  unfold storeKey
  simp only
  repeat' split
  all_goals simp

theorem touch_paths {fs : FS} {p : Path} {o : Op} (h : o ∈ touch fs p) : o.path = p := by
  unfold touch at h
  split at h
  · simp at h
  · simp only [List.mem_cons, List.not_mem_nil, or_false] at h; subst h; rfl

theorem storeAnnotation_paths {name descr : String} {fs : FS} {o : Op} (h : o ∈ (storeAnnotation name descr fs).1) :
    o.path = annotationsLock ∨ o.path = annotationsPath := by
  unfold storeAnnotation at h
  simp only at h
  split at h
  · simp only [List.mem_append, List.mem_cons, List.not_mem_nil, or_false] at h
    rcases h with h | rfl | rfl
    · exact Or.inl (touch_paths h)
    · exact Or.inr rfl
    · exact Or.inr rfl
  · exact Or.inl (touch_paths h)

/-- Operations of the part of `_store_model` after the transaction: the name
    link and the annotations file. -/
theorem ctxTail_paths {name descr key : String} {fs : FS} {o : Op}
    (h : o ∈ (((storeKey name key).andThen fun _ => storeAnnotation name descr) fs).1) :
    o.path = namePath name ∨ o.path = annotationsLock ∨ o.path = annotationsPath := by
  have hk : ∀ o ∈ (storeKey name key fs).1, o.path = namePath name := by
    intro o ho
    rcases storeKey_ops name key fs with e | e <;> rw [e] at ho
    · simp at ho
    · simp only [List.mem_cons, List.not_mem_nil, or_false] at ho; subst ho; rfl
  unfold Prog.andThen at h
  generalize hs : storeKey name key fs = sk at h hk
  obtain ⟨o1, r1⟩ := sk
  cases r1 with
  | error e => exact Or.inl (hk o h)
  | ok x =>
    simp only at h
    generalize ha : storeAnnotation name descr (applyAll fs o1) = sa at h
    obtain ⟨o2, r2⟩ := sa
    simp only [List.mem_append] at h
    rcases h with h | h
    · exact Or.inl (hk o h)
    · exact Or.inr (storeAnnotation_paths (by rw [ha]; exact h))

end Pharmpy.C16

namespace Pharmpy.C16

theorem andThen_fst {α β : Type} (a : Prog α) (b : α → Prog β) (fs : FS) :
    (a.andThen b fs).1 = match (a fs).2 with
      | .error _ => (a fs).1
      | .ok x => (a fs).1 ++ (b x (applyAll fs (a fs).1)).1 := by
  unfold Prog.andThen
  generalize a fs = r
  obtain ⟨o, x⟩ := r
  cases x <;> rfl

end Pharmpy.C16
