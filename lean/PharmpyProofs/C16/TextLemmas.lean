import PharmpyModel.C16.Text
/-
  C16 — lemmas about the log.csv tokenizer model and the annotation lines.
-/
namespace Pharmpy.C16

/-- Characters that may appear in an unquoted field without ending it. -/
def plainChar (c : Char) : Bool := c != ',' && c != '"' && c != '\n' && c != '\r'

def Plain (cs : List Char) : Prop := ∀ c ∈ cs, plainChar c = true

theorem plainChar_ne {c : Char} (h : plainChar c = true) : c ≠ ',' ∧ c ≠ '"' ∧ c ≠ '\n' ∧ c ≠ '\r' := by
  simp [plainChar] at h; exact ⟨h.1.1.1, h.1.1.2, h.1.2, h.2⟩

/-- Inside an unquoted field plain characters are appended. -/
theorem fold_inField (cs : List Char) (h : Plain cs) (s : CsvSt) (hm : s.mode = .inField) :
    cs.foldl csvStep s = { s with fld := s.fld ++ cs, mode := .inField } := by
  induction cs generalizing s with
  | nil => cases s; simp_all
  | cons c cs ih =>
    have hc := plainChar_ne (h c List.mem_cons_self)
    simp only [List.foldl_cons]
    have : csvStep s c = s.push c .inField := by
      simp [csvStep, hm, hc.1, hc.2.2.1, hc.2.2.2]
    rw [this, ih (fun x hx => h x (List.mem_cons_of_mem _ hx)) _ rfl]
    simp [CsvSt.push]

/-- A plain field followed by a comma, read from the start of a record or of
    a field (current field empty), becomes one completed field. -/
theorem fold_plain_field (cs : List Char) (h : Plain cs) (s : CsvSt) (hf : s.fld = [])
    (hm : s.mode = .startRecord ∨ s.mode = .startField) :
    (cs ++ [',']).foldl csvStep s = { s with cur := s.cur ++ [cs], fld := [], mode := .startField } := by
  cases cs with
  | nil =>
    rcases hm with hm | hm <;>
      simp [csvStep, csvStartRecord, csvStartField, hm, CsvSt.endField, hf]
  | cons c cs =>
    have hc := plainChar_ne (h c List.mem_cons_self)
    have h1 : csvStep s c = s.push c .inField := by
      rcases hm with hm | hm <;>
        simp [csvStep, csvStartRecord, csvStartField, hm, hc.1, hc.2.1, hc.2.2.1, hc.2.2.2]
    simp only [List.cons_append, List.foldl_cons, List.foldl_append, h1]
    rw [fold_inField cs (fun x hx => h x (List.mem_cons_of_mem _ hx)) _ rfl]
    simp [csvStep, CsvSt.push, CsvSt.endField, hf]

/-- Inside a quoted field the escaped text is read back verbatim. -/
theorem fold_escape (m : List Char) (s : CsvSt) (hm : s.mode = .inQuoted) :
    (escapeQuotes m).foldl csvStep s = { s with fld := s.fld ++ m, mode := .inQuoted } := by
  induction m generalizing s with
  | nil => cases s; simp_all [escapeQuotes]
  | cons c cs ih =>
    by_cases hc : c = '"'
    · subst hc
      simp only [escapeQuotes, if_true, List.foldl_cons]
      have h1 : csvStep (csvStep s '"') '"' = s.push '"' .inQuoted := by
        simp [csvStep, hm, CsvSt.push]
      rw [h1, ih _ rfl]; simp [CsvSt.push]
    · simp only [escapeQuotes, hc, if_false, List.foldl_cons]
      have h1 : csvStep s c = s.push c .inQuoted := by simp [csvStep, hm, hc]
      rw [h1, ih _ rfl]; simp [CsvSt.push]

/-- The mangled message followed by the line end, read at the start of a
    field, completes the record with the message verbatim. -/
theorem fold_mangled (m : List Char) (s : CsvSt) (hf : s.fld = []) (hm : s.mode = .startField) :
    (mangle m ++ ['\n']).foldl csvStep s =
      { rows := s.rows ++ [s.cur ++ [m]], cur := [], fld := [], mode := .startRecord } := by
  simp only [mangle, List.cons_append, List.foldl_cons, List.foldl_append, List.append_assoc]
  have h1 : csvStep s '"' = { s with mode := .inQuoted } := by
    simp [csvStep, csvStartField, hm]
  rw [h1, fold_escape m _ rfl]
  simp [csvStep, CsvSt.endField, CsvSt.endLine, hf]

/-- State between records. -/
def atRecordStart (rows : List (List (List Char))) : CsvSt :=
  { rows := rows, cur := [], fld := [], mode := .startRecord }

/-- **One log line is one record** with the message verbatim. -/
theorem fold_logLine (p d sv m : List Char) (hp : Plain p) (hd : Plain d) (hs : Plain sv)
    (rows : List (List (List Char))) :
    (logLine p d sv m).foldl csvStep (atRecordStart rows) = atRecordStart (rows ++ [[p, d, sv, m]]) := by
  have e : logLine p d sv m = (p ++ [',']) ++ ((d ++ [',']) ++ ((sv ++ [',']) ++ (mangle m ++ ['\n']))) := by
    simp [logLine]
  rw [e, List.foldl_append, fold_plain_field p hp _ rfl (Or.inl rfl),
    List.foldl_append, fold_plain_field d hd _ rfl (Or.inr rfl),
    List.foldl_append, fold_plain_field sv hs _ rfl (Or.inr rfl),
    fold_mangled m _ rfl rfl]
  simp [atRecordStart]

structure LogRec where
  path : List Char
  date : List Char
  severity : List Char
  message : List Char

def LogRec.line (r : LogRec) : List Char := logLine r.path r.date r.severity r.message
def LogRec.Safe (r : LogRec) : Prop := Plain r.path ∧ Plain r.date ∧ Plain r.severity

theorem fold_log (rs : List LogRec) (h : ∀ r ∈ rs, r.Safe) (rows : List (List (List Char))) :
    ((rs.map LogRec.line).flatten).foldl csvStep (atRecordStart rows)
      = atRecordStart (rows ++ rs.map fun r => [r.path, r.date, r.severity, r.message]) := by
  induction rs generalizing rows with
  | nil => simp
  | cons r rs ih =>
    have hr := h r List.mem_cons_self
    simp only [List.map_cons, List.flatten_cons, List.foldl_append, LogRec.line]
    rw [fold_logLine _ _ _ _ hr.1 hr.2.1 hr.2.2, ih (fun x hx => h x (List.mem_cons_of_mem _ hx))]
    simp

theorem fold_header : logHeader.foldl csvStep {} =
    atRecordStart [["path".toList, "time".toList, "severity".toList, "message".toList]] := by
  decide

end Pharmpy.C16

namespace Pharmpy.C16

/-! ### annotation lines -/

/-- A well-formed line: text without line breaks, then `\n`. -/
def WfLine (l : List Char) : Prop := ∃ body, l = body ++ ['\n'] ∧ '\n' ∉ body ∧ '\r' ∉ body

theorem universalNewlines_id (t : List Char) (h : '\r' ∉ t) : universalNewlines t = t := by
  induction t with
  | nil => rfl
  | cons c cs ih =>
    have hc : c ≠ '\r' := fun e => h (by simp [e])
    have hcs : '\r' ∉ cs := fun e => h (List.mem_cons_of_mem _ e)
    unfold universalNewlines
    split
    · rename_i heq; cases heq
    · rename_i heq; injection heq with h1 _; exact absurd h1 hc
    · rename_i heq; injection heq with h1 _; exact absurd h1 hc
    · rename_i c' cs' _ _ heq
      injection heq with h1 h2
      subst h1; subst h2
      rw [ih hcs]

theorem splitLinesAux_line (body rest acc : List Char) (h : '\n' ∉ body) :
    splitLinesAux acc (body ++ '\n' :: rest) = (acc ++ body ++ ['\n']) :: splitLinesAux [] rest := by
  induction body generalizing acc with
  | nil => simp [splitLinesAux]
  | cons c cs ih =>
    have hc : c ≠ '\n' := fun e => h (by simp [e])
    have hcs : '\n' ∉ cs := fun e => h (List.mem_cons_of_mem _ e)
    simp only [List.cons_append, splitLinesAux, hc, if_false]
    rw [ih _ hcs]; simp

theorem splitLinesAux_flatten (ls : List (List Char)) (h : ∀ l ∈ ls, WfLine l) :
    splitLinesAux [] ls.flatten = ls := by
  induction ls with
  | nil => simp [splitLinesAux]
  | cons l ls ih =>
    obtain ⟨body, rfl, hb, _⟩ := h l List.mem_cons_self
    simp only [List.flatten_cons, List.append_assoc, List.singleton_append]
    rw [splitLinesAux_line body _ [] hb, ih (fun x hx => h x (List.mem_cons_of_mem _ hx))]
    simp

theorem no_cr_flatten (ls : List (List Char)) (h : ∀ l ∈ ls, WfLine l) : '\r' ∉ ls.flatten := by
  intro hm
  rw [List.mem_flatten] at hm
  obtain ⟨l, hl, hc⟩ := hm
  obtain ⟨body, rfl, _, hb⟩ := h l hl
  simp at hc
  exact hb hc

/-- Reading back a file made of well-formed lines gives those lines. -/
theorem readlines_flatten (ls : List (List Char)) (h : ∀ l ∈ ls, WfLine l) : readlines ls.flatten = ls := by
  unfold readlines
  rw [universalNewlines_id _ (no_cr_flatten ls h), splitLinesAux_flatten ls h]

theorem takeWhile_append_of_all {p : Char → Bool} (a b : List Char) (h : ∀ c ∈ a, p c = true) :
    (a ++ b).takeWhile p = a ++ b.takeWhile p := by
  induction a with
  | nil => rfl
  | cons x xs ih =>
    simp [List.takeWhile, h x List.mem_cons_self, ih (fun c hc => h c (List.mem_cons_of_mem _ hc))]

theorem dropWhile_append_of_all {p : Char → Bool} (a b : List Char) (h : ∀ c ∈ a, p c = true) :
    (a ++ b).dropWhile p = b.dropWhile p := by
  induction a with
  | nil => rfl
  | cons x xs ih =>
    simp [List.dropWhile, h x List.mem_cons_self, ih (fun c hc => h c (List.mem_cons_of_mem _ hc))]

theorem lineKey_annLine (name ann : List Char) (hn : ' ' ∉ name) : lineKey (annLine name ann) = name := by
  unfold lineKey annLine
  rw [takeWhile_append_of_all name _ (fun c hc => by
    have : c ≠ ' ' := fun e => hn (e ▸ hc)
    simpa using this)]
  simp [List.takeWhile]

theorem wf_annLine (name ann : List Char) (hn1 : '\n' ∉ name) (hn2 : '\r' ∉ name)
    (ha1 : '\n' ∉ ann) (ha2 : '\r' ∉ ann) : WfLine (annLine name ann) := by
  refine ⟨name ++ ' ' :: ann, by simp [annLine], ?_, ?_⟩
  · simp [hn1, ha1]
  · simp [hn2, ha2]

theorem find?_eq_of_forall {α : Type} (p : α → Bool) (L : List α) (a : α)
    (h1 : ∀ l ∈ L, p l = true → l = a) (h2 : ∃ l ∈ L, p l = true) : L.find? p = some a := by
  induction L with
  | nil => obtain ⟨l, hl, _⟩ := h2; cases hl
  | cons x xs ih =>
    by_cases hx : p x = true
    · have := h1 x List.mem_cons_self hx
      subst this
      simp [List.find?, hx]
    · simp only [List.find?, hx]
      apply ih (fun l hl => h1 l (List.mem_cons_of_mem _ hl))
      obtain ⟨l, hl, hp⟩ := h2
      rcases List.mem_cons.mp hl with rfl | hl
      · exact absurd hp hx
      · exact ⟨l, hl, hp⟩

end Pharmpy.C16

namespace Pharmpy.C16

/-- The lines `store_annotation` writes. -/
def annLines (name ann : List Char) (ls : List (List Char)) : List (List Char) :=
  let ls' := ls.map (fun l => if lineKey l = name then annLine name ann else l)
  if ls.any (fun l => lineKey l = name) then ls' else ls' ++ [annLine name ann]

theorem storeAnnotationText_lines (name ann : List Char) (ls : List (List Char)) (h : ∀ l ∈ ls, WfLine l) :
    storeAnnotationText name ann ls.flatten = (annLines name ann ls).flatten := by
  simp only [storeAnnotationText, annLines, readlines_flatten ls h]

theorem annLines_wf (name ann : List Char) (ls : List (List Char)) (h : ∀ l ∈ ls, WfLine l)
    (hw : WfLine (annLine name ann)) : ∀ l ∈ annLines name ann ls, WfLine l := by
  intro l hl
  simp only [annLines] at hl
  have hmap : ∀ l ∈ ls.map (fun l => if lineKey l = name then annLine name ann else l), WfLine l := by
    intro l hl
    rw [List.mem_map] at hl
    obtain ⟨l0, hl0, rfl⟩ := hl
    split
    · exact hw
    · exact h l0 hl0
  split at hl
  · exact hmap l hl
  · rcases List.mem_append.mp hl with hl | hl
    · exact hmap l hl
    · simp at hl; subst hl; exact hw


theorem find?_map_congr {α : Type} (p : α → Bool) (f : α → α) (L : List α)
    (h : ∀ l ∈ L, p (f l) = p l ∧ (p l = true → f l = l)) : (L.map f).find? p = L.find? p := by
  induction L with
  | nil => rfl
  | cons x xs ih =>
    have hx := h x List.mem_cons_self
    have ih' := ih (fun l hl => h l (List.mem_cons_of_mem _ hl))
    simp only [List.map_cons, List.find?]
    rw [hx.1]
    cases hp : p x with
    | true => simp [hx.2 hp]
    | false => simpa using ih'

theorem find?_append_false {α : Type} (p : α → Bool) (L : List α) (a : α) (h : p a = false) :
    (L ++ [a]).find? p = L.find? p := by
  induction L with
  | nil => simp [List.find?, h]
  | cons x xs ih =>
    simp only [List.cons_append, List.find?]
    cases p x <;> simp [ih]

end Pharmpy.C16

namespace Pharmpy.C16

theorem csvParse_log (rs : List LogRec) (h : ∀ r ∈ rs, r.Safe) :
    csvParse (logHeader ++ (rs.map LogRec.line).flatten)
      = some (["path".toList, "time".toList, "severity".toList, "message".toList]
          :: rs.map fun r => [r.path, r.date, r.severity, r.message]) := by
  simp only [csvParse, List.foldl_append, fold_header, fold_log rs h]
  simp [csvFinish, atRecordStart]

end Pharmpy.C16
