import PharmpyModel.C16.Workload
/-
  C16 — helper lemmas: frame properties of the file-system operations,
  crash states of concatenated traces.
-/
namespace Pharmpy.C16

theorem get_cons_ne {fs : FS} {p q : Path} {n : Node} (h : q ≠ p) : get ((q, n) :: fs) p = get fs p := by
  have hb : (p == q) = false := by simpa using (fun h' : p = q => h h'.symm)
  simp [get, List.lookup_cons, hb]

theorem get_cons_self {fs : FS} {p : Path} {n : Node} : get ((p, n) :: fs) p = some n := by
  simp [get, List.lookup_cons]

theorem get_filter_ne {fs : FS} {p q : Path} (h : q ≠ p) :
    get (fs.filter (fun pn => pn.1 ≠ q)) p = get fs p := by
  induction fs with
  | nil => rfl
  | cons x xs ih =>
    obtain ⟨a, b⟩ := x
    by_cases ha : a = q
    · subst ha
      simp only [List.filter, ne_eq, not_true_eq_false, decide_false]
      rw [get_cons_ne h]; exact ih
    · simp only [List.filter, ne_eq, ha, not_false_eq_true, decide_true]
      by_cases hp : a = p
      · subst hp; simp [get_cons_self]
      · rw [get_cons_ne hp, get_cons_ne hp]; exact ih

theorem get_filter_self {fs : FS} {q : Path} :
    get (fs.filter (fun pn => pn.1 ≠ q)) q = none := by
  induction fs with
  | nil => rfl
  | cons x xs ih =>
    obtain ⟨a, b⟩ := x
    by_cases ha : a = q
    · subst ha; simpa [List.filter] using ih
    · simp only [List.filter, ne_eq, ha, not_false_eq_true, decide_true]
      rw [get_cons_ne ha]; exact ih

/-- An operation changes nothing at a path it is not addressed to. -/
theorem get_apply_ne {fs : FS} {o : Op} {p : Path} (h : o.path ≠ p) : get (apply fs o) p = get fs p := by
  cases o <;> simp only [apply, Op.path] at * <;> first
    | exact get_cons_ne h
    | exact get_filter_ne h

theorem get_applyAll_ne {ops : List Op} {fs : FS} {p : Path} (h : ∀ o ∈ ops, o.path ≠ p) :
    get (applyAll fs ops) p = get fs p := by
  induction ops generalizing fs with
  | nil => rfl
  | cons o os ih =>
    simp only [applyAll, List.foldl_cons]
    have := ih (fs := apply fs o) (fun o' ho' => h o' (List.mem_cons_of_mem _ ho'))
    simp only [applyAll] at this
    rw [this, get_apply_ne (h o List.mem_cons_self)]

theorem tear_path {o o' : Op} {n : Nat} (h : o.tear n = some o') : o'.path = o.path := by
  cases o <;> simp [Op.tear] at h <;> subst h <;> rfl

theorem applyAll_append (fs : FS) (a b : List Op) : applyAll fs (a ++ b) = applyAll (applyAll fs a) b := by
  simp [applyAll, List.foldl_append]

/-- A crash leaves untouched every path none of the issued operations addresses. -/
theorem get_crash_ne {ops : List Op} {fs : FS} {p : Path} (k : Nat) (n : Option Nat)
    (h : ∀ o ∈ ops, o.path ≠ p) : get (crash fs ops k n) p = get fs p := by
  have htake : get (applyAll fs (ops.take k)) p = get fs p :=
    get_applyAll_ne (fun o ho => h o (List.mem_of_mem_take ho))
  unfold crash
  cases hk : ops[k]? with
  | none => simpa using htake
  | some o =>
    cases n with
    | none => simpa using htake
    | some n =>
      cases ht : o.tear n with
      | none => simpa [ht] using htake
      | some o' =>
        simp only [ht]
        have hm : o ∈ ops := List.mem_of_getElem? hk
        rw [get_apply_ne (by rw [tear_path ht]; exact h o hm)]; exact htake

theorem crash_of_length_le {ops : List Op} {fs : FS} {k : Nat} {n : Option Nat} (h : ops.length ≤ k) :
    crash fs ops k n = applyAll fs ops := by
  unfold crash
  have : ops[k]? = none := List.getElem?_eq_none h
  simp [this, List.take_of_length_le h]

theorem crash_append_left {a b : List Op} {fs : FS} {k : Nat} {n : Option Nat} (h : k < a.length) :
    crash fs (a ++ b) k n = crash fs a k n := by
  unfold crash
  have h1 : (a ++ b).take k = a.take k := by
    rw [List.take_append_of_le_length (Nat.le_of_lt h)]
  have h2 : (a ++ b)[k]? = a[k]? := List.getElem?_append_left h
  rw [h1, h2]

theorem crash_append_right {a b : List Op} {fs : FS} {k : Nat} {n : Option Nat} (h : a.length ≤ k) :
    crash fs (a ++ b) k n = crash (applyAll fs a) b (k - a.length) n := by
  unfold crash
  have h1 : (a ++ b).take k = a ++ b.take (k - a.length) := by
    rw [List.take_append, List.take_of_length_le h]
  have h2 : (a ++ b)[k]? = b[k - a.length]? := List.getElem?_append_right h
  rw [h1, h2, applyAll_append]

end Pharmpy.C16
