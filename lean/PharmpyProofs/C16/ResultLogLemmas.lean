import Std.Data.String.ToNat
import PharmpyModel.C16.ResultLog
/-
  C16 — lemmas for the round trip of an entry's log through results.json.
-/
namespace Pharmpy.C16

theorem toString_nat_inj {m n : Nat} (h : toString m = toString n) : m = n :=
  Nat.repr_injective h

theorem toString_nat_ne_class (n : Nat) : toString n ≠ "__class__" := by
  intro h
  have h1 : (Nat.repr n).toList = "__class__".toList := congrArg String.toList h
  rw [Nat.toList_repr] at h1
  have h2 : "__class__".toList = ['_', '_', 'c', 'l', 'a', 's', 's', '_', '_'] := by decide
  have h3 : '_' ∈ Nat.toDigits 10 n := by rw [h1, h2]; simp
  have h4 := Nat.isDigit_of_mem_toDigits (b := 10) (by omega) (by omega) h3
  exact absurd h4 (by decide)

theorem dictSet_fresh (d : List (String × JVal)) (k : String) (v : JVal) (h : ∀ p ∈ d, p.1 ≠ k) :
    dictSet d k v = d ++ [(k, v)] := by
  induction d with
  | nil => rfl
  | cons p r ih =>
    obtain ⟨k', v'⟩ := p
    have hk : k' ≠ k := h (k', v') List.mem_cons_self
    simp only [dictSet, hk, if_false, List.cons_append]
    rw [ih (fun q hq => h q (List.mem_cons_of_mem _ hq))]

/-- A JSON object whose keys are pairwise different is rebuilt as it stands. -/
theorem dictOfPairs_nodup (ps d : List (String × JVal)) (h : ((d ++ ps).map (·.1)).Nodup) :
    ps.foldl (fun d p => dictSet d p.1 p.2) d = d ++ ps := by
  induction ps generalizing d with
  | nil => simp
  | cons p ps ih =>
    simp only [List.foldl_cons]
    have hfresh : ∀ q ∈ d, q.1 ≠ p.1 := by
      intro q hq heq
      rw [List.map_append, List.map_cons] at h
      have := (List.nodup_append.mp h).2.2 q.1 (List.mem_map_of_mem hq) p.1 List.mem_cons_self
      exact this heq
    rw [dictSet_fresh d p.1 p.2 hfresh]
    have := ih (d ++ [(p.1, p.2)]) (by simpa using h)
    simpa using this

theorem keys_logToDict_ge (i : Nat) (l : List LogEntry) : ∀ p ∈ logToDict i l, i ≤ p.1 := by
  induction l generalizing i with
  | nil => intro p hp; cases hp
  | cons e es ih =>
    intro p hp
    simp only [logToDict, List.mem_cons] at hp
    rcases hp with rfl | hp
    · exact Nat.le_refl _
    · exact Nat.le_of_succ_le (ih (i + 1) p hp)

theorem keys_logToDict_nodup (i : Nat) (l : List LogEntry) :
    ((logToDict i l).map (fun p => toString p.1)).Nodup := by
  induction l generalizing i with
  | nil => simp [logToDict]
  | cons e es ih =>
    simp only [logToDict, List.map_cons, List.nodup_cons]
    refine ⟨?_, ih (i + 1)⟩
    intro hm
    rw [List.mem_map] at hm
    obtain ⟨p, hp, heq⟩ := hm
    have := keys_logToDict_ge (i + 1) es p hp
    have := toString_nat_inj heq
    omega

theorem logFromDict_entries (xs : List (Nat × LogEntry)) :
    logFromDict (xs.map (fun p => (toString p.1, JVal.entry p.2))) = some (xs.map (·.2)) := by
  induction xs with
  | nil => rfl
  | cons x xs ih =>
    simp only [logFromDict, List.map_cons, List.mapM_cons] at ih ⊢
    rw [ih]; rfl

theorem logToDict_values (i : Nat) (l : List LogEntry) : (logToDict i l).map (·.2) = l := by
  induction l generalizing i with
  | nil => rfl
  | cons e es ih => simp [logToDict, ih]

end Pharmpy.C16
