import PharmpyModel.C20.Json
/-
  C20 — lemmas about records as association lists with pairwise different keys.
-/
namespace Pharmpy.C20

variable {α : Type}

theorem lookupKey_cons_ne (k k' : Str) (v : α) (r : List (Str × α)) (h : k' ≠ k) :
    lookupKey k ((k', v) :: r) = lookupKey k r := by
  have : (k' == k) = false := by simpa using h
  simp [lookupKey, List.find?_cons, this]

theorem lookupKey_cons_eq (k : Str) (v : α) (r : List (Str × α)) :
    lookupKey k ((k, v) :: r) = some v := by
  simp [lookupKey, List.find?_cons]

/-- Reading the keys of a record back in order gives the values written. -/
theorem map_lookup_zip (ks : List Str) (vs : List α) (rest : List (Str × α)) (hnd : ks.Nodup)
    (hl : vs.length = ks.length) :
    ks.map (fun k => lookupKey k (ks.zip vs ++ rest)) = vs.map some := by
  induction ks generalizing vs with
  | nil => cases vs with
    | nil => rfl
    | cons v vs => simp at hl
  | cons k ks ih =>
    cases vs with
    | nil => simp at hl
    | cons v vs =>
      have hnd' := List.nodup_cons.mp hnd
      simp only [List.zip_cons_cons, List.cons_append, List.map_cons, lookupKey_cons_eq]
      congr 1
      rw [← ih vs hnd'.2 (by simpa using hl)]
      apply List.map_congr_left
      intro k' hk'
      exact lookupKey_cons_ne k' k v _ (fun e => hnd'.1 (e ▸ hk'))

/-- Keys that are not among `ks1` are not affected by the first part of the record. -/
theorem lookupKey_skip (k : Str) (ks1 : List Str) (vs1 : List α) (rest : List (Str × α)) (h : k ∉ ks1) :
    lookupKey k (ks1.zip vs1 ++ rest) = lookupKey k rest := by
  induction ks1 generalizing vs1 with
  | nil => simp
  | cons a ks1 ih =>
    cases vs1 with
    | nil => simp
    | cons v vs1 =>
      simp only [List.zip_cons_cons, List.cons_append]
      rw [lookupKey_cons_ne k a v _ (fun e => h (by simp [e]))]
      exact ih vs1 (fun hm => h (by simp [hm]))

theorem filter_not_contains (pk cols : List Str) (hdis : ∀ c ∈ cols, c ∉ pk) :
    (pk ++ cols).filter (fun f => !pk.contains f) = cols := by
  rw [List.filter_append]
  have h1 : pk.filter (fun f => !pk.contains f) = [] := by
    apply List.filter_eq_nil_iff.mpr
    intro a ha
    simp [ha]
  have h2 : cols.filter (fun f => !pk.contains f) = cols := by
    apply List.filter_eq_self.mpr
    intro a ha
    have := hdis a ha
    simp [this]
  rw [h1, h2, List.nil_append]

/-! ### index level names -/

theorem jsonNamesFrom_length (single : Bool) (k : Nat) (ns : List (Option Str)) :
    (jsonNamesFrom single k ns).length = ns.length := by
  induction ns generalizing k with
  | nil => rfl
  | cons n ns ih => simp [jsonNamesFrom, ih]

theorem reserved_levelName_none (single : Bool) (k : Nat) :
    isReserved single (levelName single k none) = true := by
  cases single with
  | true => simp [isReserved, levelName]
  | false => simp [isReserved, levelName, levelLit, List.isPrefixOf]

theorem restore_jsonNamesFrom (single : Bool) (k : Nat) (ns : List (Option Str))
    (hn : ∀ n ∈ ns, ∀ s, n = some s → isReserved single s = false) :
    (jsonNamesFrom single k ns).map (restoreName single) = ns := by
  induction ns generalizing k with
  | nil => rfl
  | cons n ns ih =>
    simp only [jsonNamesFrom, List.map_cons]
    rw [ih (k + 1) (fun m hm => hn m (by simp [hm]))]
    congr 1
    cases n with
    | none => simp [restoreName, reserved_levelName_none]
    | some s =>
      have := hn (some s) (by simp) s rfl
      simp [restoreName, levelName, this]

end Pharmpy.C20
