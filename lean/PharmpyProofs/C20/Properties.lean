import PharmpyProofs.C20.Lemmas
import PharmpyProofs.C20.Layout
import PharmpyModel.C20.Spec
/-
  C20 — Estimation results are read faithfully from NONMEM output.  Property theorems only.
-/
namespace Pharmpy.C20
open Pharmpy.C20.Spec

/-- Every numeric cell the reference writer produces (integer index, `d.ddd…E±xx` estimate with
    any number of decimals and any exponent, plain decimal OBJ value) is read back by the number
    grammar as exactly the decimal that was written. -/
theorem parse_render_cell (c : Cell) (d : Dec) (hok : cellOk c = true) (hd : cellDec c = some d) :
    parseNum (renderCell c) = some d := by
  apply parseNum_renderCell c d _ hd
  intro n k m e h
  subst h
  simpa [cellOk] using hok


/-! ## parse ∘ render -/

theorem padRow_full (n : Nat) (r : List Str) (h : r.length = n) : padRow n r = r.map some := by
  simp [padRow, h]

/-- **parse ∘ render = id** for every table that fits its format (any number of columns and rows,
    any column widths): reading the lines produced by the reference writer gives back the column
    names and, cell by cell, the texts that were written; and every numeric cell text denotes
    exactly the number written. -/
theorem parse_render_table (t : RefTable) (h : t.fits = true) :
    readFrame (renderBody t)
        = .ok ⟨t.names, t.rows.map (fun r => r.map (fun c => some (renderCell c)))⟩
      ∧ ∀ r ∈ t.rows, ∀ c ∈ r, ∀ d, cellDec c = some d → parseNum (renderCell c) = some d := by
  simp only [RefTable.fits, Bool.and_eq_true, Bool.not_eq_eq_eq_not, Bool.not_true, beq_iff_eq,
    List.all_eq_true] at h
  obtain ⟨⟨⟨hhead, hdup⟩, hlen⟩, hrows⟩ := h
  constructor
  · have hne := headerOk_ne_nil _ _ hhead
    have hlines : (renderBody t).map splitWs = t.names :: t.rows.map (fun r => r.map renderCell) := by
      simp only [renderBody, List.map_cons, List.map_map]
      rw [splitWs_renderHeader _ _ hhead]
      congr 1
      apply List.map_congr_left
      intro r hr
      exact splitWs_renderRow _ _ (hrows r hr).2
    have hrowlen : ∀ r ∈ t.rows.map (fun r => r.map renderCell), r.length = t.names.length := by
      intro r hr
      obtain ⟨r0, hr0, rfl⟩ := List.mem_map.mp hr
      rw [fitsRow_length _ _ (hrows r0 hr0).2, hlen]
    have hpos : 0 < t.names.length := List.length_pos_iff.mpr hne
    have hfilter : (t.names :: t.rows.map (fun r => r.map renderCell)).filter (fun x => !x.isEmpty)
        = t.names :: t.rows.map (fun r => r.map renderCell) := by
      apply List.filter_eq_self.mpr
      intro x hx
      rcases List.mem_cons.mp hx with hx | hx
      · subst hx; cases hn : t.names with
        | nil => exact absurd hn hne
        | cons a b => rfl
      · have := hrowlen x hx
        cases x with
        | nil => simp at this; omega
        | cons a b => rfl
    unfold readFrame
    rw [hlines, hfilter]
    simp only [hdup, Bool.false_eq_true, if_false]
    cases hr : t.rows.map (fun r => r.map renderCell) with
    | nil =>
      have : t.rows = [] := by simpa using hr
      simp [this]
    | cons r0 rest =>
      have h0 : r0.length = t.names.length := hrowlen r0 (by rw [hr]; simp)
      have hany : (r0 :: rest).any (fun r => decide (r.length > t.names.length)) = false := by
        apply List.any_eq_false.mpr
        intro r hr'
        have := hrowlen r (by rw [hr]; exact hr')
        simp [this]
      simp only [h0, gt_iff_lt, Nat.lt_irrefl, if_false]
      rw [show ((r0 :: rest).any fun r => decide (t.names.length < r.length)) = false from hany]
      simp only [Bool.false_eq_true, if_false]
      congr 2
      rw [← hr, List.map_map]
      apply List.map_congr_left
      intro r hr'
      have hl : (r.map renderCell).length = t.names.length :=
        hrowlen _ (List.mem_map.mpr ⟨r, hr', rfl⟩)
      simp only [Function.comp]
      rw [padRow_full _ _ hl, List.map_map]
      rfl
  · intro r hr c hc d hd
    have hok : cellOk c = true := (hrows r hr).1 c hc
    exact parse_render_cell c d hok hd

/-- The special ITERATION codes, getters, fallbacks and post-processing that table.py's ExtTable
    properties use (regenerated from the source on every run) are the documented ones. -/
theorem ext_codes_as_documented : Generated.extProps = documentedExtProps := by
  decide

end Pharmpy.C20
