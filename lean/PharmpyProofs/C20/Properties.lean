import PharmpyProofs.C20.Lemmas
import PharmpyProofs.C20.Layout
import PharmpyProofs.C20.Split
import PharmpyProofs.C20.Sym
import PharmpyProofs.C20.Ext
import PharmpyProofs.C20.Zero
import PharmpyProofs.C20.Misc
import PharmpyModel.C20.Spec
/-
  C20 — Estimation results are read faithfully from NONMEM output.  Property theorems only.
-/
namespace Pharmpy.C20
open Pharmpy.C20.Spec

/-- Every numeric cell the reference writer produces (integer index, `d.ddd…E±xx` estimate with
    any number of decimals and any exponent, plain decimal OBJ value) is read back by the number
    grammar as exactly the decimal that was written. -/
theorem parse_render_cell (c : Cell) (d : Dec) (hok : cellOk c = true) (hd : cellDec c = some d) :
    parseNum (renderCell c) = some d := by
  apply parseNum_renderCell c d _ hd
  intro n k m e h
  subst h
  simpa [cellOk] using hok


/-! ## parse ∘ render -/

/-- **parse ∘ render = id** for every table that fits its format (any number of columns and rows,
    any column widths): reading the lines produced by the reference writer gives back the column
    names and, cell by cell, the texts that were written; and every numeric cell text denotes
    exactly the number written. -/
theorem parse_render_table (t : RefTable) (h : t.fits = true) :
    readFrame (renderBody t)
        = .ok ⟨t.names, t.rows.map (fun r => r.map (fun c => some (renderCell c)))⟩
      ∧ ∀ r ∈ t.rows, ∀ c ∈ r, ∀ d, cellDec c = some d → parseNum (renderCell c) = some d := by
  simp only [RefTable.fits, Bool.and_eq_true, Bool.not_eq_eq_eq_not, Bool.not_true, beq_iff_eq,
    List.all_eq_true] at h
  obtain ⟨⟨⟨hhead, hdup⟩, hlen⟩, hrows⟩ := h
  constructor
  · have hne := headerOk_ne_nil _ _ hhead
    have hlines : (renderBody t).map splitWs = t.names :: t.rows.map (fun r => r.map renderCell) := by
      simp only [renderBody, List.map_cons, List.map_map]
      rw [splitWs_renderHeader _ _ hhead]
      congr 1
      apply List.map_congr_left
      intro r hr
      exact splitWs_renderRow _ _ (hrows r hr).2
    have hrowlen : ∀ r ∈ t.rows.map (fun r => r.map renderCell), r.length = t.names.length := by
      intro r hr
      obtain ⟨r0, hr0, rfl⟩ := List.mem_map.mp hr
      rw [fitsRow_length _ _ (hrows r0 hr0).2, hlen]
    have hpos : 0 < t.names.length := List.length_pos_iff.mpr hne
    have hfilter : (t.names :: t.rows.map (fun r => r.map renderCell)).filter (fun x => !x.isEmpty)
        = t.names :: t.rows.map (fun r => r.map renderCell) := by
      apply List.filter_eq_self.mpr
      intro x hx
      rcases List.mem_cons.mp hx with hx | hx
      · subst hx; cases hn : t.names with
        | nil => exact absurd hn hne
        | cons a b => rfl
      · have := hrowlen x hx
        cases x with
        | nil => simp at this; omega
        | cons a b => rfl
    unfold readFrame
    rw [hlines, hfilter]
    simp only [hdup, Bool.false_eq_true, if_false]
    cases hr : t.rows.map (fun r => r.map renderCell) with
    | nil =>
      have : t.rows = [] := by simpa using hr
      simp [this]
    | cons r0 rest =>
      have h0 : r0.length = t.names.length := hrowlen r0 (by rw [hr]; simp)
      have hany : (r0 :: rest).any (fun r => decide (r.length > t.names.length)) = false := by
        apply List.any_eq_false.mpr
        intro r hr'
        have := hrowlen r (by rw [hr]; exact hr')
        simp [this]
      simp only [h0, gt_iff_lt, Nat.lt_irrefl, if_false]
      rw [show ((r0 :: rest).any fun r => decide (t.names.length < r.length)) = false from hany]
      simp only [Bool.false_eq_true, if_false]
      congr 2
      rw [← hr, List.map_map]
      apply List.map_congr_left
      intro r hr'
      have hl : (r.map renderCell).length = t.names.length :=
        hrowlen _ (List.mem_map.mpr ⟨r, hr', rfl⟩)
      simp only [Function.comp]
      rw [padRow_full _ _ hl, List.map_map]
      rfl
  · intro r hr c hc d hd
    have hok : cellOk c = true := (hrows r hr).1 c hc
    exact parse_render_cell c d hok hd


/-! ## cells that do not fit: touching fields -/

/-- Two `1PE13.5` cells, the second one `-1.00000E-100` (13 characters, as pharmpy's own writer
    `'%13.5E'` prints it). -/
def touchingTable : RefTable :=
  ⟨13, [['A'], ['B']], [⟨13, .right⟩, ⟨13, .right⟩],
    [[.sci false 5 100000 0, .sci true 5 100000 (-100)]]⟩

/-- The full statement "parse ∘ render = id for every table" is false: a 13-character cell leaves
    no separating blank, the two fields are read as one token, which is not a number, and the
    second column is read as missing.  (So `fits` in `parse_render_table` cannot be dropped.) -/
theorem touching_fields_witness :
    touchingTable.fits = false
      ∧ (renderBody touchingTable).map String.ofList = [" A            B", "  1.00000E+00-1.00000E-100"]
      ∧ (readFrame (renderBody touchingTable)).toOption
          = some ⟨[['A'], ['B']], [[some "1.00000E+00-1.00000E-100".toList, none]]⟩
      ∧ parseNum "1.00000E+00-1.00000E-100".toList = none := by
  decide +kernel

/-- Non-vacuity of `parse_render_table`: a two-row ext-like table with a negative estimate, a
    special ITERATION code and a 22-wide OBJ column fits. -/
example : (⟨13, [['I'], ['T', '1'], ['O', 'B', 'J']], [⟨13, .right⟩, ⟨13, .right⟩, ⟨22, .right⟩],
    [[.int 0, .sci true 5 469307 (-3), .fix false 587 14 36644134661617],
     [.int (-1000000000), .sci false 5 100000 (-99), .fix true 0 17 5]]⟩ : RefTable).fits = true := by
  decide +kernel

/-! ## several tables in one file -/

/-- n tables in ⇒ n chunks out, each starting with its own title line and holding exactly its own
    lines, in order — for any number of tables and lines (body lines are the lines that do not
    start with `TABLE NO.`). -/
theorem multi_table_split (cs : List (Str × List Str)) (hne : cs ≠ [])
    (ht : ∀ c ∈ cs, isTitle c.1 = true) (hb : ∀ c ∈ cs, ∀ l ∈ c.2, isTitle l = false) :
    splitTables (cs.map (fun c => c.1 :: c.2)).flatten = cs.map (fun c => c.1 :: c.2) := by
  cases cs with
  | nil => exact absurd rfl hne
  | cons c cs =>
    have h1 : startsWith tableNoPrefix c.1 = true := ht c (by simp)
    unfold splitTables
    simp only [List.map_cons, List.flatten_cons, List.cons_append, List.foldl_cons, List.foldl_append,
      splitStep, h1, if_true, List.isEmpty_nil]
    rw [foldl_body c.2 _ _ (hb c (by simp))]
    have := foldl_chunks cs (fun x hx => ht x (by simp [hx])) (fun x hx => hb x (by simp [hx]))
      [] ([c.1] ++ c.2) (by simp)
    rw [this]
    simp

/-- A title line produced by the reference writer starts a new table. -/
theorem rendered_title_is_title (w n : Nat) (rest : Str) : isTitle (renderTitleNo w n ++ rest) = true := by
  simp [isTitle, startsWith, renderTitleNo, List.append_assoc]

/-- The table number is read back exactly (field width `w`, any number that fits, any continuation
    that does not start with a digit). -/
theorem table_number_read_back (w n : Nat) (rest : Str) (hfit : (natDigits n).length < w)
    (hrest : StopsDigits rest) :
    parseTitleLine (renderTitleNo w n ++ rest)
      = .ok ⟨n, containsSub "Evaluation".toList (renderTitleNo w n ++ rest), matchTitleRest rest⟩ := by
  simp [parseTitleLine, matchTableNo_render w n rest hfit hrest]

/-! ## ETC / PHC matrices -/

/-- `triangular_root` inverts the triangular numbers (so every ETC vector of a legal length is
    accepted and gets the right dimension). -/
theorem triangular_root_exact (n : Nat) : triangularRoot (tri n) = n := triangularRoot_tri n

/-- `flattened_to_symmetric`: for every dimension `n` and every vector of `n(n+1)/2` entries the
    result is the n×n matrix with entry (i,j) = x[T(max i j) + min i j] — i.e. ETC(a,b) of the phi
    file lands at [a,b] and [b,a]. -/
theorem etc_symmetric_index {α : Type} (zero : α) (n : Nat) (x : List α) (hx : x.length = tri n) :
    ∃ M, flattenedToSymmetric zero x = .ok M ∧ M.length = n ∧
      ∀ i j, i < n → j < n → (M[i]?).bind (·[j]?) = x[tri (max i j) + min i j]? := by
  refine ⟨(List.range n).map (fun i => (List.range n).map (fun j =>
      if j ≤ i then (((lowerRows 0 n x)[i]?).bind (·[j]?)).getD zero
      else (((lowerRows 0 n x)[j]?).bind (·[i]?)).getD zero)), ?_, ?_, ?_⟩
  · unfold flattenedToSymmetric
    simp only [hx, triangularRoot_tri, bne_self_eq_false, Bool.false_eq_true, if_false]
  · simp
  · intro i j hi hj
    have hin : ∀ a b, a < n → b ≤ a → tri a + b < x.length := by
      intro a b ha hb
      have := tri_mono (show a + 1 ≤ n by omega)
      simp only [tri] at this
      omega
    simp only [List.getElem?_map, List.getElem?_range hi, Option.map_some, Option.bind_some,
      List.getElem?_range hj]
    by_cases hji : j ≤ i
    · simp only [hji, if_true]
      rw [lower_entry n x i j hi hji, Nat.max_eq_left hji, Nat.min_eq_right hji]
      have := hin i j hi hji
      rw [List.getElem?_eq_getElem this]; rfl
    · have hij : i ≤ j := by omega
      simp only [hji, if_false]
      rw [lower_entry n x j i hj hij, Nat.max_eq_right hij, Nat.min_eq_left hij]
      have := hin j i hj hij
      rw [List.getElem?_eq_getElem this]; rfl

/-- …and it is symmetric. -/
theorem etc_symmetric {α : Type} (zero : α) (n : Nat) (x : List α) (hx : x.length = tri n) :
    ∃ M, flattenedToSymmetric zero x = .ok M ∧
      ∀ i j, i < n → j < n → (M[i]?).bind (·[j]?) = (M[j]?).bind (·[i]?) := by
  obtain ⟨M, hM, _, h⟩ := etc_symmetric_index zero n x hx
  refine ⟨M, hM, ?_⟩
  intro i j hi hj
  rw [h i j hi hj, h j i hj hi, Nat.max_comm, Nat.min_comm]

/-- A vector whose length is not a triangular number is refused, not silently truncated. -/
theorem etc_bad_length {α : Type} (zero : α) (x : List α)
    (hx : tri (triangularRoot x.length) ≠ x.length) :
    flattenedToSymmetric zero x = .error .shapeError := by
  unfold flattenedToSymmetric
  simp [hx]

/-! ## .ext files -/

/-- The special ITERATION codes, getters, fallbacks and post-processing that table.py's ExtTable
    properties use (regenerated from the source on every run) are the documented ones. -/
theorem ext_codes_as_documented : Generated.extProps = documentedExtProps := by
  decide

/-- `df.loc[df['ITERATION'] == code]`: exactly the rows whose ITERATION cell denotes `code`, in
    file order (any frame, any number of rows). -/
theorem ext_rows (f : Frame) (code : Int) (rs : List (List (Option Str)))
    (h : rowsWithIter f code = .ok rs) : rs = f.rows.filter (rowHasIter code) :=
  rowsWithIter_eq f code rs h

/-- …and an integer ITERATION cell written by the reference writer is recognised as `code` iff it
    is `code` (so estimates / SE / fixed flags / OFV come from the designated rows only). -/
theorem ext_iteration_cell (i code : Int) (rest : List (Option Str)) :
    rowHasIter code (some (renderCell (.int i)) :: rest) = (i == code) :=
  rowHasIter_int i code rest

/-- `final_parameter_estimates` / `final_ofv`: when the designated row exists it is used. -/
theorem ext_designated_row_wins {α : Type} (raw : Frame) (code : Int) (get : Int → Except Err α) (v : α)
    (h : get code = .ok v) : withFallback raw code get = .ok v := by
  simp [withFallback, h]

/-- Fallback rule: when the designated row is absent (KeyError), the row of the largest
    non-negative iteration number is used — it is one of the iterations and bounds all of them. -/
theorem ext_fallback_last_iteration {α : Type} (raw : Frame) (code : Int) (get : Int → Except Err α)
    (its : List Dec) (d : Dec) (hk : get code = .error .keyError) (hi : iterations raw = .ok its)
    (hint : ∀ x ∈ its, x.e = 0) (hm : maxDec its = some d) :
    withFallback raw code get = get d.m ∧ d ∈ its ∧ ∀ x ∈ its, x.m ≤ d.m := by
  obtain ⟨h1, h2, h3⟩ := maxDec_int its hint d hm
  refine ⟨?_, h1, h3⟩
  simp [withFallback, hk, hi, hm, h2]

/-- No designated row and no iteration row: refused (ValueError), nothing is invented. -/
theorem ext_fallback_refused {α : Type} (raw : Frame) (code : Int) (get : Int → Except Err α)
    (hk : get code = .error .keyError) (hi : iterations raw = .ok []) :
    withFallback raw code get = .error .noIterations := by
  simp [withFallback, hk, hi, maxDec]

/-! ## .cov / .cor / .coi files -/

/-- Fixed parameters are dropped consistently: for every square matrix whose zero pattern is
    symmetric (all sizes), the row mask and the column mask of
    `df.loc[(df != 0).any(axis=1), (df != 0).any(axis=0)]` coincide, so the result has the same
    labels on both axes, in the original order. -/
theorem fixed_dropped_consistently (m : Matrix) (n : Nat) (hlab : m.index = m.cols)
    (hc : m.cols.length = n) (hr : m.rows.length = n) (hsq : ∀ r ∈ m.rows, r.length = n)
    (hsym : ∀ i j, i < n → j < n → cellNonzero (ent m.rows i j) = cellNonzero (ent m.rows j i)) :
    keptRows m.rows = keptCols m.cols.length m.rows
      ∧ (dropZero m).index = (dropZero m).cols
      ∧ List.Sublist (dropZero m).index m.index
      ∧ (dropZero m).rows = (selectMask m.rows (keptRows m.rows)).map (fun r => selectMask r (keptRows m.rows)) := by
  have hk : keptRows m.rows = keptCols m.cols.length m.rows := by
    rw [hc]; exact keptRows_eq_keptCols m.rows n hr hsq hsym
  refine ⟨hk, ?_, ?_, ?_⟩
  · simp only [dropZero, hlab, hk]
  · exact selectMask_sublist _ _
  · simp only [dropZero, hk]

/-- The full statement without symmetry is false: with an asymmetric zero pattern the row and
    column masks differ and the result is not square-labelled. -/
theorem fixed_dropped_witness :
    let m : Matrix := ⟨[['A'], ['B']], [['A'], ['B']], [[some ['1'], some ['1']], [some ['0'], some ['0']]]⟩
    (dropZero m).index = [['A']] ∧ (dropZero m).cols = [['A'], ['B']] := by
  decide +kernel

/-! ## $TABLE output: repeated header lines -/

/-- Every repeated header line (a line `\s[A-Za-z_]…`) after the first line is removed and every
    other line is kept, in order — for any number of lines. -/
theorem repeated_headers_dropped (h : Str) (rest : List Str) :
    dropRepeatedHeaders (h :: rest) = h :: rest.filter (fun l => !looksLikeHeader l) := rfl

/-- In a file where header copies are the lines matching `\\s[A-Za-z_]` (flag `true`) and data lines
    do not match (flag `false`), exactly the data lines survive, in order. -/
theorem repeated_headers_removed (h : Str) (ls : List (Bool × Str))
    (hh : ∀ p ∈ ls, looksLikeHeader p.2 = p.1) :
    dropRepeatedHeaders (h :: ls.map (·.2)) = h :: (ls.filter (fun p => !p.1)).map (·.2) := by
  simp only [dropRepeatedHeaders, List.filter_map]
  congr 2
  apply List.filter_congr
  intro p hp
  simp [Function.comp, hh p hp]

/-- A data line whose first field is a right-justified number that fits (it starts with a digit or a
    minus sign, `numeric_cell_head`) is never mistaken
    for a repeated header line (and is kept by `dropRepeatedHeaders`). -/
theorem data_line_not_header (w : Nat) (cell : Cell) (rest : Str) (hnum : ∀ s, cell ≠ .label s)
    (hfit : (renderCell cell).length < w) :
    looksLikeHeader (padLeft w (renderCell cell) ++ rest) = false := by
  obtain ⟨c, t, hct, hc⟩ := numeric_cell_head cell hnum
  have hnotalpha : (isAlpha c || c == '_') = false := by
    rcases hc with hc | hc
    · simp only [isDig, Bool.and_eq_true, decide_eq_true_eq] at hc
      have h9 : c ≤ '9' := hc.2
      have e1 : isAlpha c = false := by
        simp only [isAlpha, isUpper, isLower, Bool.or_eq_false_iff, Bool.and_eq_false_iff, decide_eq_false_iff_not]
        constructor
        · left; intro hA; exact absurd (Char.le_trans hA h9) (by decide)
        · left; intro ha; exact absurd (Char.le_trans ha h9) (by decide)
      have e2 : (c == '_') = false := by
        simp only [beq_eq_false_iff_ne, ne_eq]; intro e; subst e; exact absurd h9 (by decide)
      simp [e1, e2]
    · subst hc; decide
  obtain ⟨k, hk⟩ : ∃ k, w - (renderCell cell).length = k + 1 := ⟨w - (renderCell cell).length - 1, by omega⟩
  have e : padLeft w (renderCell cell) = blanks (k + 1) ++ renderCell cell := by simp [padLeft, hk]
  rw [e, hct]
  cases k with
  | zero =>
    have : blanks (0 + 1) ++ c :: t ++ rest = ' ' :: c :: (t ++ rest) := by simp [blanks]
    rw [this]
    simp only [looksLikeHeader, hnotalpha, Bool.and_false]
  | succ k =>
    have : blanks (k + 1 + 1) ++ c :: t ++ rest = ' ' :: ' ' :: (blanks k ++ c :: t ++ rest) := by
      simp [blanks, List.replicate_succ]
    rw [this]
    simp [looksLikeHeader, isAlpha, isUpper, isLower]

/-! ## rename_index -/

/-- Reordering to THETA, OMEGA, SIGMA loses and duplicates nothing: for every list of labels that
    each start with THETA, OMEGA or SIGMA (any length, any order — NONMEM writes THETA, SIGMA,
    OMEGA) the new order is a permutation of the old one. -/
theorem rename_order_perm (cols : List Str)
    (h : ∀ c ∈ cols, startsWith thetaP c = true ∨ startsWith omegaP c = true ∨ startsWith sigmaP c = true) :
    List.Perm (orderedLabels cols) cols := by
  induction cols with
  | nil => simp [orderedLabels]
  | cons c cs ih =>
    have ih' := ih (fun x hx => h x (by simp [hx]))
    have hd := prefixes_disjoint c
    unfold orderedLabels at ih' ⊢
    rcases h c (by simp) with ht | ho | hs
    · obtain ⟨ho, hs⟩ := hd.1 ht
      simp only [List.filter_cons, ht, ho, hs, if_true, Bool.false_eq_true, if_false, List.cons_append]
      exact List.Perm.cons c ih'
    · have hs := hd.2 ho
      have ht : startsWith thetaP c = false := by
        cases hx : startsWith thetaP c with
        | false => rfl
        | true => have := (hd.1 hx).1; rw [ho] at this; cases this
      simp only [List.filter_cons, ht, ho, hs, if_true, Bool.false_eq_true, if_false]
      have : List.Perm (List.filter (startsWith thetaP) cs ++ c :: List.filter (startsWith omegaP) cs
            ++ List.filter (startsWith sigmaP) cs)
          (c :: (List.filter (startsWith thetaP) cs ++ List.filter (startsWith omegaP) cs
            ++ List.filter (startsWith sigmaP) cs)) := by
        rw [List.append_assoc, List.append_assoc]
        exact List.perm_middle
      exact this.trans (List.Perm.cons c ih')
    · have ht : startsWith thetaP c = false := by
        cases hx : startsWith thetaP c with
        | false => rfl
        | true => have := (hd.1 hx).2; rw [hs] at this; cases this
      have ho : startsWith omegaP c = false := by
        cases hx : startsWith omegaP c with
        | false => rfl
        | true => have := hd.2 hx; rw [hs] at this; cases this
      simp only [List.filter_cons, ht, ho, hs, if_true, Bool.false_eq_true, if_false]
      exact List.perm_middle.trans (List.Perm.cons c ih')

/-- `THETAn` becomes `THETA(n)` for every n. -/
theorem rename_theta (n : Nat) :
    renameTheta (thetaP ++ natDigits n) = thetaP ++ '(' :: natDigits n ++ [')'] := by
  have h1 : thetaP = ['T', 'H', 'E', 'T', 'A'] := by decide
  have h5 : "THETA".toList = ['T', 'H', 'E', 'T', 'A'] := by decide
  have h6 : "THETA(".toList = ['T', 'H', 'E', 'T', 'A', '('] := by decide
  have htd : takeDigits (natDigits n) = (natDigits n, []) := takeDigits_all _ (natDigits_allDig n)
  obtain ⟨c, t, hct⟩ : ∃ c t, natDigits n = c :: t := by
    cases h : natDigits n with
    | nil => exact absurd h (natDigits_ne_nil n)
    | cons c t => exact ⟨c, t, rfl⟩
  rw [h1]
  unfold renameTheta
  simp only [List.cons_append, List.nil_append, List.length_cons]
  rw [renameThetaAux]
  simp only [startsWith, h5, h6, List.isPrefixOf, beq_self_eq_true, Bool.and_self, if_true,
    List.drop_succ_cons, List.drop_zero, htd, renameThetaAux_nil]
  simp [hct]

/-- The THETA renaming is injective on NONMEM's theta labels (no two parameters get one name). -/
theorem rename_theta_injective (a b : Nat)
    (h : renameTheta (thetaP ++ natDigits a) = renameTheta (thetaP ++ natDigits b)) : a = b := by
  rw [rename_theta, rename_theta] at h
  have h1 : thetaP = ['T', 'H', 'E', 'T', 'A'] := by decide
  rw [h1] at h
  simp only [List.cons_append, List.nil_append, List.cons.injEq, true_and] at h
  have hl : (natDigits a ++ [')']).length = (natDigits b ++ [')']).length := by rw [h]
  simp only [List.length_append, List.length_singleton, Nat.add_right_cancel_iff] at hl
  exact natDigits_injective (List.append_inj_left h hl)

/-- Labels without a `T` (OMEGA(i,j), SIGMA(i,j)) are not touched by the renaming. -/
theorem rename_other_unchanged (fuel : Nat) (cs : Str) (h : ∀ c ∈ cs, c ≠ 'T') :
    renameThetaAux fuel cs = cs := by
  induction fuel generalizing cs with
  | zero => rfl
  | succ fuel ih =>
    cases cs with
    | nil => rfl
    | cons c rest =>
      have hc : c ≠ 'T' := h c (by simp)
      have h5 : "THETA".toList = ['T', 'H', 'E', 'T', 'A'] := by decide
      have hs : startsWith "THETA".toList (c :: rest) = false := by
        simp only [startsWith, h5, List.isPrefixOf, Bool.and_eq_false_imp, beq_iff_eq]
        intro e
        first | exact absurd e hc | exact absurd e.symm hc
      rw [renameThetaAux]
      simp only [hs, Bool.false_eq_true, if_false]
      rw [ih rest (fun x hx => h x (by simp [hx]))]

/-! ## tables without labels (NOLABEL / NOHEADER) -/

/-- **parse ∘ render = id for header-less tables**: every record written is read as a data row
    (none is taken as a header), the columns are labelled by position 0…n-1, and every numeric
    cell text denotes exactly the number written — for any number of columns and records. -/
theorem parse_render_nolabel (t : RefTable) (h : t.fitsRecords = true) (hne : t.rows ≠ []) :
    readFrameNoHeader (renderRecords t)
        = .ok ⟨positions t.cols.length, t.rows.map (fun r => r.map (fun c => some (renderCell c)))⟩
      ∧ ∀ r ∈ t.rows, ∀ c ∈ r, ∀ d, cellDec c = some d → parseNum (renderCell c) = some d := by
  simp only [RefTable.fitsRecords, Bool.and_eq_true, Bool.not_eq_eq_eq_not, Bool.not_true,
    List.all_eq_true] at h
  obtain ⟨hcols, hrows⟩ := h
  constructor
  · have hlines : (renderRecords t).map splitWs = t.rows.map (fun r => r.map renderCell) := by
      simp only [renderRecords, List.map_map]
      apply List.map_congr_left
      intro r hr
      exact splitWs_renderRow _ _ (hrows r hr).2
    have hrowlen : ∀ r ∈ t.rows.map (fun r => r.map renderCell), r.length = t.cols.length := by
      intro r hr
      obtain ⟨r0, hr0, rfl⟩ := List.mem_map.mp hr
      exact fitsRow_length _ _ (hrows r0 hr0).2
    have hpos : 0 < t.cols.length := by
      cases hc : t.cols with
      | nil => rw [hc] at hcols; simp at hcols
      | cons a b => simp
    have hfilter : (t.rows.map (fun r => r.map renderCell)).filter (fun x => !x.isEmpty)
        = t.rows.map (fun r => r.map renderCell) := by
      apply List.filter_eq_self.mpr
      intro x hx
      have := hrowlen x hx
      cases x with
      | nil => simp at this; omega
      | cons a b => rfl
    unfold readFrameNoHeader
    rw [hlines, hfilter]
    cases hr : t.rows.map (fun r => r.map renderCell) with
    | nil => exact absurd (by simpa using hr) hne
    | cons r0 rest =>
      have h0 : r0.length = t.cols.length := hrowlen r0 (by rw [hr]; simp)
      have hany : rest.any (fun r => decide (r.length > t.cols.length)) = false := by
        apply List.any_eq_false.mpr
        intro r hr'
        have := hrowlen r (by rw [hr]; simp [hr'])
        simp [this]
      simp only [h0, hany, Bool.false_eq_true, if_false]
      congr 2
      first
        | (apply List.map_congr_left
           intro r hr'
           have hl : (r.map renderCell).length = t.cols.length :=
             hrowlen _ (List.mem_map.mpr ⟨r, hr', rfl⟩)
           simp only [Function.comp]
           rw [padRow_full _ _ hl, List.map_map]
           rfl)
        | (rw [← hr, List.map_map]
           apply List.map_congr_left
           intro r hr'
           have hl : (r.map renderCell).length = t.cols.length :=
             hrowlen _ (List.mem_map.mpr ⟨r, hr', rfl⟩)
           simp only [Function.comp]
           rw [padRow_full _ _ hl, List.map_map]
           rfl)
  · intro r hr c hc d hd
    exact parse_render_cell c d ((hrows r hr).1 c hc) hd

/-- What a $TABLE written without labels looks like: at least one record, every record fits, the
    first column is a right-justified number (as in every $TABLE output). -/
def NolabelOk (t : RefTable) : Prop :=
  t.fitsRecords = true ∧ t.rows ≠ [] ∧ ∃ c cs, t.cols = c :: cs ∧ c.align = .right ∧
    ∀ r ∈ t.rows, ∀ cell cells, r = cell :: cells → ∀ s, cell ≠ .label s

/-- No record of such a table is mistaken for a repeated header line, or for a `TABLE NO.` line. -/
theorem nolabel_records_kept (t : RefTable) (h : NolabelOk t) :
    dropRepeatedHeaders (renderRecords t) = renderRecords t
      ∧ ∀ l ∈ renderRecords t, isTitle l = false := by
  obtain ⟨hfit, _, c, cs, hc, hal, hnum⟩ := h
  simp only [RefTable.fitsRecords, Bool.and_eq_true, List.all_eq_true] at hfit
  have hkeep : ∀ l ∈ renderRecords t, looksLikeHeader l = false := by
    intro l hl
    obtain ⟨r, hr, rfl⟩ := List.mem_map.mp hl
    have hrow := (hfit.2 r hr).2
    rw [hc] at hrow ⊢
    cases r with
    | nil => simp [fitsRow] at hrow
    | cons cell cells =>
      simp only [List.map_cons, fitsRow, Bool.and_eq_true] at hrow
      have hf := hrow.1
      simp only [fitsField, hal, Bool.and_eq_true, decide_eq_true_eq] at hf
      simp only [List.map_cons, renderRow, renderField, hal]
      exact data_line_not_header c.width cell _ (hnum _ hr cell cells rfl) hf.2
  constructor
  · cases hl : renderRecords t with
    | nil => rfl
    | cons a rest =>
      simp only [dropRepeatedHeaders]
      congr 1
      apply List.filter_eq_self.mpr
      intro x hx
      have := hkeep x (by rw [hl]; simp [hx])
      simp [this]
  · intro l hl
    obtain ⟨r, hr, rfl⟩ := List.mem_map.mp hl
    rcases renderRow_wsStart _ _ (hfit.2 r hr).2 with h0 | ⟨r', h0⟩
    · rw [h0]; decide
    · rw [h0]; simp [isTitle, startsWith, tableNoPrefix_eq, List.isPrefixOf]

/-- The whole reader on a NOTITLE + NOLABEL (NOHEADER) file:
    `NONMEMTableFile(path, notitle=True, nolabel=True)` holds one table with all records, columns
    labelled by position. -/
theorem nolabel_file_all_records (k : Kind) (t : RefTable) (h : NolabelOk t) :
    parseFile k true true (renderRecords t)
      = .ok [⟨none, .generic, ⟨positions t.cols.length,
          t.rows.map (fun r => r.map (fun c => some (renderCell c)))⟩⟩] := by
  have hdrop := (nolabel_records_kept t h).1
  simp only [parseFile, if_true, hdrop, (parse_render_nolabel t h.1 h.2.1).1]

/-- NOLABEL with title lines (`notitle=False, nolabel=True`), any number of tables: one table per
    `TABLE NO.` chunk, each with its own title metadata, all its records, position labels. -/
theorem nolabel_titled_file_all_records (ts : List (Str × Meta × RefTable)) (hne : ts ≠ [])
    (htitle : ∀ p ∈ ts, isTitle p.1 = true ∧ parseTitleLine p.1 = .ok p.2.1)
    (hok : ∀ p ∈ ts, NolabelOk p.2.2) :
    parseFile .generic false true (ts.map (fun p => p.1 :: renderRecords p.2.2)).flatten
      = .ok (ts.map (fun p => ⟨some p.2.1, .generic, ⟨positions p.2.2.cols.length,
          p.2.2.rows.map (fun r => r.map (fun c => some (renderCell c)))⟩⟩)) := by
  have hsplit : splitTables (ts.map (fun p => p.1 :: renderRecords p.2.2)).flatten
      = ts.map (fun p => p.1 :: renderRecords p.2.2) := by
    have := multi_table_split (ts.map (fun p => (p.1, renderRecords p.2.2))) (by simpa using hne)
      (by intro c hc
          obtain ⟨p, hp, rfl⟩ := List.mem_map.mp hc
          exact (htitle p hp).1)
      (by intro c hc l hl
          obtain ⟨p, hp, rfl⟩ := List.mem_map.mp hc
          exact (nolabel_records_kept _ (hok p hp)).2 l hl)
    rw [List.map_map] at this
    exact this
  simp only [parseFile, Bool.false_eq_true, if_false, hsplit]
  apply mapM_map_ok
  intro p hp
  have hk := hok p hp
  simp only [parseChunk, if_true, (nolabel_records_kept _ hk).1, (parse_render_nolabel _ hk.1 hk.2.1).1,
    (htitle p hp).2]

end Pharmpy.C20
