import PharmpyProofs.C20.Lemmas
import PharmpyModel.C20.Spec
/-
  C20 — Estimation results are read faithfully from NONMEM output.  Property theorems only.
-/
namespace Pharmpy.C20
open Pharmpy.C20.Spec

/-- Every numeric cell the reference writer produces (integer index, `d.ddd…E±xx` estimate with
    any number of decimals and any exponent, plain decimal OBJ value) is read back by the number
    grammar as exactly the decimal that was written. -/
theorem parse_render_cell (c : Cell) (d : Dec) (hok : cellOk c = true) (hd : cellDec c = some d) :
    parseNum (renderCell c) = some d := by
  apply parseNum_renderCell c d _ hd
  intro n k m e h
  subst h
  simpa [cellOk] using hok

/-- The special ITERATION codes, getters, fallbacks and post-processing that table.py's ExtTable
    properties use (regenerated from the source on every run) are the documented ones. -/
theorem ext_codes_as_documented : Generated.extProps = documentedExtProps := by
  decide

end Pharmpy.C20
