import PharmpyProofs.C20.Lemmas
import PharmpyModel.C20.Spec
/-
  C20 — lemmas about the fixed-width layout: whitespace tokenisation of rendered rows and headers.
-/
namespace Pharmpy.C20
open Pharmpy.C20.Spec

/-- Empty, or starting with a blank. -/
def WsStart (r : Str) : Prop := r = [] ∨ ∃ r', r = ' ' :: r'

theorem wsStart_nil : WsStart [] := Or.inl rfl
theorem wsStart_blank (r : Str) : WsStart (' ' :: r) := Or.inr ⟨r, rfl⟩

theorem wsStart_blanks_append (k : Nat) (r : Str) (h : 1 ≤ k ∨ WsStart r) : WsStart (blanks k ++ r) := by
  cases k with
  | zero =>
    rcases h with h | h
    · omega
    · simpa [blanks] using h
  | succ k => exact Or.inr ⟨blanks k ++ r, by simp [blanks, List.replicate_succ]⟩

theorem splitWs_blank (r : Str) : splitWs (' ' :: r) = splitWs r := by
  simp [splitWs, isWs]

theorem splitWs_blanks (k : Nat) (r : Str) : splitWs (blanks k ++ r) = splitWs r := by
  induction k with
  | zero => simp [blanks]
  | succ k ih =>
    have : blanks (k + 1) ++ r = ' ' :: (blanks k ++ r) := by simp [blanks, List.replicate_succ]
    rw [this, splitWs_blank, ih]

theorem isToken_cons {c : Char} {t : Str} (h : isToken (c :: t) = true) :
    isWs c = false ∧ (t = [] ∨ isToken t = true) := by
  simp only [isToken, List.isEmpty_cons, Bool.not_false, Bool.true_and, List.all_cons, Bool.and_eq_true,
    Bool.not_eq_eq_eq_not, Bool.not_true] at h
  refine ⟨h.1, ?_⟩
  cases t with
  | nil => exact Or.inl rfl
  | cons d t' => right; simp only [isToken, List.isEmpty_cons, Bool.not_false, Bool.true_and]; exact h.2

/-- A token followed by the end of the line or a blank is split off as it is. -/
theorem splitWs_token (t r : Str) (ht : isToken t = true) (hr : WsStart r) :
    splitWs (t ++ r) = t :: splitWs r := by
  induction t with
  | nil => simp [isToken] at ht
  | cons c t ih =>
    obtain ⟨hc, ht'⟩ := isToken_cons ht
    rcases ht' with ht' | ht'
    · subst ht'
      rcases hr with hr | ⟨r', hr⟩
      · subst hr; simp [splitWs, hc]
      · subst hr
        have hb : isWs ' ' = true := by decide
        simp [splitWs, hc, hb]
    · have ih' := ih ht'
      cases t with
      | nil => simp [isToken] at ht'
      | cons d t' =>
        obtain ⟨hd, _⟩ := isToken_cons ht'
        have e : (c :: d :: t') ++ r = c :: (d :: (t' ++ r)) := rfl
        rw [e]
        have ih2 : splitWs (d :: (t' ++ r)) = (d :: t') :: splitWs r := ih'
        rw [splitWs]
        simp only [hc, Bool.false_eq_true, if_false, hd, ih2]

/-! ### fields and rows -/

theorem renderField_shape (c : Col) (tok : Str) (h : fitsField c tok = true) :
    ∃ a b, 1 ≤ a ∧ renderField c tok = blanks a ++ (tok ++ blanks b) ∧ isToken tok = true := by
  simp only [fitsField, Bool.and_eq_true] at h
  obtain ⟨htok, hw⟩ := h
  cases hal : c.align with
  | right =>
    rw [hal] at hw
    have hw' : tok.length < c.width := by simpa using hw
    refine ⟨c.width - tok.length, 0, by omega, ?_, htok⟩
    simp [renderField, hal, padLeft, blanks]
  | left =>
    refine ⟨1, c.width - tok.length, Nat.le_refl _, ?_, htok⟩
    simp [renderField, hal, padRight, blanks]

theorem renderRow_wsStart : ∀ (cols : List Col) (toks : List Str), fitsRow cols toks = true →
    WsStart (renderRow cols toks)
  | [], [], _ => by simp [renderRow, wsStart_nil]
  | [], _ :: _, h => by simp [fitsRow] at h
  | _ :: _, [], h => by simp [fitsRow] at h
  | c :: cs, t :: ts, h => by
    simp only [fitsRow, Bool.and_eq_true] at h
    obtain ⟨a, b, ha, hs, _⟩ := renderField_shape c t h.1
    simp only [renderRow, hs, List.append_assoc]
    exact wsStart_blanks_append a _ (Or.inl ha)

/-- Tokenising a rendered row whose cells fit their fields gives back the cell texts. -/
theorem splitWs_renderRow : ∀ (cols : List Col) (toks : List Str), fitsRow cols toks = true →
    splitWs (renderRow cols toks) = toks
  | [], [], _ => by simp [renderRow, splitWs]
  | [], _ :: _, h => by simp [fitsRow] at h
  | _ :: _, [], h => by simp [fitsRow] at h
  | c :: cs, t :: ts, h => by
    simp only [fitsRow, Bool.and_eq_true] at h
    obtain ⟨a, b, _, hs, htok⟩ := renderField_shape c t h.1
    have ih := splitWs_renderRow cs ts h.2
    have hws := renderRow_wsStart cs ts h.2
    simp only [renderRow, hs, List.append_assoc]
    rw [splitWs_blanks, splitWs_token t _ htok (wsStart_blanks_append b _ (Or.inr hws)), splitWs_blanks, ih]

theorem fitsRow_length : ∀ (cols : List Col) (toks : List Str), fitsRow cols toks = true →
    toks.length = cols.length
  | [], [], _ => rfl
  | [], _ :: _, h => by simp [fitsRow] at h
  | _ :: _, [], h => by simp [fitsRow] at h
  | _ :: cs, _ :: ts, h => by
    simp only [fitsRow, Bool.and_eq_true] at h
    simp [fitsRow_length cs ts h.2]

/-! ### header -/

theorem splitWs_headerGo (w : Nat) : ∀ (names : List Str), headerOk w names = true →
    splitWs (headerGo w names) = names
  | [], h => by simp [headerOk] at h
  | [n], h => by
    simp only [headerOk] at h
    have := splitWs_token n [] h wsStart_nil
    simpa [headerGo, splitWs] using this
  | n :: m :: rest, h => by
    simp only [headerOk, Bool.and_eq_true, decide_eq_true_eq] at h
    obtain ⟨⟨hn, hlen⟩, hrest⟩ := h
    have ih := splitWs_headerGo w (m :: rest) hrest
    simp only [headerGo, padRight, List.append_assoc]
    rw [splitWs_token n _ hn (wsStart_blanks_append _ _ (Or.inl (by omega))), splitWs_blanks, ih]

theorem splitWs_renderHeader (w : Nat) (names : List Str) (h : headerOk w names = true) :
    splitWs (renderHeader w names) = names := by
  rw [renderHeader, splitWs_blank, splitWs_headerGo w names h]

theorem headerOk_ne_nil (w : Nat) (names : List Str) (h : headerOk w names = true) : names ≠ [] := by
  intro e; subst e; simp [headerOk] at h

end Pharmpy.C20
