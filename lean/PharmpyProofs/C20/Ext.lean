import PharmpyProofs.C20.Lemmas
import PharmpyModel.C20.Tables
/-
  C20 — lemmas about ExtTable row selection and the fallback to the last iteration.
-/
namespace Pharmpy.C20

/-- Does the row carry ITERATION = code?  (first cell, read as an exact decimal) -/
def rowHasIter (code : Int) (r : List (Option Str)) : Bool :=
  match cellNum (r.headD none) with
  | .ok d => isIter code d
  | .error _ => false

theorem mapM_filter {α β : Type} (g : α → Except Err β) (p : β → Bool) :
    ∀ (l : List α) (ys : List β), l.mapM g = .ok ys →
      ((l.zip ys).filter (fun q => p q.2)).map (·.1)
        = l.filter (fun a => match g a with | .ok y => p y | .error _ => false)
  | [], ys, h => by simp
  | a :: l, ys, h => by
    rw [List.mapM_cons] at h
    cases hg : g a with
    | error e => simp [hg, bind, Except.bind] at h
    | ok y =>
      cases hl : l.mapM g with
      | error e => simp [hg, hl, bind, Except.bind] at h
      | ok ys' =>
        simp only [hg, hl, bind, Except.bind, pure, Except.pure, Except.ok.injEq] at h
        subst h
        have ih := mapM_filter g p l ys' hl
        simp only [List.zip_cons_cons, List.filter_cons, hg]
        split <;> simp [ih]

/-- `df.loc[df['ITERATION'] == code]` returns exactly the rows whose ITERATION cell denotes `code`,
    in file order. -/
theorem rowsWithIter_eq (f : Frame) (code : Int) (rs : List (List (Option Str)))
    (h : rowsWithIter f code = .ok rs) : rs = f.rows.filter (rowHasIter code) := by
  unfold rowsWithIter iterColumn at h
  cases hm : f.rows.mapM (fun r => cellNum (r.headD none)) with
  | error e => rw [hm] at h; simp [bind, Except.bind] at h
  | ok its =>
    rw [hm] at h
    simp only [bind, Except.bind, pure, Except.pure, Except.ok.injEq] at h
    subst h
    have := mapM_filter (fun r => cellNum (r.headD none)) (isIter code) f.rows its hm
    rw [this]
    apply List.filter_congr
    intro r _
    unfold rowHasIter
    cases cellNum (r.headD none) <;> rfl

theorem eqv_int (i code : Int) : (Dec.mk i 0).eqv (Dec.ofInt code) = (i == code) := by
  simp [Dec.eqv, Dec.ofInt, Dec.scaled]

/-- An integer ITERATION cell written by the reference writer is recognised as `code` iff it is
    `code`. -/
theorem rowHasIter_int (i code : Int) (rest : List (Option Str)) :
    rowHasIter code (some (renderCell (.int i)) :: rest) = (i == code) := by
  have hp : parseNum (renderCell (.int i)) = some ⟨i, 0⟩ :=
    parseNum_renderCell (.int i) ⟨i, 0⟩ (by intro n k m e h; cases h) rfl
  simp [rowHasIter, cellNum, hp, isIter, eqv_int]

/-! ### max(self.iterations) -/

theorem le_int (a b : Int) : (Dec.mk a 0).le (Dec.mk b 0) = decide (a ≤ b) := by
  simp [Dec.le, Dec.scaled]

theorem foldl_max_int (ds : List Dec) (hds : ∀ d ∈ ds, d.e = 0) (d0 : Dec) (h0 : d0.e = 0) :
    let r := ds.foldl (fun a b => if a.le b then b else a) d0
    r.e = 0 ∧ (r = d0 ∨ r ∈ ds) ∧ d0.m ≤ r.m ∧ ∀ x ∈ ds, x.m ≤ r.m := by
  induction ds generalizing d0 with
  | nil => simp [h0]
  | cons b ds ih =>
    have hb : b.e = 0 := hds b (by simp)
    have hle : d0.le b = decide (d0.m ≤ b.m) := by
      cases d0; cases b; simp only at h0 hb; subst h0; subst hb; exact le_int _ _
    simp only [List.foldl_cons]
    by_cases hc : d0.m ≤ b.m
    · simp only [hle, hc, decide_true, if_true]
      obtain ⟨h1, h2, h3, h4⟩ := ih (fun d hd => hds d (by simp [hd])) b hb
      refine ⟨h1, ?_, by omega, ?_⟩
      · rcases h2 with h2 | h2
        · right; rw [h2]; simp
        · right; simp [h2]
      · intro x hx
        rcases List.mem_cons.mp hx with hx | hx
        · subst hx; exact h3
        · exact h4 x hx
    · simp only [hle, hc, decide_false, Bool.false_eq_true, if_false]
      obtain ⟨h1, h2, h3, h4⟩ := ih (fun d hd => hds d (by simp [hd])) d0 h0
      refine ⟨h1, ?_, h3, ?_⟩
      · rcases h2 with h2 | h2
        · left; exact h2
        · right; simp [h2]
      · intro x hx
        rcases List.mem_cons.mp hx with hx | hx
        · subst hx; omega
        · exact h4 x hx

/-- `max(self.iterations)` over integer iteration numbers is one of them and bounds all of them. -/
theorem maxDec_int (ds : List Dec) (hds : ∀ d ∈ ds, d.e = 0) (d : Dec) (h : maxDec ds = some d) :
    d ∈ ds ∧ d.toInt? = some d.m ∧ ∀ x ∈ ds, x.m ≤ d.m := by
  cases ds with
  | nil => simp [maxDec] at h
  | cons d0 ds =>
    simp only [maxDec, Option.some.injEq] at h
    obtain ⟨h1, h2, h3, h4⟩ := foldl_max_int ds (fun x hx => hds x (by simp [hx])) d0 (hds d0 (by simp))
    rw [h] at h1 h2 h3 h4
    refine ⟨?_, ?_, ?_⟩
    · rcases h2 with h2 | h2
      · simp [h2]
      · simp [h2]
    · simp [Dec.toInt?, h1]
    · intro x hx
      rcases List.mem_cons.mp hx with hx | hx
      · subst hx; exact h3
      · exact h4 x hx

end Pharmpy.C20
