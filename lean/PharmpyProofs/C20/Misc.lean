import PharmpyProofs.C20.Layout
/-
  C20 — small helper lemmas used by the property theorems.
-/
namespace Pharmpy.C20
open Pharmpy.C20.Spec

theorem padRow_full (n : Nat) (r : List Str) (h : r.length = n) : padRow n r = r.map some := by
  simp [padRow, h]


theorem prefixes_disjoint (c : Str) :
    (startsWith thetaP c = true → startsWith omegaP c = false ∧ startsWith sigmaP c = false)
    ∧ (startsWith omegaP c = true → startsWith sigmaP c = false) := by
  have h1 : thetaP = ['T', 'H', 'E', 'T', 'A'] := by decide
  have h2 : omegaP = ['O', 'M', 'E', 'G', 'A'] := by decide
  have h3 : sigmaP = ['S', 'I', 'G', 'M', 'A'] := by decide
  rw [h1, h2, h3]
  cases c with
  | nil => simp [startsWith, List.isPrefixOf]
  | cons a t =>
    simp only [startsWith, List.isPrefixOf, Bool.and_eq_true, beq_iff_eq, Bool.and_eq_false_imp]
    constructor
    · rintro ⟨rfl, _⟩
      constructor <;> (intro h; exact absurd h (by decide))
    · rintro ⟨rfl, _⟩ h
      exact absurd h (by decide)


theorem renameThetaAux_nil (fuel : Nat) : renameThetaAux fuel [] = [] := by
  cases fuel <;> rfl


/-- A numeric cell starts with a digit or a minus sign… -/
theorem numeric_cell_head (cell : Cell) (hnum : ∀ s, cell ≠ .label s) :
    ∃ c t, renderCell cell = c :: t ∧ (isDig c = true ∨ c = '-') := by
  have hnat : ∀ n, ∃ c t, natDigits n = c :: t ∧ isDig c = true := by
    intro n
    cases h : natDigits n with
    | nil => exact absurd h (natDigits_ne_nil n)
    | cons c t => exact ⟨c, t, rfl, natDigits_allDig n c (by rw [h]; simp)⟩
  cases cell with
  | label s => exact absurd rfl (hnum s)
  | int i =>
    simp only [renderCell]
    split
    · exact ⟨'-', _, rfl, Or.inr rfl⟩
    · obtain ⟨c, t, h1, h2⟩ := hnat i.toNat
      exact ⟨c, t, h1, Or.inl h2⟩
  | sci neg d mant exp =>
    cases neg with
    | true => exact ⟨'-', _, rfl, Or.inr rfl⟩
    | false =>
      exact ⟨digitChar (mant / 10 ^ d % 10), _, rfl, Or.inl (isDig_digitChar _)⟩
  | fix neg ip k fp =>
    cases neg with
    | true => exact ⟨'-', _, rfl, Or.inr rfl⟩
    | false =>
      obtain ⟨c, t, h1, h2⟩ := hnat ip
      exact ⟨c, t ++ '.' :: padDigits k fp, by simp [renderCell, signStr, h1], Or.inl h2⟩


theorem mapM_map_ok {α β γ : Type} (f : β → Except Err γ) (g : α → β) (hh : α → γ) :
    ∀ (l : List α), (∀ x ∈ l, f (g x) = .ok (hh x)) → (l.map g).mapM f = .ok (l.map hh)
  | [], _ => rfl
  | a :: l, h => by
    have h1 := h a (by simp)
    have ih := mapM_map_ok f g hh l (fun x hx => h x (by simp [hx]))
    simp only [List.map_cons, List.mapM_cons, h1, ih, bind, Except.bind, pure, Except.pure]

end Pharmpy.C20
