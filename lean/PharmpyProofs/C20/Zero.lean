import PharmpyModel.C20.Tables
/-
  C20 — lemmas about CovTable's removal of all-zero rows and columns.
-/
namespace Pharmpy.C20

/-- entry (i,j) of a matrix of cells (`none` = NaN, also outside the matrix). -/
def ent (rows : List (List (Option Str))) (i j : Nat) : Option Str :=
  ((rows[i]?).bind (·[j]?)).join

theorem ent_eq (rows : List (List (Option Str))) (i j : Nat) (hi : i < rows.length) :
    ent rows i j = ((rows[i])[j]?).join := by
  simp [ent, List.getElem?_eq_getElem hi]

theorem keptRows_eq_keptCols (rows : List (List (Option Str))) (n : Nat)
    (hr : rows.length = n) (hsq : ∀ r ∈ rows, r.length = n)
    (hsym : ∀ i j, i < n → j < n → cellNonzero (ent rows i j) = cellNonzero (ent rows j i)) :
    keptRows rows = keptCols n rows := by
  apply List.ext_getElem
  · simp [keptRows, keptCols, hr]
  · intro i h1 h2
    have hi : i < n := by simpa [keptCols] using h2
    have hir : i < rows.length := by omega
    simp only [keptRows, keptCols, List.getElem_map, List.getElem_range]
    rw [Bool.eq_iff_iff]
    simp only [List.any_eq_true]
    constructor
    · rintro ⟨c, hc, hnz⟩
      obtain ⟨j, hj, rfl⟩ := List.mem_iff_getElem.mp hc
      have hjn : j < n := by rw [← hsq _ (List.getElem_mem hir)]; exact hj
      have hjr : j < rows.length := by omega
      have e1 : ent rows i j = (rows[i])[j] := by
        rw [ent_eq rows i j hir, List.getElem?_eq_getElem hj]; rfl
      have hs := hsym i j hi hjn
      rw [e1, hnz] at hs
      refine ⟨rows[j], List.getElem_mem hjr, ?_⟩
      rw [← ent_eq rows j i hjr]
      exact hs.symm
    · rintro ⟨r, hrm, hnz⟩
      obtain ⟨k, hk, rfl⟩ := List.mem_iff_getElem.mp hrm
      have hkn : k < n := by omega
      have hs := hsym k i hkn hi
      rw [ent_eq rows k i hk, hnz] at hs
      have hki : k < (rows[i]).length := by rw [hsq _ (List.getElem_mem hir)]; exact hkn
      refine ⟨(rows[i])[k], List.getElem_mem hki, ?_⟩
      have e1 : ent rows i k = (rows[i])[k] := by
        rw [ent_eq rows i k hir, List.getElem?_eq_getElem hki]; rfl
      rw [← e1]
      exact hs.symm

theorem selectMask_sublist {α : Type} (xs : List α) (mask : List Bool) :
    List.Sublist (selectMask xs mask) xs := by
  induction xs generalizing mask with
  | nil => simp [selectMask]
  | cons x xs ih =>
    cases mask with
    | nil => simp [selectMask]
    | cons b mask =>
      have := ih mask
      cases b with
      | true =>
        simp only [selectMask, List.zip_cons_cons, List.filter_cons, if_true, List.map_cons] at this ⊢
        exact List.Sublist.cons_cons _ this
      | false =>
        simp only [selectMask, List.zip_cons_cons, List.filter_cons, Bool.false_eq_true, if_false] at this ⊢
        exact List.Sublist.cons _ this

end Pharmpy.C20
