import PharmpyProofs.C20.ResultsLemmas
/-
  C20 — "final estimates, standard errors, fixed flags … are taken from the rows NONMEM
  designates for them": what results.py reports for a parameter label is the entry of the
  designated row iff the parameter is not fixed — for every row, every set of labels and every
  assignment of fixed flags (any number of fixed THETAs, OMEGAs, SIGMAs, in any position).
-/
namespace Pharmpy.C20

def notFixed (fix : FixMap) (l : Str) : Bool := lookupFix fix l == some false

/-- `ser[~fix]` keeps exactly the non-fixed labels with the values of the row. -/
theorem masked_row_lookup (ser r : Row) (fix : FixMap) (h : maskNotFixed ser fix = .ok r) (l : Str) :
    lookupRow r l = if notFixed fix l then lookupRow ser l else none := by
  unfold maskNotFixed at h
  split at h
  · simp only [Except.ok.injEq] at h
    subst h
    exact lookupRow_filter (fun a => lookupFix fix a == some false) l ser
  · cases h

/-- The filter never fails because of *which* parameters are fixed: it succeeds whenever every
    label of the row has a flag — labels that have a flag but are not in the row (the THETAs, for
    the sd/corr rows -1000000004 and -1000000005) do not matter. -/
theorem mask_total (ser : Row) (fix : FixMap) (hdom : ∀ p ∈ ser, (lookupFix fix p.1).isSome = true) :
    ∃ r, maskNotFixed ser fix = .ok r := by
  refine ⟨ser.filter (fun p => lookupFix fix p.1 == some false), ?_⟩
  unfold maskNotFixed
  rw [if_pos]
  exact List.all_eq_true.mpr hdom

/-- `_parse_standard_errors` succeeds for every assignment of fixed flags (rows present, every
    label flagged): standard errors are never lost, and the covariance step is never reported as
    aborted, because some parameter — e.g. a THETA — is fixed. -/
theorem standard_errors_total (se sd : Row) (fix : FixMap)
    (h1 : ∀ p ∈ se, (lookupFix fix p.1).isSome = true) (h2 : ∀ p ∈ sd, (lookupFix fix p.1).isSome = true) :
    ∃ ses sds, parseStandardErrors (some se) (some sd) fix = .ok (.ok ses sds) := by
  obtain ⟨r1, e1⟩ := mask_total se fix h1
  obtain ⟨r2, e2⟩ := mask_total sd fix h2
  exact ⟨r1, updateRow r1 r2, by simp [parseStandardErrors, e1, e2]⟩

/-- The reported standard error of a label is the entry of row -1000000001 iff the parameter is not
    fixed (absent otherwise); `standard_errors_sdcorr` is the same with the entry of row
    -1000000005 wherever that row has one (OMEGA/SIGMA). -/
theorem standard_errors_designated (se sd ses sds : Row) (fix : FixMap)
    (h : parseStandardErrors (some se) (some sd) fix = .ok (.ok ses sds)) (l : Str) :
    lookupRow ses l = (if notFixed fix l then lookupRow se l else none)
      ∧ lookupRow sds l = (if notFixed fix l then
          (lookupRow se l).map (prefer (lookupRow sd l))
        else none) := by
  cases e1 : maskNotFixed se fix with
  | error e => simp [parseStandardErrors, e1] at h
  | ok r1 =>
    cases e2 : maskNotFixed sd fix with
    | error e => simp [parseStandardErrors, e1, e2] at h
    | ok r2 =>
      simp only [parseStandardErrors, e1, e2, Except.ok.injEq, SEOut.ok.injEq] at h
      obtain ⟨rfl, rfl⟩ := h
      have a1 := masked_row_lookup se r1 fix e1 l
      have a2 := masked_row_lookup sd r2 fix e2 l
      refine ⟨a1, ?_⟩
      rw [lookupRow_updateRow, a1, a2]
      by_cases hn : notFixed fix l = true
      · simp only [hn, if_true]
      · simp [hn]

/-- Row -1000000001 absent: no standard errors, covariance step not flagged as aborted; row
    -1000000005 absent (and only then): flagged as aborted. -/
theorem standard_errors_abort_iff (se : Row) (sd : Option Row) (fix : FixMap)
    (h1 : ∀ p ∈ se, (lookupFix fix p.1).isSome = true)
    (h2 : ∀ s, sd = some s → ∀ p ∈ s, (lookupFix fix p.1).isSome = true) :
    parseStandardErrors (some se) sd fix = .ok .aborted ↔ sd = none := by
  obtain ⟨r1, e1⟩ := mask_total se fix h1
  cases sd with
  | none => simp [parseStandardErrors, e1]
  | some s =>
    obtain ⟨r2, e2⟩ := mask_total s fix (h2 s rfl)
    simp [parseStandardErrors, e1, e2]

/-- `parameter_estimates`: the entry of the final-estimates row for every label that is not a fixed
    parameter column, nothing for the fixed ones; `parameter_estimates_sdcorr` likewise with the
    entries of row -1000000004 where it has them. -/
theorem estimates_designated (final sd pe sdc : Row) (fix : FixMap) (cols : List Str)
    (h : parseEstimates final (some sd) fix cols = .ok (pe, sdc)) (l : Str) :
    lookupRow pe l = (if cols.contains l && (lookupFix fix l == some true) then none else lookupRow final l)
      ∧ lookupRow sdc l = (lookupRow pe l).map
          (prefer (if notFixed fix l then lookupRow sd l else none)) := by
  by_cases hc1 : (cols.all (fun c => (lookupFix fix c).isSome)) = true
  · by_cases hc2 : ((cols.filter (fun c => lookupFix fix c == some true)).all
        (fun c => (lookupRow final c).isSome)) = true
    · cases e2 : maskNotFixed sd fix with
      | error e => simp [parseEstimates, hc1, hc2, e2] at h
      | ok r2 =>
        simp only [parseEstimates, hc1, hc2, e2, if_true, Except.ok.injEq, Prod.mk.injEq] at h
        obtain ⟨rfl, rfl⟩ := h
        have a1 := lookupRow_filter
          (fun a => !(cols.filter (fun c => lookupFix fix c == some true)).contains a) l final
        rw [contains_filter] at a1
        have a2 := masked_row_lookup sd r2 fix e2 l
        constructor
        · rw [a1]
          cases hc : (cols.contains l && (lookupFix fix l == some true)) <;> simp
        · rw [lookupRow_updateRow, a2]
    · simp [parseEstimates, hc1, hc2] at h
  · simp [parseEstimates, hc1] at h

/-- Row -1000000004 absent: `parameter_estimates_sdcorr` is reported for exactly the parameters of
    `parameter_estimates`, every value missing (NaN) — it is indexed by parameter, not by anything
    else (df197aa). -/
theorem estimates_sdcorr_absent_row (final pe sdc : Row) (fix : FixMap) (cols : List Str)
    (h : parseEstimates final none fix cols = .ok (pe, sdc)) :
    sdc.map (·.1) = pe.map (·.1) ∧ ∀ p ∈ sdc, p.2 = none := by
  by_cases hc1 : (cols.all (fun c => (lookupFix fix c).isSome)) = true
  · by_cases hc2 : ((cols.filter (fun c => lookupFix fix c == some true)).all
        (fun c => (lookupRow final c).isSome)) = true
    · simp only [parseEstimates, hc1, hc2, if_true, Except.ok.injEq, Prod.mk.injEq] at h
      obtain ⟨rfl, rfl⟩ := h
      constructor
      · simp [List.map_map, Function.comp]
      · intro p hp
        obtain ⟨q, _, rfl⟩ := List.mem_map.mp hp
        rfl
    · simp [parseEstimates, hc1, hc2] at h
  · simp [parseEstimates, hc1] at h

end Pharmpy.C20
