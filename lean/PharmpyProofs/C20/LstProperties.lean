import PharmpyModel.C20.Lst
/-
  C20 — "numbers pharmpy reports from a NONMEM run are the numbers in the output files": what is
  reported for table number n of a run comes from the blocks of THAT run's .lst file only.
-/
namespace Pharmpy.C20

variable {β : Type}

theorem lookup_assign (t : LstTable β) (b : Nat × β) (n : Nat) :
    lookupBlock (assignBlock t b) n = if b.1 == n then some b.2 else lookupBlock t n := by
  unfold assignBlock
  by_cases hany : t.any (fun p => p.1 == b.1) = true
  · rw [if_pos hany]
    induction t with
    | nil => simp at hany
    | cons p t ih =>
      simp only [lookupBlock, List.map_cons, List.find?_cons]
      by_cases hp : (p.1 == b.1) = true
      · have e : p.1 = b.1 := by simpa using hp
        simp only [hp, if_true]
        by_cases hb : (b.1 == n) = true
        · simp [hb]
        · have : (p.1 == n) = false := by rw [e]; simpa using hb
          simp only [hb, Bool.false_eq_true, if_false, this]
          -- the rest of the list: entries with key b.1 are replaced by b, whose key is not n
          have hrest : ∀ (l : LstTable β), Option.map (·.2) (List.find? (fun q => q.1 == n)
              (l.map (fun q => if q.1 == b.1 then b else q))) = Option.map (·.2) (List.find? (fun q => q.1 == n) l) := by
            intro l
            induction l with
            | nil => rfl
            | cons q l ihl =>
              simp only [List.map_cons, List.find?_cons]
              by_cases hq : (q.1 == b.1) = true
              · have eq : q.1 = b.1 := by simpa using hq
                have : (q.1 == n) = false := by rw [eq]; simpa using hb
                simp only [hq, if_true, hb, this]
                exact ihl
              · simp only [hq, Bool.false_eq_true, if_false]
                by_cases hqn : (q.1 == n) = true
                · simp [hqn]
                · simp only [hqn]; exact ihl
          exact hrest t
      · simp only [hp, Bool.false_eq_true, if_false]
        have hany' : t.any (fun p => p.1 == b.1) = true := by
          simpa [List.any_cons, hp] using hany
        by_cases hpn : (p.1 == n) = true
        · have e : p.1 = n := by simpa using hpn
          have : (b.1 == n) = false := by
            cases hb : (b.1 == n) with
            | false => rfl
            | true => have : b.1 = n := by simpa using hb
                      rw [← this] at e; rw [e] at hp; simp at hp
          simp [hpn, this]
        · simp only [hpn]
          exact ih hany'
  · rw [if_neg hany]
    have hnone : ∀ q ∈ t, (q.1 == b.1) = false := by
      intro q hq
      cases h : (q.1 == b.1) with
      | false => rfl
      | true => exact absurd (List.any_eq_true.mpr ⟨q, hq, h⟩) hany
    simp only [lookupBlock, List.find?_append, List.find?_cons, List.find?_nil]
    by_cases hb : (b.1 == n) = true
    · have e : b.1 = n := by simpa using hb
      have : t.find? (fun p => p.1 == n) = none := by
        apply List.find?_eq_none.mpr
        intro q hq
        rw [← e]; simp [hnone q hq]
      simp [this, hb]
    · simp only [hb, Bool.false_eq_true, if_false]
      cases t.find? (fun p => p.1 == n) <;> simp

/-- What a new instance answers for table number n: the LAST block of its own file with that number,
    whatever was read before. -/
theorem lst_lookup_from (init : LstTable β) (blocks : List (Nat × β)) (n : Nat) :
    lookupBlock (lstTableFrom init blocks) n
      = match blocks.reverse.find? (fun p => p.1 == n) with
        | some b => some b.2
        | none => lookupBlock init n := by
  induction blocks generalizing init with
  | nil => simp [lstTableFrom]
  | cons b blocks ih =>
    simp only [lstTableFrom, List.foldl_cons] at ih ⊢
    rw [ih (assignBlock init b), List.reverse_cons, List.find?_append]
    cases hr : blocks.reverse.find? (fun p => p.1 == n) with
    | some c => simp
    | none =>
      simp only [Option.none_or, List.find?_cons, List.find?_nil, lookup_assign]
      by_cases hb : (b.1 == n) = true <;> simp [hb]

/-- A table number that the run's .lst file does not contain has NO entry (KeyError → the run is
    reported with False / NaN for it) — for every file, in particular for a file cut off before its
    first `#TBLN:` (no blocks at all). -/
theorem lst_missing_block (blocks : List (Nat × β)) (n : Nat) (h : ∀ b ∈ blocks, b.1 ≠ n) :
    lookupBlock (lstTable blocks) n = none := by
  unfold lstTable
  rw [lst_lookup_from]
  have : blocks.reverse.find? (fun p => p.1 == n) = none := by
    apply List.find?_eq_none.mpr
    intro q hq
    have := h q (List.mem_reverse.mp hq)
    simpa using this
  simp [this, lookupBlock]

/-- History independence: the i-th run of any sequence read in one process is read exactly as if it
    were read alone. -/
theorem lst_history_independent (before after : List (List (Nat × β))) (run : List (Nat × β)) :
    (readRuns (before ++ run :: after))[before.length]? = some (lstTable run) := by
  simp [readRuns]

/-- With one dictionary shared by all instances this fails: after a complete run, a run whose file
    has no block answers with the other run's block. -/
theorem lst_shared_state_witness :
    (readRunsShared [] [[(1, 107)], []])[1]? = some [(1, 107)]
      ∧ (readRuns [[(1, 107)], ([] : List (Nat × Nat))])[1]? = some [] := by
  decide

end Pharmpy.C20
