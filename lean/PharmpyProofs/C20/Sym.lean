import PharmpyModel.C20.Tables
/-
  C20 — lemmas about flattened_to_symmetric: triangular numbers, the integer square root,
  the row-by-row filling of the lower triangle.
-/
namespace Pharmpy.C20

theorem tri_mono {a b : Nat} (h : a ≤ b) : tri a ≤ tri b := by
  induction b with
  | zero => have : a = 0 := by omega
            subst this; exact Nat.le_refl _
  | succ b ih =>
    by_cases hab : a = b + 1
    · subst hab; exact Nat.le_refl _
    · have := ih (by omega)
      simp only [tri]; omega

theorem two_tri (n : Nat) : 2 * tri n = n * (n + 1) := by
  induction n with
  | zero => rfl
  | succ n ih =>
    simp only [tri]
    have e1 : (n + 1) * (n + 1 + 1) = n * (n + 1) + 2 * (n + 1) := by
      rw [Nat.mul_comm n (n + 1), Nat.mul_comm 2 (n + 1), ← Nat.mul_add (n + 1) n 2]
    rw [e1]
    omega

theorem isqrtUpTo_eq (k m n : Nat) (h1 : n * n ≤ m) (h2 : m < (n + 1) * (n + 1)) (hk : n ≤ k) :
    isqrtUpTo k m = n := by
  induction k with
  | zero => have : n = 0 := by omega
            subst this; rfl
  | succ k ih =>
    simp only [isqrtUpTo]
    split
    · rename_i hle
      -- (k+1)² ≤ m < (n+1)²  ⇒  k+1 ≤ n
      by_cases hkn : k + 1 ≤ n
      · omega
      · exfalso
        have : n + 1 ≤ k + 1 := by omega
        have := Nat.mul_le_mul this this
        omega
    · rename_i hgt
      have : n ≠ k + 1 := by intro e; subst e; exact hgt h1
      exact ih (by omega)

theorem triangularRoot_tri (n : Nat) : triangularRoot (tri n) = n := by
  unfold triangularRoot
  rw [two_tri]
  apply isqrtUpTo_eq
  · exact Nat.mul_le_mul_left n (Nat.le_succ n)
  · exact Nat.mul_lt_mul_of_lt_of_le (Nat.lt_succ_self n) (Nat.le_refl _) (Nat.succ_pos n)
  · cases n with
    | zero => exact Nat.le_refl _
    | succ n => exact Nat.le_mul_of_pos_right _ (Nat.succ_pos _)

/-- start of row `i` when the first row has `k+1` entries. -/
def off : Nat → Nat → Nat
  | _, 0 => 0
  | k, i + 1 => (k + 1) + off (k + 1) i

theorem off_eq (k i : Nat) : off k i = i * k + tri i := by
  induction i generalizing k with
  | zero => simp [off, tri]
  | succ i ih =>
    simp only [off, tri, ih (k + 1)]
    rw [Nat.mul_add i k 1, Nat.add_mul i 1 k]
    omega

theorem lowerRows_get {α : Type} (n : Nat) : ∀ (k : Nat) (x : List α) (i : Nat), i < n →
    (lowerRows k n x)[i]? = some ((x.drop (off k i)).take (k + i + 1)) := by
  induction n with
  | zero => intro k x i h; omega
  | succ n ih =>
    intro k x i h
    cases i with
    | zero => simp [lowerRows, off]
    | succ i =>
      simp only [lowerRows, List.getElem?_cons_succ]
      rw [ih (k + 1) (x.drop (k + 1)) i (by omega)]
      simp only [off, List.drop_drop]
      congr 2
      omega

theorem lower_entry {α : Type} (n : Nat) (x : List α) (i j : Nat) (hi : i < n) (hj : j ≤ i) :
    ((lowerRows 0 n x)[i]?).bind (·[j]?) = x[tri i + j]? := by
  rw [lowerRows_get n 0 x i hi]
  simp only [Option.bind_some, off_eq, Nat.mul_zero, Nat.zero_add]
  rw [List.getElem?_take]
  have : j < i + 1 := by omega
  simp [this]

end Pharmpy.C20
