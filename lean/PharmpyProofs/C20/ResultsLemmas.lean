import PharmpyModel.C20.Results
/-
  C20 — lemmas about label → value rows: lookup after filtering by label, after `update`.
-/
namespace Pharmpy.C20

theorem find_filter_key {α : Type} (q : Str → Bool) (a : Str) (l : List (Str × α)) :
    (l.filter (fun p => q p.1)).find? (fun p => p.1 == a)
      = if q a then l.find? (fun p => p.1 == a) else none := by
  induction l with
  | nil => simp
  | cons p l ih =>
    by_cases hq : q p.1 = true
    · simp only [List.filter_cons, hq, if_true, List.find?_cons]
      by_cases hpa : (p.1 == a) = true
      · have : p.1 = a := by simpa using hpa
        simp [hpa, ← this, hq]
      · simp only [hpa, Bool.false_eq_true]
        exact ih
    · simp only [List.filter_cons, hq, Bool.false_eq_true, if_false, List.find?_cons]
      by_cases hpa : (p.1 == a) = true
      · have : p.1 = a := by simpa using hpa
        have hqa : q a = false := by rw [← this]; simpa using hq
        rw [ih]
        simp [hqa]
      · simp only [hpa, Bool.false_eq_true]
        exact ih

theorem lookupRow_filter (q : Str → Bool) (a : Str) (r : Row) :
    lookupRow (r.filter (fun p => q p.1)) a = if q a then lookupRow r a else none := by
  unfold lookupRow
  rw [find_filter_key q a r]
  split <;> simp

/-- one entry of `updateRow` -/
def updEntry (other : Row) (p : Str × Option Str) : Str × Option Str :=
  match lookupRow other p.1 with
  | some (some v) => (p.1, some v)
  | _ => p

theorem updateRow_eq (base other : Row) : updateRow base other = base.map (updEntry other) := rfl

theorem updEntry_fst (other : Row) (p : Str × Option Str) : (updEntry other p).1 = p.1 := by
  unfold updEntry; split <;> rfl

/-- the value `update` leaves: the other row's value when it has a non-missing one -/
def prefer (o : Option (Option Str)) (b : Option Str) : Option Str :=
  match o with
  | some (some v) => some v
  | _ => b

theorem updEntry_snd (other : Row) (p : Str × Option Str) :
    (updEntry other p).2 = prefer (lookupRow other p.1) p.2 := by
  unfold updEntry prefer
  split
  · rename_i v h; simp [h]
  · rfl

theorem lookupRow_updateRow (base other : Row) (a : Str) :
    lookupRow (updateRow base other) a
      = (lookupRow base a).map (prefer (lookupRow other a)) := by
  rw [updateRow_eq]
  induction base with
  | nil => rfl
  | cons p base ih =>
    have step : lookupRow (List.map (updEntry other) (p :: base)) a
        = if (p.1 == a) = true then some (updEntry other p).2
          else lookupRow (List.map (updEntry other) base) a := by
      simp only [lookupRow, List.map_cons, List.find?_cons, updEntry_fst]
      by_cases hpa : (p.1 == a) = true <;> simp [hpa]
    have step2 : lookupRow (p :: base) a
        = if (p.1 == a) = true then some p.2 else lookupRow base a := by
      simp only [lookupRow, List.find?_cons]
      by_cases hpa : (p.1 == a) = true <;> simp [hpa]
    rw [step, step2]
    by_cases hpa : (p.1 == a) = true
    · have e : p.1 = a := by simpa using hpa
      rw [if_pos hpa, if_pos hpa, updEntry_snd, e]
      rfl
    · simp only [hpa, Bool.false_eq_true, if_false]
      exact ih

theorem contains_filter (p : Str → Bool) (cols : List Str) (a : Str) :
    (cols.filter p).contains a = (cols.contains a && p a) := by
  induction cols with
  | nil => simp
  | cons c cols ih =>
    by_cases hc : p c = true
    · simp only [List.filter_cons, hc, if_true, List.contains_cons, ih]
      by_cases hac : (a == c) = true
      · have : a = c := by simpa using hac
        simp [this, hc]
      · simp [hac]
    · simp only [List.filter_cons, hc, Bool.false_eq_true, if_false, List.contains_cons, ih]
      by_cases hac : (a == c) = true
      · have : a = c := by simpa using hac
        subst this
        simp [hc]
      · simp [hac]

end Pharmpy.C20
