/-
  C20 — "final estimates … and objective values are taken from the rows NONMEM designates for them":
  `_get_iter_df` + `_parse_ofv` on the .ext table of the last estimation step.
-/
import PharmpyModel.C20.IterDf
namespace Pharmpy.C20.IterDf

/-- The result rows of `_get_iter_df` all carry a non-negative ITERATION (every frame, every order). -/
theorem iter_rows_nonneg (rows : List InRow) (out : List OutRow) (h : getIterDf rows = .ok out)
    (hz : rows.any (fun r => r.iter == 0) = true) : ∀ o ∈ out, o.iter ≥ 0 := by
  unfold getIterDf at h
  simp only [hz, Bool.not_true, Bool.false_and, Bool.false_eq_true, ↓reduceIte] at h
  split at h
  · cases h
  · simp only [Out.ok.injEq] at h
    subst h
    intro o ho
    have := (List.mem_filter.mp ho).2
    simpa using this

/-- When the designated row agrees with the last iteration (the normal end of a run), no row is added and no
    row is relabelled: the history is exactly the rows of the file with ITERATION ≥ 0, in file order. -/
theorem iter_rows_are_file_rows (rows : List InRow) (lastq : Nat × InRow)
    (hz : rows.any (fun r => r.iter == 0) = true)
    (hl : lastWhere (fun r => r.iter ≥ 0) rows = some lastq)
    (hagree : objNe (finalObjOf rows) lastq.2.obj = false) :
    getIterDf rows = .ok (((indexed rows).map (fun q => (⟨q.2.iter, some q.1⟩ : OutRow))).filter (fun o => o.iter ≥ 0)) := by
  unfold getIterDf
  simp only [hz, Bool.not_true, Bool.false_and, Bool.false_eq_true, ↓reduceIte, hl]
  rw [if_neg (by rw [hagree]; simp)]

/-- `objNe` is false only for two equal, non-NaN values. -/
theorem objNe_false_iff (a b : Obj) : objNe a b = false ↔ ∃ v, a = some v ∧ b = some v := by
  cases a with
  | none => simp [objNe]
  | some x =>
    cases b with
    | none => simp [objNe]
    | some y => simp [objNe]; exact eq_comm

/-- **Designated row, partial.**  If the frame has iteration 0, a last non-negative iteration whose OBJ is
    a number, and the first row -1000000000 has that same OBJ, the reported final objective value is the OBJ of the
    designated row. -/
theorem final_ofv_designated_partial (rows : List InRow) (lastq fq : Nat × InRow) (v : Int)
    (hz : rows.any (fun r => r.iter == 0) = true)
    (hl : lastWhere (fun r => r.iter ≥ 0) rows = some lastq)
    (hf1 : firstWhere (fun r => r.iter == FINAL) rows = some fq)
    (hfl : lastWhere (fun r => r.iter == FINAL) rows = some fq)            -- one designated row
    (hv : fq.2.obj = some v) (hlast : lastq.2.obj = some v)
    (hsrc : rows[lastq.1]? = some lastq.2)
    (hlastout : ((((indexed rows).map (fun q => (⟨q.2.iter, some q.1⟩ : OutRow))).filter (fun o => o.iter ≥ 0)).getLast?) = some ⟨lastq.2.iter, some lastq.1⟩) :
    reportedFinalOfv rows = some (some v) := by
  have hagree : objNe (finalObjOf rows) lastq.2.obj = false := by
    simp [finalObjOf, hfl, hv, hlast, objNe]
  unfold reportedFinalOfv
  rw [iter_rows_are_file_rows rows lastq hz hl hagree]
  simp only [hlastout, outObj, hsrc, Option.bind_some, hlast, Option.isNone_some, Bool.false_eq_true, ↓reduceIte]
  simp [tableFinalOfv, hf1, hv]

/-- The hypotheses of `final_ofv_designated_partial` are met by an ordinary table. -/
example : reportedFinalOfv [⟨0, some 5⟩, ⟨10, some 3⟩, ⟨FINAL, some 3⟩, ⟨FINAL - 1, some 0⟩] = some (some 3) := by decide

/-- **The full statement is false of the code** (Bayesian / importance-sampling steps, where the designated row holds
    an average that differs from the last iteration): the row -1000000000 says 2, pharmpy reports NaN, and the history gets the
    designated row as iteration 11 followed by a row of NaNs. -/
theorem final_ofv_designated_false_witness :
    let rows : List InRow := [⟨0, some 5⟩, ⟨10, some 3⟩, ⟨FINAL, some 2⟩, ⟨FINAL - 1, some 0⟩]
    tableFinalOfv rows = some 2 ∧ reportedFinalOfv rows = some none ∧
    getIterDf rows = .ok [⟨0, some 0⟩, ⟨10, some 1⟩, ⟨11, some 2⟩, ⟨12, none⟩] := by decide

/-- No designated row (an interrupted run): NaN is reported and the history ends with a row of NaNs. -/
theorem no_designated_row_nan (rows : List InRow) (lastq : Nat × InRow)
    (hz : rows.any (fun r => r.iter == 0) = true)
    (hnf : rows.any (fun r => r.iter == FINAL) = false)
    (hl : lastWhere (fun r => r.iter ≥ 0) rows = some lastq) :
    reportedFinalOfv rows = some none := by
  have hlw : lastWhere (fun r => r.iter == FINAL) rows = none := by
    unfold lastWhere
    have : (indexed rows).filter (fun q => q.2.iter == FINAL) = [] := by
      rw [List.filter_eq_nil_iff]
      intro q hq
      unfold indexed at hq
      simp only [List.mem_map] at hq
      obtain ⟨p, hp, rfl⟩ := hq
      have hmem : p.1 ∈ rows := List.fst_mem_of_mem_zipIdx hp
      have := List.any_eq_false.mp hnf p.1 hmem
      simpa using this
    simp [this]
  have hfw : firstWhere (fun r => r.iter == FINAL) rows = none := by
    unfold firstWhere
    rw [List.find?_eq_none]
    intro q hq
    unfold indexed at hq
    simp only [List.mem_map] at hq
    obtain ⟨p, hp, rfl⟩ := hq
    have hmem : p.1 ∈ rows := List.fst_mem_of_mem_zipIdx hp
    have := List.any_eq_false.mp hnf p.1 hmem
    simpa using this
  unfold reportedFinalOfv getIterDf
  simp only [hz, Bool.not_true, Bool.false_and, Bool.false_eq_true, ↓reduceIte, hl, finalObjOf, hlw, hfw, objNe]
  have hn : (0 : Int) ≤ lastq.2.iter + 1 := by
    have : lastq.2.iter ≥ 0 := by
      unfold lastWhere at hl
      have hm := List.mem_of_getLast? hl
      have := (List.mem_filter.mp hm).2
      simpa using this
    omega
  simp [List.filter_append, hn, outObj]

/-- No iteration 0 but a designated row (evaluation only; a step printed without iteration 0): the history is the
    designated row as iteration 0 — wherever it stands in the file (true since the /repo repair of `_get_iter_df`). -/
theorem no_zero_designated (rows : List InRow) (fq : Nat × InRow)
    (hz : rows.any (fun x => x.iter == 0) = false)
    (hone : (indexed rows).filter (fun q => q.2.iter == FINAL) = [fq]) :
    getIterDf rows = .ok [⟨0, some fq.1⟩] := by
  have hf : rows.any (fun x => x.iter == FINAL) = true := by
    have hm : fq ∈ (indexed rows).filter (fun q => q.2.iter == FINAL) := by rw [hone]; simp
    have h1 := List.mem_filter.mp hm
    unfold indexed at h1
    obtain ⟨p, hp, hpe⟩ := List.mem_map.mp h1.1
    rw [List.any_eq_true]
    refine ⟨p.1, List.fst_mem_of_mem_zipIdx hp, ?_⟩
    have := h1.2
    rw [← hpe] at this
    simpa using this
  unfold getIterDf
  simp only [hz, hf, Bool.not_false, Bool.and_self, ↓reduceIte, hone, List.map_nil]

/-- … and the reported final objective value is then the OBJ of the designated row. -/
theorem no_zero_designated_ofv (rows : List InRow) (fq : Nat × InRow) (v : Int)
    (hz : rows.any (fun x => x.iter == 0) = false)
    (hone : (indexed rows).filter (fun q => q.2.iter == FINAL) = [fq])
    (hsrc : rows[fq.1]? = some fq.2) (hv : fq.2.obj = some v)
    (hfirst : firstWhere (fun r => r.iter == FINAL) rows = some fq) :
    reportedFinalOfv rows = some (some v) := by
  unfold reportedFinalOfv
  rw [no_zero_designated rows fq hz hone]
  simp [outObj, hsrc, hv, tableFinalOfv, hfirst]

example : reportedFinalOfv [⟨1, some 1⟩, ⟨18, some 6⟩, ⟨30, some 3⟩, ⟨FINAL, some 3⟩, ⟨FINAL - 1, some 0⟩] = some (some 3) := by decide

/-- Before the repair the label, not the position, was addressed: with the designated row anywhere but first the
    history ended in a row of NaNs (and NaN was reported). -/
theorem first_branch_old_witness :
    firstBranchOld [⟨1, some 1⟩, ⟨30, some 3⟩, ⟨FINAL, some 3⟩] = [⟨FINAL, some 2⟩, ⟨0, none⟩] ∧
    getIterDf [⟨1, some 1⟩, ⟨30, some 3⟩, ⟨FINAL, some 3⟩] = .ok [⟨0, some 2⟩] := by decide

end Pharmpy.C20.IterDf
